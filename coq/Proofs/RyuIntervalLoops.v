(* Proofs/RyuIntervalLoops.v — stage 3: the digit-removal loops of step 4 of float64ToDecimal, run from
   EXACT step-3 values, end in a state to which Proofs/RyuIntervalFinal.v applies: the result is a certified
   shortest decimal (checker body [cert]) at the level n of removed digits.

   Abstract setting (one integer scale): float unit u = A, decimal unit at level n: Dn n = B * 10^n;
   r = mv A, a = mm A = r - g u (g = 1 or 2), p = mp A = r + 2 u, pe = p or p - 1 (bound excluded).
   Requirements on what step 3 hands over (section hypotheses I1..I6) are deliberately weak at level 0, where
   the flags of the Go code are not always exact (see Proofs/RyuIntervalStep3.v). *)
From QF Require Import Base.Prelude Model.Ryu.
From QF Require Import Proofs.RyuArith Proofs.RyuShortest Proofs.RyuIntervalFinal.
Local Open Scope N_scope.

(* lia after replacing every quotient / remainder by an opaque variable (zify would otherwise expand them
   into non-linear equations, on which lia can run away) *)
Ltac hide_dm :=
  repeat match goal with
         | H : context [N.modulo ?x ?y] |- _ => let v := fresh "md" in set (v := N.modulo x y) in *; clearbody v
         | |- context [N.modulo ?x ?y] => let v := fresh "md" in set (v := N.modulo x y) in *; clearbody v
         | H : context [N.div ?x ?y] |- _ => let v := fresh "dv" in set (v := N.div x y) in *; clearbody v
         | |- context [N.div ?x ?y] => let v := fresh "dv" in set (v := N.div x y) in *; clearbody v
         end.
Ltac hlia := hide_dm; lia.

(* ------------------------------------------------------------------ divisibility helpers *)

Lemma mod0_mul (a D : N) : 0 < D ->
  (a mod (10 * D) =? 0) = (a mod D =? 0) && ((a / D) mod 10 =? 0).
Proof.
  intro HD. rewrite (N.mul_comm 10 D), N.mod_mul_r by lia.
  destruct (N.eqb_spec (a mod D) 0) as [E|E]; cbn [andb].
  - rewrite E, N.add_0_l.
    destruct (N.eqb_spec ((a / D) mod 10) 0) as [F|F].
    + rewrite F. rewrite N.mul_0_r. reflexivity.
    + apply N.eqb_neq. intro K. apply F. nia.
  - apply N.eqb_neq. intro K. apply N.eq_add_0 in K as [K _]. contradiction.
Qed.

Lemma mod_split10 (a D : N) : 0 < D -> a mod (10 * D) = (a / D) mod 10 * D + a mod D.
Proof. intro HD. rewrite (N.mul_comm 10 D), N.mod_mul_r by lia. lia. Qed.

Lemma mod0_trans (a b c : N) : b <> 0 -> c <> 0 -> a mod (c * b) = 0 -> a mod b = 0.
Proof.
  intros Hb Hc H. apply N.mod_divide in H; [|lia]. apply N.mod_divide; [exact Hb|].
  destruct H as [k Hk]. exists (k * c). lia.
Qed.

Lemma div_div10 (a D : N) : 0 < D -> a / D / 10 = a / (10 * D).
Proof. intro H. rewrite N.div_div by lia. f_equal. lia. Qed.

Definition Dn (B : N) (n : nat) : N := B * 10 ^ N.of_nat n.

Lemma Dn_S B n : Dn B (S n) = 10 * Dn B n.
Proof. unfold Dn. rewrite Nat2N.inj_succ, N.pow_succ_r'. lia. Qed.

Lemma Dn_0 B : Dn B 0 = B.
Proof. unfold Dn. cbn. lia. Qed.

Lemma Dn_pos B n : 0 < B -> 0 < Dn B n.
Proof. intro H. unfold Dn. pose proof (N.pow_nonzero 10 (N.of_nat n) ltac:(lia)). nia. Qed.

(* if 5 B does not divide r, neither does 5 (B 10^n) *)
Lemma not_div5 (r B : N) (n : nat) : 0 < B -> r mod (5 * B) <> 0 -> r mod (5 * Dn B n) <> 0.
Proof.
  intros HB H K. apply H. unfold Dn in K.
  replace (5 * (B * 10 ^ N.of_nat n)) with (10 ^ N.of_nat n * (5 * B)) in K by lia.
  apply (mod0_trans r (5 * B) (10 ^ N.of_nat n)); [lia| |exact K].
  apply N.pow_nonzero. lia.
Qed.

Lemma digit_ge5 (l rho D' : N) : 5 <= l -> 10 * D' <= 2 * (l * D' + rho).
Proof. intro H. assert (5 * D' <= l * D') by (apply N.mul_le_mono_r; exact H). lia. Qed.

Lemma digit_le4 (l rho D' : N) : l <= 4 -> rho < D' -> 2 * (l * D' + rho) < 10 * D'.
Proof. intros H R. assert (l * D' <= 4 * D') by (apply N.mul_le_mono_r; exact H). lia. Qed.

Lemma tie_arith (l rho D' : N) : rho < D' -> 2 * (l * D' + rho) = 10 * D' -> l = 5 /\ rho = 0.
Proof.
  intros R T. destruct (N.le_gt_cases l 4) as [L|L].
  - pose proof (digit_le4 l rho D' L R). lia.
  - destruct (N.eq_dec l 5) as [->|NE]; [lia|].
    assert (6 * D' <= l * D') by (apply N.mul_le_mono_r; lia). lia.
Qed.

Lemma div100 x : x / 100 = x / 10 / 10.
Proof. rewrite N.div_div by discriminate. reflexivity. Qed.

Lemma round100 x : (50 <=? x mod 100) = (5 <=? (x / 10) mod 10).
Proof.
  change 100 with (10 * 10). rewrite N.mod_mul_r by discriminate.
  pose proof (N.mod_upper_bound x 10 ltac:(discriminate)).
  set (l := x mod 10) in *. set (h := (x / 10) mod 10). clearbody l h.
  destruct (N.leb_spec 5 h); destruct (N.leb_spec 50 (l + 10 * h)); try reflexivity; lia.
Qed.


Section Loops.
  Variables (ab : bool) (a r p u g B : N).
  Hypothesis Hu : 0 < u.
  Hypothesis HB : 0 < B.
  Hypothesis Hg : g = 1 \/ g = 2.
  Hypothesis Hr : r = a + g * u.
  Hypothesis Hp : p = r + 2 * u.
  Let pe := p - (if ab then 0 else 1).
  Let D := Dn B.
  Let Tm (n : nat) : bool := ab && (a mod D n =? 0).

  Lemma D_pos n : 0 < D n. Proof. apply Dn_pos. exact HB. Qed.
  Lemma D_S n : D (S n) = 10 * D n. Proof. apply Dn_S. Qed.
  Lemma kD_nz k n : k <> 0 -> k * D n <> 0.
  Proof. intro Hk. apply N.neq_mul_0. split; [exact Hk|]. apply N.neq_0_lt_0. apply D_pos. Qed.

  Lemma Tm_S n : Tm (S n) = Tm n && ((a / D n) mod 10 =? 0).
  Proof. unfold Tm. rewrite D_S, mod0_mul by apply D_pos. rewrite andb_assoc. reflexivity. Qed.

  (* the look-ahead invariant of the flag vrIsTrailingZeros together with lastRemovedDigit *)
  (* level-0 alternative for a set flag: the value is not exact, but its next digit is neither 0 nor 5 (the
     flag dies at once and no exact half can be claimed) — this is what the Go test "mv has q-1 trailing
     zero bits" (instead of q) amounts to for negative exponents *)
  Definition alt0 : Prop := (r / B) mod 10 <> 0 /\ (r / B) mod 10 <> 5 /\ r mod (5 * B) <> 0.
  Definition Qv (n : nat) (t : bool) (l : N) : Prop :=
    (t && (l =? 0) = true -> r mod D n = 0 \/ (n = 0%nat /\ alt0)) /\
    (t && (l =? 0) = false -> r mod (5 * D n) <> 0).
  (* what the flag and the digit mean at level n >= 1 *)
  Definition FQ (n : nat) (t : bool) (l : N) : Prop :=
    match n with
    | O => l = 0
    | S n' => l = (r / D n') mod 10 /\ (t = true -> l = 5 -> r mod D n' = 0) /\
              (t = false -> r mod (5 * D n') <> 0)
    end.

  Lemma Qv_step n t l :
    Qv n t l ->
    let t' := t && (l =? 0) in let l' := (r / D n) mod 10 in
    Qv (S n) t' l' /\ FQ (S n) t' l'.
  Proof.
    intros [Q1 Q2] t' l'. split.
    - split.
      + intro H. apply andb_true_iff in H as [H1 H2]. apply N.eqb_eq in H2. left.
        destruct (Q1 H1) as [Q1'|[Zn (A1 & _)]].
        2:{ exfalso. apply A1. subst n. unfold l' in H2. unfold D in H2. rewrite Dn_0 in H2. exact H2. }
        rename Q1' into Q1e. rewrite D_S.
        assert (E : (r mod (10 * D n) =? 0) = true).
        { rewrite mod0_mul by apply D_pos. rewrite Q1e. fold l'. rewrite H2. reflexivity. }
        apply N.eqb_eq in E. exact E.
      + intro H. rewrite D_S. intro K.
        destruct t' eqn:ET.
        * cbn [andb] in H. apply N.eqb_neq in H. apply H.
          assert (K1 : r mod (10 * D n) = 0).
          { apply (mod0_trans r (10 * D n) 5); [apply kD_nz; discriminate|discriminate|exact K]. }
          assert (E : (r mod (10 * D n) =? 0) = true) by (apply N.eqb_eq; exact K1).
          rewrite mod0_mul in E by apply D_pos. apply andb_true_iff in E as [_ E].
          apply N.eqb_eq in E. exact E.
        * apply (Q2 ET).
          apply (mod0_trans r (5 * D n) 10); [apply kD_nz; discriminate|discriminate|].
          replace (10 * (5 * D n)) with (5 * (10 * D n)) by (clear; lia). exact K.
    - cbn [FQ]. split; [reflexivity|]. split; [|exact Q2].
      intros T L5. destruct (Q1 T) as [Q1'|[Zn (_ & A2 & _)]]; [exact Q1'|].
      exfalso. apply A2. subst n. unfold l' in L5. unfold D in L5. rewrite Dn_0 in L5. exact L5.
  Qed.

  (* ---------------------------------------------------------------- what the final digit says *)

  (* lastRemovedDigit after the "round to even" adjustment *)
  Definition adj_last (t : bool) (l vr : N) : N := if t && (l =? 5) && (vr mod 2 =? 0) then 4 else l.

  Lemma even_mod2 x : N.even x = (x mod 2 =? 0).
  Proof.
    rewrite <- N.bit0_mod, N.bit0_odd, <- N.negb_even.
    destruct (N.even x); reflexivity.
  Qed.

  Lemma up_spec n t l :
    FQ n t l -> (n = 0%nat -> B = 1) ->
    let vr := r / D n in let fr := r mod D n in
    let up := 5 <=? adj_last t l vr in
    (up = true -> D n <= 2 * fr /\ (2 * fr = D n -> N.even vr = false)) /\
    (up = false -> 2 * fr <= D n /\ (2 * fr = D n -> N.even vr = true)).
  Proof.
    intros F H0 vr fr up.
    destruct n as [|n'].
    - cbn [FQ] in F. subst l. specialize (H0 eq_refl).
      assert (E : fr = 0). { unfold fr, D. rewrite Dn_0, H0. apply N.mod_1_r. }
      assert (ED : D 0 = 1). { unfold D. rewrite Dn_0. exact H0. }
      unfold up, adj_last. change (0 =? 5) with false. rewrite andb_false_r. cbn [andb].
      change (5 <=? 0) with false. split; [discriminate|]. intros _. rewrite E, ED. split; lia.
    - cbn [FQ] in F. destruct F as (El & F1 & F2).
      assert (Efr : fr = l * D n' + r mod D n').
      { unfold fr. rewrite D_S, mod_split10 by apply D_pos. rewrite El. reflexivity. }
      assert (Evr : vr = r / D n' / 10).
      { unfold vr. rewrite D_S. symmetry. apply div_div10. apply D_pos. }
      pose proof (N.mod_upper_bound r (D n') ltac:(pose proof (D_pos n'); lia)) as Hrho.
      pose proof (D_pos n') as HD'.
      assert (Hl : l < 10) by (rewrite El; apply N.mod_upper_bound; lia).
      set (rho := r mod D n') in *. rewrite D_S. set (D' := D n') in *.
      (* a tie forces rho = 0 and l = 5, and then 5 D' divides r *)
      assert (TIE : 2 * fr = 10 * D' -> l = 5 /\ rho = 0 /\ t = true).
      { intro T. rewrite Efr in T.
        destruct (tie_arith l rho D' Hrho T) as [L5 R0]. split; [exact L5|]. split; [exact R0|].
        destruct t; [reflexivity|exfalso]. apply (F2 eq_refl).
        pose proof (N.div_mod r D' ltac:(lia)) as DM. fold rho in DM. rewrite R0, N.add_0_r in DM.
        pose proof (N.div_mod (r / D') 10 ltac:(lia)) as DM2. rewrite <- El, L5 in DM2.
        rewrite DM, DM2. replace (D' * (10 * (r / D' / 10) + 5)) with ((2 * (r / D' / 10) + 1) * (5 * D')) by lia.
        apply N.mod_mul. apply N.neq_mul_0. split; [discriminate|]. apply N.neq_0_lt_0. exact HD'. }
      unfold up, adj_last. clearbody rho D'. clear El.
      destruct (t && (l =? 5) && (vr mod 2 =? 0)) eqn:ADJ.
      + change (5 <=? 4) with false. split; [discriminate|]. intros _.
        apply andb_true_iff in ADJ as [ADJ A3]. apply andb_true_iff in ADJ as [A1 A2].
        apply N.eqb_eq in A2. subst t l. specialize (F1 eq_refl eq_refl). rewrite F1 in Efr.
        split; [hlia|]. intros _. rewrite even_mod2. exact A3.
      + destruct (5 <=? l) eqn:L5; [apply N.leb_le in L5|apply N.leb_gt in L5].
        * split; [|discriminate]. intros _. split; [rewrite Efr; apply digit_ge5; exact L5|].
          intro T. destruct (TIE T) as (T1 & T2 & T3). subst l t. cbn [andb] in ADJ.
          change (5 =? 5) with true in ADJ. cbn [andb] in ADJ. rewrite even_mod2. exact ADJ.
        * split; [discriminate|]. intros _.
          assert (LT : 2 * fr < 10 * D') by (rewrite Efr; apply digit_le4; [lia|exact Hrho]).
          split; [hlia|]. intro T. hlia.
  Qed.

  (* ---------------------------------------------------------------- step-3 hand-over *)

  Variables (vr0 vp0 vm0 : N) (vmTZ0 vrTZ0 : bool).
  Hypothesis I1 : vr0 = r / B.
  Hypothesis I2 : vm0 = a / B.
  Hypothesis I3 : vp0 / 10 = pe / (10 * B).
  Hypothesis I4 : vmTZ0 = true -> ab = true /\ a mod B = 0.
  Hypothesis I4' : vmTZ0 && (vm0 mod 10 =? 0) = ab && (a mod (10 * B) =? 0).
  Hypothesis I5 : vrTZ0 = true -> r mod B = 0 \/ alt0.
  Hypothesis I5' : vrTZ0 = false -> r mod (5 * B) <> 0.
  Hypothesis I6 : B = 1 \/ 10 * B <= u.
  Hypothesis Ivp : vp0 < 2 ^ 64.

  (* ---------------------------------------------------------------- general case: invariants *)

  Definition GI (n : nat) (s : gstate) : Prop :=
    g_removed s = Z.of_nat n /\ g_vr s = r / D n /\ g_vm s = a / D n /\
    g_vp s / 10 = pe / D (S n) /\ (n <> 0%nat -> g_vp s = pe / D n) /\ (n = 0%nat -> g_vp s = vp0) /\
    (g_vmTZ s = true -> Tm n = true) /\
    g_vmTZ s && (g_vm s mod 10 =? 0) = Tm (S n) /\
    (n <> 0%nat -> g_vmTZ s = Tm n) /\
    Qv n (g_vrTZ s) (g_last s) /\ FQ n (g_vrTZ s) (g_last s).

  Definition g_next (s : gstate) (tz : bool) : gstate :=
    {| g_vr := g_vr s / 10; g_vp := g_vp s / 10; g_vm := g_vm s / 10;
       g_vmTZ := tz; g_vrTZ := g_vrTZ s && (g_last s =? 0);
       g_last := u8 (g_vr s mod 10); g_removed := i32 (g_removed s + 1) |}.

  Lemma u8_digit x : u8 (x mod 10) = x mod 10.
  Proof. unfold u8. apply N.mod_small. pose proof (N.mod_upper_bound x 10 ltac:(lia)). lia. Qed.

  Lemma GI_next n s tz :
    (n < 1000)%nat -> GI n s -> tz = Tm (S n) -> GI (S n) (g_next s tz).
  Proof.
    intros Hn (G1 & G2 & G3 & G4 & G5 & G5' & G6 & G7 & G8 & G9 & G10) Htz.
    pose proof (D_pos n) as HDn. pose proof (D_pos (S n)) as HDs.
    unfold GI, g_next. cbn [g_removed g_vr g_vm g_vp g_vmTZ g_vrTZ g_last].
    rewrite u8_digit.
    pose proof (Qv_step n _ _ G9) as QF. cbv zeta in QF. rewrite <- G2 in QF. destruct QF as [Q' F'].
    assert (Evm : g_vm s / 10 = a / D (S n)) by (rewrite G3, D_S; apply div_div10; exact HDn).
    refine (conj _ (conj _ (conj _ (conj _ (conj _ (conj _ (conj _ (conj _ (conj _ (conj _ _)))))))))).
    - rewrite G1. rewrite i32_small by lia. lia.
    - rewrite G2, D_S. apply div_div10. exact HDn.
    - exact Evm.
    - rewrite G4, (D_S (S n)). apply div_div10. exact HDs.
    - intros _. exact G4.
    - intro K. discriminate K.
    - intro K. rewrite <- Htz. exact K.
    - rewrite Htz, Evm. symmetry. apply Tm_S.
    - intros _. exact Htz.
    - exact Q'.
    - exact F'.
  Qed.

  Lemma GI_0 :
    GI 0 {| g_vr := vr0; g_vp := vp0; g_vm := vm0; g_vmTZ := vmTZ0; g_vrTZ := vrTZ0; g_last := 0; g_removed := 0%Z |}.
  Proof.
    unfold GI. cbn [g_removed g_vr g_vm g_vp g_vmTZ g_vrTZ g_last].
    assert (E0 : D 0 = B) by apply Dn_0.
    assert (E1 : D 1 = 10 * B) by (rewrite D_S, E0; reflexivity).
    refine (conj _ (conj _ (conj _ (conj _ (conj _ (conj _ (conj _ (conj _ (conj _ (conj _ _)))))))))).
    - reflexivity.
    - rewrite E0. exact I1.
    - rewrite E0. exact I2.
    - rewrite E1. exact I3.
    - intro K. contradiction.
    - reflexivity.
    - intro K. unfold Tm. rewrite E0. destruct (I4 K) as [-> ->]. reflexivity.
    - unfold Tm. rewrite E1. exact I4'.
    - intro K. contradiction.
    - unfold Qv. rewrite E0. change (0 =? 0) with true. rewrite andb_true_r. split; [|exact I5'].
      intro T. destruct (I5 T) as [K|K]; [left; exact K|right; split; [reflexivity|exact K]].
    - cbn [FQ]. reflexivity.
  Qed.

  (* ---------------------------------------------------------------- general case: the two loops *)

  Definition Eexit (s : gstate) : Prop := g_vp s / 10 <= g_vm s / 10.

  Lemma pow10_S' (f : nat) : 10 ^ N.of_nat (S f) = 10 * 10 ^ N.of_nat f.
  Proof. rewrite Nat2N.inj_succ. apply N.pow_succ_r'. Qed.

  Lemma div10_lt (x P : N) : x < 10 * P -> x / 10 < P.
  Proof. intro H. apply N.div_lt_upper_bound; [hlia|exact H]. Qed.

  Lemma gen_loop1_inv : forall fuel n s,
    GI n s -> g_vp s < 10 ^ N.of_nat fuel -> (1 <= fuel)%nat -> (n + fuel < 1000)%nat ->
    exists n' s', gen_loop1 fuel s = Ok s' /\ GI n' s' /\ (n' <= n + fuel)%nat /\ Eexit s' /\
                  ((s' = s /\ n' = n) \/ g_vm s' < g_vp s').
  Proof.
    induction fuel as [|f IH]; intros n s G Hvp Hf Hn; [hlia|].
    cbn [gen_loop1]. destruct (g_vp s / 10 <=? g_vm s / 10) eqn:E.
    - apply N.leb_le in E. exists n, s. split; [reflexivity|]. split; [exact G|]. split; [hlia|].
      split; [exact E|]. left. split; reflexivity.
    - apply N.leb_gt in E.
      change {| g_vr := g_vr s / 10; g_vp := g_vp s / 10; g_vm := g_vm s / 10;
                g_vmTZ := g_vmTZ s && (g_vm s mod 10 =? 0);
                g_vrTZ := g_vrTZ s && (g_last s =? 0);
                g_last := u8 (g_vr s mod 10); g_removed := i32 (g_removed s + 1) |}
        with (g_next s (g_vmTZ s && (g_vm s mod 10 =? 0))).
      set (s1 := g_next s (g_vmTZ s && (g_vm s mod 10 =? 0))).
      assert (G1 : GI (S n) s1).
      { apply GI_next; [hlia|exact G|]. destruct G as (_ & _ & _ & _ & _ & _ & _ & G7 & _). exact G7. }
      rewrite pow10_S' in Hvp.
      assert (Hvp1 : g_vp s1 < 10 ^ N.of_nat f) by (cbn [s1 g_next g_vp]; apply div10_lt; exact Hvp).
      destruct f as [|f'].
      { exfalso. change (10 ^ N.of_nat 0) with 1 in Hvp1. cbn [s1 g_next g_vp] in Hvp1.
        assert (g_vp s / 10 = 0) by hlia. rewrite H in E. hlia. }
      destruct (IH (S n) s1 G1 Hvp1 ltac:(hlia) ltac:(hlia)) as (n' & s' & E1 & G' & Hn' & EX & ALT).
      exists n', s'. split; [exact E1|]. split; [exact G'|]. split; [hlia|]. split; [exact EX|].
      right. destruct ALT as [[-> _]|ALT]; [|exact ALT]. cbn [s1 g_next g_vm g_vp]. exact E.
  Qed.

  Hypothesis Ha : 0 < a.

  Lemma gen_loop2_inv : forall fuel n s,
    GI n s -> g_vmTZ s = true -> Eexit s -> g_vm s < 10 ^ N.of_nat fuel -> (n + fuel < 1000)%nat ->
    exists n' s', gen_loop2 fuel s = Ok s' /\ GI n' s' /\ (n' <= n + fuel)%nat /\ Eexit s' /\
                  g_vmTZ s' = true /\ g_vm s' mod 10 <> 0.
  Proof.
    induction fuel as [|f IH]; intros n s G TZ EX Hvm Hn.
    - exfalso. change (10 ^ N.of_nat 0) with 1 in Hvm.
      destruct G as (_ & _ & G3 & _ & _ & _ & G6 & _). specialize (G6 TZ). unfold Tm in G6.
      apply andb_true_iff in G6 as [_ G6]. apply N.eqb_eq in G6.
      assert (NZ : D n <> 0) by (apply N.neq_0_lt_0; apply D_pos).
      pose proof (N.div_mod a (D n) NZ) as DM.
      rewrite G6, <- G3 in DM. assert (g_vm s = 0) by hlia. rewrite H in DM. hlia.
    - cbn [gen_loop2]. destruct (negb (g_vm s mod 10 =? 0)) eqn:E.
      + apply negb_true_iff, N.eqb_neq in E. exists n, s. split; [reflexivity|]. split; [exact G|].
        split; [hlia|]. split; [exact EX|]. split; [exact TZ|exact E].
      + apply negb_false_iff in E.
        change {| g_vr := g_vr s / 10; g_vp := g_vp s / 10; g_vm := g_vm s / 10;
                  g_vmTZ := g_vmTZ s; g_vrTZ := g_vrTZ s && (g_last s =? 0);
                  g_last := u8 (g_vr s mod 10); g_removed := i32 (g_removed s + 1) |}
          with (g_next s (g_vmTZ s)).
        set (s1 := g_next s (g_vmTZ s)).
        assert (G1 : GI (S n) s1).
        { apply GI_next; [hlia|exact G|]. destruct G as (_ & _ & _ & _ & _ & _ & _ & G7 & _).
          rewrite <- G7, TZ, E. reflexivity. }
        rewrite pow10_S' in Hvm.
        assert (Hvm1 : g_vm s1 < 10 ^ N.of_nat f) by (cbn [s1 g_next g_vm]; apply div10_lt; exact Hvm).
        assert (EX1 : Eexit s1).
        { unfold Eexit in *. cbn [s1 g_next g_vp g_vm]. apply N.div_le_mono; [hlia|exact EX]. }
        destruct (IH (S n) s1 G1 TZ EX1 Hvm1 ltac:(hlia)) as (n' & s' & E1 & G' & Hn' & EX' & TZ' & NZ).
        exists n', s'. split; [exact E1|]. split; [exact G'|]. split; [hlia|]. split; [exact EX'|].
        split; assumption.
  Qed.

  (* ---------------------------------------------------------------- facts shared by both cases *)

  Hypothesis Ivr : vr0 < 2 ^ 63.

  Lemma pe_ge : a + 3 * u <= pe + 1 /\ r < pe + 1 /\ pe <= p.
  Proof. unfold pe. destruct ab; destruct Hg; subst g; hlia. Qed.

  (* if the first test already stops the loop, the scale is 1 (no digit was dropped in step 3) *)
  Lemma stop_at_0 : vp0 / 10 <= vm0 / 10 -> B = 1.
  Proof.
    intro E. destruct I6 as [E1|L]; [exact E1|exfalso].
    rewrite I3, I2, div_div10 in E by exact HB.
    pose proof pe_ge as (P1 & _ & _).
    assert (NZ : 10 * B <> 0) by hlia.
    assert (K : a / (10 * B) + 1 <= pe / (10 * B)).
    { replace (a / (10 * B) + 1) with ((a + 1 * (10 * B)) / (10 * B)) by (rewrite N.div_add by exact NZ; reflexivity).
      apply N.div_le_mono; [exact NZ|]. hlia. }
    hlia.
  Qed.

  Lemma vr_n_le n : r / D n <= vr0.
  Proof.
    rewrite I1. unfold D, Dn.
    assert (NP : 10 ^ N.of_nat n <> 0) by (apply N.pow_nonzero; discriminate).
    assert (NB : B <> 0) by (apply N.neq_0_lt_0; exact HB).
    rewrite <- N.div_div by assumption.
    apply N.div_le_upper_bound; [exact NP|].
    assert (L : 1 * (r / B) <= 10 ^ N.of_nat n * (r / B)).
    { apply N.mul_le_mono_r. apply N.neq_0_lt_0 in NP. clear - NP. lia. }
    rewrite N.mul_1_l in L. exact L.
  Qed.

  Lemma at_0_ne : B = 1 -> (r / D 0 =? a / D 0) = false.
  Proof.
    intro E. unfold D. rewrite Dn_0, E, !N.div_1_r. apply N.eqb_neq. destruct Hg; subst g; hlia.
  Qed.

  Lemma bool_c1 (x : bool) : negb ab || negb (ab && x) = negb (ab && x).
  Proof. destruct ab, x; reflexivity. Qed.

  (* ---------------------------------------------------------------- general case: conclusion *)

  Theorem step4_general (e10 : Z) :
    vmTZ0 || vrTZ0 = true -> (-1000 <= e10 <= 1000)%Z ->
    let st := {| s_vr := vr0; s_vp := vp0; s_vm := vm0; s_e10 := e10; s_vmTZ := vmTZ0; s_vrTZ := vrTZ0 |} in
    (forall out e, f2d_step4 st ab = Ok (out, e) -> 0 < out) ->
    exists n out, (n < 100)%nat /\ f2d_step4 st ab = Ok (out, (e10 + Z.of_nat n)%Z) /\
                  cert ab a r p (D n) out = true.
  Proof.
    intros Hflags He10 st Hpos.
    assert (P24 : 2 ^ 64 < 10 ^ N.of_nat loop_fuel) by (vm_compute; reflexivity).
    assert (P63 : 2 ^ 63 < 2 ^ 64) by (vm_compute; reflexivity).
    unfold f2d_step4 in *. cbn [st s_vr s_vp s_vm s_e10 s_vmTZ s_vrTZ] in *. rewrite Hflags in *.
    set (s0 := {| g_vr := vr0; g_vp := vp0; g_vm := vm0; g_vmTZ := vmTZ0; g_vrTZ := vrTZ0;
                  g_last := 0; g_removed := 0%Z |}) in *.
    destruct (gen_loop1_inv loop_fuel 0 s0 GI_0) as (n1 & s1 & E1 & G1 & Hn1 & EX1 & ALT1).
    { cbn [s0 g_vp]. hlia. }
    { unfold loop_fuel. hlia. }
    { unfold loop_fuel. hlia. }
    rewrite E1 in *. cbn [obind] in *.
    (* second loop *)
    assert (S2 : exists n2 s2, (if g_vmTZ s1 then gen_loop2 loop_fuel s1 else Ok s1) = Ok s2 /\
                   GI n2 s2 /\ (n2 < 60)%nat /\ Eexit s2 /\
                   (g_vmTZ s2 && (g_vm s2 mod 10 =? 0) = false) /\
                   (g_vmTZ s2 = false -> (n2 = 0%nat /\ g_vp s2 = vp0 /\ g_vm s2 = vm0) \/ g_vm s2 < g_vp s2)).
    { destruct (g_vmTZ s1) eqn:TZ.
      - destruct (gen_loop2_inv loop_fuel n1 s1 G1 TZ EX1) as (n2 & s2 & E2 & G2 & Hn2 & EX2 & TZ2 & NZ2).
        + destruct G1 as (_ & _ & G3 & _). rewrite G3.
          assert (a / D n1 <= r / D n1).
          { apply N.div_le_mono; [apply N.neq_0_lt_0; apply D_pos|]. destruct Hg; subst g; hlia. }
          pose proof (vr_n_le n1). hlia.
        + unfold loop_fuel in *. hlia.
        + exists n2, s2. split; [exact E2|]. split; [exact G2|]. split; [unfold loop_fuel in *; hlia|].
          split; [exact EX2|]. split.
          * apply N.eqb_neq in NZ2. rewrite NZ2. apply andb_false_r.
          * rewrite TZ2. discriminate.
      - exists n1, s1. split; [reflexivity|]. split; [exact G1|]. split; [unfold loop_fuel in *; hlia|].
        split; [exact EX1|]. split; [rewrite TZ; reflexivity|]. intros _.
        destruct ALT1 as [[-> ->]|ALT1]; [left|right; exact ALT1].
        cbn [s0 g_vp g_vm]. auto. }
    destruct S2 as (n2 & s2 & E2 & G2 & Hn2 & EX2 & T2 & ALT2).
    rewrite E2 in *. cbn [obind] in *.
    destruct G2 as (R1 & R2 & R3 & R4 & R5 & R5' & R6 & R7 & R8 & R9 & R10).
    (* level 0 can only be final at scale 1 *)
    assert (Z0 : n2 = 0%nat -> B = 1).
    { intro Z. apply stop_at_0. unfold Eexit in EX2. rewrite (R5' Z) in EX2.
      rewrite R3, Z in EX2. unfold D in EX2. rewrite Dn_0 in EX2. rewrite I2. exact EX2. }
    pose proof (D_pos n2) as HDn. assert (NZD : D n2 <> 0) by (apply N.neq_0_lt_0; exact HDn).
    set (vr := r / D n2) in *. set (vm := a / D n2) in *.
    set (c1' := (g_vr s2 =? g_vm s2) && (negb ab || negb (g_vmTZ s2))) in *.
    set (last := if g_vrTZ s2 && (g_last s2 =? 5) && (g_vr s2 mod 2 =? 0) then 4 else g_last s2) in *.
    assert (Elast : last = adj_last (g_vrTZ s2) (g_last s2) vr).
    { unfold last, adj_last. rewrite R2. reflexivity. }
    assert (Ec1 : c1' = (vr =? vm) && negb (ab && (a mod D n2 =? 0))).
    { unfold c1'. rewrite R2, R3. fold vr vm.
      destruct (Nat.eq_dec n2 0) as [Z|NZ].
      - specialize (Z0 Z). pose proof (at_0_ne Z0) as NE. unfold vr, vm. rewrite Z, NE. reflexivity.
      - rewrite (R8 NZ). unfold Tm. rewrite bool_c1. reflexivity. }
    pose proof (up_spec n2 _ _ R10 Z0) as UP. cbv zeta in UP. fold vr in UP. rewrite <- Elast in UP.
    set (up := 5 <=? last) in *.
    assert (Hvr64 : vr + 1 < 2 ^ 64).
    { pose proof (vr_n_le n2). fold vr in H. clear - H Ivr P63. lia. }
    assert (Eout : (if c1' || up then u64 (g_vr s2 + 1) else g_vr s2) = (if c1' || up then vr + 1 else vr)).
    { rewrite R2. fold vr. rewrite u64_small by exact Hvr64. reflexivity. }
    rewrite Eout in *.
    assert (Ee : i32 (e10 + g_removed s2) = (e10 + Z.of_nat n2)%Z).
    { rewrite R1. apply i32_small. clear - He10 Hn2. lia. }
    rewrite Ee in *.
    exists n2, (if c1' || up then vr + 1 else vr). split; [clear - Hn2; lia|]. split; [reflexivity|].
    apply (final_cert ab a r p (D n2) u g vr vm (r mod D n2) (a mod D n2) c1' up); try assumption.
    - unfold vr. rewrite (N.mul_comm _ (D n2)). apply N.div_mod. exact NZD.
    - apply N.mod_upper_bound. exact NZD.
    - unfold vm. rewrite (N.mul_comm _ (D n2)). apply N.div_mod. exact NZD.
    - apply N.mod_upper_bound. exact NZD.
    - fold pe. unfold Eexit in EX2. rewrite R4, R3, D_S in EX2. unfold vm in EX2.
      rewrite div_div10 in EX2 by exact HDn. exact EX2.
    - rewrite <- D_S. fold (Tm (S n2)). rewrite <- R7. exact T2.
    - fold pe. intro C. rewrite Ec1 in C. apply andb_true_iff in C as [C1 C2].
      destruct (Nat.eq_dec n2 0) as [Z|NZ].
      { exfalso. pose proof (at_0_ne (Z0 Z)) as NE. unfold vr, vm in C1. rewrite Z in C1. congruence. }
      assert (TZf : g_vmTZ s2 = false).
      { rewrite (R8 NZ). unfold Tm. apply negb_true_iff in C2. exact C2. }
      destruct (ALT2 TZf) as [[Z _]|LT]; [contradiction|].
      rewrite R3, (R5 NZ) in LT. fold vm in LT.
      pose proof (N.mul_div_le pe (D n2) NZD) as M.
      assert (D n2 * (vm + 1) <= D n2 * (pe / D n2)) by (apply N.mul_le_mono_l; hlia).
      hlia.
    - apply UP.
    - apply UP.
    - apply (Hpos _ _ eq_refl).
  Qed.

  (* ---------------------------------------------------------------- common case *)

  Definition CI (n : nat) (s : cstate) : Prop :=
    c_removed s = Z.of_nat n /\ c_vr s = r / D n /\ c_vm s = a / D n /\
    c_vp s / 10 = pe / D (S n) /\ (n <> 0%nat -> c_vp s = pe / D n) /\ (n = 0%nat -> c_vp s = vp0) /\
    match n with
    | O => c_roundUp s = false
    | S n' => c_roundUp s = (5 <=? (r / D n') mod 10)
    end.

  Definition c_next10 (s : cstate) : cstate :=
    {| c_vr := c_vr s / 10; c_vp := c_vp s / 10; c_vm := c_vm s / 10;
       c_roundUp := 5 <=? c_vr s mod 10; c_removed := i32 (c_removed s + 1) |}.
  Definition c_next100 (s : cstate) : cstate :=
    {| c_vr := c_vr s / 100; c_vp := c_vp s / 100; c_vm := c_vm s / 100;
       c_roundUp := 50 <=? c_vr s mod 100; c_removed := i32 (c_removed s + 2) |}.

  Lemma CI_next10 n s : (n < 1000)%nat -> CI n s -> CI (S n) (c_next10 s).
  Proof.
    intros Hn (C1 & C2 & C3 & C4 & C5 & C5' & C6).
    pose proof (D_pos n) as HDn. pose proof (D_pos (S n)) as HDs.
    unfold CI, c_next10. cbn [c_removed c_vr c_vm c_vp c_roundUp].
    refine (conj _ (conj _ (conj _ (conj _ (conj _ (conj _ _)))))).
    - rewrite C1, i32_small by (clear - Hn; lia). clear; lia.
    - rewrite C2, D_S. apply div_div10. exact HDn.
    - rewrite C3, D_S. apply div_div10. exact HDn.
    - rewrite C4, (D_S (S n)). apply div_div10. exact HDs.
    - intros _. exact C4.
    - intro K. discriminate K.
    - rewrite C2. reflexivity.
  Qed.

  Lemma c_next100_eq s : c_next100 s = c_next10 (c_next10 s) \/ True.
  Proof. right. exact I. Qed.

  Lemma CI_next100 n s : (n < 998)%nat -> CI n s -> CI (S (S n)) (c_next100 s).
  Proof.
    intros Hn C. pose proof (CI_next10 (S n) (c_next10 s) ltac:(clear - Hn; lia) (CI_next10 n s ltac:(clear - Hn; lia) C)) as C2.
    destruct C as (C1 & Cvr & _).
    destruct C2 as (K1 & K2 & K3 & K4 & K5 & K5' & K6).
    unfold c_next10 in *. cbn [c_removed c_vr c_vm c_vp c_roundUp] in *.
    unfold CI, c_next100. cbn [c_removed c_vr c_vm c_vp c_roundUp].
    rewrite !div100, round100.
    refine (conj _ (conj _ (conj _ (conj _ (conj _ (conj _ _)))))); try assumption.
    rewrite C1, i32_small by (clear - Hn; lia). clear; lia.
  Qed.

  Lemma com_loop100_inv : forall fuel n s,
    CI n s -> c_vp s < 10 ^ N.of_nat fuel -> (1 <= fuel)%nat -> (n + 2 * fuel < 1000)%nat ->
    exists n' s', com_loop100 fuel s = Ok s' /\ CI n' s' /\ (n' <= n + 2 * fuel)%nat /\ c_vp s' <= c_vp s /\
                  ((s' = s /\ n' = n) \/ c_vm s' < c_vp s').
  Proof.
    induction fuel as [|f IH]; intros n s C Hvp Hf Hn; [clear - Hf; lia|].
    cbn [com_loop100]. destruct (c_vm s / 100 <? c_vp s / 100) eqn:E.
    - apply N.ltb_lt in E.
      change {| c_vr := c_vr s / 100; c_vp := c_vp s / 100; c_vm := c_vm s / 100;
                c_roundUp := 50 <=? c_vr s mod 100; c_removed := i32 (c_removed s + 2) |}
        with (c_next100 s).
      set (s1 := c_next100 s).
      assert (C1 : CI (S (S n)) s1) by (apply CI_next100; [clear - Hn; lia|exact C]).
      rewrite pow10_S' in Hvp.
      assert (LE : c_vp s1 <= c_vp s / 10).
      { cbn [s1 c_next100 c_vp]. rewrite div100. apply N.div_le_upper_bound; [discriminate|].
        set (y := c_vp s / 10). clearbody y. clear. lia. }
      assert (Hvp1 : c_vp s1 < 10 ^ N.of_nat f).
      { pose proof (div10_lt _ _ Hvp). clear - LE H. lia. }
      assert (LE2 : c_vp s / 10 <= c_vp s).
      { apply N.div_le_upper_bound; [discriminate|]. clear. lia. }
      destruct f as [|f'].
      { exfalso. change (10 ^ N.of_nat 0) with 1 in Hvp1. cbn [s1 c_next100 c_vp] in Hvp1.
        clear - Hvp1 E. lia. }
      destruct (IH (S (S n)) s1 C1 Hvp1 ltac:(clear; lia) ltac:(clear - Hn; lia)) as (n' & s' & E1 & C' & Hn' & LEv & ALT).
      exists n', s'. split; [exact E1|]. split; [exact C'|]. split; [clear - Hn'; lia|].
      split; [clear - LEv LE LE2; lia|].
      right. destruct ALT as [[-> _]|ALT]; [|exact ALT]. cbn [s1 c_next100 c_vm c_vp]. exact E.
    - exists n, s. split; [reflexivity|]. split; [exact C|]. split; [clear; lia|]. split; [clear; lia|].
      left. split; reflexivity.
  Qed.

  Lemma com_loop10_inv : forall fuel n s,
    CI n s -> c_vp s < 10 ^ N.of_nat fuel -> (1 <= fuel)%nat -> (n + fuel < 1000)%nat ->
    exists n' s', com_loop10 fuel s = Ok s' /\ CI n' s' /\ (n' <= n + fuel)%nat /\
                  c_vp s' / 10 <= c_vm s' / 10 /\
                  ((s' = s /\ n' = n) \/ c_vm s' < c_vp s').
  Proof.
    induction fuel as [|f IH]; intros n s C Hvp Hf Hn; [clear - Hf; lia|].
    cbn [com_loop10]. destruct (c_vm s / 10 <? c_vp s / 10) eqn:E.
    - apply N.ltb_lt in E.
      change {| c_vr := c_vr s / 10; c_vp := c_vp s / 10; c_vm := c_vm s / 10;
                c_roundUp := 5 <=? c_vr s mod 10; c_removed := i32 (c_removed s + 1) |}
        with (c_next10 s).
      set (s1 := c_next10 s).
      assert (C1 : CI (S n) s1) by (apply CI_next10; [clear - Hn; lia|exact C]).
      rewrite pow10_S' in Hvp.
      assert (Hvp1 : c_vp s1 < 10 ^ N.of_nat f) by (cbn [s1 c_next10 c_vp]; apply div10_lt; exact Hvp).
      destruct f as [|f'].
      { exfalso. change (10 ^ N.of_nat 0) with 1 in Hvp1. cbn [s1 c_next10 c_vp] in Hvp1.
        clear - Hvp1 E. lia. }
      destruct (IH (S n) s1 C1 Hvp1 ltac:(clear; lia) ltac:(clear - Hn; lia)) as (n' & s' & E1 & C' & Hn' & EX & ALT).
      exists n', s'. split; [exact E1|]. split; [exact C'|]. split; [clear - Hn'; lia|].
      split; [exact EX|].
      right. destruct ALT as [[-> _]|ALT]; [|exact ALT]. cbn [s1 c_next10 c_vm c_vp]. exact E.
    - apply N.ltb_ge in E. exists n, s. split; [reflexivity|]. split; [exact C|]. split; [clear; lia|].
      split; [exact E|]. left. split; reflexivity.
  Qed.

  Lemma CI_0 : CI 0 {| c_vr := vr0; c_vp := vp0; c_vm := vm0; c_roundUp := false; c_removed := 0%Z |}.
  Proof.
    unfold CI. cbn [c_removed c_vr c_vm c_vp c_roundUp].
    assert (E0 : D 0 = B) by apply Dn_0.
    assert (E1 : D 1 = 10 * B) by (rewrite D_S, E0; reflexivity).
    refine (conj _ (conj _ (conj _ (conj _ (conj _ (conj _ _)))))).
    - reflexivity.
    - rewrite E0. exact I1.
    - rewrite E0. exact I2.
    - rewrite E1. exact I3.
    - intro K. contradiction.
    - reflexivity.
    - reflexivity.
  Qed.

  Lemma Tm_false_up n : Tm 1 = false -> Tm (S n) = false.
  Proof.
    intro H. induction n as [|n IH]; [exact H|]. rewrite Tm_S, IH. reflexivity.
  Qed.

  (* the final decision of the common case, from the facts at loop exit *)
  Lemma common_final (n2 : nat) (s2 : cstate) :
    vmTZ0 = false -> vrTZ0 = false ->
    CI n2 s2 -> c_vp s2 / 10 <= c_vm s2 / 10 ->
    ((n2 = 0%nat /\ c_vp s2 = vp0 /\ c_vm s2 = vm0) \/ c_vm s2 < c_vp s2) ->
    0 < u64 (c_vr s2 + b2n ((c_vr s2 =? c_vm s2) || c_roundUp s2)) ->
    cert ab a r p (D n2) (u64 (c_vr s2 + b2n ((c_vr s2 =? c_vm s2) || c_roundUp s2))) = true.
  Proof.
    intros F1 F2 C2 EX2 ALT2 Hpos.
    assert (P63 : 2 ^ 63 < 2 ^ 64) by (vm_compute; reflexivity).
    destruct C2 as (R1 & R2 & R3 & R4 & R5 & R5' & R6).
    assert (Z0 : n2 = 0%nat -> B = 1).
    { intro Z. apply stop_at_0. rewrite (R5' Z) in EX2.
      rewrite R3, Z in EX2. unfold D in EX2. rewrite Dn_0 in EX2. rewrite I2. exact EX2. }
    pose proof (D_pos n2) as HDn. assert (NZD : D n2 <> 0) by (apply N.neq_0_lt_0; exact HDn).
    assert (T1 : Tm 1 = false).
    { unfold Tm. rewrite D_S. unfold D. rewrite Dn_0. rewrite <- I4', F1. reflexivity. }
    set (vr := r / D n2) in *. set (vm := a / D n2) in *.
    set (c1 := (vr =? vm) && negb (ab && (a mod D n2 =? 0))).
    assert (Ec1 : (c_vr s2 =? c_vm s2) = c1).
    { unfold c1. rewrite R2, R3.
      destruct n2 as [|n'].
      - pose proof (at_0_ne (Z0 eq_refl)) as NE. unfold vr, vm. rewrite NE. reflexivity.
      - pose proof (Tm_false_up n' T1) as TF. unfold Tm in TF. rewrite TF. cbn [negb]. rewrite andb_true_r. reflexivity. }
    set (up := c_roundUp s2) in *.
    assert (UP : (up = true -> D n2 <= 2 * (r mod D n2) /\ (2 * (r mod D n2) = D n2 -> N.even vr = false)) /\
                 (up = false -> 2 * (r mod D n2) <= D n2 /\ (2 * (r mod D n2) = D n2 -> N.even vr = true))).
    { destruct n2 as [|n'].
      - pose proof (up_spec 0 false 0 eq_refl Z0) as U. cbv zeta in U. unfold adj_last in U.
        cbn [andb] in U. change (5 <=? 0) with false in U. rewrite R6. exact U.
      - assert (FQ' : FQ (S n') false ((r / D n') mod 10)).
        { cbn [FQ]. split; [reflexivity|]. split; [discriminate|]. intros _.
          apply not_div5; [exact HB|]. exact (I5' F2). }
        pose proof (up_spec (S n') false _ FQ' ltac:(discriminate)) as U. cbv zeta in U.
        unfold adj_last in U. cbn [andb] in U. rewrite R6. exact U. }
    assert (Hvr64 : vr + 1 < 2 ^ 64).
    { pose proof (vr_n_le n2). fold vr in H. clear - H Ivr P63. lia. }
    assert (Eout : u64 (c_vr s2 + b2n ((c_vr s2 =? c_vm s2) || up)) = (if c1 || up then vr + 1 else vr)).
    { rewrite Ec1, R2. destruct (c1 || up); cbv [b2n].
      - apply u64_small. exact Hvr64.
      - rewrite N.add_0_r. apply u64_small. clear - Hvr64. lia. }
    rewrite Eout in Hpos |- *.
    apply (final_cert ab a r p (D n2) u g vr vm (r mod D n2) (a mod D n2) c1 up); try assumption.
    - unfold vr. rewrite (N.mul_comm _ (D n2)). apply N.div_mod. exact NZD.
    - apply N.mod_upper_bound. exact NZD.
    - unfold vm. rewrite (N.mul_comm _ (D n2)). apply N.div_mod. exact NZD.
    - apply N.mod_upper_bound. exact NZD.
    - fold pe. rewrite R4, R3, D_S in EX2. unfold vm in EX2.
      rewrite div_div10 in EX2 by exact HDn. exact EX2.
    - rewrite <- D_S. fold (Tm (S n2)). apply Tm_false_up. exact T1.
    - reflexivity.
    - fold pe. intro C. unfold c1 in C. apply andb_true_iff in C as [CC1 CC2].
      destruct (Nat.eq_dec n2 0) as [Z|NZ].
      { exfalso. pose proof (at_0_ne (Z0 Z)) as NE. unfold vr, vm in CC1. rewrite Z in CC1. congruence. }
      destruct ALT2 as [[Z _]|LT]; [contradiction|].
      rewrite R3, (R5 NZ) in LT. fold vm in LT.
      pose proof (N.mul_div_le pe (D n2) NZD) as M.
      assert (D n2 * (vm + 1) <= D n2 * (pe / D n2)) by (apply N.mul_le_mono_l; hlia).
      hlia.
    - apply UP.
    - apply UP.
  Qed.

  Theorem step4_common (e10 : Z) :
    vmTZ0 = false -> vrTZ0 = false -> (-1000 <= e10 <= 1000)%Z ->
    let st := {| s_vr := vr0; s_vp := vp0; s_vm := vm0; s_e10 := e10; s_vmTZ := vmTZ0; s_vrTZ := vrTZ0 |} in
    (forall out e, f2d_step4 st ab = Ok (out, e) -> 0 < out) ->
    exists n out, (n < 100)%nat /\ f2d_step4 st ab = Ok (out, (e10 + Z.of_nat n)%Z) /\
                  cert ab a r p (D n) out = true.
  Proof.
    intros F1 F2 He10 st Hpos.
    assert (P24 : 2 ^ 64 < 10 ^ N.of_nat loop_fuel) by (vm_compute; reflexivity).
    set (s0 := {| c_vr := vr0; c_vp := vp0; c_vm := vm0; c_roundUp := false; c_removed := 0%Z |}).
    destruct (com_loop100_inv loop_fuel 0 s0 CI_0) as (n1 & s1 & E1 & C1 & Hn1 & LE1 & ALT1).
    { cbn [s0 c_vp]. clear - Ivp P24. lia. }
    { unfold loop_fuel. clear; lia. }
    { unfold loop_fuel. clear; lia. }
    destruct (com_loop10_inv loop_fuel n1 s1 C1) as (n2 & s2 & E2 & C2 & Hn2 & EX2 & ALT2').
    { cbn [s0 c_vp] in LE1. clear - LE1 Ivp P24. lia. }
    { unfold loop_fuel. clear; lia. }
    { unfold loop_fuel in *. clear - Hn1. lia. }
    assert (ALT2 : (n2 = 0%nat /\ c_vp s2 = vp0 /\ c_vm s2 = vm0) \/ c_vm s2 < c_vp s2).
    { destruct ALT2' as [[-> ->]|K]; [|right; exact K].
      destruct ALT1 as [[-> ->]|K]; [left|right; exact K]. cbn [s0 c_vp c_vm]. auto. }
    assert (Hn2' : (n2 < 100)%nat) by (unfold loop_fuel in *; clear - Hn1 Hn2; lia).
    assert (EQ : f2d_step4 st ab
                 = Ok (u64 (c_vr s2 + b2n ((c_vr s2 =? c_vm s2) || c_roundUp s2)), (e10 + Z.of_nat n2)%Z)).
    { unfold f2d_step4. cbn [st s_vr s_vp s_vm s_e10 s_vmTZ s_vrTZ]. rewrite F1, F2. cbn [orb].
      fold s0. rewrite E1. cbn [obind]. rewrite E2. cbn [obind].
      destruct C2 as (R1 & _). rewrite R1. rewrite i32_small by (clear - He10 Hn2'; lia). reflexivity. }
    exists n2, (u64 (c_vr s2 + b2n ((c_vr s2 =? c_vm s2) || c_roundUp s2))).
    split; [exact Hn2'|]. split; [exact EQ|].
    apply common_final; try assumption. exact (Hpos _ _ EQ).
  Qed.
End Loops.
