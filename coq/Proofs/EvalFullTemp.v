(* Proofs/EvalFullTemp.v — the temporary column names of expression.go (tempColName): shape, legality, freshness,
   pairwise difference, and the bound under which the search for a free name cannot run out. *)
From QF Require Import Base.Prelude Model.Frame Model.Filter Model.Ops Model.Eval Proofs.OpsProofs Proofs.EvalFullBase.
Local Open Scope nat_scope.

(* ------------------------------------------------------------------ names that look like temporaries *)

Fixpoint starts_with (p s : bytes) : bool :=
  match p, s with
  | [], _ => true
  | x :: p', y :: s' => N.eqb x y && starts_with p' s'
  | _ :: _, [] => false
  end.

Lemma starts_with_app p s : starts_with p (p ++ s) = true.
Proof. induction p as [|x p IH]; simpl; [reflexivity|]. rewrite N.eqb_refl, IH. reflexivity. Qed.

(* "const-temp-", "unary-temp-" or "colcol-temp-" in front *)
Definition temp_like (n : bytes) : bool :=
  starts_with (p_const ++ temp_suffix) n || starts_with (p_unary ++ temp_suffix) n
  || starts_with (p_colcol ++ temp_suffix) n.

Definition temp_prefix (p : bytes) : Prop := p = p_const \/ p = p_unary \/ p = p_colcol.

Lemma temp_like_name p x : temp_prefix p -> temp_like (p ++ temp_suffix ++ x) = true.
Proof.
  intros [-> | [-> | ->]]; unfold temp_like; rewrite app_assoc, starts_with_app; rewrite ?orb_true_r; reflexivity.
Qed.

Lemma check_name_first c rest : c <> 39%N -> c <> 34%N -> c <> 36%N -> check_name (c :: rest) = true.
Proof.
  intros H1 H2 H3. unfold check_name, is_quoted, has_prefix1. simpl length. simpl Nat.eqb.
  apply N.eqb_neq in H1, H2, H3. rewrite H1, H2, H3. simpl. rewrite andb_false_r. reflexivity.
Qed.

Lemma temp_name_legal p x : temp_prefix p -> check_name (p ++ temp_suffix ++ x) = true /\ p ++ temp_suffix ++ x <> [].
Proof.
  intros [-> | [-> | ->]].
  - change p_const with ([99; 111; 110; 115; 116]%N). simpl app. split; [apply check_name_first|]; discriminate.
  - change p_unary with ([117; 110; 97; 114; 121]%N). simpl app. split; [apply check_name_first|]; discriminate.
  - change p_colcol with ([99; 111; 108; 99; 111; 108]%N). simpl app. split; [apply check_name_first|]; discriminate.
Qed.

(* ------------------------------------------------------------------ strconv.Itoa below 10000 is injective *)

Definition atoi (b : bytes) : nat := fold_left (fun a d => 10 * a + (N.to_nat d - 48)) b 0.

Lemma itoa_atoi_small : forallb (fun i => Nat.eqb (atoi (itoa i)) i) (seq 0 (N.to_nat 10000)) = true.
Proof. vm_compute. reflexivity. Qed.

Lemma itoa_inj_small i j : In i (seq 0 (N.to_nat 10000)) -> In j (seq 0 (N.to_nat 10000)) -> itoa i = itoa j -> i = j.
Proof.
  intros Hi Hj H. pose proof itoa_atoi_small as Hall. rewrite forallb_forall in Hall.
  pose proof (Hall i Hi) as Ei. pose proof (Hall j Hj) as Ej.
  apply Nat.eqb_eq in Ei, Ej. rewrite <- Ei, <- Ej, H. reflexivity.
Qed.

Lemma NoDup_map_local {A B} (g : A -> B) (l : list A) :
  (forall x y, In x l -> In y l -> g x = g y -> x = y) -> NoDup l -> NoDup (map g l).
Proof.
  intros Hinj Hnd. induction Hnd as [|a l Hn Hnd IH]; simpl; [constructor|].
  constructor.
  - intro Hi. apply in_map_iff in Hi as [y [Hy Hin]].
    assert (y = a) by (apply Hinj; [right; exact Hin|left; reflexivity|exact Hy]). subst. contradiction.
  - apply IH. intros x y Hx Hy. apply Hinj; right; assumption.
Qed.

(* ------------------------------------------------------------------ tempColName *)

Definition tgo (f : frame) (prefix : bytes) : nat -> nat -> outcome bytes :=
  fix go (k : nat) (i : nat) : outcome bytes :=
    match k with
    | O => Panic
    | S k' => let name := prefix ++ temp_suffix ++ itoa i in
              if contains f name then go k' (S i) else Ok name
    end.

Lemma temp_col_name_tgo f prefix : temp_col_name f prefix = tgo f prefix (N.to_nat 10000) 0.
Proof. reflexivity. Qed.

Lemma tgo_S f prefix k i :
  tgo f prefix (S k) i = if contains f (prefix ++ temp_suffix ++ itoa i) then tgo f prefix k (S i)
                         else Ok (prefix ++ temp_suffix ++ itoa i).
Proof. reflexivity. Qed.

Lemma tgo_ok f prefix : forall k i name, tgo f prefix k i = Ok name ->
  contains f name = false /\ exists j, name = prefix ++ temp_suffix ++ itoa j.
Proof.
  induction k as [|k IH]; intros i name H; [discriminate|].
  rewrite tgo_S in H. destruct (contains f (prefix ++ temp_suffix ++ itoa i)) eqn:E.
  - apply (IH (S i) name H).
  - inversion H; subst. split; [exact E|]. exists i. reflexivity.
Qed.

Lemma tgo_cases f prefix : forall k i,
  (exists name, tgo f prefix k i = Ok name)
  \/ (tgo f prefix k i = Panic /\ forall j, i <= j < i + k -> contains f (prefix ++ temp_suffix ++ itoa j) = true).
Proof.
  induction k as [|k IH]; intro i.
  - right. split; [reflexivity|]. intros j Hj. lia.
  - rewrite tgo_S. destruct (contains f (prefix ++ temp_suffix ++ itoa i)) eqn:E.
    + destruct (IH (S i)) as [Hok|[Hp Hall]]; [left; exact Hok|].
      right. split; [exact Hp|]. intros j Hj. destruct (Nat.eq_dec j i) as [->|Hne]; [exact E|]. apply Hall. lia.
    + left. eexists. reflexivity.
Qed.

(* the name returned is fresh, legal, and shaped like a temporary *)
Theorem temp_name_spec f prefix name :
  temp_prefix prefix -> temp_col_name f prefix = Ok name ->
  contains f name = false /\ temp_like name = true /\ check_name name = true /\ name <> [].
Proof.
  intros Hp H. rewrite temp_col_name_tgo in H. apply tgo_ok in H as [Hc [j ->]].
  destruct (temp_name_legal prefix (itoa j) Hp) as [H1 H2].
  repeat split; [exact Hc|apply temp_like_name; exact Hp|exact H1|exact H2].
Qed.

(* with fewer than 10000 columns the search cannot run out (the Go code panics otherwise) *)
Theorem temp_name_total f prefix :
  (N.of_nat (length (cols f)) < 10000)%N -> exists name, temp_col_name f prefix = Ok name.
Proof.
  intro Hlen. rewrite temp_col_name_tgo.
  destruct (tgo_cases f prefix (N.to_nat 10000) 0) as [Hok|[_ Hall]]; [exact Hok|]. exfalso.
  set (K := N.to_nat 10000) in *.
  set (names := map (fun j => prefix ++ temp_suffix ++ itoa j) (seq 0 K)).
  assert (Hnd : NoDup names).
  { apply NoDup_map_local; [|apply seq_NoDup]. intros x y Hx Hy He.
    apply app_inv_head in He. apply app_inv_head in He. apply itoa_inj_small; assumption. }
  assert (Hincl : incl names (col_names f)).
  { intros nm Hnm. apply in_map_iff in Hnm as [j [<- Hj]]. apply in_seq in Hj.
    apply contains_In. apply Hall. lia. }
  pose proof (NoDup_incl_length Hnd Hincl) as Hle.
  unfold names, col_names in Hle. rewrite !map_length, seq_length in Hle. subst K. lia.
Qed.
