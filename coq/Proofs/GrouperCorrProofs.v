(* Proofs/GrouperCorrProofs.v — the instances at which Corr/GrouperCorr.v uses the verified checkers meet
   the checkers' premises: row_eqb / arow_eqb decide equality of rows, and the equality built from a class
   table is a partial equivalence. *)
From QF Require Import Base.Prelude Model.Grouper Corr.GrouperCorr Proofs.GrouperHash.
Local Open Scope N_scope.

Lemma option_N_eqb_spec (a b : option N) : option_eqb N.eqb a b = true <-> a = b.
Proof.
  destruct a as [x|], b as [y|]; simpl; split; intro H; try discriminate; auto.
  - apply N.eqb_eq in H. congruence.
  - inversion H. apply N.eqb_refl.
Qed.

Lemma row_eqb_spec (a b : N * option N * N) : row_eqb a b = true <-> a = b.
Proof.
  destruct a as [[i c] h], b as [[j d] g]. unfold row_eqb. cbn [fst snd]. split.
  - intro H. destruct (N.eqb_spec i j) as [->|]; [|discriminate].
    destruct (option_eqb N.eqb c d) eqn:E; [|discriminate].
    apply option_N_eqb_spec in E. apply N.eqb_eq in H. congruence.
  - intro H. inversion H; subst. rewrite N.eqb_refl.
    rewrite (proj2 (option_N_eqb_spec d d) eq_refl). apply N.eqb_refl.
Qed.

Lemma cell_eqb_spec (a b : cell) : cell_eqb a b = true <-> a = b.
Proof.
  destruct a as [x|x|x|x|x], b as [y|y|y|y|y]; cbn [cell_eqb]; split; intro H; try discriminate.
  - apply Z.eqb_eq in H. congruence.
  - inversion H. apply Z.eqb_refl.
  - apply N.eqb_eq in H. congruence.
  - inversion H. apply N.eqb_refl.
  - apply eqb_prop in H. congruence.
  - inversion H. apply eqb_reflx.
  - destruct x as [x|], y as [y|]; simpl in H; try discriminate; auto.
    apply bytes_eqb_spec in H. congruence.
  - inversion H. destruct y as [y|]; simpl; auto. apply bytes_eqb_refl.
  - apply N.eqb_eq in H. congruence.
  - inversion H. apply N.eqb_refl.
Qed.

Lemma arow_eqb_spec (a b : N * list cell) : arow_eqb a b = true <-> a = b.
Proof.
  destruct a as [i c], b as [j d]. unfold arow_eqb. cbn [fst snd]. split.
  - intro H. destruct (N.eqb_spec i j) as [->|]; [|discriminate].
    apply (list_eqb_spec cell_eqb cell_eqb_spec) in H. congruence.
  - intro H. inversion H; subst. rewrite N.eqb_refl.
    apply (list_eqb_spec cell_eqb cell_eqb_spec). reflexivity.
Qed.

(* equality of harness-chosen classes (None = equal to nothing) is a partial equivalence *)
Definition class_eqb (a b : N * option N * N) : bool :=
  match snd (fst a), snd (fst b) with Some x, Some y => x =? y | _, _ => false end.

Lemma class_eqb_per ids : per_on class_eqb ids.
Proof.
  unfold class_eqb. split.
  - intros a b _ _. destruct (snd (fst a)), (snd (fst b)); try discriminate.
    rewrite !N.eqb_eq. congruence.
  - intros a b c _ _ _. destruct (snd (fst a)), (snd (fst b)), (snd (fst c)); try discriminate.
    rewrite !N.eqb_eq. congruence.
Qed.

(* equality rebuilt from the raw key cells is a partial equivalence *)
Lemma cells_eqb_per nulleq (ids : list (N * list cell)) :
  per_on (fun a b => key_equal nulleq (snd a) (snd b)) ids.
Proof.
  split.
  - intros a b _ _. apply key_equal_sym.
  - intros a b c _ _ _. apply key_equal_trans.
Qed.
