(* Proofs/GenStrSerProofs.v — tie T1 for the byte-level string functions: the definitions that
   tools/qf2coq/strser.go generates from internal/strings/serialize.go and convert.go (Gen/GenStrSer.v:
   AppendQuotedString, QuotedBytes, ToUpper, statement by statement; strings and slices as bytes, positions on
   Z, unicode/utf8 = Model/Utf8.v, unicode.ToUpper an arbitrary map) are equal to the hand-written models the
   engines execute: Model/Json.v append_quoted_string / quoted_bytes and Model/Match.v to_upper; at the end
   match.go's trimPercent and NewMatcher against Model/Match.v trim_percent / new_matcher.

   Conventions of the statements.
   * No premise on the byte strings or buffers: the elements are arbitrary N (also >= 256).
   * Fuel.  gst_f fuel = (O => Panic | S fuel' => body); the only fuelled loop is the byte loop of
     AppendQuotedString, entered with fuel' as its counter: it needs one unit per iteration (at most len(str))
     plus one for the exit test.  So AppendQuotedString needs len(str) + 2, QuotedBytes len(s) + 3 (the call gets
     fuel'), ToUpper 1 (its range loops are structural).
   * The model of the escaper keeps (pend, rest) = (str[p:i], str[i:]) where the code keeps the positions p, i:
     aqs_loop1_eq is the loop invariant relating the two.
   * ToUpper: the rune map of the generated side is upper : Z -> Z (int32 -> int32), the model's is
     up : N -> Z on decoded runes; the statement holds for every pair that agrees on decoded runes
     (upper (Z.of_N c) = up c), in particular for up := fun c => upper (Z.of_N c) and for
     upper := fun z => up (Z.to_N z). *)
From QF Require Import Base.Prelude Model.Utf8 Model.Json Model.Match Gen.GenStrSer.
From QF Require Import Proofs.Utf8Proofs Proofs.JsonProofs Proofs.MatchProofs.
From QF Require Gen.GenFuncs Proofs.GenFuncsProofs.

Notation zn := Z.of_nat (only parsing).

Definition ofmap {A B : Type} (f : A -> B) (o : outcome A) : outcome B :=
  match o with Ok a => Ok (f a) | Fail => Fail | Panic => Panic end.

Lemma obind_ret {A} (x : outcome A) : (do a <- x; Ok a) = x.
Proof. destruct x; reflexivity. Qed.

Lemma obind_assoc {A B C} (x : outcome A) (f : A -> outcome B) (g : B -> outcome C) :
  (do b <- (do a <- x; f a); g b) = (do a <- x; do b <- f a; g b).
Proof. destruct x; reflexivity. Qed.

(* ================================================================== the vocabulary on nat positions *)
Lemma gst_index_nat s i : gst_index s (zn i) = idx s i.
Proof. unfold gst_index. replace (zn i <? 0)%Z with false by lia. rewrite Nat2Z.id. reflexivity. Qed.

Lemma gst_index_N s n : gst_index s (Z.of_N n) = idx s (N.to_nat n).
Proof. rewrite <- (N2Nat.id n) at 1. rewrite nat_N_Z. apply gst_index_nat. Qed.

Lemma Z_land_of_N a b : Z.land (Z.of_N a) (Z.of_N b) = Z.of_N (N.land a b).
Proof. destruct a, b; reflexivity. Qed.

Lemma gst_slice_nat s p i : p <= i <= length s ->
  gst_slice s (zn p) (zn i) = Ok (firstn (i - p) (skipn p s)).
Proof.
  intros H. unfold gst_slice, gst_len.
  replace ((0 <=? zn p) && (zn p <=? zn i) && (zn i <=? zn (length s)))%Z with true by lia.
  replace (zn i - zn p)%Z with (zn (i - p)) by lia. rewrite !Nat2Z.id. reflexivity.
Qed.

Lemma gst_slice_from_nat s p : p <= length s -> gst_slice_from s (zn p) = Ok (skipn p s).
Proof.
  intros H. unfold gst_slice_from, gst_len.
  replace ((0 <=? zn p) && (zn p <=? zn (length s)))%Z with true by lia. rewrite Nat2Z.id. reflexivity.
Qed.

Lemma gst_slice_to_eq s z : gst_slice_to s z = slice_to s z.
Proof. reflexivity. Qed.

Lemma gst_slice_from_eq s z : gst_slice_from s z = slice_from s z.
Proof. reflexivity. Qed.

Lemma gst_c_chars_eq : gst_c_chars = c_chars.
Proof. reflexivity. Qed.

(* ================================================================== lists *)
Lemma skipn_nth_cons {A} (l : list A) : forall i c, nth_error l i = Some c -> skipn i l = c :: skipn (S i) l.
Proof.
  induction l as [|a l IH]; intros [|i] c H; cbn in H; try discriminate.
  - injection H as ->. reflexivity.
  - cbn [skipn]. rewrite (IH i c H). reflexivity.
Qed.

Lemma skipn_skipn {A} (l : list A) : forall a b, skipn a (skipn b l) = skipn (a + b) l.
Proof.
  induction l as [|x l IH]; intros a b.
  - rewrite !skipn_nil. reflexivity.
  - destruct b as [|b].
    + rewrite Nat.add_0_r. reflexivity.
    + rewrite Nat.add_succ_r. cbn [skipn]. apply IH.
Qed.

Lemma firstn_skipn_split {A} (l : list A) p i w : p <= i -> i + w <= length l ->
  firstn (i + w - p) (skipn p l) = firstn (i - p) (skipn p l) ++ firstn w (skipn i l).
Proof.
  intros Hp Hw.
  replace (i + w - p) with ((i - p) + w) by lia.
  rewrite <- (firstn_skipn (i - p) (skipn p l)) at 1.
  rewrite firstn_app, firstn_firstn.
  replace (Nat.min (i - p + w) (i - p)) with (i - p) by lia.
  f_equal. rewrite firstn_length, skipn_length.
  replace (i - p + w - Nat.min (i - p) (length l - p)) with w by lia.
  rewrite skipn_skipn. replace (i - p + p) with i by lia. reflexivity.
Qed.

(* ================================================================== AppendQuotedString *)
(* the test of the fast path is the model's aqs_plain, literally *)
Lemma plain_eq c :
  ((((negb (c =? 92%N)%N) && (negb (c =? 34%N)%N)) && (32%N <=? c)%N) && (c <? rune_self)%N) = aqs_plain c.
Proof. reflexivity. Qed.

(* what gst_AppendQuotedString does with the answer of its loop *)
Definition aqs_tail (str : bytes) (bp : bytes * Z) : outcome bytes :=
  let '(b, p) := bp in do t <- gst_slice_from str p; Ok ((b ++ t) ++ [34%N]).

Lemma aqs_pend_nil {A} (l : list A) i : firstn (S i - S i) (skipn (S i) l) = [].
Proof. rewrite Nat.sub_diag. reflexivity. Qed.

(* The loop invariant: with p <= i <= len(str), buf the buffer, the generated loop at (p, i) followed by the
   tail of the function is the model's loop on pend = str[p:i], rest = str[i:].  Counter k and model fuel f
   both only need to exceed / reach the number of bytes left. *)
Lemma aqs_loop1_eq : forall k f str buf p i,
  p <= i <= length str -> length str - i < k -> length str - i <= f ->
  obind (gst_AppendQuotedString_loop1 k buf str (zn p) (zn i)) (aqs_tail str)
  = aqs_loop f buf (firstn (i - p) (skipn p str)) (skipn i str).
Proof.
  induction k as [|k IH]; intros f str buf p i Hpi Hk Hf; [lia|].
  cbn [gst_AppendQuotedString_loop1]. unfold gst_len.
  destruct (nth_error str i) as [c|] eqn:Hc.
  2:{ (* i = len(str): the loop ends *)
      apply nth_error_None in Hc. assert (i = length str) as -> by lia.
      replace (zn (length str) <? zn (length str))%Z with false by lia.
      cbn [obind aqs_tail]. rewrite gst_slice_from_nat by lia. cbn [obind].
      rewrite skipn_all, aqs_loop_nil.
      rewrite firstn_all2 by (rewrite skipn_length; lia).
      rewrite <- app_assoc. reflexivity. }
  assert (Hi : i < length str) by (apply nth_error_Some; congruence).
  replace (zn i <? zn (length str))%Z with true by lia.
  rewrite gst_index_nat. unfold idx. rewrite Hc. cbn [of_option obind]. cbv zeta.
  rewrite (skipn_nth_cons str i c Hc).
  destruct f as [|f]; [lia|]. cbn [aqs_loop].
  rewrite plain_eq.
  assert (Hsnoc : firstn (S i - p) (skipn p str) = firstn (i - p) (skipn p str) ++ [c]).
  { replace (S i) with (i + 1) by lia. rewrite firstn_skipn_split by lia.
    rewrite (skipn_nth_cons str i c Hc). reflexivity. }
  destruct (aqs_plain c) eqn:Hplain.
  { (* no escaping is required *)
    replace (zn i + 1)%Z with (zn (S i)) by lia.
    rewrite (IH f) by lia. rewrite Hsnoc. reflexivity. }
  destruct (c <? rune_self)%N eqn:Hascii.
  { (* single byte, escaped *)
    rewrite gst_slice_nat by lia. cbn [obind].
    replace (zn i + 1)%Z with (zn (S i)) by lia.
    unfold aqs_escape, c_backslash, c_quote.
    destruct (c =? 9)%N; [cbn [obind]; rewrite (IH f) by lia; rewrite aqs_pend_nil; f_equal;
                          rewrite <- ?app_assoc; reflexivity|].
    destruct (c =? 13)%N; [cbn [obind]; rewrite (IH f) by lia; rewrite aqs_pend_nil; f_equal;
                           rewrite <- ?app_assoc; reflexivity|].
    destruct (c =? 10)%N; [cbn [obind]; rewrite (IH f) by lia; rewrite aqs_pend_nil; f_equal;
                           rewrite <- ?app_assoc; reflexivity|].
    destruct (c =? 92)%N; [cbn [obind]; rewrite (IH f) by lia; rewrite aqs_pend_nil; f_equal;
                           rewrite <- ?app_assoc; reflexivity|].
    destruct (c =? 34)%N; [cbn [obind]; rewrite (IH f) by lia; rewrite aqs_pend_nil; f_equal;
                           rewrite <- ?app_assoc; reflexivity|].
    rewrite !gst_index_N, gst_c_chars_eq.
    destruct (idx c_chars (N.to_nat (N.shiftr c 4))) as [h| |]; [|reflexivity|reflexivity].
    cbn [obind].
    destruct (idx c_chars (N.to_nat (N.land c 15))) as [l| |]; [|reflexivity|reflexivity].
    cbn [obind]. rewrite (IH f) by lia. rewrite aqs_pend_nil. f_equal.
    unfold c_esc_u00. rewrite <- ?app_assoc. reflexivity. }
  (* a multi-byte sequence or a broken one *)
  rewrite gst_slice_from_nat by lia. cbn [obind].
  rewrite (skipn_nth_cons str i c Hc).
  assert (Hw : 1 <= snd (decode_rune (c :: skipn (S i) str)) /\
               snd (decode_rune (c :: skipn (S i) str)) <= length str - i).
  { pose proof (decode_width (c :: skipn (S i) str) ltac:(discriminate)) as Hd.
    cbn [length] in Hd. rewrite skipn_length in Hd. lia. }
  unfold gst_DecodeRuneInString. cbv zeta.
  destruct (decode_rune (c :: skipn (S i) str)) as [r w] eqn:Hdec. cbn [fst snd] in *.
  replace ((Z.of_N r =? Z.of_N rune_error)%Z && (zn w =? 1)%Z)
    with ((r =? rune_error)%N && (w =? 1)%nat) by lia.
  destruct ((r =? rune_error)%N && (w =? 1)%nat) eqn:Hinv.
  { (* broken utf *)
    rewrite gst_slice_nat by lia. cbn [obind].
    replace (zn i + 1)%Z with (zn (S i)) by lia.
    rewrite (IH f) by lia. rewrite aqs_pend_nil. f_equal.
    rewrite <- ?app_assoc. reflexivity. }
  replace ((Z.of_N r =? 8232)%Z || (Z.of_N r =? 8233)%Z) with ((r =? c_ls)%N || (r =? c_ps)%N)
    by (unfold c_ls, c_ps; lia).
  replace (zn i + zn w)%Z with (zn (i + w)) by lia.
  assert (Hrest : skipn w (c :: skipn (S i) str) = skipn (i + w) str).
  { rewrite <- (skipn_nth_cons str i c Hc), skipn_skipn. f_equal. lia. }
  destruct ((r =? c_ls)%N || (r =? c_ps)%N) eqn:Hls.
  { (* U+2028 / U+2029 *)
    rewrite gst_slice_nat by lia. cbn [obind].
    change 15%Z with (Z.of_N 15). rewrite Z_land_of_N, gst_index_N, gst_c_chars_eq.
    destruct (idx c_chars (N.to_nat (N.land r 15))) as [h| |]; [|reflexivity|reflexivity].
    cbn [obind]. rewrite (IH f) by lia. rewrite Hrest.
    replace (i + w - (i + w)) with 0 by lia. cbn [firstn]. f_equal.
    unfold c_esc_u202. rewrite <- ?app_assoc. reflexivity. }
  (* any other rune: nothing is written *)
  rewrite (IH f) by lia. rewrite Hrest. f_equal.
  rewrite firstn_skipn_split by lia. rewrite (skipn_nth_cons str i c Hc). reflexivity.
Qed.

Theorem gst_AppendQuotedString_eq fuel buf s : length s + 2 <= fuel ->
  gst_AppendQuotedString fuel buf s = append_quoted_string buf s.
Proof.
  intros Hf. destruct fuel as [|f]; [lia|].
  unfold gst_AppendQuotedString, append_quoted_string. cbv zeta.
  change (do (v_buf, v_p) <- gst_AppendQuotedString_loop1 f (buf ++ [34%N]) s 0 0;
          do t9 <- gst_slice_from s v_p; Ok ((v_buf ++ t9) ++ [34%N]))
    with (obind (gst_AppendQuotedString_loop1 f (buf ++ [34%N]) s (zn 0) (zn 0)) (aqs_tail s)).
  rewrite (aqs_loop1_eq f (length s)) by lia. reflexivity.
Qed.

Theorem gst_QuotedBytes_eq fuel s : length s + 3 <= fuel -> gst_QuotedBytes fuel s = quoted_bytes s.
Proof.
  intros Hf. destruct fuel as [|f]; [lia|].
  unfold gst_QuotedBytes, quoted_bytes, gst_make, gst_len.
  replace ((0 <? 0)%Z || (zn (length s) + 2 <? 0)%Z) with false by lia.
  cbn [obind Z.to_nat repeat]. rewrite obind_ret. apply gst_AppendQuotedString_eq. lia.
Qed.

(* the theorems of C14 about the model, on the translated text *)
Theorem gst_escape_valid fuel s : length s + 2 <= fuel ->
  exists out, gst_AppendQuotedString fuel [] s = Ok out /\
              json_parse_string out = Some (utf8_sanitize s, []).
Proof. intros Hf. rewrite gst_AppendQuotedString_eq by lia. apply escape_valid. Qed.

Theorem gst_escape_prefix fuel buf s : length s + 2 <= fuel ->
  exists out, append_quoted_string [] s = Ok out /\ gst_AppendQuotedString fuel buf s = Ok (buf ++ out).
Proof. intros Hf. rewrite gst_AppendQuotedString_eq by lia. apply escape_prefix_independent. Qed.

Theorem gst_QuotedBytes_valid fuel s : length s + 3 <= fuel ->
  exists out, gst_QuotedBytes fuel s = Ok out /\ json_parse_string out = Some (utf8_sanitize s, []).
Proof. intros Hf. rewrite gst_QuotedBytes_eq by lia. apply quoted_bytes_valid. Qed.

(* insufficient fuel is visible: it is a Panic, never a wrong answer *)
Lemma gst_AppendQuotedString_fuel_0 buf s : gst_AppendQuotedString 0 buf s = Panic.
Proof. reflexivity. Qed.

(* ================================================================== ToUpper *)
Lemma if_ok_push {A B} (c : bool) (x y : A) (k : A -> outcome B) :
  obind (if c then Ok x else do t <- Ok y; Ok t) k = k (if c then x else y).
Proof. destruct c; reflexivity. Qed.

(* the vocabulary on nat positions / against the buffer operations of Model/Match.v *)
Lemma gst_store_nat b n v : gst_store b (zn n) v = store b n v.
Proof.
  unfold gst_store, store, gst_len.
  replace ((0 <=? zn n)%Z && (zn n <? zn (length b))%Z) with (n <? length b) by lia.
  rewrite Nat2Z.id. reflexivity.
Qed.

Lemma gst_encode_at_nat b n r : gst_encode_at b (zn n) r = write_at b n (encode_rune r).
Proof.
  unfold gst_encode_at, write_at, gst_slice_from, gst_len.
  destruct (n <=? length b) eqn:Hn.
  - replace ((0 <=? zn n)%Z && (zn n <=? zn (length b))%Z) with true by lia.
    cbn [obind]. cbv zeta. rewrite Nat2Z.id, skipn_length, skipn_skipn.
    replace (length (encode_rune r) <=? length b - n) with (n + length (encode_rune r) <=? length b) by lia.
    rewrite (Nat.add_comm (length (encode_rune r)) n). reflexivity.
  - replace ((0 <=? zn n)%Z && (zn n <=? zn (length b))%Z) with false by lia.
    replace (n + length (encode_rune r) <=? length b) with false by lia. reflexivity.
Qed.

Lemma gst_byte_eq r : (0 <= r)%Z -> gst_byte r = to_byte (Z.to_N r).
Proof.
  intros H. unfold gst_byte, to_byte. rewrite land_FF.
  rewrite Z2N.inj_mod by lia. reflexivity.
Qed.

Lemma gst_make_nat n : gst_make (zn n) (zn n) = Ok (make_bytes n).
Proof.
  unfold gst_make, make_bytes. replace ((zn n <? 0)%Z || (zn n <? zn n)%Z) with false by lia.
  rewrite Nat2Z.id. reflexivity.
Qed.

Lemma store_length b n v b' : store b n v = Ok b' -> length b' = length b.
Proof.
  unfold store. destruct (n <? length b); [|discriminate]. intros H. injection H as <-.
  apply set_nth_length.
Qed.

Lemma write_at_length b off d b' : write_at b off d = Ok b' -> length b' = length b.
Proof.
  unfold write_at. destruct (off + length d <=? length b) eqn:H; [|discriminate]. intros E.
  injection E as <-. rewrite !app_length, firstn_length, skipn_length. lia.
Qed.

Lemma copy_into_length dst src : length (copy_into dst src) = length dst.
Proof. unfold copy_into. rewrite app_length, firstn_length, skipn_length. lia. Qed.

(* (offset, rune) pairs of the range loop: the model's as nat * N, the generated ones as Z * Z *)
Definition conv (p : nat * N) : Z * Z := (zn (fst p), Z.of_N (snd p)).

Lemma gst_range_eq s : gst_range s = map conv (range_string s).
Proof. reflexivity. Qed.

(* the loop state: (b, nbytes) in the model, (nbytes, b) in the generated code *)
Definition swapst (st : bytes * nat) : Z * bytes := (zn (snd st), fst st).

Section ToUpperTie.
  Variable upper : Z -> Z.        (* unicode.ToUpper as the generated code sees it: int32 -> int32 *)
  Variable up : N -> Z.           (* the model's: on decoded runes *)
  Hypothesis Hup : forall c, upper (Z.of_N c) = up c.

  (* the second loop: for _, c := range s { .. } against tu_loop, for EVERY list of runes *)
  Lemma tu_loop2_eq : forall l nb b,
    gst_ToUpper_loop2 upper (map conv l) (zn nb) b = ofmap swapst (tu_loop up (map snd l) b nb).
  Proof.
    induction l as [|[i c] l IH]; intros nb b; [reflexivity|].
    cbn [map conv fst snd gst_ToUpper_loop2 tu_loop]. cbv zeta. rewrite Hup.
    unfold tu_step, gst_len. cbv zeta.
    replace (zn nb <? zn (length b))%Z with (nb <? length b) by lia.
    destruct (((0 <=? up c)%Z && (up c <? Z.of_N rune_self)%Z) && (nb <? length b)) eqn:Hfast.
    { (* common case *)
      rewrite gst_store_nat, gst_byte_eq by lia.
      destruct (store b nb (to_byte (Z.to_N (up c)))) as [b'| |]; [|reflexivity|reflexivity].
      cbn [obind fst snd]. replace (zn nb + 1)%Z with (zn (S nb)) by lia. apply IH. }
    destruct (0 <=? up c)%Z eqn:Hpos.
    2:{ cbn [obind fst snd]. apply IH. }
    replace (zn (length b) <=? zn nb + zn utf_max)%Z with (length b <=? nb + utf_max) by lia.
    destruct (length b <=? nb + utf_max) eqn:Hgrow.
    - (* grow the buffer *)
      replace (2 * zn (length b))%Z with (zn (2 * length b)) by lia.
      rewrite gst_make_nat. cbn [obind]. rewrite gst_slice_to_eq.
      destruct (slice_to b (zn nb)) as [pre| |]; [|reflexivity|reflexivity].
      cbn [obind]. rewrite gst_encode_at_nat.
      change (gst_copy (make_bytes (2 * length b)) pre) with (copy_into (make_bytes (2 * length b)) pre).
      destruct (write_at (copy_into (make_bytes (2 * length b)) pre) nb (encode_rune (up c))) as [b2| |];
        [|reflexivity|reflexivity].
      cbn [obind fst snd]. unfold gst_encode_n.
      replace (zn nb + zn (length (encode_rune (up c))))%Z with (zn (nb + length (encode_rune (up c)))) by lia.
      apply IH.
    - cbn [obind]. rewrite gst_encode_at_nat.
      destruct (write_at b nb (encode_rune (up c))) as [b2| |]; [|reflexivity|reflexivity].
      cbn [obind fst snd]. unfold gst_encode_n.
      replace (zn nb + zn (length (encode_rune (up c))))%Z with (zn (nb + length (encode_rune (up c)))) by lia.
      apply IH.
  Qed.

  (* what gst_ToUpper does with the answer of its first loop *)
  Definition tu_tail (bp : bytes) (r : bytes * Z * bytes) : outcome (bytes * bytes) :=
    let '(s', nbytes, b) := r in
    if gst_isnil b then Ok (s', bp)
    else do nb' <- gst_ToUpper_loop2 upper (gst_range s') nbytes b;
         let '(nbytes', b') := nb' in
         do t <- gst_slice_to b' nbytes'; Ok (t, b').

  (* the part after the rune has been written: the number of source bytes to skip, s = s[i:], the test
     b == nil (b is not empty: it has the length of the buffer chosen above), the second loop, the result *)
  Lemma tu_rest_eq bp s i c b2 nb2 : i <= length s -> b2 <> [] ->
    obind (do v_i <- (if (Z.of_N c =? Z.of_N rune_error)%Z
                      then do t3 <- gst_slice_from s (zn i);
                           let '(_, v_w) := gst_DecodeRuneInString t3 in Ok (zn i + v_w)%Z
                      else Ok (zn i + rune_len (Z.of_N c))%Z);
           do t4 <- gst_slice_from s v_i;
           Ok (t4, zn nb2, b2)) (tu_tail bp)
    = (do si <- slice_from s (zn i);
       let adv := if (c =? rune_error)%N then zn (snd (decode_rune si)) else rune_len (Z.of_N c) in
       do s' <- slice_from s (zn i + adv);
       do st' <- tu_loop up (map snd (range_string s')) b2 nb2;
       do res <- slice_to (fst st') (zn (snd st'));
       Ok (res, fst st')).
  Proof.
    intros Hi Hne. rewrite !gst_slice_from_eq.
    assert (Hsi : slice_from s (zn i) = Ok (skipn i s)).
    { unfold slice_from. replace ((0 <=? zn i)%Z && (zn i <=? zn (length s))%Z) with true by lia.
      rewrite Nat2Z.id. reflexivity. }
    rewrite Hsi. cbn [obind]. cbv zeta.
    replace (Z.of_N c =? Z.of_N rune_error)%Z with (c =? rune_error)%N by lia.
    assert (Tail : forall z,
      obind (do t4 <- slice_from s z; Ok (t4, zn nb2, b2)) (tu_tail bp)
      = (do s' <- slice_from s z;
         do st' <- tu_loop up (map snd (range_string s')) b2 nb2;
         do res <- slice_to (fst st') (zn (snd st')); Ok (res, fst st'))).
    { intros z. destruct (slice_from s z) as [s'| |]; [|reflexivity|reflexivity].
      cbn [obind tu_tail]. destruct b2 as [|x b2]; [congruence|]. cbn [gst_isnil].
      rewrite gst_range_eq, tu_loop2_eq.
      destruct (tu_loop up (map snd (range_string s')) (x :: b2) nb2) as [[b3 nb3]| |];
        [|reflexivity|reflexivity].
      reflexivity. }
    destruct (c =? rune_error)%N.
    - cbn [obind]. unfold gst_DecodeRuneInString. cbv zeta. apply Tail.
    - cbn [obind]. apply Tail.
  Qed.

  (* the first loop together with the rest of the function, over an arbitrary list of (offset, rune) pairs in
     place of range_string s (the loop body does not look at the list again: it breaks) *)
  Lemma tu_loop1_eq bp s : forall l,
    obind (gst_ToUpper_loop1 upper (map conv l) bp s 0%Z []) (tu_tail bp)
    = match first_changed up l with
      | None => Ok (s, bp)
      | Some (i, c, r) =>
          let b0 := if (length s + utf_max <=? length bp) then bp
                    else make_bytes (length s + utf_max) in
          do pre <- slice_to s (zn i);
          let b1 := copy_into b0 pre in
          let nb := Nat.min (length b0) (length pre) in
          do st <- (if (0 <=? r)%Z then
                      if (r <? Z.of_N rune_self)%Z then
                        do b2 <- store b1 nb (to_byte (Z.to_N r)); Ok (b2, S nb)
                      else
                        do b2 <- write_at b1 nb (encode_rune r);
                        Ok (b2, (nb + length (encode_rune r)))
                    else Ok (b1, nb));
          do si <- slice_from s (zn i);
          let adv := if (c =? rune_error)%N then zn (snd (decode_rune si))
                     else rune_len (Z.of_N c) in
          do s' <- slice_from s (zn i + adv);
          do st' <- tu_loop up (map snd (range_string s')) (fst st) (snd st);
          do res <- slice_to (fst st') (zn (snd st'));
          Ok (res, fst st')
      end.
  Proof.
    induction l as [|[i c] l IH]; [reflexivity|].
    cbn [map conv fst snd gst_ToUpper_loop1 first_changed]. cbv zeta. rewrite Hup.
    destruct (up c =? Z.of_N c)%Z eqn:Hsame; [exact IH|].
    (* the buffer *)
    unfold gst_len.
    replace (zn (length s) + zn utf_max <=? zn (length bp))%Z with (length s + utf_max <=? length bp) by lia.
    replace (zn (length s) + zn utf_max)%Z with (zn (length s + utf_max)) by lia.
    rewrite gst_make_nat.
    rewrite if_ok_push. cbv beta.
    set (b0 := if length s + utf_max <=? length bp then bp else make_bytes (length s + utf_max)).
    assert (Hb0 : utf_max <= length b0).
    { subst b0. destruct (length s + utf_max <=? length bp) eqn:E.
      - apply Nat.leb_le in E. lia.
      - unfold make_bytes. rewrite repeat_length. lia. }
    cbn [obind]. rewrite gst_slice_to_eq.
    destruct (slice_to s (zn i)) as [pre| |] eqn:Hpre; [|reflexivity|reflexivity].
    assert (Hi : i <= length s).
    { unfold slice_to in Hpre.
      destruct ((0 <=? zn i)%Z && (zn i <=? zn (length s))%Z) eqn:E; [lia|discriminate]. }
    cbn [obind].
    change (gst_copy b0 pre) with (copy_into b0 pre).
    change (gst_copy_n b0 pre) with (zn (Nat.min (length b0) (length pre))).
    set (b1 := copy_into b0 pre). set (nb := Nat.min (length b0) (length pre)).
    assert (Hb1 : length b1 = length b0) by apply copy_into_length.
    assert (Hne : forall b2 : bytes, length b2 = length b0 -> b2 <> []).
    { intros b2 H E. rewrite E in H. unfold utf_max in Hb0. cbn [length] in H. lia. }
    destruct (0 <=? up c)%Z eqn:Hpos.
    2:{ cbn [obind fst snd]. apply (tu_rest_eq bp s i c b1 nb Hi). apply Hne. exact Hb1. }
    destruct (up c <? Z.of_N rune_self)%Z eqn:Hasc.
    - rewrite gst_store_nat, gst_byte_eq by lia.
      destruct (store b1 nb (to_byte (Z.to_N (up c)))) as [b2| |] eqn:Hst; [|reflexivity|reflexivity].
      cbn [obind fst snd]. replace (zn nb + 1)%Z with (zn (S nb)) by lia.
      apply (tu_rest_eq bp s i c b2 (S nb) Hi). apply Hne.
      rewrite (store_length _ _ _ _ Hst). exact Hb1.
    - rewrite gst_encode_at_nat.
      destruct (write_at b1 nb (encode_rune (up c))) as [b2| |] eqn:Hwr; [|reflexivity|reflexivity].
      cbn [obind fst snd]. unfold gst_encode_n.
      replace (zn nb + zn (length (encode_rune (up c))))%Z with (zn (nb + length (encode_rune (up c)))) by lia.
      apply (tu_rest_eq bp s i c b2 (nb + length (encode_rune (up c))) Hi). apply Hne.
      rewrite (write_at_length _ _ _ _ Hwr). exact Hb1.
  Qed.

  (* func ToUpper: the string returned and the buffer handed back through bP, for every buffer and string *)
  Theorem gst_ToUpper_eq_gen fuel bp s : 1 <= fuel -> gst_ToUpper upper fuel bp s = to_upper up bp s.
  Proof.
    intros Hf. destruct fuel as [|f]; [lia|].
    unfold gst_ToUpper, to_upper. cbv zeta. rewrite gst_range_eq.
    exact (tu_loop1_eq bp s (range_string s)).
  Qed.
End ToUpperTie.

(* the two readings of "every rune map" *)
Theorem gst_ToUpper_eq (upper : Z -> Z) fuel bp s : 1 <= fuel ->
  gst_ToUpper upper fuel bp s = to_upper (fun c => upper (Z.of_N c)) bp s.
Proof. apply gst_ToUpper_eq_gen. reflexivity. Qed.

Theorem gst_ToUpper_eq_model (up : N -> Z) fuel bp s : 1 <= fuel ->
  gst_ToUpper (fun z => up (Z.to_N z)) fuel bp s = to_upper up bp s.
Proof. apply gst_ToUpper_eq_gen. intros c. rewrite N2Z.id. reflexivity. Qed.


(* the theorem of C18 about the model, on the translated text *)
Theorem gst_ToUpper_correct (up : N -> Z) fuel bp s : 1 <= fuel -> utf8_valid s = true ->
  exists bp', gst_ToUpper (fun z => up (Z.to_N z)) fuel bp s = Ok (upper_spec up s, bp') /\
              (bp' = bp \/
               (length s + 4 <= length bp' /\
                firstn (length (upper_spec up s)) bp' = upper_spec up s)).
Proof. intros Hf Hv. rewrite gst_ToUpper_eq_model by exact Hf. apply toupper_ok. exact Hv. Qed.

(* The abstraction "b == nil is emptiness" (header of tools/qf2coq/strser.go) is exact in ToUpper: for EVERY
   list of (offset, rune) pairs, if the first loop ends with an empty b then no rune changed and nothing was
   assigned — so Go's b is nil at that point, not an empty non-nil slice; whenever the loop assigns b, the
   value keeps the length of the buffer chosen, which is at least len(s) + utf8.UTFMax. *)
Lemma gst_ToUpper_loop1_nil upper : forall l bp s s' nb b,
  gst_ToUpper_loop1 upper l bp s 0%Z [] = Ok (s', nb, b) -> b = [] ->
  Forall (fun p => upper (snd p) = snd p) l /\ s' = s /\ nb = 0%Z.
Proof.
  induction l as [|[i c] l IH]; intros bp s s' nb b H Hb.
  - cbn in H. injection H as <- <- <-. auto.
  - cbn [gst_ToUpper_loop1] in H. cbv zeta in H.
    destruct (upper c =? c)%Z eqn:E.
    + destruct (IH _ _ _ _ _ H Hb) as (F & -> & ->). repeat split; auto.
      constructor; [cbn [snd]; lia|exact F].
    + exfalso. unfold gst_len in H.
      replace (zn (length s) + zn utf_max)%Z with (zn (length s + utf_max)) in H by lia.
      rewrite gst_make_nat, if_ok_push in H. cbv beta in H.
      set (b0 := if (zn (length s + utf_max) <=? zn (length bp))%Z then bp
                 else make_bytes (length s + utf_max)) in H.
      assert (Hb0 : utf_max <= length b0).
      { subst b0. destruct (zn (length s + utf_max) <=? zn (length bp))%Z eqn:E2; [lia|].
        unfold make_bytes. rewrite repeat_length. lia. }
      destruct (gst_slice_to s i) as [pre| |]; try discriminate. cbn [obind] in H.
      change (gst_copy b0 pre) with (copy_into b0 pre) in H.
      change (gst_copy_n b0 pre) with (zn (Nat.min (length b0) (length pre))) in H.
      pose proof (copy_into_length b0 pre) as Hb1.
      set (b1 := copy_into b0 pre) in *. set (n1 := Nat.min (length b0) (length pre)) in *.
      assert (Hend : forall (n2 : Z) (b2 : bytes), length b2 = length b0 ->
        (do v_i <- (if (c =? Z.of_N rune_error)%Z
                    then do t3 <- gst_slice_from s i;
                         let '(_, v_w) := gst_DecodeRuneInString t3 in Ok (i + v_w)%Z
                    else Ok (i + rune_len c)%Z);
         do t4 <- gst_slice_from s v_i; Ok (t4, n2, b2)) = Ok (s', nb, b) -> False).
      { intros n2 b2 Hl Hr.
        destruct (c =? Z.of_N rune_error)%Z.
        - destruct (gst_slice_from s i) as [t3| |]; try discriminate. cbn [obind] in Hr.
          unfold gst_DecodeRuneInString in Hr. cbv zeta in Hr. cbn [obind] in Hr.
          match type of Hr with context [gst_slice_from s ?z] =>
            destruct (gst_slice_from s z) as [t4| |]; try discriminate end.
          cbn [obind] in Hr.
          injection Hr as _ _ <-. subst b2. unfold utf_max in Hb0. cbn [length] in Hl. lia.
        - cbn [obind] in Hr.
          match type of Hr with context [gst_slice_from s ?z] =>
            destruct (gst_slice_from s z) as [t4| |]; try discriminate end.
          cbn [obind] in Hr.
          injection Hr as _ _ <-. subst b2. unfold utf_max in Hb0. cbn [length] in Hl. lia. }
      destruct (0 <=? upper c)%Z.
      * destruct (upper c <? Z.of_N rune_self)%Z.
        -- rewrite gst_store_nat in H.
           destruct (store b1 n1 (gst_byte (upper c))) as [b2| |] eqn:Hst; try discriminate.
           cbn [obind] in H. refine (Hend _ b2 _ H).
           rewrite (store_length _ _ _ _ Hst). exact Hb1.
        -- rewrite gst_encode_at_nat in H.
           destruct (write_at b1 n1 (encode_rune (upper c))) as [b2| |] eqn:Hwr; try discriminate.
           cbn [obind] in H. refine (Hend _ b2 _ H).
           rewrite (write_at_length _ _ _ _ Hwr). exact Hb1.
      * cbn [obind] in H. exact (Hend _ b1 Hb1 H).
Qed.

(* ================================================================== match.go: trimPercent, NewMatcher *)
(* strings.TrimPrefix / TrimSuffix with the literal "%" are the model's *)
Lemma gst_TrimPrefix_pct s : gst_TrimPrefix s [37%N] = trim_prefix_pct s.
Proof. reflexivity. Qed.
Lemma gst_TrimSuffix_pct s : gst_TrimSuffix s [37%N] = trim_suffix_pct s.
Proof. reflexivity. Qed.

Theorem gst_trimPercent_eq fuel s : 1 <= fuel -> gst_trimPercent fuel s = Ok (trim_percent s).
Proof. intros Hf. destruct fuel as [|f]; [lia|]. reflexivity. Qed.

(* the generated sum of structs against the model's record (kind, matchString or regexp source, buffer) *)
Definition matcher_of (m : gst_Matcher) : matcher :=
  match m with
  | gst_RegexpMatcher r => mkMatcher KRegex r []
  | gst_CIContainsMatcher ms buf => mkMatcher KCIContains ms buf
  | gst_CISuffixMatcher ms buf => mkMatcher KCISuffix ms buf
  | gst_CIPrefixMatcher ms buf => mkMatcher KCIPrefix ms buf
  | gst_CIExactMatcher ms buf => mkMatcher KCIExact ms buf
  | gst_ContainsMatcher ms => mkMatcher KContains ms []
  | gst_SuffixMatcher ms => mkMatcher KSuffix ms []
  | gst_PrefixMatcher ms => mkMatcher KPrefix ms []
  | gst_ExactMatcher ms => mkMatcher KExact ms []
  end.

(* NewMatcher: which patterns become prefix / suffix / contains / exact matchers (and on which string) and
   which go to regexp (and with which expression), for every pattern, both case modes, every strings.ToUpper
   and every regexp.Compile verdict; Fail = the error return *)
Theorem gst_NewMatcher_eq (str_upper : bytes -> bytes) (re_compile : bytes -> bool)
  (re_match : bytes -> bytes -> option bool)
  (Hre : forall x, re_compile x = match re_match x [] with Some _ => true | None => false end)
  fuel p cs : 2 <= fuel ->
  ofmap matcher_of (gst_NewMatcher str_upper re_compile fuel p cs) = new_matcher str_upper re_match p cs.
Proof.
  intros Hf. destruct fuel as [|[|f]]; [lia|lia|].
  unfold gst_NewMatcher, new_matcher. cbv zeta.
  change (has_prefix p [37%N]) with (has_prefix p [c_percent]).
  change (has_suffix p [37%N]) with (has_suffix p [c_percent]).
  rewrite !gst_trimPercent_eq by lia.
  destruct (negb (bytes_eqb (quote_meta p) p)).
  - (* there are regex characters in the match string *)
    rewrite gst_slice_from_eq.
    replace (if negb (has_prefix p [c_percent]) then Ok ([94%N] ++ p)
             else do t1 <- slice_from p 1; Ok t1)
      with (if negb (has_prefix p [c_percent]) then Ok ([c_caret] ++ p) else slice_from p 1)
      by (destruct (negb (has_prefix p [c_percent])); [reflexivity|rewrite obind_ret; reflexivity]).
    destruct (if negb (has_prefix p [c_percent]) then Ok ([c_caret] ++ p) else slice_from p 1)
      as [p1| |]; [|reflexivity|reflexivity].
    cbn [obind].
    replace (if negb (has_suffix p [c_percent]) then Ok (p1 ++ [36%N])
             else do t2 <- gst_slice_to p1 (gst_len p1 - 1); Ok t2)
      with (if negb (has_suffix p [c_percent]) then Ok (p1 ++ [c_dollar])
            else slice_to p1 (zn (length p1) - 1))
      by (destruct (negb (has_suffix p [c_percent])); [reflexivity|rewrite obind_ret; reflexivity]).
    destruct (if negb (has_suffix p [c_percent]) then Ok (p1 ++ [c_dollar])
              else slice_to p1 (zn (length p1) - 1)) as [p2| |]; [|reflexivity|reflexivity].
    cbn [obind].
    change [40%N; 63%N; 105%N; 41%N] with c_ci_flag.
    destruct (negb cs); cbn [obind]; rewrite Hre;
      match goal with |- context [re_match ?x []] => destruct (re_match x []) end; reflexivity.
  - change (gst_make 10 10) with (Ok (make_bytes c_matcher_buf)).
    destruct (negb cs); cbn [obind];
      destruct (has_prefix p [c_percent]), (has_suffix p [c_percent]); reflexivity.
Qed.

(* the theorem of C18 about NewMatcher + Matches, with the translated NewMatcher in place of the model's *)
Theorem gst_matcher_rule (up : N -> Z) (su : bytes -> bytes) (re : bytes -> bytes -> option bool)
  (fuel : nat) (p : bytes) (cs : bool) :
  2 <= fuel ->
  (forall pat s1 s2, re pat s1 = None -> re pat s2 = None) ->
  starts_pct (su p) = starts_pct p -> ends_pct (su p) = ends_pct p ->
  let made := ofmap matcher_of
                (gst_NewMatcher su (fun x => match re x [] with Some _ => true | None => false end) fuel p cs) in
  (made = Fail /\ forall cell, like_spec up (su p) re p cs cell = None)
  \/
  (exists m, made = Ok m /\
     forall buf cell, (cs = true \/ existsb is_meta p = true \/ utf8_valid cell = true) ->
       exists b buf', matches up re (with_buf m buf) cell = Ok (b, with_buf m buf') /\
                      like_spec up (su p) re p cs cell = Some b).
Proof.
  intros Hf H1 H2 H3. cbv zeta.
  rewrite (gst_NewMatcher_eq su _ re (fun x => eq_refl) fuel p cs Hf).
  exact (matcher_rule up su re p cs H1 H2 H3).
Qed.

(* ================================================================== match.go: the Matches methods *)
(* m.Matches(s) through the interface (gst_Matches: dispatch on the struct, then the method of that struct)
   against the model's matches, for every matcher, every cell, every rune map and — for the CI matchers —
   every state of the reused buffer: the answer AND the matcher left behind (its buffer is whatever ToUpper
   handed back; the upper-cased cell may be longer or shorter than the cell, ToUpper's theorem covers that).
   regexp's answer is the arbitrary re_ms on the generated side, re_match (an option: None = not compiled) in
   the model; the premise on a RegexpMatcher says that its expression is one that compiled. *)
Definition answer_of (rm : bool * gst_Matcher) : bool * matcher := (fst rm, matcher_of (snd rm)).

Theorem gst_Matches_eq (upper : Z -> Z) (up : N -> Z) (Hup : forall c, upper (Z.of_N c) = up c)
  (re_ms : bytes -> bytes -> bool) (re_match : bytes -> bytes -> option bool)
  fuel m s : 3 <= fuel ->
  (forall r, m = gst_RegexpMatcher r -> re_match r s = Some (re_ms r s)) ->
  ofmap answer_of (gst_Matches upper re_ms fuel m s) = matches up re_match (matcher_of m) s.
Proof.
  intros Hf Hre. destruct fuel as [|[|[|f]]]; try lia.
  destruct m as [r|ms buf|ms buf|ms buf|ms buf|ms|ms|ms|ms];
    unfold gst_Matches, matches, matcher_of; cbn [m_kind m_str m_buf];
    try reflexivity.
  - unfold gst_RegexpMatcher_Matches. rewrite (Hre r eq_refl). reflexivity.
  - unfold gst_CIContainsMatcher_Matches. rewrite (gst_ToUpper_eq_gen upper up Hup) by lia.
    destruct (to_upper up buf s) as [[u b]| |]; reflexivity.
  - unfold gst_CISuffixMatcher_Matches. rewrite (gst_ToUpper_eq_gen upper up Hup) by lia.
    destruct (to_upper up buf s) as [[u b]| |]; reflexivity.
  - unfold gst_CIPrefixMatcher_Matches. rewrite (gst_ToUpper_eq_gen upper up Hup) by lia.
    destruct (to_upper up buf s) as [[u b]| |]; reflexivity.
  - unfold gst_CIExactMatcher_Matches. rewrite (gst_ToUpper_eq_gen upper up Hup) by lia.
    destruct (to_upper up buf s) as [[u b]| |]; reflexivity.
Qed.

(* ================================================================== the like loops of scolumn / ecolumn *)
(* a RegexpMatcher whose expression the regexp oracle answers on (what NewMatcher builds after a successful
   regexp.Compile); m.Matches(s) never changes the expression *)
Definition good_matcher (re_ms : bytes -> bytes -> bool) (re_match : bytes -> bytes -> option bool)
  (m : gst_Matcher) : Prop :=
  forall r, m = gst_RegexpMatcher r -> forall s, re_match r s = Some (re_ms r s).

Lemma gst_Matches_keeps_regexp upper re_ms fuel m s b m' :
  gst_Matches upper re_ms fuel m s = Ok (b, m') -> forall r, m' = gst_RegexpMatcher r -> m = gst_RegexpMatcher r.
Proof.
  destruct fuel as [|[|f]]; [discriminate| |].
  - destruct m; cbn; discriminate.
  - destruct m as [r0|ms buf|ms buf|ms buf|ms buf|ms|ms|ms|ms]; unfold gst_Matches;
      [unfold gst_RegexpMatcher_Matches|unfold gst_CIContainsMatcher_Matches|unfold gst_CISuffixMatcher_Matches
      |unfold gst_CIPrefixMatcher_Matches|unfold gst_CIExactMatcher_Matches|unfold gst_ContainsMatcher_Matches
      |unfold gst_SuffixMatcher_Matches|unfold gst_PrefixMatcher_Matches|unfold gst_ExactMatcher_Matches];
      try (destruct (gst_ToUpper upper f buf s) as [[u b']| |]); cbn [obind];
      intros H r Hr; try discriminate;
      apply (f_equal (fun o : outcome (bool * gst_Matcher) => match o with Ok p => Some (snd p) | _ => None end)) in H;
      cbn in H; injection H as <-; try discriminate; exact Hr.
Qed.

Lemma new_matcher_regexp_compiled su re_match p cs r b :
  new_matcher su re_match p cs = Ok (mkMatcher KRegex r b) -> re_match r [] <> None.
Proof.
  unfold new_matcher. cbv zeta.
  destruct (negb (bytes_eqb (quote_meta p) p)).
  - destruct (if negb (has_prefix p [c_percent]) then Ok ([c_caret] ++ p) else slice_from p 1) as [p1| |];
      try discriminate. cbn [obind].
    destruct (if negb (has_suffix p [c_percent]) then Ok (p1 ++ [c_dollar])
              else slice_to p1 (zn (length p1) - 1)) as [p2| |]; try discriminate. cbn [obind].
    match goal with |- context [re_match ?x []] => destruct (re_match x []) eqn:E end; try discriminate.
    intros H.
    assert (Hr : (if negb cs then c_ci_flag ++ p2 else p2) = r) by (injection H as Hr _; exact Hr).
    rewrite <- Hr, E. discriminate.
  - destruct (negb cs), (has_prefix p [c_percent]), (has_suffix p [c_percent]); discriminate.
Qed.

Lemma ofmap_id {A} (o : outcome A) : ofmap (fun x => x) o = o.
Proof. destruct o; reflexivity. Qed.

Lemma set_nth_middle {A} (done : list A) x rest v : set_nth (done ++ x :: rest) (length done) v = done ++ v :: rest.
Proof. induction done as [|d done IH]; [reflexivity|]. cbn [app length set_nth]. rewrite IH. reflexivity. Qed.

Section LikeLoops.
  Variable upper : Z -> Z.
  Variable up : N -> Z.
  Hypothesis Hup : forall c, upper (Z.of_N c) = up c.
  Variable re_ms : bytes -> bytes -> bool.
  Variable re_match : bytes -> bytes -> option bool.

  (* regexFilter's loop: the generated loop walks the (position, element) pairs of the ORIGINAL bIndex and writes
     into bIndex; the model's rf_loop builds the result; done = the part already decided *)
  Lemma rf_loop_eq f index col : 3 <= f -> forall rest done gm, good_matcher re_ms re_match gm ->
    obind (gst_scolumn_regexFilter_loop1 upper re_ms f
             (combine (map zn (seq (length done) (length rest))) rest) index col (done ++ rest) gm)
          (fun r => Ok (fst r))
    = ofmap (app done) (rf_loop up re_match index col (matcher_of gm) (length done) rest).
  Proof.
    intros Hf. induction rest as [|x rest IH]; intros done gm Hgood.
    - cbn. rewrite app_nil_r. reflexivity.
    - cbn [length seq map combine gst_scolumn_regexFilter_loop1 rf_loop].
      assert (Hnext : forall (b : bool) gm', good_matcher re_ms re_match gm' ->
        obind (gst_scolumn_regexFilter_loop1 upper re_ms f
                 (combine (map zn (seq (S (length done)) (length rest))) rest) index col (done ++ b :: rest) gm')
              (fun r => Ok (fst r))
        = ofmap (app done) (do r <- rf_loop up re_match index col (matcher_of gm') (S (length done)) rest;
                            Ok (b :: r))).
      { intros b gm' Hg. pose proof (IH (done ++ [b]) gm' Hg) as E.
        rewrite app_length in E. cbn [length] in E. rewrite Nat.add_1_r, <- app_assoc in E. cbn [app] in E.
        rewrite E. destruct (rf_loop up re_match index col (matcher_of gm') (S (length done)) rest);
          cbn [ofmap obind]; [rewrite <- app_assoc|..]; reflexivity. }
      destruct x; cbn [negb].
      + cbn [obind]. apply Hnext. exact Hgood.
      + unfold gst_index_id. replace (zn (length done) <? 0)%Z with false by lia. rewrite Nat2Z.id.
        destruct (idx index (length done)) as [ix| |]; [|reflexivity|reflexivity]. cbn [obind].
        unfold gst_stringAt.
        destruct (idx col ix) as [[cell|]| |]; [| |reflexivity|reflexivity]; cbn [obind negb].
        * pose proof (gst_Matches_eq upper up Hup re_ms re_match f gm cell Hf
                        (fun r E => Hgood r E cell)) as HM.
          destruct (gst_Matches upper re_ms f gm cell) as [[b gm']| |] eqn:EM;
            cbn [ofmap answer_of fst snd] in HM; rewrite <- HM; [|reflexivity|reflexivity].
          cbn [obind fst snd]. unfold gst_store_bool.
          replace ((0 <=? zn (length done))%Z && (zn (length done) <? zn (length (done ++ false :: rest)))%Z)
            with true by (rewrite app_length; cbn [length]; lia).
          rewrite Nat2Z.id, set_nth_middle. cbn [obind]. apply Hnext.
          intros r Hr. apply Hgood. exact (gst_Matches_keeps_regexp _ _ _ _ _ _ _ EM r Hr).
        * apply Hnext. exact Hgood.
  Qed.
End LikeLoops.

(* func regexFilter (like / ilike on a string column): the final bIndex, or Fail for the error return *)
Theorem gst_regexFilter_eq (upper : Z -> Z) (up : N -> Z) (Hup : forall c, upper (Z.of_N c) = up c)
  (su : bytes -> bytes) (re_compile : bytes -> bool) (re_ms : bytes -> bytes -> bool)
  (re_match : bytes -> bytes -> option bool)
  (Hre : forall x, re_compile x = match re_match x [] with Some _ => true | None => false end)
  (Hms : forall pat s, re_match pat [] <> None -> re_match pat s = Some (re_ms pat s))
  fuel index col p bi cs : 4 <= fuel ->
  gst_scolumn_regexFilter upper su re_compile re_ms fuel index col p bi cs
  = regex_filter up su re_match index col p bi cs.
Proof.
  intros Hf. destruct fuel as [|f]; [lia|]. unfold gst_scolumn_regexFilter, regex_filter.
  rewrite <- (gst_NewMatcher_eq su re_compile re_match Hre f p cs) by lia.
  destruct (gst_NewMatcher su re_compile f p cs) as [gm| |] eqn:EN; [|reflexivity|reflexivity].
  cbn [ofmap obind].
  assert (Hgood : good_matcher re_ms re_match gm).
  { intros r -> s. apply Hms.
    apply (new_matcher_regexp_compiled su re_match p cs r []).
    rewrite <- (gst_NewMatcher_eq su re_compile re_match Hre f p cs) by lia. rewrite EN. reflexivity. }
  pose proof (rf_loop_eq upper up Hup re_ms re_match f index col ltac:(lia) bi [] gm Hgood) as E.
  cbn [length app] in E. unfold gst_enum.
  change (fun r : list bool * gst_Matcher => Ok (fst r))
    with (fun '(v_bIndex, v_matcher) => @Ok (list bool) v_bIndex) in E || idtac.
  rewrite ofmap_id in E. rewrite <- E.
  destruct (gst_scolumn_regexFilter_loop1 upper re_ms f (combine (map zn (seq 0 (length bi))) bi) index col bi gm)
    as [[b m]| |]; reflexivity.
Qed.

(* ================================================================== ecolumn/filters.go: filterLike *)
Lemma enumval_of_nat i : Z.to_N (zn i mod 256) = (N.of_nat i mod 256)%N.
Proof. rewrite <- nat_N_Z. change 256%Z with (Z.of_N 256). rewrite <- N2Z.inj_mod. apply N2Z.id. Qed.

Section FilterLike.
  Variable upper : Z -> Z.
  Variable up : N -> Z.
  Hypothesis Hup : forall c, upper (Z.of_N c) = up c.
  Variable re_ms : bytes -> bytes -> bool.
  Variable re_match : bytes -> bytes -> option bool.

  (* the matcher applied once per enum VALUE, bset.set(enumVal(i)) = the translated set of GenFuncs.v *)
  Lemma fl_loop_eq f : 3 <= f -> forall values i gm bset, good_matcher re_ms re_match gm -> length bset = 4 ->
    obind (gst_ecolumn_filterLike_loop1 upper re_ms f (combine (map zn (seq i (length values))) values) gm
             (map Z.of_N bset)) (fun r => Ok (snd r))
    = ofmap (map Z.of_N) (fl_loop up re_match (matcher_of gm) i values bset).
  Proof.
    intros Hf. induction values as [|v values IH]; intros i gm bset Hgood Hlen; [reflexivity|].
    cbn [length seq map combine gst_ecolumn_filterLike_loop1 fl_loop].
    pose proof (gst_Matches_eq upper up Hup re_ms re_match f gm v Hf (fun r E => Hgood r E v)) as HM.
    destruct (gst_Matches upper re_ms f gm v) as [[b gm']| |] eqn:EM;
      cbn [ofmap answer_of fst snd] in HM; rewrite <- HM; [|reflexivity|reflexivity].
    cbn [obind fst snd answer_of].
    assert (Hg' : good_matcher re_ms re_match gm').
    { intros r Hr. apply Hgood. exact (gst_Matches_keeps_regexp _ _ _ _ _ _ _ EM r Hr). }
    destruct b.
    - rewrite (GenFuncsProofs.gf_ecolumn_bitset_set_eq bset (zn i mod 256) Hlen)
        by (apply Z.mod_pos_bound; lia).
      cbn [of_option obind]. rewrite enumval_of_nat.
      apply IH; [exact Hg'|]. rewrite bitset_set_length. exact Hlen.
    - cbn [obind]. apply IH; assumption.
  Qed.
End FilterLike.

(* func filterLike (like / ilike on an enum column): the bitset over the enum values, or Fail *)
Theorem gst_filterLike_eq (upper : Z -> Z) (up : N -> Z) (Hup : forall c, upper (Z.of_N c) = up c)
  (su : bytes -> bytes) (re_compile : bytes -> bool) (re_ms : bytes -> bytes -> bool)
  (re_match : bytes -> bytes -> option bool)
  (Hre : forall x, re_compile x = match re_match x [] with Some _ => true | None => false end)
  (Hms : forall pat s, re_match pat [] <> None -> re_match pat s = Some (re_ms pat s))
  fuel p values cs : 4 <= fuel ->
  gst_ecolumn_filterLike upper su re_compile re_ms fuel p values cs
  = ofmap (map Z.of_N) (filter_like up su re_match p values cs).
Proof.
  intros Hf. destruct fuel as [|f]; [lia|]. unfold gst_ecolumn_filterLike, filter_like.
  rewrite <- (gst_NewMatcher_eq su re_compile re_match Hre f p cs) by lia.
  destruct (gst_NewMatcher su re_compile f p cs) as [gm| |] eqn:EN; [|reflexivity|reflexivity].
  cbn [ofmap obind]. cbv zeta.
  assert (Hgood : good_matcher re_ms re_match gm).
  { intros r -> s. apply Hms.
    apply (new_matcher_regexp_compiled su re_match p cs r []).
    rewrite <- (gst_NewMatcher_eq su re_compile re_match Hre f p cs) by lia. rewrite EN. reflexivity. }
  pose proof (fl_loop_eq upper up Hup re_ms re_match f ltac:(lia) values 0 gm Bits.bitset_empty Hgood eq_refl) as E.
  rewrite <- E. unfold gst_enum. change (map Z.of_N Bits.bitset_empty) with gst_bitset_zero.
  destruct (gst_ecolumn_filterLike_loop1 upper re_ms f (combine (map zn (seq 0 (length values))) values) gm
              gst_bitset_zero) as [[m b]| |]; reflexivity.
Qed.
