(* Proofs/RyuHandover.v — stage 2 of the correctness of float64ToDecimal, part 1: the arithmetic behind the
   trailing-zero flags of step 3.
   * pow5Factor64 / multipleOfPowerOfFive64 decide divisibility by 5^p (on v <> 0, v < 2^64);
   * bits.TrailingZeros64 / multipleOfPowerOfTwo64 decide divisibility by 2^p;
   * powers of 2 and of 5 are coprime (Gauss): 5^j | x 2^i <-> 5^j | x and 2^j | x 5^i <-> 2^j | x;
   * small facts on floors of p and p - 1.
   Part 2 (Proofs/RyuHandoverStep3.v) uses them branch by branch on f2d_step3. *)
From Coq Require Import Znumtheory Zpow_facts.
From QF Require Import Base.Prelude Gen.GenConsts Gen.GenRyu Model.Ryu.
From QF Require Import Proofs.RyuArith Proofs.RyuIntervalLoops.
Local Open Scope N_scope.

(* ------------------------------------------------------------------ generic facts on mod *)

Lemma pow_pos_N (b n : N) : b <> 0 -> 0 < b ^ n.
Proof. intro H. pose proof (N.pow_nonzero b n H). lia. Qed.

Lemma eqb_iff (x y : N) (P : Prop) : (x = y <-> P) -> forall b : bool, (b = true <-> P) -> (x =? y) = b.
Proof.
  intros H b Hb. destruct (N.eqb_spec x y) as [E|E]; destruct b; try reflexivity.
  - apply H in E. apply Hb in E. discriminate E.
  - exfalso. apply E. apply H. apply Hb. reflexivity.
Qed.

Lemma mod0_eqb_iff (x y b c : N) : (x mod b = 0 <-> y mod c = 0) -> (x mod b =? 0) = (y mod c =? 0).
Proof.
  intro H. destruct (N.eqb_spec (x mod b) 0) as [E|E]; destruct (N.eqb_spec (y mod c) 0) as [F|F]; try reflexivity.
  - exfalso. apply F. apply H. exact E.
  - exfalso. apply E. apply H. exact F.
Qed.

(* a multiple of c b is a multiple of b, contrapositive *)
Lemma mod_ne_up (a b c : N) : b <> 0 -> c <> 0 -> a mod b <> 0 -> a mod (c * b) <> 0.
Proof. intros Hb Hc H K. apply H. exact (mod0_trans a b c Hb Hc K). Qed.

Lemma mod0_mul_l (x y b : N) : b <> 0 -> x mod b = 0 -> (x * y) mod b = 0.
Proof.
  intros Hb H. apply N.mod_divide in H; [|exact Hb]. apply N.mod_divide; [exact Hb|].
  destruct H as [k Hk]. exists (k * y). rewrite Hk. lia.
Qed.

(* floors of p and p - 1 *)
Lemma div_pred_nd (p D : N) : 0 < D -> p mod D <> 0 -> (p - 1) / D = p / D.
Proof.
  intros HD H. assert (NZ : D <> 0) by lia.
  pose proof (N.div_mod p D NZ) as DM. pose proof (N.mod_upper_bound p D NZ) as MU.
  symmetry. apply (N.div_unique (p - 1) D (p / D) (p mod D - 1)); [lia|].
  set (q := p / D) in *. set (s := p mod D) in *. clearbody q s. nia.
Qed.

Lemma div_pred_d (p D : N) : 0 < D -> 0 < p -> p mod D = 0 -> (p - 1) / D = p / D - 1.
Proof.
  intros HD Hp H. assert (NZ : D <> 0) by lia.
  pose proof (N.div_mod p D NZ) as DM. rewrite H, N.add_0_r in DM.
  assert (Q : 0 < p / D).
  { destruct (N.eq_dec (p / D) 0) as [Z|Z]; [|lia]. rewrite Z in DM. lia. }
  symmetry. apply (N.div_unique (p - 1) D (p / D - 1) (D - 1)); [lia|].
  set (q := p / D) in *. clearbody q. nia.
Qed.

(* ------------------------------------------------------------------ 2^i and 5^j are coprime *)

Lemma rel_prime_pow_5_2 (i j : N) : rel_prime (Z.of_N (5 ^ j)) (Z.of_N (2 ^ i)).
Proof.
  rewrite !N2Z.inj_pow. apply rel_prime_Zpower; try lia. apply Zgcd_1_rel_prime. reflexivity.
Qed.

(* Gauss's lemma on N through the one on Z *)
Lemma gauss_N (n m p : N) : rel_prime (Z.of_N n) (Z.of_N m) -> (n | m * p) -> (n | p).
Proof.
  intros R [k Hk].
  assert (D : (Z.of_N n | Z.of_N m * Z.of_N p)%Z).
  { exists (Z.of_N k). rewrite <- !N2Z.inj_mul. f_equal. exact Hk. }
  apply Gauss in D; [|exact R]. destruct D as [z Hz].
  destruct (N.eq_dec n 0) as [->|NZ].
  - exists 0. change (Z.of_N 0) with 0%Z in Hz. lia.
  - exists (Z.to_N z). apply N2Z.inj. rewrite N2Z.inj_mul, Z2N.id; [exact Hz|]. nia.
Qed.

(* 5^j | x 2^i <-> 5^j | x *)
Lemma gauss5 (x i j : N) : (x * 2 ^ i) mod 5 ^ j = 0 <-> x mod 5 ^ j = 0.
Proof.
  assert (NZ : 5 ^ j <> 0) by (apply N.pow_nonzero; discriminate).
  split; intro H.
  - apply N.mod_divide in H; [|exact NZ]. apply N.mod_divide; [exact NZ|].
    rewrite N.mul_comm in H. apply (gauss_N _ _ _ (rel_prime_pow_5_2 i j) H).
  - apply mod0_mul_l; assumption.
Qed.

(* 2^j | x 5^i <-> 2^j | x *)
Lemma gauss2 (x i j : N) : (x * 5 ^ i) mod 2 ^ j = 0 <-> x mod 2 ^ j = 0.
Proof.
  assert (NZ : 2 ^ j <> 0) by (apply N.pow_nonzero; discriminate).
  split; intro H.
  - apply N.mod_divide in H; [|exact NZ]. apply N.mod_divide; [exact NZ|].
    rewrite N.mul_comm in H. apply (gauss_N _ _ _ (rel_prime_sym _ _ (rel_prime_pow_5_2 j i)) H).
  - apply mod0_mul_l; assumption.
Qed.

Lemma gauss5_1 (x i : N) : (x * 2 ^ i) mod 5 = 0 <-> x mod 5 = 0.
Proof. exact (gauss5 x i 1). Qed.

(* 5^k = 1 (mod 4) *)
Lemma pow5_mod4 (k : N) : 5 ^ k mod 4 = 1.
Proof.
  induction k as [|k IH] using N.peano_ind; [reflexivity|].
  rewrite N.pow_succ_r', N.mul_mod, IH by discriminate. reflexivity.
Qed.

Lemma mul_pow5_mod4 (x k : N) : (x * 5 ^ k) mod 4 = x mod 4.
Proof.
  rewrite N.mul_mod, pow5_mod4, N.mul_1_r by discriminate. apply N.mod_mod. discriminate.
Qed.

(* ------------------------------------------------------------------ pow5Factor64 *)

Lemma pow5Factor64_aux_spec : forall fuel v n,
  v <> 0 -> v < 5 ^ N.of_nat fuel -> n + N.of_nat fuel < 2 ^ 32 ->
  exists k, pow5Factor64_aux fuel v n = Ok (n + k) /\ v mod 5 ^ k = 0 /\ v mod 5 ^ (k + 1) <> 0.
Proof.
  induction fuel as [|f IH]; intros v n Hv Hf Hn.
  - change (5 ^ N.of_nat 0) with 1 in Hf. lia.
  - cbn [pow5Factor64_aux]. destruct (v mod 5 =? 0) eqn:E.
    + apply N.eqb_eq in E.
      pose proof (N.div_mod v 5 ltac:(discriminate)) as DM. rewrite E, N.add_0_r in DM.
      rewrite Nat2N.inj_succ in Hf, Hn. rewrite N.pow_succ_r' in Hf.
      assert (U : u32 (n + 1) = n + 1).
      { unfold u32. apply N.mod_small. change two32N with (2 ^ 32). lia. }
      rewrite U.
      destruct (IH (v / 5) (n + 1)) as (k & E1 & K1 & K2).
      * set (w := v / 5) in *. clearbody w. lia.
      * apply N.div_lt_upper_bound; [discriminate|exact Hf].
      * lia.
      * exists (k + 1). split; [rewrite E1; f_equal; lia|].
        assert (P1 : 5 ^ (k + 1) = 5 * 5 ^ k) by (rewrite N.add_1_r; apply N.pow_succ_r').
        assert (P2 : 5 ^ (k + 1 + 1) = 5 * 5 ^ (k + 1)) by (rewrite (N.add_1_r (k + 1)); apply N.pow_succ_r').
        assert (NZ1 : 5 ^ k <> 0) by (apply N.pow_nonzero; discriminate).
        assert (NZ2 : 5 ^ (k + 1) <> 0) by (apply N.pow_nonzero; discriminate).
        split.
        -- rewrite P1, DM, N.mul_mod_distr_l by (assumption || discriminate). rewrite K1. reflexivity.
        -- rewrite P2, DM, N.mul_mod_distr_l by (assumption || discriminate).
           intro K. apply K2. set (z := (v / 5) mod 5 ^ (k + 1)) in *. clearbody z. lia.
    + apply N.eqb_neq in E. exists 0. split; [f_equal; lia|].
      split; [apply N.mod_1_r|exact E].
Qed.

Lemma pow5_split (a b : N) : a <= b -> 5 ^ b = 5 ^ (b - a) * 5 ^ a.
Proof. intro H. rewrite <- N.pow_add_r. f_equal. lia. Qed.

Lemma pow2_split (a b : N) : a <= b -> 2 ^ b = 2 ^ (b - a) * 2 ^ a.
Proof. intro H. rewrite <- N.pow_add_r. f_equal. lia. Qed.

(* multipleOfPowerOfFive64 decides divisibility by 5^p *)
Lemma multipleOfPowerOfFive64_spec (v p : N) :
  v <> 0 -> v < 2 ^ 64 -> multipleOfPowerOfFive64 v p = Ok (v mod 5 ^ p =? 0).
Proof.
  intros Hv Hlt. unfold multipleOfPowerOfFive64, pow5Factor64.
  destruct (pow5Factor64_aux_spec 64 v 0 Hv) as (k & E & K1 & K2).
  - assert (2 ^ 64 < 5 ^ N.of_nat 64) by (vm_compute; reflexivity). lia.
  - vm_compute. reflexivity.
  - rewrite E. cbn [obind]. f_equal. rewrite N.add_0_l. symmetry.
    destruct (N.leb_spec p k) as [L|L].
    + apply N.eqb_eq. rewrite (pow5_split p k L) in K1.
      apply (mod0_trans v (5 ^ p) (5 ^ (k - p))); try (apply N.pow_nonzero; discriminate). exact K1.
    + apply N.eqb_neq. intro K. apply K2.
      rewrite (pow5_split (k + 1) p ltac:(lia)) in K.
      apply (mod0_trans v (5 ^ (k + 1)) (5 ^ (p - (k + 1)))); try (apply N.pow_nonzero; discriminate). exact K.
Qed.

(* ------------------------------------------------------------------ trailing zero bits *)

Lemma odd_mod_pow2 (n p : N) : n mod 2 = 1 -> (n mod 2 ^ p =? 0) = (p =? 0).
Proof.
  intro H. destruct (N.eqb_spec p 0) as [->|NZ].
  - rewrite N.pow_0_r, N.mod_1_r. reflexivity.
  - apply N.eqb_neq. intro K.
    rewrite (pow2_split 1 p ltac:(lia)) in K. change (2 ^ 1) with 2 in K.
    assert (Z : n mod 2 = 0).
    { apply (mod0_trans n 2 (2 ^ (p - 1))); [discriminate|apply N.pow_nonzero; discriminate|exact K]. }
    rewrite Z in H. discriminate H.
Qed.

Lemma ptz_spec : forall (x : positive) (p : N), (p <=? ptz x) = (N.pos x mod 2 ^ p =? 0).
Proof.
  induction x as [x IH|x IH|]; intro p.
  - cbn [ptz]. rewrite odd_mod_pow2.
    + destruct (N.eqb_spec p 0) as [->|NZ]; [reflexivity|]. apply N.leb_gt. lia.
    + change (N.pos x~1) with (2 * N.pos x + 1). rewrite N.add_comm, N.mul_comm, N.mod_add by discriminate. reflexivity.
  - cbn [ptz]. destruct (N.eq_dec p 0) as [->|NZ].
    + rewrite N.pow_0_r, N.mod_1_r. apply N.leb_le. lia.
    + replace p with (N.succ (p - 1)) at 2 by lia. rewrite N.pow_succ_r'.
      change (N.pos x~0) with (2 * N.pos x).
      rewrite N.mul_mod_distr_l by (try apply N.pow_nonzero; discriminate).
      transitivity (p - 1 <=? ptz x).
      * destruct (N.leb_spec p (1 + ptz x)); destruct (N.leb_spec (p - 1) (ptz x)); try reflexivity; lia.
      * rewrite IH. set (z := N.pos x mod 2 ^ (p - 1)).
        destruct (N.eqb_spec z 0) as [->|Z]; [reflexivity|]. symmetry. apply N.eqb_neq. lia.
  - cbn [ptz]. rewrite odd_mod_pow2 by reflexivity.
    destruct (N.eqb_spec p 0) as [->|NZ]; [reflexivity|]. apply N.leb_gt. lia.
Qed.

(* multipleOfPowerOfTwo64 decides divisibility by 2^p (v <> 0) *)
Lemma multipleOfPowerOfTwo64_spec (v p : N) :
  v <> 0 -> multipleOfPowerOfTwo64 v p = (v mod 2 ^ p =? 0).
Proof.
  intro Hv. unfold multipleOfPowerOfTwo64, tz64. destruct v as [|x]; [congruence|]. apply ptz_spec.
Qed.

(* ------------------------------------------------------------------ parity *)

Lemma land1_even (x : N) : (N.land x 1 =? 0) = N.even x.
Proof.
  change 1 with (N.ones 1) at 1. rewrite N.land_ones. change (2 ^ 1) with 2.
  rewrite <- N.bit0_mod, N.bit0_odd, <- N.negb_even. destruct (N.even x); reflexivity.
Qed.

Lemma even_mod2' (x : N) : N.even x = (x mod 2 =? 0).
Proof. rewrite <- N.bit0_mod, N.bit0_odd, <- N.negb_even. destruct (N.even x); reflexivity. Qed.
