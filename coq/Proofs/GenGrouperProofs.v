(* Proofs/GenGrouperProofs.v — tie T1 for the grouper: the definitions that tools/qf2coq/grouper.go generates
   from internal/grouper/grouper.go (Gen/GenGrouper.v: records for the structs, state passing over the table,
   integers on Z, a *tableEntry as an index into t.entries, every for loop a Fixpoint over its own counter, every
   range loop a Fixpoint over the list) are equal to the hand-written loop-for-loop model of Model/Grouper.v.

   Conventions of the statements.
   * The model's tables are injected into the generated records by [rep_table] (an unoccupied slot None is the
     zero tableEntry, N is injected into Z, the fraction lf_num/lf_den is the pair, collectIx — an argument of
     the model's functions — is a field).  Every statement quantifies over ALL model tables (no invariant), all
     hash / eqb, all row id types A and all zero ids id0.
   * Fuel.  gg_f fuel = (O => Panic | S fuel' => body); inside, every for loop starts with fuel' as its counter
     and every call gets fuel'.  The model gives its two probing loops the table length as fuel.  Part 1 shows
     that the model's probe does not depend on its fuel from the table length on (a probe that has not stopped
     after [length es] slots never stops: pigeonhole), so that every generated fuel above the stated bound
     gives the model's answer, faults included. *)
From QF Require Import Base.Prelude Gen.GenConsts Gen.GenFuncs Gen.GenGrouper Model.Grouper.
From QF Require Import Proofs.GrouperProofs Proofs.GrouperInv Proofs.GrouperMain.
From QF Require Proofs.GenFuncsProofs.

Definition ofmap {A B : Type} (f : A -> B) (o : outcome A) : outcome B :=
  match o with Ok a => Ok (f a) | Fail => Fail | Panic => Panic end.

(* ================================================================== Part 1: the fuel of the model's probe *)
Section ProbeFuel.
  Context {A : Type}.
  Variable stop : entry A -> bool.
  Variable es : list (option (entry A)).
  Variable mask : N.

  Definition pstep (p : N) : N := N.land (p + 1) mask.
  (* an occupied slot on which the probe goes on *)
  Definition badb (p : N) : bool :=
    match nth_error es (N.to_nat p) with Some (Some e) => negb (stop e) | _ => false end.

  Lemma probe_S f p c :
    probe stop (S f) es mask p c =
    if badb p then probe stop f es mask (pstep p) (c + 1)%N
    else match nth_error es (N.to_nat p) with Some _ => Ok (N.to_nat p, c) | None => Panic end.
  Proof.
    cbn [probe]. unfold badb, idx, pstep.
    destruct (nth_error es (N.to_nat p)) as [[e|]|]; cbn [of_option obind negb]; [|reflexivity|reflexivity].
    destruct (stop e); reflexivity.
  Qed.

  Lemma probe_no_fail : forall f p c, probe stop f es mask p c <> Fail.
  Proof.
    induction f as [|f IH]; intros p c; [discriminate|]. rewrite probe_S.
    destruct (badb p); [apply IH|]. destruct (nth_error es (N.to_nat p)); discriminate.
  Qed.

  Lemma probe_mono_ok : forall f p c r, probe stop f es mask p c = Ok r ->
    forall f', (f <= f')%nat -> probe stop f' es mask p c = Ok r.
  Proof.
    induction f as [|f IH]; intros p c r H f' Hf; [discriminate|].
    destruct f' as [|f']; [lia|]. rewrite probe_S in *.
    destruct (badb p); [apply (IH _ _ _ H); lia|exact H].
  Qed.

  Lemma badb_range p : badb p = true -> (N.to_nat p < length es)%nat.
  Proof.
    unfold badb. destruct (nth_error es (N.to_nat p)) eqn:E; [|discriminate].
    intros _. apply nth_error_Some. rewrite E. discriminate.
  Qed.

  (* inside a set of continuing slots that is closed under the step, the probe never stops *)
  Lemma probe_cycle (V : list N) :
    (forall v, In v V -> badb v = true /\ In (pstep v) V) ->
    forall f p c, In p V -> probe stop f es mask p c = Panic.
  Proof.
    intros HV. induction f as [|f IH]; intros p c Hp; [reflexivity|].
    rewrite probe_S. destruct (HV p Hp) as [Hb Hs]. rewrite Hb. apply IH, Hs.
  Qed.

  Lemma covers (V : list N) p :
    NoDup V -> (forall v, In v V -> badb v = true) -> (length es <= length V)%nat ->
    (N.to_nat p < length es)%nat -> In p V.
  Proof.
    intros ND HV HL Hp.
    assert (I : incl (map N.of_nat (seq 0 (length es))) V).
    { apply NoDup_length_incl; [exact ND|rewrite map_length, seq_length; exact HL|].
      intros v Hv. apply in_map_iff. exists (N.to_nat v). split; [lia|].
      apply in_seq. pose proof (badb_range v (HV v Hv)). lia. }
    apply I. apply in_map_iff. exists (N.to_nat p). split; [lia|]. apply in_seq. lia.
  Qed.

  (* V: the slots seen so far (all continuing, pairwise different), the walk now stands at p *)
  Lemma probe_panic_stable : forall f p c (V : list N),
    NoDup V -> (forall v, In v V -> badb v = true /\ (In (pstep v) V \/ pstep v = p)) ->
    (length es <= length V + f)%nat ->
    probe stop f es mask p c = Panic ->
    forall f', (f <= f')%nat -> probe stop f' es mask p c = Panic.
  Proof.
    induction f as [|f IH]; intros p c V ND HV HL HP f' Hf.
    - destruct f' as [|f']; [reflexivity|]. rewrite probe_S.
      destruct (badb p) eqn:Hb.
      + assert (Hp : In p V).
        { apply covers; [exact ND|intros v Hv; apply (HV v Hv)|lia|apply badb_range, Hb]. }
        apply (probe_cycle V); [|destruct (HV p Hp) as [_ [H|H]]; [exact H|rewrite H; exact Hp]].
        intros v Hv. destruct (HV v Hv) as [Hbv [H|H]]; split; auto. rewrite H. exact Hp.
      + destruct (nth_error es (N.to_nat p)) eqn:E; [|reflexivity].
        assert (Hp : In p V).
        { apply covers; [exact ND|intros v Hv; apply (HV v Hv)|lia|].
          apply nth_error_Some. rewrite E. discriminate. }
        destruct (HV p Hp) as [Hb' _]. congruence.
    - destruct f' as [|f']; [lia|]. rewrite probe_S in *.
      destruct (badb p) eqn:Hb; [|exact HP].
      destruct (in_dec N.eq_dec p V) as [Hp|Hp].
      + apply (probe_cycle V); [|destruct (HV p Hp) as [_ [H|H]]; [exact H|rewrite H; exact Hp]].
        intros v Hv. destruct (HV v Hv) as [Hbv [H|H]]; split; auto. rewrite H. exact Hp.
      + apply (IH _ _ (p :: V)); [constructor; assumption| |cbn [length]; lia|exact HP|lia].
        intros v [<-|Hv]; [split; [exact Hb|right; reflexivity]|].
        destruct (HV v Hv) as [Hbv [H|H]]; split; auto; left; [right; exact H|left; symmetry; exact H].
  Qed.

  (* the model's probe answers the same for every fuel from the table length on *)
  Theorem probe_fuel_ge f1 f2 p c : (length es <= f1)%nat -> (f1 <= f2)%nat ->
    probe stop f2 es mask p c = probe stop f1 es mask p c.
  Proof.
    intros H1 H2. destruct (probe stop f1 es mask p c) as [r| |] eqn:E.
    - apply (probe_mono_ok _ _ _ _ E). exact H2.
    - exfalso. exact (probe_no_fail _ _ _ E).
    - apply (probe_panic_stable f1 p c []); [constructor|intros v []|cbn [length]; lia|exact E|exact H2].
  Qed.
End ProbeFuel.

(* ================================================================== Part 2: the injection of the model's tables *)
Lemma idx_map {X Y} (f : X -> Y) (l : list X) i : idx (map f l) i = ofmap f (idx l i).
Proof. unfold idx. rewrite nth_error_map. destruct (nth_error l i); reflexivity. Qed.

Lemma idx_set_nth_same {X} (l : list X) i v x : idx l i = Ok x -> idx (set_nth l i v) i = Ok v.
Proof.
  unfold idx. intros H. rewrite nth_error_set_nth_eq; [reflexivity|].
  apply nth_error_Some. destruct (nth_error l i); discriminate.
Qed.

Lemma set_nth_twice {X} (l : list X) : forall i v w, set_nth (set_nth l i v) i w = set_nth l i w.
Proof. induction l as [|x l IH]; intros [|i] v w; cbn [set_nth]; try reflexivity. rewrite IH. reflexivity. Qed.

Lemma N2Z_land (a b : N) : Z.of_N (N.land a b) = Z.land (Z.of_N a) (Z.of_N b).
Proof. destruct a, b; reflexivity. Qed.

Lemma land_gu32 (x m : N) : (m < 2 ^ 32)%N ->
  Z.land (gu32 (Z.of_N x)) (Z.of_N m) = Z.of_N (N.land x m).
Proof.
  intros Hm. unfold gu32. change 4294967296%Z with (2 ^ 32)%Z.
  rewrite <- Z.land_ones by lia. rewrite <- Z.land_assoc.
  replace (Z.land (Z.ones 32) (Z.of_N m)) with (Z.of_N m).
  - rewrite N2Z_land. reflexivity.
  - rewrite Z.land_comm, Z.land_ones by lia. symmetry. apply Z.mod_small. lia.
Qed.

Lemma land_gu64 (x m : N) : (m < 2 ^ 64)%N ->
  Z.land (gu64 (Z.of_N x)) (Z.of_N m) = Z.of_N (N.land x m).
Proof.
  intros Hm. unfold gu64. change 18446744073709551616%Z with (2 ^ 64)%Z.
  rewrite <- Z.land_ones by lia. rewrite <- Z.land_assoc.
  replace (Z.land (Z.ones 64) (Z.of_N m)) with (Z.of_N m).
  - rewrite N2Z_land. reflexivity.
  - rewrite Z.land_comm, Z.land_ones by lia. symmetry. apply Z.mod_small. lia.
Qed.

Lemma gu32_of_N (x : N) : gu32 (Z.of_N x) = Z.of_N (u32 x).
Proof. unfold gu32, u32. rewrite N2Z.inj_mod. reflexivity. Qed.

Lemma u32_lt (x : N) : (u32 x < 2 ^ 32)%N.
Proof. unfold u32. apply N.mod_lt. discriminate. Qed.

Section Rep.
  Context {A : Type}.
  Variable id0 : A.
  Variable eqb : A -> A -> bool.
  Variable hash : A -> N.

  Definition rep_entry (s : option (entry A)) : gg_tableEntry A :=
    match s with
    | None => gg_tableEntry_zero id0
    | Some e => gg_mk_tableEntry (ix e) (Z.of_N (ehash e)) (first e) true
    end.
  Definition rep_entries (es : list (option (entry A))) : list (gg_tableEntry A) := map rep_entry es.
  (* stats.GroupCount and stats.LoadFactor are only written by groupIndex, into its copy of the stats *)
  Definition rep_stats (rc rcoll icoll : N) : gg_GroupStats :=
    gg_mk_GroupStats (Z.of_N rc) (Z.of_N rcoll) (Z.of_N icoll) 0 (gg_float 0).
  Definition rep_table (collect : bool) (t : table A) : gg_table A :=
    gg_mk_table (rep_entries (entries t)) (rep_stats (reloc_count t) (reloc_coll t) (insert_coll t))
                (Z.of_N (lf_num t), Z.of_N (lf_den t)) (Z.of_N (group_count t)) collect.

  Lemma rep_entries_length es : length (rep_entries es) = length es.
  Proof. apply map_length. Qed.

  Lemma rep_set_nth es p s : set_nth (rep_entries es) p (rep_entry s) = rep_entries (set_nth es p s).
  Proof. unfold rep_entries. symmetry. apply map_set_nth. Qed.

  Lemma rep_repeat n : repeat (gg_tableEntry_zero id0) n = rep_entries (repeat None n).
  Proof. induction n as [|n IH]; cbn [repeat rep_entries map]; [reflexivity|]. rewrite IH. reflexivity. Qed.

  Lemma gg_index_rep es (p : N) : gg_index (rep_entries es) (Z.of_N p) = ofmap rep_entry (idx es (N.to_nat p)).
  Proof.
    unfold gg_index. replace (Z.of_N p <? 0)%Z with false by lia.
    replace (Z.to_nat (Z.of_N p)) with (N.to_nat p) by lia. apply idx_map.
  Qed.

  (* ================================================================ grow *)
  Ltac gg_proj :=
    unfold gg_table_set_stats, gg_table_set_entries, gg_table_set_loadFactor, gg_table_set_groupCount,
      gg_GroupStats_set_RelocationCollisions, gg_GroupStats_set_RelocationCount, gg_GroupStats_set_InsertCollisions,
      gg_GroupStats_set_GroupCount, gg_GroupStats_set_LoadFactor,
      gg_tableEntry_set_ix, gg_tableEntry_set_hash, gg_tableEntry_set_firstPos, gg_tableEntry_set_occupied;
    cbn [gg_table_stats gg_table_entries gg_table_loadFactor gg_table_groupCount gg_table_collectIx
      gg_GroupStats_RelocationCollisions gg_GroupStats_RelocationCount gg_GroupStats_InsertCollisions
      gg_GroupStats_GroupCount gg_GroupStats_LoadFactor
      gg_tableEntry_ix gg_tableEntry_hash gg_tableEntry_firstPos gg_tableEntry_occupied].

  (* the probing loop of grow: counter for fuel *)
  Lemma grow_loop1_eq vs0 rc ic sgc slf lf gc col s mask : (mask < 2 ^ 32)%N ->
    forall k nes pos c,
    gg_grow_loop1 k (gg_mk_table vs0 (gg_mk_GroupStats rc (Z.of_N c) ic sgc slf) lf gc col)
                  (rep_entries nes) (Z.of_N mask) (rep_entry s) (Z.of_N pos)
    = ofmap (fun pc => (gg_mk_table vs0 (gg_mk_GroupStats rc (Z.of_N (snd pc)) ic sgc slf) lf gc col,
                        rep_entries (set_nth nes (fst pc) s)))
            (probe (fun _ => false) k nes mask pos c).
  Proof.
    intros Hm. induction k as [|k IH]; intros nes pos c; [reflexivity|].
    cbn [gg_grow_loop1 probe]. rewrite gg_index_rep.
    destruct (idx nes (N.to_nat pos)) as [[e|]| |] eqn:E; cbn [ofmap obind rep_entry gg_tableEntry_zero negb];
      gg_proj; cbn [negb]; [| |reflexivity|reflexivity].
    - replace (Z.of_N c + 1)%Z with (Z.of_N (c + 1)) by lia.
      replace (Z.of_N pos + 1)%Z with (Z.of_N (pos + 1)) by lia.
      rewrite land_gu32 by exact Hm. apply IH.
    - unfold gg_update. replace (Z.of_N pos <? 0)%Z with false by lia.
      replace (Z.to_nat (Z.of_N pos)) with (N.to_nat pos) by lia.
      unfold rep_entries at 1. rewrite idx_map, E. cbn [obind ofmap fst snd].
      fold (rep_entries nes). rewrite rep_set_nth. reflexivity.
  Qed.

  Definition ggt vs rc rcoll ic sgc slf lf gc col : gg_table A :=
    gg_mk_table vs (gg_mk_GroupStats rc rcoll ic sgc slf) lf gc col.

  (* the range loop of grow is the model's fold *)
  Lemma grow_loop2_eq vs0 rc ic sgc slf lf gc col mask f : (mask < 2 ^ 32)%N ->
    forall l nes c,
    gg_grow_loop2 f (rep_entries l) (ggt vs0 rc (Z.of_N c) ic sgc slf lf gc col) (rep_entries nes) (Z.of_N mask)
    = ofmap (fun nc => (ggt vs0 rc (Z.of_N (snd nc)) ic sgc slf lf gc col, rep_entries (fst nc)))
            (fold_left (grow_step f mask) l (Ok (nes, c))).
  Proof.
    intros Hm. induction l as [|s l IH]; intros nes c; [reflexivity|].
    cbn [rep_entries map gg_grow_loop2 fold_left]. fold (rep_entries l).
    assert (Hh : Z.land (gg_tableEntry_hash (rep_entry s)) (Z.of_N mask) = Z.of_N (N.land (slot_hash s) mask)).
    { rewrite N2Z_land. destruct s; reflexivity. }
    rewrite Hh. unfold ggt. rewrite (grow_loop1_eq _ _ _ _ _ _ _ _ _ _ Hm).
    unfold grow_step at 2. cbn [obind fst snd].
    destruct (probe (fun _ => false) f nes mask (N.land (slot_hash s) mask) c) as [[p c']| |];
      cbn [ofmap obind fst snd].
    - apply IH.
    - clear. induction l as [|x l IHl]; [reflexivity|]. exact IHl.
    - clear. induction l as [|x l IHl]; [reflexivity|]. exact IHl.
  Qed.

  Lemma grow_fold_fuel mask f1 f2 : (f1 <= f2)%nat ->
    forall (l nes : list (option (entry A))) c, (length nes <= f1)%nat ->
    fold_left (grow_step f2 mask) l (Ok (nes, c)) = fold_left (grow_step f1 mask) l (Ok (nes, c)).
  Proof.
    intros Hf. induction l as [|s l IH]; intros nes c Hn; [reflexivity|].
    cbn [fold_left]. unfold grow_step at 2 4. cbn [obind fst snd].
    rewrite (probe_fuel_ge _ nes mask f1 f2) by assumption.
    destruct (probe (fun _ => false) f1 nes mask (N.land (slot_hash s) mask) c) as [[p c']| |]; cbn [obind fst snd].
    - apply IH. rewrite set_nth_length. exact Hn.
    - clear. induction l as [|x l IHl]; [reflexivity|]. exact IHl.
    - clear. induction l as [|x l IHl]; [reflexivity|]. exact IHl.
  Qed.

  Definition grow_newlen (t : table A) : N := u32 (c_growthFactor * N.of_nat (length (entries t))).

  Lemma gu32_pred (n : N) : (n < 2 ^ 32)%N -> gu32 (Z.of_N n - 1) = Z.of_N (u32 (n + (2 ^ 32 - 1))).
  Proof.
    intros Hn. unfold gu32, u32. rewrite N2Z.inj_mod. change (Z.of_N (2 ^ 32)) with 4294967296%Z.
    replace (Z.of_N (n + (2 ^ 32 - 1))) with (Z.of_N n - 1 + 1 * 4294967296)%Z by lia.
    rewrite Z.mod_add by lia. reflexivity.
  Qed.

  (* table.grow(): every fuel above the new length *)
  Theorem gg_grow_eq col t f : (N.to_nat (grow_newlen t) <= f)%nat ->
    gg_grow id0 (S f) (rep_table col t) = ofmap (rep_table col) (grow t).
  Proof.
    intros Hf. destruct t as [es lfn lfd gc rc rcoll ic]. unfold grow_newlen in Hf. cbn [entries] in Hf.
    unfold gg_grow, grow, rep_table.
    cbn [entries lf_num lf_den group_count reloc_count reloc_coll insert_coll]. gg_proj. cbv zeta.
    rewrite rep_entries_length.
    set (nl := u32 (c_growthFactor * N.of_nat (length es))) in *.
    assert (Hnl : gu32 (2 * Z.of_nat (length es)) = Z.of_N nl).
    { subst nl. rewrite <- gu32_of_N. f_equal. unfold c_growthFactor. lia. }
    rewrite Hnl. unfold gg_make.
    replace ((Z.of_N nl <? 0)%Z || (Z.of_N nl <? Z.of_N nl)%Z) with false by lia.
    cbn [obind]. replace (Z.to_nat (Z.of_N nl)) with (N.to_nat nl) by lia.
    rewrite rep_repeat. rewrite gu32_pred by (subst nl; apply u32_lt).
    set (mask := u32 (nl + (2 ^ 32 - 1))).
    unfold rep_stats. fold (ggt (rep_entries es) (Z.of_N rc) (Z.of_N rcoll) (Z.of_N ic) 0 (gg_float 0) (Z.of_N lfn, Z.of_N lfd) (Z.of_N gc) col).
    rewrite grow_loop2_eq by (subst mask; apply u32_lt).
    rewrite (grow_fold_fuel mask (N.to_nat nl) f Hf) by (rewrite repeat_length; lia).
    destruct (fold_left (grow_step (N.to_nat nl) mask) es (Ok (repeat None (N.to_nat nl), rcoll))) as [[nes c']| |];
      cbn [ofmap obind fst snd]; [|reflexivity|reflexivity].
    unfold ggt, rep_table, rep_stats. gg_proj.
    cbn [entries lf_num lf_den group_count reloc_count reloc_coll insert_coll].
    unfold gg_fdiv. cbn [fst snd]. unfold c_growthFactor.
    repeat f_equal; lia.
  Qed.

  (* ================================================================ insertEntry *)
  Definition istop (i : A) (h : N) (e : entry A) : bool := if (ehash e =? h)%N then eqb i (first e) else false.

  Lemma ins_loop1_some k vt i h mask p pos :
    gg_insertEntry_loop1 eqb (S k) vt i h mask (Some p) pos = Ok (vt, Some p).
  Proof. reflexivity. Qed.

  (* one trip of the probing loop of insertEntry *)
  Lemma ins_loop1_step es rc rcoll sgc slf lf gc col i (h mask : N) k pos c : (mask < 2 ^ 64)%N ->
    gg_insertEntry_loop1 eqb (S k) (ggt (rep_entries es) rc rcoll (Z.of_N c) sgc slf lf gc col) i (Z.of_N h)
                         (Z.of_N mask) None (Z.of_N pos)
    = match nth_error es (N.to_nat pos) with
      | Some s =>
          if match s with None => true | Some e => istop i h e end
          then gg_insertEntry_loop1 eqb k (ggt (rep_entries es) rc rcoll (Z.of_N c) sgc slf lf gc col) i (Z.of_N h)
                                    (Z.of_N mask) (Some (N.to_nat pos)) (Z.of_N (N.land (pos + 1) mask))
          else gg_insertEntry_loop1 eqb k (ggt (rep_entries es) rc rcoll (Z.of_N (c + 1)) sgc slf lf gc col) i (Z.of_N h)
                                    (Z.of_N mask) None (Z.of_N (N.land (pos + 1) mask))
      | None => Panic
      end.
  Proof.
    intros Hm. cbn [gg_insertEntry_loop1 gg_isnil_ptr]. unfold gg_addr, ggt. gg_proj.
    rewrite gg_index_rep.
    replace (Z.of_N pos + 1)%Z with (Z.of_N (pos + 1)) by lia. rewrite land_gu64 by exact Hm.
    replace (Z.to_nat (Z.of_N pos)) with (N.to_nat pos) by lia.
    unfold idx at 1. destruct (nth_error es (N.to_nat pos)) as [s|] eqn:E; cbn [of_option ofmap obind]; [|reflexivity].
    assert (E' : idx es (N.to_nat pos) = Ok s) by (unfold idx; rewrite E; reflexivity).
    unfold gg_load. gg_proj. unfold rep_entries at 1. rewrite idx_map, E'. cbn [ofmap obind].
    destruct s as [e|]; cbn [rep_entry gg_tableEntry_zero]; gg_proj; cbn [negb].
    - unfold istop. replace (Z.of_N (ehash e) =? Z.of_N h)%Z with (ehash e =? h)%N by lia.
      destruct (if (ehash e =? h)%N then eqb i (first e) else false); cbn [obind].
      + reflexivity.
      + replace (Z.of_N c + 1)%Z with (Z.of_N (c + 1)) by lia. reflexivity.
    - reflexivity.
  Qed.

  Lemma ins_loop1_eq es rc rcoll sgc slf lf gc col i (h mask : N) : (mask < 2 ^ 64)%N ->
    forall k pos c,
    gg_insertEntry_loop1 eqb (S k) (ggt (rep_entries es) rc rcoll (Z.of_N c) sgc slf lf gc col) i (Z.of_N h)
                         (Z.of_N mask) None (Z.of_N pos)
    = ofmap (fun pc => (ggt (rep_entries es) rc rcoll (Z.of_N (snd pc)) sgc slf lf gc col, Some (fst pc)))
            (probe (istop i h) k es mask pos c).
  Proof.
    intros Hm. induction k as [|k IH]; intros pos c; rewrite ins_loop1_step by exact Hm.
    - cbn [probe ofmap]. destruct (nth_error es (N.to_nat pos)) as [[e|]|]; try reflexivity.
      destruct (istop i h e); reflexivity.
    - cbn [probe]. unfold idx. destruct (nth_error es (N.to_nat pos)) as [[e|]|]; cbn [of_option obind ofmap]; try reflexivity.
      destruct (istop i h e); [reflexivity|]. apply IH.
  Qed.

  Lemma grow_fold_length f mask : forall (l nes : list (option (entry A))) c nes' c',
    fold_left (grow_step f mask) l (Ok (nes, c)) = Ok (nes', c') -> length nes' = length nes.
  Proof.
    induction l as [|s l IH]; intros nes c nes' c' H.
    - cbn [fold_left] in H. injection H as <- _. reflexivity.
    - cbn [fold_left] in H. unfold grow_step at 2 in H. cbn [obind fst snd] in H.
      destruct (probe (fun _ => false) f nes mask (N.land (slot_hash s) mask) c) as [[p c1]| |]; cbn [obind fst snd] in H.
      + rewrite (IH _ _ _ _ H). apply set_nth_length.
      + exfalso. clear -H. induction l as [|x l IHl]; [discriminate|]. exact (IHl H).
      + exfalso. clear -H. induction l as [|x l IHl]; [discriminate|]. exact (IHl H).
  Qed.

  Lemma grow_length t t' : grow t = Ok t' -> length (entries t') = N.to_nat (grow_newlen t).
  Proof.
    unfold grow, grow_newlen. cbv zeta.
    destruct (fold_left _ (entries t) _) as [[nes c']| |] eqn:E; cbn [obind]; [|discriminate|discriminate].
    intros H. injection H as <-. cbn [entries fst]. rewrite (grow_fold_length _ _ _ _ _ _ _ E).
    apply repeat_length.
  Qed.

  (* what insertEntry does after the load factor test *)
  Definition insert_rest (collect : bool) (t : table A) (i : A) : outcome (table A) :=
    let h := u32 (hash i) in
    let len := length (entries t) in
    let mask := N.pred (N.of_nat len) in
    do pc <- probe (fun e => if (ehash e =? h)%N then eqb i (first e) else false)
                   len (entries t) mask (N.land h mask) (insert_coll t);
    let pos := fst pc in
    do s <- idx (entries t) pos;
    match s with
    | None =>
        let gc := u32 (group_count t + 1) in
        Ok (mkTable (set_nth (entries t) pos (Some (mkEntry h i []))) gc (N.of_nat len) gc
                    (reloc_count t) (reloc_coll t) (snd pc))
    | Some e =>
        if collect then
          let ix' := match ix e with [] => [first e; i] | _ :: _ => ix e ++ [i] end in
          Ok (mkTable (set_nth (entries t) pos (Some (mkEntry (ehash e) (first e) ix')))
                      (lf_num t) (lf_den t) (group_count t) (reloc_count t) (reloc_coll t) (snd pc))
        else
          Ok (mkTable (entries t) (lf_num t) (lf_den t) (group_count t)
                      (reloc_count t) (reloc_coll t) (snd pc))
    end.

  Lemma insert_entry_split collect t0 i :
    insert_entry eqb hash collect t0 i
    = do t <- (if (c_maxLoadFactor_num * lf_den t0 <? lf_num t0 * c_maxLoadFactor_den)%N then grow t0 else Ok t0);
      insert_rest collect t i.
  Proof. reflexivity. Qed.

  Lemma gg_load_ggt vs a b c d e lf g h p :
    gg_load (ggt vs a b c d e lf g h) (Some p) = idx vs p.
  Proof. reflexivity. Qed.
  Lemma gg_store_ggt vs a b c d e lf g h p fn :
    gg_store (ggt vs a b c d e lf g h) (Some p) fn = do x <- idx vs p; Ok (ggt (set_nth vs p (fn x)) a b c d e lf g h).
  Proof. reflexivity. Qed.

  Theorem gg_insertEntry_eq col t i f :
    (Z.of_nat (length (entries t)) < 2 ^ 63)%Z ->
    (N.to_nat (grow_newlen t) + 2 <= f)%nat -> (length (entries t) + 2 <= f)%nat ->
    gg_insertEntry id0 eqb hash f (rep_table col t) i = ofmap (rep_table col) (insert_entry eqb hash col t i).
  Proof.
    intros Hlen Hf1 Hf2. destruct f as [|f]; [lia|]. rewrite insert_entry_split.
    cbn [gg_insertEntry].
    set (mpre := if (c_maxLoadFactor_num * lf_den t <? lf_num t * c_maxLoadFactor_den)%N then grow t else Ok t).
    set (pre := if gg_fgt _ _ then _ else _).
    assert (Hpre : pre = ofmap (rep_table col) mpre).
    { subst pre mpre. unfold gg_fgt. change (gg_table_loadFactor (rep_table col t)) with (Z.of_N (lf_num t), Z.of_N (lf_den t)). cbn [fst snd].
      unfold c_maxLoadFactor_num, c_maxLoadFactor_den.
      replace (1 * Z.of_N (lf_den t) <? Z.of_N (lf_num t) * 2)%Z with (1 * lf_den t <? lf_num t * 2)%N by lia.
      destruct (1 * lf_den t <? lf_num t * 2)%N; [|reflexivity].
      destruct f as [|f']; [lia|]. rewrite gg_grow_eq by lia.
      destruct (grow t); reflexivity. }
    assert (Hpl : forall t1, mpre = Ok t1 -> (Z.of_nat (length (entries t1)) < 2 ^ 63)%Z /\ (length (entries t1) + 1 <= f)%nat).
    { subst mpre. intros t1. destruct (_ <? _)%N.
      - intros H. rewrite (grow_length _ _ H). pose proof (u32_lt (c_growthFactor * N.of_nat (length (entries t)))).
        unfold grow_newlen in *. split; lia.
      - intros H. injection H as <-. split; lia. }
    rewrite Hpre. clearbody mpre. clear pre Hpre.
    destruct mpre as [t1| |]; cbn [ofmap obind]; [|reflexivity|reflexivity].
    destruct (Hpl t1 eq_refl) as [Hl1 Hf]. clear Hpl.
    destruct t1 as [es lfn lfd gc rc rcoll ic]. cbn [entries] in *.
    unfold insert_rest. cbn [entries lf_num lf_den group_count reloc_count reloc_coll insert_coll]. cbv zeta.
    change (rep_table col (mkTable es lfn lfd gc rc rcoll ic))
      with (ggt (rep_entries es) (Z.of_N rc) (Z.of_N rcoll) (Z.of_N ic) 0 (gg_float 0) (Z.of_N lfn, Z.of_N lfd) (Z.of_N gc) col).
    cbn [ggt gg_table_entries]. rewrite rep_entries_length.
    unfold gg_hash. rewrite gu32_of_N. set (h := u32 (hash i)).
    assert (Hh : gu64 (Z.of_N h) = Z.of_N h).
    { unfold gu64. apply Z.mod_small. pose proof (u32_lt (hash i)). subst h. lia. }
    rewrite Hh. destruct f as [|k]; [lia|].
    destruct es as [|s0 es'].
    - cbn [length probe ofmap obind]. cbn [gg_insertEntry_loop1 gg_isnil_ptr]. unfold gg_addr, gg_index. gg_proj.
      cbn [rep_entries map]. destruct (_ <? 0)%Z; [reflexivity|]. unfold idx. destruct (Z.to_nat _); reflexivity.
    - set (es := s0 :: es') in *. set (len := length es) in *.
      assert (Hlen1 : (1 <= len)%nat) by (subst len es; cbn [length]; lia).
      assert (Hmask : gu64 (Z.of_nat len - 1) = Z.of_N (N.pred (N.of_nat len))).
      { unfold gu64. rewrite Z.mod_small by lia. lia. }
      rewrite Hmask. set (mask := N.pred (N.of_nat len)).
      rewrite <- N2Z_land.
      fold (ggt (rep_entries es) (Z.of_N rc) (Z.of_N rcoll) (Z.of_N ic) 0 (gg_float 0) (Z.of_N lfn, Z.of_N lfd) (Z.of_N gc) col).
      rewrite ins_loop1_eq by (subst mask; lia).
      rewrite (probe_fuel_ge _ es mask len k) by (subst len; lia).
      fold (istop i h).
      destruct (probe (istop i h) len es mask (N.land h mask) ic) as [[p c']| |]; cbn [ofmap obind fst snd];
        [|reflexivity|reflexivity].
      assert (EI : idx (rep_entries es) p = ofmap rep_entry (idx es p)) by apply idx_map.
      rewrite !gg_load_ggt, !EI.
      destruct (idx es p) as [[e|]| |] eqn:E; cbn [ofmap obind rep_entry gg_tableEntry_zero]; gg_proj; cbn [negb];
        [| |reflexivity|reflexivity].
      + cbn [ggt gg_table_collectIx]. destruct col; [|reflexivity].
        fold (ggt (rep_entries es) (Z.of_N rc) (Z.of_N rcoll) (Z.of_N c') 0 (gg_float 0) (Z.of_N lfn, Z.of_N lfd) (Z.of_N gc) true).
        rewrite !gg_store_ggt, !EI. cbn [ofmap obind rep_entry].
        destruct (ix e) as [|x r] eqn:Eix; cbn [gg_isnil obind ofmap]; gg_proj;
          unfold rep_table, ggt, rep_stats; cbn [entries lf_num lf_den group_count reloc_count reloc_coll insert_coll];
          rewrite <- rep_set_nth; reflexivity.
      + unfold gg_tableEntry_zero. cbn [gg_tableEntry_occupied negb].
        assert (E0 : idx (rep_entries es) p = Ok (rep_entry None)) by exact EI.
        rewrite gg_store_ggt, E0. cbn [obind].
        rewrite gg_store_ggt, (idx_set_nth_same _ _ _ _ E0). cbn [obind]. rewrite set_nth_twice.
        rewrite gg_store_ggt, (idx_set_nth_same _ _ _ _ E0). cbn [obind]. rewrite set_nth_twice.
        cbn [rep_entry]. unfold gg_tableEntry_zero. gg_proj. unfold ggt. gg_proj.
        rewrite set_nth_length, rep_entries_length. fold len.
        unfold rep_table, rep_stats. cbn [entries lf_num lf_den group_count reloc_count reloc_coll insert_coll].
        rewrite <- rep_set_nth. cbn [rep_entry ix ehash first].
        replace (Z.of_N gc + 1)%Z with (Z.of_N (gc + 1)) by lia. rewrite gu32_of_N.
        unfold gg_fdiv, gg_float. cbn [fst snd].
        repeat f_equal; lia.
  Qed.

  (* ================================================================ newTable *)
  Theorem gg_newTable_eq col (e : N) f :
    gg_newTable id0 (S f) (Z.of_N e) col = Ok (rep_table col (new_table e)).
  Proof.
    cbn [gg_newTable]. unfold gg_Pow2, gg_make.
    replace (2 ^ Z.of_N e)%Z with (Z.of_N (2 ^ e)) by (rewrite N2Z.inj_pow; reflexivity).
    replace ((Z.of_N (2 ^ e) <? 0)%Z || (Z.of_N (2 ^ e) <? Z.of_N (2 ^ e))%Z) with false by lia.
    cbn [obind]. replace (Z.to_nat (Z.of_N (2 ^ e))) with (N.to_nat (2 ^ e)) by lia.
    rewrite rep_repeat. reflexivity.
  Qed.

  (* ================================================================ groupIndex *)
  (* what the fuel has to cover along a run: the table is never longer than f - 2 slots (after the first
     growth its length is a uint32), its length is a Go int, groupCount is a uint32 *)
  Definition run_inv (f : nat) (t : table A) : Prop :=
    (length (entries t) + 2 <= f)%nat /\ (Z.of_nat (length (entries t)) < 2 ^ 63)%Z /\ (group_count t < 2 ^ 32)%N.

  Lemma insert_rest_shape col (t : table A) i (t' : table A) : insert_rest col t i = Ok t' ->
    length (entries t') = length (entries t) /\ (group_count t' = group_count t \/ (group_count t' < 2 ^ 32)%N).
  Proof.
    unfold insert_rest. cbv zeta.
    destruct (probe _ _ _ _ _ _) as [[p c]| |]; cbn [obind fst snd]; [|discriminate|discriminate].
    destruct (idx (entries t) p) as [[e|]| |]; cbn [obind]; [| |discriminate|discriminate].
    - destruct col; intros H; injection H as <-; cbn [entries group_count]; rewrite ?set_nth_length; auto.
    - intros H; injection H as <-; cbn [entries group_count]. rewrite set_nth_length. split; [reflexivity|].
      right. apply u32_lt.
  Qed.

  Lemma grow_group_count (t t' : table A) : grow t = Ok t' -> group_count t' = group_count t.
  Proof.
    unfold grow. cbv zeta. destruct (fold_left _ _ _) as [nc| |]; cbn [obind]; [|discriminate|discriminate].
    intros H; injection H as <-. reflexivity.
  Qed.

  Lemma insert_entry_inv f col t i t' : (2 ^ 32 + 2 <= Z.of_nat f)%Z ->
    run_inv f t -> insert_entry eqb hash col t i = Ok t' -> run_inv f t'.
  Proof.
    intros Hf (H1 & H2 & H3). rewrite insert_entry_split.
    destruct (_ <? _)%N.
    - destruct (grow t) as [t1| |] eqn:G; cbn [obind]; [|discriminate|discriminate].
      intros H. destruct (insert_rest_shape _ _ _ _ H) as [L GC].
      pose proof (grow_length _ _ G) as L1. pose proof (grow_group_count _ _ G) as G1.
      pose proof (u32_lt (c_growthFactor * N.of_nat (length (entries t)))) as U. unfold grow_newlen in L1.
      unfold run_inv. rewrite L, L1. repeat split; lia.
    - cbn [obind]. intros H. destruct (insert_rest_shape _ _ _ _ H) as [L GC].
      unfold run_inv. rewrite L. repeat split; lia.
  Qed.

  Lemma gg_groupIndex_loop1_eq col f : (2 ^ 32 + 2 <= Z.of_nat f)%Z ->
    forall ids t, run_inv f t ->
    gg_groupIndex_loop1 id0 eqb hash f ids (rep_table col t) = ofmap (rep_table col) (insert_all eqb hash col t ids).
  Proof.
    intros Hf. induction ids as [|i ids IH]; intros t Hi; [reflexivity|].
    cbn [gg_groupIndex_loop1 insert_all].
    destruct Hi as (H1 & H2 & H3).
    rewrite gg_insertEntry_eq;
      [|exact H2|pose proof (u32_lt (c_growthFactor * N.of_nat (length (entries t)))); unfold grow_newlen; lia|exact H1].
    destruct (insert_entry eqb hash col t i) as [t'| |] eqn:E; cbn [ofmap obind]; [|reflexivity|reflexivity].
    apply IH. apply (insert_entry_inv f col t i t' Hf); [repeat split; assumption|exact E].
  Qed.

  Lemma insert_all_inv f col : (2 ^ 32 + 2 <= Z.of_nat f)%Z ->
    forall ids t t', run_inv f t -> insert_all eqb hash col t ids = Ok t' -> run_inv f t'.
  Proof.
    intros Hf. induction ids as [|i ids IH]; intros t t' Hi H.
    - cbn [insert_all] in H. injection H as <-. exact Hi.
    - cbn [insert_all] in H. destruct (insert_entry eqb hash col t i) as [t1| |] eqn:E; cbn [obind] in H; try discriminate.
      apply (IH t1 t'); [apply (insert_entry_inv f col t i t1 Hf Hi E)|exact H].
  Qed.

  (* the GroupStats groupIndex hands out *)
  Definition stats_of (t : table A) : gg_GroupStats :=
    gg_mk_GroupStats (Z.of_N (reloc_count t)) (Z.of_N (reloc_coll t)) (Z.of_N (insert_coll t))
                     (Z.of_N (group_count t)) (Z.of_N (lf_num t), Z.of_N (lf_den t)).

  Lemma pow2_size_le (x : N) : (2 ^ N.size x <= N.max 1 (2 * x))%N.
  Proof.
    destruct (N.eq_dec x 0) as [->|Hx]; [cbn; lia|].
    rewrite N.size_log2 by exact Hx. rewrite N.pow_succ_r'.
    pose proof (N.log2_spec x ltac:(lia)). lia.
  Qed.

  Lemma init_len_bound (n : N) : (2 ^ calculate_initial_size_exp n <= N.max 8 n)%N.
  Proof.
    unfold calculate_initial_size_exp. change c_grouper_fit_div with 4%N. change c_grouper_min_exp with 3%N.
    destruct (N.max_spec (N.size (n / 4)) 3) as [[_ ->]|[_ ->]]; [cbn; lia|].
    pose proof (pow2_size_le (n / 4)). pose proof (N.mul_div_le n 4 ltac:(lia)). lia.
  Qed.

  Theorem gg_groupIndex_eq col ids f :
    (Z.of_nat (length ids) < 2 ^ 63)%Z -> (2 ^ 32 + 3 <= Z.of_nat f)%Z -> (length ids + 11 <= f)%nat ->
    gg_groupIndex id0 eqb hash f ids col
    = ofmap (fun t => (rep_entries (entries t), stats_of t)) (group_index eqb hash col ids).
  Proof.
    intros Hn Hf1 Hf2. destruct f as [|f]; [lia|]. cbn [gg_groupIndex]. cbv zeta.
    rewrite GenFuncsProofs.gf_grouper_calculateInitialSizeExp_eq by lia.
    unfold group_index. replace (Z.to_N (Z.of_nat (length ids))) with (N.of_nat (length ids)) by lia.
    set (e := calculate_initial_size_exp (N.of_nat (length ids))).
    destruct f as [|f']; [lia|]. rewrite gg_newTable_eq. cbn [obind].
    assert (Hi : run_inv (S f') (new_table e)).
    { pose proof (init_len_bound (N.of_nat (length ids))) as B. fold e in B.
      unfold run_inv, new_table. cbn [entries group_count]. rewrite repeat_length. repeat split; lia. }
    rewrite gg_groupIndex_loop1_eq by (try exact Hi; lia).
    destruct (insert_all eqb hash col (new_table e) ids) as [t| |] eqn:E; cbn [ofmap obind]; [|reflexivity|reflexivity].
    destruct (insert_all_inv (S f') col ltac:(lia) ids _ _ Hi E) as (_ & _ & G).
    unfold rep_table, rep_stats, stats_of. gg_proj.
    replace (gs64 (Z.of_N (group_count t))) with (Z.of_N (group_count t)); [reflexivity|].
    unfold gs64. rewrite Z.mod_small by lia. lia.
  Qed.

  (* ================================================================ GroupBy, Distinct *)
  Lemma gg_GroupBy_loop1_eq : forall (es : list (option (entry A))) acc,
    gg_GroupBy_loop1 (rep_entries es) acc = Ok (acc ++ map members (occ es)).
  Proof.
    induction es as [|s es IH]; intros acc.
    - cbn [rep_entries map gg_GroupBy_loop1 occ flat_map]. rewrite app_nil_r. reflexivity.
    - cbn [rep_entries map gg_GroupBy_loop1]. fold (rep_entries es). destruct s as [e|].
      + cbn [rep_entry]. gg_proj. unfold members.
        destruct (ix e) as [|x r] eqn:Eix; cbn [gg_isnil obind]; rewrite IH; cbn [occ flat_map app map];
          unfold members; rewrite Eix, <- app_assoc; reflexivity.
      + cbn [rep_entry]. unfold gg_tableEntry_zero. gg_proj. cbn [obind]. apply IH.
  Qed.

  Lemma gg_Distinct_loop1_eq : forall (es : list (option (entry A))) acc,
    gg_Distinct_loop1 (rep_entries es) acc = Ok (acc ++ map first (occ es)).
  Proof.
    induction es as [|s es IH]; intros acc.
    - cbn [rep_entries map gg_Distinct_loop1 occ flat_map]. rewrite app_nil_r. reflexivity.
    - cbn [rep_entries map gg_Distinct_loop1]. fold (rep_entries es). destruct s as [e|].
      + cbn [rep_entry]. gg_proj. cbn [obind]. rewrite IH. cbn [occ flat_map app map].
        rewrite <- app_assoc. reflexivity.
      + cbn [rep_entry]. unfold gg_tableEntry_zero. gg_proj. cbn [obind]. apply IH.
  Qed.

  Theorem gg_GroupBy_eq ids f :
    (Z.of_nat (length ids) < 2 ^ 63)%Z -> (2 ^ 32 + 4 <= Z.of_nat f)%Z -> (length ids + 12 <= f)%nat ->
    gg_GroupBy id0 eqb hash f ids
    = ofmap (fun t => (map members (occ (entries t)), stats_of t)) (group_index eqb hash true ids).
  Proof.
    intros Hn Hf1 Hf2. destruct f as [|f]; [lia|]. cbn [gg_GroupBy].
    rewrite gg_groupIndex_eq by lia.
    destruct (group_index eqb hash true ids) as [t| |]; cbn [ofmap obind]; [|reflexivity|reflexivity].
    unfold stats_of at 1. gg_proj. unfold gg_make.
    replace ((0 <? 0)%Z || (Z.of_N (group_count t) <? 0)%Z) with false by lia.
    cbn [obind Z.to_nat repeat]. rewrite gg_GroupBy_loop1_eq. reflexivity.
  Qed.

  Theorem gg_Distinct_eq ids f :
    (Z.of_nat (length ids) < 2 ^ 63)%Z -> (2 ^ 32 + 4 <= Z.of_nat f)%Z -> (length ids + 12 <= f)%nat ->
    gg_Distinct id0 eqb hash f ids = distinct_ids_gen eqb hash ids.
  Proof.
    intros Hn Hf1 Hf2. destruct f as [|f]; [lia|]. cbn [gg_Distinct]. unfold distinct_ids_gen.
    rewrite gg_groupIndex_eq by lia.
    destruct (group_index eqb hash false ids) as [t| |]; cbn [ofmap obind]; [|reflexivity|reflexivity].
    unfold stats_of at 1. gg_proj. unfold gg_make.
    replace ((0 <? 0)%Z || (Z.of_N (group_count t) <? 0)%Z) with false by lia.
    cbn [obind Z.to_nat repeat]. rewrite gg_Distinct_loop1_eq. reflexivity.
  Qed.

  (* the first component of GroupBy is the model's group_ids_gen, the second its statistics *)
  Corollary gg_GroupBy_groups ids f :
    (Z.of_nat (length ids) < 2 ^ 63)%Z -> (2 ^ 32 + 4 <= Z.of_nat f)%Z -> (length ids + 12 <= f)%nat ->
    ofmap fst (gg_GroupBy id0 eqb hash f ids) = group_ids_gen eqb hash ids.
  Proof.
    intros Hn Hf1 Hf2. rewrite gg_GroupBy_eq by assumption. unfold group_ids_gen.
    destruct (group_index eqb hash true ids); reflexivity.
  Qed.

  Definition stats_tuple (s : gg_GroupStats) : Z * Z * Z * Z * (Z * Z) :=
    (gg_GroupStats_RelocationCount s, gg_GroupStats_RelocationCollisions s, gg_GroupStats_InsertCollisions s,
     gg_GroupStats_GroupCount s, gg_GroupStats_LoadFactor s).
  Definition ztuple (x : N * N * N * N * (N * N)) : Z * Z * Z * Z * (Z * Z) :=
    match x with (a, b, c, d, (n, m)) => (Z.of_N a, Z.of_N b, Z.of_N c, Z.of_N d, (Z.of_N n, Z.of_N m)) end.

  Corollary gg_GroupBy_stats ids f :
    (Z.of_nat (length ids) < 2 ^ 63)%Z -> (2 ^ 32 + 4 <= Z.of_nat f)%Z -> (length ids + 12 <= f)%nat ->
    ofmap (fun r => stats_tuple (snd r)) (gg_GroupBy id0 eqb hash f ids) = ofmap ztuple (group_stats_gen eqb hash true ids).
  Proof.
    intros Hn Hf1 Hf2. rewrite gg_GroupBy_eq by assumption. unfold group_stats_gen.
    destruct (group_index eqb hash true ids); reflexivity.
  Qed.

  (* what the tie buys: C04_partition / C05_distinct hold of the translated Go text *)
  Theorem gg_GroupBy_partition ids f :
    NoDup ids -> per_on eqb ids -> hash_respects eqb hash ids -> (N.of_nat (length ids) <= 2 ^ 30)%N ->
    (2 ^ 32 + 4 <= Z.of_nat f)%Z ->
    exists gs st, gg_GroupBy id0 eqb hash f ids = Ok (gs, st) /\ partition_ok eqb ids gs.
  Proof.
    intros ND Hper Hh Hn Hf.
    destruct (group_ids_partition eqb hash ids ND Hper Hh Hn) as (gs & Hg & Hp).
    rewrite gg_GroupBy_eq by lia. unfold group_ids_gen in Hg.
    destruct (group_index eqb hash true ids) as [t| |]; cbn [obind] in Hg; try discriminate.
    injection Hg as <-. eexists _, _. split; [reflexivity|exact Hp].
  Qed.

  Theorem gg_Distinct_distinct ids f :
    NoDup ids -> per_on eqb ids -> hash_respects eqb hash ids -> (N.of_nat (length ids) <= 2 ^ 30)%N ->
    (2 ^ 32 + 4 <= Z.of_nat f)%Z ->
    exists d, gg_Distinct id0 eqb hash f ids = Ok d /\ distinct_ok eqb ids d.
  Proof.
    intros ND Hper Hh Hn Hf. rewrite gg_Distinct_eq by lia.
    destruct (distinct_ids_heads eqb hash ids ND Hper Hh Hn) as (gs & _ & _ & Hd & Hok).
    exists (heads gs). split; assumption.
  Qed.
End Rep.

(* ================================================================== the float64 load factor
   Every value the Go code stores in table.loadFactor is groupCount / len(entries) or that value halved, with
   groupCount < 2^32 and len(entries) = 2^k, k <= 32: it is m * 2^e for an integer |m| < 2^53 and an exponent
   in the normal range of binary64, i.e. a binary64 number — both float divisions are exact, and so is the
   comparison with 0.5 = 1 * 2^-1.  (Pure arithmetic; that Go's float64 division rounds correctly is trusted.) *)
Lemma gg_load_factor_representable (gc k halvings : Z) :
  (0 <= gc < 2 ^ 32)%Z -> (0 <= k <= 32)%Z -> (0 <= halvings <= 32)%Z ->
  exists m e : Z, (Z.abs m < 2 ^ 53)%Z /\ (-1074 <= e <= 971)%Z /\
    (* gc / (2^k * 2^halvings) = m * 2^e, written without division *)
    (m * 2 ^ (e + (k + halvings + 1074)) = gc * 2 ^ 1074)%Z.
Proof.
  intros Hg Hk Hh. exists gc, (- (k + halvings))%Z. split; [|split]; [lia|lia|].
  f_equal. f_equal. lia.
Qed.
