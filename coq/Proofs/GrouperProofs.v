(* Proofs/GrouperProofs.v — the open-addressing table of Model/Grouper.v: probing, growth, the table
   invariant and its preservation by insert_entry / grow, for an arbitrary hash function. *)
From QF Require Import Base.Prelude Gen.GenConsts Model.Grouper.
Local Open Scope N_scope.

(* ------------------------------------------------------------------ generic list facts *)

Lemma set_nth_same {X} (l : list X) i v : nth_error l i = Some v -> set_nth l i v = l.
Proof.
  revert i; induction l as [|x xs IH]; intros [|i] H; simpl in *; try discriminate; auto.
  - inversion H; reflexivity.
  - rewrite IH; auto.
Qed.

Lemma nth_error_repeat {X} (x y : X) n q : nth_error (repeat x n) q = Some y -> y = x.
Proof. intro H. apply nth_error_In in H. apply repeat_spec in H. exact H. Qed.

Lemma subseq_nil_l {X} (l : list X) : subseq [] l.
Proof. induction l as [|x l IH]; [apply subseq_nil | apply subseq_skip; exact IH]. Qed.

Lemma subseq_refl {X} (l : list X) : subseq l l.
Proof. induction l as [|x l IH]; [apply subseq_nil | apply subseq_take; exact IH]. Qed.

Lemma subseq_app_r {X} (l m : list X) x : subseq l m -> subseq l (m ++ [x]).
Proof.
  induction 1 as [|y l1 l2 H IH|y l1 l2 H IH]; simpl.
  - apply subseq_skip. apply subseq_nil.
  - apply subseq_skip; exact IH.
  - apply subseq_take; exact IH.
Qed.

Lemma subseq_snoc {X} (l m : list X) x : subseq l m -> subseq (l ++ [x]) (m ++ [x]).
Proof.
  induction 1 as [|y l1 l2 H IH|y l1 l2 H IH]; simpl.
  - apply subseq_take. apply subseq_nil.
  - apply subseq_skip; exact IH.
  - apply subseq_take; exact IH.
Qed.

Lemma subseq_incl {X} (l m : list X) : subseq l m -> incl l m.
Proof.
  induction 1 as [|y l1 l2 H IH|y l1 l2 H IH]; intros z Hz.
  - exact Hz.
  - right; auto.
  - destruct Hz as [->|Hz]; [left; reflexivity | right; auto].
Qed.

Lemma Permutation_concat {X} (l1 l2 : list (list X)) :
  Permutation l1 l2 -> Permutation (concat l1) (concat l2).
Proof.
  induction 1 as [|x l l' H IH|x y l|l l' l'' H1 IH1 H2 IH2]; simpl.
  - constructor.
  - apply Permutation_app_head; exact IH.
  - rewrite !app_assoc. apply Permutation_app_tail. apply Permutation_app_comm.
  - eapply Permutation_trans; eauto.
Qed.

(* ------------------------------------------------------------------ arithmetic of the probe sequence *)

Lemma land_mask (x : N) (k : N) : N.land x (2 ^ k - 1) = x mod 2 ^ k.
Proof. rewrite <- N.pred_sub, <- N.ones_equiv. apply N.land_ones. Qed.

Lemma pow2_pos k : 0 < 2 ^ k.
Proof. apply N.neq_0_lt_0. apply N.pow_nonzero. discriminate. Qed.

(* the slot reached after d steps of (pos + 1) & mask from [start] *)
Definition posn (len start : N) (d : nat) : nat := N.to_nat ((start + N.of_nat d) mod len).

Lemma posn_0 len start : start < len -> posn len start 0 = N.to_nat start.
Proof. intro H. unfold posn. rewrite N.add_0_r, N.mod_small; auto. Qed.

Lemma posn_S len start d : len <> 0 -> posn len ((start + 1) mod len) d = posn len start (S d).
Proof.
  intro H. unfold posn. rewrite N.add_mod_idemp_l by exact H.
  f_equal. f_equal. lia.
Qed.

Lemma posn_lt len start d : len <> 0 -> (posn len start d < N.to_nat len)%nat.
Proof. intro H. unfold posn. pose proof (N.mod_upper_bound (start + N.of_nat d) len H). lia. Qed.

(* every slot is reached from every start within len steps *)
Lemma posn_reaches len start q :
  start < len -> q < len -> exists d, (d < N.to_nat len)%nat /\ posn len start d = N.to_nat q.
Proof.
  intros Hs Hq. assert (Hl : len <> 0) by lia.
  exists (N.to_nat ((q + len - start) mod len)). split.
  - pose proof (N.mod_upper_bound (q + len - start) len Hl). lia.
  - unfold posn. rewrite N2Nat.id. rewrite N.add_mod_idemp_r by exact Hl.
    replace (start + (q + len - start)) with (q + 1 * len) by lia.
    rewrite N.mod_add by exact Hl. rewrite N.mod_small; auto.
Qed.

Section Table.
Context {A : Type}.
Variable eqb : A -> A -> bool.
Variable hash : A -> N.

Notation slot := (option (entry A)).

Definition olist (s : slot) : list (entry A) := match s with Some e => [e] | None => [] end.

Lemma occ_cons (s : slot) es : occ (s :: es) = olist s ++ occ es.
Proof. reflexivity. Qed.

Lemma occ_app (a b : list slot) : occ (a ++ b) = occ a ++ occ b.
Proof. unfold occ. rewrite flat_map_app. reflexivity. Qed.

Lemma occ_repeat n : occ (repeat (@None (entry A)) n) = [].
Proof. induction n as [|n IH]; simpl; auto. Qed.

Lemma occ_length_le (es : list slot) : (length (occ es) <= length es)%nat.
Proof.
  induction es as [|s es IH]; simpl; auto.
  rewrite app_length. destruct s; simpl; lia.
Qed.

(* the occupied entries around slot p *)
Lemma occ_set_nth (es : list slot) p s :
  nth_error es p = Some s ->
  exists l1 l2, occ es = l1 ++ olist s ++ l2 /\
                forall s', occ (set_nth es p s') = l1 ++ olist s' ++ l2.
Proof.
  revert p; induction es as [|x es IH]; intros [|p] H; simpl in H; try discriminate.
  - inversion H; subst. exists [], (occ es). split; [reflexivity|]. intro s'. reflexivity.
  - destruct (IH p H) as (l1 & l2 & E1 & E2).
    exists (olist x ++ l1), l2. split.
    + rewrite occ_cons, E1, app_assoc. reflexivity.
    + intro s'. simpl set_nth. rewrite occ_cons, E2, app_assoc. reflexivity.
Qed.

Lemma In_occ (es : list slot) e : In e (occ es) <-> exists q, nth_error es q = Some (Some e).
Proof.
  unfold occ. rewrite in_flat_map. split.
  - intros (s & Hs & He). destruct s as [e'|]; simpl in He; [|contradiction].
    destruct He as [->|[]]. apply In_nth_error in Hs. exact Hs.
  - intros (q & Hq). exists (Some e). split; [eapply nth_error_In; eauto | left; reflexivity].
Qed.

(* an unoccupied slot exists as long as not every slot is occupied *)
Lemma exists_empty (es : list slot) :
  (length (occ es) < length es)%nat -> exists q, (q < length es)%nat /\ nth_error es q = Some None.
Proof.
  induction es as [|s es IH]; simpl; intro H; [lia|].
  destruct s as [e|].
  - simpl in H. destruct IH as (q & Hq & E); [lia|]. exists (S q). split; [lia | exact E].
  - exists 0%nat. split; [lia | reflexivity].
Qed.

(* ------------------------------------------------------------------ the probe loop *)

Lemma probe_spec (stop : entry A -> bool) (es : list slot) (k : N) :
  N.of_nat (length es) = 2 ^ k ->
  forall fuel start c,
    start < 2 ^ k ->
    (exists d, (d < fuel)%nat /\ nth_error es (posn (2 ^ k) start d) = Some None) ->
    exists d, (d < fuel)%nat /\
      probe stop fuel es (2 ^ k - 1) start c = Ok (posn (2 ^ k) start d, c + N.of_nat d) /\
      (forall d', (d' < d)%nat ->
         exists e, nth_error es (posn (2 ^ k) start d') = Some (Some e) /\ stop e = false) /\
      (nth_error es (posn (2 ^ k) start d) = Some None \/
       exists e, nth_error es (posn (2 ^ k) start d) = Some (Some e) /\ stop e = true).
Proof.
  intro Hlen. pose proof (pow2_pos k) as Hpos. assert (Hnz : 2 ^ k <> 0) by lia.
  induction fuel as [|f IH]; intros start c Hs (d0 & Hd0 & He); [lia|].
  simpl probe. unfold idx.
  destruct (nth_error es (N.to_nat start)) as [s|] eqn:Es.
  2:{ apply nth_error_None in Es. lia. }
  simpl.
  destruct s as [e|].
  - destruct (stop e) eqn:Est.
    + exists 0%nat. rewrite posn_0 by exact Hs. repeat split.
      * lia.
      * rewrite N.add_0_r. reflexivity.
      * intros d' Hd'. lia.
      * right. exists e. auto.
    + destruct d0 as [|d0'].
      { rewrite posn_0 in He by exact Hs. congruence. }
      rewrite land_mask.
      destruct (IH ((start + 1) mod 2 ^ k) (c + 1)) as (d & Hd & Hp & Hpath & Hend).
      * apply N.mod_upper_bound; exact Hnz.
      * exists d0'. split; [lia|]. rewrite posn_S by exact Hnz. exact He.
      * exists (S d). rewrite <- !posn_S by exact Hnz. repeat split.
        -- lia.
        -- rewrite Hp. f_equal. f_equal. lia.
        -- intros [|d'] Hd'.
           ++ rewrite posn_0 by exact Hs. exists e. auto.
           ++ rewrite <- posn_S by exact Hnz. apply Hpath. lia.
        -- exact Hend.
  - exists 0%nat. rewrite posn_0 by exact Hs. repeat split.
    + lia.
    + rewrite N.add_0_r. reflexivity.
    + intros d' Hd'. lia.
    + left. exact Es.
Qed.

(* the fuel lemma: with at least one unoccupied slot, [length es] steps suffice from any start *)
Lemma probe_total (stop : entry A -> bool) (es : list slot) (k : N) start c :
  N.of_nat (length es) = 2 ^ k ->
  (length (occ es) < length es)%nat ->
  start < 2 ^ k ->
  exists d, (d < length es)%nat /\
    probe stop (length es) es (2 ^ k - 1) start c = Ok (posn (2 ^ k) start d, c + N.of_nat d) /\
    (forall d', (d' < d)%nat ->
       exists e, nth_error es (posn (2 ^ k) start d') = Some (Some e) /\ stop e = false) /\
    (nth_error es (posn (2 ^ k) start d) = Some None \/
     exists e, nth_error es (posn (2 ^ k) start d) = Some (Some e) /\ stop e = true).
Proof.
  intros Hlen Hocc Hs.
  apply probe_spec; auto.
  destruct (exists_empty es Hocc) as (q & Hq & Eq).
  destruct (posn_reaches (2 ^ k) start (N.of_nat q)) as (d & Hd & Ed); [exact Hs | lia |].
  exists d. split; [lia|]. rewrite Ed, Nat2N.id. exact Eq.
Qed.

(* ------------------------------------------------------------------ reachability *)

(* every entry can be reached from its home slot without crossing an unoccupied slot *)
Definition reach (es : list slot) (len : N) : Prop :=
  forall q e, nth_error es q = Some (Some e) ->
    exists d, posn len (ehash e mod len) d = q /\
      forall d', (d' < d)%nat -> exists e', nth_error es (posn len (ehash e mod len) d') = Some (Some e').

Lemma occupied_mono (es : list slot) p v x e :
  nth_error es p = Some None -> nth_error es x = Some (Some e) ->
  nth_error (set_nth es p v) x = Some (Some e).
Proof.
  intros Hp Hx. rewrite nth_error_set_nth_neq; auto. intro; subst. congruence.
Qed.

Lemma reach_insert (es : list slot) len p e d :
  reach es len ->
  nth_error es p = Some None ->
  posn len (ehash e mod len) d = p ->
  (forall d', (d' < d)%nat -> exists e', nth_error es (posn len (ehash e mod len) d') = Some (Some e')) ->
  reach (set_nth es p (Some e)) len.
Proof.
  intros Hr Hp Hd Hpath q e0 Hq.
  assert (Hlt : (p < length es)%nat) by (apply nth_error_Some; congruence).
  destruct (Nat.eq_dec p q) as [->|Hne].
  - rewrite nth_error_set_nth_eq in Hq by exact Hlt. inversion Hq; subst e0.
    exists d. split; [exact Hd|]. intros d' Hd'. destruct (Hpath d' Hd') as (e' & He').
    exists e'. eapply occupied_mono; eauto.
  - rewrite nth_error_set_nth_neq in Hq by exact Hne.
    destruct (Hr q e0 Hq) as (d1 & Hd1 & Hpath1). exists d1. split; [exact Hd1|].
    intros d' Hd'. destruct (Hpath1 d' Hd') as (e' & He').
    exists e'. eapply occupied_mono; eauto.
Qed.

Lemma reach_update (es : list slot) len p e e' :
  reach es len ->
  nth_error es p = Some (Some e) -> ehash e' = ehash e ->
  reach (set_nth es p (Some e')) len.
Proof.
  intros Hr Hp Hh q e0 Hq.
  assert (Hlt : (p < length es)%nat) by (apply nth_error_Some; congruence).
  assert (Hocc : forall x ex, nth_error es x = Some (Some ex) ->
                              exists ey, nth_error (set_nth es p (Some e')) x = Some (Some ey)).
  { intros x ex Hx. destruct (Nat.eq_dec p x) as [->|Hne].
    - exists e'. apply nth_error_set_nth_eq; exact Hlt.
    - exists ex. rewrite nth_error_set_nth_neq; auto. }
  destruct (Nat.eq_dec p q) as [->|Hne].
  - rewrite nth_error_set_nth_eq in Hq by exact Hlt. inversion Hq; subst e0.
    rewrite Hh. destruct (Hr q e Hp) as (d1 & Hd1 & Hpath1). exists d1. split; [exact Hd1|].
    intros d' Hd'. destruct (Hpath1 d' Hd') as (ex & Hex). eapply Hocc; eauto.
  - rewrite nth_error_set_nth_neq in Hq by exact Hne.
    destruct (Hr q e0 Hq) as (d1 & Hd1 & Hpath1). exists d1. split; [exact Hd1|].
    intros d' Hd'. destruct (Hpath1 d' Hd') as (ex & Hex). eapply Hocc; eauto.
Qed.

Lemma reach_empty len n : reach (repeat (@None (entry A)) n) len.
Proof. intros q e H. apply nth_error_repeat in H. discriminate. Qed.

(* what an unsuccessful search means: if probing from the home slot of hash value h ends on an unoccupied
   slot after passing only entries rejected by [stop], no entry with stored hash h is accepted by [stop] *)
Lemma probe_miss (stop : entry A -> bool) (es : list slot) len h d :
  reach es len ->
  nth_error es (posn len (h mod len) d) = Some None ->
  (forall d', (d' < d)%nat ->
     exists e, nth_error es (posn len (h mod len) d') = Some (Some e) /\ stop e = false) ->
  forall e, In e (occ es) -> ehash e = h -> stop e = false.
Proof.
  intros Hr Hend Hpath e He Hh.
  apply In_occ in He. destruct He as (q & Hq).
  destruct (Hr q e Hq) as (dq & Hdq & Hpq). rewrite Hh in *.
  destruct (lt_eq_lt_dec dq d) as [[Hlt|Heq]|Hgt].
  - destruct (Hpath dq Hlt) as (e1 & He1 & Hs1). rewrite Hdq in He1. congruence.
  - subst dq. rewrite Hdq in Hend. congruence.
  - destruct (Hpq d Hgt) as (e1 & He1). congruence.
Qed.

End Table.

(* ------------------------------------------------------------------ grow *)
Section Grow.
Context {A : Type}.
Notation slot := (option (entry A)).

Lemma grow_step_spec (k : N) (ne : list slot) (c : N) (s : slot) :
  N.of_nat (length ne) = 2 ^ k ->
  (length (occ ne) < length ne)%nat ->
  exists d,
    grow_step (length ne) (2 ^ k - 1) (Ok (ne, c)) s
      = Ok (set_nth ne (posn (2 ^ k) (slot_hash s mod 2 ^ k) d) s, c + N.of_nat d) /\
    nth_error ne (posn (2 ^ k) (slot_hash s mod 2 ^ k) d) = Some None /\
    forall d', (d' < d)%nat ->
      exists e', nth_error ne (posn (2 ^ k) (slot_hash s mod 2 ^ k) d') = Some (Some e').
Proof.
  intros Hlen Hocc. pose proof (pow2_pos k) as Hpos.
  assert (Hstart : slot_hash s mod 2 ^ k < 2 ^ k) by (apply N.mod_upper_bound; lia).
  destruct (probe_total (fun _ => false) ne k (slot_hash s mod 2 ^ k) c Hlen Hocc Hstart)
    as (d & Hd & Hp & Hpath & Hend).
  exists d. unfold grow_step. cbn [obind fst snd]. rewrite land_mask, Hp. cbn [obind fst snd].
  split; [reflexivity|]. split.
  - destruct Hend as [H|(e & _ & H)]; [exact H | discriminate].
  - intros d' Hd'. destruct (Hpath d' Hd') as (e & He & _). exists e. exact He.
Qed.

Lemma grow_loop_spec (k : N) (len' : nat) :
  N.of_nat len' = 2 ^ k ->
  forall (rest ne : list slot) (c : N),
    length ne = len' -> reach ne (2 ^ k) ->
    (length (occ ne) + length (occ rest) < len')%nat ->
    exists ne' c',
      fold_left (grow_step len' (2 ^ k - 1)) rest (Ok (ne, c)) = Ok (ne', c') /\
      length ne' = len' /\ reach ne' (2 ^ k) /\ Permutation (occ ne') (occ ne ++ occ rest).
Proof.
  intros Hlen'. induction rest as [|s r IH]; intros ne c Hl Hr Hb.
  - exists ne, c. simpl. rewrite app_nil_r. auto.
  - cbn [fold_left]. subst len'.
    destruct (grow_step_spec k ne c s Hlen') as (d & Hstep & Hempty & Hpath).
    { rewrite occ_cons, app_length in Hb. lia. }
    rewrite Hstep. destruct s as [e|].
    + set (p := posn (2 ^ k) (slot_hash (Some e) mod 2 ^ k) d) in *.
      destruct (occ_set_nth ne p None Hempty) as (l1 & l2 & E1 & E2).
      specialize (E2 (Some e)). simpl in E1, E2.
      destruct (IH (set_nth ne p (Some e)) (c + N.of_nat d)) as (ne' & c' & Hf & Hl' & Hr' & Hperm).
      * apply set_nth_length.
      * exact (reach_insert ne (2 ^ k) p e d Hr Hempty eq_refl Hpath).
      * rewrite E2, app_length. simpl. rewrite occ_cons, E1, !app_length in Hb. simpl in Hb. lia.
      * exists ne', c'. repeat split; auto.
        eapply Permutation_trans; [exact Hperm|].
        rewrite E2, E1, occ_cons. simpl.
        rewrite <- !app_assoc. apply Permutation_app_head. simpl.
        apply Permutation_middle.
    + rewrite set_nth_same by exact Hempty.
      apply IH; auto.
Qed.

Lemma u32_pred x : 1 <= x -> x < 2 ^ 32 -> u32 (x + (2 ^ 32 - 1)) = x - 1.
Proof.
  intros H1 H2. unfold u32.
  replace (x + (2 ^ 32 - 1)) with (x - 1 + 1 * 2 ^ 32) by lia.
  rewrite N.mod_add by (apply N.pow_nonzero; discriminate).
  apply N.mod_small. lia.
Qed.

Lemma grow_spec (t : table A) (k : N) :
  N.of_nat (length (entries t)) = 2 ^ k ->
  2 ^ (k + 1) < 2 ^ 32 ->
  exists es' c',
    grow t = Ok (mkTable es' (lf_num t) (lf_den t * 2) (group_count t)
                         (reloc_count t + 1) c' (insert_coll t)) /\
    N.of_nat (length es') = 2 ^ (k + 1) /\ reach es' (2 ^ (k + 1)) /\
    Permutation (occ es') (occ (entries t)).
Proof.
  intros Hlen Hb. pose proof (pow2_pos k) as Hpos.
  assert (E2 : 2 ^ (k + 1) = 2 * 2 ^ k) by (rewrite N.add_1_r, N.pow_succ_r'; reflexivity).
  unfold grow. change c_growthFactor with 2. rewrite Hlen, <- E2.
  assert (Eu : u32 (2 ^ (k + 1)) = 2 ^ (k + 1)) by (apply N.mod_small; exact Hb).
  rewrite Eu. rewrite u32_pred by lia.
  set (len' := N.to_nat (2 ^ (k + 1))).
  assert (Hlen' : N.of_nat len' = 2 ^ (k + 1)) by (unfold len'; apply N2Nat.id).
  destruct (grow_loop_spec (k + 1) len' Hlen' (entries t) (repeat None len') (reloc_coll t))
    as (ne' & c' & Hf & Hl' & Hr' & Hperm).
  - apply repeat_length.
  - apply reach_empty.
  - rewrite occ_repeat. simpl. pose proof (occ_length_le (entries t)). lia.
  - exists ne', c'. rewrite Hf. cbn [obind fst snd]. repeat split; auto.
    + rewrite Hl'. exact Hlen'.
    + rewrite occ_repeat in Hperm. exact Hperm.
Qed.

End Grow.
