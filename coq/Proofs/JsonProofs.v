(* Proofs/JsonProofs.v — AppendQuotedString produces, for EVERY byte string, an RFC 8259 string that
   denotes the sanitized input; the output does not depend on the buffer prefix. *)
From QF Require Import Base.Prelude Model.Utf8 Model.Json Proofs.Utf8Proofs.
Local Open Scope N_scope.

(* ------------------------------------------------------------------ unfolding the reader *)
Lemma jc_close pf out : json_chars (S pf) (0x22 :: out) = Some ([], out).
Proof. reflexivity. Qed.

Lemma jc_unescaped pf c out :
  c <> 0x22 -> c <> 0x5C -> 0x20 <= c ->
  json_chars (S pf) (c :: out) =
  match rfc3629_char (c :: out) with
  | Some (r, t') => ocons r (json_chars pf t')
  | None => None
  end.
Proof.
  intros H1 H2 H3. cbn [json_chars].
  destruct (N.eqb_spec c 0x22) as [?|_]; [contradiction|].
  destruct (N.eqb_spec c 0x5C) as [?|_]; [contradiction|].
  destruct (N.ltb_spec c 0x20) as [?|_]; [lia|]. reflexivity.
Qed.

Lemma jc_simple pf x v out :
  x <> 0x75 -> simple_escape x = Some v ->
  json_chars (S pf) (0x5C :: x :: out) = ocons v (json_chars pf out).
Proof.
  intros H1 H2. cbn [json_chars]. cbn [N.eqb Pos.eqb].
  destruct (N.eqb_spec x 0x75) as [?|_]; [contradiction|]. rewrite H2. reflexivity.
Qed.

Lemma hex4_app a b c d u out : hex4 [a; b; c; d] = Some (u, []) -> hex4 (a :: b :: c :: d :: out) = Some (u, out).
Proof.
  unfold hex4. destruct (hex_val a), (hex_val b), (hex_val c), (hex_val d); try discriminate.
  intro H. inversion H. reflexivity.
Qed.

Lemma jc_u pf a b c d u out :
  hex4 [a; b; c; d] = Some (u, []) -> rng 0xD800 0xDFFF u = false ->
  json_chars (S pf) (0x5C :: 0x75 :: a :: b :: c :: d :: out) = ocons u (json_chars pf out).
Proof.
  intros H1 H2. cbn [json_chars]. cbn [N.eqb Pos.eqb].
  rewrite (hex4_app _ _ _ _ _ out H1).
  assert (rng 0xD800 0xDBFF u = false) as -> by (unfold rng in *; lia).
  assert (rng 0xDC00 0xDFFF u = false) as -> by (unfold rng in *; lia).
  reflexivity.
Qed.

(* what an escape sequence produced by the code denotes, decided by computation *)
Definition esc_denotes (e : bytes) (v : N) : bool :=
  match e with
  | [e0; x] => (e0 =? 0x5C) && negb (x =? 0x75) && option_eqb N.eqb (simple_escape x) (Some v)
  | [e0; e1; a; b; c; d] =>
      (e0 =? 0x5C) && (e1 =? 0x75) &&
      match hex4 [a; b; c; d] with
      | Some (u, []) => (u =? v) && negb (rng 0xD800 0xDFFF u)
      | _ => false
      end
  | _ => false
  end.

Lemma esc_denotes_ok e v pf out :
  esc_denotes e v = true -> json_chars (S pf) (e ++ out) = ocons v (json_chars pf out).
Proof.
  unfold esc_denotes. intro H.
  destruct e as [|e0 [|x [|a [|b [|c [|d [|z e]]]]]]]; try discriminate.
  - apply andb_true_iff in H as [H H2]. apply andb_true_iff in H as [H0 H1].
    apply N.eqb_eq in H0. subst e0.
    apply negb_true_iff in H1. apply N.eqb_neq in H1.
    destruct (simple_escape x) as [v'|] eqn:E; [|discriminate]. cbn [option_eqb] in H2.
    apply N.eqb_eq in H2. subst v'. cbn [app]. apply jc_simple; assumption.
  - apply andb_true_iff in H as [H H2]. apply andb_true_iff in H as [H0 H1].
    apply N.eqb_eq in H0. apply N.eqb_eq in H1. subst e0 x.
    destruct (hex4 [a; b; c; d]) as [[u [|? ?]]|] eqn:E; try discriminate.
    apply andb_true_iff in H2 as [H1 H2]. apply N.eqb_eq in H1. apply negb_true_iff in H2. subst u.
    cbn [app]. apply jc_u; assumption.
Qed.

(* ------------------------------------------------------------------ the ASCII branch, by a sweep *)
Definition ascii_ok (c : N) : bool :=
  aqs_plain c || match aqs_escape c with Ok e => esc_denotes e c | _ => false end.

Lemma ascii_sweep : forallb ascii_ok (map N.of_nat (seq 0 128)) = true.
Proof. vm_compute. reflexivity. Qed.

Lemma ascii_escape c : c < 0x80 -> aqs_plain c = false ->
  exists e, aqs_escape c = Ok e /\ esc_denotes e c = true.
Proof.
  intros Hc Hp. pose proof ascii_sweep as H. rewrite forallb_forall in H.
  assert (In c (map N.of_nat (seq 0 128))) as Hin.
  { apply in_map_iff. exists (N.to_nat c). split; [lia|]. apply in_seq. lia. }
  specialize (H c Hin). unfold ascii_ok in H. rewrite Hp in H. cbn [orb] in H.
  destruct (aqs_escape c) as [e| |]; try discriminate. exists e. split; [reflexivity|exact H].
Qed.

(* ------------------------------------------------------------------ raw multi-byte sequences *)
Lemma shape_rfc s r w x : seq_shape s r w -> rfc3629_char (firstn w s ++ x) = Some (r, x).
Proof.
  intros [a t -> Ha -> ->|a b t -> Ha Hb -> ->|a b c t -> Ha Hb H1 H2 Hc -> ->
         |a b c d t -> Ha Hb H1 H2 Hc Hd -> ->]; cbn [firstn app]; unfold rfc3629_char, utail, tail_bits.
  - assert (rng 0x00 0x7F a = true) as -> by (unfold rng; lia). reflexivity.
  - assert (rng 0x00 0x7F a = false) as -> by (unfold rng; lia).
    assert (rng 0xC2 0xDF a = true) as -> by (unfold rng; lia).
    assert (rng 0x80 0xBF b = true) as -> by (unfold rng; lia). reflexivity.
  - assert (rng 0x00 0x7F a = false) as -> by (unfold rng; lia).
    assert (rng 0xC2 0xDF a = false) as -> by (unfold rng; lia).
    assert (rng 0xE0 0xEF a = true) as -> by (unfold rng; lia).
    assert ((if a =? 0xE0 then rng 0xA0 0xBF b else if a =? 0xED then rng 0x80 0x9F b else rng 0x80 0xBF b)
            = true) as ->.
    { destruct (N.eqb_spec a 0xE0); [unfold rng; lia|].
      destruct (N.eqb_spec a 0xED); unfold rng; lia. }
    assert (rng 0x80 0xBF c = true) as -> by (unfold rng; lia). reflexivity.
  - assert (rng 0x00 0x7F a = false) as -> by (unfold rng; lia).
    assert (rng 0xC2 0xDF a = false) as -> by (unfold rng; lia).
    assert (rng 0xE0 0xEF a = false) as -> by (unfold rng; lia).
    assert (rng 0xF0 0xF4 a = true) as -> by (unfold rng; lia).
    assert ((if a =? 0xF0 then rng 0x90 0xBF b else if a =? 0xF4 then rng 0x80 0x8F b else rng 0x80 0xBF b)
            = true) as ->.
    { destruct (N.eqb_spec a 0xF0); [unfold rng; lia|].
      destruct (N.eqb_spec a 0xF4); unfold rng; lia. }
    assert (rng 0x80 0xBF c = true) as -> by (unfold rng; lia).
    assert (rng 0x80 0xBF d = true) as -> by (unfold rng; lia). reflexivity.
Qed.

(* ------------------------------------------------------------------ the loop *)
Definition reads_as (rest out : bytes) : Prop :=
  forall tl pf, (length out <= pf)%nat -> json_chars pf (out ++ tl) = Some (utf8_sanitize rest, tl).

Lemma reads_cons v rest rest' piece out' :
  piece <> [] ->
  utf8_sanitize rest = v :: utf8_sanitize rest' ->
  (forall o pf, json_chars (S pf) (piece ++ o) = ocons v (json_chars pf o)) ->
  reads_as rest' out' -> reads_as rest (piece ++ out').
Proof.
  intros Hne Hs Hj IH tl pf Hpf. rewrite app_length in Hpf.
  destruct piece as [|p0 piece]; [congruence|]. cbn [length] in Hpf.
  destruct pf as [|pf]; [lia|]. rewrite <- app_assoc, Hj. rewrite IH by lia. rewrite Hs. reflexivity.
Qed.

Lemma aqs_loop_nil fuel buf pend : aqs_loop fuel buf pend [] = Ok (buf ++ pend ++ [c_quote]).
Proof. destruct fuel; reflexivity. Qed.

Lemma reads_nil : reads_as [] [c_quote].
Proof. intros tl pf Hpf. cbn [length] in Hpf. destruct pf; [lia|]. reflexivity. Qed.

Lemma decode_ascii c t : c < 0x80 -> decode_rune (c :: t) = (c, 1%nat).
Proof.
  intro H. unfold decode_rune, first_info.
  destruct (N.ltb_spec c 0x80); [reflexivity|lia].
Qed.

Lemma aqs_loop_ok : forall fuel rest, (length rest <= fuel)%nat ->
  exists out, (forall buf pend, aqs_loop fuel buf pend rest = Ok (buf ++ pend ++ out)) /\
              reads_as rest out.
Proof.
  induction fuel as [|f IH]; intros rest Hl.
  - destruct rest; [|cbn [length] in Hl; lia].
    exists [c_quote]. split; [intros; apply aqs_loop_nil|apply reads_nil].
  - destruct rest as [|c t].
    { exists [c_quote]. split; [intros; apply aqs_loop_nil|apply reads_nil]. }
    cbn [length] in Hl.
    assert (Hne : c :: t <> []) by congruence.
    destruct (aqs_plain c) eqn:P.
    + (* plain ASCII: stays pending *)
      destruct (IH t ltac:(lia)) as (out' & Ho & Hr).
      exists ([c] ++ out'). split.
      * intros buf pend. cbn [aqs_loop]. rewrite P, Ho. rewrite <- !app_assoc. reflexivity.
      * unfold aqs_plain, c_backslash, c_quote, c_space, rune_self in P.
        assert (c <> 0x22 /\ c <> 0x5C /\ 0x20 <= c /\ c < 0x80) as (H1 & H2 & H3 & H4) by lia.
        apply (reads_cons c _ t); [congruence| | |exact Hr].
        -- rewrite (sanitize_step _ Hne), (decode_ascii c t H4). reflexivity.
        -- intros o pf. cbn [app]. rewrite (jc_unescaped _ _ _ H1 H2 H3).
           unfold rfc3629_char. assert (rng 0x00 0x7F c = true) as -> by (unfold rng; lia). reflexivity.
    + destruct (c <? rune_self) eqn:A.
      * (* ASCII that needs an escape *)
        unfold rune_self in A. assert (Hc : c < 0x80) by lia.
        destruct (ascii_escape c Hc P) as (e & He & Hd).
        destruct (IH t ltac:(lia)) as (out' & Ho & Hr).
        exists (e ++ out'). split.
        -- intros buf pend. cbn [aqs_loop]. rewrite P. unfold rune_self. rewrite A, He. cbn [obind].
           rewrite Ho. cbn [app]. rewrite <- !app_assoc. reflexivity.
        -- apply (reads_cons c _ t); [| | |exact Hr].
           ++ intro E. subst e. discriminate.
           ++ rewrite (sanitize_step _ Hne), (decode_ascii c t Hc). reflexivity.
           ++ intros o pf. apply esc_denotes_ok. exact Hd.
      * pose proof (decode_width _ Hne) as [W1 W2].
        destruct (is_invalid (decode_rune (c :: t))) eqn:I.
        -- (* ill-formed byte: �, one byte consumed *)
           destruct (IH t ltac:(lia)) as (out' & Ho & Hr).
           exists (c_esc_ufffd ++ out'). split.
           ++ intros buf pend. cbn [aqs_loop]. rewrite P, A. cbv zeta.
              unfold is_invalid in I. rewrite I. rewrite Ho. rewrite <- !app_assoc. reflexivity.
           ++ apply (reads_cons rune_error _ t); [discriminate| | |exact Hr].
              ** rewrite (sanitize_step _ Hne), (decode_invalid_eq _ I). reflexivity.
              ** intros o pf. apply esc_denotes_ok. reflexivity.
        -- pose proof (decode_shape _ Hne I) as Sh.
           set (r := fst (decode_rune (c :: t))) in *.
           set (w := snd (decode_rune (c :: t))) in *.
           assert (Hlen : (length (skipn w (c :: t)) <= f)%nat)
             by (rewrite skipn_length; cbn [length] in *; lia).
           destruct (IH _ Hlen) as (out' & Ho & Hr).
           destruct ((r =? c_ls) || (r =? c_ps)) eqn:LS.
           ++ (* U+2028 / U+2029 *)
              assert (exists h, idx c_chars (N.to_nat (N.land r 0xF)) = Ok h /\
                                esc_denotes (c_esc_u202 ++ [h]) r = true) as (h & Hh & Hd).
              { unfold c_ls, c_ps in LS. apply orb_true_iff in LS as [E|E]; apply N.eqb_eq in E;
                  rewrite E; eexists; split; reflexivity. }
              exists ((c_esc_u202 ++ [h]) ++ out'). split.
              ** intros buf pend. cbn [aqs_loop]. rewrite P, A. cbv zeta.
                 unfold is_invalid in I. fold r w. fold r w in I. rewrite I, LS, Hh. cbn [obind].
                 rewrite Ho. rewrite <- !app_assoc. reflexivity.
              ** apply (reads_cons r _ (skipn w (c :: t))); [discriminate| | |exact Hr].
                 --- rewrite (sanitize_step _ Hne). reflexivity.
                 --- intros o pf. apply esc_denotes_ok. exact Hd.
           ++ (* any other well-formed multi-byte sequence is copied *)
              exists (firstn w (c :: t) ++ out'). split.
              ** intros buf pend. cbn [aqs_loop]. rewrite P, A. cbv zeta.
                 unfold is_invalid in I. fold r w. fold r w in I. rewrite I, LS.
                 rewrite Ho. rewrite <- !app_assoc. reflexivity.
              ** apply (reads_cons r _ (skipn w (c :: t))); [| | |exact Hr].
                 --- destruct w; [lia|]. discriminate.
                 --- rewrite (sanitize_step _ Hne). reflexivity.
                 --- intros o pf. unfold rune_self in A.
                     assert (firstn w (c :: t) = c :: firstn (w - 1) t) as Hf
                       by (destruct w; [lia|]; cbn [firstn]; repeat f_equal; lia).
                     pose proof (shape_rfc _ _ _ o Sh) as R. rewrite Hf in *. cbn [app] in *.
                     rewrite jc_unescaped by lia. rewrite R. reflexivity.
Qed.

(* ------------------------------------------------------------------ theorems *)
Theorem escape_valid (s : bytes) :
  exists out, append_quoted_string [] s = Ok out /\
              json_parse_string out = Some (utf8_sanitize s, []).
Proof.
  destruct (aqs_loop_ok (length s) s (le_n _)) as (out & Ho & Hr).
  exists (c_quote :: out). split.
  - unfold append_quoted_string. rewrite Ho. reflexivity.
  - unfold json_parse_string, c_quote.
    pose proof (Hr [] (S (length out)) ltac:(lia)) as H. rewrite app_nil_r in H. exact H.
Qed.

(* the same with anything after the closing quote: the reader stops there *)
Theorem escape_valid_tail (s tl : bytes) :
  exists out, append_quoted_string [] s = Ok out /\
              json_parse_string (out ++ tl) = Some (utf8_sanitize s, tl).
Proof.
  destruct (aqs_loop_ok (length s) s (le_n _)) as (out & Ho & Hr).
  exists (c_quote :: out). split.
  - unfold append_quoted_string. rewrite Ho. reflexivity.
  - unfold json_parse_string, c_quote. cbn [app]. apply Hr. rewrite app_length. lia.
Qed.

Theorem escape_prefix_independent (buf s : bytes) :
  exists out, append_quoted_string [] s = Ok out /\ append_quoted_string buf s = Ok (buf ++ out).
Proof.
  destruct (aqs_loop_ok (length s) s (le_n _)) as (out & Ho & _).
  exists (c_quote :: out). unfold append_quoted_string. rewrite !Ho. split; [reflexivity|].
  rewrite <- !app_assoc. reflexivity.
Qed.

Corollary quoted_bytes_valid (s : bytes) :
  exists out, quoted_bytes s = Ok out /\ json_parse_string out = Some (utf8_sanitize s, []).
Proof. apply escape_valid. Qed.

(* ------------------------------------------------------------------ ToJSON: the record assembly
   The hand placed commas, the trailing comma trim and the brackets produce exactly the text
   "[" obj "," obj ... "]" with obj = "{" name ":" cell "," ... "}"  (zero rows / zero columns included). *)
Fixpoint members_text (qnames cells : list bytes) : list bytes :=
  match qnames, cells with
  | q :: qs, c :: cs => (q ++ [c_colon] ++ c) :: members_text qs cs
  | _, _ => []
  end.

Fixpoint join_comma (l : list bytes) : bytes :=
  match l with
  | [] => []
  | x :: l' => match l' with [] => x | _ => x ++ [c_comma] ++ join_comma l' end
  end.

Definition object_text (qnames cells : list bytes) : bytes :=
  [c_lbrace] ++ join_comma (members_text qnames cells) ++ [c_rbrace].

Definition doc_text (qnames : list bytes) (rows : list (list bytes)) : bytes :=
  [c_lbracket] ++ join_comma (map (object_text qnames) rows) ++ [c_rbracket].

Lemma tojson_cols_eq : forall qn cells buf,
  tojson_cols buf qn cells = buf ++ concat (map (fun m => m ++ [c_comma]) (members_text qn cells)).
Proof.
  induction qn as [|q qn IH]; intros cells buf.
  - cbn. rewrite app_nil_r. reflexivity.
  - destruct cells as [|c cells]; [cbn; rewrite app_nil_r; reflexivity|].
    cbn [tojson_cols members_text map concat]. rewrite IH. rewrite <- !app_assoc. reflexivity.
Qed.

Lemma concat_comma_join l : l <> [] ->
  concat (map (fun m => m ++ [c_comma]) l) = join_comma l ++ [c_comma].
Proof.
  induction l as [|x l IH]; [congruence|]. intros _. cbn [map concat join_comma].
  destruct l as [|y l]; [cbn; rewrite app_nil_r; reflexivity|].
  rewrite IH by congruence. rewrite <- !app_assoc. reflexivity.
Qed.

Lemma idx_last {A} (l : list A) x : idx (l ++ [x]) (length (l ++ [x]) - 1) = Ok x.
Proof.
  unfold idx. rewrite app_length. cbn [length]. replace (length l + 1 - 1)%nat with (length l) by lia.
  rewrite nth_error_app2 by lia. rewrite Nat.sub_diag. reflexivity.
Qed.

Lemma firstn_last {A} (l : list A) x : firstn (length (l ++ [x]) - 1) (l ++ [x]) = l.
Proof.
  rewrite app_length. cbn [length]. replace (length l + 1 - 1)%nat with (length l) by lia.
  rewrite firstn_app, Nat.sub_diag, firstn_all. cbn [firstn]. apply app_nil_r.
Qed.

Lemma tojson_row_eq i qn cells :
  tojson_row i qn cells = Ok ((if (0 <? i)%nat then [c_comma] else []) ++ object_text qn cells).
Proof.
  unfold tojson_row, object_text, last_index. cbv zeta. rewrite tojson_cols_eq.
  set (pre := if (0 <? i)%nat then [c_comma] else []).
  destruct (members_text qn cells) as [|m ms] eqn:M.
  - cbn [map concat join_comma]. rewrite !app_nil_r. rewrite idx_last. cbn [obind].
    change (c_lbrace =? c_comma) with false. cbv iota. rewrite <- app_assoc. reflexivity.
  - rewrite concat_comma_join by congruence.
    rewrite !app_assoc. rewrite idx_last. cbn [obind]. rewrite N.eqb_refl. rewrite firstn_last.
    rewrite <- !app_assoc. reflexivity.
Qed.

Lemma tojson_rows_eq qn : forall rows i,
  tojson_rows i qn rows =
  Ok (map (fun ir => (if (0 <? fst ir)%nat then [c_comma] else []) ++ object_text qn (snd ir))
          (combine (seq i (length rows)) rows)).
Proof.
  induction rows as [|r rows IH]; intro i; [reflexivity|].
  cbn [tojson_rows]. rewrite tojson_row_eq. cbn [obind]. rewrite IH. reflexivity.
Qed.

Lemma concat_rows_pos qn : forall rows i, (0 < i)%nat ->
  concat (map (fun ir => (if (0 <? fst ir)%nat then [c_comma] else []) ++ object_text qn (snd ir))
              (combine (seq i (length rows)) rows))
  = concat (map (fun r => [c_comma] ++ object_text qn r) rows).
Proof.
  induction rows as [|r rows IH]; intros i Hi; [reflexivity|].
  cbn [length seq combine map concat fst snd]. rewrite IH by lia.
  destruct (Nat.ltb_spec 0 i); [reflexivity|lia].
Qed.

Lemma join_comma_cons2 x y l : join_comma (x :: y :: l) = x ++ [c_comma] ++ join_comma (y :: l).
Proof. reflexivity. Qed.

Lemma join_comma_cons x l :
  join_comma (x :: l) = x ++ concat (map (fun r => [c_comma] ++ r) l).
Proof.
  revert x; induction l as [|y l IH]; intro x; [cbn; rewrite app_nil_r; reflexivity|].
  rewrite join_comma_cons2, IH. cbn [map concat].
  rewrite <- !app_assoc. reflexivity.
Qed.

Theorem to_json_shape names rows :
  exists qnames, omap quoted_bytes names = Ok qnames /\ length qnames = length names /\
                 to_json names rows = Ok (doc_text qnames rows).
Proof.
  assert (exists qnames, omap quoted_bytes names = Ok qnames /\ length qnames = length names)
    as (qn & Hq & Hl).
  { induction names as [|n names (qn & E & L)]; [exists []; split; reflexivity|].
    destruct (quoted_bytes_valid n) as (q & Eq & _). exists (q :: qn).
    cbn [omap]. rewrite Eq. cbn [obind]. rewrite E. cbn [obind length]. split; [reflexivity|lia]. }
  exists qn. split; [exact Hq|]. split; [exact Hl|].
  unfold to_json, to_json_writes. rewrite Hq. cbn [obind]. rewrite tojson_rows_eq. cbn [obind].
  unfold doc_text. rewrite !concat_app. cbn [concat]. rewrite app_nil_r. f_equal. f_equal.
  destruct rows as [|r rows]; [reflexivity|].
  cbn [length seq combine map concat fst snd]. rewrite concat_rows_pos by lia.
  change (map (object_text qn) (r :: rows)) with (object_text qn r :: map (object_text qn) rows).
  rewrite join_comma_cons, map_map. cbn [Nat.ltb Nat.leb app]. reflexivity.
Qed.

(* ------------------------------------------------------------------ ToJSON: the document reads back *)
Definition key_ok (q : bytes) (k : list N) : Prop :=
  forall tl, json_parse_string (q ++ tl) = Some (k, tl).
Definition value_denotes (cell : bytes) (t : jtoken) : Prop :=
  forall d tl, d = 0x2C \/ d = 0x7D -> parse_value (cell ++ d :: tl) = Some (t, d :: tl).

Lemma members_parse : forall qn keys, Forall2 key_ok qn keys ->
  forall cells toks, Forall2 value_denotes cells toks -> length qn = length cells -> qn <> [] ->
  forall tl fuel, (length qn <= fuel)%nat ->
  parse_members fuel (join_comma (members_text qn cells) ++ c_rbrace :: tl) = Some (combine keys toks, tl).
Proof.
  induction 1 as [|q k qn keys Hk Hks IH]; intros cells toks Hv Hl Hne tl fuel Hf; [congruence|].
  destruct Hv as [|c t cells toks Hc Hcs]; [discriminate|].
  cbn [length] in Hl, Hf. destruct fuel as [|f]; [lia|].
  cbn [members_text combine].
  destruct qn as [|q2 qn].
  - inversion Hks; subst. destruct cells; [|discriminate]. inversion Hcs; subst.
    cbn [members_text join_comma combine]. unfold c_colon, c_rbrace.
    rewrite <- !app_assoc. cbn [parse_members]. rewrite Hk. cbn [app].
    rewrite (Hc 0x7D tl (or_intror eq_refl)). reflexivity.
  - destruct cells as [|c2 cells]; [discriminate|].
    assert (exists m ms, members_text (q2 :: qn) (c2 :: cells) = m :: ms) as (m & ms & Em)
      by (cbn [members_text]; eauto).
    rewrite Em, join_comma_cons2, <- Em. unfold c_colon, c_comma.
    rewrite <- !app_assoc. cbn [parse_members]. rewrite Hk. cbn [app].
    rewrite (Hc 0x2C _ (or_introl eq_refl)).
    rewrite (IH (c2 :: cells) toks Hcs ltac:(cbn [length] in *; lia) ltac:(congruence) tl f
                ltac:(cbn [length] in *; lia)).
    reflexivity.
Qed.

Lemma jps_head s k tl : json_parse_string s = Some (k, tl) -> exists t, s = 0x22 :: t.
Proof.
  intro H. destruct s as [|b t]; [discriminate|].
  destruct (N.eqb_spec b 0x22) as [->|Hn]; [eauto|]. exfalso.
  unfold json_parse_string in H. destruct b as [|p]; [discriminate|].
  repeat (destruct p as [p|p|]; try discriminate). congruence.
Qed.

Lemma members_text_length : forall qn cells, length qn = length cells ->
  length (members_text qn cells) = length qn.
Proof.
  induction qn as [|q qn IH]; intros [|c cells] H; cbn [length members_text] in *; try lia.
  rewrite IH; lia.
Qed.

Lemma members_nonempty : forall qn cells, Forall (fun m => m <> []) (members_text qn cells).
Proof.
  induction qn as [|q qn IH]; intros [|c cells]; cbn [members_text]; constructor; [|apply IH].
  intro E. apply (f_equal (@length N)) in E. rewrite !app_length in E. cbn [length] in E. lia.
Qed.

Lemma join_comma_length l : Forall (fun m : bytes => m <> []) l -> (length l <= length (join_comma l))%nat.
Proof.
  induction 1 as [|x l Hx Hl IH]; [cbn; lia|].
  destruct l as [|y l].
  - cbn [join_comma length]. destruct x; [congruence|cbn [length]; lia].
  - rewrite join_comma_cons2, !app_length. cbn [length] in *. lia.
Qed.

Lemma object_parse qn keys cells toks tl :
  Forall2 key_ok qn keys -> Forall2 value_denotes cells toks -> length qn = length cells ->
  parse_object (object_text qn cells ++ tl) = Some (combine keys toks, tl).
Proof.
  intros Hk Hv Hl. unfold object_text.
  destruct qn as [|q qn].
  - inversion Hk; subst. destruct cells; [|discriminate]. reflexivity.
  - assert (Hq := Hk). inversion Hq as [|? k ? keys' Hk1 _]; subst.
    destruct (jps_head _ _ _ (Hk1 [])) as (t & Et). rewrite app_nil_r in Et.
    destruct cells as [|c cells]; [discriminate|].
    assert (exists r, join_comma (members_text (q :: qn) (c :: cells)) = 0x22 :: r) as (r & Er).
    { cbn [members_text]. destruct (members_text qn cells) as [|m ms].
      - cbn [join_comma]. rewrite Et. cbn [app]. eauto.
      - rewrite join_comma_cons2, Et. cbn [app]. eauto. }
    pose proof (members_parse _ _ Hk _ _ Hv Hl ltac:(congruence) tl) as MP.
    pose proof (join_comma_length _ (members_nonempty (q :: qn) (c :: cells))) as JL.
    rewrite (members_text_length _ _ Hl) in JL.
    unfold c_lbrace, c_rbrace in *. rewrite <- !app_assoc. cbn [app].
    rewrite Er in *. cbn [app parse_object]. apply MP.
    cbn [length] in *. rewrite app_length. lia.
Qed.

Definition row_ok (qn : list bytes) (cells : list bytes) (ts : list jtoken) : Prop :=
  length qn = length cells /\ Forall2 value_denotes cells ts.

Lemma objects_parse qn keys : Forall2 key_ok qn keys ->
  forall rows toks, Forall2 (row_ok qn) rows toks -> rows <> [] ->
  forall fuel, (length rows <= fuel)%nat ->
  parse_objects fuel (join_comma (map (object_text qn) rows) ++ [c_rbracket])
  = Some (map (combine keys) toks).
Proof.
  intros Hk. induction 1 as [|r ts rows toks (Hl & Hv) Hrs IH]; intros Hne fuel Hf; [congruence|].
  cbn [length] in Hf. destruct fuel as [|f]; [lia|].
  cbn [map]. destruct rows as [|r2 rows].
  - inversion Hrs; subst. cbn [map join_comma parse_objects]. unfold c_rbracket.
    rewrite (object_parse qn keys r ts _ Hk Hv Hl). reflexivity.
  - cbn [map]. rewrite join_comma_cons2. unfold c_comma, c_rbracket. rewrite <- !app_assoc.
    cbn [parse_objects app]. rewrite (object_parse qn keys r ts _ Hk Hv Hl).
    change (object_text qn r2 :: map (object_text qn) rows) with (map (object_text qn) (r2 :: rows)).
    unfold c_rbracket in IH. rewrite (IH ltac:(congruence) f ltac:(cbn [length] in *; lia)).
    reflexivity.
Qed.

Theorem doc_parse qn keys rows toks :
  Forall2 key_ok qn keys -> Forall2 (row_ok qn) rows toks ->
  parse_doc (doc_text qn rows) = Some (map (combine keys) toks).
Proof.
  intros Hk Hr. unfold doc_text. destruct rows as [|r rows].
  - inversion Hr; subst. reflexivity.
  - pose proof (objects_parse qn keys Hk _ _ Hr ltac:(congruence)) as OP.
    assert (Forall (fun m : bytes => m <> []) (map (object_text qn) (r :: rows))) as NE.
    { apply Forall_forall. intros m Hin. apply in_map_iff in Hin as (x & <- & _). discriminate. }
    pose proof (join_comma_length _ NE) as JL. rewrite map_length in JL.
    assert (exists t, join_comma (map (object_text qn) (r :: rows)) = 0x7B :: t) as (t & Et).
    { cbn [map]. destruct (map (object_text qn) rows) as [|m ms].
      - cbn [join_comma]. unfold object_text, c_lbrace. cbn [app]. eauto.
      - rewrite join_comma_cons2. unfold object_text, c_lbrace. cbn [app]. eauto. }
    unfold c_lbracket. cbn [app]. rewrite Et in *. cbn [app parse_doc]. apply OP.
    cbn [length] in *. rewrite app_length. lia.
Qed.

Lemma qnames_ok : forall names qn, omap quoted_bytes names = Ok qn ->
  Forall2 key_ok qn (map utf8_sanitize names).
Proof.
  induction names as [|n names IH]; intros qn H.
  - cbn in H. inversion H. constructor.
  - cbn [omap] in H. destruct (quoted_bytes n) as [q| |] eqn:Eq; cbn [obind] in H; try discriminate.
    destruct (omap quoted_bytes names) as [qs| |]; cbn [obind] in H; try discriminate.
    inversion H; subst. cbn [map]. constructor; [|apply IH; reflexivity].
    intro tl. destruct (escape_valid_tail n tl) as (o & E1 & E2).
    unfold quoted_bytes in Eq. rewrite E1 in Eq. inversion Eq; subst. exact E2.
Qed.

(* ToJSON never fails and its output is read by the document reader as one object per row, keys = the
   sanitized column names in column order, values = the tokens the cells denote *)
Theorem to_json_document names rows toks :
  Forall2 (fun cells ts => length cells = length names /\ Forall2 value_denotes cells ts) rows toks ->
  exists out, to_json names rows = Ok out /\
              parse_doc out = Some (map (combine (map utf8_sanitize names)) toks).
Proof.
  intro H. destruct (to_json_shape names rows) as (qn & Hq & Hl & E).
  exists (doc_text qn rows). split; [exact E|].
  apply doc_parse; [apply qnames_ok; exact Hq|].
  clear - H Hl. induction H as [|cells ts rows toks (A & B) _ IH]; constructor; [|exact IH].
  split; [lia|exact B].
Qed.

(* the tokens of the cell renderers: strings, null, true, false (numbers: any text for which
   value_denotes holds, e.g. every text accepted by json_number and followed by , or }) *)
Lemma string_value_denotes s out : append_quoted_string [] s = Ok out ->
  value_denotes out (JStr (utf8_sanitize s)).
Proof.
  intros E d tl _. destruct (escape_valid_tail s (d :: tl)) as (o & E1 & E2).
  rewrite E in E1. inversion E1; subst o.
  destruct (jps_head _ _ _ E2) as (t & Et). unfold parse_value. rewrite Et. rewrite <- Et, E2. reflexivity.
Qed.

Lemma null_value_denotes : value_denotes (bs 4 0x6E756C6C) JNull.
Proof. intros d tl _. reflexivity. Qed.
Lemma true_value_denotes : value_denotes (bs 4 0x74727565) (JBool true).
Proof. intros d tl _. reflexivity. Qed.
Lemma false_value_denotes : value_denotes (bs 5 0x66616C7365) (JBool false).
Proof. intros d tl _. reflexivity. Qed.
