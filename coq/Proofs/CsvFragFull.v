(* Proofs/CsvFragFull.v — buffer_refines_stream (C12): for EVERY document, every chunking into non-empty
   chunks, both EOF styles, every initial capacity and every delimiter byte, the buffer-level scanner of
   Model/FastCsv.v (the model the csv engine executes against /repo/internal/fastcsv) returns exactly the
   rows of the character machine [stream_scan] of Model/CsvSpec.v on the whole document, without fault,
   with the fuel the model uses (scan_fuel).  Row level, Reader.Next (CR trim, blank last line), scan loop. *)
From QF Require Import Base.Prelude Gen.GenConsts Model.FastCsv Model.CsvSpec Model.CsvWrite Model.CsvRead
  Proofs.CsvReadProofs Proofs.CsvFragFullBase Proofs.CsvFragFullField.
Local Open Scope nat_scope.

Section Rows.
Variable delim : N.

(* the fields of the row so far as the character machine holds them: last field first, bytes reversed *)
Definition frs (v : bytes) (acc : list (nat * nat)) : list bytes :=
  rev (map (fun p => rev (sub v (fst p) (snd p))) acc).

Lemma frs_snoc v acc p : frs v (acc ++ [p]) = rev (sub v (fst p) (snd p)) :: frs v acc.
Proof. unfold frs. rewrite map_app, rev_app_distr. reflexivity. Qed.

Lemma frs_agree v v' k acc :
  firstn k v' = firstn k v -> Forall (fun p => fst p <= snd p /\ snd p <= k) acc ->
  frs v' acc = frs v acc.
Proof.
  intros Hag Hall. unfold frs. f_equal. apply map_ext_in. intros p Hp.
  rewrite Forall_forall in Hall. destruct (Hall p Hp) as [_ Hk].
  rewrite (agree_sub _ _ k _ _ Hag Hk). reflexivity.
Qed.

Lemma row_loop_eol n fs acc : f_eol fs = true -> row_loop (S n) delim fs acc = Ok (fs, acc).
Proof. intros H. cbn [row_loop]. unfold fields_next. rewrite H. reflexivity. Qed.

Definition row_done (fs fs' : fstate) (acc acc' : list (nat * nat)) : Prop :=
  let S0 := stream (f_buf fs) in
  let fr0 := frs (view (f_buf fs)) acc in
  let ad := Nat.ltb 0 (f_start fs) in
  (f_err fs' = RNil /\ acc' <> [] /\ length (stream (f_buf fs')) < length S0
   /\ forall rr, sscan delim (SStart ad) fr0 rr S0
                 = sscan delim (SStart false) [] (close_row (frs (view (f_buf fs')) acc') rr)
                         (stream (f_buf fs')))
  \/ (f_err fs' = REof
   /\ forall rr, sscan delim (SStart ad) fr0 rr S0 = rev (close_row (frs (view (f_buf fs')) acc') rr)).

Lemma row_loop_spec fuel : forall fs acc,
  binv (f_buf fs) -> f_eol fs = false -> f_err fs = RNil -> f_start fs = b_cur (f_buf fs) ->
  Forall (fun p => fst p <= snd p /\ snd p <= f_start fs) acc ->
  (f_start fs = 0 -> acc = []) ->
  length (stream (f_buf fs)) + 1 < fuel ->
  exists fs' acc', row_loop fuel delim fs acc = Ok (fs', acc')
    /\ binv (f_buf fs')
    /\ Forall (fun p => fst p <= snd p /\ snd p <= b_len (f_buf fs')) acc'
    /\ row_done fs fs' acc acc'.
Proof.
  induction fuel as [|fuel IH]; intros fs acc Hb Heol Herr Hst Hall Hzero Hfuel; [lia|].
  cbn [row_loop].
  destruct (fields_next_spec delim (S fuel) fs Hb Heol Herr Hst ltac:(lia))
    as [(fs1 & k & f & Hrun & Hsc & Hsub & Hpost)|(fs1 & Hrun & Hnil & Hst0 & Herr1 & Hb1)].
  - rewrite Hrun. cbn [obind].
    unfold fld_post in Hpost. destruct Hpost as (P1 & P2 & P3 & P4 & P5 & P6 & P7).
    assert (Hcur1 : b_cur (f_buf fs1) <= b_len (f_buf fs1)) by apply P1.
    assert (Hfrs : frs (view (f_buf fs1)) (acc ++ [f_field fs1]) = f :: frs (view (f_buf fs)) acc).
    { rewrite frs_snoc, Hsub, rev_involutive. f_equal.
      apply (frs_agree _ _ (f_start fs)); [exact P6|exact Hall]. }
    assert (Hall1 : forall bound, b_cur (f_buf fs1) <= bound ->
              Forall (fun p => fst p <= snd p /\ snd p <= bound) (acc ++ [f_field fs1])).
    { intros bound Hbd. apply Forall_app. split.
      - eapply Forall_impl; [|exact Hall]. cbv beta. intros p [Hp1 Hp2]. split; [exact Hp1|lia].
      - constructor; [|constructor]. split; [exact P2|lia]. }
    destruct k.
    + (* the row goes on *)
      destruct P7 as (Q1 & Q2 & Q3 & Q4 & Q5).
      destruct (IH fs1 (acc ++ [f_field fs1]) P1 Q1 Q2 Q3) as (fs' & acc' & Hrun' & Hb' & Hall' & Hdone).
      { apply Hall1. lia. }
      { intros H0. lia. }
      { lia. }
      exists fs', acc'. split; [exact Hrun'|]. nsplit; auto.
      assert (Had : Nat.ltb 0 (f_start fs1) = true) by (apply Nat.ltb_lt; lia).
      unfold row_done in *. rewrite Had, Hfrs in Hdone.
      destruct Hdone as [(D1 & D2 & D3 & D4)|(D1 & D4)]; [left|right]; nsplit; auto; try lia.
      * intros rr. rewrite Hsc. apply D4.
      * intros rr. rewrite Hsc. apply D4.
    + (* the row ended with a line feed *)
      destruct P7 as (Q1 & Q2 & Q3).
      destruct fuel as [|fuel']; [lia|].
      rewrite (row_loop_eol _ _ _ Q1).
      exists fs1, (acc ++ [f_field fs1]). split; [reflexivity|]. split; [exact P1|].
      split; [apply Hall1; lia|].
      left. split; [exact Q2|]. split; [|split; [exact Q3|]].
      * intros H. apply app_eq_nil in H. destruct H as [_ H]. discriminate.
      * intros rr. rewrite Hsc, Hfrs. reflexivity.
    + (* the row ended with the input *)
      destruct P7 as (Q1 & Q2).
      destruct fuel as [|fuel']; [lia|].
      rewrite (row_loop_eol _ _ _ Q1).
      exists fs1, (acc ++ [f_field fs1]). split; [reflexivity|]. split; [exact P1|].
      split; [apply Hall1; lia|].
      right. split; [exact Q2|].
      intros rr. rewrite Hsc, Hfrs. reflexivity.
  - rewrite Hrun. cbn [obind].
    exists fs1, acc. split; [reflexivity|]. rewrite (Hzero Hst0) in *. nsplit; auto.
    right. split; [exact Herr1|].
    intros rr. rewrite Hnil, Hst0. reflexivity.
Qed.

(* ------------------------------------------------------------------ Reader.Next *)

Lemma map_resolve_view b row :
  Forall (fun p => fst p <= snd p /\ snd p <= b_len b) row ->
  map (resolve b) row = map (fun p => sub (view b) (fst p) (snd p)) row.
Proof.
  intros Hall. apply map_ext_in. intros [s e] Hp.
  rewrite Forall_forall in Hall. destruct (Hall _ Hp) as [_ He]. apply resolve_view. exact He.
Qed.

Lemma rows_of_frs v front l :
  map (@rev N) (rev (frs v front) ++ [l])
  = map (fun p => sub v (fst p) (snd p)) front ++ [rev l].
Proof.
  rewrite map_app. cbn [map]. f_equal.
  unfold frs. rewrite rev_involutive, map_map. apply map_ext. intros p. apply rev_involutive.
Qed.

Lemma trim_spec b row :
  binv b -> row <> [] -> Forall (fun p => fst p <= snd p /\ snd p <= b_len b) row ->
  exists row', trim_last_cr b row = Ok row' /\ row' <> []
    /\ forall rr, close_row (frs (view b) row) rr = map (resolve b) row' :: rr.
Proof.
  intros Hb Hne Hall.
  destruct (exists_last Hne) as (front & [s e] & ->).
  apply Forall_app in Hall. destruct Hall as [Hfront Hlast].
  inversion Hlast as [|? ? [Hse He] _]; subst. cbn [fst snd] in Hse, He.
  assert (Hlen : b_len b <= length (b_data b)) by apply Hb.
  unfold trim_last_cr. rewrite rev_app_distr. cbn [rev app].
  rewrite frs_snoc. cbn [fst snd close_row].
  destruct (Nat.ltb 0 (e - s)) eqn:Epos.
  - apply Nat.ltb_lt in Epos.
    destruct (nth_error_lt_some (b_data b) (e - 1) ltac:(lia)) as [x Hx].
    unfold idx. rewrite Hx. cbn [of_option obind].
    assert (Hxv : nth_error (view b) (e - 1) = Some x) by (rewrite nth_view by lia; exact Hx).
    assert (Hsub : sub (view b) s e = sub (view b) s (e - 1) ++ [x]).
    { replace e with (S (e - 1)) at 1 by lia. apply sub_snoc; [lia|exact Hxv]. }
    rewrite Hsub, rev_app_distr. cbn [rev app trim_rev].
    change c_cr with ch_cr.
    destruct (N.eqb x ch_cr) eqn:Ecr.
    + eexists. split; [reflexivity|]. rewrite rev_involutive. split.
      * intros H. apply app_eq_nil in H. destruct H as [_ H]. discriminate.
      * intros rr. f_equal. rewrite rows_of_frs, rev_involutive, map_app. cbn [map].
        rewrite (map_resolve_view b front Hfront), resolve_view by lia. reflexivity.
    + eexists. split; [reflexivity|]. split.
      * intros H. apply app_eq_nil in H. destruct H as [_ H]. discriminate.
      * intros rr. f_equal. rewrite rows_of_frs, map_app. cbn [map rev].
        rewrite rev_involutive.
        rewrite (map_resolve_view b front Hfront), resolve_view by lia. rewrite Hsub. reflexivity.
  - apply Nat.ltb_ge in Epos. assert (e = s) by lia. subst e.
    eexists. split; [reflexivity|]. split.
    + intros H. apply app_eq_nil in H. destruct H as [_ H]. discriminate.
    + intros rr. f_equal. rewrite sub_nil. cbn [rev trim_rev].
      rewrite rows_of_frs, map_app. cbn [map rev].
      rewrite (map_resolve_view b front Hfront), resolve_view by lia. rewrite sub_nil. reflexivity.
Qed.

Definition next_done (rd rd' : rdstate) (ok : bool) : Prop :=
  let S0 := stream (f_buf (rd_fields rd)) in
  let b' := f_buf (rd_fields rd') in
  (ok = true /\ f_err (rd_fields rd') = RNil /\ length (stream b') < length S0
   /\ forall rr, sscan delim (SStart false) [] rr S0
                 = sscan delim (SStart false) [] (reader_fields rd' :: rr) (stream b'))
  \/ (ok = true /\ f_err (rd_fields rd') = REof
   /\ forall rr, sscan delim (SStart false) [] rr S0 = rev (reader_fields rd' :: rr))
  \/ (ok = false /\ f_err (rd_fields rd') = REof
   /\ forall rr, sscan delim (SStart false) [] rr S0 = rev rr).

Lemma reader_next_spec fuel rd :
  binv (f_buf (rd_fields rd)) -> f_err (rd_fields rd) = RNil ->
  length (stream (f_buf (rd_fields rd))) + 1 < fuel ->
  exists rd' ok, reader_next fuel delim rd = Ok (rd', ok)
    /\ binv (f_buf (rd_fields rd')) /\ next_done rd rd' ok.
Proof.
  intros Hb Herr Hfuel. unfold reader_next. rewrite Herr. cbn [rerr_eqb negb].
  destruct (reset_spec _ Hb) as (Hb0 & Hv0 & Hc0 & Hs0).
  set (fs0 := fields_reset (rd_fields rd)).
  assert (Hfb : f_buf fs0 = buf_reset (f_buf (rd_fields rd))) by reflexivity.
  destruct (row_loop_spec fuel fs0 []) as (fs' & acc' & Hrun & Hb' & Hall' & Hdone).
  { rewrite Hfb. exact Hb0. }
  { reflexivity. }
  { exact Herr. }
  { rewrite Hfb, Hc0. reflexivity. }
  { constructor. }
  { reflexivity. }
  { rewrite Hfb, Hs0. exact Hfuel. }
  rewrite Hrun. cbn [obind].
  unfold row_done in Hdone. rewrite Hfb, Hs0 in Hdone.
  change (f_start fs0) with 0 in Hdone. change (Nat.ltb 0 0) with false in Hdone.
  change (frs (view (buf_reset (f_buf (rd_fields rd)))) []) with (@nil bytes) in Hdone.
  destruct acc' as [|p acc'].
  - (* no field: the input is exhausted *)
    destruct Hdone as [(_ & D2 & _)|(D1 & D4)]; [congruence|].
    cbn [trim_last_cr rev obind is_nil]. rewrite D1. cbn [rerr_eqb].
    eexists _, false. split; [reflexivity|]. cbn [rd_fields]. split; [exact Hb'|].
    unfold next_done. right. right. cbn [rd_fields]. nsplit; auto.
  - destruct (trim_spec (f_buf fs') (p :: acc') Hb' ltac:(discriminate) Hall')
      as (row' & Htrim & Hne' & Hclose).
    rewrite Htrim. cbn [obind].
    destruct row' as [|p' row']; [congruence|]. cbn [is_nil].
    eexists _, true. split; [reflexivity|]. cbn [rd_fields]. split; [exact Hb'|].
    unfold next_done, reader_fields. cbn [rd_fields rd_row].
    destruct Hdone as [(D1 & D2 & D3 & D4)|(D1 & D4)].
    + left. nsplit; auto. intros rr. rewrite D4, Hclose. reflexivity.
    + right. left. nsplit; auto. intros rr. rewrite D4, Hclose. reflexivity.
Qed.

(* ------------------------------------------------------------------ the scan loop *)

Lemma scan_loop_done n fin rd rows trace :
  f_err (rd_fields rd) = REof ->
  exists tr, scan_loop (S n) fin delim rd rows trace = Ok (rev rows, false, tr).
Proof.
  intros H. cbn [scan_loop]. unfold reader_next. rewrite H. cbn [rerr_eqb negb obind].
  unfold reader_failed. rewrite H. eexists. reflexivity.
Qed.

Lemma scan_loop_spec fin fuel : forall rd rows trace,
  binv (f_buf (rd_fields rd)) -> f_err (rd_fields rd) = RNil ->
  length (stream (f_buf (rd_fields rd))) + 1 < fin ->
  length (stream (f_buf (rd_fields rd))) + 1 < fuel ->
  exists tr, scan_loop fuel fin delim rd rows trace
             = Ok (sscan delim (SStart false) [] rows (stream (f_buf (rd_fields rd))), false, tr).
Proof.
  induction fuel as [|fuel IH]; intros rd rows trace Hb Herr Hfin Hfuel; [lia|].
  cbn [scan_loop].
  destruct (reader_next_spec fin rd Hb Herr Hfin) as (rd' & ok & Hrun & Hb' & Hdone).
  rewrite Hrun. cbn [obind].
  destruct Hdone as [(-> & D1 & D2 & D3)|[(-> & D1 & D3)|(-> & D1 & D3)]].
  - destruct (IH rd' (reader_fields rd' :: rows) (buf_state rd' :: trace) Hb' D1) as [tr Htr];
      [lia|lia|].
    exists tr. rewrite Htr, D3. reflexivity.
  - destruct fuel as [|fuel']; [lia|].
    destruct (scan_loop_done fuel' fin rd' (reader_fields rd' :: rows) (buf_state rd' :: trace) D1)
      as [tr Htr].
    exists tr. rewrite Htr, D3. reflexivity.
  - unfold reader_failed. rewrite D1. cbn [rerr_eqb]. eexists. rewrite D3. reflexivity.
Qed.

End Rows.

(* ------------------------------------------------------------------ the theorem *)

(* which fuel suffices: anything above the document length + 1, for the row loop and for the inner loops
   (every iteration of every loop consumes a byte of the document or ends the loop) *)
Theorem scan_loop_fuel_suffices (cap : nat) (delim : N) (chunks : list bytes) (t : rterm) (fuel fin : nat) :
  Forall (fun c : bytes => c <> []) chunks -> (t = TEofSep \/ t = TEofWith) ->
  length (concat chunks) + 2 <= fuel -> length (concat chunks) + 2 <= fin ->
  exists tr, scan_loop fuel fin delim (new_reader cap chunks t) [] []
             = Ok (stream_scan delim (concat chunks), false, tr).
Proof.
  intros Hne Ht Hfuel Hfin.
  set (rd := new_reader cap chunks t).
  assert (Hb : binv (f_buf (rd_fields rd))).
  { unfold rd, new_reader, binv. cbn [rd_fields f_buf b_len b_cur b_data b_rd].
    change (N.to_nat c_csv_init_len) with 0. split; [lia|]. split; [lia|].
    unfold rinv. cbn [r_chunks r_term r_iseof]. nsplit; auto. discriminate. }
  assert (Hs : stream (f_buf (rd_fields rd)) = concat chunks) by reflexivity.
  destruct (scan_loop_spec delim fin fuel rd [] [] Hb eq_refl) as [tr Htr].
  { rewrite Hs. lia. }
  { rewrite Hs. lia. }
  exists tr. rewrite Htr, Hs. reflexivity.
Qed.

Theorem buffer_refines_stream (cap : nat) (delim : N) (chunks : list bytes) (t : rterm) :
  Forall (fun c : bytes => c <> []) chunks -> (t = TEofSep \/ t = TEofWith) ->
  scan cap delim chunks t = Ok (stream_scan delim (concat chunks), false).
Proof.
  intros Hne Ht. unfold scan, scan_trace.
  destruct (scan_loop_fuel_suffices cap delim chunks t (scan_fuel chunks) (scan_fuel chunks) Hne Ht)
    as [tr Htr]; try (unfold scan_fuel; lia).
  rewrite Htr. reflexivity.
Qed.

(* the result does not depend on the fragmentation, the EOF style or the initial capacity *)
Corollary fragmentation_independent (delim : N) (doc : bytes)
          (cap1 cap2 : nat) (frag1 frag2 : list bytes) (t1 t2 : rterm) :
  Forall (fun c : bytes => c <> []) frag1 -> Forall (fun c : bytes => c <> []) frag2 ->
  concat frag1 = doc -> concat frag2 = doc ->
  (t1 = TEofSep \/ t1 = TEofWith) -> (t2 = TEofSep \/ t2 = TEofWith) ->
  scan cap1 delim frag1 t1 = scan cap2 delim frag2 t2.
Proof.
  intros H1 H2 E1 E2 T1 T2.
  rewrite (buffer_refines_stream cap1 delim frag1 t1 H1 T1),
          (buffer_refines_stream cap2 delim frag2 t2 H2 T2), E1, E2. reflexivity.
Qed.

(* qframe.ReadCSV over the buffer-level scanner (the model the engine runs) = ReadCSV at the specification
   level on the whole document, whatever the reader does *)
Theorem read_csv_buf_spec (parse_int : bytes -> option Z) (parse_float : bytes -> option N)
        (parse_bool : bytes -> option bool) (conf : csv_conf) (chunks : list bytes) (t : rterm) :
  Forall (fun c : bytes => c <> []) chunks -> (t = TEofSep \/ t = TEofWith) ->
  read_csv_buf parse_int parse_float parse_bool conf chunks t
  = read_csv_spec parse_int parse_float parse_bool conf (concat chunks).
Proof.
  intros Hne Ht. unfold read_csv_buf, read_csv_spec, scan_default.
  rewrite (buffer_refines_stream _ _ _ _ Hne Ht). reflexivity.
Qed.

(* ... hence, for every fragmentation of a well-formed document, the glue applied to the rows it was rendered from *)
Theorem read_csv_buf_render (parse_int : bytes -> option Z) (parse_float : bytes -> option N)
        (parse_bool : bytes -> option bool) (conf : csv_conf) (rows : list (list bytes)) (st : styles)
        (chunks : list bytes) (t : rterm) :
  wf_doc (cf_delim conf) rows st = true ->
  Forall (fun c : bytes => c <> []) chunks -> concat chunks = render (cf_delim conf) rows st ->
  (t = TEofSep \/ t = TEofWith) ->
  read_csv_buf parse_int parse_float parse_bool conf chunks t
  = read_rows parse_int parse_float parse_bool conf rows false.
Proof.
  intros Hwf Hne Hcat Ht.
  rewrite (read_csv_buf_spec _ _ _ conf chunks t Hne Ht), Hcat.
  apply read_csv_spec_render. exact Hwf.
Qed.
