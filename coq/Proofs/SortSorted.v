(* Proofs/SortSorted.v — lemmas about Model/Sort.v, part 3: for a strict weak order [lt] the
   insertion sort and the heap sort leave their range without inversion. *)
From QF Require Import Base.Prelude Model.Sort Proofs.SortProofs Proofs.SortSafe.

Lemma nth_set_nth (l : list nat) : forall i k v,
  nth k (set_nth l i v) 0 = if (k =? i) && (i <? length l) then v else nth k l 0.
Proof.
  induction l as [|x l IH]; intros i k v.
  - replace (i <? length (@nil nat)) with false by (symmetry; apply Nat.ltb_ge; cbn; lia).
    rewrite andb_false_r. destruct i; reflexivity.
  - destruct i as [|i], k as [|k]; cbn [set_nth nth length]; try reflexivity.
    rewrite IH. change (S k =? S i) with (k =? i).
    change (S i <? S (length l)) with (i <? length l). reflexivity.
Qed.

Lemma nth_swapl s i j k : i < length s -> j < length s ->
  nth k (swapl s i j) 0
  = if k =? j then nth i s 0 else if k =? i then nth j s 0 else nth k s 0.
Proof.
  intros Hi Hj. unfold swapl. rewrite !nth_set_nth, set_nth_length.
  replace (j <? length s) with true by (symmetry; apply Nat.ltb_lt; auto).
  replace (i <? length s) with true by (symmetry; apply Nat.ltb_lt; auto).
  rewrite !andb_true_r. reflexivity.
Qed.

Section Sorted.
  Variable lt : nat -> nat -> bool.
  Hypothesis W : strict_weak_order lt.

  (* x <= y *)
  Definition le (x y : nat) : Prop := lt y x = false.

  Lemma le_trans x y z : le x y -> le y z -> le x z.
  Proof. unfold le. intros H1 H2. eapply (swo_negtrans _ _ W z y x); eauto. Qed.

  Lemma lt_le x y : lt x y = true -> le x y.
  Proof. unfold le. intros H. eapply (swo_asym _ _ W); eauto. Qed.

  Lemma le_refl x : le x x.
  Proof. unfold le. destruct W as [I _ _]. apply I. reflexivity. Qed.

  Lemma nlt_le x y : lt x y = false -> le y x.
  Proof. auto. Qed.

  Lemma le_total x y : le x y \/ le y x.
  Proof. unfold le. destruct (lt y x) eqn:E; auto. right. apply lt_le in E. exact E. Qed.

  Definition sorted_range (s : list nat) (a b : nat) : Prop :=
    forall i j, a <= i -> i < j -> j < b -> le (nth i s 0) (nth j s 0).

  Ltac len := rewrite ?swapl_length in *; lia.

  (* ---------------------------------------------------------------- insertion sort *)
  (* [a, i] is sorted except that position j may be too far right; s[j] <= everything after it *)
  Definition ins_inv (s : list nat) (a i j : nat) : Prop :=
    (forall p q, a <= p -> p < q -> q <= i -> p <> j -> q <> j -> le (nth p s 0) (nth q s 0)) /\
    (forall q, j < q -> q <= i -> le (nth j s 0) (nth q s 0)).

  Lemma ins_exit s a i j :
    ins_inv s a i j -> a <= j -> j <= i ->
    (j = a \/ le (nth (j - 1) s 0) (nth j s 0)) ->
    sorted_range s a (S i).
  Proof.
    intros [I1 I2] Haj Hji Hex p q Hp Hpq Hq.
    destruct (Nat.eq_dec p j) as [->|Npj].
    - apply I2; lia.
    - destruct (Nat.eq_dec q j) as [->|Nqj].
      + destruct Hex as [->|Hex]; [lia|].
        destruct (Nat.eq_dec p (j - 1)) as [->|Np]; auto.
        eapply le_trans; [|exact Hex]. apply I1; lia.
      + apply I1; lia.
  Qed.

  Lemma ins_step s a i j :
    a < j -> j <= i -> i < length s -> ins_inv s a i j ->
    lt (nth j s 0) (nth (j - 1) s 0) = true ->
    ins_inv (swapl s j (j - 1)) a i (j - 1).
  Proof.
    intros Haj Hji Hi [I1 I2] Hlt. apply lt_le in Hlt. split.
    - intros p q Hp Hpq Hq Np Nq. rewrite !nth_swapl by lia.
      repeat match goal with
             | |- context [?x =? ?y] => destruct (Nat.eqb_spec x y)
             end; subst; try lia; apply I1; lia.
    - intros q Hq1 Hq2. rewrite !nth_swapl by lia.
      repeat match goal with
             | |- context [?x =? ?y] => destruct (Nat.eqb_spec x y)
             end; subst; try lia; auto. apply I2; lia.
  Qed.

  Lemma ins_inner_sorted a i : forall j s,
    a <= j -> j <= i -> i < length s -> ins_inv s a i j ->
    exists s', ins_inner lt a j s = Ok s' /\ length s' = length s /\ sorted_range s' a (S i).
  Proof.
    induction j as [|j IH]; intros s Haj Hji Hi Inv; cbn [ins_inner].
    - exists s. repeat split; auto. eapply ins_exit; eauto; try lia; try (left; lia).
    - destruct (a <? S j) eqn:C.
      + apply Nat.ltb_lt in C. kunf. rewrite less_eq by lia. cbn [obind].
        destruct (lt (nth (S j) s 0) (nth (S j - 1) s 0)) eqn:L.
        * rewrite swap_eq by lia. cbn [obind].
          pose proof (ins_step s a i (S j) C Hji Hi Inv L) as Inv'.
          replace (S j - 1) with j in * by lia.
          destruct (IH (swapl s (S j) j)) as (s' & E & Ln & S'); [lia|lia|len|exact Inv'|].
          exists s'. repeat split; auto. len.
        * exists s. repeat split; auto. eapply ins_exit; eauto; try (right; exact L).
      + apply Nat.ltb_ge in C. exists s. repeat split; auto. eapply ins_exit; eauto; try lia; try (left; lia).
  Qed.

  Lemma ins_outer_sorted a : forall k i s,
    a <= i -> (0 < k -> i + k <= length s) -> sorted_range s a i ->
    exists s', ins_outer lt k a i s = Ok s' /\ length s' = length s /\ sorted_range s' a (i + k).
  Proof.
    induction k as [|k IH]; intros i s Hai Hk Hs; cbn [ins_outer].
    - exists s. repeat split; auto. replace (i + 0) with i by lia. exact Hs.
    - destruct (ins_inner_sorted a i i s) as (s1 & E1 & L1 & S1); [lia|lia|lia| |].
      { split.
        - intros p q Hp Hpq Hq Np Nq. apply Hs; lia.
        - intros q Hq1 Hq2. lia. }
      rewrite E1. cbn [obind].
      destruct (IH (S i) s1) as (s' & E & L & S'); [lia|lia|exact S1|].
      exists s'. repeat split; auto; try lia. replace (i + S k) with (S i + k) by lia. exact S'.
  Qed.

  Lemma insertion_sort_sorted a b s :
    b <= length s ->
    exists s', insertion_sort lt a b s = Ok s' /\ length s' = length s /\ sorted_range s' a b.
  Proof.
    intros Hb. unfold insertion_sort. kunf.
    destruct (ins_outer_sorted a (b - (a + 1)) (a + 1) s) as (s' & E & L & S'); [lia|lia| |].
    { intros p q Hp Hpq Hq. lia. }
    exists s'. repeat split; auto.
    intros p q Hp Hpq Hq. apply S'; lia.
  Qed.

  (* ---------------------------------------------------------------- n <= 12: shell pass + insertion sort *)
  Lemma sorted_range_no_inversion s : sorted_range s 0 (length s) -> no_inversion lt s.
  Proof.
    intros H i j x y Hij Hx Hy.
    assert (Hj : j < length s) by (apply nth_error_Some; congruence).
    pose proof (H i j (Nat.le_0_l i) Hij Hj) as Hle. unfold le in Hle.
    rewrite (nth_error_nth s i 0 Hx), (nth_error_nth s j 0 Hy) in Hle. exact Hle.
  Qed.

  Theorem sort_ids_sorted_small ids out :
    length ids <= k_ins_max -> sort_ids lt ids = Ok out -> no_inversion lt out.
  Proof.
    intros Hn H. unfold sort_ids in H. mon.
    cbn [quick_sort] in H. rewrite Nat.sub_0_r in H.
    replace (k_ins_max <? length ids) with false in H by (symmetry; apply Nat.ltb_ge; exact Hn).
    destruct (k_qs_one <? length ids) eqn:C.
    - mon. assert (La : length a0 = length ids).
      { destruct (shell_pass_safe lt (length ids - (0 + k_gap_a)) (0 + k_gap_a) ids) as (s1 & E1 & L1);
          [kunf; lia|]. congruence. }
      destruct (insertion_sort_sorted 0 (length ids) a0) as (s' & E' & L' & S'); [lia|].
      rewrite E' in H. inversion H; subst. apply sorted_range_no_inversion. rewrite L', La. exact S'.
    - inversion H; subst. apply Nat.ltb_ge in C. unfold k_qs_one in C.
      intros i j x y Hij Hx Hy.
      assert (j < length out) by (apply nth_error_Some; congruence). lia.
  Qed.

  (* ---------------------------------------------------------------- heap sort *)
  Section Heap.
    Variable first : nat.
    Definition h (s : list nat) (k : nat) : nat := nth (first + k) s 0.
    Definition is_child (c k : nat) : Prop := c = 2 * k + 1 \/ c = 2 * k + 2.

    (* every parent k >= lo dominates its children below hi *)
    Definition heap_on (s : list nat) (lo hi : nat) : Prop :=
      forall k c, lo <= k -> c < hi -> is_child c k -> le (h s c) (h s k).

    (* heap everywhere from lo on except possibly at root, whose children are dominated by root's parent *)
    Definition sift_inv (s : list nat) (lo root hi : nat) : Prop :=
      (forall k c, lo <= k -> k <> root -> c < hi -> is_child c k -> le (h s c) (h s k)) /\
      (forall p c, lo <= p -> is_child root p -> c < hi -> is_child c root -> le (h s c) (h s p)).

    (* s' differs from s only inside first+[0,hi) and holds there only values that were there *)
    Definition frame (s s' : list nat) (hi : nat) : Prop :=
      (forall q, q < first \/ first + hi <= q -> nth q s' 0 = nth q s 0) /\
      (forall p, p < hi -> exists p', p' < hi /\ h s' p = h s p').

    Lemma frame_refl s hi : frame s s hi.
    Proof. split; auto. intros p Hp. exists p. auto. Qed.

    Lemma frame_trans s1 s2 s3 hi : frame s1 s2 hi -> frame s2 s3 hi -> frame s1 s3 hi.
    Proof.
      intros [A1 B1] [A2 B2]. split.
      - intros q Hq. rewrite A2, A1; auto.
      - intros p Hp. destruct (B2 p Hp) as (p' & Hp' & E'). destruct (B1 p' Hp') as (p'' & Hp'' & E'').
        exists p''. split; auto. congruence.
    Qed.

    Lemma frame_mono s s' hi hi' : hi <= hi' -> frame s s' hi -> frame s s' hi'.
    Proof.
      intros Hle [A B]. split.
      - intros q Hq. apply A. lia.
      - intros p Hp. destruct (Nat.lt_ge_cases p hi) as [Hlt|Hge].
        + destruct (B p Hlt) as (p' & Hp' & E). exists p'. split; auto. lia.
        + exists p. split; auto. unfold h. apply A. lia.
    Qed.

    Ltac split4 := split; [|split; [|split]].
    Ltac swapcases :=
      unfold h; rewrite ?nth_swapl by lia;
      repeat match goal with
             | |- context [?x =? ?y] => destruct (Nat.eqb_spec x y)
             end; try lia.

    Lemma frame_swap s i j hi : i < hi -> j < hi -> first + hi <= length s ->
      frame s (swapl s (first + i) (first + j)) hi.
    Proof.
      intros Hi Hj Hl. split.
      - intros q Hq. swapcases; reflexivity.
      - intros p Hp. unfold h. rewrite nth_swapl by lia.
        destruct (Nat.eqb_spec (first + p) (first + j)); [exists i; auto|].
        destruct (Nat.eqb_spec (first + p) (first + i)); [exists j; auto|].
        exists p; auto.
    Qed.

    Lemma sift_down_heap lo hi : forall fuel root s,
      lo <= root -> first + hi <= length s -> hi - root < fuel -> sift_inv s lo root hi ->
      exists s', sift_down lt fuel root hi first s = Ok s' /\ length s' = length s /\
                 heap_on s' lo hi /\ frame s s' hi.
    Proof.
      induction fuel as [|f IH]; intros root s Hlo Hl Hf [I1 I2]; [lia|]. cbn [sift_down]. kunf.
      destruct (hi <=? 2 * root + 1) eqn:C.
      { apply Nat.leb_le in C. exists s. split4; auto using frame_refl.
        intros k c Hk Hc Hch. destruct (Nat.eq_dec k root) as [->|Nk]; [unfold is_child in Hch; lia|].
        apply I1; auto. }
      apply Nat.leb_gt in C.
      (* the tail of the loop body once the larger child is chosen *)
      assert (Tail : forall child, child < hi -> is_child child root ->
                (forall c, c < hi -> is_child c root -> le (h s c) (h s child)) ->
                exists s', (do c2 <- less lt s (first + root) (first + child);
                            if negb c2 then Ok s
                            else do s' <- swap s (first + root) (first + child);
                                 sift_down lt f child hi first s') = Ok s'
                           /\ length s' = length s /\ heap_on s' lo hi /\ frame s s' hi).
      { intros child Hch Hic Hmax. assert (Hrc : root < child) by (unfold is_child in Hic; lia).
        rewrite less_eq by lia. cbn [obind].
        destruct (lt (nth (first + root) s 0) (nth (first + child) s 0)) eqn:L; cbn [negb].
        - rewrite swap_eq by lia. cbn [obind]. apply lt_le in L.
          set (s1 := swapl s (first + root) (first + child)).
          destruct (IH child s1) as (s' & E & Ln & Hp & Fr); [lia|subst s1; len|lia| |].
          { subst s1. split.
            - intros k c Hk Nk Hc Hkc.
              destruct (Nat.eq_dec k root) as [->|Nkr].
              + assert (c <> root) by (unfold is_child in *; lia).
                destruct (Nat.eq_dec c child) as [->|Ncc].
                * swapcases; exact L.
                * swapcases; apply Hmax; auto.
              + assert (c <> child) by (unfold is_child in *; lia).
                destruct (Nat.eq_dec c root) as [->|Ncr].
                * swapcases; apply (I2 k child); auto.
                * swapcases; apply I1; auto.
            - intros p c Hp Hcp Hc Hcc.
              assert (p = root) by (unfold is_child in *; lia). subst p.
              assert (c <> root /\ c <> child) as [? ?] by (unfold is_child in *; lia).
              swapcases; apply I1; auto; lia. }
          exists s'. split4; auto.
          + subst s1. len.
          + eapply frame_trans; [|exact Fr]. subst s1. apply frame_swap; lia.
        - exists s. split4; auto using frame_refl.
          intros k c Hk Hc Hkc. destruct (Nat.eq_dec k root) as [->|Nk].
          + eapply le_trans; [apply Hmax; auto|]. exact L.
          + apply I1; auto. }
      destruct (2 * root + 1 + 1 <? hi) eqn:C2.
      - apply Nat.ltb_lt in C2. rewrite less_eq by lia. cbn [obind].
        destruct (lt (nth (first + (2 * root + 1)) s 0) (nth (first + (2 * root + 1) + 1) s 0)) eqn:L.
        + apply Tail; [lia|unfold is_child; lia|].
          intros c Hc Hic. destruct Hic as [->| ->].
          * apply lt_le in L. unfold h.
            replace (first + S (2 * root + 1)) with (first + (2 * root + 1) + 1) by lia. exact L.
          * replace (2 * root + 2) with (S (2 * root + 1)) by lia. apply le_refl.
        + apply Tail; [lia|unfold is_child; lia|].
          intros c Hc Hic. destruct Hic as [->| ->].
          * apply le_refl.
          * unfold h, le. replace (first + (2 * root + 2)) with (first + (2 * root + 1) + 1) by lia.
            exact L.
      - apply Nat.ltb_ge in C2. cbn [obind]. apply Tail; [lia|unfold is_child; lia|].
        intros c Hc Hic. destruct Hic as [->| ->]; [apply le_refl|lia].
    Qed.

    Lemma heap_root_max s hi : heap_on s 0 hi -> forall k, k < hi -> le (h s k) (h s 0).
    Proof.
      intros Hp k. induction k as [k IHk] using lt_wf_ind. intros Hk.
      destruct k as [|k]; [apply le_refl|].
      eapply le_trans; [apply (Hp (k / 2) (S k)); [lia|lia|unfold is_child; lia]|].
      apply IHk; lia.
    Qed.

    Lemma heap_build_heap hi : forall k s,
      first + hi <= length s -> heap_on s k hi ->
      exists s', heap_build lt k hi first s = Ok s' /\ length s' = length s /\
                 heap_on s' 0 hi /\ frame s s' hi.
    Proof.
      induction k as [|k IH]; intros s Hl Hp; cbn [heap_build].
      - exists s. split4; auto using frame_refl.
      - destruct (sift_down_heap k hi (S hi) k s) as (s1 & E1 & L1 & H1 & F1); [lia|lia|lia| |].
        { split.
          - intros k' c Hk Nk Hc Hkc. apply Hp; auto; lia.
          - intros p c Hp' Hcp. unfold is_child in Hcp. lia. }
        rewrite E1. cbn [obind].
        destruct (IH s1) as (s' & E & L & H' & F'); [lia|exact H1|].
        exists s'. split4; auto; [lia|eapply frame_trans; eauto].
    Qed.

    (* the prefix [0,k) is a heap, the suffix [k,hi) is sorted and dominates the prefix *)
    Definition pop_inv (s : list nat) (k hi : nat) : Prop :=
      heap_on s 0 k /\
      (forall i j, k <= i -> i < j -> j < hi -> le (h s i) (h s j)) /\
      (forall p q, p < k -> k <= q -> q < hi -> le (h s p) (h s q)).

    Lemma heap_pop_sorted hi : forall k s,
      k <= hi -> first + hi <= length s -> pop_inv s k hi ->
      exists s', heap_pop lt k 0 first s = Ok s' /\ length s' = length s /\
                 (forall i j, i < j -> j < hi -> le (h s' i) (h s' j)) /\ frame s s' hi.
    Proof.
      induction k as [|k IH]; intros s Hk Hl (Hp & Hs & Hd); cbn [heap_pop].
      - exists s. split4; auto using frame_refl. intros i j Hij Hj. apply Hs; lia.
      - rewrite swap_eq by lia. cbn [obind].
        set (s1 := swapl s first (first + k)).
        assert (L1 : length s1 = length s) by (subst s1; apply swapl_length).
        assert (N1 : forall q, h s1 q = if q =? k then h s 0 else if q =? 0 then h s k else h s q).
        { intros q. subst s1. unfold h. rewrite nth_swapl by lia. rewrite Nat.add_0_r.
          destruct (Nat.eqb_spec q k), (Nat.eqb_spec (first + q) (first + k)); try lia; auto.
          destruct (Nat.eqb_spec q 0), (Nat.eqb_spec (first + q) first); try lia; auto. }
        destruct (sift_down_heap 0 k (S k) 0 s1) as (s2 & E2 & L2 & H2 & F2); [lia|lia|lia| |].
        { split.
          - intros k' c _ Nk Hc Hkc. rewrite !N1.
            assert (k' < c) by (unfold is_child in Hkc; lia).
            destruct (Nat.eqb_spec c k), (Nat.eqb_spec k' k), (Nat.eqb_spec c 0), (Nat.eqb_spec k' 0);
              try lia. apply Hp; auto; lia.
          - intros p c _ Hcp. unfold is_child in Hcp. lia. }
        rewrite E2. cbn [obind].
        destruct F2 as [F2a F2b].
        assert (T2 : forall q, k <= q -> h s2 q = h s1 q) by (intros q Hq; unfold h; apply F2a; lia).
        pose proof (heap_root_max s (S k) Hp) as Hmax.
        destruct (IH s2) as (s' & E & L & S' & F'); [lia|lia| |].
        { split; [exact H2|]. split.
          - intros i j Hi Hij Hj. rewrite !T2 by lia. rewrite !N1.
            destruct (Nat.eqb_spec i k), (Nat.eqb_spec j k), (Nat.eqb_spec i 0), (Nat.eqb_spec j 0);
              try lia; try (subst; apply Hd; lia); try (apply Hs; lia).
          - intros p q Hpk Hq Hqh. rewrite (T2 q) by lia.
            destruct (F2b p Hpk) as (p' & Hp' & ->). rewrite !N1.
            destruct (Nat.eqb_spec q k), (Nat.eqb_spec p' k), (Nat.eqb_spec q 0), (Nat.eqb_spec p' 0);
              try lia; try (apply Hmax; lia); try (apply Hd; lia). }
        exists s'. split4; auto; [lia|].
        eapply frame_trans; [|exact F'].
        assert (Fs : frame s s1 hi).
        { pose proof (frame_swap s 0 k hi) as Fs. rewrite Nat.add_0_r in Fs. apply Fs; lia. }
        eapply frame_trans; [exact Fs|].
        apply (frame_mono s1 s2 k hi); [lia|split; auto].
    Qed.

    Lemma heap_sort_sorted' b s : first <= b -> b <= length s ->
      exists s', heap_sort lt first b s = Ok s' /\ length s' = length s /\
                 sorted_range s' first b /\ frame s s' (b - first).
    Proof.
      intros Hab Hb. unfold heap_sort. kunf.
      destruct (heap_build_heap (b - first) (S ((b - first - 1) / 2)) s) as (s1 & E1 & L1 & H1 & F1);
        [lia| |].
      { intros k c Hk Hc Hkc. unfold is_child in Hkc. lia. }
      rewrite E1. cbn [obind].
      replace (if 1 <=? b - first then S (b - first - 1) else 0) with (b - first)
        by (destruct (1 <=? b - first) eqn:C; [apply Nat.leb_le in C|apply Nat.leb_gt in C]; lia).
      destruct (heap_pop_sorted (b - first) (b - first) s1) as (s' & E & L & S' & F'); [lia|lia| |].
      { split; [exact H1|]. split; intros; lia. }
      exists s'. split4; auto; [lia| |eapply frame_trans; eauto].
      intros i j Hi Hij Hj. pose proof (S' (i - first) (j - first)) as Hle. unfold h in Hle.
      replace (first + (i - first)) with i in Hle by lia.
      replace (first + (j - first)) with j in Hle by lia. apply Hle; lia.
    Qed.
  End Heap.

  (* the heapsort fallback of quickSort: maxDepth = 0 on a range of more than 12 elements *)
  Theorem quick_sort_heap_fallback fuel a b s :
    a <= b -> b <= length s -> k_ins_max < b - a ->
    exists s', quick_sort lt (S fuel) a b 0 s = Ok s' /\ length s' = length s /\
               sorted_range s' a b /\ Permutation s' s /\
               (forall q, q < a \/ b <= q -> nth q s' 0 = nth q s 0).
  Proof.
    intros Hab Hb Hn. cbn [quick_sort].
    replace (k_ins_max <? b - a) with true by (symmetry; apply Nat.ltb_lt; exact Hn).
    change (0 =? k_depth_zero) with true. cbv iota.
    destruct (heap_sort_sorted' a b s Hab Hb) as (s' & E & L & S' & [F _]).
    exists s'. repeat split; auto.
    - eapply heap_sort_perm; eauto.
    - intros q Hq. apply F. lia.
  Qed.
End Sorted.
