(* Proofs/SortFrameProofs.v — property C03 at frame level: QFrame.Sort as modelled by Model/SortFrame.v
   (sort_frame) on every well-formed physical frame with ANY row index (repeated row ids allowed).

     1. the Comparable built from a physical column is the Compare of Corr/SortCorr.v on the key the column
        stands for (col_key): Sorter.Less over the order list = model_lt (frame_keys f orders);
     2. frame_sort_ok: the result has the receiver's columns (physically untouched), no error, an index that
        is a permutation of the receiver's and has no inversion in the order worded by the property;
     3. frame_sort_table: the logical table of the result has the names and types of the receiver's, its i-th
        row is the receiver's row at the i-th row id of the new index (rows stay whole), the rows are a
        permutation of the receiver's rows;
     4. errors: sticky Err, an order naming no column; no orders; no panic;
     5. the order in terms of the cells: per key the comparison of two row ids is the comparison of the two
        sort cells the rows hold in that column (key_spec_cells), and — with duplicate-free declared enum
        values — of the two LOGICAL cells (skey_lt_cells); frame_sort_logical states the ordering clause on
        the rows of the result table alone. *)
From QF Require Import Base.Prelude Gen.GenConsts Model.Sort Model.Ops Model.SortFrame.
From QF Require Import Proofs.SortProofs Proofs.SortSafe Proofs.SortKeyProofs Proofs.SortQuickSorted.
From QF Require Import Proofs.OpsProofs Proofs.OpsProofs2.
From QF Require Proofs.EnumOrderProofs.   (* index_of: the declared position of a string (C17) *)
(* Model.Frame and Corr.SortCorr both define f_isnan / f_lt: always written qualified below *)
From QF Require Import Model.Frame Corr.SortCorr.
Local Open Scope nat_scope.

(* ================================================================== 1. the two float readings agree *)

Lemma f_isnan_eq (b : N) : Frame.f_isnan b = SortCorr.f_isnan b.
Proof.
  unfold Frame.f_isnan, SortCorr.f_isnan, f_abs_mask, f_inf_bits.
  change 0x7FFFFFFFFFFFFFFF%N with (N.ones 63).
  change 0x7ff%N with (N.ones 11).
  change 0xfffffffffffff%N with (N.ones 52).
  rewrite !N.land_ones, N.shiftr_div_pow2.
  assert (E : (b mod 2 ^ 63 = b mod 2 ^ 52 + 2 ^ 52 * ((b / 2 ^ 52) mod 2 ^ 11))%N).
  { change (2 ^ 63)%N with (2 ^ 52 * 2 ^ 11)%N. apply N.mod_mul_r; discriminate. }
  rewrite E.
  pose proof (N.mod_upper_bound b (2 ^ 52)%N ltac:(discriminate)) as Hf.
  pose proof (N.mod_upper_bound (b / 2 ^ 52)%N (2 ^ 11)%N ltac:(discriminate)) as He.
  set (f := (b mod 2 ^ 52)%N) in *. set (e := ((b / 2 ^ 52) mod 2 ^ 11)%N) in *.
  change (2 ^ 52)%N with 4503599627370496%N in *. change (2 ^ 11)%N with 2048%N in *.
  change (N.ones 11) with 2047%N. clearbody f e. clear E.
  destruct (N.eqb_spec e 2047), (N.eqb_spec f 0); cbn [andb negb]; lia.
Qed.

Lemma f_lt_eq (a b : N) : Frame.f_lt a b = SortCorr.f_lt a b.
Proof. unfold Frame.f_lt, SortCorr.f_lt. rewrite !f_isnan_eq. reflexivity. Qed.

(* ================================================================== 2. Comparables = the keys of the statement *)

Lemma nth_enum_rank_key d i : nth i (map enum_rank_key d) None = enum_rank_key (nth i d c_nullValue).
Proof. change (@None N) with (enum_rank_key c_nullValue). apply map_nth. Qed.

Lemma col_comparable_key (c : coldata) (rev nl : bool) (a b : nat) :
  col_comparable c rev nl a b = key_compare (col_key c, (rev, nl)) a b.
Proof.
  destruct c as [d|d|d|d|d vs st]; unfold col_comparable, key_compare, col_key.
  - reflexivity.
  - unfold compare_rows_float, key_isnull, key_vlt, nthd. rewrite !f_lt_eq, !f_isnan_eq. reflexivity.
  - reflexivity.
  - reflexivity.
  - unfold compare_rows, key_isnull, key_vlt, nthd. rewrite !nth_enum_rank_key.
    unfold enum_rank_key.
    destruct (enum_is_null (nth a d c_nullValue)), (enum_is_null (nth b d c_nullValue)); reflexivity.
Qed.

(* the loop over the orders fails exactly when frame_keys does; otherwise Less is model_lt of the keys and the
   columns consulted are columns the by-name map knows *)
Lemma comparables_keys f : forall orders,
  match comparables f orders, frame_keys f orders with
  | Some cs, Some keys =>
      (forall a b, less_keys (map snd cs) a b = model_lt keys a b) /\
      Forall (fun c => exists name, lookup_col f name = Some c) (map fst cs)
  | None, None => True
  | _, _ => False
  end.
Proof.
  induction orders as [|o orders IH]; cbn [comparables frame_keys].
  - split; [reflexivity|constructor].
  - destruct (lookup_col f (o_column o)) as [c|] eqn:L; [|exact I].
    destruct (comparables f orders) as [cs|], (frame_keys f orders) as [keys|]; try contradiction; [|exact I].
    destruct IH as [E F]. split.
    + intros a b. unfold model_lt. cbn [map less_keys fst snd]. rewrite col_comparable_key.
      destruct (key_compare (col_key c, (o_reverse o, o_nulllast o)) a b); try reflexivity; apply E.
    + cbn [map fst]. constructor; [exists (o_column o); exact L|exact F].
Qed.

Lemma frame_keys_some_comparables f orders keys :
  frame_keys f orders = Some keys ->
  exists cs, comparables f orders = Some cs /\
    (forall a b, less_keys (map snd cs) a b = model_lt keys a b) /\
    Forall (fun c => exists name, lookup_col f name = Some c) (map fst cs).
Proof.
  intro H. pose proof (comparables_keys f orders) as K. rewrite H in K.
  destruct (comparables f orders) as [cs|]; [|contradiction]. exists cs. split; [reflexivity|exact K].
Qed.

Lemma frame_keys_none_comparables f orders :
  frame_keys f orders = None -> comparables f orders = None.
Proof.
  intro H. pose proof (comparables_keys f orders) as K. rewrite H in K.
  destruct (comparables f orders); [contradiction|reflexivity].
Qed.

(* frame_keys answers exactly when every order names a column of the frame *)
Definition orders_known (f : frame) (orders : list order) : bool :=
  forallb (fun o => contains f (o_column o)) orders.

Lemma contains_lookup_col' f n : contains f n = match lookup_col f n with Some _ => true | None => false end.
Proof. unfold contains, lookup_col. destruct (lookup f n); reflexivity. Qed.

Lemma frame_keys_known f : forall orders,
  orders_known f orders = true <-> exists keys, frame_keys f orders = Some keys.
Proof.
  induction orders as [|o orders IH]; cbn [orders_known forallb frame_keys].
  - split; [eexists; reflexivity|reflexivity].
  - rewrite andb_true_iff, contains_lookup_col'. fold (orders_known f orders). rewrite IH.
    destruct (lookup_col f (o_column o)) as [c|].
    + split.
      * intros [_ [keys ->]]. eexists; reflexivity.
      * intros [keys H]. split; [reflexivity|]. destruct (frame_keys f orders); [eexists; reflexivity|discriminate].
    + split; [intros [H _]; discriminate|intros [keys H]; discriminate].
Qed.

Lemma frame_keys_unknown f orders :
  orders_known f orders = false <-> frame_keys f orders = None.
Proof.
  pose proof (frame_keys_known f orders) as K. destruct (orders_known f orders).
  - split; [discriminate|]. intro H. destruct (proj1 K eq_refl) as [keys E]. congruence.
  - split; [|reflexivity]. intros _. destruct (frame_keys f orders) as [keys|]; [|reflexivity].
    assert (false = true) by (apply K; eexists; reflexivity). discriminate.
Qed.

(* ================================================================== 3. the order is a strict weak order *)

Lemma swo_ext (R R' : nat -> nat -> bool) :
  (forall a b, R' a b = R a b) -> strict_weak_order R -> strict_weak_order R'.
Proof.
  intros E [I T C]. split.
  - intros a Pa. rewrite E. exact (I a Pa).
  - intros a b c Pa Pb Pc. rewrite !E. exact (T a b c Pa Pb Pc).
  - intros a b c Pa Pb Pc. rewrite !E. exact (C a b c Pa Pb Pc).
Qed.

(* ================================================================== 4. well-formed frames: every read in range *)

Lemma lookup_col_in f name c : lookup_col f name = Some c -> exists n, In (n, c) (cols f).
Proof.
  unfold lookup_col. destruct (lookup f name) as [[q c']|] eqn:L; [|discriminate].
  cbn. intro H. inversion H; subst. exists name. eapply nth_error_In. apply lookup_some_nth. exact L.
Qed.

Lemma wf_rows_in_range f keycols :
  wf_frame f = true ->
  Forall (fun c => exists name, lookup_col f name = Some c) keycols ->
  rows_in_range (ix f) keycols = true.
Proof.
  intros W F. apply wf_frame_iff in W as [Hc Hi]. rewrite Forall_forall in Hc, Hi, F.
  unfold rows_in_range. apply orb_true_iff. right.
  apply forallb_forall. intros c Hin. apply forallb_forall. intros p Hp.
  destruct (F c Hin) as [name L]. destruct (lookup_col_in _ _ _ L) as [n Hn].
  destruct (Hc _ Hn) as [Hl _]. cbn [snd] in Hl. specialize (Hi p Hp). apply Nat.ltb_lt. lia.
Qed.

(* ================================================================== 5. the result of Sort, physically *)

(* Sort never fails on a frame without error whose orders are known — for every well-formed frame, every
   row index (repeats allowed) and every Reverse / NullLast *)
Theorem frame_sort_ok f orders keys :
  wf_frame f = true -> ferr f = false -> frame_keys f orders = Some keys ->
  exists g, sort_frame f orders = Ok g /\
    cols g = cols f /\ ferr g = false /\ Permutation (ix g) (ix f) /\ wf_frame g = true /\
    forall i j a b, i < j -> nth_error (ix g) i = Some a -> nth_error (ix g) j = Some b ->
                    spec_lt keys b a = false.
Proof.
  intros W E K. unfold sort_frame. rewrite E.
  destruct orders as [|o orders].
  - cbn in K. inversion K; subst keys. exists f. repeat split; auto.
  - destruct (frame_keys_some_comparables _ _ _ K) as (cs & -> & EL & FC).
    rewrite (wf_rows_in_range f _ W FC).
    assert (S : strict_weak_order (less_keys (map snd cs))) by (apply (swo_ext _ _ EL), model_lt_swo).
    destruct (sort_ids_correct _ S (ix f)) as (out & -> & P & NI). cbn [obind].
    exists (with_ix f out). cbn [with_ix cols ferr ix]. repeat split; auto.
    + (* well-formedness: same columns, the index holds the same row ids *)
      unfold wf_frame in *. apply andb_true_iff in W as [Wc Wi]. apply andb_true_iff. split; [exact Wc|].
      rewrite forallb_forall in *. intros p Hp. apply Wi. eapply Permutation_in; [exact P|exact Hp].
    + intros i j a b Hij Ha Hb. rewrite <- model_lt_spec, <- EL. exact (NI i j a b Hij Ha Hb).
Qed.

(* ================================================================== 6. the result of Sort, as a table *)

Lemma omap_nth {A B} (g : A -> outcome B) : forall l r i a,
  omap g l = Ok r -> nth_error l i = Some a -> exists b, g a = Ok b /\ nth_error r i = Some b.
Proof.
  induction l as [|x l IH]; intros r i a H Hn; [destruct i; discriminate|].
  apply omap_cons_inv in H as (y & ys & Hy & Hys & ->).
  destruct i as [|i]; cbn in Hn.
  - inversion Hn; subst. exists y. split; [exact Hy|reflexivity].
  - destruct (IH ys i a Hys Hn) as (b & Hb & Hr). exists b. split; [exact Hb|exact Hr].
Qed.

Lemma omap_perm {A B} (g : A -> outcome B) (l l' : list A) :
  Permutation l l' -> forall r, omap g l = Ok r -> exists r', omap g l' = Ok r' /\ Permutation r r'.
Proof.
  induction 1 as [|x l l' P IH|x y l|l l' l'' P1 IH1 P2 IH2]; intros r H.
  - exists r. split; [exact H|]. cbn in H. inversion H. constructor.
  - apply omap_cons_inv in H as (b & bs & Hb & Hbs & ->).
    destruct (IH bs Hbs) as (bs' & E & P'). exists (b :: bs'). split; [apply omap_cons_ok; assumption|].
    constructor. exact P'.
  - apply omap_cons_inv in H as (b & bs & Hb & Hbs & ->).
    apply omap_cons_inv in Hbs as (c & cs & Hc & Hcs & ->).
    exists (c :: b :: cs). split; [repeat apply omap_cons_ok; assumption|]. constructor.
  - destruct (IH1 r H) as (r1 & E1 & Q1). destruct (IH2 r1 E1) as (r2 & E2 & Q2).
    exists r2. split; [exact E2|]. eapply Permutation_trans; eassumption.
Qed.

Lemma row_at_cols f g p : cols g = cols f -> row_at g p = row_at f p.
Proof. unfold row_at. intros ->. reflexivity. Qed.

Lemma omap_ext' {A B} (g h : A -> outcome B) (l : list A) :
  (forall a, g a = h a) -> omap g l = omap h l.
Proof. intro E. induction l as [|x l IH]; cbn; [reflexivity|]. rewrite E, IH. reflexivity. Qed.

(* the table of the result: same names and types; row i is the receiver's physical row at the i-th row id
   of the new index, whole; the rows are the receiver's rows rearranged *)
Theorem frame_sort_table f orders keys :
  wf_frame f = true -> ferr f = false -> frame_keys f orders = Some keys ->
  exists g t t', sort_frame f orders = Ok g /\ abs f = Ok t /\ abs g = Ok t' /\
    tnames t' = tnames t /\ ttypes t' = ttypes t /\
    Permutation (trows t') (trows t) /\
    (forall i a, nth_error (ix g) i = Some a ->
       exists row, row_at f a = Ok row /\ nth_error (trows t') i = Some row) /\
    forall i j a b, i < j -> nth_error (ix g) i = Some a -> nth_error (ix g) j = Some b ->
                    spec_lt keys b a = false.
Proof.
  intros W E K. destruct (frame_sort_ok f orders keys W E K) as (g & S & Hc & He & P & Wg & NI).
  destruct (abs_total f W) as [t Ht]. destruct (abs_total g Wg) as [t' Ht'].
  exists g, t, t'. split; [exact S|]. split; [exact Ht|]. split; [exact Ht'|].
  destruct (abs_rows f t Ht) as (Rt & Nt & Tt). destruct (abs_rows g t' Ht') as (Rt' & Nt' & Tt').
  assert (Rg : omap (row_at f) (ix g) = Ok (trows t')).
  { rewrite <- Rt'. apply omap_ext'. intro p. symmetry. apply row_at_cols. exact Hc. }
  split; [rewrite Nt, Nt'; unfold col_names; rewrite Hc; reflexivity|].
  split; [rewrite Tt, Tt', Hc; reflexivity|].
  split.
  - destruct (omap_perm (row_at f) (ix g) (ix f) P _ Rg) as (r' & E' & P').
    rewrite Rt in E'. inversion E'; subst r'. exact P'.
  - split; [|exact NI]. intros i a Ha. exact (omap_nth (row_at f) (ix g) (trows t') i a Rg Ha).
Qed.

(* the multiset of rows is unchanged *)
Corollary frame_sort_rows f orders keys g t t' :
  wf_frame f = true -> ferr f = false -> frame_keys f orders = Some keys ->
  sort_frame f orders = Ok g -> abs f = Ok t -> abs g = Ok t' ->
  Permutation (trows t') (trows t) /\ tnames t' = tnames t /\ ttypes t' = ttypes t.
Proof.
  intros W E K S Ht Ht'.
  destruct (frame_sort_table f orders keys W E K) as (g0 & t0 & t0' & S0 & A0 & A0' & Hn & Hty & P & _).
  rewrite S in S0. inversion S0; subst g0. rewrite Ht in A0. inversion A0; subst t0.
  rewrite Ht' in A0'. inversion A0'; subst t0'. auto.
Qed.

(* ================================================================== 7. errors, no orders, no panic *)

Theorem frame_sort_sticky f orders : ferr f = true -> sort_frame f orders = Ok f.
Proof. intro E. unfold sort_frame. rewrite E. reflexivity. Qed.

Theorem frame_sort_no_orders f : sort_frame f [] = Ok f.
Proof. unfold sort_frame. destruct (ferr f); reflexivity. Qed.

(* an order naming no column of the frame: Err, whatever the other orders, the index and the columns are *)
Theorem frame_sort_unknown f orders :
  ferr f = false -> orders_known f orders = false -> sort_frame f orders = Ok (with_err f).
Proof.
  intros E U. unfold sort_frame. rewrite E.
  destruct orders as [|o orders]; [discriminate|].
  apply frame_keys_unknown in U. rewrite (frame_keys_none_comparables _ _ U). reflexivity.
Qed.

(* Sort on a well-formed frame never panics and always returns a well-formed frame; the result carries an
   error exactly when the receiver did or an order names no column *)
Theorem frame_sort_no_panic f orders :
  wf_frame f = true ->
  exists g, sort_frame f orders = Ok g /\ wf_frame g = true /\
    ferr g = ferr f || negb (orders_known f orders).
Proof.
  intro W. destruct (ferr f) eqn:E.
  - exists f. split; [apply frame_sort_sticky; exact E|]. split; [exact W|]. rewrite E. reflexivity.
  - destruct (orders_known f orders) eqn:U.
    + destruct (proj1 (frame_keys_known f orders) U) as [keys K].
      destruct (frame_sort_ok f orders keys W E K) as (g & S & _ & He & _ & Wg & _).
      exists g. split; [exact S|]. split; [exact Wg|]. rewrite He. reflexivity.
    + exists (with_err f). split; [apply frame_sort_unknown; assumption|]. split; [exact W|reflexivity].
Qed.

(* ================================================================== 8. the order in terms of the cells *)

(* the sort cell a row holds in a column: the logical cell, except that an enum cell is its declared
   position (the stored rank) instead of the string found there *)
Inductive skey :=
| SKInt (z : Z) | SKFloat (b : N) | SKBool (b : bool) | SKStr (s : option bytes) | SKEnum (r : option N).

Definition skey_at (c : coldata) (p : nat) : outcome skey :=
  match c with
  | ICol d => do z <- idx d p; Ok (SKInt z)
  | FCol d => do b <- idx d p; Ok (SKFloat b)
  | BCol d => do b <- idx d p; Ok (SKBool b)
  | SCol d => do s <- idx d p; Ok (SKStr s)
  | ECol d _ _ => do r <- idx d p; Ok (SKEnum (enum_rank_key r))
  end.

Definition col_values (c : coldata) : list bytes := match c with ECol _ vs _ => vs | _ => [] end.

(* the logical cell of a sort cell: an enum position is looked up in the declared values *)
Definition skey_cell (values : list bytes) (k : skey) : outcome cell :=
  match k with
  | SKInt z => Ok (CInt z)
  | SKFloat b => Ok (CFloat b)
  | SKBool b => Ok (CBool b)
  | SKStr s => Ok (CStr s)
  | SKEnum None => Ok (CEnum None)
  | SKEnum (Some r) => do s <- idx values (N.to_nat r); Ok (CEnum (Some s))
  end.

Lemma cell_at_skey c p : cell_at c p = do k <- skey_at c p; skey_cell (col_values c) k.
Proof.
  destruct c as [d|d|d|d|d vs st]; cbn [cell_at skey_at col_values];
    destruct (idx d p) as [x| |]; cbn [obind skey_cell]; try reflexivity.
  unfold enum_string, enum_rank_key. destruct (enum_is_null x); [reflexivity|].
  cbn [skey_cell]. destruct (idx vs (N.to_nat x)); reflexivity.
Qed.

(* null / NaN, and the natural order of the type on two cells that are not null *)
Definition skey_null (k : skey) : bool :=
  match k with
  | SKFloat b => Frame.f_isnan b
  | SKStr None | SKEnum None => true
  | _ => false
  end.

Definition skey_vlt (a b : skey) : bool :=
  match a, b with
  | SKInt x, SKInt y => (x <? y)%Z                                  (* numeric *)
  | SKFloat x, SKFloat y => Frame.f_lt x y                           (* numeric: IEEE order, -0 = +0 *)
  | SKBool x, SKBool y => negb x && y                                (* false < true *)
  | SKStr (Some x), SKStr (Some y) => bytes_lt x y                   (* byte-wise *)
  | SKEnum (Some x), SKEnum (Some y) => (x <? y)%N                   (* declared value order *)
  | _, _ => false
  end.

(* one key of the statement on two cells: null smaller than every value (larger with NullLast), two nulls
   tie, Reverse inverts the complete order *)
Definition skey_base (nl : bool) (a b : skey) : bool :=
  match skey_null a, skey_null b with
  | true, true => false
  | true, false => negb nl
  | false, true => nl
  | false, false => skey_vlt a b
  end.
Definition skey_lt (rev nl : bool) (a b : skey) : bool :=
  if rev then skey_base nl b a else skey_base nl a b.

Lemma idx_nth {A} (l : list A) i x d : idx l i = Ok x -> nth i l d = x.
Proof.
  unfold idx. destruct (nth_error l i) as [y|] eqn:E; cbn; [|discriminate].
  intro H. inversion H; subst. apply nth_error_nth. exact E.
Qed.

Lemma key_spec_cells c rev nl p q x y :
  skey_at c p = Ok x -> skey_at c q = Ok y ->
  key_spec (col_key c, (rev, nl)) p q = skey_lt rev nl x y.
Proof.
  assert (B : forall p q x y, skey_at c p = Ok x -> skey_at c q = Ok y ->
            key_lt_base nl (key_isnull (col_key c)) (key_vlt (col_key c)) p q = skey_base nl x y).
  { clear. intros p q x y Hx Hy.
    destruct c as [d|d|d|d|d vs st]; cbn [skey_at] in Hx, Hy;
      destruct (idx d p) as [u| |] eqn:Eu; cbn [obind] in Hx; try discriminate;
      destruct (idx d q) as [v| |] eqn:Ev; cbn [obind] in Hy; try discriminate;
      inversion Hx; inversion Hy; subst x y;
      unfold key_lt_base, skey_base, col_key, key_isnull, key_vlt, nthd, skey_null, skey_vlt.
    - rewrite (idx_nth _ _ _ 0%Z Eu), (idx_nth _ _ _ 0%Z Ev). reflexivity.
    - rewrite (idx_nth _ _ _ 0%N Eu), (idx_nth _ _ _ 0%N Ev), <- !f_isnan_eq, <- f_lt_eq. reflexivity.
    - rewrite (idx_nth _ _ _ false Eu), (idx_nth _ _ _ false Ev). reflexivity.
    - rewrite (idx_nth _ _ _ None Eu), (idx_nth _ _ _ None Ev). destruct u, v; reflexivity.
    - rewrite !nth_enum_rank_key, (idx_nth _ _ _ c_nullValue Eu), (idx_nth _ _ _ c_nullValue Ev).
      destruct (enum_rank_key u), (enum_rank_key v); reflexivity. }
  intros Hx Hy. unfold key_spec, key_lt_spec, skey_lt. destruct rev; apply B; assumption.
Qed.

(* the lexicographic comparison of two rows of a frame under a list of orders, read off the cells *)
Fixpoint row_lt (f : frame) (orders : list order) (p q : nat) : outcome bool :=
  match orders with
  | [] => Ok false
  | o :: rest =>
      match lookup_col f (o_column o) with
      | None => Fail
      | Some c =>
          do x <- skey_at c p; do y <- skey_at c q; do r <- row_lt f rest p q;
          Ok (skey_lt (o_reverse o) (o_nulllast o) x y
              || (negb (skey_lt (o_reverse o) (o_nulllast o) y x) && r))
      end
  end.

Lemma idx_in_range {A} (l : list A) i : i < length l -> exists x, idx l i = Ok x.
Proof.
  intro H. unfold idx. destruct (nth_error l i) as [x|] eqn:E; [exists x; reflexivity|].
  apply nth_error_None in E. lia.
Qed.

Lemma skey_at_total c p : p < col_len c -> exists x, skey_at c p = Ok x.
Proof.
  intro H. destruct c as [d|d|d|d|d vs st]; cbn [skey_at col_len] in *;
    destruct (idx_in_range d p H) as [x ->]; cbn [obind]; eexists; reflexivity.
Qed.

Theorem frame_row_lt f : forall orders keys p q,
  wf_frame f = true -> p < phys_len f -> q < phys_len f ->
  frame_keys f orders = Some keys -> row_lt f orders p q = Ok (spec_lt keys p q).
Proof.
  induction orders as [|o orders IH]; intros keys p q W Hp Hq K; cbn [frame_keys] in K.
  - inversion K; subst. reflexivity.
  - cbn [row_lt]. destruct (lookup_col f (o_column o)) as [c|] eqn:L; [|discriminate].
    destruct (frame_keys f orders) as [ks|] eqn:K'; [|discriminate]. inversion K; subst keys.
    destruct (lookup_col_in _ _ _ L) as [n Hn].
    pose proof W as W'. apply wf_frame_iff in W' as [Hc _]. rewrite Forall_forall in Hc.
    destruct (Hc _ Hn) as [Hl _]. cbn [snd] in Hl.
    destruct (skey_at_total c p ltac:(lia)) as [x Hx]. destruct (skey_at_total c q ltac:(lia)) as [y Hy].
    rewrite Hx, Hy, (IH ks p q W Hp Hq eq_refl). cbn [obind].
    unfold spec_lt. cbn [map lex_lt_spec].
    rewrite (key_spec_cells c _ _ p q x y Hx Hy), (key_spec_cells c _ _ q p y x Hy Hx). reflexivity.
Qed.

(* Sort in terms of the cells: no row of the result is followed, at any distance, by a row that is smaller
   under the lexicographic comparison of the sort cells *)
Theorem frame_sort_cells f orders :
  wf_frame f = true -> ferr f = false -> orders_known f orders = true ->
  exists g, sort_frame f orders = Ok g /\ cols g = cols f /\ ferr g = false /\
    Permutation (ix g) (ix f) /\
    forall i j a b, i < j -> nth_error (ix g) i = Some a -> nth_error (ix g) j = Some b ->
                    row_lt f orders b a = Ok false.
Proof.
  intros W E U. destruct (proj1 (frame_keys_known f orders) U) as [keys K].
  destruct (frame_sort_ok f orders keys W E K) as (g & S & Hc & He & P & Wg & NI).
  exists g. repeat split; auto. intros i j a b Hij Ha Hb.
  pose proof W as W'. apply wf_frame_iff in W' as [_ Hi]. rewrite Forall_forall in Hi.
  assert (La : a < phys_len f) by (apply Hi; eapply Permutation_in; [exact P|eapply nth_error_In; exact Ha]).
  assert (Lb : b < phys_len f) by (apply Hi; eapply Permutation_in; [exact P|eapply nth_error_In; exact Hb]).
  rewrite (frame_row_lt f orders keys b a W Lb La K), (NI i j a b Hij Ha Hb). reflexivity.
Qed.

(* ================================================================== 9. everything at once *)

(* the statement of C03 for QFrame.Sort on the physical model: all rows, each exactly once and whole, the
   columns untouched, consecutive (indeed: any two) rows never decreasing under the lexicographic comparison
   of the sort cells *)
Theorem frame_sort_full f orders :
  wf_frame f = true -> ferr f = false -> orders_known f orders = true ->
  exists g t t', sort_frame f orders = Ok g /\
    cols g = cols f /\ ferr g = false /\ Permutation (ix g) (ix f) /\
    abs f = Ok t /\ abs g = Ok t' /\ tnames t' = tnames t /\ ttypes t' = ttypes t /\
    Permutation (trows t') (trows t) /\
    (forall i a, nth_error (ix g) i = Some a ->
       exists row, row_at f a = Ok row /\ nth_error (trows t') i = Some row) /\
    (forall i j a b, i < j -> nth_error (ix g) i = Some a -> nth_error (ix g) j = Some b ->
       row_lt f orders b a = Ok false).
Proof.
  intros W E U. destruct (proj1 (frame_keys_known f orders) U) as [keys K].
  destruct (frame_sort_table f orders keys W E K) as (g & t & t' & S & Ht & Ht' & Hn & Hty & P & Hrow & _).
  destruct (frame_sort_cells f orders W E U) as (g' & S' & Hc & He & Pi & NI).
  rewrite S in S'. inversion S'; subst g'.
  exists g, t, t'. repeat (split; [assumption|]). exact NI.
Qed.

(* ================================================================== 10. the oracle of the engine *)

Lemma list_eqb_refl' {A} (e : A -> A -> bool) : (forall x, e x x = true) -> forall l, list_eqb e l l = true.
Proof. intros R l. induction l as [|x l IH]; cbn; [reflexivity|]. rewrite R, IH. reflexivity. Qed.

Lemma opt_bytes_eqb_refl' s : opt_bytes_eqb s s = true.
Proof. destruct s; cbn; [apply bytes_eqb_refl|reflexivity]. Qed.

Lemma cell_obs_eqb_refl' c : cell_obs_eqb c c = true.
Proof.
  destruct c; cbn; try apply opt_bytes_eqb_refl'.
  - apply Z.eqb_refl.
  - rewrite N.eqb_refl. reflexivity.
  - destruct b; reflexivity.
Qed.

Lemma col_obs_eqb_refl c : col_obs_eqb c c = true.
Proof.
  destruct c as [d|d|d|d|d vs st]; cbn.
  - apply list_eqb_refl', Z.eqb_refl.
  - apply list_eqb_refl'. intro x. rewrite N.eqb_refl. reflexivity.
  - apply list_eqb_refl'. intros []; reflexivity.
  - apply list_eqb_refl', opt_bytes_eqb_refl'.
  - rewrite (list_eqb_refl' N.eqb N.eqb_refl), (list_eqb_refl' bytes_eqb bytes_eqb_refl).
    destruct st; reflexivity.
Qed.

Lemma cols_obs_eqb_refl cs : cols_obs_eqb cs cs = true.
Proof. apply list_eqb_refl'. intros [n c]. cbn. rewrite bytes_eqb_refl, col_obs_eqb_refl. reflexivity. Qed.

(* what a result accepted by the oracle (no code 2) satisfies *)
Theorem sort_frame_oracle_sound f orders keys out :
  ferr f = false -> frame_keys f orders = Some keys -> sort_frame_oracle f orders out = true ->
  ferr out = false /\ cols_obs_eqb (cols f) (cols out) = true /\
  Permutation (ix out) (ix f) /\
  (forall i j a b, i < j -> nth_error (ix out) i = Some a -> nth_error (ix out) j = Some b ->
     spec_lt keys b a = false) /\
  rows_whole_b f out = true.
Proof.
  intros E K H. unfold sort_frame_oracle in H. rewrite E, K in H.
  repeat (apply andb_true_iff in H as [H ?]).
  apply sorted_perm_b_correct' in H1 as [P A].
  split; [destruct (ferr out); [discriminate|reflexivity]|]. split; [assumption|]. split; [exact P|].
  split; [|assumption]. apply no_adjacent_inversion_all; [apply spec_lt_swo|exact A].
Qed.

Theorem sort_frame_oracle_sound_err f orders out :
  (ferr f = true \/ orders_known f orders = false) -> sort_frame_oracle f orders out = true -> ferr out = true.
Proof.
  intros [E|U] H; unfold sort_frame_oracle in H.
  - rewrite E in H. exact H.
  - apply frame_keys_unknown in U. rewrite U in H. destruct (ferr f); exact H.
Qed.

(* the oracle accepts the model's own result: a result that passes the exact comparison (no code 1) is never
   rejected by the oracle (code 2) *)
Theorem sort_frame_oracle_accepts_model f orders g :
  wf_frame f = true -> sort_frame f orders = Ok g -> sort_frame_oracle f orders g = true.
Proof.
  intros W HS. unfold sort_frame_oracle. destruct (ferr f) eqn:E.
  - rewrite (frame_sort_sticky f orders E) in HS. inversion HS; subst. exact E.
  - destruct (frame_keys f orders) as [keys|] eqn:K.
    + destruct (frame_sort_ok f orders keys W E K) as (g' & S' & Hc & He & P & Wg & NI).
      rewrite HS in S'. inversion S'; subst g'. rewrite He, Hc, cols_obs_eqb_refl. cbn [negb andb].
      apply andb_true_iff. split.
      * apply sorted_perm_b_correct'. split; [exact P|].
        intros i a b Ha Hb. exact (NI i (S i) a b (Nat.lt_succ_diag_r i) Ha Hb).
      * unfold rows_whole_b. destruct (abs_total g Wg) as [t Ht]. destruct (abs_rows g t Ht) as (R & _).
        rewrite R. rewrite <- (omap_ext' (row_at g) (row_at f) (ix g) (fun p => row_at_cols f g p Hc)), R.
        apply list_eqb_refl', list_eqb_refl', cell_obs_eqb_refl'.
    + apply frame_keys_unknown in K. rewrite (frame_sort_unknown f orders E K) in HS.
      inversion HS; subst. reflexivity.
Qed.

(* ================================================================== 11. the order on the logical cells *)

(* the order of one key on two logical cells (what the typed views show).  The declared position of an enum
   string is its first occurrence in the declared values (EnumOrderProofs.index_of, property C17). *)
Definition cell_null (c : cell) : bool :=
  match c with
  | CFloat b => Frame.f_isnan b
  | CStr None | CEnum None => true
  | _ => false
  end.

Definition cell_vlt (values : list bytes) (a b : cell) : bool :=
  match a, b with
  | CInt x, CInt y => (x <? y)%Z
  | CFloat x, CFloat y => Frame.f_lt x y
  | CBool x, CBool y => negb x && y
  | CStr (Some x), CStr (Some y) => bytes_lt x y
  | CEnum (Some x), CEnum (Some y) =>
      match EnumOrderProofs.index_of x values, EnumOrderProofs.index_of y values with
      | Some i, Some j => i <? j
      | _, _ => false
      end
  | _, _ => false
  end.

Definition cell_base (values : list bytes) (nl : bool) (a b : cell) : bool :=
  match cell_null a, cell_null b with
  | true, true => false
  | true, false => negb nl
  | false, true => nl
  | false, false => cell_vlt values a b
  end.
Definition cell_lt (values : list bytes) (rev nl : bool) (a b : cell) : bool :=
  if rev then cell_base values nl b a else cell_base values nl a b.

(* a sort cell and the logical cell it shows as: same null-ness *)
Lemma skey_cell_null values k c : skey_cell values k = Ok c -> cell_null c = skey_null k.
Proof.
  destruct k as [z|b|b|s|[r|]]; cbn [skey_cell]; try (intro H; inversion H; subst; reflexivity).
  destruct (idx values (N.to_nat r)); cbn [obind]; intro H; inversion H; reflexivity.
Qed.

Lemma idx_nth_error {A} (l : list A) i x : idx l i = Ok x -> nth_error l i = Some x.
Proof. unfold idx. destruct (nth_error l i); cbn; intro H; inversion H; reflexivity. Qed.

Lemma skey_cell_vlt values x y a b :
  NoDup values -> skey_cell values x = Ok a -> skey_cell values y = Ok b ->
  cell_vlt values a b = skey_vlt x y.
Proof.
  intros ND Ha Hb.
  destruct x as [x|x|x|[x|]|[x|]], y as [y|y|y|[y|]|[y|]]; cbn [skey_cell] in Ha, Hb;
    try (destruct (idx values (N.to_nat x)) as [sx| |] eqn:Ex; cbn [obind] in Ha; try discriminate);
    try (destruct (idx values (N.to_nat y)) as [sy| |] eqn:Ey; cbn [obind] in Hb; try discriminate);
    inversion Ha; inversion Hb; subst; try reflexivity.
  cbn [cell_vlt skey_vlt].
  rewrite (proj2 (EnumOrderProofs.index_of_spec values sx (N.to_nat x) ND) (idx_nth_error _ _ _ Ex)).
  rewrite (proj2 (EnumOrderProofs.index_of_spec values sy (N.to_nat y) ND) (idx_nth_error _ _ _ Ey)).
  destruct (N.ltb_spec x y), (Nat.ltb_spec (N.to_nat x) (N.to_nat y)); try reflexivity; lia.
Qed.

(* with duplicate-free declared values the order on the sort cells is the order on the logical cells *)
Theorem skey_lt_cells values rev nl x y a b :
  NoDup values -> skey_cell values x = Ok a -> skey_cell values y = Ok b ->
  skey_lt rev nl x y = cell_lt values rev nl a b.
Proof.
  intros ND Ha Hb. unfold skey_lt, cell_lt, skey_base, cell_base.
  rewrite (skey_cell_null _ _ _ Ha), (skey_cell_null _ _ _ Hb),
    (skey_cell_vlt values x y a b ND Ha Hb), (skey_cell_vlt values y x b a ND Hb Ha).
  reflexivity.
Qed.

(* the declared values of every enum column of the frame are duplicate-free (what the enum factory builds:
   EnumOrderProofs.enum_new_ok_nodup) *)
Definition enum_values_nodup (f : frame) : Prop :=
  forall n c, In (n, c) (cols f) -> NoDup (col_values c).

(* the lexicographic comparison of two LOGICAL rows of the frame's table: the cell of an order column is
   found at the position the by-name map gives *)
Fixpoint trow_lt (f : frame) (orders : list order) (r1 r2 : list cell) : option bool :=
  match orders with
  | [] => Some false
  | o :: rest =>
      match lookup f (o_column o) with
      | None => None
      | Some (k, c) =>
          match nth_error r1 k, nth_error r2 k, trow_lt f rest r1 r2 with
          | Some a, Some b, Some r =>
              Some (cell_lt (col_values c) (o_reverse o) (o_nulllast o) a b
                    || (negb (cell_lt (col_values c) (o_reverse o) (o_nulllast o) b a) && r))
          | _, _, _ => None
          end
      end
  end.

Lemma row_at_cell f p row name k c :
  row_at f p = Ok row -> lookup f name = Some (k, c) ->
  exists a, cell_at c p = Ok a /\ nth_error row k = Some a.
Proof.
  intros R L. apply lookup_some_nth in L. unfold row_at in R.
  destruct (omap_nth _ _ _ _ _ R L) as (a & Ha & Hn). exists a. split; [exact Ha|exact Hn].
Qed.

Theorem trow_lt_row_lt f : forall orders p q r1 r2 v,
  enum_values_nodup f -> row_at f p = Ok r1 -> row_at f q = Ok r2 ->
  row_lt f orders p q = Ok v -> trow_lt f orders r1 r2 = Some v.
Proof.
  induction orders as [|o orders IH]; intros p q r1 r2 v ND R1 R2 H; cbn [row_lt trow_lt] in *.
  - inversion H; reflexivity.
  - unfold lookup_col in H. destruct (lookup f (o_column o)) as [[k c]|] eqn:L; cbn [option_map snd] in H; [|discriminate].
    destruct (skey_at c p) as [x| |] eqn:Hx; cbn [obind] in H; try discriminate.
    destruct (skey_at c q) as [y| |] eqn:Hy; cbn [obind] in H; try discriminate.
    destruct (row_lt f orders p q) as [r| |] eqn:Hr; cbn [obind] in H; try discriminate.
    inversion H; subst v. clear H.
    destruct (row_at_cell f p r1 _ k c R1 L) as (a & Ca & Na).
    destruct (row_at_cell f q r2 _ k c R2 L) as (b & Cb & Nb).
    rewrite Na, Nb, (IH p q r1 r2 r ND R1 R2 Hr).
    rewrite cell_at_skey, Hx in Ca. rewrite cell_at_skey, Hy in Cb. cbn [obind] in Ca, Cb.
    assert (NDc : NoDup (col_values c)).
    { apply lookup_some_nth in L. apply (ND (o_column o) c). eapply nth_error_In; exact L. }
    rewrite (skey_lt_cells _ _ _ x y a b NDc Ca Cb), (skey_lt_cells _ _ _ y x b a NDc Cb Ca). reflexivity.
Qed.

(* the ordering clause on the result table alone: no logical row of the result is followed, at any distance,
   by a logical row that is smaller *)
Theorem frame_sort_logical f orders :
  wf_frame f = true -> ferr f = false -> orders_known f orders = true -> enum_values_nodup f ->
  exists g t t', sort_frame f orders = Ok g /\ abs f = Ok t /\ abs g = Ok t' /\
    tnames t' = tnames t /\ ttypes t' = ttypes t /\ Permutation (trows t') (trows t) /\
    forall i j ri rj, i < j -> nth_error (trows t') i = Some ri -> nth_error (trows t') j = Some rj ->
                      trow_lt f orders rj ri = Some false.
Proof.
  intros W E U ND.
  destruct (frame_sort_full f orders W E U) as (g & t & t' & S & Hc & He & P & Ht & Ht' & Hn & Hty & Pr & Hrow & NI).
  exists g, t, t'. repeat (split; [assumption|]).
  intros i j ri rj Hij Hi Hj.
  pose proof (abs_length g t' Ht') as Len.
  assert (Li : i < length (ix g)) by (rewrite <- Len; apply nth_error_Some; congruence).
  assert (Lj : j < length (ix g)) by (rewrite <- Len; apply nth_error_Some; congruence).
  destruct (nth_error (ix g) i) as [a|] eqn:Ea; [|apply nth_error_None in Ea; lia].
  destruct (nth_error (ix g) j) as [b|] eqn:Eb; [|apply nth_error_None in Eb; lia].
  destruct (Hrow i a Ea) as (ra & Ra & Na). destruct (Hrow j b Eb) as (rb & Rb & Nb).
  rewrite Hi in Na. rewrite Hj in Nb. inversion Na; inversion Nb; subst ra rb.
  exact (trow_lt_row_lt f orders b a rj ri false ND Rb Ra (NI i j a b Hij Ea Eb)).
Qed.
