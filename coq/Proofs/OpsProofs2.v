(* Proofs/OpsProofs2.v — property C06 continued: Apply with two-argument functions, constants, func() streams
   and column copies; every instruction kind against the table-level specification (Model/TableSpec.v);
   instruction lists by induction; FilteredApply.  Also Drop (C08). *)
From QF Require Import Base.Prelude Gen.GenConsts Model.Frame Model.Filter Model.Ops Model.TableSpec Proofs.OpsProofs.
Local Open Scope nat_scope.

(* ------------------------------------------------------------------ omap *)

Lemma omap_cons_inv {A B} (g : A -> outcome B) x l r :
  omap g (x :: l) = Ok r -> exists y ys, g x = Ok y /\ omap g l = Ok ys /\ r = y :: ys.
Proof.
  simpl. destruct (g x) as [y| |]; simpl; try discriminate.
  destruct (omap g l) as [ys| |]; simpl; try discriminate.
  intro H. inversion H. exists y, ys. auto.
Qed.

Lemma omap_cons_ok {A B} (g : A -> outcome B) x l y ys :
  g x = Ok y -> omap g l = Ok ys -> omap g (x :: l) = Ok (y :: ys).
Proof. intros H1 H2. simpl. rewrite H1, H2. reflexivity. Qed.

Lemma omap_nth {A B} (g : A -> outcome B) : forall l r k a,
  omap g l = Ok r -> nth_error l k = Some a -> exists b, g a = Ok b /\ nth_error r k = Some b.
Proof.
  induction l as [|x l IH]; intros r k a H Hk; [destruct k; discriminate|].
  apply omap_cons_inv in H as [y [ys [Hy [Hys ->]]]].
  destruct k as [|k]; simpl in Hk.
  - inversion Hk; subst. exists y. auto.
  - apply (IH ys k a Hys Hk).
Qed.

Lemma omap_compose {A B C} (g : A -> outcome B) (h : B -> outcome C) : forall l ys,
  omap g l = Ok ys -> omap (fun a => do x <- g a; h x) l = omap h ys.
Proof.
  induction l as [|x l IH]; intros ys H.
  - inversion H. reflexivity.
  - apply omap_cons_inv in H as [y [ys' [Hy [Hys ->]]]]. simpl. rewrite Hy. simpl.
    rewrite (IH ys' Hys). reflexivity.
Qed.

Lemma omap_app {A B} (g : A -> outcome B) : forall l1 l2 r1 r2,
  omap g l1 = Ok r1 -> omap g l2 = Ok r2 -> omap g (l1 ++ l2) = Ok (r1 ++ r2).
Proof.
  induction l1 as [|x l1 IH]; intros l2 r1 r2 H1 H2.
  - inversion H1. exact H2.
  - apply omap_cons_inv in H1 as [y [ys [Hy [Hys ->]]]]. simpl. rewrite Hy. simpl.
    rewrite (IH l2 ys r2 Hys H2). reflexivity.
Qed.

Lemma omap_set_nth {A B} (g : A -> outcome B) : forall l ys k v y,
  omap g l = Ok ys -> g v = Ok y -> omap g (set_nth l k v) = Ok (set_nth ys k y).
Proof.
  induction l as [|x l IH]; intros ys k v y H Hv.
  - inversion H. destruct k; reflexivity.
  - apply omap_cons_inv in H as [y0 [ys' [Hy [Hys ->]]]].
    destruct k as [|k]; simpl.
    + rewrite Hv, Hys. reflexivity.
    + rewrite Hy. simpl. rewrite (IH ys' k v y Hys Hv). reflexivity.
Qed.

Lemma omap_Forall {A B} (g : A -> outcome B) (P : B -> Prop) : forall l r,
  omap g l = Ok r -> (forall a b, In a l -> g a = Ok b -> P b) -> Forall P r.
Proof.
  induction l as [|x l IH]; intros r H HP.
  - inversion H. constructor.
  - apply omap_cons_inv in H as [y [ys [Hy [Hys ->]]]]. constructor.
    + apply (HP x y); [left; reflexivity|exact Hy].
    + apply IH; [exact Hys|]. intros a b Ha. apply HP. right. exact Ha.
Qed.

Lemma omap_total {A B} (g : A -> outcome B) : forall l,
  (forall a, In a l -> exists b, g a = Ok b) -> exists r, omap g l = Ok r.
Proof.
  induction l as [|x l IH]; intro H; [exists []; reflexivity|].
  destruct (H x (or_introl eq_refl)) as [y Hy].
  destruct IH as [ys Hys]; [intros a Ha; apply H; right; exact Ha|].
  exists (y :: ys). apply omap_cons_ok; assumption.
Qed.

Lemma omap_map {A B C} (g : B -> outcome C) (h : A -> B) : forall l,
  omap g (map h l) = omap (fun a => g (h a)) l.
Proof. induction l as [|x l IH]; simpl; [reflexivity|]. rewrite IH. reflexivity. Qed.

Lemma omap_const_ok {A B} (y : B) (g : A -> outcome B) : forall l,
  (forall a, In a l -> g a = Ok y) -> omap g l = Ok (map (fun _ => y) l).
Proof.
  induction l as [|x l IH]; intro H; [reflexivity|].
  apply omap_cons_ok; [apply H; left; reflexivity|apply IH; intros a Ha; apply H; right; exact Ha].
Qed.

Lemma omap_filter {A B} (g : A -> outcome B) (P : A -> bool) : forall l r,
  omap g l = Ok r -> exists r', omap g (filter P l) = Ok r'.
Proof.
  induction l as [|x l IH]; intros r H; [exists []; reflexivity|].
  apply omap_cons_inv in H as [y [ys [Hy [Hys ->]]]].
  destruct (IH ys Hys) as [r' Hr']. simpl. destruct (P x).
  - exists (y :: r'). apply omap_cons_ok; assumption.
  - exists r'. exact Hr'.
Qed.

(* ------------------------------------------------------------------ well-formed frames *)

Definition col_ok (n : nat) (c : coldata) : Prop := col_len c = n /\ col_wf c = true.

(* the invariant every frame of the engine satisfies: wf_frame (Model/Frame.v) and a duplicate-free index *)
Definition fr_ok (f : frame) : Prop := wf_frame f = true /\ NoDup (ix f).

Lemma wf_frame_iff f :
  wf_frame f = true <->
  Forall (fun nc => col_ok (phys_len f) (snd nc)) (cols f) /\ Forall (fun p => p < phys_len f) (ix f).
Proof.
  unfold wf_frame. rewrite andb_true_iff, !forallb_forall, !Forall_forall. unfold col_ok.
  split; intros [H1 H2]; split.
  - intros nc Hnc. specialize (H1 nc Hnc). apply andb_true_iff in H1 as [Ha Hb].
    apply Nat.eqb_eq in Ha. auto.
  - intros p Hp. specialize (H2 p Hp). apply Nat.ltb_lt in H2. exact H2.
  - intros nc Hnc. destruct (H1 nc Hnc) as [Ha Hb]. apply andb_true_iff. split; [apply Nat.eqb_eq; exact Ha|exact Hb].
  - intros p Hp. apply Nat.ltb_lt. apply H2. exact Hp.
Qed.

Lemma cell_at_total c p : col_wf c = true -> p < col_len c -> exists x, cell_at c p = Ok x.
Proof.
  intros Hwf Hp. destruct c as [d|d|d|d|d vs st]; simpl in *; unfold idx;
    destruct (nth_error d p) as [z|] eqn:E; try (apply nth_error_None in E; lia); simpl;
    try (eexists; reflexivity).
  apply andb_true_iff in Hwf as [Hr _]. rewrite forallb_forall in Hr.
  specialize (Hr z (nth_error_In _ _ E)). unfold enum_rank_ok in Hr. unfold enum_string.
  destruct (enum_is_null z); [eexists; reflexivity|]. simpl in Hr. apply Nat.ltb_lt in Hr.
  unfold idx. destruct (nth_error vs (N.to_nat z)) as [s|] eqn:E2; [|apply nth_error_None in E2; lia].
  simpl. eexists; reflexivity.
Qed.

Lemma row_at_total f p : wf_frame f = true -> p < phys_len f -> exists row, row_at f p = Ok row.
Proof.
  intros Hwf Hp. apply wf_frame_iff in Hwf as [Hc _]. rewrite Forall_forall in Hc.
  unfold row_at. apply omap_total. intros nc Hnc. destruct (Hc nc Hnc) as [Hl Hw].
  apply cell_at_total; [exact Hw|lia].
Qed.

(* a well-formed frame denotes a table *)
Lemma abs_total f : wf_frame f = true -> exists t, abs f = Ok t.
Proof.
  intro Hwf. pose proof Hwf as Hwf'. apply wf_frame_iff in Hwf' as [_ Hi]. rewrite Forall_forall in Hi.
  destruct (omap_total (row_at f) (ix f)) as [rows Hrows].
  - intros p Hp. apply row_at_total; [exact Hwf|apply Hi; exact Hp].
  - unfold abs. rewrite Hrows. simpl. eexists; reflexivity.
Qed.

Lemma abs_length f t : abs f = Ok t -> length (trows t) = length (ix f).
Proof. intro H. destruct (abs_rows f t H) as [Hr _]. apply (omap_length _ _ _ Hr). Qed.

(* ------------------------------------------------------------------ names: tpos is the position lookup finds *)

Lemma last_pos_lookup name : forall cs pos acc,
  last_pos_from name (map fst cs) pos (option_map fst acc) = option_map fst (lookup_from name cs pos acc).
Proof.
  induction cs as [|[n c] cs IH]; intros pos acc; simpl; [reflexivity|].
  rewrite <- IH. destruct (bytes_eqb n name); reflexivity.
Qed.

Lemma tpos_lookup f t name : tnames t = col_names f -> tpos t name = option_map fst (lookup f name).
Proof. intro H. unfold tpos, lookup. rewrite H. unfold col_names. apply (last_pos_lookup name (cols f) 0 None). Qed.

(* a column of the table = the physical column read through the index *)
Lemma rows_column f k n c : nth_error (cols f) k = Some (n, c) ->
  forall ixs rows, omap (row_at f) ixs = Ok rows ->
  omap (cell_at c) ixs = Ok (map (fun row => nth k row (CInt 0)) rows).
Proof.
  intro Hk. induction ixs as [|p ixs IH]; intros rows H.
  - inversion H. reflexivity.
  - apply omap_cons_inv in H as [row [rows' [Hrow [Hrows ->]]]].
    unfold row_at in Hrow. destruct (omap_nth _ _ _ k (n, c) Hrow Hk) as [b [Hb Hnb]].
    simpl in Hb. simpl map. apply omap_cons_ok; [|apply IH; exact Hrows].
    rewrite Hb. f_equal. symmetry. apply nth_error_nth. exact Hnb.
Qed.

Lemma abs_tcolumn_some f t name k c : abs f = Ok t -> lookup f name = Some (k, c) ->
  exists cells, tcolumn t name = Some (col_type c, cells) /\ omap (cell_at c) (ix f) = Ok cells.
Proof.
  intros Ht Hl. destruct (abs_rows f t Ht) as [Hrows [Hn Hty]].
  pose proof (lookup_some_nth f name k c Hl) as Hk.
  exists (map (fun row => nth k row (CInt 0)) (trows t)). split.
  - unfold tcolumn. rewrite (tpos_lookup f t name Hn), Hl. simpl. f_equal. f_equal.
    rewrite Hty. apply nth_error_nth. rewrite nth_error_map, Hk. reflexivity.
  - apply (rows_column f k name c Hk). exact Hrows.
Qed.

Lemma abs_tcolumn_none f t name : abs f = Ok t -> lookup f name = None -> tcolumn t name = None.
Proof.
  intros Ht Hl. destruct (abs_rows f t Ht) as [_ [Hn _]].
  unfold tcolumn. rewrite (tpos_lookup f t name Hn), Hl. reflexivity.
Qed.

(* ------------------------------------------------------------------ setColumn on the table *)

Lemma map_fst_set_nth {A B} : forall (l : list (A * B)) k n v v0,
  nth_error l k = Some (n, v0) -> map fst (set_nth l k (n, v)) = map fst l.
Proof.
  induction l as [|[n1 v1] l IH]; intros [|k] n v v0 H; simpl in *; try discriminate.
  - inversion H; subst. reflexivity.
  - f_equal. apply (IH k n v v0 H).
Qed.

Lemma map_set_nth {A B} (g : A -> B) : forall (l : list A) k v, map g (set_nth l k v) = set_nth (map g l) k (g v).
Proof. induction l as [|x l IH]; intros [|k] v; simpl; try reflexivity. f_equal. apply IH. Qed.

Lemma rows_set_nth cs i e i' e' name r pos : forall ixs rows cells,
  omap (row_at (mkFrame cs i e)) ixs = Ok rows -> omap (cell_at r) ixs = Ok cells ->
  omap (row_at (mkFrame (set_nth cs pos (name, r)) i' e')) ixs
  = Ok (map (fun rc => set_nth (fst rc) pos (snd rc)) (combine rows cells)).
Proof.
  induction ixs as [|p ixs IH]; intros rows cells H1 H2.
  - inversion H1. reflexivity.
  - apply omap_cons_inv in H1 as [row [rows' [Hrow [Hrows ->]]]].
    apply omap_cons_inv in H2 as [x [cells' [Hx [Hcells ->]]]].
    simpl combine. simpl map. apply omap_cons_ok; [|apply IH; assumption].
    unfold row_at in *. cbn [cols] in *. apply (omap_set_nth _ cs row pos (name, r) x Hrow). exact Hx.
Qed.

Lemma rows_app cs i e i' e' name r : forall ixs rows cells,
  omap (row_at (mkFrame cs i e)) ixs = Ok rows -> omap (cell_at r) ixs = Ok cells ->
  omap (row_at (mkFrame (cs ++ [(name, r)]) i' e')) ixs
  = Ok (map (fun rc => fst rc ++ [snd rc]) (combine rows cells)).
Proof.
  induction ixs as [|p ixs IH]; intros rows cells H1 H2.
  - inversion H1. reflexivity.
  - apply omap_cons_inv in H1 as [row [rows' [Hrow [Hrows ->]]]].
    apply omap_cons_inv in H2 as [x [cells' [Hx [Hcells ->]]]].
    simpl combine. simpl map. apply omap_cons_ok; [|apply IH; assumption].
    unfold row_at in *. cbn [cols] in *. apply omap_app; [exact Hrow|]. simpl. rewrite Hx. reflexivity.
Qed.

(* setColumn denotes tset_col: the table gets the cells of the new column read through the index *)
Theorem abs_set_column f t name r cells :
  abs f = Ok t -> check_name name = true -> omap (cell_at r) (ix f) = Ok cells ->
  abs (set_column f name r) = Ok (tset_col t name (col_type r) cells).
Proof.
  intros Ht Hn Hcells. destruct (abs_rows f t Ht) as [Hrows [Hnm Hty]].
  unfold set_column, tset_col. rewrite Hn. simpl negb. cbv iota.
  rewrite (tpos_lookup f t name Hnm).
  destruct (lookup f name) as [[pos c0]|] eqn:El; simpl option_map; cbv iota.
  - pose proof (lookup_some_nth f name pos c0 El) as Hk.
    unfold abs. cbn [ix cols].
    destruct f as [cs i e]. cbn [cols ix ferr] in *.
    rewrite (rows_set_nth cs i e i e name r pos i (trows t) cells Hrows Hcells). simpl.
    unfold col_names. cbn [cols]. rewrite (map_fst_set_nth cs pos name r c0 Hk).
    rewrite (map_set_nth (fun nc => col_type (snd nc))). simpl.
    rewrite Hnm, Hty. reflexivity.
  - unfold abs. cbn [ix cols].
    destruct f as [cs i e]. cbn [cols ix ferr] in *.
    rewrite (rows_app cs i e i e name r i (trows t) cells Hrows Hcells). simpl.
    unfold col_names. cbn [cols]. rewrite !map_app. simpl.
    rewrite Hnm, Hty. reflexivity.
Qed.

Lemma phys_len_set_nth cs k name r c0 n :
  nth_error cs k = Some (name, c0) -> col_len r = n ->
  phys_len (mkFrame cs [] false) = n -> forall i e, phys_len (mkFrame (set_nth cs k (name, r)) i e) = n.
Proof.
  intros Hk Hr Hp i e. unfold phys_len in *. cbn [cols] in *.
  destruct cs as [|[n0 c1] cs]; [destruct k; discriminate|].
  destruct k; simpl; [exact Hr|exact Hp].
Qed.

Lemma col_wf_nonenum r : col_type r <> TEnum -> col_wf r = true.
Proof. destruct r; simpl; try reflexivity. congruence. Qed.

Lemma phys_len_set_column f name r :
  check_name name = true -> col_len r = phys_len f -> phys_len (set_column f name r) = phys_len f.
Proof.
  intros Hn Hr. unfold set_column. rewrite Hn. simpl negb. cbv iota.
  destruct (lookup f name) as [[pos c0]|] eqn:El.
  - pose proof (lookup_some_nth f name pos c0 El) as Hk.
    apply (phys_len_set_nth (cols f) pos name r c0 (phys_len f) Hk); [exact Hr|reflexivity].
  - unfold phys_len. cbn [cols]. destruct (cols f) as [|[n0 c1] cs] eqn:Ec; simpl; [|reflexivity].
    rewrite Hr. unfold phys_len. rewrite Ec. reflexivity.
Qed.

(* setColumn keeps the frame well formed when the new column has the physical length of the frame *)
Lemma wf_set_column f name r :
  wf_frame f = true -> check_name name = true -> col_ok (phys_len f) r -> wf_frame (set_column f name r) = true.
Proof.
  intros Hwf Hn Hr. apply wf_frame_iff in Hwf as [Hc Hi]. apply wf_frame_iff.
  unfold set_column. rewrite Hn. simpl negb. cbv iota.
  destruct (lookup f name) as [[pos c0]|] eqn:El.
  - pose proof (lookup_some_nth f name pos c0 El) as Hk.
    assert (Hp : phys_len (mkFrame (set_nth (cols f) pos (name, r)) (ix f) (ferr f)) = phys_len f).
    { apply (phys_len_set_nth (cols f) pos name r c0 (phys_len f) Hk); [apply Hr|reflexivity]. }
    rewrite Hp. cbn [cols ix]. split; [|exact Hi]. apply set_nth_Forall; [exact Hc|exact Hr].
  - assert (Hp : phys_len (mkFrame (cols f ++ [(name, r)]) (ix f) (ferr f)) = phys_len f).
    { unfold phys_len. cbn [cols]. destruct (cols f) as [|[n0 c1] cs] eqn:Ec; simpl; [|reflexivity].
      destruct Hr as [Hr _]. rewrite Hr. unfold phys_len. rewrite Ec. reflexivity. }
    rewrite Hp. cbn [cols ix]. split; [|exact Hi]. apply Forall_app. split; [exact Hc|]. constructor; [exact Hr|constructor].
Qed.

Lemma lookup_col_ok f name c : wf_frame f = true -> lookup_col f name = Some c -> col_ok (phys_len f) c.
Proof.
  intros Hwf Hl. apply wf_frame_iff in Hwf as [Hc _]. rewrite Forall_forall in Hc.
  unfold lookup_col in Hl. destruct (lookup f name) as [[k c']|] eqn:El; [|discriminate]. inversion Hl; subst.
  apply lookup_some_nth in El. apply nth_error_In in El. apply (Hc _ El).
Qed.

(* ------------------------------------------------------------------ the result array of the generated Apply loops *)

Lemma scatter_firstn : forall index base vals,
  length index <= length vals -> scatter base index vals = scatter base index (firstn (length index) vals).
Proof.
  induction index as [|p index IH]; intros base vals H; [reflexivity|].
  destruct vals as [|v vals]; [simpl in H; lia|]. simpl.
  destruct (p <? length base); [|reflexivity]. apply IH. simpl in H. lia.
Qed.

Lemma Forall_firstn {A} (P : A -> Prop) : forall n l, Forall P l -> Forall P (firstn n l).
Proof.
  induction n as [|n IH]; intros l H; [constructor|]. destruct l as [|x l]; [constructor|].
  inversion H; subst. simpl. constructor; auto.
Qed.

(* make(n zero values); for k, p := range index { result[p] = k-th value }; typed column from the array *)
Lemma scatter_col t n index vals :
  t <> TEnum -> NoDup index -> Forall (fun p => p < n) index -> length index <= length vals ->
  Forall (fun y => cell_type_ok t y = true) vals ->
  exists arr r, scatter (repeat (zero_cell t) n) index vals = Ok arr /\ col_of_cells t arr = Ok r
    /\ col_type r = t /\ col_len r = n
    /\ omap (cell_at r) index = Ok (firstn (length index) vals)
    /\ (forall q, q < n -> ~ In q index -> cell_at r q = Ok (zero_cell t)).
Proof.
  intros Ht Hnd Hin Hlen Htyped.
  set (vals' := firstn (length index) vals).
  assert (Hlen' : length vals' = length index) by (unfold vals'; rewrite firstn_length; lia).
  assert (Htyped' : Forall (fun y => cell_type_ok t y = true) vals') by (apply Forall_firstn; exact Htyped).
  assert (Hbase : Forall (fun p => p < length (repeat (zero_cell t) n)) index) by (rewrite repeat_length; exact Hin).
  destruct (scatter_ok index (repeat (zero_cell t) n) vals' Hlen' Hbase) as [arr [Harr Hal]].
  assert (Harr_ok : Forall (fun y => cell_type_ok t y = true) arr).
  { eapply scatter_Forall; [| |exact Harr]; [apply repeat_Forall; apply zero_cell_ok; exact Ht|exact Htyped']. }
  destruct (col_of_cells_spec t arr Ht Harr_ok) as [r [Hr [Hrt [Hrl Hcell]]]].
  exists arr, r. split; [rewrite scatter_firstn by exact Hlen; exact Harr|].
  split; [exact Hr|]. split; [exact Hrt|]. split; [rewrite Hrl, Hal, repeat_length; reflexivity|].
  split.
  - erewrite (omap_ext_local _ _ index); [|intros p _; apply Hcell].
    apply omap_of_option_map_some. apply (scatter_read _ _ _ _ Hnd Hlen' Harr).
  - intros q Hq Hnotin. rewrite Hcell.
    rewrite (scatter_outside _ _ _ _ q Harr Hnotin).
    rewrite (nth_error_repeat (zero_cell t)) by exact Hq. reflexivity.
Qed.

Lemma ftype_of_col c : ftype_of (col_type c) = col_ftype c.
Proof. destruct c; reflexivity. Qed.

Lemma col_ftype_not_enum c t : ctype_eqb (col_ftype c) t = true -> t <> TEnum.
Proof. unfold col_ftype. destruct (col_type c), t; simpl; congruence. Qed.

Lemma ctype_eqb_eq a b : ctype_eqb a b = true <-> a = b.
Proof. destruct a, b; simpl; split; congruence. Qed.

(* ------------------------------------------------------------------ Apply with a two argument function *)

(* Apply with func(T, T) T: the destination column holds fn(src1[r], src2[r]) for every row r of the frame (read
   through the index, whatever it is), the zero value at every physical position outside the index and has the
   function's type; index and Err are untouched (C06_set_column says where the column goes). *)
Theorem apply2_spec f t tbl dst src1 src2 c1 c2 vals :
  ferr f = false -> lookup_col f src1 = Some c1 -> lookup_col f src2 = Some c2 ->
  col_type c1 = col_type c2 -> ctype_eqb (col_ftype c1) t = true ->
  NoDup (ix f) -> Forall (fun p => p < col_len c1) (ix f) ->
  omap (fun p => do x <- cell_at c1 p; do y <- cell_at c2 p; tbl2 tbl x y) (ix f) = Ok vals ->
  Forall (fun y => cell_type_ok t y = true) vals ->
  exists r, apply2 f (F2 t tbl) dst src1 src2 = Ok (set_column f dst r)
    /\ col_type r = t /\ col_len r = col_len c1
    /\ omap (cell_at r) (ix f) = Ok vals
    /\ (forall q, q < col_len c1 -> ~ In q (ix f) -> cell_at r q = Ok (zero_cell t)).
Proof.
  intros Hf Hs1 Hs2 Hty12 Hty Hnd Hin Hvals Htyped.
  pose proof (omap_length _ _ _ Hvals) as Hlen.
  pose proof (col_ftype_not_enum c1 t Hty) as Hte.
  destruct (scatter_col t (col_len c1) (ix f) vals Hte Hnd Hin ltac:(lia) Htyped)
    as [arr [r [Harr [Hr [Hrt [Hrl [Hread Hout]]]]]]].
  exists r. split.
  { unfold apply2. rewrite Hf, Hs1, Hs2. unfold col_apply2. rewrite Hty12.
    replace (ctype_eqb (col_type c2) (col_type c2)) with true by (symmetry; apply ctype_eqb_eq; reflexivity).
    simpl negb. cbv iota. rewrite Hty. rewrite Hvals. cbn [obind]. rewrite Harr. cbn [obind]. rewrite Hr. reflexivity. }
  split; [exact Hrt|]. split; [exact Hrl|]. split; [|exact Hout].
  rewrite Hread. rewrite <- Hlen. rewrite firstn_all. reflexivity.
Qed.

(* a mismatch of the two source types or of the function's signature is an error, no cell is computed *)
Theorem apply2_rejects f fn dst src1 src2 :
  ferr f = false ->
  (lookup_col f src1 = None \/ lookup_col f src2 = None
   \/ (exists c1 c2, lookup_col f src1 = Some c1 /\ lookup_col f src2 = Some c2
       /\ (col_type c1 <> col_type c2 \/ (forall t tbl, fn = F2 t tbl -> ctype_eqb (col_ftype c1) t = false)))) ->
  apply2 f fn dst src1 src2 = Ok (with_err f).
Proof.
  intros Hf H. unfold apply2. rewrite Hf.
  destruct H as [H|[H|[c1 [c2 [H1 [H2 H]]]]]].
  - rewrite H. reflexivity.
  - rewrite H. destruct (lookup_col f src1); reflexivity.
  - rewrite H1, H2. unfold col_apply2. destruct H as [H|H].
    + destruct (ctype_eqb (col_type c1) (col_type c2)) eqn:E; [apply ctype_eqb_eq in E; congruence|]. reflexivity.
    + destruct (ctype_eqb (col_type c1) (col_type c2)); simpl; [|reflexivity].
      destruct fn; try reflexivity. rewrite (H t tbl eq_refl). reflexivity.
Qed.

(* ------------------------------------------------------------------ Apply without source column *)

(* func() T: the k-th call's result belongs to the k-th row in frame order *)
Theorem apply0_stream_spec f t vals dst :
  ferr f = false -> t <> TEnum -> NoDup (ix f) -> Forall (fun p => p < phys_len f) (ix f) ->
  length (ix f) <= length vals -> Forall (fun y => cell_type_ok t y = true) vals ->
  exists r, apply0 f (F0Stream t vals) dst = Ok (set_column f dst r)
    /\ col_type r = t /\ col_len r = phys_len f
    /\ omap (cell_at r) (ix f) = Ok (firstn (length (ix f)) vals)
    /\ (forall q, q < phys_len f -> ~ In q (ix f) -> cell_at r q = Ok (zero_cell t)).
Proof.
  intros Hf Hte Hnd Hin Hlen Htyped.
  destruct (scatter_col t (phys_len f) (ix f) vals Hte Hnd Hin Hlen Htyped)
    as [arr [r [Harr [Hr [Hrt [Hrl [Hread Hout]]]]]]].
  exists r. split; [|auto].
  unfold apply0. rewrite Hf.
  destruct (ctype_eqb t TEnum) eqn:E; [apply ctype_eqb_eq in E; congruence|].
  rewrite Harr. cbn [obind]. rewrite Hr. reflexivity.
Qed.

(* the type of the column a constant instruction makes (Model/Ops.v const_type, made total: there is no enum constant) *)
Definition const_ctype (c : cell) : ctype :=
  match c with CInt _ => TInt | CFloat _ => TFloat | CBool _ => TBool | _ => TString end.

Lemma const_type_ctype c : (forall s, c <> CEnum s) ->
  const_type c = Some (const_ctype c) /\ const_ctype c <> TEnum /\ cell_type_ok (const_ctype c) c = true.
Proof. intro Hc. destruct c as [z|b|b|s|s]; simpl; try (exfalso; apply (Hc s); reflexivity); repeat split; discriminate. Qed.

Lemma idx_repeat {A} (x : A) n q : q < n -> idx (repeat x n) q = Ok x.
Proof. intro H. unfold idx. rewrite nth_error_repeat by exact H. reflexivity. Qed.

Lemma const_col_spec c n : (forall s, c <> CEnum s) ->
  exists r, const_col c n = Ok r /\ col_type r = const_ctype c /\ col_len r = n
            /\ forall q, q < n -> cell_at r q = Ok c.
Proof.
  intro Hc. destruct c as [z|b|b|s|s]; simpl; try (exfalso; apply (Hc s); reflexivity);
    eexists; (split; [reflexivity|]); simpl; rewrite repeat_length; (split; [reflexivity|]); (split; [reflexivity|]);
    intros q Hq; rewrite idx_repeat by exact Hq; reflexivity.
Qed.

(* the array of a constant written through an index (which may list a position more than once) *)
Lemma scatter_const_in c : forall index base arr,
  scatter base index (repeat c (length index)) = Ok arr -> forall q, In q index -> nth_error arr q = Some c.
Proof.
  induction index as [|p index IH]; intros base arr H q Hq; [destruct Hq|].
  simpl in H. destruct (p <? length base) eqn:E; [|discriminate]. apply Nat.ltb_lt in E.
  destruct (in_dec Nat.eq_dec q index) as [Hi|Hni]; [apply (IH _ _ H q Hi)|].
  destruct Hq as [->|Hq]; [|contradiction].
  rewrite (scatter_outside _ _ _ _ q H Hni). apply nth_error_set_nth_eq. exact E.
Qed.

Lemma scatter_const_col t n index c :
  t <> TEnum -> Forall (fun p => p < n) index -> cell_type_ok t c = true ->
  exists arr r, scatter (repeat (zero_cell t) n) index (repeat c (length index)) = Ok arr /\ col_of_cells t arr = Ok r
    /\ col_type r = t /\ col_len r = n
    /\ (forall q, In q index -> cell_at r q = Ok c)
    /\ (forall q, q < n -> ~ In q index -> cell_at r q = Ok (zero_cell t)).
Proof.
  intros Ht Hin Hc.
  assert (Hbase : Forall (fun p => p < length (repeat (zero_cell t) n)) index) by (rewrite repeat_length; exact Hin).
  destruct (scatter_ok index (repeat (zero_cell t) n) (repeat c (length index)) (repeat_length _ _) Hbase) as [arr [Harr Hal]].
  assert (Harr_ok : Forall (fun y => cell_type_ok t y = true) arr).
  { eapply scatter_Forall; [| |exact Harr]; apply repeat_Forall; [apply zero_cell_ok; exact Ht|exact Hc]. }
  destruct (col_of_cells_spec t arr Ht Harr_ok) as [r [Hr [Hrt [Hrl Hcell]]]].
  exists arr, r. split; [exact Harr|]. split; [exact Hr|]. split; [exact Hrt|].
  split; [rewrite Hrl, Hal, repeat_length; reflexivity|]. split.
  - intros q Hq. rewrite Hcell, (scatter_const_in c _ _ _ Harr q Hq). reflexivity.
  - intros q Hq Hnotin. rewrite Hcell, (scatter_outside _ _ _ _ q Harr Hnotin).
    rewrite (nth_error_repeat (zero_cell t)) by exact Hq. reflexivity.
Qed.

(* a duplicate-free index over n positions that has n entries lists every position *)
Lemma full_index_covers n (index : list nat) :
  NoDup index -> Forall (fun p => p < n) index -> length index = n -> forall q, q < n -> In q index.
Proof.
  intros Hnd Hin Hlen q Hq.
  apply (NoDup_length_incl Hnd (l' := seq 0 n)).
  - rewrite seq_length. lia.
  - intros p Hp. rewrite Forall_forall in Hin. apply in_seq. specialize (Hin p Hp). lia.
  - apply in_seq. lia.
Qed.

(* a constant on a frame whose index covers all rows of its columns (len(index) = column length; no premise on
   the index entries): a constant column, EVERY physical position holds the constant *)
Theorem apply0_const_full_spec f c dst :
  ferr f = false -> (forall s, c <> CEnum s) -> length (ix f) = phys_len f ->
  exists r, apply0 f (F0Const c) dst = Ok (set_column f dst r)
    /\ col_type r = const_ctype c /\ col_len r = phys_len f
    /\ (forall q, q < phys_len f -> cell_at r q = Ok c).
Proof.
  intros Hf Hc Hlen. destruct (const_col_spec c (phys_len f) Hc) as [r [Hr [Ht [Hl Hq]]]].
  exists r. split; [|auto]. unfold apply0. rewrite Hf, Hlen, Nat.eqb_refl, Hr. reflexivity.
Qed.

(* a constant, in general (index entries are positions of the columns): the rows of the frame hold the constant;
   with len(index) = column length every physical position holds it; otherwise (a filtered or sliced frame, the
   sub-frame of FilteredApply) every position that is not a row of the frame holds the ZERO VALUE of the type,
   exactly as for func() T *)
Theorem apply0_const_spec f c dst :
  ferr f = false -> (forall s, c <> CEnum s) -> Forall (fun p => p < phys_len f) (ix f) ->
  exists r, apply0 f (F0Const c) dst = Ok (set_column f dst r)
    /\ col_type r = const_ctype c /\ col_len r = phys_len f
    /\ (forall q, In q (ix f) -> cell_at r q = Ok c)
    /\ (length (ix f) = phys_len f -> forall q, q < phys_len f -> cell_at r q = Ok c)
    /\ (length (ix f) <> phys_len f ->
        forall q, q < phys_len f -> ~ In q (ix f) -> cell_at r q = Ok (zero_cell (const_ctype c))).
Proof.
  intros Hf Hc Hin. destruct (Nat.eq_dec (length (ix f)) (phys_len f)) as [Hlen|Hlen].
  - destruct (apply0_const_full_spec f c dst Hf Hc Hlen) as [r [Hr [Ht [Hl Hq]]]].
    exists r. split; [exact Hr|]. split; [exact Ht|]. split; [exact Hl|]. split; [|split].
    + intros q Hi. apply Hq. rewrite Forall_forall in Hin. apply Hin. exact Hi.
    + intros _. exact Hq.
    + intro Hne. congruence.
  - destruct (const_type_ctype c Hc) as [Hct [Hte Hok]].
    destruct (scatter_const_col (const_ctype c) (phys_len f) (ix f) c Hte Hin Hok)
      as [arr [r [Harr [Hr [Hrt [Hrl [Hread Hout]]]]]]].
    exists r. split.
    + unfold apply0. rewrite Hf. apply Nat.eqb_neq in Hlen. rewrite Hlen, Hct, Harr. cbn [obind]. rewrite Hr. reflexivity.
    + split; [exact Hrt|]. split; [exact Hrl|]. split; [exact Hread|]. split; [intro; congruence|]. intros _. exact Hout.
Qed.

(* ------------------------------------------------------------------ one instruction against the table-level specification *)

(* what the harness guarantees about a recorded function (Go's static types): results have the declared type,
   no enum-typed function or constant exists *)
Definition afn_wf (fn : afn) : bool :=
  match fn with
  | F0Stream t vals => negb (ctype_eqb t TEnum) && forallb (cell_type_ok t) vals
  | F0Const c => match c with CEnum _ => false | _ => true end
  | F1 _ tout tbl => forallb (fun e => cell_type_ok tout (snd e)) tbl
  | F2 t tbl => forallb (fun e => cell_type_ok t (snd e)) tbl
  | _ => true
  end.

(* the operation succeeded with a well-formed frame over the same index that denotes t' *)
Definition instr_result (f : frame) (t' : table) (r : outcome frame) : Prop :=
  exists g, r = Ok g /\ ferr g = false /\ ix g = ix f /\ abs g = Ok t' /\ wf_frame g = true
            /\ phys_len g = phys_len f.

Lemma set_column_result f t dst r cells :
  ferr f = false -> wf_frame f = true -> abs f = Ok t -> check_name dst = true ->
  col_ok (phys_len f) r -> omap (cell_at r) (ix f) = Ok cells ->
  instr_result f (tset_col t dst (col_type r) cells) (Ok (set_column f dst r)).
Proof.
  intros Hf Hwf Ht Hn Hr Hcells. exists (set_column f dst r).
  destruct (set_column_spec f dst r Hn) as [H1 [H2 _]].
  split; [reflexivity|]. split; [rewrite H2; exact Hf|]. split; [exact H1|].
  split; [apply abs_set_column; assumption|]. split; [apply wf_set_column; assumption|].
  apply phys_len_set_column; [exact Hn|apply Hr].
Qed.

Lemma set_column_bad f n c : check_name n = false -> set_column f n c = with_err f.
Proof. intro H. unfold set_column. rewrite H. reflexivity. Qed.

Lemma tbl1_typed tout tbl x y :
  forallb (fun e => cell_type_ok tout (snd e)) tbl = true -> tbl1 tbl x = Ok y -> cell_type_ok tout y = true.
Proof.
  intros Hwf H. unfold tbl1 in H. destruct (find _ tbl) as [e|] eqn:E; [|discriminate].
  inversion H; subst. apply find_some in E as [Hin _]. rewrite forallb_forall in Hwf. apply (Hwf e Hin).
Qed.

Lemma tbl2_typed (t : ctype) (tbl : list (cell * cell * cell)) x y z :
  forallb (fun e => cell_type_ok t (snd e)) tbl = true -> tbl2 tbl x y = Ok z -> cell_type_ok t z = true.
Proof.
  intros Hwf H. unfold tbl2 in H. destruct (find _ tbl) as [e|] eqn:E; [|discriminate].
  inversion H; subst. apply find_some in E as [Hin _]. rewrite forallb_forall in Hwf. apply (Hwf e Hin).
Qed.

Lemma wf_ix_col f name c : wf_frame f = true -> lookup_col f name = Some c ->
  col_len c = phys_len f /\ Forall (fun p => p < col_len c) (ix f).
Proof.
  intros Hwf Hl. destruct (lookup_col_ok f name c Hwf Hl) as [Hlen _].
  apply wf_frame_iff in Hwf as [_ Hi]. rewrite Hlen. auto.
Qed.

Lemma lookup_col_of f name k c : lookup f name = Some (k, c) -> lookup_col f name = Some c.
Proof. intro H. unfold lookup_col. rewrite H. reflexivity. Qed.

Lemma lookup_col_none f name : lookup f name = None -> lookup_col f name = None.
Proof. intro H. unfold lookup_col. rewrite H. reflexivity. Qed.

(* func() T *)
Lemma instr_stream f t ty vals dst :
  ferr f = false -> fr_ok f -> abs f = Ok t -> check_name dst = true ->
  afn_wf (F0Stream ty vals) = true -> (length vals <? length (trows t)) = false ->
  instr_result f (tset_col t dst ty (firstn (length (trows t)) vals)) (apply0 f (F0Stream ty vals) dst).
Proof.
  intros Hf [Hwf Hnd] Ht Hn Hfn Hlen.
  simpl in Hfn. apply andb_true_iff in Hfn as [Hte Hty].
  assert (Hte' : ty <> TEnum) by (intro; subst; discriminate).
  assert (Htyped : Forall (fun y => cell_type_ok ty y = true) vals) by (apply Forall_forall; apply forallb_forall; exact Hty).
  pose proof (abs_length f t Ht) as Hrl. apply Nat.ltb_ge in Hlen.
  pose proof Hwf as Hwf'. apply wf_frame_iff in Hwf' as [_ Hi].
  destruct (apply0_stream_spec f ty vals dst Hf Hte' Hnd Hi ltac:(lia) Htyped) as [r [Hr [Hrt [Hrlen [Hread _]]]]].
  rewrite Hr, Hrl. rewrite <- Hrt.
  apply set_column_result; try assumption. split; [exact Hrlen|apply col_wf_nonenum; congruence].
Qed.

(* constant *)
Lemma instr_const f t c dst :
  ferr f = false -> fr_ok f -> abs f = Ok t -> check_name dst = true -> afn_wf (F0Const c) = true ->
  instr_result f (tset_col t dst (const_ctype c) (map (fun _ => c) (trows t))) (apply0 f (F0Const c) dst).
Proof.
  intros Hf [Hwf Hnd] Ht Hn Hfn.
  assert (Hc : forall s, c <> CEnum s) by (intros s ->; discriminate).
  pose proof Hwf as Hwf'. apply wf_frame_iff in Hwf' as [_ Hi].
  destruct (apply0_const_spec f c dst Hf Hc Hi) as [r [Hr [Hrt [Hrlen [Hq _]]]]].
  assert (Hcells : omap (cell_at r) (ix f) = Ok (map (fun _ => c) (trows t))).
  { destruct (abs_rows f t Ht) as [Hrows _].
    rewrite (omap_const_ok c (cell_at r) (ix f)) by (intros p Hp; apply Hq; exact Hp).
    f_equal. clear - Hrows. revert Hrows. generalize (trows t). induction (ix f) as [|p l IH]; intros rows H.
    - inversion H. reflexivity.
    - apply omap_cons_inv in H as [y [ys [_ [Hys ->]]]]. simpl. f_equal. apply IH. exact Hys. }
  rewrite Hr. rewrite <- Hrt. apply set_column_result; try assumption.
  split; [exact Hrlen|apply col_wf_nonenum; rewrite Hrt; destruct c; simpl; congruence].
Qed.

(* types.ColumnName: copy *)
Lemma instr_colname f t src dst k c ty cells :
  ferr f = false -> fr_ok f -> abs f = Ok t -> check_name dst = true ->
  lookup f src = Some (k, c) -> tcolumn t src = Some (ty, cells) -> bytes_eqb dst src = false ->
  instr_result f (tset_col t dst ty cells) (apply0 f (F0ColName src) dst).
Proof.
  intros Hf [Hwf Hnd] Ht Hn Hl Htc Hne.
  destruct (abs_tcolumn_some f t src k c Ht Hl) as [cells' [Htc' Hcells]].
  rewrite Htc in Htc'. inversion Htc'; subst.
  unfold apply0. rewrite Hf. unfold copy. rewrite Hf, (lookup_col_of f src k c Hl), Hne.
  apply set_column_result; try assumption. apply (lookup_col_ok f src c Hwf (lookup_col_of f src k c Hl)).
Qed.

(* func(T) U *)
Lemma instr_f1 ut f t tin tout tbl src dst k c ty cells out :
  ferr f = false -> fr_ok f -> abs f = Ok t -> check_name dst = true -> afn_wf (F1 tin tout tbl) = true ->
  lookup f src = Some (k, c) -> tcolumn t src = Some (ty, cells) ->
  ctype_eqb (ftype_of ty) tin && negb (ctype_eqb tout TEnum) = true ->
  omap (tbl1 tbl) cells = Ok out ->
  instr_result f (tset_col t dst tout out) (apply1 ut f (F1 tin tout tbl) dst src).
Proof.
  intros Hf [Hwf Hnd] Ht Hn Hfn Hl Htc Hsig Hout.
  destruct (abs_tcolumn_some f t src k c Ht Hl) as [cells' [Htc' Hcells]].
  rewrite Htc in Htc'. inversion Htc'; subst ty cells'. clear Htc'.
  apply andb_true_iff in Hsig as [Hty Hte]. rewrite ftype_of_col in Hty.
  assert (Hte' : tout <> TEnum) by (intro; subst; discriminate).
  pose proof (lookup_col_of f src k c Hl) as Hlc.
  destruct (wf_ix_col f src c Hwf Hlc) as [Hclen Hin].
  assert (Hvals : omap (fun p => do x <- cell_at c p; tbl1 tbl x) (ix f) = Ok out).
  { rewrite (omap_compose (cell_at c) (tbl1 tbl) (ix f) cells Hcells). exact Hout. }
  assert (Htyped : Forall (fun y => cell_type_ok tout y = true) out).
  { apply (omap_Forall _ _ _ _ Hout). intros a b _ Hab. apply (tbl1_typed tout tbl a b Hfn Hab). }
  destruct (apply1_spec ut f tin tout tbl dst src c out Hf Hlc Hty Hte' Hnd Hin Hvals Htyped)
    as [r [Hr [Hrt [Hrlen [Hread _]]]]].
  rewrite Hr. rewrite <- Hrt. apply set_column_result; try assumption.
  split; [rewrite Hrlen; exact Hclen|apply col_wf_nonenum; congruence].
Qed.

Lemma omap_combine2 (g1 g2 : nat -> outcome cell) (h : cell -> cell -> outcome cell) : forall l a b,
  omap g1 l = Ok a -> omap g2 l = Ok b ->
  omap (fun p => do x <- g1 p; do y <- g2 p; h x y) l = omap (fun xy => h (fst xy) (snd xy)) (combine a b).
Proof.
  induction l as [|p l IH]; intros a b Ha Hb.
  - inversion Ha; inversion Hb. reflexivity.
  - apply omap_cons_inv in Ha as [x [a' [Hx [Ha' ->]]]]. apply omap_cons_inv in Hb as [y [b' [Hy [Hb' ->]]]].
    simpl. rewrite Hx, Hy. simpl. rewrite (IH a' b' Ha' Hb'). reflexivity.
Qed.

(* func(T, T) T *)
Lemma instr_f2 f t ty tbl src1 src2 dst k1 c1 k2 c2 ty1 cells1 ty2 cells2 out :
  ferr f = false -> fr_ok f -> abs f = Ok t -> check_name dst = true -> afn_wf (F2 ty tbl) = true ->
  lookup f src1 = Some (k1, c1) -> lookup f src2 = Some (k2, c2) ->
  tcolumn t src1 = Some (ty1, cells1) -> tcolumn t src2 = Some (ty2, cells2) ->
  ctype_eqb ty1 ty2 && ctype_eqb (ftype_of ty1) ty = true ->
  omap (fun xy => tbl2 tbl (fst xy) (snd xy)) (combine cells1 cells2) = Ok out ->
  instr_result f (tset_col t dst ty out) (apply2 f (F2 ty tbl) dst src1 src2).
Proof.
  intros Hf [Hwf Hnd] Ht Hn Hfn Hl1 Hl2 Htc1 Htc2 Hsig Hout.
  destruct (abs_tcolumn_some f t src1 k1 c1 Ht Hl1) as [cells1' [Htc1' Hcells1]].
  destruct (abs_tcolumn_some f t src2 k2 c2 Ht Hl2) as [cells2' [Htc2' Hcells2]].
  rewrite Htc1 in Htc1'. inversion Htc1'; subst ty1 cells1'. clear Htc1'.
  rewrite Htc2 in Htc2'. inversion Htc2'; subst ty2 cells2'. clear Htc2'.
  apply andb_true_iff in Hsig as [Hty12 Hty]. apply ctype_eqb_eq in Hty12. rewrite ftype_of_col in Hty.
  pose proof (lookup_col_of f src1 k1 c1 Hl1) as Hlc1. pose proof (lookup_col_of f src2 k2 c2 Hl2) as Hlc2.
  destruct (wf_ix_col f src1 c1 Hwf Hlc1) as [Hclen Hin].
  assert (Hvals : omap (fun p => do x <- cell_at c1 p; do y <- cell_at c2 p; tbl2 tbl x y) (ix f) = Ok out).
  { rewrite (omap_combine2 (cell_at c1) (cell_at c2) (tbl2 tbl) (ix f) cells1 cells2 Hcells1 Hcells2). exact Hout. }
  assert (Htyped : Forall (fun y => cell_type_ok ty y = true) out).
  { apply (omap_Forall _ _ _ _ Hout). intros a b _ Hab. apply (tbl2_typed ty tbl _ _ b Hfn Hab). }
  destruct (apply2_spec f ty tbl dst src1 src2 c1 c2 out Hf Hlc1 Hlc2 Hty12 Hty Hnd Hin Hvals Htyped)
    as [r [Hr [Hrt [Hrlen [Hread _]]]]].
  rewrite Hr. rewrite <- Hrt. apply set_column_result; try assumption.
  split; [rewrite Hrlen; exact Hclen|]. apply col_wf_nonenum. rewrite Hrt. apply (col_ftype_not_enum c1 ty Hty).
Qed.

Definition instr_agrees (f : frame) (i : instr) (spec : option (option table)) (r : outcome frame) : Prop :=
  match spec with
  | Some (Some t') => instr_result f t' r
  | Some None => True
  | None => r = Ok (with_err f) \/ (r = Panic /\ check_name (idst i) = false)
  end.

Lemma bytes_eqb_sym a b : bytes_eqb a b = bytes_eqb b a.
Proof.
  destruct (bytes_eqb a b) eqn:E1, (bytes_eqb b a) eqn:E2; try reflexivity.
  - apply bytes_eqb_spec in E1. subst. rewrite bytes_eqb_refl in E2. discriminate.
  - apply bytes_eqb_spec in E2. subst. rewrite bytes_eqb_refl in E1. discriminate.
Qed.

Lemma instr_result_self f t : ferr f = false -> wf_frame f = true -> abs f = Ok t -> instr_result f t (Ok f).
Proof. intros Hf Hwf Ht. exists f. repeat split; auto. Qed.

Lemma scatter_not_fail : forall index base vals, scatter base index vals <> Fail.
Proof.
  induction index as [|p index IH]; intros base vals; simpl; [discriminate|].
  destruct vals; [discriminate|]. destruct (p <? length base); [apply IH|discriminate].
Qed.

Lemma omap_not_fail {A B} (g : A -> outcome B) : (forall a, g a <> Fail) -> forall l, omap g l <> Fail.
Proof.
  intros Hg. induction l as [|x l IH]; simpl; [discriminate|].
  destruct (g x) eqn:E; simpl; try discriminate; [|exfalso; apply (Hg x E)].
  destruct (omap g l); simpl; try discriminate. exfalso. apply IH. reflexivity.
Qed.

Lemma col_of_cells_not_fail t cs : col_of_cells t cs <> Fail.
Proof.
  destruct t; simpl; try discriminate;
    (match goal with |- obind (omap ?g cs) _ <> Fail =>
       pose proof (omap_not_fail g ltac:(intros []; discriminate) cs) as H;
       destruct (omap g cs); simpl; [discriminate|congruence|discriminate] end).
Qed.

(* with an illegal destination name nothing but Err (or a fault of a partial function table) comes out *)
Lemma bad_name_instr ut f i :
  ferr f = false -> check_name (idst i) = false ->
  (forall src, ifn i = F0ColName src -> empty_name (isrc1 i) = true -> bytes_eqb src (idst i) = false) ->
  apply_instr ut f i = Ok (with_err f) \/ apply_instr ut f i = Panic.
Proof.
  intros Hf Hn Hself. destruct i as [fn dst s1 s2]. cbn [ifn idst isrc1 isrc2] in *.
  unfold apply_instr. cbn [ifn idst isrc1 isrc2].
  destruct (empty_name s1) eqn:E1; [|destruct (empty_name s2) eqn:E2].
  - unfold apply0. rewrite Hf. destruct fn as [ty vals|c|src|tin tout tbl|ty tbl|nm|]; try (left; reflexivity).
    + destruct (ctype_eqb ty TEnum); [right; reflexivity|].
      pose proof (scatter_not_fail (ix f) (repeat (zero_cell ty) (phys_len f)) vals) as Hs.
      destruct (scatter _ _ _) as [cells| |]; cbn [obind]; [|congruence|right; reflexivity].
      pose proof (col_of_cells_not_fail ty cells) as Hc.
      destruct (col_of_cells ty cells) as [c| |]; cbn [obind]; [|congruence|right; reflexivity].
      left. rewrite set_column_bad by exact Hn. reflexivity.
    + destruct (Nat.eqb (length (ix f)) (phys_len f)).
      * destruct c; simpl; try (right; reflexivity); left; rewrite set_column_bad by exact Hn; reflexivity.
      * destruct (const_type c) as [ty|]; [|right; reflexivity].
        pose proof (scatter_not_fail (ix f) (repeat (zero_cell ty) (phys_len f)) (repeat c (length (ix f)))) as Hs.
        destruct (scatter _ _ _) as [cells| |]; cbn [obind]; [|congruence|right; reflexivity].
        pose proof (col_of_cells_not_fail ty cells) as Hcc.
        destruct (col_of_cells ty cells) as [c'| |]; cbn [obind]; [|congruence|right; reflexivity].
        left. rewrite set_column_bad by exact Hn. reflexivity.
    + left. unfold copy. rewrite Hf. destruct (lookup_col f src); [|reflexivity].
      rewrite bytes_eqb_sym, (Hself src eq_refl eq_refl). rewrite set_column_bad by exact Hn. reflexivity.
  - unfold apply1. rewrite Hf. destruct (lookup_col f s1) as [c|]; [|left; reflexivity].
    destruct (col_apply1 ut c fn (ix f)); [left; rewrite set_column_bad by exact Hn; reflexivity|left; reflexivity|right; reflexivity].
  - unfold apply2. rewrite Hf. destruct (lookup_col f s1) as [c1|]; [|left; reflexivity].
    destruct (lookup_col f s2) as [c2|]; [|left; reflexivity].
    destruct (col_apply2 c1 c2 fn (ix f)); [left; rewrite set_column_bad by exact Hn; reflexivity|left; reflexivity|right; reflexivity].
Qed.

Theorem apply_instr_abs ut f t i :
  ferr f = false -> fr_ok f -> abs f = Ok t -> afn_wf (ifn i) = true ->
  instr_agrees f i (tapply_instr t i) (apply_instr ut f i).
Proof.
  intros Hf Hok Ht Hfn. pose proof Hok as [Hwf Hnd].
  destruct (check_name (idst i)) eqn:Hn.
  - (* legal destination *)
    destruct i as [fn dst s1 s2]. cbn [ifn idst isrc1 isrc2] in *.
    unfold tapply_instr, apply_instr, instr_agrees. cbn [ifn idst isrc1 isrc2]. rewrite Hn. cbn [negb andb].
    destruct (empty_name s1) eqn:E1; [|destruct (empty_name s2) eqn:E2].
    + destruct fn as [ty vals|c|src|tin tout tbl|ty tbl|nm|]; try (left; unfold apply0; rewrite Hf; reflexivity).
      * destruct (length vals <? length (trows t)) eqn:El; [exact I|]. apply instr_stream; assumption.
      * apply (instr_const f t c dst); assumption.
      * destruct (lookup f src) as [[k c]|] eqn:El.
        -- destruct (abs_tcolumn_some f t src k c Ht El) as [cells [Htc Hcells]]. rewrite Htc.
           destruct (bytes_eqb src dst) eqn:Ed.
           ++ unfold apply0, copy. rewrite Hf, (lookup_col_of f src k c El), bytes_eqb_sym, Ed.
              apply instr_result_self; assumption.
           ++ apply (instr_colname f t src dst k c); try assumption. rewrite bytes_eqb_sym. exact Ed.
        -- rewrite (abs_tcolumn_none f t src Ht El). left. unfold apply0, copy.
           rewrite Hf, (lookup_col_none f src El). reflexivity.
    + destruct (lookup f s1) as [[k c]|] eqn:El.
      * destruct (abs_tcolumn_some f t s1 k c Ht El) as [cells [Htc Hcells]]. rewrite Htc.
        pose proof (lookup_col_of f s1 k c El) as Hlc.
        destruct fn as [ty vals|c0|src|tin tout tbl|ty tbl|nm|];
          try (left; unfold apply1; rewrite Hf, Hlc; reflexivity); [|exact I].
        destruct (ctype_eqb (ftype_of (col_type c)) tin && negb (ctype_eqb tout TEnum)) eqn:Esig.
        -- destruct (omap (tbl1 tbl) cells) as [out| |] eqn:Eo; try exact I.
           apply (instr_f1 ut f t tin tout tbl s1 dst k c (col_type c) cells out); assumption.
        -- left. unfold apply1. rewrite Hf, Hlc. unfold col_apply1. rewrite <- ftype_of_col, Esig. reflexivity.
      * rewrite (abs_tcolumn_none f t s1 Ht El). left. unfold apply1. rewrite Hf, (lookup_col_none f s1 El). reflexivity.
    + destruct (lookup f s1) as [[k1 c1]|] eqn:El1.
      * destruct (abs_tcolumn_some f t s1 k1 c1 Ht El1) as [cells1 [Htc1 Hcells1]]. rewrite Htc1.
        pose proof (lookup_col_of f s1 k1 c1 El1) as Hlc1.
        destruct (lookup f s2) as [[k2 c2]|] eqn:El2.
        -- destruct (abs_tcolumn_some f t s2 k2 c2 Ht El2) as [cells2 [Htc2 Hcells2]]. rewrite Htc2.
           pose proof (lookup_col_of f s2 k2 c2 El2) as Hlc2.
           destruct fn as [ty vals|c0|src|tin tout tbl|ty tbl|nm|];
             try (left; unfold apply2; rewrite Hf, Hlc1, Hlc2; unfold col_apply2;
                  destruct (ctype_eqb (col_type c1) (col_type c2)); reflexivity).
           destruct (ctype_eqb (col_type c1) (col_type c2) && ctype_eqb (ftype_of (col_type c1)) ty) eqn:Esig.
           ++ destruct (omap _ (combine cells1 cells2)) as [out| |] eqn:Eo; try exact I.
              apply (instr_f2 f t ty tbl s1 s2 dst k1 c1 k2 c2 (col_type c1) cells1 (col_type c2) cells2 out); assumption.
           ++ left. unfold apply2. rewrite Hf, Hlc1, Hlc2. unfold col_apply2.
              destruct (ctype_eqb (col_type c1) (col_type c2)); simpl negb; cbv iota; [|reflexivity].
              simpl in Esig. rewrite ftype_of_col in Esig. rewrite Esig. reflexivity.
        -- rewrite (abs_tcolumn_none f t s2 Ht El2). left. unfold apply2.
           rewrite Hf, Hlc1, (lookup_col_none f s2 El2). reflexivity.
      * rewrite (abs_tcolumn_none f t s1 Ht El1). left. unfold apply2. rewrite Hf, (lookup_col_none f s1 El1). reflexivity.
  - (* illegal destination *)
    destruct i as [fn dst s1 s2]. cbn [ifn idst isrc1 isrc2] in *.
    destruct (match fn with F0ColName src => bytes_eqb src dst | _ => false end) eqn:Eself.
    + (* dst = src of a column copy: the name is never checked *)
      destruct fn as [ty vals|c|src|tin tout tbl|ty tbl|nm|]; try discriminate.
      unfold tapply_instr, apply_instr, instr_agrees. cbn [ifn idst isrc1 isrc2]. rewrite Hn, Eself. cbn [negb andb].
      destruct (empty_name s1) eqn:E1; [|destruct (empty_name s2) eqn:E2].
      * destruct (lookup f src) as [[k c]|] eqn:El.
        -- destruct (abs_tcolumn_some f t src k c Ht El) as [cells [Htc Hcells]]. rewrite Htc.
           unfold apply0, copy. rewrite Hf, (lookup_col_of f src k c El), bytes_eqb_sym, Eself.
           apply instr_result_self; assumption.
        -- rewrite (abs_tcolumn_none f t src Ht El). left. unfold apply0, copy.
           rewrite Hf, (lookup_col_none f src El). reflexivity.
      * assert (Hm : apply1 ut f (F0ColName src) dst s1 = Ok (with_err f)).
        { unfold apply1. rewrite Hf. destruct (lookup_col f s1); reflexivity. }
        rewrite Hm. destruct (tcolumn t s1) as [[ty cells]|]; left; reflexivity.
      * assert (Hm : apply2 f (F0ColName src) dst s1 s2 = Ok (with_err f)).
        { unfold apply2. rewrite Hf. destruct (lookup_col f s1) as [c1|]; [|reflexivity].
          destruct (lookup_col f s2) as [c2|]; [|reflexivity]. unfold col_apply2.
          destruct (ctype_eqb (col_type c1) (col_type c2)); reflexivity. }
        rewrite Hm. destruct (tcolumn t s1) as [[ty1 cells1]|]; [destruct (tcolumn t s2) as [[ty2 cells2]|]|]; left; reflexivity.
    + assert (Hspec : tapply_instr t (mkInstr fn dst s1 s2) = None).
      { unfold tapply_instr. cbn [ifn idst isrc1 isrc2]. rewrite Hn, Eself. reflexivity. }
      rewrite Hspec. unfold instr_agrees.
      destruct (bad_name_instr ut f (mkInstr fn dst s1 s2) Hf Hn) as [H|H].
      * cbn [ifn idst isrc1]. intros src Hs _. subst fn. exact Eself.
      * left. exact H.
      * right. split; [exact H|exact Hn].
Qed.

(* ------------------------------------------------------------------ instruction lists *)

(* the table-level program: the fold the frameops engine evaluates as oracle for Apply (Corr/FrameCorr.v, FApply) *)
Definition tapply_prog (t : table) (is : list instr) : option (option table) :=
  fold_left (fun acc i => match acc with
                          | Some (Some t') => tapply_instr t' i
                          | other => other
                          end) is (Some (Some t)).

Lemma tapply_prog_cons t i is :
  tapply_prog t (i :: is) =
  match tapply_instr t i with
  | Some (Some t1) => tapply_prog t1 is
  | other => other
  end.
Proof.
  unfold tapply_prog. simpl. destruct (tapply_instr t i) as [[t1|]|]; [reflexivity| |].
  - induction is as [|j is IH]; simpl; [reflexivity|exact IH].
  - induction is as [|j is IH]; simpl; [reflexivity|exact IH].
Qed.

Lemma apply_cons ut f i is :
  apply ut f (i :: is) = match apply_instr ut f i with Ok g => apply ut g is | Fail => Fail | Panic => Panic end.
Proof.
  unfold apply, ofold. simpl. destruct (apply_instr ut f i) as [g| |]; [reflexivity| |].
  - induction is as [|j is IH]; simpl; [reflexivity|exact IH].
  - induction is as [|j is IH]; simpl; [reflexivity|exact IH].
Qed.

Lemma apply_instr_err ut f i : ferr f = true -> apply_instr ut f i = Ok f.
Proof.
  intro H. unfold apply_instr, apply0, apply1, apply2. rewrite H.
  destruct (empty_name (isrc1 i)); [reflexivity|]. destruct (empty_name (isrc2 i)); reflexivity.
Qed.

Lemma apply_err ut f is : ferr f = true -> apply ut f is = Ok f.
Proof.
  intro H. induction is as [|i is IH]; [reflexivity|]. rewrite apply_cons, (apply_instr_err ut f i H). exact IH.
Qed.

Definition prog_agrees (f : frame) (spec : option (option table)) (r : outcome frame) : Prop :=
  match spec with
  | Some (Some t') => instr_result f t' r
  | Some None => True
  | None => (exists g, r = Ok g /\ ferr g = true /\ ix g = ix f) \/ r = Panic
  end.

(* Apply(i1, ..., in) denotes the table-level program: every instruction sees the result of the earlier ones *)
Theorem apply_prog_abs ut : forall is f t,
  ferr f = false -> fr_ok f -> abs f = Ok t -> forallb (fun i => afn_wf (ifn i)) is = true ->
  prog_agrees f (tapply_prog t is) (apply ut f is).
Proof.
  induction is as [|i is IH]; intros f t Hf Hok Ht Hfns.
  - simpl. apply instr_result_self; [exact Hf|apply Hok|exact Ht].
  - simpl in Hfns. apply andb_true_iff in Hfns as [Hfn Hfns].
    pose proof (apply_instr_abs ut f t i Hf Hok Ht Hfn) as Hi.
    rewrite tapply_prog_cons, apply_cons.
    destruct (tapply_instr t i) as [[t1|]|]; simpl in Hi.
    + destruct Hi as [g [Hg [Hgf [Hgi [Hgt [Hgw Hgp]]]]]]. rewrite Hg.
      assert (Hgok : fr_ok g) by (split; [exact Hgw|rewrite Hgi; apply Hok]).
      specialize (IH g t1 Hgf Hgok Hgt Hfns).
      destruct (tapply_prog t1 is) as [[t'|]|]; simpl in IH |- *.
      * destruct IH as [g' [H1 [H2 [H3 [H4 [H5 H6]]]]]]. exists g'. repeat split; try assumption; congruence.
      * exact I.
      * destruct IH as [[g' [H1 [H2 H3]]]|H]; [left; exists g'; repeat split; try assumption; congruence|right; exact H].
    + exact I.
    + destruct Hi as [Hi|[Hi _]]; rewrite Hi; [left|right; reflexivity].
      exists (with_err f). split; [apply apply_err; reflexivity|]. split; reflexivity.
Qed.

(* ------------------------------------------------------------------ FilteredApply *)

(* the rows of the table whose physical position satisfies keep *)
Definition tkeep (keep : nat -> bool) (ixs : list nat) (t : table) : table :=
  mkTable (tnames t) (ttypes t) (map snd (filter (fun pr => keep (fst pr)) (combine ixs (trows t)))).

Lemma omap_filter_combine {B} (g : nat -> outcome B) (keep : nat -> bool) : forall l r,
  omap g l = Ok r ->
  omap g (filter keep l) = Ok (map snd (filter (fun pr => keep (fst pr)) (combine l r))).
Proof.
  induction l as [|p l IH]; intros r H.
  - inversion H. reflexivity.
  - apply omap_cons_inv in H as [y [ys [Hy [Hys ->]]]]. simpl. destruct (keep p); simpl.
    + apply omap_cons_ok; [exact Hy|apply IH; exact Hys].
    + apply IH. exact Hys.
Qed.

Lemma abs_filter f t keep : abs f = Ok t -> abs (with_ix f (filter keep (ix f))) = Ok (tkeep keep (ix f) t).
Proof.
  intro Ht. destruct (abs_rows f t Ht) as [Hrows [Hn Hty]].
  unfold abs. cbn [ix with_ix cols].
  change (row_at (with_ix f (filter keep (ix f)))) with (row_at f).
  rewrite (omap_filter_combine (row_at f) keep (ix f) (trows t) Hrows). simpl.
  unfold tkeep. rewrite Hn, Hty. reflexivity.
Qed.

Lemma fr_ok_filter f keep : fr_ok f -> fr_ok (with_ix f (filter keep (ix f))).
Proof.
  intros [Hwf Hnd]. split; [|apply NoDup_filter; exact Hnd].
  apply wf_frame_iff in Hwf as [Hc Hi]. apply wf_frame_iff.
  change (phys_len (with_ix f (filter keep (ix f)))) with (phys_len f). cbn [cols ix with_ix].
  split; [exact Hc|]. rewrite Forall_forall in *. intros p Hp. apply filter_In in Hp as [Hp _]. apply Hi. exact Hp.
Qed.

(* on the rows matching the clause FilteredApply IS Apply (the whole program) on the table of these rows;
   the row index is put back; an invalid program gives Err *)
Theorem filtered_apply_matching mt ut f c is t keep :
  ferr f = false -> fr_ok f -> abs f = Ok t -> forallb (fun i => afn_wf (ifn i)) is = true ->
  frame_filter mt f c = Ok (with_ix f (filter keep (ix f))) ->
  match tapply_prog (tkeep keep (ix f) t) is with
  | Some (Some t') =>
      exists g, filtered_apply mt ut f c is = Ok g /\ ferr g = false /\ ix g = ix f /\ wf_frame g = true
                /\ abs (with_ix g (filter keep (ix f))) = Ok t'
  | Some None => True
  | None => (exists g, filtered_apply mt ut f c is = Ok g /\ ferr g = true) \/ filtered_apply mt ut f c is = Panic
  end.
Proof.
  intros Hf Hok Ht Hfns Hflt.
  set (fs := with_ix f (filter keep (ix f))).
  assert (Hfs : ferr fs = false) by exact Hf.
  pose proof (apply_prog_abs ut is fs (tkeep keep (ix f) t) Hfs (fr_ok_filter f keep Hok) (abs_filter f t keep Ht) Hfns) as H.
  unfold filtered_apply. rewrite Hflt. cbn [obind].
  change (with_ix f (ix (with_ix f (filter keep (ix f))))) with fs.
  change (ferr (with_ix f (filter keep (ix f)))) with (ferr f). rewrite Hf.
  destruct (tapply_prog (tkeep keep (ix f) t) is) as [[t'|]|]; simpl in H.
  - destruct H as [g [Hg [Hgf [Hgi [Hgt [Hgw Hgp]]]]]]. rewrite Hg. cbn [obind].
    exists (with_ix g (ix f)). split; [reflexivity|]. split; [exact Hgf|]. split; [reflexivity|].
    split.
    + apply wf_frame_iff in Hgw as [Hc _]. apply wf_frame_iff.
      change (phys_len (with_ix g (ix f))) with (phys_len g). cbn [cols ix with_ix]. split; [exact Hc|].
      rewrite Hgp. change (phys_len fs) with (phys_len f). destruct Hok as [Hwf _]. apply wf_frame_iff in Hwf. apply Hwf.
    + replace (with_ix (with_ix g (ix f)) (filter keep (ix f))) with g; [exact Hgt|].
      destruct g as [cs i e]. unfold with_ix. cbn [cols ix ferr] in *. rewrite Hgi. reflexivity.
  - exact I.
  - destruct H as [[g [Hg [Hgf Hgi]]]|H]; rewrite ?Hg, ?H; cbn [obind]; [left|right; reflexivity].
    exists (with_ix g (ix f)). split; [reflexivity|exact Hgf].
Qed.

(* a clause that cannot be evaluated: the filter's error frame comes back, no instruction runs *)
Theorem filtered_apply_filter_err mt ut f c is ff :
  frame_filter mt f c = Ok ff -> ferr ff = true -> filtered_apply mt ut f c is = Ok ff.
Proof. intros H He. unfold filtered_apply. rewrite H. cbn [obind]. rewrite He. reflexivity. Qed.

(* ---- columns that no instruction names as destination are physically untouched *)

Lemma apply_instr_cases ut f i g :
  apply_instr ut f i = Ok g -> g = f \/ g = with_err f \/ exists r, g = set_column f (idst i) r.
Proof.
  destruct i as [fn dst s1 s2]. unfold apply_instr. cbn [ifn idst isrc1 isrc2].
  destruct (empty_name s1); [|destruct (empty_name s2)].
  - unfold apply0. destruct (ferr f); [intro H; inversion H; auto|].
    destruct fn as [ty vals|c|src|tin tout tbl|ty tbl|nm|]; try (intro H; inversion H; auto; fail).
    + destruct (ctype_eqb ty TEnum); [discriminate|].
      destruct (scatter _ _ _) as [cells| |]; cbn [obind]; try discriminate.
      destruct (col_of_cells ty cells) as [c| |]; cbn [obind]; try discriminate.
      intro H; inversion H. right; right. eexists; reflexivity.
    + destruct (Nat.eqb (length (ix f)) (phys_len f)).
      * destruct (const_col c (phys_len f)) as [r| |]; cbn [obind]; try discriminate.
        intro H; inversion H. right; right. eexists; reflexivity.
      * destruct (const_type c) as [ty|]; [|discriminate].
        destruct (scatter _ _ _) as [cells| |]; cbn [obind]; try discriminate.
        destruct (col_of_cells ty cells) as [r| |]; cbn [obind]; try discriminate.
        intro H; inversion H. right; right. eexists; reflexivity.
    + intro H; inversion H. unfold copy. destruct (ferr f); [auto|]. destruct (lookup_col f src) as [c|]; [|auto].
      destruct (bytes_eqb dst src); [auto|]. right; right. eexists; reflexivity.
  - unfold apply1. destruct (ferr f); [intro H; inversion H; auto|].
    destruct (lookup_col f s1) as [c|]; [|intro H; inversion H; auto].
    destruct (col_apply1 ut c fn (ix f)); intro H; inversion H; auto. right; right. eexists; reflexivity.
  - unfold apply2. destruct (ferr f); [intro H; inversion H; auto|].
    destruct (lookup_col f s1) as [c1|]; [|intro H; inversion H; auto].
    destruct (lookup_col f s2) as [c2|]; [|intro H; inversion H; auto].
    destruct (col_apply2 c1 c2 fn (ix f)); intro H; inversion H; auto. right; right. eexists; reflexivity.
Qed.

Lemma apply_instr_other ut f i g m :
  apply_instr ut f i = Ok g -> ferr g = false -> bytes_eqb (idst i) m = false -> lookup g m = lookup f m.
Proof.
  intros H Hg Hm. destruct (apply_instr_cases ut f i g H) as [->|[->|[r ->]]]; [reflexivity|discriminate|].
  destruct (check_name (idst i)) eqn:Hn.
  - destruct (set_column_spec f (idst i) r Hn) as [_ [_ [_ [H4 _]]]]. apply H4. exact Hm.
  - rewrite set_column_bad in Hg by exact Hn. discriminate.
Qed.

Theorem apply_other_cols ut : forall is f g m,
  apply ut f is = Ok g -> ferr g = false ->
  (forall i, In i is -> bytes_eqb (idst i) m = false) -> lookup g m = lookup f m.
Proof.
  induction is as [|i is IH]; intros f g m H Hg Hm.
  - inversion H. reflexivity.
  - rewrite apply_cons in H. destruct (apply_instr ut f i) as [g1| |] eqn:E1; try discriminate.
    destruct (ferr g1) eqn:Eg1.
    + rewrite (apply_err ut g1 is Eg1) in H. inversion H; subst. congruence.
    + rewrite (IH g1 g m H Hg) by (intros j Hj; apply Hm; right; exact Hj).
      apply (apply_instr_other ut f i g1 m E1 Eg1). apply Hm. left. reflexivity.
Qed.

(* FilteredApply: the row index comes back, and every column that is not a destination is the same physical
   column in the same position (all rows, matching or not, as they were) *)
Theorem filtered_apply_others mt ut f c is g m :
  filtered_apply mt ut f c is = Ok g -> ferr g = false ->
  (forall i, In i is -> bytes_eqb (idst i) m = false) ->
  ix g = ix f /\ lookup g m = lookup f m.
Proof.
  unfold filtered_apply. intros H Hg Hm.
  destruct (frame_filter mt f c) as [ff| |]; cbn [obind] in H; try discriminate.
  destruct (ferr ff) eqn:Eff; [inversion H; subst; congruence|].
  destruct (apply ut (with_ix f (ix ff)) is) as [r| |] eqn:Er; cbn [obind] in H; try discriminate.
  inversion H; subst g. split; [reflexivity|].
  change (lookup (with_ix r (ix f)) m) with (lookup r m).
  rewrite (apply_other_cols ut is _ r m Er Hg Hm). reflexivity.
Qed.

(* ------------------------------------------------------------------ FilteredApply: the rows that do not match *)

(* the instructions that compute a new column — a user function is called, or a constant is given —, with the
   type of that column *)
Definition fun_instr (i : instr) : option ctype :=
  if empty_name (isrc1 i) then match ifn i with F0Stream t _ => Some t | F0Const c => Some (const_ctype c) | _ => None end
  else if empty_name (isrc2 i) then match ifn i with F1 _ tout _ => Some tout | _ => None end
  else match ifn i with F2 t _ => Some t | _ => None end.

Definition no_builtin (fn : afn) : bool := match fn with FBuiltin _ => false | _ => true end.

Lemma scatter_ok_len : forall index base vals arr, scatter base index vals = Ok arr -> length index <= length vals.
Proof.
  induction index as [|p index IH]; intros base vals arr H; [simpl; lia|].
  destruct vals as [|v vals]; [discriminate|]. simpl in H. destruct (p <? length base); [|discriminate].
  apply IH in H. simpl. lia.
Qed.

(* the array filled by an Apply loop that ran without fault is a column of the function's type with the
   zero value at every position outside the index *)
Lemma scatter_col_inv t n index vals cells c :
  t <> TEnum -> NoDup index -> Forall (fun p => p < n) index ->
  Forall (fun y => cell_type_ok t y = true) vals ->
  scatter (repeat (zero_cell t) n) index vals = Ok cells -> col_of_cells t cells = Ok c ->
  col_type c = t /\ col_len c = n /\ (forall q, q < n -> ~ In q index -> cell_at c q = Ok (zero_cell t)).
Proof.
  intros Ht Hnd Hin Htyped Hs Hc.
  destruct (scatter_col t n index vals Ht Hnd Hin (scatter_ok_len _ _ _ _ Hs) Htyped)
    as [arr [r [Harr [Hr [Hrt [Hrl [_ Hout]]]]]]].
  rewrite Hs in Harr. inversion Harr; subst arr. rewrite Hc in Hr. inversion Hr; subst r. auto.
Qed.

Definition zero_outside_col (r : coldata) (index : list nat) (ty : ctype) : Prop :=
  col_type r = ty /\ forall q, q < col_len r -> ~ In q index -> cell_at r q = Ok (zero_cell ty).

(* one instruction that ran without fault and without Err: the frame is unchanged (copy onto itself) or got one
   column of the physical length through setColumn under a legal name; a function's column is zero outside the index *)
Lemma apply_instr_shape ut f i g :
  apply_instr ut f i = Ok g -> ferr f = false -> ferr g = false -> fr_ok f ->
  afn_wf (ifn i) = true -> no_builtin (ifn i) = true ->
  (g = f /\ fun_instr i = None)
  \/ exists r, g = set_column f (idst i) r /\ check_name (idst i) = true /\ col_ok (phys_len f) r
               /\ forall ty, fun_instr i = Some ty -> zero_outside_col r (ix f) ty.
Proof.
  intros H Hf Hg [Hwf Hnd] Hfn Hnb.
  pose proof Hwf as Hwf'. apply wf_frame_iff in Hwf' as [_ Hi].
  assert (Hname : forall r, g = set_column f (idst i) r -> check_name (idst i) = true).
  { intros r ->. destruct (check_name (idst i)) eqn:E; [reflexivity|]. rewrite set_column_bad in Hg by exact E. discriminate. }
  destruct i as [fn dst s1 s2]. unfold apply_instr, fun_instr in *. cbn [ifn idst isrc1 isrc2] in *.
  destruct (empty_name s1) eqn:E1; [|destruct (empty_name s2) eqn:E2].
  - unfold apply0 in H. rewrite Hf in H.
    destruct fn as [ty vals|c|src|tin tout tbl|ty tbl|nm|]; try (inversion H; subst g; discriminate).
    + simpl in Hfn. apply andb_true_iff in Hfn as [Hte Hty].
      destruct (ctype_eqb ty TEnum) eqn:Ete; [discriminate|].
      assert (Hte' : ty <> TEnum) by (intro; subst; discriminate).
      destruct (scatter _ _ _) as [cells| |] eqn:Es; cbn [obind] in H; try discriminate.
      destruct (col_of_cells ty cells) as [c| |] eqn:Ec; cbn [obind] in H; try discriminate.
      inversion H; subst g. right. exists c. split; [reflexivity|]. split; [apply (Hname c eq_refl)|].
      assert (Htyped : Forall (fun y => cell_type_ok ty y = true) vals) by (apply Forall_forall; apply forallb_forall; exact Hty).
      destruct (scatter_col_inv ty (phys_len f) (ix f) vals cells c Hte' Hnd Hi Htyped Es Ec) as [H1 [H2 H3]].
      split; [split; [exact H2|apply col_wf_nonenum; congruence]|].
      intros ty' Hty'. inversion Hty'; subst ty'. split; [exact H1|]. rewrite H2. exact H3.
    + assert (Hc : forall s, c <> CEnum s) by (intros s ->; discriminate).
      destruct (apply0_const_spec f c dst Hf Hc Hi) as [r [Hr [Hrt [Hrl [_ [_ Hout]]]]]].
      assert (Ha : apply0 f (F0Const c) dst = Ok g) by (unfold apply0; rewrite Hf; exact H).
      rewrite Hr in Ha. inversion Ha; subst g. right. exists r. split; [reflexivity|]. split; [apply (Hname r eq_refl)|].
      split; [split; [exact Hrl|apply col_wf_nonenum; rewrite Hrt; destruct c; simpl; congruence]|].
      intros ty' Hty'. inversion Hty'; subst ty'. split; [exact Hrt|]. rewrite Hrl. intros q Hq Hnotin.
      destruct (Nat.eq_dec (length (ix f)) (phys_len f)) as [Hlen|Hlen].
      * exfalso. apply Hnotin. apply (full_index_covers (phys_len f) (ix f) Hnd Hi Hlen q Hq).
      * apply (Hout Hlen q Hq Hnotin).
    + inversion H; subst g. clear H. unfold copy in *. rewrite Hf in *.
      destruct (lookup_col f src) as [c|] eqn:El; [|discriminate].
      destruct (bytes_eqb dst src); [left; auto|].
      right. exists c. split; [reflexivity|]. split; [apply (Hname c eq_refl)|].
      split; [apply (lookup_col_ok f src c Hwf El)|discriminate].
  - unfold apply1 in H. rewrite Hf in H.
    destruct (lookup_col f s1) as [c|] eqn:El; [|inversion H; subst g; discriminate].
    destruct (col_apply1 ut c fn (ix f)) as [r| |] eqn:Ea; try discriminate; [|inversion H; subst g; discriminate].
    inversion H; subst g. clear H. right. exists r. split; [reflexivity|]. split; [apply (Hname r eq_refl)|].
    destruct (wf_ix_col f s1 c Hwf El) as [Hclen Hin].
    destruct fn as [ty vals|c0|src|tin tout tbl|ty tbl|nm|]; try discriminate.
    unfold col_apply1 in Ea.
    destruct (ctype_eqb (col_ftype c) tin && negb (ctype_eqb tout TEnum)) eqn:Esig; [|discriminate].
    apply andb_true_iff in Esig as [_ Hte]. assert (Hte' : tout <> TEnum) by (intro; subst; discriminate).
    destruct (omap _ (ix f)) as [vals| |] eqn:Ev; cbn [obind] in Ea; try discriminate.
    destruct (scatter _ _ _) as [cells| |] eqn:Es; cbn [obind] in Ea; try discriminate.
    assert (Htyped : Forall (fun y => cell_type_ok tout y = true) vals).
    { apply (omap_Forall _ _ _ _ Ev). intros p b _ Hb. destruct (cell_at c p) as [x| |]; simpl in Hb; try discriminate.
      apply (tbl1_typed tout tbl x b Hfn Hb). }
    destruct (scatter_col_inv tout (col_len c) (ix f) vals cells r Hte' Hnd Hin Htyped Es Ea) as [H1 [H2 H3]].
    split; [split; [congruence|apply col_wf_nonenum; congruence]|].
    intros ty' Hty'. inversion Hty'; subst ty'. split; [exact H1|]. rewrite H2. exact H3.
  - unfold apply2 in H. rewrite Hf in H.
    destruct (lookup_col f s1) as [c1|] eqn:El1; [|inversion H; subst g; discriminate].
    destruct (lookup_col f s2) as [c2|] eqn:El2; [|inversion H; subst g; discriminate].
    destruct (col_apply2 c1 c2 fn (ix f)) as [r| |] eqn:Ea; try discriminate; [|inversion H; subst g; discriminate].
    inversion H; subst g. clear H. right. exists r. split; [reflexivity|]. split; [apply (Hname r eq_refl)|].
    destruct (wf_ix_col f s1 c1 Hwf El1) as [Hclen Hin].
    unfold col_apply2 in Ea. destruct (negb (ctype_eqb (col_type c1) (col_type c2))); [discriminate|].
    destruct fn as [ty vals|c0|src|tin tout tbl|ty tbl|nm|]; try discriminate.
    destruct (ctype_eqb (col_ftype c1) ty) eqn:Ety; [|discriminate].
    pose proof (col_ftype_not_enum c1 ty Ety) as Hte'.
    destruct (omap _ (ix f)) as [vals| |] eqn:Ev; cbn [obind] in Ea; try discriminate.
    destruct (scatter _ _ _) as [cells| |] eqn:Es; cbn [obind] in Ea; try discriminate.
    assert (Htyped : Forall (fun y => cell_type_ok ty y = true) vals).
    { apply (omap_Forall _ _ _ _ Ev). intros p b _ Hb. destruct (cell_at c1 p) as [x| |]; simpl in Hb; try discriminate.
      destruct (cell_at c2 p) as [y| |]; simpl in Hb; try discriminate.
      apply (tbl2_typed ty tbl x y b Hfn Hb). }
    destruct (scatter_col_inv ty (col_len c1) (ix f) vals cells r Hte' Hnd Hin Htyped Es Ea) as [H1 [H2 H3]].
    split; [split; [congruence|apply col_wf_nonenum; congruence]|].
    intros ty' Hty'. inversion Hty'; subst ty'. split; [exact H1|]. rewrite H2. exact H3.
Qed.

Lemma apply_instr_inv ut f i g :
  apply_instr ut f i = Ok g -> ferr f = false -> ferr g = false -> fr_ok f ->
  afn_wf (ifn i) = true -> no_builtin (ifn i) = true ->
  fr_ok g /\ ix g = ix f /\ phys_len g = phys_len f.
Proof.
  intros H Hf Hg Hok Hfn Hnb.
  destruct (apply_instr_shape ut f i g H Hf Hg Hok Hfn Hnb) as [[-> _]|[r [-> [Hn [Hr _]]]]]; [auto|].
  destruct Hok as [Hwf Hnd]. destruct (set_column_spec f (idst i) r Hn) as [H1 _].
  split; [split; [apply wf_set_column; assumption|rewrite H1; exact Hnd]|].
  split; [exact H1|apply phys_len_set_column; [exact Hn|apply Hr]].
Qed.

Definition zero_outside (g : frame) (index : list nat) (m : bytes) (ty : ctype) : Prop :=
  exists r, lookup_col g m = Some r /\ zero_outside_col r index ty.

Lemma apply_keeps_zero ut is f g m index ty :
  apply ut f is = Ok g -> ferr g = false -> (forall j, In j is -> bytes_eqb (idst j) m = false) ->
  zero_outside f index m ty -> zero_outside g index m ty.
Proof.
  intros H Hg Hm [r [Hl Hz]]. exists r. split; [|exact Hz].
  unfold lookup_col. rewrite (apply_other_cols ut is f g m H Hg Hm). exact Hl.
Qed.

(* a program of user functions, constants and copies: the column a function instruction wrote, if no later
   instruction overwrites it, is zero at every physical position outside the row index *)
Theorem apply_zero_outside ut : forall is f g,
  apply ut f is = Ok g -> ferr f = false -> ferr g = false -> fr_ok f ->
  forallb (fun i => afn_wf (ifn i) && no_builtin (ifn i)) is = true ->
  (fr_ok g /\ ix g = ix f /\ phys_len g = phys_len f) /\
  forall pre i post ty, is = pre ++ i :: post ->
    (forall j, In j post -> bytes_eqb (idst j) (idst i) = false) ->
    fun_instr i = Some ty -> zero_outside g (ix f) (idst i) ty.
Proof.
  induction is as [|j is IH]; intros f g H Hf Hg Hok Hall.
  - inversion H; subst g. split; [auto|]. intros pre i post ty Hs. destruct pre; discriminate.
  - simpl in Hall. apply andb_true_iff in Hall as [Hj Hall]. apply andb_true_iff in Hj as [Hfn Hnb].
    rewrite apply_cons in H. destruct (apply_instr ut f j) as [g1| |] eqn:E1; try discriminate.
    assert (Hg1 : ferr g1 = false).
    { destruct (ferr g1) eqn:E; [|reflexivity]. rewrite (apply_err ut g1 is E) in H. inversion H; subst. congruence. }
    destruct (apply_instr_inv ut f j g1 E1 Hf Hg1 Hok Hfn Hnb) as [Hok1 [Hix1 Hp1]].
    destruct (IH g1 g H Hg1 Hg Hok1 Hall) as [[Hokg [Hixg Hpg]] Hz].
    split; [split; [exact Hokg|split; congruence]|].
    intros pre i post ty Hs Hpost Hfun. destruct pre as [|j' pre]; simpl in Hs; inversion Hs; subst.
    + apply (apply_keeps_zero ut post g1 g (idst i) (ix f) ty H Hg Hpost).
      destruct (apply_instr_shape ut f i g1 E1 Hf Hg1 Hok Hfn Hnb) as [[_ Hnone]|[r [-> [Hn [_ Hzr]]]]]; [congruence|].
      exists r. split; [|apply Hzr; exact Hfun].
      destruct (set_column_spec f (idst i) r Hn) as [_ [_ [H3 _]]]. exact H3.
    + rewrite <- Hix1. apply (Hz pre i post ty eq_refl Hpost Hfun).
Qed.

(* FilteredApply: in the destination column of a function instruction (not overwritten later) the rows of the
   frame that do NOT match the clause hold the zero value of the function's result type *)
Theorem filtered_apply_zero mt ut f c is keep g :
  ferr f = false -> fr_ok f ->
  forallb (fun i => afn_wf (ifn i) && no_builtin (ifn i)) is = true ->
  frame_filter mt f c = Ok (with_ix f (filter keep (ix f))) ->
  filtered_apply mt ut f c is = Ok g -> ferr g = false ->
  forall pre i post ty, is = pre ++ i :: post ->
    (forall j, In j post -> bytes_eqb (idst j) (idst i) = false) ->
    fun_instr i = Some ty ->
    exists r, lookup_col g (idst i) = Some r /\ col_type r = ty
              /\ forall q, In q (ix f) -> keep q = false -> cell_at r q = Ok (zero_cell ty).
Proof.
  intros Hf Hok Hall Hflt H Hg pre i post ty Hs Hpost Hfun.
  unfold filtered_apply in H. rewrite Hflt in H. cbn [obind] in H.
  change (ferr (with_ix f (filter keep (ix f)))) with (ferr f) in H. rewrite Hf in H.
  change (with_ix f (ix (with_ix f (filter keep (ix f))))) with (with_ix f (filter keep (ix f))) in H.
  set (fs := with_ix f (filter keep (ix f))) in *.
  destruct (apply ut fs is) as [r0| |] eqn:Er; cbn [obind] in H; try discriminate.
  inversion H; subst g. clear H. change (ferr (with_ix r0 (ix f))) with (ferr r0) in Hg.
  destruct (apply_zero_outside ut is fs r0 Er Hf Hg (fr_ok_filter f keep Hok) Hall) as [[[Hwf0 _] [_ Hp0]] Hz].
  destruct (Hz pre i post ty Hs Hpost Hfun) as [r [Hl [Hty Hzero]]].
  exists r. split; [exact Hl|]. split; [exact Hty|].
  intros q Hq Hk. apply Hzero.
  - destruct (lookup_col_ok r0 (idst i) r Hwf0 Hl) as [Hlen _]. rewrite Hlen, Hp0.
    change (phys_len fs) with (phys_len f). destruct Hok as [Hwf _]. apply wf_frame_iff in Hwf as [_ Hi].
    rewrite Forall_forall in Hi. apply Hi. exact Hq.
  - change (ix fs) with (filter keep (ix f)). intro Hin. apply filter_In in Hin as [_ Hin]. congruence.
Qed.
