(* Proofs/GenFilterDispatchProofs.v — the definitions GENERATED from QFrame.filter (qframe.go), the Filter /
   filterBuiltIn methods of the five column types and their helpers (Gen/GenFilterDispatch.v, translator
   tools/qf2coq/filterdisp.go) equal the hand-written model of Model/Filter.v (col_filter, filter_leaf,
   filter_leaves), function by function, for all inputs.

   Instantiation of the abstract vocabulary of the generated code with the model:
     A = nat (row ids), E = unit (the model keeps only the error flag), FT = N (float64 bit patterns),
     SC = list (option bytes) (scolumn), SS = list bytes (StringSet), BS = bitset, FN1 / FN2 = the answer tables
     of the custom predicates, F = frame;  math.IsNaN = f_isnan, float64(i) = i2f, int(x) = f2i — ANY function
     N -> Z: the model carries int(x) next to the bits of every float argument (AFloat b t), the representation
     relation arg_ok f2i says t = f2i b;  NewStringSet = the identity.
   The loop kernels are the boundary of the translation: calling the entry `name` of a comparator table is
   instantiated with the model's run of the generated kernel of that name (Gen/GenKernels.v) in the environment
   the model builds for that table; a kernel that returns an error (scolumn, filterCustom2) answers
   (Some tt, unchanged mask) where the model answers Fail (to_go).
   Representation of the model's values as Go values: col_go (coldata -> gd_column), arg_go (farg -> gd_any),
   rarg_go, cmp_go (fcmp -> gd_any), leaf_go (leaf -> gd_Filter); the result of Filter: res_go b r =
   Ok (nil, mask) for Ok mask, Ok (error, b) for Fail — the mask is untouched when an error is returned —, Panic
   for Panic.
   Fuel: only newIntSet is recursive (depth 2: []interface{} -> []int); every statement that can reach it holds
   for every fuel >= 2.
   Enum columns: enumVal(i) is a uint8, so the equality with the model needs length values <= 256 (col_okE; the
   factory never builds more than 255).  The kernels see the ranks only.  like / ilike / in of ecolumn (the bitset
   builders filterLike / in) are entries of comparator tables, i.e. boundary: m_eLike, m_eIn.
   Composition: gc_filter_ext (the generated clause dispatcher gives the same answer for two column levels that
   agree on frames with the columns of the start frame; filtering never touches the columns) and
   g_QFrame_Filter_eq' (generated QFrame.Filter over generated QFrame.filter = frame_filter). *)
From QF Require Import Base.Prelude Base.KernelSyntax Gen.GenConsts Gen.GenTables Gen.GenKernels.
From QF Require Import Gen.GenFilterClause Gen.GenFilterDispatch.
From QF Require Import Model.Frame Model.Bits Model.Kernel Model.Filter Proofs.GenFilterClauseProofs.
Local Open Scope Z_scope.

(* ------------------------------------------------------------------ helpers *)

Lemma gdp_index {T} (l : list T) (n : nat) : gd_index l (Z.of_nat n) = of_option (nth_error l n).
Proof. unfold gd_index, idx. destruct (Z.of_nat n <? 0) eqn:E; [lia|]. now rewrite Nat2Z.id. Qed.

Lemma gdp_assoc {V} (k : bytes) (t : list (bytes * V)) : gd_assoc k t = assocb k t.
Proof. induction t as [|[n v] t IH]; cbn; [reflexivity|]. now rewrite IH. Qed.

Lemma gdp_set_nth_mid {T} (pre : list T) r rest v : set_nth (pre ++ r :: rest) (length pre) v = (pre ++ [v]) ++ rest.
Proof. induction pre as [|p pre IH]; cbn [app length set_nth]; [reflexivity|now rewrite IH]. Qed.

Lemma gdp_update_mid {T} (pre : list T) r rest v :
  gd_update (pre ++ r :: rest) (Z.of_nat (length pre)) v = Ok ((pre ++ [v]) ++ rest).
Proof.
  unfold gd_update. destruct (Z.of_nat (length pre) <? 0) eqn:E; [lia|]. rewrite Nat2Z.id.
  unfold idx. rewrite nth_error_app2 by lia. rewrite Nat.sub_diag. cbn [nth_error of_option obind].
  now rewrite gdp_set_nth_mid.
Qed.

Lemma gdp_len_snoc {T} (pre : list T) v : Z.of_nat (length pre) + 1 = Z.of_nat (length (pre ++ [v])).
Proof. rewrite app_length. cbn. lia. Qed.

(* ------------------------------------------------------------------ the kernels never answer Fail *)

Definition env_nf (env : kenv) : Prop := (forall n p, k_cell env n p <> Fail) /\ (forall vs, k_fn env vs <> Fail).

Lemma obind_nf {X Y} (x : outcome X) (f : X -> outcome Y) : x <> Fail -> (forall a, f a <> Fail) -> obind x f <> Fail.
Proof. intros Hx Hf. destruct x; cbn; [apply Hf|congruence|discriminate]. Qed.

Lemma as_bool_nf v : as_bool v <> Fail.
Proof. destruct v; discriminate. Qed.

Lemma kcompare_nf w a b : kcompare w a b <> Fail.
Proof.
  unfold kcompare, cmp3. destruct a, b; try discriminate;
    repeat match goal with |- context [match ?x with _ => _ end] => destruct x end; discriminate.
Qed.

Section NoFail.
  Variable env : kenv.
  Hypothesis Henv : env_nf env.

  Lemma keval_nf p : forall e, keval env p e <> Fail.
  Proof.
    destruct Henv as [Hc Hf]. fix IH 1. intro e.
    destruct e as [n| |z| | |a b|a b|a b|a b|a b|a b|a b|a b|a|a b|a|a|a|a|a|a|args|]; cbn [keval]; cbv zeta;
      try discriminate; try apply Hc;
      try (apply obind_nf; [apply IH|intro x]; apply obind_nf; [apply IH|intro y];
           apply obind_nf; [apply kcompare_nf|discriminate]).
    - apply obind_nf; [apply IH|intro x]. apply obind_nf; [apply as_bool_nf|intros [|]; [apply IH|discriminate]].
    - apply obind_nf; [apply IH|intro x]. apply obind_nf; [apply as_bool_nf|intros [|]; [discriminate|apply IH]].
    - apply obind_nf; [apply IH|intro x]. apply obind_nf; [apply as_bool_nf|discriminate].
    - apply obind_nf; [apply IH|intro x]. apply obind_nf; [apply IH|intro y]. destruct x, y; discriminate.
    - apply obind_nf; [apply IH|intro x]. destruct x; discriminate.
    - apply obind_nf; [apply IH|intro x]. destruct x as [| | |s| |]; try discriminate.
    - apply obind_nf; [apply IH|intro x]. destruct x; discriminate.
    - apply obind_nf; [apply IH|intro x]. discriminate.
    - apply obind_nf; [apply IH|intro x]. destruct x; discriminate.
    - apply obind_nf; [apply IH|intro x]. destruct x; discriminate.
    - apply obind_nf.
      + induction args as [|a args IHa]; [discriminate|].
        apply obind_nf; [apply IH|intro v]. apply obind_nf; [exact IHa|discriminate].
      + intro vs. apply obind_nf; [apply Hf|discriminate].
  Qed.

  Lemma guarded_loop_nf c e : forall b index, guarded_loop env c e index b <> Fail.
  Proof.
    induction b as [|x b IH]; intros index; cbn [guarded_loop]; [discriminate|].
    destruct index as [|p index].
    - destruct x; [|discriminate]. apply obind_nf; [apply IH|discriminate].
    - apply obind_nf; [apply IH|intro r]. destruct x; [discriminate|].
      apply obind_nf.
      + destruct c as [ce|]; [|discriminate]. apply obind_nf; [apply keval_nf|intro v; apply as_bool_nf].
      + intros [|]; [|discriminate]. apply obind_nf; [apply keval_nf|intro v].
        apply obind_nf; [apply as_bool_nf|discriminate].
  Qed.

  Lemma run_kernel_nf d k index b : run_kernel d env k index b <> Fail.
  Proof.
    unfold run_kernel.
    assert (Hd : forall k0, match k0 with
                            | KNoOp => Ok b | KFill v => Ok (map (fun _ => v) b)
                            | KGuarded _ e => guarded_loop env None e index b
                            | KGuardedIf _ c e => guarded_loop env (Some c) e index b
                            | KDelegate _ _ => Panic end <> Fail).
    { intros [| |pr e|pr c e|fn fl]; try discriminate; apply guarded_loop_nf. }
    destruct k as [|v|pr e|pr c e|fn fl];
      [apply (Hd KNoOp)|apply (Hd (KFill v))|apply (Hd (KGuarded pr e))|apply (Hd (KGuardedIf pr c e))|].
    destruct (d fn) as [k'|]; [apply Hd|discriminate].
  Qed.

  Lemma run_nf letter fname index b : run letter fname env index b <> Fail.
  Proof. unfold run. destruct (kernel_named g_kernels (kname letter fname)); [apply run_kernel_nf|discriminate]. Qed.
End NoFail.

Lemma idx_nf {T} (l : list T) p : idx l p <> Fail.
Proof. unfold idx, of_option. destruct (nth_error l p); discriminate. Qed.

Lemma raw_kval_nf c p : raw_kval c p <> Fail.
Proof. destruct c; cbn [raw_kval]; (apply obind_nf; [apply idx_nf|discriminate]). Qed.

Lemma ptr_kval_nf c p : ptr_kval c p <> Fail.
Proof.
  unfold ptr_kval. apply obind_nf; [|discriminate].
  destruct c; cbn [cell_at]; (apply obind_nf; [apply idx_nf|intro]); try discriminate.
  apply obind_nf; [|discriminate]. unfold enum_string. destruct (enum_is_null a); [discriminate|].
  apply obind_nf; [apply idx_nf|discriminate].
Qed.

Lemma base_env_nf x y k : env_nf (base_env x y k).
Proof.
  split; cbn; [|discriminate]. intros [|n] p; [apply raw_kval_nf|]. destruct y; [apply raw_kval_nf|discriminate].
Qed.

(* only the cells and the predicate matter *)
Lemma env_nf_same env env' : k_cell env' = k_cell env -> k_fn env' = k_fn env -> env_nf env -> env_nf env'.
Proof. intros H1 H2 [Hc Hf]. split; [rewrite H1|rewrite H2]; assumption. Qed.

Lemma fn1_env_nf c tbl : env_nf (fn1_env c tbl).
Proof.
  split; cbn.
  - intros [|n] p; [apply ptr_kval_nf|discriminate].
  - intros [|v [|w vs]]; try discriminate. destruct (find _ tbl); discriminate.
Qed.

Lemma fn2_env_nf c c2 tbl : env_nf (fn2_env c c2 tbl).
Proof.
  split; cbn.
  - intros [|n] p; apply ptr_kval_nf.
  - intros [|v [|w [|u vs]]]; try discriminate. destruct (find _ tbl); discriminate.
Qed.

(* ------------------------------------------------------------------ representation of model values as Go values *)

Notation SCm := (list (option bytes)).
Notation FN1m := (list (cell * bool)).
Notation FN2m := (list (cell * cell * bool)).
Notation gcolumn := (@gd_column N SCm).
Notation gany := (@gd_any N SCm FN1m FN2m).
Notation gfilter := (@gd_Filter N SCm FN1m FN2m).

Definition col_go (c : coldata) : gcolumn :=
  match c with
  | ICol d => gd_col_icolumn d
  | FCol d => gd_col_fcolumn d
  | BCol d => gd_col_bcolumn d
  | SCol d => gd_col_scolumn d
  | ECol d vs st => gd_col_ecolumn d vs st
  end.

Fixpoint arg_go (a : farg) : gany :=
  match a with
  | AInt z => gd_any_int z
  | AFloat b _ => gd_any_float64 b
  | ABool b => gd_any_bool b
  | AStr s => gd_any_string s
  | AInts l => gd_any_ints l
  | AFloats l => gd_any_float64s (map fst l)
  | AStrs l => gd_any_strings l
  | AIfaces l => gd_any_anys (map arg_go l)
  | AColName n => gd_any_ColumnName n
  | ANil => gd_any_nil
  | AOther => gd_any_other
  end.

Definition rarg_go (a : rarg) : gany :=
  match a with RConst c => arg_go c | RCol c => gd_any_col (col_go c) end.

Definition cmp_go (c : fcmp) : gany :=
  match c with
  | CmpName s => gd_any_string s
  | CmpFn1 TInt tbl => gd_any_func_int tbl
  | CmpFn1 TFloat tbl => gd_any_func_float64 tbl
  | CmpFn1 TBool tbl => gd_any_func_bool tbl
  | CmpFn1 TString tbl => gd_any_func_pstring tbl
  | CmpFn2 TInt tbl => gd_any_func2_int tbl
  | CmpFn2 TFloat tbl => gd_any_func2_float64 tbl
  | CmpFn2 TBool tbl => gd_any_func2_bool tbl
  | CmpFn2 TString tbl => gd_any_func2_pstring tbl
  | _ => gd_any_other      (* no Go function type is written TEnum; any other comparator *)
  end.

Definition leaf_go (l : leaf) : gfilter := gd_mk_Filter (cmp_go (lcmp l)) (lcol l) (arg_go (larg l)) (linv l).

(* the recorded int(x) of every float argument is what the conversion gives *)
Section ArgOk.
  Variable f2i : N -> Z.
  Fixpoint arg_ok (a : farg) : Prop :=
    match a with
    | AFloat b t => t = f2i b
    | AFloats l => Forall (fun bt => snd bt = f2i (fst bt)) l
    | AIfaces l => (fix all (l : list farg) : Prop := match l with [] => True | x :: l' => arg_ok x /\ all l' end) l
    | _ => True
    end.
  Definition rarg_ok (a : rarg) : Prop := match a with RConst c => arg_ok c | RCol _ => True end.
End ArgOk.

(* the answer of a Filter method: (error, final mask); the mask is untouched when an error is returned *)
Definition res_go (b : list bool) (r : outcome (list bool)) : outcome (option unit * list bool) :=
  match r with Ok b' => Ok (None, b') | Fail => Ok (Some tt, b) | Panic => Panic end.

(* a kernel that can return an error *)
Definition to_go := res_go.

Definition m_propagate (_ : bytes) (_ : option unit) : unit := tt.
Definition m_sprintf (f : bytes) (_ : list bytes) : bytes := f.

(* ------------------------------------------------------------------ the boundary, instantiated with the model *)

Definition in_env (env : kenv) (s : list Z) : kenv :=
  mkKenv (k_cell env) VBad (fun v => existsb (kval_eqb v) (map VZ s)) (k_match env) (k_bitset env) (k_fn env).

(* icolumn: filterFuncs, multiInputFilterFuncs, filterFuncs2, filterFuncs0, filterCustom1, filterCustom2 *)
Definition m_i1 (fname : bytes) (index : list nat) (d : list Z) (z : Z) (b : list bool) :=
  run L_i fname (base_env (ICol d) None (VZ z)) index b.
Definition m_iN (fname : bytes) (index : list nat) (d : list Z) (s : list Z) (b : list bool) :=
  run L_i fname (in_env (base_env (ICol d) None VBad) s) index b.
Definition m_i2 (fname : bytes) (index : list nat) (d d2 : list Z) (b : list bool) :=
  run L_i fname (base_env (ICol d) (Some (ICol d2)) VBad) index b.
Definition m_i0 (fname : bytes) (index : list nat) (d : list Z) (b : list bool) :=
  run L_i fname (base_env (ICol d) None VBad) index b.

(* filterCustom1 / filterCustom2 of the column c: the second one asserts that the comparatee is a column of its type *)
Definition m_c1 (c : coldata) (index : list nat) (tbl : FN1m) (b : list bool) :=
  run (letter_of c) fname_custom1 (fn1_env c tbl) index b.
Definition m_c2 (c : coldata) (other : gany -> option coldata) (index : list nat) (tbl : FN2m) (a : gany) (b : list bool) :=
  to_go b (match other a with
           | Some c2 => run (letter_of c) fname_custom2 (fn2_env c c2 tbl) index b
           | None => Fail
           end).
Definition other_i (a : gany) : option coldata := match a with gd_any_col (gd_col_icolumn d) => Some (ICol d) | _ => None end.
Definition other_f (a : gany) : option coldata := match a with gd_any_col (gd_col_fcolumn d) => Some (FCol d) | _ => None end.
Definition other_b (a : gany) : option coldata := match a with gd_any_col (gd_col_bcolumn d) => Some (BCol d) | _ => None end.
Definition other_s (a : gany) : option coldata := match a with gd_any_col (gd_col_scolumn d) => Some (SCol d) | _ => None end.
Definition other_e (a : gany) : option coldata :=
  match a with gd_any_col (gd_col_ecolumn d vs st) => Some (ECol d vs st) | _ => None end.

Local Arguments base_env : simpl never.
Local Arguments fn1_env : simpl never.
Local Arguments fn2_env : simpl never.
Local Arguments run : simpl never.
Local Arguments fname_custom1 : simpl never.
Local Arguments fname_custom2 : simpl never.
Local Arguments fname_filterWithBitset : simpl never.
Local Arguments gd_assoc : simpl never.
Local Arguments assocb : simpl never.

Ltac nf_env :=
  first [ apply base_env_nf | apply fn1_env_nf | apply fn2_env_nf
        | (eapply env_nf_same; [reflexivity|reflexivity|apply base_env_nf]) ].

(* case analysis on the answer of a kernel run: Fail is impossible *)
Ltac on_run :=
  match goal with
  | |- context [run ?l ?f ?env ?i ?b] =>
      let R := fresh "R" in
      destruct (run l f env i b) eqn:R; cbn;
      [ | exfalso; revert R; apply run_nf; nf_env | ]
  end.

Section IntColumn.
  Variable f2i : N -> Z.

  Notation G_intComp := (@gd_i_intComp N SCm FN1m FN2m f2i i2f).
  Notation G_ifaceInts := (@gd_i_interfaceSliceToIntSlice N SCm FN1m FN2m f2i).
  Notation G_newIntSet := (@gd_i_newIntSet N SCm FN1m FN2m f2i).
  Notation G_i_builtin := (@gd_i_Column_filterBuiltIn nat unit N SCm FN1m FN2m m_new_error f2i i2f m_i1 m_iN m_i2 m_i0).
  Notation G_i_Filter := (@gd_i_Column_Filter nat unit N SCm FN1m FN2m m_new_error f2i i2f m_i1 m_iN m_i2 m_i0
                            (fun d => m_c1 (ICol d)) (fun d => m_c2 (ICol d) other_i)).

  Lemma gd_i_intComp_eq (a : farg) : arg_ok f2i a ->
    G_intComp (arg_go a) = Ok (match int_comp a with Some z => (z, true) | None => (0, false) end).
  Proof. intro H. destruct a; cbn in *; try reflexivity. now subst. Qed.

  Lemma gd_i_intComp_col (c : coldata) : G_intComp (gd_any_col (col_go c)) = Ok (0, false).
  Proof. reflexivity. Qed.

  Lemma gd_i_ifaceInts_loop (l : list farg) : forall pre : list Z,
    arg_ok f2i (AIfaces l) ->
    gd_i_interfaceSliceToIntSlice_loop1 f2i (map arg_go l) (Z.of_nat (length pre)) (pre ++ repeat 0 (length l))
    = Ok (match iface_ints l with Some r => (pre ++ r, true) | None => ([], false) end).
  Proof.
    induction l as [|a l IH]; intros pre H.
    - cbn. now rewrite app_nil_r.
    - destruct H as [Ha Hl]. cbn [map length repeat gd_i_interfaceSliceToIntSlice_loop1 iface_ints].
      destruct a; cbn [arg_go obind]; try (destruct (iface_ints l); reflexivity).
      + rewrite gdp_update_mid. cbn [obind]. rewrite (gdp_len_snoc pre z), (IH (pre ++ [z]) Hl).
        destruct (iface_ints l); [|reflexivity]. now rewrite <- app_assoc.
      + cbn in Ha. subst trunc. rewrite gdp_update_mid. cbn [obind]. rewrite (gdp_len_snoc pre (f2i b)), (IH (pre ++ [f2i b]) Hl).
        destruct (iface_ints l); [|reflexivity]. now rewrite <- app_assoc.
  Qed.

  Lemma gd_i_ifaceInts_eq (l : list farg) : arg_ok f2i (AIfaces l) ->
    G_ifaceInts (map arg_go l) = Ok (match iface_ints l with Some r => (r, true) | None => ([], false) end).
  Proof.
    intro H. unfold gd_i_interfaceSliceToIntSlice. rewrite map_length.
    exact (gd_i_ifaceInts_loop l [] H).
  Qed.

  Lemma gd_i_newIntSet_loop1_eq (l res : list Z) : gd_i_newIntSet_loop1 l res = Ok (res ++ l).
  Proof.
    revert res; induction l as [|x l IH]; intro res; cbn; [now rewrite app_nil_r|].
    unfold gd_set_add. rewrite IH. now rewrite <- app_assoc.
  Qed.

  Lemma gd_i_newIntSet_loop2_eq (l : list (N * Z)) (res : list Z) :
    Forall (fun bt => snd bt = f2i (fst bt)) l ->
    gd_i_newIntSet_loop2 f2i (map fst l) res = Ok (res ++ map snd l).
  Proof.
    revert res; induction l as [|x l IH]; intros res H; cbn; [now rewrite app_nil_r|].
    inversion H as [|? ? Hx Hl]; subst. unfold gd_set_add. rewrite (IH _ Hl), <- Hx. now rewrite <- app_assoc.
  Qed.

  (* fuel: one level for []int / []float64, two for []interface{} (which is converted and handed on as []int) *)
  Lemma gd_i_newIntSet_eq (fuel : nat) (a : farg) : (2 <= fuel)%nat -> arg_ok f2i a ->
    G_newIntSet fuel (arg_go a) = Ok (match int_set a with Some s => (s, true) | None => ([], false) end).
  Proof.
    intros Hf H. destruct fuel as [|[|fuel]]; try lia.
    destruct a; cbn [arg_go gd_i_newIntSet int_set]; try reflexivity.
    - rewrite gd_i_newIntSet_loop1_eq. reflexivity.
    - rewrite (gd_i_newIntSet_loop2_eq _ _ H). reflexivity.
    - rewrite (gd_i_ifaceInts_eq _ H). cbn [obind].
      destruct (iface_ints l) as [r|]; cbn [obind]; [|reflexivity].
      rewrite gd_i_newIntSet_loop1_eq. reflexivity.
  Qed.

  Lemma gd_i_newIntSet_col (fuel : nat) (c : coldata) : (1 <= fuel)%nat ->
    G_newIntSet fuel (gd_any_col (col_go c)) = Ok ([], false).
  Proof. intro Hf. destruct fuel; [lia|]. reflexivity. Qed.

  (* Column.filterBuiltIn of icolumn = the model's i_filter_builtin *)
  Lemma gd_i_builtin_eq fuel d index cmp (a : rarg) b : (2 <= fuel)%nat -> rarg_ok f2i a ->
    G_i_builtin fuel d index cmp (rarg_go a) b = res_go b (i_filter_builtin d index cmp a b).
  Proof.
    intros Hf H. unfold gd_i_Column_filterBuiltIn, i_filter_builtin.
    destruct a as [c|c2]; cbn [rarg_go rarg_ok] in *.
    - rewrite (gd_i_intComp_eq c H). cbn [obind].
      destruct (int_comp c) as [z|] eqn:Ec.
      + unfold run_tbl, m_i1. rewrite gdp_assoc. destruct (assocb cmp t_i_filter1) as [fname|]; cbn; [|reflexivity].
        on_run; reflexivity.
      + rewrite (gd_i_newIntSet_eq fuel c Hf H). cbn [obind].
        destruct (int_set c) as [s|] eqn:Es.
        * unfold run_tbl, m_iN, in_env. rewrite gdp_assoc. destruct (assocb cmp t_i_filterN) as [fname|]; cbn; [|reflexivity].
          on_run; reflexivity.
        * destruct c; cbn in Ec, Es |- *; try discriminate; try reflexivity.
          unfold run_tbl, m_i0. rewrite gdp_assoc. destruct (assocb cmp t_i_filter0) as [fname|]; cbn; [|reflexivity].
          on_run; reflexivity.
    - destruct fuel as [|fuel]; [lia|]. destruct c2; cbn; try reflexivity.
      unfold run_tbl, m_i2. rewrite gdp_assoc. destruct (assocb cmp t_i_filter2) as [fname|]; cbn; [|reflexivity].
      on_run; reflexivity.
  Qed.

  (* Column.Filter of icolumn = the model's col_filter on an int column, for every comparator, argument, index, mask *)
  Theorem gd_i_Filter_eq mt fuel d index (cmp : fcmp) (a : rarg) b : (2 <= fuel)%nat -> rarg_ok f2i a ->
    G_i_Filter fuel d index (cmp_go cmp) (rarg_go a) b = res_go b (col_filter mt (ICol d) index cmp a b).
  Proof.
    intros Hf H. unfold gd_i_Column_Filter.
    destruct cmp as [s|t tbl|t tbl|]; cbn [cmp_go col_filter].
    - rewrite (gd_i_builtin_eq fuel d index s a b Hf H). destruct (i_filter_builtin d index s a b); reflexivity.
    - destruct t; cbn; try reflexivity. unfold m_c1. cbn [letter_of]. on_run; reflexivity.
    - destruct t; cbn; try reflexivity. unfold m_c2.
      destruct a as [c|c2]; [destruct c; reflexivity|].
      destruct c2; cbn; try reflexivity. on_run; reflexivity.
    - reflexivity.
  Qed.
End IntColumn.

(* ------------------------------------------------------------------ fcolumn, bcolumn *)

Definition m_f0 (fname : bytes) (index : list nat) (d : list N) (b : list bool) :=
  run L_f fname (base_env (FCol d) None VBad) index b.
Definition m_f1 (fname : bytes) (index : list nat) (d : list N) (v : N) (b : list bool) :=
  run L_f fname (base_env (FCol d) None (VF v)) index b.
Definition m_f2 (fname : bytes) (index : list nat) (d d2 : list N) (b : list bool) :=
  run L_f fname (base_env (FCol d) (Some (FCol d2)) VBad) index b.
Definition m_b1 (fname : bytes) (index : list nat) (d : list bool) (v : bool) (b : list bool) :=
  run L_b fname (base_env (BCol d) None (VB v)) index b.
Definition m_b2 (fname : bytes) (index : list nat) (d d2 : list bool) (b : list bool) :=
  run L_b fname (base_env (BCol d) (Some (BCol d2)) VBad) index b.

Notation G_f_builtin := (@gd_f_Column_filterBuiltIn nat unit N SCm FN1m FN2m m_new_error f_isnan m_f0 m_f1 m_f2).
Notation G_f_Filter := (@gd_f_Column_Filter nat unit N SCm FN1m FN2m m_new_error f_isnan m_f0 m_f1 m_f2
                          (fun d => m_c1 (FCol d)) (fun d => m_c2 (FCol d) other_f)).
Notation G_b_builtin := (@gd_b_Column_filterBuiltIn nat unit N SCm FN1m FN2m m_new_error m_b1 m_b2).
Notation G_b_Filter := (@gd_b_Column_Filter nat unit N SCm FN1m FN2m m_new_error m_b1 m_b2
                          (fun d => m_c1 (BCol d)) (fun d => m_c2 (BCol d) other_b)).

Ltac on_tbl t :=
  unfold run_tbl; rewrite ?gdp_assoc; destruct (assocb _ t) as [?fname|]; cbn; [on_run; reflexivity|reflexivity].

Lemma gd_f_builtin_eq d index cmp (a : rarg) b :
  G_f_builtin d index cmp (rarg_go a) b = res_go b (f_filter_builtin d index cmp a b).
Proof.
  unfold gd_f_Column_filterBuiltIn, f_filter_builtin.
  destruct a as [c|c2]; [destruct c|destruct c2]; cbn [rarg_go arg_go col_go]; try reflexivity.
  - destruct (f_isnan b0); [reflexivity|]. unfold m_f1. on_tbl t_f_filter1.
  - unfold m_f0. on_tbl t_f_filter0.
  - unfold m_f2. on_tbl t_f_filter2.
Qed.

Theorem gd_f_Filter_eq mt d index (cmp : fcmp) (a : rarg) b :
  G_f_Filter d index (cmp_go cmp) (rarg_go a) b = res_go b (col_filter mt (FCol d) index cmp a b).
Proof.
  unfold gd_f_Column_Filter.
  destruct cmp as [s|t tbl|t tbl|]; cbn [cmp_go col_filter].
  - rewrite (gd_f_builtin_eq d index s a b). destruct (f_filter_builtin d index s a b); reflexivity.
  - destruct t; cbn; try reflexivity. unfold m_c1. cbn [letter_of]. on_run; reflexivity.
  - destruct t; cbn; try reflexivity. unfold m_c2.
    destruct a as [c|c2]; [destruct c; reflexivity|].
    destruct c2; cbn; try reflexivity. on_run; reflexivity.
  - reflexivity.
Qed.

Lemma gd_b_builtin_eq d index cmp (a : rarg) b :
  G_b_builtin d index cmp (rarg_go a) b = res_go b (b_filter_builtin d index cmp a b).
Proof.
  unfold gd_b_Column_filterBuiltIn, b_filter_builtin.
  destruct a as [c|c2]; [destruct c|destruct c2]; cbn [rarg_go arg_go col_go]; try reflexivity.
  - unfold m_b1. on_tbl t_b_filter1.
  - unfold m_b2. on_tbl t_b_filter2.
Qed.

Theorem gd_b_Filter_eq mt d index (cmp : fcmp) (a : rarg) b :
  G_b_Filter d index (cmp_go cmp) (rarg_go a) b = res_go b (col_filter mt (BCol d) index cmp a b).
Proof.
  unfold gd_b_Column_Filter.
  destruct cmp as [s|t tbl|t tbl|]; cbn [cmp_go col_filter].
  - rewrite (gd_b_builtin_eq d index s a b). destruct (b_filter_builtin d index s a b); reflexivity.
  - destruct t; cbn; try reflexivity. unfold m_c1. cbn [letter_of]. on_run; reflexivity.
  - destruct t; cbn; try reflexivity. unfold m_c2.
    destruct a as [c|c2]; [destruct c; reflexivity|].
    destruct c2; cbn; try reflexivity. on_run; reflexivity.
  - reflexivity.
Qed.

(* ------------------------------------------------------------------ internal/strings: InterfaceSliceToStringSlice *)

Lemma gd_ifaceStrs_loop (l : list farg) : forall (pre : list bytes) (input : gany),
  gd_InterfaceSliceToStringSlice_loop1 (map arg_go l) (Z.of_nat (length pre)) input (pre ++ repeat (@nil N) (length l))
  = Ok (match iface_strs l with Some r => gd_any_strings (pre ++ r) | None => input end).
Proof.
  induction l as [|a l IH]; intros pre input.
  - reflexivity.
  - cbn [map length repeat gd_InterfaceSliceToStringSlice_loop1 iface_strs].
    destruct a; cbn [arg_go negb]; try reflexivity.
    rewrite gdp_update_mid. cbn [obind]. rewrite (gdp_len_snoc pre s), (IH (pre ++ [s]) input).
    destruct (iface_strs l); [|reflexivity]. now rewrite <- app_assoc.
Qed.

Lemma gd_ifaceStrs_eq (c : farg) : gd_InterfaceSliceToStringSlice (arg_go c) = Ok (arg_go (norm_strs c)).
Proof.
  destruct c; try reflexivity. cbn [arg_go norm_strs]. unfold gd_InterfaceSliceToStringSlice. cbv beta iota zeta. cbn [negb].
  rewrite map_length. pose proof (gd_ifaceStrs_loop l [] (gd_any_anys (map arg_go l))) as HL.
  cbn [length app Z.of_nat] in HL. rewrite HL. cbn [app].
  destruct (iface_strs l); reflexivity.
Qed.

Lemma gd_ifaceStrs_col (c : coldata) :
  @gd_InterfaceSliceToStringSlice N SCm FN1m FN2m (gd_any_col (col_go c)) = Ok (gd_any_col (col_go c)).
Proof. reflexivity. Qed.

(* ------------------------------------------------------------------ scolumn *)

Section StrColumn.
  Variable mt : matcher_table.

  Definition m_s0 (fname : bytes) (index : list nat) (d : SCm) (b : list bool) :=
    to_go b (run L_s fname (base_env (SCol d) None VBad) index b).
  (* like / ilike delegate to regexFilter, which builds the matcher first: its error is the filter's error *)
  Definition m_s1 (fname : bytes) (index : list nat) (d : SCm) (s : bytes) (b : list bool) :=
    to_go b (let env := base_env (SCol d) None (VS (Some s)) in
             match kernel_named g_kernels (kname L_s fname) with
             | Some (KDelegate _ flag) =>
                 match find_matcher mt s flag with
                 | Some (Some m) =>
                     run L_s fname (mkKenv (k_cell env) (k_const env) (k_inset env) m (k_bitset env) (k_fn env)) index b
                 | Some None => Fail
                 | None => Panic
                 end
             | _ => run L_s fname env index b
             end).
  Definition m_sN (fname : bytes) (index : list nat) (d : SCm) (l : list bytes) (b : list bool) :=
    to_go b (run L_s fname (str_set_env (base_env (SCol d) None VBad) l) index b).
  Definition m_s2 (fname : bytes) (index : list nat) (d d2 : SCm) (b : list bool) :=
    to_go b (run L_s fname (base_env (SCol d) (Some (SCol d2)) VBad) index b).

  Notation G_s_builtin := (@gd_s_Column_filterBuiltIn nat unit N SCm (list bytes) FN1m FN2m m_new_error (fun l => l) m_s0 m_s1 m_sN m_s2).
  Notation G_s_Filter := (@gd_s_Column_Filter nat unit N SCm (list bytes) FN1m FN2m m_new_error (fun l => l) m_s0 m_s1 m_sN m_s2
                            (fun d => m_c1 (SCol d)) (fun d => m_c2 (SCol d) other_s)).

  Ltac on_tbl_s t :=
    unfold run_tbl; rewrite ?gdp_assoc; destruct (assocb _ t) as [?fname|]; cbn [gd_lookup negb obind];
    [match goal with |- context [to_go ?b ?r] => destruct r; reflexivity end|reflexivity].

  Lemma gd_s_builtin_eq d index cmp (a : rarg) b :
    G_s_builtin d index cmp (rarg_go a) b = res_go b (s_filter_builtin mt d index cmp a b).
  Proof.
    unfold gd_s_Column_filterBuiltIn, s_filter_builtin.
    destruct a as [c|c2]; cbn [rarg_go].
    - rewrite gd_ifaceStrs_eq. cbn [obind].
      destruct (norm_strs c); cbn [arg_go]; try reflexivity.
      + rewrite gdp_assoc. destruct (assocb cmp t_s_filter1) as [fname|]; cbn [gd_lookup negb obind]; [|reflexivity].
        unfold m_s1. cbv zeta.
        match goal with |- context [to_go ?b ?r] => destruct r; reflexivity end.
      + unfold m_sN. on_tbl_s t_s_filterN.
      + unfold m_s0. on_tbl_s t_s_filter0.
    - rewrite gd_ifaceStrs_col. cbn [obind]. destruct c2; cbn [col_go]; try reflexivity.
      unfold m_s2. on_tbl_s t_s_filter2.
  Qed.

  Theorem gd_s_Filter_eq d index (cmp : fcmp) (a : rarg) b :
    G_s_Filter d index (cmp_go cmp) (rarg_go a) b = res_go b (col_filter mt (SCol d) index cmp a b).
  Proof.
    unfold gd_s_Column_Filter.
    destruct cmp as [s|t tbl|t tbl|]; cbn [cmp_go col_filter].
    - rewrite (gd_s_builtin_eq d index s a b). destruct (s_filter_builtin mt d index s a b); reflexivity.
    - destruct t; cbn; try reflexivity. unfold m_c1. cbn [letter_of]. on_run; reflexivity.
    - destruct t; cbn; try reflexivity. unfold m_c2.
      destruct a as [c|c2]; [destruct c; reflexivity|].
      destruct c2; cbn; try reflexivity. on_run; reflexivity.
    - reflexivity.
  Qed.
End StrColumn.

(* ------------------------------------------------------------------ ecolumn: the boundary *)

(* the kernels see the ranks only: the value list and the strict flag of the column play no part *)
Definition m_e0 (fname : bytes) (index : list nat) (d : list N) (b : list bool) :=
  run L_e fname (base_env (ECol d [] false) None VBad) index b.
Definition m_e1 (fname : bytes) (index : list nat) (d : list N) (r : N) (b : list bool) :=
  run L_e fname (base_env (ECol d [] false) None (VE r)) index b.
Definition m_e2 (fname : bytes) (index : list nat) (d d2 : list N) (b : list bool) :=
  run L_e fname (base_env (ECol d [] false) (Some (ECol d2 [] false)) VBad) index b.
(* multiFilterFuncs: like / ilike -> filterLike(comp, values, caseSensitive): (bitset, error) *)
Definition m_eLike (mt : matcher_table) (fname comp : bytes) (values : list bytes) : outcome (bitset * option unit) :=
  match is_like fname with
  | None => Panic
  | Some flag =>
      match find_matcher mt comp flag with
      | Some (Some m) => Ok (bitset_of values m, None)
      | Some None => Ok (bitset_empty, Some tt)
      | None => Panic
      end
  end.
(* multiInputFilterFuncs: in *)
Definition m_eIn (fname : bytes) (l : list bytes) (values : list bytes) : outcome bitset :=
  Ok (bitset_of values (fun v => existsb (bytes_eqb v) l)).
Definition m_eBitset (d : list N) (vs : list bytes) (st : bool) (index : list nat) (s : bitset) (b : list bool) :=
  run L_e fname_filterWithBitset (with_bitset (base_env (ECol d vs st) None VBad) s) index b.

(* ------------------------------------------------------------------ Filter keeps the length of the mask *)

Lemma guarded_loop_len env c e : forall b index r, guarded_loop env c e index b = Ok r -> length r = length b.
Proof.
  induction b as [|x b IH]; intros index r H; cbn [guarded_loop] in H.
  - now inversion H.
  - destruct index as [|p index].
    + destruct x; [|discriminate]. destruct (guarded_loop env c e [] b) as [r'| |] eqn:E; cbn in H; try discriminate.
      inversion H; subst. cbn. now rewrite (IH _ _ E).
    + destruct (guarded_loop env c e index b) as [r'| |] eqn:E; cbn [obind] in H; try discriminate.
      specialize (IH _ _ E). destruct x; [inversion H; subst; cbn; now rewrite IH|].
      destruct (match c with None => Ok true | Some ce => do v <- keval env p ce; as_bool v end) as [[|]| |];
        cbn [obind] in H; try discriminate.
      * destruct (keval env p e) as [v| |]; cbn [obind] in H; try discriminate.
        destruct (as_bool v) as [vb| |]; cbn [obind] in H; try discriminate. inversion H; subst; cbn; now rewrite IH.
      * inversion H; subst; cbn; now rewrite IH.
Qed.

Lemma run_len letter fname env index b r : run letter fname env index b = Ok r -> length r = length b.
Proof.
  unfold run. destruct (kernel_named g_kernels (kname letter fname)) as [k|]; [|discriminate].
  unfold run_kernel.
  assert (Hd : forall k0, match k0 with
                          | KNoOp => Ok b | KFill v => Ok (map (fun _ => v) b)
                          | KGuarded _ e => guarded_loop env None e index b
                          | KGuardedIf _ c e => guarded_loop env (Some c) e index b
                          | KDelegate _ _ => Panic end = Ok r -> length r = length b).
  { intros [| |pr e|pr c e|fn fl] H; try discriminate.
    - now inversion H.
    - inversion H. now rewrite map_length.
    - eapply guarded_loop_len; exact H.
    - eapply guarded_loop_len; exact H. }
  destruct k as [|v|pr e|pr c e|fn fl];
    [apply (Hd KNoOp)|apply (Hd (KFill v))|apply (Hd (KGuarded pr e))|apply (Hd (KGuardedIf pr c e))|].
  destruct (delegates letter fn) as [k'|]; [apply Hd|discriminate].
Qed.

Lemma run_tbl_len t letter cmp env index b r : run_tbl t letter cmp env index b = Ok r -> length r = length b.
Proof. unfold run_tbl. destruct (assocb cmp t); [apply run_len|discriminate]. Qed.

Lemma col_filter_len mt c index cmp a b r : col_filter mt c index cmp a b = Ok r -> length r = length b.
Proof.
  intro H. unfold col_filter, i_filter_builtin, f_filter_builtin, b_filter_builtin, s_filter_builtin, e_filter_builtin in H.
  repeat match type of H with
         | context [match ?x with _ => _ end] => destruct x eqn:?; try discriminate
         | context [if ?x then _ else _] => destruct x eqn:?; try discriminate
         end;
    first [ eapply run_len; eassumption | eapply run_tbl_len; eassumption
          | (inversion H; subst; now rewrite ?map_length) ].
Qed.

(* ------------------------------------------------------------------ ecolumn *)

Lemma base_env_enum d vs st y k : base_env (ECol d vs st) y k = base_env (ECol d [] false) y k.
Proof. reflexivity. Qed.
Lemma base_env_enum2 x d vs st k : base_env x (Some (ECol d vs st)) k = base_env x (Some (ECol d [] false)) k.
Proof. reflexivity. Qed.

Lemma gd_e_equalTypes_loop (v1 : list bytes) : forall (pre rest : list bytes),
  length v1 = length rest ->
  gd_e_equalTypes_loop1 v1 (Z.of_nat (length pre)) (pre ++ rest) = Ok (list_eqb bytes_eqb v1 rest).
Proof.
  induction v1 as [|x v1 IH]; intros pre rest H.
  - destruct rest; [reflexivity|discriminate].
  - destruct rest as [|y rest]; [discriminate|]. cbn [gd_e_equalTypes_loop1 list_eqb].
    rewrite gdp_index, nth_error_app2 by lia. rewrite Nat.sub_diag. cbn [nth_error of_option obind].
    destruct (bytes_eqb x y); cbn [negb andb]; [|reflexivity].
    rewrite (gdp_len_snoc pre y). replace (pre ++ y :: rest) with ((pre ++ [y]) ++ rest) by now rewrite <- app_assoc.
    apply IH. cbn in H. lia.
Qed.

Lemma gd_e_equalTypes_eq d vs st d2 vs2 st2 :
  gd_e_equalTypes d vs st d2 vs2 st2 = Ok (equal_types vs (length d) vs2 (length d2)).
Proof.
  unfold gd_e_equalTypes, equal_types.
  destruct (Nat.eqb (length vs) (length vs2)) eqn:E1.
  - apply Nat.eqb_eq in E1. replace (Z.of_nat (length vs) =? Z.of_nat (length vs2)) with true by lia.
    destruct (Nat.eqb (length d) (length d2)) eqn:E2.
    + apply Nat.eqb_eq in E2. replace (Z.of_nat (length d) =? Z.of_nat (length d2)) with true by lia.
      cbn [negb orb andb]. exact (gd_e_equalTypes_loop vs [] vs2 E1).
    + apply Nat.eqb_neq in E2. replace (Z.of_nat (length d) =? Z.of_nat (length d2)) with false by lia. reflexivity.
  - apply Nat.eqb_neq in E1. replace (Z.of_nat (length vs) =? Z.of_nat (length vs2)) with false by lia. reflexivity.
Qed.

(* for i := range bIndex { bIndex[i] = true } *)
Lemma gd_e_fill_loop : forall (rest pre l : list bool), length l = length rest ->
  gd_e_Column_filterBuiltIn_loop1 l (Z.of_nat (length pre)) (pre ++ rest) = Ok (pre ++ map (fun _ => true) rest).
Proof.
  induction rest as [|x rest IH]; intros pre l H.
  - destruct l; [reflexivity|discriminate].
  - destruct l as [|y l]; [discriminate|]. cbn [gd_e_Column_filterBuiltIn_loop1 map].
    rewrite gdp_update_mid. cbn [obind]. rewrite (gdp_len_snoc pre true), IH by (cbn in H; lia).
    now rewrite <- app_assoc.
Qed.

Lemma gd_enumVal_small (k : nat) : (k < 256)%nat -> gd_enumVal (Z.of_nat k) = N.of_nat k.
Proof. intro H. unfold gd_enumVal. rewrite Z.mod_small by lia. lia. Qed.

Section EnumColumn.
  Variable mt : matcher_table.

  Notation G_e_builtin := (@gd_e_Column_filterBuiltIn nat unit N SCm (list bytes) bitset FN1m FN2m m_new_error m_propagate (fun l => l)
                             m_e0 m_e1 m_e2 (m_eLike mt) m_eIn m_eBitset).
  Notation G_e_Filter := (@gd_e_Column_Filter nat unit N SCm (list bytes) bitset FN1m FN2m m_new_error m_propagate (fun l => l)
                             m_e0 m_e1 m_e2 (m_eLike mt) m_eIn
                             (fun d vs st => m_c1 (ECol d vs st)) (fun d vs st => m_c2 (ECol d vs st) other_e) m_eBitset).

  (* the search for the constant among the values: enumVal(i) is the index as long as it fits a uint8 *)
  Lemma gd_e_find_loop d strict index cmp b s fname : forall (vs : list bytes) (k : nat),
    (k + length vs <= 256)%nat ->
    @gd_e_Column_filterBuiltIn_loop2 nat unit m_new_error m_e1 vs (Z.of_nat k) d strict index cmp b s fname
    = match find_value vs s (N.of_nat k) with
      | Some r => res_go b (run L_e fname (base_env (ECol d [] false) None (VE r)) index b)
      | None => if strict then Ok (Some tt, b)
                else if bytes_eqb cmp neq_name then Ok (None, map (fun _ => true) b) else Ok (None, b)
      end.
  Proof.
    induction vs as [|v vs IH]; intros k Hk.
    - cbn [gd_e_Column_filterBuiltIn_loop2 find_value]. destruct strict; [reflexivity|].
      change (bs 2 0x213d) with neq_name. destruct (bytes_eqb cmp neq_name); [|reflexivity].
      pose proof (gd_e_fill_loop b [] b eq_refl) as HL. cbn [length app Z.of_nat] in HL. rewrite HL. reflexivity.
    - cbn [gd_e_Column_filterBuiltIn_loop2 find_value]. destruct (bytes_eqb v s).
      + rewrite gd_enumVal_small by (cbn in Hk; lia). unfold m_e1. on_run; reflexivity.
      + replace (Z.of_nat k + 1) with (Z.of_nat (S k)) by lia.
        replace (N.of_nat k + 1)%N with (N.of_nat (S k)) by lia. apply IH. cbn in Hk. lia.
  Qed.

  Ltac on_tbl_e t :=
    unfold run_tbl; rewrite ?gdp_assoc; destruct (assocb _ t) as [?fname|]; cbn [gd_lookup negb obind];
    [on_run; reflexivity|reflexivity].

  Lemma gd_e_builtin_eq d vs st index cmp (a : rarg) b : (length vs <= 256)%nat ->
    G_e_builtin d vs st index cmp (rarg_go a) b = res_go b (e_filter_builtin mt d vs st index cmp a b).
  Proof.
    intro Hlen. unfold gd_e_Column_filterBuiltIn, e_filter_builtin. cbv zeta.
    destruct a as [c|c2]; cbn [rarg_go].
    - rewrite gd_ifaceStrs_eq. cbn [obind].
      destruct (norm_strs c); cbn [arg_go]; try reflexivity.
      + rewrite gdp_assoc. destruct (assocb cmp t_e_filter1) as [fname|]; cbn [gd_lookup negb obind].
        * pose proof (gd_e_find_loop d st index cmp b s fname vs 0%nat ltac:(lia)) as HL.
          cbn [Z.of_nat N.of_nat] in HL. rewrite HL.
          destruct (find_value vs s 0) as [r|]; [reflexivity|].
          destruct st; [reflexivity|]. destruct (bytes_eqb cmp neq_name); reflexivity.
        * rewrite gdp_assoc. destruct (assocb cmp t_e_filterLike) as [fname|]; cbn [gd_lookup negb obind]; [|reflexivity].
          unfold m_eLike. destruct (is_like fname) as [flag|]; [|reflexivity].
          destruct (find_matcher mt s flag) as [[m|]|]; cbn [obind gd_isnil negb]; try reflexivity.
          unfold m_eBitset. on_run; reflexivity.
      + rewrite gdp_assoc. destruct (assocb cmp t_e_filterN) as [fname|]; cbn [gd_lookup negb obind]; [|reflexivity].
        unfold m_eIn, m_eBitset. cbn [obind]. on_run; reflexivity.
      + unfold m_e0. change (base_env (ECol d vs st) None VBad) with (base_env (ECol d [] false) None VBad).
        on_tbl_e t_e_filter0.
    - rewrite gd_ifaceStrs_col. cbn [obind]. destruct c2; cbn [col_go]; try reflexivity.
      rewrite gd_e_equalTypes_eq. cbn [obind].
      destruct (equal_types vs (length d) values (length d0)); cbn [negb]; [|reflexivity].
      unfold m_e2. change (base_env (ECol d vs st) (Some (ECol d0 values false)) VBad)
        with (base_env (ECol d [] false) (Some (ECol d0 [] false)) VBad).
      on_tbl_e t_e_filter2.
  Qed.

  (* Column.Filter of ecolumn = the model's col_filter on an enum column; premise: the value list fits a uint8 rank *)
  Theorem gd_e_Filter_eq d vs st index (cmp : fcmp) (a : rarg) b : (length vs <= 256)%nat ->
    G_e_Filter d vs st index (cmp_go cmp) (rarg_go a) b = res_go b (col_filter mt (ECol d vs st) index cmp a b).
  Proof.
    intro Hlen. unfold gd_e_Column_Filter.
    destruct cmp as [s|t tbl|t tbl|]; cbn [cmp_go col_filter].
    - rewrite (gd_e_builtin_eq d vs st index s a b Hlen). destruct (e_filter_builtin mt d vs st index s a b); reflexivity.
    - destruct t; cbn; try reflexivity. unfold m_c1. cbn [letter_of]. on_run; reflexivity.
    - destruct t; cbn; try reflexivity. unfold m_c2.
      destruct a as [c|c2]; [destruct c; reflexivity|].
      destruct c2; cbn; try reflexivity. on_run; reflexivity.
    - reflexivity.
  Qed.
End EnumColumn.

(* ------------------------------------------------------------------ QFrame.filter *)

Lemma gdp_ofold_cons {X Y} (F : Y -> X -> outcome Y) x l init :
  ofold F (x :: l) init = match F init x with Ok a => ofold F l a | Fail => Fail | Panic => Panic end.
Proof.
  unfold ofold. cbn [fold_left obind]. destruct (F init x) as [a| |]; [reflexivity| |].
  - induction l as [|y l IH]; cbn [fold_left obind]; auto.
  - induction l as [|y l IH]; cbn [fold_left obind]; auto.
Qed.

Lemma gd_FloatSlice_loop (l : list Z) : forall pre : list N,
  gd_i_Column_FloatSlice_loop1 i2f l (Z.of_nat (length pre)) (pre ++ repeat (i2f 0) (length l)) = Ok (pre ++ map i2f l).
Proof.
  induction l as [|x l IH]; intro pre; cbn [gd_i_Column_FloatSlice_loop1 length repeat map]; [reflexivity|].
  rewrite gdp_update_mid. cbn [obind]. rewrite (gdp_len_snoc pre (i2f x)), (IH (pre ++ [i2f x])). now rewrite <- app_assoc.
Qed.

Lemma gd_FloatSlice_eq (d : list Z) : gd_i_Column_FloatSlice i2f d = Ok (float_slice d).
Proof.
  unfold gd_i_Column_FloatSlice. pose proof (gd_FloatSlice_loop d []) as H. cbn [length app Z.of_nat] in H.
  rewrite H. reflexivity.
Qed.

(* the second mask: for i, x := range bIndex { if !x { bIndex[i] = !invBIndex[i] } } *)
Lemma gd_filter_loop1_eq : forall (rest irest pre ipre : list bool) (l : list bool),
  length l = length rest -> length irest = length rest -> length ipre = length pre ->
  gd_QFrame_filter_loop1 l (Z.of_nat (length pre)) (pre ++ rest) (ipre ++ irest)
  = Ok (pre ++ map (fun xy : bool * bool => if fst xy then true else negb (snd xy)) (combine rest irest)).
Proof.
  induction rest as [|x rest IH]; intros irest pre ipre l Hl Hi Hp.
  - destruct l; [|discriminate]. reflexivity.
  - destruct l as [|y l]; [discriminate|]. destruct irest as [|z irest]; [discriminate|].
    cbn [gd_QFrame_filter_loop1 combine map fst snd].
    rewrite gdp_index, nth_error_app2 by lia. rewrite Nat.sub_diag. cbn [nth_error of_option obind].
    assert (Hnext : Z.of_nat (length pre) + 1 = Z.of_nat (length (pre ++ [if x then true else negb z])))
      by (rewrite app_length; cbn; lia).
    destruct x; cbn [negb obind].
    + rewrite Hnext. replace (pre ++ true :: rest) with ((pre ++ [true]) ++ rest) by now rewrite <- app_assoc.
      replace (ipre ++ z :: irest) with ((ipre ++ [z]) ++ irest) by now rewrite <- app_assoc.
      rewrite IH; [now rewrite <- app_assoc|cbn in *; lia|cbn in *; lia|rewrite !app_length; cbn; lia].
    + rewrite <- Hp at 1. rewrite gdp_index, nth_error_app2 by lia. rewrite Nat.sub_diag. cbn [nth_error of_option obind].
      rewrite gdp_update_mid. cbn [obind]. rewrite Hnext.
      replace (ipre ++ z :: irest) with ((ipre ++ [z]) ++ irest) by now rewrite <- app_assoc.
      rewrite IH; [now rewrite <- app_assoc|cbn in *; lia|cbn in *; lia|rewrite !app_length; cbn; lia].
Qed.

Lemma gd_col_any_go (c : coldata) : gd_col_any (col_go c) = @gd_any_col N SCm FN1m FN2m (col_go c).
Proof. destruct c; reflexivity. Qed.

Lemma gd_isOrder_eq (s : bytes) : gd_isOrderComparator s = Ok (is_order_comparator s).
Proof. reflexivity. Qed.

Local Arguments gd_Column_Filter : simpl never.
Local Arguments gd_i_Column_FloatSlice : simpl never.
Local Arguments gc_Int_Filter : simpl never.
Local Arguments gc_NewBool : simpl never.
Local Arguments gd_QFrame_filter_loop1 : simpl never.
Local Arguments col_filter : simpl never.
Local Arguments lookup_col : simpl never.
Local Arguments gd_isOrderComparator : simpl never.
Local Arguments is_order_comparator : simpl never.
Local Arguments float_slice : simpl never.

(* the columns for which Column.Filter is proved equal to the model *)
Definition col_ok (c : coldata) : Prop := match c with ECol _ _ _ => False | _ => True end.
Definition frame_cols_ok (f : frame) : Prop := forall n c, lookup_col f n = Some c -> col_ok c.

(* ... and with enum columns whose value list fits a uint8 rank (ecolumn: at most 255 values) *)
Definition col_okE (c : coldata) : Prop := match c with ECol _ vs _ => (length vs <= 256)%nat | _ => True end.
Definition frame_cols_okE (f : frame) : Prop := forall n c, lookup_col f n = Some c -> col_okE c.

Section FrameFilter.
  Variable f2i : N -> Z.
  Variable mt : matcher_table.
  (* the columns for which the dispatcher is known to agree with the model *)
  Variable P : coldata -> Prop.
  Hypothesis HPF : forall d, P (FCol d).

  Definition m_cbn (f : frame) (k : bytes) : option gcolumn := option_map col_go (lookup_col f k).

  Notation G_Col := (@gd_Column_Filter nat unit N SCm (list bytes) bitset FN1m FN2m m_new_error m_propagate f_isnan f2i i2f (fun l => l)
       m_i1 m_iN m_i2 m_i0 m_f0 m_f1 m_f2 m_b1 m_b2 m_s0 (m_s1 mt) m_sN m_s2 m_e0 m_e1 m_e2 (m_eLike mt) m_eIn
       (fun d => m_c1 (ICol d)) (fun d => m_c2 (ICol d) other_i) (fun d => m_c1 (FCol d)) (fun d => m_c2 (FCol d) other_f)
       (fun d => m_c1 (BCol d)) (fun d => m_c2 (BCol d) other_b) (fun d => m_c1 (SCol d)) (fun d => m_c2 (SCol d) other_s)
       (fun d vs st => m_c1 (ECol d vs st)) (fun d vs st => m_c2 (ECol d vs st) other_e) m_eBitset).
  Notation G_loop2 := (@gd_QFrame_filter_loop2 nat unit N SCm (list bytes) bitset FN1m FN2m frame m_new_error m_propagate m_sprintf f_isnan f2i i2f (fun l => l)
       ix m_withErr with_ix m_cbn
       m_i1 m_iN m_i2 m_i0 m_f0 m_f1 m_f2 m_b1 m_b2 m_s0 (m_s1 mt) m_sN m_s2 m_e0 m_e1 m_e2 (m_eLike mt) m_eIn
       (fun d => m_c1 (ICol d)) (fun d => m_c2 (ICol d) other_i) (fun d => m_c1 (FCol d)) (fun d => m_c2 (FCol d) other_f)
       (fun d => m_c1 (BCol d)) (fun d => m_c2 (BCol d) other_b) (fun d => m_c1 (SCol d)) (fun d => m_c2 (SCol d) other_s)
       (fun d vs st => m_c1 (ECol d vs st)) (fun d vs st => m_c2 (ECol d vs st) other_e) m_eBitset).
  Notation G_filter := (@gd_QFrame_filter nat unit N SCm (list bytes) bitset FN1m FN2m frame m_new_error m_propagate m_sprintf f_isnan f2i i2f (fun l => l)
       m_Err ix m_withErr with_ix m_cbn
       m_i1 m_iN m_i2 m_i0 m_f0 m_f1 m_f2 m_b1 m_b2 m_s0 (m_s1 mt) m_sN m_s2 m_e0 m_e1 m_e2 (m_eLike mt) m_eIn
       (fun d => m_c1 (ICol d)) (fun d => m_c2 (ICol d) other_i) (fun d => m_c1 (FCol d)) (fun d => m_c2 (FCol d) other_f)
       (fun d => m_c1 (BCol d)) (fun d => m_c2 (BCol d) other_b) (fun d => m_c1 (SCol d)) (fun d => m_c2 (SCol d) other_s)
       (fun d vs st => m_c1 (ECol d vs st)) (fun d vs st => m_c2 (ECol d vs st) other_e) m_eBitset).

  (* x.Filter(..) through the interface = the model's col_filter *)
  Theorem gd_Column_Filter_eq c fuel index (cmp : fcmp) (a : rarg) b : col_ok c -> (2 <= fuel)%nat -> rarg_ok f2i a ->
    G_Col fuel (col_go c) index (cmp_go cmp) (rarg_go a) b = res_go b (col_filter mt c index cmp a b).
  Proof.
    intros Hc Hf Ha. unfold gd_Column_Filter. destruct c; cbn [col_go]; try contradiction.
    - apply gd_i_Filter_eq; assumption.
    - apply gd_f_Filter_eq.
    - apply gd_b_Filter_eq.
    - apply gd_s_Filter_eq.
  Qed.

  (* one iteration of the loop over the filters = the model's filter_leaf, in front of any continuation *)
  Definition after_leaf (f : frame) (r : outcome (list bool)) (k : list bool -> outcome frame) : outcome frame :=
    match r with Ok b' => k b' | Fail => Ok (with_err f) | Panic => Panic end.

  Theorem gd_Column_Filter_eqE c fuel index (cmp : fcmp) (a : rarg) b : col_okE c -> (2 <= fuel)%nat -> rarg_ok f2i a ->
    G_Col fuel (col_go c) index (cmp_go cmp) (rarg_go a) b = res_go b (col_filter mt c index cmp a b).
  Proof.
    intros Hc Hf Ha. unfold gd_Column_Filter. destruct c; cbn [col_go].
    - apply gd_i_Filter_eq; assumption.
    - apply gd_f_Filter_eq.
    - apply gd_b_Filter_eq.
    - apply gd_s_Filter_eq.
    - apply gd_e_Filter_eq. exact Hc.
  Qed.

  Hypothesis HPcol : forall c fuel index (cmp : fcmp) (a : rarg) b, P c -> (2 <= fuel)%nat -> rarg_ok f2i a ->
    G_Col fuel (col_go c) index (cmp_go cmp) (rarg_go a) b = res_go b (col_filter mt c index cmp a b).

  Lemma gdp_colname_match (a : farg) :
    match arg_go a with gd_any_ColumnName y => (y, true) | _ => (@nil N, false) end
    = match a with AColName n => (n, true) | _ => ([], false) end.
  Proof. destruct a; reflexivity. Qed.

  Lemma gdp_cmpname_match (c : fcmp) :
    match cmp_go c with gd_any_string y => (y, true) | _ => (@nil N, false) end
    = match c with CmpName s => (s, true) | _ => ([], false) end.
  Proof. destruct c as [s|[] tbl|[] tbl|]; reflexivity. Qed.

  (* the part of the loop body after the argument has been resolved: Inverse handling, Err exit, next iteration *)
  Ltac use_col Hs Ha Hf :=
    rewrite HPcol by (first [exact Hs|exact Ha|exact Hf]).

  Lemma m_Err_nil' f : negb (gd_isnil (m_Err f)) = ferr f.
  Proof. unfold m_Err. now destruct (ferr f). Qed.

  Lemma after_leaf_bind f (X : outcome (list bool)) (G : list bool -> outcome (list bool)) K :
    after_leaf f (match X with Ok a => G a | Fail => Fail | Panic => Panic end) K
    = after_leaf f X (fun a => after_leaf f (G a) K).
  Proof. destruct X; reflexivity. Qed.

  Lemma gd_filter_loop2_eq fuel f : (2 <= fuel)%nat -> (forall n c, lookup_col f n = Some c -> P c) -> forall ls b,
    Forall (fun l => arg_ok f2i (larg l)) ls ->
    G_loop2 (map leaf_go ls) fuel f b
    = after_leaf f (ofold (fun b l => filter_leaf mt f l b) ls b) (fun b' => do i <- index_filter (ix f) b'; Ok (with_ix f i)).
  Proof.
    intros Hf Hcols. induction ls as [|l ls IH]; intros b Hls.
    - cbn [map gd_QFrame_filter_loop2 ofold fold_left after_leaf]. rewrite gc_Int_Filter_eq. reflexivity.
    - inversion Hls as [|? ? Hl Hls']; subst. rewrite gdp_ofold_cons, after_leaf_bind.
      cbn [map gd_QFrame_filter_loop2 leaf_go]. cbv iota beta zeta.
      unfold filter_leaf at 1. unfold m_cbn at 1.
      destruct (lookup_col f (lcol l)) as [s|] eqn:Es; cbn [option_map gd_lookup negb obind]; [|reflexivity].
      pose proof (Hcols _ _ Es) as Hs.
      rewrite gdp_colname_match.
      (* the tail, for a resolved column s' and argument a *)
      assert (Tail : forall (s' : coldata) (a : rarg), P s' -> rarg_ok f2i a ->
        (do (v_bIndex, v_err) <-
         (if linv l
          then
           let '(v_sComp, v_ok_7) := match cmp_go (lcmp l) with gd_any_string y1 => (y1, true) | _ => ([], false) end in
           do t9 <- (if v_ok_7 then do t8 <- gd_isOrderComparator v_sComp; Ok (negb t8) else Ok false);
           do (v_bIndex, v_err, v_done) <-
           (if t9
            then
             let '(v_inverse, v_ok_8) := gd_lookup (gd_assoc v_sComp t_filter_inverse) [] in
             do (v_bIndex, v_err, v_done) <-
             (if v_ok_8
              then
               do (t10, v_bIndex) <- G_Col fuel (col_go s') (ix f) (gd_any_string v_inverse) (rarg_go a) b;
               do v_done <- (if gd_isnil t10 then Ok true else Ok false);
               Ok (v_bIndex, t10, v_done)
              else Ok (b, None, false)); Ok (v_bIndex, v_err, v_done)
            else Ok (b, None, false));
           do (v_bIndex0, v_err0) <-
           (if negb v_done
            then
             do t11 <- gc_NewBool (Z.of_nat (length v_bIndex));
             do (t12, v_invBIndex) <- G_Col fuel (col_go s') (ix f) (cmp_go (lcmp l)) (rarg_go a) t11;
             do v_bIndex0 <-
             (if gd_isnil t12
              then do v_bIndex0 <- gd_QFrame_filter_loop1 v_bIndex 0 v_bIndex v_invBIndex; Ok v_bIndex0
              else Ok v_bIndex); Ok (v_bIndex0, t12)
            else Ok (v_bIndex, v_err)); Ok (v_bIndex0, v_err0)
          else
           do (t14, v_bIndex) <- G_Col fuel (col_go s') (ix f) (cmp_go (lcmp l)) (rarg_go a) b;
           Ok (v_bIndex, t14));
         if negb (gd_isnil v_err)
         then Ok (m_withErr f (Some (m_propagate (m_sprintf (bs 18 0x46696c74657220636f6c756d6e2027257327) [lcol l]) v_err)))
         else G_loop2 (map leaf_go ls) fuel f v_bIndex)
        = after_leaf f
            (if linv l then
               let shortcut :=
                 match lcmp l with
                 | CmpName sc =>
                     if is_order_comparator sc then None
                     else match assocb sc t_filter_inverse with
                          | Some inv =>
                              match col_filter mt s' (ix f) (CmpName inv) a b with
                              | Ok r => Some (Ok r) | Panic => Some Panic | Fail => None
                              end
                          | None => None
                          end
                 | _ => None
                 end in
               match shortcut with
               | Some r => r
               | None =>
                   do inv <- col_filter mt s' (ix f) (lcmp l) a (map (fun _ => false) b);
                   Ok (map (fun xy : bool * bool => if fst xy then true else negb (snd xy)) (combine b inv))
               end
             else col_filter mt s' (ix f) (lcmp l) a b)
            (fun a0 => after_leaf f (ofold (fun b0 l0 => filter_leaf mt f l0 b0) ls a0)
                         (fun b' => do i <- index_filter (ix f) b'; Ok (with_ix f i)))).
      { intros s' a Hs' Ha.
        assert (Second : forall (bb : list bool),
          (do (v_bIndex, v_err) <-
             (do (v_bIndex0, v_err0) <-
                (do t11 <- gc_NewBool (Z.of_nat (length bb));
                 do (t12, v_invBIndex) <- G_Col fuel (col_go s') (ix f) (cmp_go (lcmp l)) (rarg_go a) t11;
                 do v_bIndex0 <-
                 (if gd_isnil t12
                  then do v_bIndex0 <- gd_QFrame_filter_loop1 bb 0 bb v_invBIndex; Ok v_bIndex0
                  else Ok bb); Ok (v_bIndex0, t12));
              Ok (v_bIndex0, v_err0));
           if negb (gd_isnil v_err)
           then Ok (m_withErr f (Some (m_propagate (m_sprintf (bs 18 0x46696c74657220636f6c756d6e2027257327) [lcol l]) v_err)))
           else G_loop2 (map leaf_go ls) fuel f v_bIndex)
          = after_leaf f
              (do inv <- col_filter mt s' (ix f) (lcmp l) a (map (fun _ => false) bb);
               Ok (map (fun xy : bool * bool => if fst xy then true else negb (snd xy)) (combine bb inv)))
              (fun a0 => after_leaf f (ofold (fun b0 l0 => filter_leaf mt f l0 b0) ls a0)
                           (fun b' => do i <- index_filter (ix f) b'; Ok (with_ix f i)))).
        { intro bb. rewrite gc_NewBool_mask. cbn [obind]. use_col Hs' Ha Hf.
          destruct (col_filter mt s' (ix f) (lcmp l) a (map (fun _ => false) bb)) as [inv| |] eqn:E2; cbn [res_go obind gd_isnil negb after_leaf]; try reflexivity.
          pose proof (col_filter_len _ _ _ _ _ _ _ E2) as Hlen. rewrite map_length in Hlen.
          pose proof (gd_filter_loop1_eq bb inv [] [] bb eq_refl Hlen eq_refl) as HL. cbn [length app Z.of_nat] in HL.
          rewrite HL. cbn [obind gd_isnil negb]. apply IH. exact Hls'. }
        destruct (linv l); cbv beta iota zeta.
        2: { use_col Hs' Ha Hf.
             destruct (col_filter mt s' (ix f) (lcmp l) a b) as [r| |]; cbn [res_go obind gd_isnil negb after_leaf]; try reflexivity.
             apply IH. exact Hls'. }
        rewrite gdp_cmpname_match.
        destruct (lcmp l) as [sc|t tbl|t tbl|] eqn:Ecmp; cbv beta iota zeta; cbn [obind negb];
          try (exact (Second b)).
        rewrite gd_isOrder_eq. cbn [obind].
        destruct (is_order_comparator sc); cbn [negb obind]; [exact (Second b)|].
        rewrite gdp_assoc. destruct (assocb sc t_filter_inverse) as [inv|]; cbn [gd_lookup obind negb];
          [|exact (Second b)].
        change (@gd_any_string N SCm FN1m FN2m inv) with (cmp_go (CmpName inv)). use_col Hs' Ha Hf.
        destruct (col_filter mt s' (ix f) (CmpName inv) a b) as [r| |]; cbn [res_go obind gd_isnil negb after_leaf]; try reflexivity.
        - apply IH. exact Hls'.
        - exact (Second b). }
      destruct (larg l) as [z|bb t|bb|str|zs|fs|ss|ifs|n| |] eqn:Ea; cbv beta iota zeta; cbn [obind];
        try (match goal with |- context [arg_go ?c] => change (arg_go c) with (rarg_go (RConst c)) end;
             apply Tail; [exact Hs|exact Hl]).
      unfold m_cbn at 1. destruct (lookup_col f n) as [argc|] eqn:En; cbn [option_map gd_lookup negb obind]; [|reflexivity].
      pose proof (Hcols _ _ En) as Hargc.
      destruct s as [d|d|d|d|d vs st], argc as [d2|d2|d2|d2|d2 vs2 st2];
        cbn [col_go]; cbv beta iota zeta; cbn [obind]; rewrite ?gd_FloatSlice_eq; cbn [obind];
        first [ exact (Tail (FCol (float_slice d)) (RCol (FCol (float_slice d2))) ltac:(first [exact Hs|apply HPF]) I)
              | exact (Tail (FCol (float_slice d)) (RCol (ICol d2)) ltac:(first [exact Hs|apply HPF]) I)
              | exact (Tail (FCol (float_slice d)) (RCol (FCol d2)) ltac:(first [exact Hs|apply HPF]) I)
              | exact (Tail (FCol (float_slice d)) (RCol (BCol d2)) ltac:(first [exact Hs|apply HPF]) I)
              | exact (Tail (FCol (float_slice d)) (RCol (SCol d2)) ltac:(first [exact Hs|apply HPF]) I)
              | exact (Tail (FCol (float_slice d)) (RCol (ECol d2 vs2 st2)) ltac:(first [exact Hs|apply HPF]) I)
              | exact (Tail (ICol d) (RCol (FCol (float_slice d2))) ltac:(first [exact Hs|apply HPF]) I)
              | exact (Tail (ICol d) (RCol (ICol d2)) ltac:(first [exact Hs|apply HPF]) I)
              | exact (Tail (ICol d) (RCol (FCol d2)) ltac:(first [exact Hs|apply HPF]) I)
              | exact (Tail (ICol d) (RCol (BCol d2)) ltac:(first [exact Hs|apply HPF]) I)
              | exact (Tail (ICol d) (RCol (SCol d2)) ltac:(first [exact Hs|apply HPF]) I)
              | exact (Tail (ICol d) (RCol (ECol d2 vs2 st2)) ltac:(first [exact Hs|apply HPF]) I)
              | exact (Tail (FCol d) (RCol (FCol (float_slice d2))) ltac:(first [exact Hs|apply HPF]) I)
              | exact (Tail (FCol d) (RCol (ICol d2)) ltac:(first [exact Hs|apply HPF]) I)
              | exact (Tail (FCol d) (RCol (FCol d2)) ltac:(first [exact Hs|apply HPF]) I)
              | exact (Tail (FCol d) (RCol (BCol d2)) ltac:(first [exact Hs|apply HPF]) I)
              | exact (Tail (FCol d) (RCol (SCol d2)) ltac:(first [exact Hs|apply HPF]) I)
              | exact (Tail (FCol d) (RCol (ECol d2 vs2 st2)) ltac:(first [exact Hs|apply HPF]) I)
              | exact (Tail (BCol d) (RCol (FCol (float_slice d2))) ltac:(first [exact Hs|apply HPF]) I)
              | exact (Tail (BCol d) (RCol (ICol d2)) ltac:(first [exact Hs|apply HPF]) I)
              | exact (Tail (BCol d) (RCol (FCol d2)) ltac:(first [exact Hs|apply HPF]) I)
              | exact (Tail (BCol d) (RCol (BCol d2)) ltac:(first [exact Hs|apply HPF]) I)
              | exact (Tail (BCol d) (RCol (SCol d2)) ltac:(first [exact Hs|apply HPF]) I)
              | exact (Tail (BCol d) (RCol (ECol d2 vs2 st2)) ltac:(first [exact Hs|apply HPF]) I)
              | exact (Tail (SCol d) (RCol (FCol (float_slice d2))) ltac:(first [exact Hs|apply HPF]) I)
              | exact (Tail (SCol d) (RCol (ICol d2)) ltac:(first [exact Hs|apply HPF]) I)
              | exact (Tail (SCol d) (RCol (FCol d2)) ltac:(first [exact Hs|apply HPF]) I)
              | exact (Tail (SCol d) (RCol (BCol d2)) ltac:(first [exact Hs|apply HPF]) I)
              | exact (Tail (SCol d) (RCol (SCol d2)) ltac:(first [exact Hs|apply HPF]) I)
              | exact (Tail (SCol d) (RCol (ECol d2 vs2 st2)) ltac:(first [exact Hs|apply HPF]) I)
              | exact (Tail (ECol d vs st) (RCol (FCol (float_slice d2))) ltac:(first [exact Hs|apply HPF]) I)
              | exact (Tail (ECol d vs st) (RCol (ICol d2)) ltac:(first [exact Hs|apply HPF]) I)
              | exact (Tail (ECol d vs st) (RCol (FCol d2)) ltac:(first [exact Hs|apply HPF]) I)
              | exact (Tail (ECol d vs st) (RCol (BCol d2)) ltac:(first [exact Hs|apply HPF]) I)
              | exact (Tail (ECol d vs st) (RCol (SCol d2)) ltac:(first [exact Hs|apply HPF]) I)
              | exact (Tail (ECol d vs st) (RCol (ECol d2 vs2 st2)) ltac:(first [exact Hs|apply HPF]) I) ].
  Qed.

  (* QFrame.filter = the model's filter_leaves *)
  Theorem gd_QFrame_filter_gen fuel f ls : (2 <= fuel)%nat -> (forall n c, lookup_col f n = Some c -> P c) ->
    Forall (fun l => arg_ok f2i (larg l)) ls ->
    G_filter fuel f (map leaf_go ls) = filter_leaves mt f ls.
  Proof.
    intros Hf Hcols Hls. unfold gd_QFrame_filter, filter_leaves. rewrite m_Err_nil'.
    destruct (ferr f); [reflexivity|].
    rewrite gc_NewBool_mask. cbn [obind]. rewrite (gd_filter_loop2_eq fuel f Hf Hcols ls _ Hls).
    destruct (ofold _ ls _); reflexivity.
  Qed.
End FrameFilter.

(* without enum columns (the first version of the theorem) and with them *)
Theorem gd_QFrame_filter_eq f2i mt fuel f ls : (2 <= fuel)%nat -> frame_cols_ok f ->
  Forall (fun l => arg_ok f2i (larg l)) ls ->
  @gd_QFrame_filter nat unit N SCm (list bytes) bitset FN1m FN2m frame m_new_error m_propagate m_sprintf f_isnan f2i i2f (fun l => l)
       m_Err ix m_withErr with_ix m_cbn
       m_i1 m_iN m_i2 m_i0 m_f0 m_f1 m_f2 m_b1 m_b2 m_s0 (m_s1 mt) m_sN m_s2 m_e0 m_e1 m_e2 (m_eLike mt) m_eIn
       (fun d => m_c1 (ICol d)) (fun d => m_c2 (ICol d) other_i) (fun d => m_c1 (FCol d)) (fun d => m_c2 (FCol d) other_f)
       (fun d => m_c1 (BCol d)) (fun d => m_c2 (BCol d) other_b) (fun d => m_c1 (SCol d)) (fun d => m_c2 (SCol d) other_s)
       (fun d vs st => m_c1 (ECol d vs st)) (fun d vs st => m_c2 (ECol d vs st) other_e) m_eBitset
       fuel f (map leaf_go ls) = filter_leaves mt f ls.
Proof. exact (gd_QFrame_filter_gen f2i mt col_ok (fun _ => I) (gd_Column_Filter_eq f2i mt) fuel f ls). Qed.

Theorem gd_QFrame_filter_eqE f2i mt fuel f ls : (2 <= fuel)%nat -> frame_cols_okE f ->
  Forall (fun l => arg_ok f2i (larg l)) ls ->
  @gd_QFrame_filter nat unit N SCm (list bytes) bitset FN1m FN2m frame m_new_error m_propagate m_sprintf f_isnan f2i i2f (fun l => l)
       m_Err ix m_withErr with_ix m_cbn
       m_i1 m_iN m_i2 m_i0 m_f0 m_f1 m_f2 m_b1 m_b2 m_s0 (m_s1 mt) m_sN m_s2 m_e0 m_e1 m_e2 (m_eLike mt) m_eIn
       (fun d => m_c1 (ICol d)) (fun d => m_c2 (ICol d) other_i) (fun d => m_c1 (FCol d)) (fun d => m_c2 (FCol d) other_f)
       (fun d => m_c1 (BCol d)) (fun d => m_c2 (BCol d) other_b) (fun d => m_c1 (SCol d)) (fun d => m_c2 (SCol d) other_s)
       (fun d vs st => m_c1 (ECol d vs st)) (fun d vs st => m_c2 (ECol d vs st) other_e) m_eBitset
       fuel f (map leaf_go ls) = filter_leaves mt f ls.
Proof. exact (gd_QFrame_filter_gen f2i mt col_okE (fun _ => I) (gd_Column_Filter_eqE f2i mt) fuel f ls). Qed.

(* ------------------------------------------------------------------ a C02 leaf theorem on the translated text *)

From QF Require Import Model.FilterSpec Proofs.FilterProofs Proofs.FilterTyped Proofs.FilterTypedLeaf.

Section LeafOnText.
  Variable f2i : N -> Z.
  Variable mt : matcher_table.

  Lemma gd_filter_single_leaf fuel f (l : leaf) (s : nat -> bool) (i : list nat) (p0 : nat) :
    (2 <= fuel)%nat -> frame_cols_ok (with_ix f i) -> arg_ok f2i (larg l) -> ferr f = false ->
    frame_ok f ->
    (forall p, p = p0 \/ In p i -> (p < phys_len f)%nat /\ leaf_sat mt f l p = Ok (Some (Some (s p)))) ->
    @gd_QFrame_filter nat unit N SCm (list bytes) bitset FN1m FN2m frame m_new_error m_propagate m_sprintf f_isnan f2i i2f (fun l => l)
       m_Err ix m_withErr with_ix m_cbn
       m_i1 m_iN m_i2 m_i0 m_f0 m_f1 m_f2 m_b1 m_b2 m_s0 (m_s1 mt) m_sN m_s2 m_e0 m_e1 m_e2 (m_eLike mt) m_eIn
       (fun d => m_c1 (ICol d)) (fun d => m_c2 (ICol d) other_i) (fun d => m_c1 (FCol d)) (fun d => m_c2 (FCol d) other_f)
       (fun d => m_c1 (BCol d)) (fun d => m_c2 (BCol d) other_b) (fun d => m_c1 (SCol d)) (fun d => m_c2 (SCol d) other_s)
       (fun d vs st => m_c1 (ECol d vs st)) (fun d vs st => m_c2 (ECol d vs st) other_e) m_eBitset
       fuel (with_ix f i) [leaf_go l]
    = do r <- index_filter i (mask_or (map (fun _ => false) i) (map s i)); Ok (with_ix (with_ix f i) r).
  Proof.
    intros Hf Hcols Ha He Hok Hrows.
    change [leaf_go l] with (map leaf_go [l]).
    rewrite (gd_QFrame_filter_eq f2i mt fuel (with_ix f i) [l] Hf Hcols (Forall_cons (P:=fun l0 : leaf => arg_ok f2i (larg l0)) l Ha (Forall_nil _))).
    unfold filter_leaves. cbn [ferr with_ix ix]. rewrite He.
    unfold ofold. cbn [fold_left obind].
    rewrite (leaf_ok mt f Hok l s i (map (fun _ => false) i) p0 Hrows) by now rewrite map_length.
    reflexivity.
  Qed.
End LeafOnText.

(* ------------------------------------------------------------------ the instantiated generated functions, named *)

(* x.Filter(..) through the interface column.Column and QFrame.filter, with the whole vocabulary instantiated
   as described in the header (f2i = int(x) on floats, mt = the matcher oracle of the model) *)
Definition g_Column_Filter (f2i : N -> Z) (mt : matcher_table) :=
  @gd_Column_Filter nat unit N SCm (list bytes) bitset FN1m FN2m m_new_error m_propagate f_isnan f2i i2f (fun l => l)
       m_i1 m_iN m_i2 m_i0 m_f0 m_f1 m_f2 m_b1 m_b2 m_s0 (m_s1 mt) m_sN m_s2 m_e0 m_e1 m_e2 (m_eLike mt) m_eIn
       (fun d => m_c1 (ICol d)) (fun d => m_c2 (ICol d) other_i) (fun d => m_c1 (FCol d)) (fun d => m_c2 (FCol d) other_f)
       (fun d => m_c1 (BCol d)) (fun d => m_c2 (BCol d) other_b) (fun d => m_c1 (SCol d)) (fun d => m_c2 (SCol d) other_s)
       (fun d vs st => m_c1 (ECol d vs st)) (fun d vs st => m_c2 (ECol d vs st) other_e) m_eBitset.

Definition g_QFrame_filter (f2i : N -> Z) (mt : matcher_table) :=
  @gd_QFrame_filter nat unit N SCm (list bytes) bitset FN1m FN2m frame m_new_error m_propagate m_sprintf f_isnan f2i i2f (fun l => l)
       m_Err ix m_withErr with_ix m_cbn
       m_i1 m_iN m_i2 m_i0 m_f0 m_f1 m_f2 m_b1 m_b2 m_s0 (m_s1 mt) m_sN m_s2 m_e0 m_e1 m_e2 (m_eLike mt) m_eIn
       (fun d => m_c1 (ICol d)) (fun d => m_c2 (ICol d) other_i) (fun d => m_c1 (FCol d)) (fun d => m_c2 (FCol d) other_f)
       (fun d => m_c1 (BCol d)) (fun d => m_c2 (BCol d) other_b) (fun d => m_c1 (SCol d)) (fun d => m_c2 (SCol d) other_s)
       (fun d vs st => m_c1 (ECol d vs st)) (fun d vs st => m_c2 (ECol d vs st) other_e) m_eBitset.

Lemma g_Column_Filter_eq f2i mt c fuel index (cmp : fcmp) (a : rarg) b : col_ok c -> (2 <= fuel)%nat -> rarg_ok f2i a ->
  g_Column_Filter f2i mt fuel (col_go c) index (cmp_go cmp) (rarg_go a) b = res_go b (col_filter mt c index cmp a b).
Proof. exact (gd_Column_Filter_eq f2i mt c fuel index cmp a b). Qed.

Lemma g_Column_Filter_nil f2i mt fuel index cmp a b : g_Column_Filter f2i mt fuel gd_col_nil index cmp a b = Panic.
Proof. reflexivity. Qed.

Lemma g_QFrame_filter_eq f2i mt fuel f ls : (2 <= fuel)%nat -> frame_cols_ok f ->
  Forall (fun l => arg_ok f2i (larg l)) ls ->
  g_QFrame_filter f2i mt fuel f (map leaf_go ls) = filter_leaves mt f ls.
Proof. exact (gd_QFrame_filter_eq f2i mt fuel f ls). Qed.

Lemma g_QFrame_filter_leaf f2i mt fuel f (l : leaf) (s : nat -> bool) (i : list nat) (p0 : nat) :
  (2 <= fuel)%nat -> frame_cols_ok (with_ix f i) -> arg_ok f2i (larg l) -> ferr f = false -> frame_ok f ->
  (forall p, p = p0 \/ In p i -> (p < phys_len f)%nat /\ leaf_sat mt f l p = Ok (Some (Some (s p)))) ->
  g_QFrame_filter f2i mt fuel (with_ix f i) [leaf_go l]
  = do r <- index_filter i (mask_or (map (fun _ => false) i) (map s i)); Ok (with_ix (with_ix f i) r).
Proof. exact (gd_filter_single_leaf f2i mt fuel f l s i p0). Qed.


(* ------------------------------------------------------------------ composition with the clause level *)

From QF Require Import Proofs.FilterTypedFrame.

Section Compose.
  Variable mt : matcher_table.

  Lemma filter_leaves_cols f ls r : filter_leaves mt f ls = Ok r -> cols r = cols f.
  Proof.
    unfold filter_leaves. destruct (ferr f); [intro H; now inversion H|].
    destruct (ofold _ ls _) as [b| |]; try discriminate.
    - destruct (index_filter (ix f) b); cbn; intro H; inversion H; reflexivity.
    - intro H; inversion H; reflexivity.
  Qed.

  Lemma or_frames_cols f acc nf : cols nf = cols f -> (forall a, acc = Some a -> cols a = cols f) ->
    cols (or_frames f acc nf) = cols f.
  Proof.
    unfold or_frames. destruct acc as [a|]; [|auto]. intros H1 H2. specialize (H2 a eq_refl).
    destruct (ferr a); [auto|]. destruct (ferr nf); auto.
  Qed.

  Lemma or_loop_cols g cs : Forall (fun c => forall g r, clause_filter mt c g = Ok r -> cols r = cols g) cs ->
    forall pending acc r, (forall a, acc = Some a -> cols a = cols g) ->
    or_loop mt (fun c' g' => clause_filter mt c' g') g cs pending acc = Ok r -> cols r = cols g.
  Proof.
    induction 1 as [|c cs Hc Hcs IH]; intros pending acc r Hacc H.
    - rewrite or_loop_nil in H. unfold or_flush in H. destruct pending as [|l0 pd].
      + cbn [obind] in H. destruct acc as [a|]; [|discriminate]. inversion H; subst. now apply Hacc.
      + destruct (filter_leaves mt g (rev (l0 :: pd))) as [nf| |] eqn:E; cbn [obind] in H; try discriminate.
        inversion H; subst. apply or_frames_cols; [exact (filter_leaves_cols _ _ _ E)|exact Hacc].
    - destruct (is_leafb c) eqn:El.
      + destruct c; try discriminate. rewrite or_loop_leaf in H. exact (IH _ _ _ Hacc H).
      + rewrite (or_loop_other mt _ _ _ _ _ _ El) in H. unfold or_flush in H.
        assert (Hfl : forall acc', match pending with
                                  | [] => Ok acc
                                  | _ :: _ => do nf <- filter_leaves mt g (rev pending); Ok (Some (or_frames g acc nf))
                                  end = Ok acc' -> forall a, acc' = Some a -> cols a = cols g).
        { intros acc' Hf. destruct pending as [|l0 pd]; [inversion Hf; subst; exact Hacc|].
          destruct (filter_leaves mt g (rev (l0 :: pd))) as [nf| |] eqn:E; cbn [obind] in Hf; try discriminate.
          inversion Hf; subst. intros a Ha. inversion Ha; subst.
          apply or_frames_cols; [exact (filter_leaves_cols _ _ _ E)|exact Hacc]. }
        destruct (match pending with [] => Ok acc | _ :: _ => _ end) as [acc'| |]; cbn [obind] in H; try discriminate.
        destruct (clause_filter mt c g) as [nf| |] eqn:E; cbn [obind] in H; try discriminate.
        refine (IH _ _ _ _ H). intros a Ha. inversion Ha; subst.
        apply or_frames_cols; [exact (Hc _ _ E)|exact (Hfl acc' eq_refl)].
  Qed.

  (* filtering never touches the columns *)
  Lemma clause_filter_cols : forall c g r, clause_filter mt c g = Ok r -> cols r = cols g.
  Proof.
    induction c as [l| |c IH|cs IH|cs IH] using gcp_clause_ind; intros g r H.
    - exact (filter_leaves_cols g [l] r H).
    - inversion H; reflexivity.
    - rewrite clause_filter_not in H. destruct (ferr g); [inversion H; reflexivity|].
      destruct (clause_err c); [inversion H; reflexivity|].
      destruct c; try exact (filter_leaves_cols _ _ _ H);
        (match type of H with context [clause_filter mt ?x g] => destruct (clause_filter mt x g) as [nf| |] eqn:E end;
         cbn [obind] in H; try discriminate;
         destruct (ferr nf); inversion H; subst; [eapply IH; exact E|reflexivity]).
    - rewrite clause_filter_and in H. destruct (ferr g); [inversion H; reflexivity|].
      destruct (clause_err (CAnd cs)); [inversion H; reflexivity|].
      revert g r H. induction IH as [|c cs Hc Hcs IHl]; intros g r H; cbn [and_loop] in H; [inversion H; reflexivity|].
      cbv beta in H. destruct (clause_filter mt c g) as [g'| |] eqn:E; cbn [obind] in H; try discriminate.
      rewrite (IHl g' r H). eapply Hc; exact E.
    - rewrite clause_filter_or in H. destruct (ferr g); [inversion H; reflexivity|].
      destruct (clause_err (COr cs)); [inversion H; reflexivity|].
      refine (or_loop_cols g cs IH [] None r _ H). intros a Ha; discriminate.
  Qed.
End Compose.

Section Ext.
  Variable mt : matcher_table.
  Variable q1 : frame -> list leaf -> outcome frame.
  Variable f0 : frame.
  Variable Q : leaf -> Prop.
  Hypothesis HQinv : forall l b, Q l -> Q (m_setInverse l b).
  Hypothesis H12 : forall g ls, cols g = cols f0 -> Forall Q ls -> q1 g ls = filter_leaves mt g ls.

  Notation GF q := (gc_FilterClause_filter Nat.eqb m_Err ix m_withErr with_ix q linv m_setInverse).

  Definition ext_at (c : clause) : Prop :=
    Forall Q (clause_leaves c) -> forall g, cols g = cols f0 -> GF q1 (embed c) g = GF (filter_leaves mt) (embed c) g.

  Lemma gf_cols c g r : GF (filter_leaves mt) (embed c) g = Ok r -> cols r = cols g.
  Proof. intro H. pose proof (g_filter_eq mt c g) as HE. unfold g_filter in HE. rewrite HE in H. exact (clause_filter_cols mt c g r H). Qed.

  Lemma ext_and_loop cs : Forall ext_at cs -> Forall Q (flat_map clause_leaves cs) -> forall g, cols g = cols f0 ->
    gc_AndClause_filter_loop1 (GF q1) (map embed cs) (Some g) = gc_AndClause_filter_loop1 (GF (filter_leaves mt)) (map embed cs) (Some g).
  Proof.
    induction 1 as [|c cs Hc Hcs IH]; intros HQ g Hg; [reflexivity|].
    cbn [flat_map] in HQ. apply Forall_app in HQ as [HQc HQcs].
    cbn [map gc_AndClause_filter_loop1 gc_deref obind]. rewrite (Hc HQc g Hg).
    destruct (GF (filter_leaves mt) (embed c) g) as [g'| |] eqn:E; cbn [obind]; try reflexivity.
    apply (IH HQcs). rewrite (gf_cols c g g' E). exact Hg.
  Qed.

  Definition or_tail (q : frame -> list leaf -> outcome frame) (g : frame) (p : list leaf * option frame) : outcome frame :=
    let '(v_filters, v_filteredQf) := p in
    do v_filteredQf <- (
      if (0 <? (Z.of_nat (length v_filters))) then
        do t7 <- q g v_filters;
        let v_newQf := t7 in
        do t8 <- gc_orFrames Nat.eqb m_Err ix with_ix (Some g) v_filteredQf (Some v_newQf);
        let v_filteredQf := t8 in
        Ok v_filteredQf
      else
        Ok v_filteredQf);
    do t9 <- gc_deref v_filteredQf;
    Ok t9.

  Lemma ext_or_loop g cs : cols g = cols f0 -> Forall ext_at cs -> Forall Q (flat_map clause_leaves cs) ->
    forall filters acc, Forall Q filters ->
    (do p <- gc_OrClause_filter_loop1 Nat.eqb m_Err ix with_ix q1 (GF q1) (map embed cs) g filters acc; or_tail q1 g p)
    = (do p <- gc_OrClause_filter_loop1 Nat.eqb m_Err ix with_ix (filter_leaves mt) (GF (filter_leaves mt)) (map embed cs) g filters acc;
       or_tail (filter_leaves mt) g p).
  Proof.
    intros Hg. induction 1 as [|c cs Hc Hcs IH]; intros HQ filters acc Hfs.
    - cbn [map gc_OrClause_filter_loop1 obind or_tail]. rewrite (H12 g filters Hg Hfs). reflexivity.
    - cbn [flat_map] in HQ. apply Forall_app in HQ as [HQc HQcs].
      pose proof (Hc HQc g Hg) as Hcg.
      destruct c as [l|cs'|cs'|c'|]; cbn [embed] in Hcg; cbn [map embed gc_OrClause_filter_loop1].
      1: { cbn [obind]. apply (IH HQcs). apply Forall_app. split; [exact Hfs|]. cbn in HQc. exact HQc. }
      all: rewrite Hcg, (H12 g filters Hg Hfs);
        destruct (0 <? Z.of_nat (length filters));
        repeat (match goal with
                | |- context [obind ?x _] =>
                    lazymatch x with
                    | gc_OrClause_filter_loop1 _ _ _ _ _ _ _ _ _ _ => fail
                    | obind _ _ => fail
                    | Ok _ => fail
                    | _ => destruct x; cbn [obind]; try reflexivity
                    end
                end);
        apply (IH HQcs); first [exact Hfs | constructor].
  Qed.

  Theorem gc_filter_ext : forall c, ext_at c.
  Proof.
    induction c as [l| |c IH|cs IH|cs IH] using gcp_clause_ind; intros HQ g Hg.
    - cbn [embed gc_FilterClause_filter]. unfold gc_Filter_filter. rewrite (H12 g [l] Hg HQ). reflexivity.
    - reflexivity.
    - cbn [clause_leaves] in HQ. pose proof (IH HQ g Hg) as Hcg.
      cbn [embed gc_FilterClause_filter]. unfold gc_NotClause_filter.
      destruct c as [l|cs'|cs'|c'|]; cbn [embed] in Hcg |- *; try (rewrite Hcg; reflexivity).
      rewrite (H12 g [m_setInverse l (negb (linv l))] Hg).
      + reflexivity.
      + constructor; [|constructor]. apply HQinv. cbn in HQ. now inversion HQ.
    - cbn [clause_leaves] in HQ. cbn [embed gc_FilterClause_filter]. unfold gc_AndClause_filter.
      rewrite (ext_and_loop cs IH HQ g Hg). reflexivity.
    - cbn [clause_leaves] in HQ. cbn [embed gc_FilterClause_filter]. unfold gc_OrClause_filter.
      pose proof (ext_or_loop g cs Hg IH HQ [] None (Forall_nil _)) as HL. unfold or_tail in HL.
      destruct (negb (gc_isnil (m_Err g))); [reflexivity|].
      destruct (gc_OrClause_Err (cerr (COr cs)) (map embed cs)) as [e| |]; cbn [obind]; try reflexivity.
      destruct (negb (gc_isnil e)); [reflexivity|]. exact HL.
  Qed.
End Ext.

(* ------------------------------------------------------------------ QFrame.Filter: translated text from the clause tree to the kernel call *)

From QF Require Import Proofs.EnumOrderProofs.

(* the generated QFrame.Filter of Gen/GenFilterClause.v whose column level qf.filter(filters...) is the generated
   QFrame.filter of Gen/GenFilterDispatch.v (the leaves of the clause level are the model's leaves, handed to the
   column level as Go values through leaf_go) *)
Definition g_QFrame_Filter (f2i : N -> Z) (mt : matcher_table) (fuel : nat) : frame -> gclause -> outcome frame :=
  gc_QFrame_Filter Nat.eqb m_Err ix m_withErr with_ix (fun g ls => g_QFrame_filter f2i mt fuel g (map leaf_go ls)) linv m_setInverse.

Definition g_e_filterBuiltIn (mt : matcher_table) :=
  @gd_e_Column_filterBuiltIn nat unit N SCm (list bytes) bitset FN1m FN2m m_new_error m_propagate (fun l => l)
     m_e0 m_e1 m_e2 (m_eLike mt) m_eIn m_eBitset.

Lemma g_Column_Filter_eqE f2i mt c fuel index (cmp : fcmp) (a : rarg) b : col_okE c -> (2 <= fuel)%nat -> rarg_ok f2i a ->
  g_Column_Filter f2i mt fuel (col_go c) index (cmp_go cmp) (rarg_go a) b = res_go b (col_filter mt c index cmp a b).
Proof. exact (gd_Column_Filter_eqE f2i mt c fuel index cmp a b). Qed.

Lemma g_QFrame_filter_eqE f2i mt fuel f ls : (2 <= fuel)%nat -> frame_cols_okE f ->
  Forall (fun l => arg_ok f2i (larg l)) ls ->
  g_QFrame_filter f2i mt fuel f (map leaf_go ls) = filter_leaves mt f ls.
Proof. exact (gd_QFrame_filter_eqE f2i mt fuel f ls). Qed.

Lemma frame_cols_okE_cols f g : cols g = cols f -> frame_cols_okE f -> frame_cols_okE g.
Proof. intros H Hf n c Hn. apply (Hf n c). unfold lookup_col, lookup in *. now rewrite <- H. Qed.

(* a well-formed frame has at most 255 values per enum column *)
Lemma wf_frame_cols_okE f : wf_frame f = true -> frame_cols_okE f.
Proof.
  intros H n c Hn. destruct (lookup_col_in _ _ _ Hn) as [m Hin].
  unfold wf_frame in H. apply andb_prop in H as [H _]. rewrite forallb_forall in H.
  specialize (H _ Hin). cbn [snd] in H. apply andb_prop in H as [_ H].
  destruct c; cbn [col_okE]; try exact I. cbn [col_wf] in H. apply andb_prop in H as [_ H].
  apply Nat.leb_le in H. change (N.to_nat c_maxCardinality) with 255%nat in H. lia.
Qed.

Theorem g_QFrame_Filter_eq' f2i mt fuel f (c : clause) : (2 <= fuel)%nat -> frame_cols_okE f ->
  Forall (fun l => arg_ok f2i (larg l)) (clause_leaves c) ->
  g_QFrame_Filter f2i mt fuel f (embed c) = frame_filter mt f c.
Proof.
  intros Hf Hc Hl. rewrite <- (g_QFrame_Filter_eq mt f c). unfold g_QFrame_Filter, gc_QFrame_Filter.
  destruct (negb (gc_isnil (m_Err f))); [reflexivity|].
  rewrite (gc_filter_ext mt (fun g ls => g_QFrame_filter f2i mt fuel g (map leaf_go ls)) f (fun l => arg_ok f2i (larg l))).
  - reflexivity.
  - intros l b H. exact H.
  - intros g ls Hg Hls. apply g_QFrame_filter_eqE; [exact Hf| |exact Hls]. exact (frame_cols_okE_cols f g Hg Hc).
  - exact Hl.
  - reflexivity.
Qed.

(* C02's frame theorem (filter_meets_spec) on the translated text *)
Definition g_C02_statement : Prop :=
  forall (f2i : N -> Z) mt fuel f c,
    (2 <= fuel)%nat -> Forall (fun l => arg_ok f2i (larg l)) (clause_leaves c) ->
    c02_premises_b mt f c = true -> ix f <> [] ->
    match filter_spec mt f c with
    | VRows rows =>
        g_QFrame_Filter f2i mt fuel f (embed c) = Ok (with_ix f rows)
        /\ rows = filter (fun p => sat_true (clause_sat mt f c p)) (ix f)
    | VError => exists g, g_QFrame_Filter f2i mt fuel f (embed c) = Ok g /\ ferr g = true
    | VOpen | VFault => False
    end.

Theorem g_C02 : g_C02_statement.
Proof.
  intros f2i mt fuel f c Hf Hl Hp Hne.
  assert (Hc : frame_cols_okE f).
  { apply wf_frame_cols_okE. pose proof Hp as Hp'. unfold c02_premises_b in Hp'.
    do 5 (apply andb_prop in Hp' as [Hp' _]). exact Hp'. }
  rewrite (g_QFrame_Filter_eq' f2i mt fuel f c Hf Hc Hl). exact (filter_meets_spec mt f c Hp Hne).
Qed.

(* C17: an undeclared constant, on the translated text: the column level ... *)
Lemma g_e_filter_undeclared mt d vals strict cmp op s index b :
  (length vals <= 256)%nat -> cop_of cmp = Some op -> ~ In s vals ->
  g_e_filterBuiltIn mt d vals strict index cmp (gd_any_string s) b
  = if strict then Ok (Some tt, b)
    else Ok (None, if match op with ONe => true | _ => false end then map (fun _ => true) b else b).
Proof.
  intros Hlen Hop Hin. change (@gd_any_string N SCm FN1m FN2m s) with (rarg_go (RConst (AStr s))).
  unfold g_e_filterBuiltIn. rewrite (gd_e_builtin_eq mt d vals strict index cmp (RConst (AStr s)) b Hlen).
  rewrite (enum_filter_undeclared mt d vals strict cmp op s index b Hop Hin). destruct strict; reflexivity.
Qed.

(* ... and the frame level: with declared values Err is set, for each of the six operators *)
Lemma g_frame_filter_undeclared f2i mt fuel (f : frame) col d vals cmp op s :
  (2 <= fuel)%nat -> frame_cols_okE f ->
  ferr f = false -> lookup_col f col = Some (ECol d vals true) -> cop_of cmp = Some op -> ~ In s vals ->
  g_QFrame_Filter f2i mt fuel f (embed (CLeaf (mkLeaf col (CmpName cmp) (AStr s) false))) = Ok (with_err f).
Proof.
  intros Hf Hc He Hl Hop Hin.
  rewrite (g_QFrame_Filter_eq' f2i mt fuel f _ Hf Hc) by (repeat constructor).
  exact (enum_frame_filter_undeclared mt f col d vals cmp op s He Hl Hop Hin).
Qed.
