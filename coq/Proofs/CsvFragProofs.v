(* Proofs/CsvFragProofs.v — bounded exhaustive evidence for buffer_refines_stream: every short document
   over the adversarial alphabet, every chunking, small initial capacities, both EOF styles. *)
From QF Require Import Base.Prelude Model.FastCsv Model.CsvSpec.
Local Open Scope N_scope.

Definition frag_alphabet : bytes := [97; 34; 44; 10; 13].

(* all byte strings over [alpha] of length <= n *)
Fixpoint docs_upto (alpha : bytes) (n : nat) : list bytes :=
  match n with
  | O => [[]]
  | S n' => [] :: flat_map (fun d => map (fun c => c :: d) alpha) (docs_upto alpha n')
  end.

(* all ways of cutting a document into non-empty chunks *)
Fixpoint chunkings (doc : bytes) : list (list bytes) :=
  match doc with
  | [] => [[]]
  | c :: rest =>
      flat_map (fun ch => match ch with
                          | [] => [[[c]]]
                          | first :: more => [[c] :: first :: more; (c :: first) :: more]
                          end) (chunkings rest)
  end.

Definition result_eqb (r : outcome (list (list bytes) * bool)) (rows : list (list bytes)) : bool :=
  match r with
  | Ok (rows', false) => list_eqb (list_eqb bytes_eqb) rows' rows
  | _ => false
  end.

Lemma result_eqb_spec r rows : result_eqb r rows = true -> r = Ok (rows, false).
Proof.
  destruct r as [[rows' [|]]| |]; simpl; try discriminate.
  intros H. apply (list_eqb_spec _ (list_eqb_spec _ bytes_eqb_spec)) in H. subst. reflexivity.
Qed.

Definition frag_check (n : nat) : bool :=
  forallb (fun doc =>
    let expect := stream_scan 44 doc in
    forallb (fun chunks =>
      forallb (fun cap =>
        forallb (fun t => result_eqb (scan cap 44 chunks t) expect) [TEofSep; TEofWith])
      [0; 1; 2]%nat)
    (chunkings doc))
  (docs_upto frag_alphabet n).

Lemma frag_check_4 : frag_check 4 = true.
Proof. vm_compute. reflexivity. Qed.

Theorem frag_sweep :
  forall doc chunks cap t,
    In doc (docs_upto frag_alphabet 4) -> In chunks (chunkings doc) ->
    In cap [0; 1; 2]%nat -> In t [TEofSep; TEofWith] ->
    scan cap 44 chunks t = Ok (stream_scan 44 doc, false).
Proof.
  intros doc chunks cap t Hd Hc Hcap Ht.
  pose proof frag_check_4 as H. unfold frag_check in H.
  rewrite forallb_forall in H. specialize (H doc Hd). cbv zeta in H.
  rewrite forallb_forall in H. specialize (H chunks Hc).
  rewrite forallb_forall in H. specialize (H cap Hcap).
  rewrite forallb_forall in H. specialize (H t Ht).
  apply result_eqb_spec. exact H.
Qed.
