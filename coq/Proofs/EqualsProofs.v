(* Proofs/EqualsProofs.v — property C09: Equals is cell-wise equality through the two row indexes. *)
From QF Require Import Base.Prelude Model.Frame Model.Filter Model.Ops.
Local Open Scope nat_scope.

(* cell equality as Equals defines it: null = null, NaN = NaN, -0 = +0, enum cells by their string *)
Lemma f_eq_refl_or_nan x : f_eq x x || (f_isnan x && f_isnan x) = true.
Proof. unfold f_eq. destruct (f_isnan x); simpl; [reflexivity|]. rewrite Z.eqb_refl. reflexivity. Qed.

Lemma opt_bytes_eqb_refl s : opt_bytes_eqb s s = true.
Proof. destruct s; simpl; [apply bytes_eqb_refl|reflexivity]. Qed.

Lemma opt_bytes_eqb_eq a b : opt_bytes_eqb a b = true <-> a = b.
Proof.
  destruct a, b; simpl; split; intro H; try discriminate; try reflexivity.
  - apply bytes_eqb_spec in H. congruence.
  - inversion H. apply bytes_eqb_refl.
Qed.

Lemma cell_eqb_refl c : cell_eqb c c = true.
Proof.
  destruct c; simpl; [apply Z.eqb_refl|apply f_eq_refl_or_nan|apply eqb_reflx|apply opt_bytes_eqb_refl|apply opt_bytes_eqb_refl].
Qed.

Lemma float_eq_sym x y : f_eq x y || (f_isnan x && f_isnan y) = f_eq y x || (f_isnan y && f_isnan x).
Proof.
  unfold f_eq. destruct (f_isnan x), (f_isnan y); simpl; try reflexivity. rewrite Z.eqb_sym. reflexivity.
Qed.

Lemma cell_eqb_sym a b : cell_eqb a b = cell_eqb b a.
Proof.
  destruct a, b; simpl; try reflexivity.
  - apply Z.eqb_sym.
  - apply float_eq_sym.
  - destruct b0, b; reflexivity.
  - destruct (opt_bytes_eqb s s0) eqn:E.
    + apply opt_bytes_eqb_eq in E. subst. symmetry. apply opt_bytes_eqb_refl.
    + destruct (opt_bytes_eqb s0 s) eqn:E2; [|reflexivity]. apply opt_bytes_eqb_eq in E2. subst.
      rewrite opt_bytes_eqb_refl in E. discriminate.
  - destruct (opt_bytes_eqb s s0) eqn:E.
    + apply opt_bytes_eqb_eq in E. subst. symmetry. apply opt_bytes_eqb_refl.
    + destruct (opt_bytes_eqb s0 s) eqn:E2; [|reflexivity]. apply opt_bytes_eqb_eq in E2. subst.
      rewrite opt_bytes_eqb_refl in E. discriminate.
Qed.

Lemma cell_eqb_trans a b c : cell_eqb a b = true -> cell_eqb b c = true -> cell_eqb a c = true.
Proof.
  destruct a, b, c; simpl; try discriminate; intros H1 H2.
  - apply Z.eqb_eq in H1, H2. apply Z.eqb_eq. congruence.
  - unfold f_eq in *. destruct (f_isnan b), (f_isnan b0), (f_isnan b1); simpl in *; try discriminate; try reflexivity.
    rewrite orb_false_r in *. apply Z.eqb_eq in H1, H2. apply Z.eqb_eq. congruence.
  - apply eqb_prop in H1, H2. subst. apply eqb_reflx.
  - apply opt_bytes_eqb_eq in H1, H2. subst. apply opt_bytes_eqb_refl.
  - apply opt_bytes_eqb_eq in H1, H2. subst. apply opt_bytes_eqb_refl.
Qed.

(* Column.Equals reads both columns through their own index and answers exactly "same type and pairwise equal
   cells", for every pair of row indexes of equal length *)
Lemma col_equals_spec c o : forall index oindex xs ys,
  length index = length oindex ->
  omap (cell_at c) index = Ok xs -> omap (cell_at o) oindex = Ok ys ->
  col_equals c index o oindex = Ok (ctype_eqb (col_type c) (col_type o) && list_eqb cell_eqb xs ys).
Proof.
  intros index oindex xs ys Hlen Hx Hy. unfold col_equals.
  destruct (ctype_eqb (col_type c) (col_type o)); simpl; [|reflexivity].
  revert oindex xs ys Hlen Hx Hy.
  induction index as [|p index IH]; intros [|q oindex] xs ys Hlen Hx Hy; simpl in *; try discriminate.
  - inversion Hx; inversion Hy; subst. reflexivity.
  - destruct (cell_at c p) as [x| |]; simpl in *; try discriminate.
    destruct (omap (cell_at c) index) as [xs'| |] eqn:Ex; simpl in *; try discriminate.
    destruct (cell_at o q) as [y| |]; simpl in *; try discriminate.
    destruct (omap (cell_at o) oindex) as [ys'| |] eqn:Ey; simpl in *; try discriminate.
    inversion Hx; inversion Hy; subst. simpl.
    destruct (cell_eqb x y); [|reflexivity]. simpl. apply (IH oindex xs' ys'); [lia|reflexivity|exact Ey].
Qed.

Lemma list_eqb_cell_refl xs : list_eqb cell_eqb xs xs = true.
Proof. induction xs as [|x xs IH]; simpl; [reflexivity|]. rewrite cell_eqb_refl, IH. reflexivity. Qed.

Lemma list_eqb_cell_sym : forall xs ys, list_eqb cell_eqb xs ys = list_eqb cell_eqb ys xs.
Proof.
  induction xs as [|x xs IH]; intros [|y ys]; simpl; try reflexivity. rewrite cell_eqb_sym, IH. reflexivity.
Qed.

Lemma list_eqb_cell_trans : forall xs ys zs,
  list_eqb cell_eqb xs ys = true -> list_eqb cell_eqb ys zs = true -> list_eqb cell_eqb xs zs = true.
Proof.
  induction xs as [|x xs IH]; intros [|y ys] [|z zs]; simpl; try discriminate; try reflexivity.
  intros H1 H2. apply andb_true_iff in H1 as [A1 B1]. apply andb_true_iff in H2 as [A2 B2].
  rewrite (cell_eqb_trans x y z A1 A2), (IH ys zs B1 B2). reflexivity.
Qed.

(* a frame is Equal to itself: Equals is reflexive on every frame whose cells can be read *)
Lemma equals_refl_cols f : forall cs,
  (forall nc, In nc cs -> exists xs, omap (cell_at (snd nc)) (ix f) = Ok xs) ->
  (fix go (a b : list (bytes * coldata)) : outcome bool :=
     match a, b with
     | (n, c) :: a', (m, o) :: b' =>
         if negb (bytes_eqb n m) then Ok false
         else do e <- col_equals c (ix f) o (ix f); if e then go a' b' else Ok false
     | _, _ => Ok true
     end) cs cs = Ok true.
Proof.
  induction cs as [|[n c] cs IH]; intro H; [reflexivity|].
  rewrite bytes_eqb_refl. simpl negb. cbv iota.
  destruct (H (n, c) (or_introl eq_refl)) as [xs Hxs]. simpl in Hxs.
  rewrite (col_equals_spec c c (ix f) (ix f) xs xs eq_refl Hxs Hxs).
  assert (Ht : ctype_eqb (col_type c) (col_type c) = true) by (destruct (col_type c); reflexivity).
  rewrite Ht, list_eqb_cell_refl. simpl. apply IH. intros nc Hin. apply H. right. exact Hin.
Qed.

Theorem equals_refl f t : abs f = Ok t -> equals f f = Ok true.
Proof.
  intro Ht. unfold equals. rewrite !Nat.eqb_refl. simpl negb. cbv iota.
  apply equals_refl_cols. intros nc Hin.
  (* every column can be read through the index because the whole table could *)
  unfold abs in Ht. destruct (omap (row_at f) (ix f)) as [rows| |] eqn:E; try discriminate. clear Ht.
  revert rows E. induction (ix f) as [|p i IH]; intros rows E; simpl in *.
  - exists []. reflexivity.
  - destruct (row_at f p) as [row| |] eqn:Er; simpl in E; try discriminate.
    destruct (omap (row_at f) i) as [rows'| |] eqn:E2; simpl in E; try discriminate.
    destruct (IH rows' eq_refl) as [xs Hxs]. rewrite Hxs.
    unfold row_at in Er.
    assert (Hc : exists x, cell_at (snd nc) p = Ok x).
    { clear - Er Hin. revert row Er. induction (cols f) as [|nc0 cs IHc]; intros row Er; [destruct Hin|].
      simpl in Er. destruct (cell_at (snd nc0) p) as [x| |] eqn:Ex; simpl in Er; try discriminate.
      destruct (omap (fun nc1 => cell_at (snd nc1) p) cs) as [r'| |] eqn:E3; simpl in Er; try discriminate.
      destruct Hin as [->|Hin]; [exists x; exact Ex|]. apply (IHc Hin r' eq_refl). }
    destruct Hc as [x Hx]. rewrite Hx. simpl. eexists; reflexivity.
Qed.
