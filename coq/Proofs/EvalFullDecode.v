(* Proofs/EvalFullDecode.v — property C07, decoding: whichever expression type newExpr picks (column-constant in either
   order, column-column, nested), the decoded tree denotes the function applied to the denotations of the operands IN
   THE ORDER WRITTEN; Expr with more than two arguments denotes the left fold. *)
From QF Require Import Base.Prelude Model.Frame Model.Filter Model.Ops Model.TableSpec Model.Eval Corr.FrameCorr.
Local Open Scope nat_scope.

Section Decode.
  Variable cx : ctx.
  Variable t : table.

  Definition den (x : earg) : dres := denote cx t (new_expr x).
  Definition decodes (x : earg) : Prop := is_xerror (new_expr x) = false.

  Lemma decode_unary_den op a :
    decodes a -> denote cx t (new_expr (EList [EStr op; a])) = d_unary cx op (den a) /\ decodes (EList [EStr op; a]).
  Proof.
    unfold decodes, den. intro Ha.
    destruct a as [s|c| |n|l|e|]; cbn [new_expr as_op as_col] in *; try rewrite Ha; try (split; reflexivity).
    all: try discriminate Ha.
  Qed.

  Lemma decode_binary_den op a b :
    decodes a -> decodes b ->
    denote cx t (new_expr (EList [EStr op; a; b])) = d_binary cx op (den a) (den b)
    /\ decodes (EList [EStr op; a; b]).
  Proof.
    unfold decodes, den. intros Ha Hb.
    destruct a as [sa|ca| |na|la|ea|]; destruct b as [sb|cb| |nb|lb|eb|];
      cbn [new_expr as_op as_col as_const] in *; try rewrite Ha; try rewrite Hb; cbn [is_xerror];
      try (split; reflexivity); try discriminate Ha; try discriminate Hb.
  Qed.

  (* Expr(name, a, b, c, ...) denotes (...((a name b) name c) ...) *)
  Lemma decode_fold_den name : forall rest acc,
    is_xerror acc = false -> Forall decodes rest ->
    denote cx t (fold_left (fun acc x => new_expr (EList [EStr name; EBuilt acc; x])) rest acc)
    = fold_left (fun d x => d_binary cx name d (den x)) rest (denote cx t acc).
  Proof.
    induction rest as [|x rest IH]; intros acc Hacc Hall; cbn [fold_left]; [reflexivity|].
    inversion Hall as [|? ? Hx Hrest]; subst.
    destruct (decode_binary_den name (EBuilt acc) x Hacc Hx) as [Hd Hok].
    rewrite (IH _ Hok Hrest). rewrite Hd. reflexivity.
  Qed.

  Theorem expr_call_den name a b rest :
    Forall decodes (a :: b :: rest) ->
    denote cx t (expr_call name (a :: b :: rest))
    = fold_left (fun d x => d_binary cx name d (den x)) rest (d_binary cx name (den a) (den b)).
  Proof.
    intro Hall. inversion Hall as [|? ? Ha Hall']; subst. inversion Hall' as [|? ? Hb Hrest]; subst.
    destruct (decode_binary_den name a b Ha Hb) as [Hd Hok].
    unfold expr_call. rewrite (decode_fold_den name rest _ Hok Hrest), Hd. reflexivity.
  Qed.

  Theorem expr_call_den1 name a : decodes a -> denote cx t (expr_call name [a]) = d_unary cx name (den a).
  Proof. intro Ha. apply (decode_unary_den name a Ha). Qed.
End Decode.
