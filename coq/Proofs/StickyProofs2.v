(* Proofs/StickyProofs2.v — property C10, stickiness for the operations Proofs/StickyProofs.v leaves open:
   Sort (Model/SortFrame.v), Distinct, GroupBy, Aggregate, QFrames (Model/Aggregate.v) and the serializers
   ToCSV / ToJSON / ToSQL on a failed frame.

   "Sticky" for a chainable operation: a receiver with Err is returned unchanged.  GroupBy hands the error to the
   Grouper, Aggregate hands the Grouper's error to the frame it returns, QFrames returns it.  "No callback": on a
   failed receiver the result is the same for ALL values of every other argument - orders, columns, memhash,
   random source, aggregation functions and their recorded tables, the float oracle: none of them is consulted.

   The serializers: Model/JsonRead.v frame_to_json tests Err itself.  Model/Observe.v frame_to_csv / frame_to_json
   and Model/Sql.v to_sql are written for a frame WITHOUT Err (the engines never call them otherwise); the Go entry
   points begin with `if qf.Err != nil { return qerrors.Propagate(...) }` (qframe.go ToCSV, ToJSON, ToSQL) - the
   thin wrappers *_checked below put that line in front of the models. *)
From QF Require Import Base.Prelude Gen.GenConsts Model.Frame Model.Filter Model.Ops.
From QF Require Import Model.Sort Model.SortFrame Model.Aggregate.
From QF Require Model.Grouper Model.Observe Model.JsonRead Model.Sql Model.IOFault Model.CsvWrite.
From QF Require Import Proofs.StickyProofs.
Local Open Scope nat_scope.

(* ------------------------------------------------------------------ Sort *)

Lemma sort_sticky f orders : ferr f = true -> sort_frame f orders = Ok f.
Proof. intro H. unfold sort_frame. rewrite H. reflexivity. Qed.

Lemma sort_no_callback f o1 o2 : ferr f = true -> sort_frame f o1 = sort_frame f o2.
Proof. intro H. rewrite !(sort_sticky f _ H). reflexivity. Qed.

(* ------------------------------------------------------------------ Distinct *)

Lemma distinct_with_sticky dst f columns : ferr f = true -> distinct_with dst f columns = Ok f.
Proof. intro H. unfold distinct_with. rewrite H. reflexivity. Qed.

Lemma distinct_sticky mh rnd nulleq f columns : ferr f = true -> distinct mh rnd nulleq f columns = Ok f.
Proof. intro H. apply distinct_with_sticky. exact H. Qed.

Lemma distinct_no_callback mh1 mh2 rnd1 rnd2 n1 n2 f c1 c2 :
  ferr f = true -> distinct mh1 rnd1 n1 f c1 = distinct mh2 rnd2 n2 f c2.
Proof. intro H. rewrite !(distinct_sticky _ _ _ f _ H). reflexivity. Qed.

(* ------------------------------------------------------------------ GroupBy *)

(* return Grouper{Err: qf.Err} *)
Lemma group_by_with_sticky grp f columns : ferr f = true -> group_by_with grp f columns = Ok err_grouper.
Proof. intro H. unfold group_by_with. rewrite H. reflexivity. Qed.

Lemma group_by_sticky mh rnd nulleq f columns : ferr f = true -> group_by mh rnd nulleq f columns = Ok err_grouper.
Proof. intro H. apply group_by_with_sticky. exact H. Qed.

Lemma err_grouper_err : gerr err_grouper = true.
Proof. reflexivity. Qed.

Lemma group_by_no_callback mh1 mh2 rnd1 rnd2 n1 n2 f c1 c2 :
  ferr f = true -> group_by mh1 rnd1 n1 f c1 = group_by mh2 rnd2 n2 f c2.
Proof. intro H. rewrite !(group_by_sticky _ _ _ f _ H). reflexivity. Qed.

(* GroupBy reports invalid use (an unknown grouping column) through the Grouper's Err, never by a panic, also on
   a frame without rows (checkColumns comes before the length test) *)
Lemma group_by_unknown_column grp f columns :
  forallb (contains f) columns = false -> exists g, group_by_with grp f columns = Ok g /\ gerr g = true.
Proof.
  intro H. exists err_grouper. split; [|reflexivity]. unfold group_by_with. destruct (ferr f); [reflexivity|].
  rewrite H. reflexivity.
Qed.

(* ------------------------------------------------------------------ Aggregate, QFrames *)

(* return QFrame{Err: g.Err} *)
Lemma aggregate_sticky ft g aggs : gerr g = true -> aggregate ft g aggs = Ok err_frame.
Proof. intro H. unfold aggregate. rewrite H. reflexivity. Qed.

Lemma err_frame_err : ferr err_frame = true /\ frame_len err_frame = (-1)%Z.
Proof. split; reflexivity. Qed.

Lemma aggregate_no_callback ft1 ft2 g a1 a2 : gerr g = true -> aggregate ft1 g a1 = aggregate ft2 g a2.
Proof. intro H. rewrite !(aggregate_sticky _ g _ H). reflexivity. Qed.

(* return nil, g.Err *)
Lemma qframes_sticky g : gerr g = true -> qframes g = Fail.
Proof. intro H. unfold qframes. rewrite H. reflexivity. Qed.

(* the chains: a failed frame, grouped and aggregated, is a failed frame (Len = -1); no hash, no random draw,
   no aggregation function, no oracle is consulted on the way *)
Lemma groupby_aggregate_sticky mh rnd nulleq ft f columns aggs :
  ferr f = true ->
  (do gr <- group_by mh rnd nulleq f columns; aggregate ft gr aggs) = Ok err_frame.
Proof. intro H. rewrite (group_by_sticky mh rnd nulleq f columns H). reflexivity. Qed.

Lemma groupby_qframes_sticky mh rnd nulleq f columns :
  ferr f = true -> (do gr <- group_by mh rnd nulleq f columns; qframes gr) = Fail.
Proof. intro H. rewrite (group_by_sticky mh rnd nulleq f columns H). reflexivity. Qed.

Lemma groupby_aggregate_no_callback mh1 mh2 rnd1 rnd2 n1 n2 ft1 ft2 f c1 c2 a1 a2 :
  ferr f = true ->
  (do gr <- group_by mh1 rnd1 n1 f c1; aggregate ft1 gr a1) = (do gr <- group_by mh2 rnd2 n2 f c2; aggregate ft2 gr a2).
Proof. intro H. rewrite !(groupby_aggregate_sticky _ _ _ _ f _ _ H). reflexivity. Qed.

(* Aggregate after an invalid GroupBy (unknown column) on a frame WITHOUT Err: the error is passed on as well *)
Lemma groupby_unknown_aggregate mh rnd nulleq ft f columns aggs :
  forallb (contains f) columns = false ->
  (do gr <- group_by mh rnd nulleq f columns; aggregate ft gr aggs) = Ok err_frame.
Proof.
  intro H. unfold group_by, group_by_with. destruct (ferr f); [reflexivity|]. rewrite H. reflexivity.
Qed.

(* every chainable operation of this file after the first error: the frame is still the failed frame *)
Inductive op2 :=
| OSort (orders : list order)
| ODistinct (mh : bytes -> N -> N) (rnd : nat -> nat -> N) (nulleq : bool) (columns : list bytes).

Definition run_op2 (f : frame) (o : op2) : outcome frame :=
  match o with
  | OSort orders => sort_frame f orders
  | ODistinct mh rnd nulleq columns => distinct mh rnd nulleq f columns
  end.

Lemma chain2_sticky f ops : ferr f = true -> ofold run_op2 ops f = Ok f.
Proof.
  intro H. unfold ofold. induction ops as [|o ops IH]; cbn [fold_left]; [reflexivity|].
  cbn [obind]. destruct o; cbn [run_op2]; [rewrite (sort_sticky f _ H)|rewrite (distinct_sticky _ _ _ f _ H)]; exact IH.
Qed.

(* ------------------------------------------------------------------ the serializers on a failed frame *)

(* ToJSON, the model the strings engine runs (Model/JsonRead.v): the test is part of the model *)
Lemma json_failed f : ferr f = true -> JsonRead.frame_to_json f = Fail.
Proof. intro H. unfold JsonRead.frame_to_json. rewrite H. reflexivity. Qed.

(* func (qf QFrame) ToCSV(writer, confFuncs...) error { conf := ...; if qf.Err != nil { return Propagate } ... } *)
Definition to_csv_checked (format_float : N -> bytes) (f : frame) (conf : CsvWrite.to_conf) : outcome bytes :=
  if ferr f then Fail else Observe.frame_to_csv format_float f conf.

(* func (qf QFrame) ToJSON(writer) error { if qf.Err != nil { return Propagate } ... } over Model/Observe.v *)
Definition to_json_checked (append_float : N -> bytes) (f : frame) : outcome bytes :=
  if ferr f then Fail else Observe.frame_to_json append_float f.

Lemma to_csv_failed ff f conf : ferr f = true -> to_csv_checked ff f conf = Fail.
Proof. intro H. unfold to_csv_checked. rewrite H. reflexivity. Qed.
Lemma to_csv_checked_ok ff f conf : ferr f = false -> to_csv_checked ff f conf = Observe.frame_to_csv ff f conf.
Proof. intro H. unfold to_csv_checked. rewrite H. reflexivity. Qed.

Lemma to_json_failed af f : ferr f = true -> to_json_checked af f = Fail.
Proof. intro H. unfold to_json_checked. rewrite H. reflexivity. Qed.
Lemma to_json_checked_ok af f : ferr f = false -> to_json_checked af f = Observe.frame_to_json af f.
Proof. intro H. unfold to_json_checked. rewrite H. reflexivity. Qed.

(* the same at the level of the io.Writer (Model/IOFault.v: what the writer accepted, error returned?): with Err
   set the entry point returns before the first Write - the writer has accepted nothing more than it had *)
Definition to_csv_io_checked (err : bool) (header : option (list IOFault.wop)) (rows : list (list IOFault.wop))
           (w : IOFault.fwriter) : outcome (bytes * bool) :=
  if err then Ok (IOFault.fw_got w, true) else IOFault.to_csv header rows w.
Definition to_json_io_checked (err : bool) (records : list bytes) (w : IOFault.fwriter) : bytes * bool :=
  if err then (IOFault.fw_got w, true) else IOFault.to_json records w.

Lemma to_csv_io_failed header rows w : to_csv_io_checked true header rows w = Ok (IOFault.fw_got w, true).
Proof. reflexivity. Qed.
Lemma to_json_io_failed records w : to_json_io_checked true records w = (IOFault.fw_got w, true).
Proof. reflexivity. Qed.

(* the unchecked writer-level models always write: "[" comes first, so with room for one byte something IS
   written - the Err test cannot be left to them *)
Lemma to_json_io_unchecked_writes records w :
  1 <= IOFault.fw_left w -> exists rest, fst (IOFault.to_json records w) = IOFault.fw_got w ++ 91%N :: rest.
Proof.
  intro H.
  assert (G : forall ps (v : IOFault.fwriter), exists r, IOFault.fw_got (fst (IOFault.json_write_all v ps)) = IOFault.fw_got v ++ r).
  { induction ps as [|p ps IH]; intro v; cbn [IOFault.json_write_all].
    - exists []. rewrite app_nil_r. reflexivity.
    - unfold IOFault.fw_write. destruct (Nat.leb (length p) (IOFault.fw_left v)).
      + destruct (IH (IOFault.mkFW (IOFault.fw_left v - length p) (IOFault.fw_got v ++ p) (IOFault.fw_sw v))) as [r Hr].
        exists (p ++ r). rewrite Hr. cbn [IOFault.fw_got]. rewrite app_assoc. reflexivity.
      + cbn [fst IOFault.fw_got]. eexists. reflexivity. }
  unfold IOFault.to_json. cbn [app IOFault.json_write_all]. unfold IOFault.fw_write at 1. cbn [length].
  rewrite (proj2 (Nat.leb_le _ _) H).
  match goal with |- context [IOFault.json_write_all ?v ?ps] =>
    destruct (G ps v) as [r Hr]; destruct (IOFault.json_write_all v ps) as [w' err] end.
  cbn [fst IOFault.fw_got] in *. exists r. rewrite Hr. rewrite <- app_assoc. reflexivity.
Qed.

(* ToSQL.  Model/Sql.v has its own frame record (columns, index; no Err).  The physical frame of Model/Frame.v
   as ToSQL sees it: *)
Definition sql_col (c : coldata) : Sql.coldata :=
  match c with
  | ICol d => Sql.CInt d
  | FCol d => Sql.CFloat d
  | BCol d => Sql.CBool d
  | SCol d => Sql.CStr d
  | ECol d vs _ => Sql.CEnum d vs
  end.
Definition sql_frame_of (f : frame) : Sql.frame :=
  Sql.mkFrame (map (fun nc => (fst nc, sql_col (snd nc))) (cols f)) (ix f).

(* func (qf QFrame) ToSQL(tx, confFuncs...) error { if qf.Err != nil { return Propagate } ... }:
   (the statements that reached the driver, status) *)
Definition to_sql_checked (f : frame) (conf : Sql.sql_config) (exec_ok : nat -> bool) : list Sql.stmt * Sql.status :=
  if ferr f then ([], Sql.SErr) else Sql.to_sql (sql_frame_of f) conf exec_ok.

(* error returned, no statement executed, whatever the configuration and the driver *)
Lemma to_sql_failed f conf exec_ok : ferr f = true -> to_sql_checked f conf exec_ok = ([], Sql.SErr).
Proof. intro H. unfold to_sql_checked. rewrite H. reflexivity. Qed.
Lemma to_sql_checked_ok f conf exec_ok :
  ferr f = false -> to_sql_checked f conf exec_ok = Sql.to_sql (sql_frame_of f) conf exec_ok.
Proof. intro H. unfold to_sql_checked. rewrite H. reflexivity. Qed.

(* the wrapper reads the frame as the models of the other observers do: the driver value of a cell is the
   logical cell (null string / enum -> NULL) *)
Definition dval_of_cell (x : cell) : Sql.dval :=
  match x with
  | CInt z => Sql.DInt z
  | CFloat b => Sql.DFloat b
  | CBool b => Sql.DBool b
  | CStr (Some s) | CEnum (Some s) => Sql.DStr s
  | CStr None | CEnum None => Sql.DNull
  end.
Lemma sql_cell_at c p : Sql.cell_at (sql_col c) p = do x <- cell_at c p; Ok (dval_of_cell x).
Proof.
  destruct c as [d|d|d|d|d vs st]; cbn [sql_col Sql.cell_at cell_at];
    destruct (idx d p) as [v| |]; cbn [obind]; try reflexivity.
  unfold enum_string, enum_is_null. destruct (v =? c_nullValue)%N; cbn [obind]; [reflexivity|].
  destruct (idx vs (N.to_nat v)); reflexivity.
Qed.

(* the unchecked model DOES execute statements on a frame with rows: the Err test cannot be left to it *)
Lemma to_sql_unchecked_executes f conf exec_ok p rest args :
  ix f = p :: rest -> Sql.row_args (sql_frame_of f) 0 = Ok args ->
  fst (Sql.to_sql (sql_frame_of f) conf exec_ok) <> [].
Proof.
  intros Hix Hargs. unfold Sql.to_sql. cbn [sql_frame_of Sql.findex]. rewrite Hix. cbn [length seq Sql.to_sql_loop].
  fold (sql_frame_of f). rewrite Hargs. destruct (exec_ok 0); [|discriminate].
  destruct (Sql.to_sql_loop (sql_frame_of f) conf exec_ok (seq 1 (length rest))). discriminate.
Qed.
