(* Proofs/IOFaultProofs.v — lemmas about Model/IOFault.v (property C15). *)
From QF Require Import Base.Prelude Gen.GenConsts Model.Sql Model.IOFault.
Local Open Scope nat_scope.

(* ================================================================== writers *)

Section Writer.
  Variable k : nat.     (* the underlying writer accepts k bytes in total *)

  (* the fault writer after the stream S has been offered to it without an error so far *)
  Definition w_inv (w : fwriter) (S : bytes) : Prop :=
    fw_got w = S /\ length S + fw_left w = k.

  (* after an error: the stream did not fit and exactly its first k bytes were accepted *)
  Definition w_failed (w : fwriter) (S : bytes) : Prop :=
    k < length S /\ fw_got w = firstn k S.

  Lemma w_failed_mono w S t : w_failed w S -> w_failed w (S ++ t).
  Proof.
    intros [H1 H2]. split.
    - rewrite app_length. lia.
    - rewrite firstn_app. replace (k - length S) with 0 by lia. simpl. now rewrite app_nil_r.
  Qed.

  Lemma fw_write_spec w S p :
    w_inv w S ->
    match fw_write w p with
    | (_, false, w') => w_inv w' (S ++ p)
    | (n, true, w') => w_failed w' (S ++ p) /\ n = fw_left w
    end.
  Proof.
    intros [Hg Hl]. unfold fw_write.
    destruct (Nat.leb (length p) (fw_left w)) eqn:E.
    - apply Nat.leb_le in E. split; simpl.
      + now rewrite Hg.
      + rewrite app_length. lia.
    - apply Nat.leb_gt in E. split; [split|reflexivity]; simpl.
      + rewrite app_length. lia.
      + rewrite Hg. rewrite firstn_app. rewrite (@firstn_all2 _ k S) by lia.
        replace (k - length S) with (fw_left w) by lia. reflexivity.
  Qed.

  (* ---------------------------------------------------------------- bufio *)

  Definition b_inv (b : bufw) (S : bytes) : Prop :=
    if b_err b then w_failed (b_wr b) S
    else exists G, w_inv (b_wr b) G /\ G ++ b_buf b = S.

  Lemma b_inv_mono b S t : b_err b = true -> b_inv b S -> b_inv b (S ++ t).
  Proof. unfold b_inv. intros ->. apply w_failed_mono. Qed.

  Lemma b_flush_inv b S : b_inv b S -> b_inv (b_flush b) S.
  Proof.
    unfold b_flush, b_inv. destruct (b_err b) eqn:E; [now rewrite E|].
    intros (G & HG & HS).
    destruct (b_buf b) as [|c rest] eqn:Eb; [rewrite E; exists G; rewrite Eb; auto|].
    pose proof (fw_write_spec (b_wr b) G (c :: rest) HG) as Hw.
    destruct (fw_write (b_wr b) (c :: rest)) as [[n err] w'].
    destruct err; simpl.
    - destruct Hw as [Hw _]. now rewrite HS in Hw.
    - exists (G ++ c :: rest). split; auto. now rewrite app_nil_r.
  Qed.

  Lemma b_flush_clean b : b_err (b_flush b) = false -> b_buf (b_flush b) = [].
  Proof.
    unfold b_flush. destruct (b_err b) eqn:E; [congruence|].
    destruct (b_buf b) as [|c rest] eqn:Eb; [auto|].
    destruct (fw_write (b_wr b) (c :: rest)) as [[n err] w']. destruct err; simpl; auto; discriminate.
  Qed.

  Lemma b_flush_err_or_empty b :
    b_err b = false -> b_err (b_flush b) = true \/ (b_err (b_flush b) = false /\ b_buf (b_flush b) = []).
  Proof.
    intros E. destruct (b_err (b_flush b)) eqn:E'; auto. right. split; auto. now apply b_flush_clean.
  Qed.

  Definition full_penalty (b : bufw) : nat := if Nat.eqb (b_available b) 0 then 1 else 0.

  (* WriteString: never out of fuel, the invariant moves on by the string *)
  Lemma b_write_string_inv : forall fuel b s S,
    b_inv b S -> 2 * length s + full_penalty b < fuel ->
    exists b', b_write_string fuel b s = Ok b' /\ b_inv b' (S ++ s).
  Proof.
    induction fuel as [|fuel IH]; intros b s S Hinv Hfuel; [lia|].
    simpl.
    destruct (Nat.ltb (b_available b) (length s) && negb (b_err b)) eqn:Hloop.
    - apply andb_true_iff in Hloop as [Hlt Herr]. apply Nat.ltb_lt in Hlt.
      apply negb_true_iff in Herr.
      destruct (Nat.eqb (length (b_buf b)) 0 && fw_sw (b_wr b)) eqn:Hdirect.
      + (* large write on an empty buffer, forwarded to the StringWriter *)
        apply andb_true_iff in Hdirect as [Hempty _]. apply Nat.eqb_eq in Hempty.
        unfold b_inv in Hinv. rewrite Herr in Hinv. destruct Hinv as (G & HG & HS).
        destruct (b_buf b) eqn:Eb; [|discriminate]. rewrite app_nil_r in HS. subst G.
        pose proof (fw_write_spec (b_wr b) S s HG) as Hw.
        destruct (fw_write (b_wr b) s) as [[n err] w'] eqn:Efw.
        destruct err.
        * destruct Hw as [Hw _].
          exists (mkBW [] true w'). split.
          -- destruct fuel; simpl; rewrite andb_false_r; reflexivity.
          -- unfold b_inv. simpl. exact Hw.
        * (* everything accepted: n = length s *)
          assert (n = length s).
          { unfold fw_write in Efw. destruct (Nat.leb (length s) (fw_left (b_wr b))); inversion Efw; auto. }
          subst n. rewrite skipn_all.
          exists (mkBW [] false w'). split.
          -- destruct fuel; simpl; reflexivity.
          -- unfold b_inv. simpl. exists (S ++ s). split; auto. now rewrite app_nil_r.
      + (* fill the buffer and flush *)
        set (n := b_available b) in *.
        set (b0 := mkBW (b_buf b ++ firstn n s) (b_err b) (b_wr b)).
        assert (Hinv0 : b_inv b0 (S ++ firstn n s)).
        { unfold b_inv in *. subst b0. simpl. rewrite Herr in *. destruct Hinv as (G & HG & HS).
          exists G. split; auto. rewrite app_assoc. now rewrite HS. }
        pose proof (b_flush_inv b0 _ Hinv0) as Hinv1.
        assert (Hb0err : b_err b0 = false) by (subst b0; simpl; exact Herr).
        destruct (b_flush_err_or_empty b0 Hb0err) as [Hfe | [Hfe Hfb]].
        * (* the flush failed: the loop ends *)
          exists (b_flush b0). split.
          -- destruct fuel; simpl; rewrite Hfe; rewrite andb_false_r; reflexivity.
          -- replace (S ++ s) with ((S ++ firstn n s) ++ skipn n s)
               by (rewrite <- app_assoc, firstn_skipn; reflexivity).
             now apply b_inv_mono.
        * destruct (IH (b_flush b0) (skipn n s) (S ++ firstn n s) Hinv1) as (b' & Hb' & Hinv').
          { unfold full_penalty, b_available. rewrite Hfb. simpl.
            rewrite skipn_length. unfold full_penalty in Hfuel. fold n in Hfuel.
            destruct (Nat.eqb n 0) eqn:En.
            - apply Nat.eqb_eq in En. lia.
            - apply Nat.eqb_neq in En. lia. }
          exists b'. split; auto.
          replace (S ++ s) with ((S ++ firstn n s) ++ skipn n s)
            by (rewrite <- app_assoc, firstn_skipn; reflexivity).
          exact Hinv'.
    - (* no loop *)
      destruct (b_err b) eqn:Herr.
      + exists b. split; auto. now apply b_inv_mono.
      + exists (mkBW (b_buf b ++ s) false (b_wr b)). split; auto.
        unfold b_inv in *. simpl. rewrite Herr in Hinv. destruct Hinv as (G & HG & HS).
        exists G. split; auto. rewrite app_assoc. now rewrite HS.
  Qed.

  Lemma b_write_byte_inv b c S : b_inv b S -> b_inv (b_write_byte b c) (S ++ [c]).
  Proof.
    intros Hinv. unfold b_write_byte. destruct (b_err b) eqn:Herr.
    - now apply b_inv_mono.
    - set (b1 := if Nat.leb (b_available b) 0 then b_flush b else b).
      assert (H1 : b_inv b1 S) by (subst b1; destruct (Nat.leb (b_available b) 0); auto using b_flush_inv).
      destruct (b_err b1) eqn:E1.
      + now apply b_inv_mono.
      + unfold b_inv in *. simpl. rewrite E1 in H1. destruct H1 as (G & HG & HS).
        exists G. split; auto. rewrite app_assoc. now rewrite HS.
  Qed.

  (* ---------------------------------------------------------------- encoding/csv *)

  Definition flat (ops : list wop) : bytes := concat (map wop_bytes ops).
  Definition flat_all (records : list (list wop)) : bytes := concat (map flat records).

  Lemma csv_write_inv : forall ops b S,
    b_inv b S -> b_err b = false ->
    exists b', csv_write b ops = Ok (b', b_err b') /\ b_inv b' (S ++ flat ops).
  Proof.
    induction ops as [|o rest IH]; intros b S Hinv Herr.
    - simpl. exists b. rewrite Herr. unfold flat. simpl. rewrite app_nil_r. auto.
    - simpl.
      assert (Hstep : exists b1, (match o with
                                  | WByte c => Ok (b_write_byte b c)
                                  | WStr s => b_write_string (wfuel s) b s
                                  end) = Ok b1 /\ b_inv b1 (S ++ wop_bytes o)).
      { destruct o as [c|s]; simpl.
        - eexists; split; eauto using b_write_byte_inv.
        - apply b_write_string_inv; auto. unfold wfuel, full_penalty.
          destruct (Nat.eqb (b_available b) 0); lia. }
      destruct Hstep as (b1 & -> & Hinv1). simpl.
      unfold flat. simpl. fold (flat rest). rewrite app_assoc.
      destruct (b_err b1) eqn:E1.
      + exists b1. rewrite E1. split; auto. now apply b_inv_mono.
      + apply IH; auto.
  Qed.

  Lemma csv_write_all_inv : forall records b S,
    b_inv b S -> b_err b = false ->
    exists b', csv_write_all b records = Ok (b', b_err b') /\ b_inv b' (S ++ flat_all records).
  Proof.
    induction records as [|r rest IH]; intros b S Hinv Herr.
    - simpl. exists b. rewrite Herr. unfold flat_all. simpl. rewrite app_nil_r. auto.
    - simpl. destruct (csv_write_inv r b S Hinv Herr) as (b1 & -> & Hinv1). simpl.
      unfold flat_all. simpl. fold (flat_all rest). rewrite app_assoc.
      destruct (b_err b1) eqn:E1.
      + exists b1. rewrite E1. split; auto. now apply b_inv_mono.
      + apply IH; auto.
  Qed.

  Definition csv_output (header : option (list wop)) (rows : list (list wop)) : bytes :=
    flat_all (match header with Some h => [h] | None => [] end) ++ flat_all rows.

  (* what ToCSV returns, for every k *)
  Definition write_result (total got : bytes) (err : bool) : Prop :=
    (k < length total /\ err = true /\ got = firstn k total) \/
    (length total <= k /\ err = false /\ got = total).

  Lemma b_inv_result b total :
    b_inv b total -> (b_err b = false -> b_buf b = []) ->
    write_result total (fw_got (b_wr b)) (b_err b).
  Proof.
    unfold b_inv, write_result. destruct (b_err b).
    - intros [H1 H2] _. left. auto.
    - intros (G & [HG HL] & HS) Hb. rewrite Hb in HS by reflexivity. rewrite app_nil_r in HS. subst G.
      right. rewrite HS in HL. split; [lia|]. split; [reflexivity|assumption].
  Qed.

  Lemma to_csv_result header rows sw :
    exists got err, to_csv header rows (mkFW k [] sw) = Ok (got, err)
                    /\ write_result (csv_output header rows) got err.
  Proof.
    unfold to_csv, csv_output.
    set (hs := match header with Some h => [h] | None => [] end).
    assert (H0 : b_inv (new_bufw (mkFW k [] sw)) []).
    { unfold b_inv, new_bufw. simpl. exists []. split; auto. split; simpl; auto. }
    destruct (csv_write_all_inv hs _ [] H0 eq_refl) as (b1 & -> & Hinv1). simpl in *.
    destruct (b_err b1) eqn:E1.
    - eexists _, _. split; [reflexivity|].
      rewrite <- E1. apply b_inv_result; [|congruence]. now apply b_inv_mono.
    - destruct (csv_write_all_inv rows b1 _ Hinv1 E1) as (b2 & -> & Hinv2). simpl.
      destruct (b_err b2) eqn:E2.
      + eexists _, _. split; [reflexivity|].
        rewrite <- E2. apply b_inv_result; auto. congruence.
      + eexists _, _. split; [reflexivity|].
        apply b_inv_result; [now apply b_flush_inv | apply b_flush_clean].
  Qed.

  (* ---------------------------------------------------------------- ToJSON *)

  Lemma json_write_all_spec : forall pieces w S,
    w_inv w S ->
    match json_write_all w pieces with
    | (w', false) => w_inv w' (S ++ concat pieces)
    | (w', true) => w_failed w' (S ++ concat pieces)
    end.
  Proof.
    induction pieces as [|p rest IH]; intros w S Hinv; simpl.
    - now rewrite app_nil_r.
    - pose proof (fw_write_spec w S p Hinv) as Hw.
      destruct (fw_write w p) as [[n err] w']. destruct err.
      + destruct Hw as [Hw _]. rewrite app_assoc. now apply w_failed_mono.
      + rewrite app_assoc. now apply IH.
  Qed.

  Definition json_output (records : list bytes) : bytes := [91%N] ++ concat records ++ [93%N].

  Lemma to_json_result records sw :
    let '(got, err) := to_json records (mkFW k [] sw) in
    write_result (json_output records) got err.
  Proof.
    unfold to_json.
    assert (H0 : w_inv (mkFW k [] sw) []) by (split; simpl; auto).
    pose proof (json_write_all_spec ([[91%N]] ++ records ++ [[93%N]]) _ [] H0) as H.
    destruct (json_write_all (mkFW k [] sw) ([[91%N]] ++ records ++ [[93%N]])) as [w' err].
    assert (Hc : [] ++ concat ([[91%N]] ++ records ++ [[93%N]]) = json_output records).
    { unfold json_output. simpl. rewrite concat_app. simpl. reflexivity. }
    rewrite Hc in H. unfold write_result. destruct err.
    - destruct H as [H1 H2]. left. auto.
    - destruct H as [H1 H2]. right. repeat split; auto. lia.
  Qed.
End Writer.

(* ================================================================== readers *)

Lemma rd_read_spec r cap c e r' :
  rd_read r cap = (c, e, r') ->
  r_data r = c ++ r_data r' /\ r_term r' = r_term r /\ (e = None \/ e = Some (r_term r)).
Proof.
  unfold rd_read.
  remember (Nat.min (Nat.min cap (r_chunk r)) (length (r_data r))) as n eqn:En. clear En.
  pose proof (firstn_skipn n (r_data r)) as Hsplit. revert Hsplit.
  destruct (r_data r) as [|x xs] eqn:Ed; intros Hsplit.
  - intros H; inversion H; subst c e r'. cbn [r_data r_term]. rewrite skipn_nil. auto.
  - destruct (skipn n (x :: xs)) as [|y ys] eqn:Es; [destruct (r_with_data r)|];
      intros H; inversion H; subst c e r'; cbn [r_data r_term]; (split; [|auto]);
      symmetry; exact Hsplit.
Qed.

(* ---------------------------------------------------------------- ReadCSV *)

Section ReadCsv.
  Variable sc : scanner.
  Variable delim : N.
  Variable post : list bytes -> nat -> bool.

  (* the source fails and never reports EOF *)
  Definition src_faulty (w : wrapper) : Prop := r_term (w_r w) = RFault /\ w_eof w = false.
  Definition st_faulty (s : fstate) : Prop := src_faulty (f_src s) /\ f_err s <> Some REOF.

  Lemma wr_read_faulty w cap c e w' :
    src_faulty w -> wr_read w cap = (c, e, w') ->
    src_faulty w' /\ (e = None \/ e = Some RFault).
  Proof.
    intros [Ht He]. unfold wr_read. rewrite He.
    destruct (rd_read (w_r w) cap) as [[c0 e0] r0] eqn:Er.
    apply rd_read_spec in Er as (_ & Hterm & Herr). rewrite Ht in *.
    assert (Hne : rerr_is_eof e0 = false) by (destruct Herr as [-> | ->]; reflexivity).
    rewrite Hne. simpl. intros H; inversion H; subst. split; [split; auto|auto].
  Qed.

  Lemma more_faulty s e s' :
    st_faulty s -> more s = (e, s') ->
    st_faulty s' /\ (e = None \/ e = Some RFault) /\ f_hitEOL s' = f_hitEOL s /\ f_fieldStart s' = f_fieldStart s.
  Proof.
    intros [Hs He]. unfold more.
    match goal with |- context [wr_read ?w ?c] => destruct (wr_read w c) as [[c0 e0] w0] eqn:Ew end.
    apply wr_read_faulty in Ew as [Hw He0]; auto.
    intros H; inversion H; subst. split; [split; assumption|]. cbn [f_hitEOL f_fieldStart]. auto.
  Qed.

  Definition step_ok (b : bool) (s' : fstate) : Prop :=
    st_faulty s' /\ (b = false -> f_err s' = Some RFault).

  Lemma next_unquoted_faulty : forall fuel s b s',
    st_faulty s -> next_unquoted sc delim fuel s = Ok (b, s') -> step_ok b s'.
  Proof.
    induction fuel as [|fuel IH]; intros s b s' Hs; simpl;
      destruct (sc_unq sc delim (f_data s) (f_cursor s) (f_fieldStart s)) as [|field c' fs' eol].
    - discriminate.
    - intros H; inversion H; subst. destruct Hs as [Hs He]. split; [split; auto|discriminate].
    - destruct (more s) as [e s1] eqn:Em. apply more_faulty in Em as (Hs1 & He & _); auto.
      destruct He as [-> | ->].
      + apply IH; auto.
      + intros H; inversion H; subst. destruct Hs1 as [Hs1 _].
        split; [split; simpl; auto; discriminate|reflexivity].
    - intros H; inversion H; subst. destruct Hs as [Hs He]. split; [split; auto|discriminate].
  Qed.

  Lemma next_quoted_faulty : forall fuel s b s',
    st_faulty s -> next_quoted sc delim fuel s = Ok (b, s') -> step_ok b s'.
  Proof.
    induction fuel as [|fuel IH]; intros s b s' Hs; simpl;
      destruct (sc_q sc delim (f_data s) (f_cursor s)) as [|field c' fs' eol].
    - discriminate.
    - intros H; inversion H; subst. destruct Hs as [Hs He]. split; [split; simpl; auto; discriminate|discriminate].
    - destruct (more s) as [e s1] eqn:Em. apply more_faulty in Em as (Hs1 & He & _); auto.
      destruct He as [-> | ->].
      + apply IH; auto.
      + destruct (sc_q_eof sc delim (f_data s1) (f_cursor s1)) as [[field c'] special]. simpl.
        intros H; inversion H; subst. destruct Hs1 as [Hs1 _].
        split; [split; simpl; auto; discriminate|reflexivity].
    - intros H; inversion H; subst. destruct Hs as [Hs He]. split; [split; simpl; auto; discriminate|discriminate].
  Qed.

  Lemma fields_next_faulty fuel s b s' :
    st_faulty s -> fields_next sc delim fuel s = Ok (b, s') ->
    st_faulty s' /\ (b = false -> f_hitEOL s = true \/ f_err s' = Some RFault).
  Proof.
    intros Hs. unfold fields_next.
    destruct (f_hitEOL s) eqn:Eh.
    - intros H; inversion H; subst. auto.
    - assert (Hgo : forall s0, st_faulty s0 ->
                (do first <- idx (f_data s0) (f_cursor s0);
                 if (first =? 34)%N then next_quoted sc delim fuel s0 else next_unquoted sc delim fuel s0) = Ok (b, s') ->
                step_ok b s').
      { intros s0 Hs0. destruct (idx (f_data s0) (f_cursor s0)) as [first| |]; simpl; try discriminate.
        destruct (first =? 34)%N; eauto using next_quoted_faulty, next_unquoted_faulty. }
      destruct (Nat.leb (length (f_data s)) (f_cursor s)).
      + destruct (more s) as [e s1] eqn:Em. apply more_faulty in Em as (Hs1 & He & _); auto.
        destruct He as [-> | ->].
        * intros H. apply Hgo in H as [H1 H2]; auto.
        * simpl. intros H; inversion H; subst. destruct Hs1 as [Hs1 _].
          split; [split; simpl; auto; discriminate|auto].
      + intros H. apply Hgo in H as [H1 H2]; auto.
  Qed.

  Lemma collect_fields_faulty : forall fuel mfuel s acc s' acc',
    st_faulty s -> collect_fields sc delim fuel mfuel s acc = Ok (s', acc') ->
    st_faulty s' /\ length acc <= length acc' /\
    (acc' = [] -> f_hitEOL s = false -> f_err s' = Some RFault).
  Proof.
    induction fuel as [|fuel IH]; intros mfuel s acc s' acc' Hs; simpl; [discriminate|].
    destruct (fields_next sc delim mfuel s) as [[ok s1]| |] eqn:En; simpl; try discriminate.
    apply fields_next_faulty in En as [Hs1 Hb]; auto.
    destruct ok.
    - intros H. apply IH in H as (H1 & H2 & H3); auto. rewrite app_length in H2. simpl in H2.
      split; auto. split; [lia|]. intros ->. simpl in H2. lia.
    - intros H; inversion H; subst. split; auto. split; auto.
      intros _ Hh. destruct (Hb eq_refl) as [Hx|Hx]; congruence.
  Qed.

  Lemma strip_cr_nil fields : strip_cr fields = [] -> fields = [].
  Proof.
    unfold strip_cr. destruct (rev fields) as [|lastf before] eqn:Er; auto.
    destruct (rev lastf) as [|c rl]; auto.
    destruct (c =? 13)%N eqn:E.
    - apply N.eqb_eq in E. subst c. intros H. destruct (rev before); discriminate.
    - destruct c as [|p]; auto. repeat (destruct p as [p|p|]; auto);
        intros H; destruct (rev before); discriminate.
  Qed.

  Lemma reader_next_faulty fuel mfuel s b s' fields :
    st_faulty s -> reader_next sc delim fuel mfuel s = Ok (b, s', fields) ->
    step_ok b s'.
  Proof.
    intros Hs. unfold reader_next.
    destruct (rerr_is_nil (f_err s)) eqn:Enil; simpl.
    - destruct (collect_fields sc delim fuel mfuel (fields_reset s) []) as [[s1 fs]| |] eqn:Ec; simpl; try discriminate.
      apply collect_fields_faulty in Ec as (Hs1 & _ & Hnil).
      2:{ destruct Hs as [H1 H2]. split; auto. }
      destruct (strip_cr fs) as [|f1 rest] eqn:Es.
      + apply strip_cr_nil in Es. subst fs. specialize (Hnil eq_refl eq_refl).
        rewrite Hnil. simpl. intros H; inversion H; subst. split; auto.
      + intros H; inversion H; subst. split; [auto|discriminate].
    - intros H; inversion H; subst. split; auto. intros _.
      destruct Hs as [_ Hne]. destruct (f_err s') as [[|]|]; simpl in Enil; congruence.
  Qed.

  Lemma read_body_faulty : forall fuel rfuel mfuel conf ncols s nrows n,
    st_faulty s -> read_body sc delim fuel rfuel mfuel conf ncols s nrows <> Ok n.
  Proof.
    induction fuel as [|fuel IH]; intros rfuel mfuel conf ncols s nrows n Hs; simpl; [discriminate|].
    destruct (reader_next sc delim rfuel mfuel s) as [[[ok s1] fields]| |] eqn:En; simpl; try discriminate.
    apply reader_next_faulty in En as [Hs1 Hb]; auto.
    destruct ok.
    - destruct (reader_err s1); [discriminate|].
      destruct (negb (Nat.eqb (length fields) ncols)).
      + destruct (is_empty_line fields && cc_ignore_empty conf); [apply IH; auto|discriminate].
      + destruct (is_empty_line fields && cc_ignore_empty conf); apply IH; auto.
    - unfold reader_err. rewrite (Hb eq_refl). discriminate.
  Qed.

  (* C15_read_csv: a reader that fails (wherever, however its bytes are cut into reads) never
     yields an error-free frame, whatever the field scanner and the post-processing do *)
  Lemma read_csv_faulty fuel rfuel mfuel conf r n :
    r_term r = RFault -> read_csv sc delim post fuel rfuel mfuel conf r <> Ok n.
  Proof.
    intros Hr. unfold read_csv.
    assert (H0 : st_faulty (new_fstate r)).
    { split; [split; simpl; auto|simpl; discriminate]. }
    destruct (cc_headers conf) as [|h hs].
    - unfold reader_read.
      destruct (reader_next sc delim rfuel mfuel (new_fstate r)) as [[[ok s1] fields]| |] eqn:En; simpl; try discriminate.
      apply reader_next_faulty in En as [Hs1 _]; auto.
      destruct ok; simpl; [|discriminate].
      destruct (read_body sc delim fuel rfuel mfuel conf (length fields) s1 0) as [m| |] eqn:Eb; simpl; try discriminate.
      exfalso. eapply read_body_faulty; eauto.
    - simpl.
      match goal with
      | |- context [read_body ?a ?b ?c ?d ?e ?f ?g ?h ?i] =>
          destruct (read_body a b c d e f g h i) as [m| |] eqn:Eb
      end; simpl; try discriminate.
      exfalso. eapply read_body_faulty; eauto.
  Qed.
End ReadCsv.

(* ---------------------------------------------------------------- ReadJSON *)

Section ReadJson.
  Context {S : Type}.
  Variable js : jscanner S.
  Variable post : bytes -> option nat.

  Lemma js_need_split : forall a b s n m,
    js_need js s (a ++ b) n = Some m -> n + length a < m ->
    exists s', js_run js s a n = JMore s' (n + length a) /\ js_need js s' b (n + length a) = Some m.
  Proof.
    induction a as [|c a IH]; intros b s n m Hn Hlt; simpl in *.
    - exists s. rewrite Nat.add_0_r. auto.
    - destruct (js_step js s c) as [s1 v] eqn:Es. destruct v.
      + destruct (IH b s1 (Datatypes.S n) m Hn ltac:(lia)) as (s' & H1 & H2).
        exists s'. replace (n + Datatypes.S (length a)) with (Datatypes.S n + length a) by lia. auto.
      + inversion Hn. lia.
      + inversion Hn. lia.
      + discriminate.
  Qed.

  Lemma read_value_faulty : forall fuel s n lasterr fresh r cap rest m v,
    r_term r = RFault -> lasterr <> Some REOF ->
    js_need js s (fresh ++ r_data r ++ rest) n = Some m ->
    n + length fresh + length (r_data r) < m ->
    read_value js fuel s n lasterr fresh r cap <> Ok v.
  Proof.
    induction fuel as [|fuel IH]; intros s n lasterr fresh r cap rest m v Hr Hl Hneed Hlt.
    - simpl. destruct (js_need_split fresh _ s n m Hneed ltac:(lia)) as (s' & -> & _).
      destruct lasterr as [[|]|]; try discriminate. congruence.
    - simpl. destruct (js_need_split fresh _ s n m Hneed ltac:(lia)) as (s' & -> & Hneed').
      destruct lasterr as [[|]|]; try discriminate; [congruence|].
      match goal with |- context [rd_read r ?c] => destruct (rd_read r c) as [[c0 e0] r0] eqn:Er end.
      apply rd_read_spec in Er as (Hd & Ht & He).
      apply (IH s' (n + length fresh) e0 c0 r0 _ rest m v).
      + congruence.
      + rewrite Hr in He. destruct He as [-> | ->]; discriminate.
      + rewrite Hd in Hneed'. now rewrite <- app_assoc in Hneed'.
      + rewrite Hd, app_length in Hlt. lia.
  Qed.

  (* C15_read_json: the reader fails before the byte that completes the JSON value -> Err *)
  Lemma read_json_faulty fuel doc k chunk wd m v :
    js_need js (js_init js) doc 0 = Some m -> k < m ->
    read_json js post fuel doc (mkReader (firstn k doc) chunk RFault wd) <> Ok v.
  Proof.
    intros Hneed Hk. unfold read_json.
    destruct (read_value js fuel (js_init js) 0 None [] (mkReader (firstn k doc) chunk RFault wd) 0) as [vlen| |] eqn:E;
      simpl; try discriminate.
    exfalso.
    refine (read_value_faulty fuel (js_init js) 0 None [] (mkReader (firstn k doc) chunk RFault wd) 0
                              (skipn k doc) m vlen _ _ _ _ E).
    - reflexivity.
    - discriminate.
    - simpl. now rewrite firstn_skipn.
    - simpl. rewrite firstn_length. lia.
  Qed.
End ReadJson.

(* ---------------------------------------------------------------- ReadJSON never runs out of fuel *)

Section ReadJsonTotal.
  Context {S : Type}.
  Variable js : jscanner S.

  Lemma js_run_more : forall b s n s' n', js_run js s b n = JMore s' n' -> n' = n + length b.
  Proof.
    induction b as [|c b IH]; intros s n s' n' H; simpl in *.
    - inversion H. lia.
    - destruct (js_step js s c) as [s1 v]. destruct v; try discriminate.
      apply IH in H. lia.
  Qed.

  Lemma rd_read_progress r cap c e r' :
    rd_read r cap = (c, e, r') -> 1 <= cap -> 1 <= r_chunk r ->
    length c <= cap /\
    (r_data r = [] /\ e = Some (r_term r) \/ length (r_data r') < length (r_data r)).
  Proof.
    unfold rd_read. intros H Hcap Hchunk. revert H.
    remember (Nat.min (Nat.min cap (r_chunk r)) (length (r_data r))) as n eqn:En.
    assert (Hc : length (firstn n (r_data r)) <= cap) by (rewrite firstn_length; lia).
    revert En Hc. destruct (r_data r) as [|x xs] eqn:Ed; intros En Hc H.
    - inversion H; subst c e r'. cbn [r_data r_term length]. split; [lia|]. left. auto.
    - assert (Hn : 1 <= n) by (cbn [length] in En; lia).
      assert (Hr : length (skipn n (x :: xs)) < length (x :: xs)) by (rewrite skipn_length; cbn [length]; lia).
      destruct (skipn n (x :: xs)) eqn:Es; [destruct (r_with_data r)|];
        inversion H; subst c e r'; cbn [r_data]; (split; [exact Hc|right; rewrite ?Es; exact Hr]).
  Qed.

  Lemma rd_read_chunk r cap c e r' : rd_read r cap = (c, e, r') -> r_chunk r' = r_chunk r.
  Proof.
    unfold rd_read. destruct (r_data r) as [|x xs].
    - intros H; inversion H; reflexivity.
    - destruct (skipn _ (x :: xs)); [destruct (r_with_data r)|]; intros H; inversion H; reflexivity.
  Qed.

  Lemma json_cap_room cap len : len <= cap -> json_min_read <= json_cap cap len - len /\ len <= json_cap cap len.
  Proof.
    intros H. unfold json_cap. destruct (Nat.ltb (cap - len) json_min_read) eqn:E.
    - unfold json_min_read in *. lia.
    - apply Nat.ltb_ge in E. lia.
  Qed.

  (* with a reader that delivers at least one byte per Read, [length data + 2] refills suffice *)
  Lemma read_value_total : forall fuel s n lasterr fresh r cap,
    1 <= r_chunk r -> n + length fresh <= cap ->
    length (r_data r) + 1 < fuel \/ lasterr <> None ->
    read_value js fuel s n lasterr fresh r cap <> Panic.
  Proof.
    induction fuel as [|fuel IH]; intros s n lasterr fresh r cap Hchunk Hcap Hfuel.
    - simpl. destruct (js_run js s fresh n) as [s' n'| |]; try discriminate.
      destruct Hfuel as [Hf|Hl]; [lia|]. destruct lasterr as [[|]|]; try discriminate; [|congruence].
      destruct (js_eof_end js s'); discriminate.
    - simpl. destruct (js_run js s fresh n) as [s' n'| |] eqn:Er; try discriminate.
      apply js_run_more in Er. subst n'.
      destruct lasterr as [[|]|]; try discriminate; [destruct (js_eof_end js s'); discriminate|].
      destruct Hfuel as [Hf|Hl]; [|congruence].
      destruct (json_cap_room cap (n + length fresh) Hcap) as [Hroom Hle].
      match goal with |- context [rd_read r ?c] => destruct (rd_read r c) as [[c0 e0] r0] eqn:Erd end.
      pose proof (rd_read_chunk _ _ _ _ _ Erd) as Hchunk0.
      apply rd_read_progress in Erd as [Hlen Hprog]; [|unfold json_min_read in *; lia|exact Hchunk].
      apply IH.
      + rewrite Hchunk0. exact Hchunk.
      + lia.
      + destruct Hprog as [[_ ->]|Hlt]; [right; discriminate|left; lia].
  Qed.
End ReadJsonTotal.

(* C15_read_json, total form: with enough fuel the model neither returns a frame nor panics *)
Lemma read_json_fault_fails {S : Type} (js : jscanner S) post fuel doc k chunk wd m :
  js_need js (js_init js) doc 0 = Some m -> k < m -> 1 <= chunk -> k + 1 < fuel ->
  read_json js post fuel doc (mkReader (firstn k doc) chunk RFault wd) = Fail.
Proof.
  intros Hneed Hk Hchunk Hfuel. unfold read_json.
  destruct (read_value js fuel (js_init js) 0 None [] (mkReader (firstn k doc) chunk RFault wd) 0) as [vlen| |] eqn:E;
    simpl; auto.
  - exfalso.
    refine (read_value_faulty js post fuel (js_init js) 0 None [] (mkReader (firstn k doc) chunk RFault wd) 0
                              (skipn k doc) m vlen _ _ _ _ E).
    + reflexivity.
    + discriminate.
    + simpl. now rewrite firstn_skipn.
    + simpl. rewrite firstn_length. lia.
  - exfalso. revert E. apply read_value_total; simpl; auto.
    left. rewrite firstn_length. lia.
Qed.

(* ---------------------------------------------------------------- ReadCSV never runs out of fuel *)

(* A field scanner makes progress: a field it reports ends inside the buffer, behind the cursor. *)
Definition scanner_ok (sc : scanner) : Prop :=
  (forall delim data cursor fs field c' fs' eol,
      sc_unq sc delim data cursor fs = SField field c' fs' eol -> cursor < c' <= length data) /\
  (forall delim data cursor field c' fs' eol,
      sc_q sc delim data cursor = SField field c' fs' eol -> cursor < c' <= length data).

Section ReadCsvTotal.
  Variable sc : scanner.
  Variable delim : N.
  Variable post : list bytes -> nat -> bool.
  Hypothesis Hsc : scanner_ok sc.

  (* bytes the reader still holds / bytes not yet consumed by the scanner *)
  Definition rest_r (s : fstate) : nat := length (r_data (w_r (f_src s))).
  Definition rest_m (s : fstate) : nat := (length (f_data s) - f_cursor s) + rest_r s.

  Definition st_good (s : fstate) : Prop :=
    st_faulty s /\ length (f_data s) <= f_cap s /\ 1 <= r_chunk (w_r (f_src s))
    /\ f_cursor s <= length (f_data s).

  Lemma more_total s e s1 :
    st_good s -> more s = (e, s1) ->
    f_cursor s1 = f_cursor s /\ f_err s1 = f_err s /\ f_hitEOL s1 = f_hitEOL s /\ st_good s1
    /\ length (f_data s1) + rest_r s1 = length (f_data s) + rest_r s
    /\ length (f_data s) <= length (f_data s1)
    /\ (e = Some RFault \/ e = None /\ length (f_data s) < length (f_data s1)).
  Proof.
    intros ((Hsrc & Herr) & Hcap & Hchunk & Hcur). unfold more.
    assert (Hmul : N.to_nat c_csv_grow_mul = 2) by reflexivity.
    assert (Hadd : N.to_nat c_csv_grow_add = 1) by reflexivity.
    rewrite Hmul, Hadd.
    set (cap := if Nat.eqb (length (f_data s)) (f_cap s) then 2 * length (f_data s) + 1 else f_cap s).
    assert (Hroom : 1 <= cap - length (f_data s) /\ length (f_data s) <= cap).
    { subst cap. destruct (Nat.eqb (length (f_data s)) (f_cap s)) eqn:E.
      - lia.
      - apply Nat.eqb_neq in E. lia. }
    destruct Hsrc as [Hterm Heof]. unfold wr_read. rewrite Heof.
    destruct (rd_read (w_r (f_src s)) (cap - length (f_data s))) as [[c e0] r0] eqn:Er.
    pose proof (rd_read_spec _ _ _ _ _ Er) as (Hd & Hterm0 & He0).
    pose proof (rd_read_chunk _ _ _ _ _ Er) as Hchunk0.
    pose proof (rd_read_progress _ _ _ _ _ Er (proj1 Hroom) Hchunk) as (Hclen & Hprog).
    rewrite Hterm in He0.
    assert (Hne : rerr_is_eof e0 = false) by (destruct He0 as [-> | ->]; reflexivity).
    rewrite Hne. cbn [andb]. intros H; inversion H; subst e s1; clear H.
    unfold rest_r, st_good, st_faulty, src_faulty. cbn [f_cursor f_err f_hitEOL f_data f_cap f_src w_r w_eof].
    rewrite app_length. rewrite Hd, app_length.
    repeat split; auto; try congruence; try lia.
    destruct He0 as [-> | ->]; [|left; reflexivity].
    right. split; [reflexivity|].
    destruct Hprog as [[_ Hx]|Hlt]; [discriminate|]. rewrite Hd, app_length in Hlt. lia.
  Qed.

  (* the result of one scanner step *)
  Definition step_total (s : fstate) (b : bool) (s' : fstate) : Prop :=
    rest_r s' <= rest_r s /\
    (b = true -> st_good s' /\ rest_m s' < rest_m s) /\
    (b = false -> f_err s' = Some RFault).

  Lemma next_unquoted_total : forall fuel s,
    st_good s -> rest_r s < fuel ->
    exists b s', next_unquoted sc delim fuel s = Ok (b, s') /\ step_total s b s'.
  Proof.
    induction fuel as [|fuel IH]; intros s Hg Hfuel; [lia|].
    simpl. destruct (sc_unq sc delim (f_data s) (f_cursor s) (f_fieldStart s)) as [|field c' fs' eol] eqn:Es.
    - destruct (more s) as [e s1] eqn:Em.
      destruct (more_total s e s1 Hg Em) as (Hc & He & Hh & Hg1 & Hsum & Hge & Hcase).
      destruct Hcase as [-> | [-> Hlt]].
      + exists false, (set_err s1 (Some RFault)). split; [reflexivity|].
        unfold step_total, rest_r. simpl. fold (rest_r s1) (rest_r s).
        split; [lia|]. split; [discriminate|reflexivity].
      + destruct (IH s1 Hg1) as (b & s' & Hr & Hr1 & Ht & Hf); [lia|].
        exists b, s'. split; [exact Hr|]. unfold step_total.
        destruct Hg as (_ & _ & _ & Hcur).
        assert (Hm : rest_m s1 <= rest_m s) by (unfold rest_m; rewrite Hc; lia).
        split; [lia|]. split; [|exact Hf].
        intros Hb. destruct (Ht Hb) as [Hg' Hlt']. split; [exact Hg'|lia].
    - destruct Hsc as [Hu _]. specialize (Hu _ _ _ _ _ _ _ _ Es).
      exists true. eexists. split; [reflexivity|].
      destruct Hg as (((Hterm & Heof) & Herr) & Hcap & Hchunk & Hcur).
      unfold step_total, rest_m, rest_r, st_good, st_faulty, src_faulty, with_field. simpl.
      split; [lia|]. split; [|discriminate]. intros _. repeat split; auto; try lia.
  Qed.

  Lemma next_quoted_total : forall fuel s,
    st_good s -> rest_r s < fuel ->
    exists b s', next_quoted sc delim fuel s = Ok (b, s') /\ step_total s b s'.
  Proof.
    induction fuel as [|fuel IH]; intros s Hg Hfuel; [lia|].
    simpl. destruct (sc_q sc delim (f_data s) (f_cursor s)) as [|field c' fs' eol] eqn:Es.
    - destruct (more s) as [e s1] eqn:Em.
      destruct (more_total s e s1 Hg Em) as (Hc & He & Hh & Hg1 & Hsum & Hge & Hcase).
      destruct Hcase as [-> | [-> Hlt]].
      + destruct (sc_q_eof sc delim (f_data s1) (f_cursor s1)) as [[field c'] special]. simpl.
        eexists false, _. split; [reflexivity|].
        unfold step_total, rest_r, with_field. simpl. fold (rest_r s1) (rest_r s).
        split; [lia|]. split; [discriminate|reflexivity].
      + destruct (IH s1 Hg1) as (b & s' & Hr & Hr1 & Ht & Hf); [lia|].
        exists b, s'. split; [exact Hr|]. unfold step_total.
        destruct Hg as (_ & _ & _ & Hcur).
        assert (Hm : rest_m s1 <= rest_m s) by (unfold rest_m; rewrite Hc; lia).
        split; [lia|]. split; [|exact Hf].
        intros Hb. destruct (Ht Hb) as [Hg' Hlt']. split; [exact Hg'|lia].
    - destruct Hsc as [_ Hq]. specialize (Hq _ _ _ _ _ _ _ Es).
      exists true. eexists. split; [reflexivity|].
      destruct Hg as (((Hterm & Heof) & Herr) & Hcap & Hchunk & Hcur).
      unfold step_total, rest_m, rest_r, st_good, st_faulty, src_faulty, with_field. simpl.
      split; [lia|]. split; [|discriminate]. intros _. repeat split; auto; try lia. discriminate.
  Qed.

  (* fields.next(): true = progress; false = end of the row (state unchanged) or the sticky error *)
  Lemma fields_next_total fuel s :
    st_good s -> rest_r s < fuel ->
    exists b s', fields_next sc delim fuel s = Ok (b, s') /\
                 rest_r s' <= rest_r s /\
                 (b = true -> st_good s' /\ rest_m s' < rest_m s) /\
                 (b = false -> s' = s \/ f_err s' = Some RFault).
  Proof.
    intros Hg Hfuel. unfold fields_next.
    destruct (f_hitEOL s) eqn:Eh.
    - exists false, s. split; [reflexivity|]. split; [lia|]. split; [discriminate|auto].
    - assert (Hgo : forall s0, st_good s0 -> rest_r s0 < fuel -> f_cursor s0 < length (f_data s0) ->
                exists b s', (do first <- idx (f_data s0) (f_cursor s0);
                              if (first =? 34)%N then next_quoted sc delim fuel s0 else next_unquoted sc delim fuel s0)
                             = Ok (b, s') /\ step_total s0 b s').
      { intros s0 Hg0 Hf0 Hlt. unfold idx, of_option.
        destruct (nth_error (f_data s0) (f_cursor s0)) as [first|] eqn:En;
          [|apply nth_error_None in En; lia].
        simpl. destruct (first =? 34)%N; [now apply next_quoted_total|now apply next_unquoted_total]. }
      destruct (Nat.leb (length (f_data s)) (f_cursor s)) eqn:El.
      + apply Nat.leb_le in El.
        destruct (more s) as [e s1] eqn:Em.
        destruct (more_total s e s1 Hg Em) as (Hc & He & Hh & Hg1 & Hsum & Hge & Hcase).
        destruct Hcase as [-> | [-> Hlt]].
        * simpl. eexists false, _. split; [reflexivity|].
          unfold rest_r. simpl. fold (rest_r s1) (rest_r s). split; [lia|]. split; [discriminate|auto].
        * destruct Hg as (_ & _ & _ & Hcur).
          destruct (Hgo s1 Hg1) as (b & s' & Hr & Hr1 & Ht & Hf); [lia|lia|].
          exists b, s'. split; [exact Hr|].
          assert (Hm : rest_m s1 <= rest_m s) by (unfold rest_m; rewrite Hc; lia).
          split; [lia|]. split; [|auto].
          intros Hb. destruct (Ht Hb) as [Hg' Hlt']. split; [exact Hg'|lia].
      + apply Nat.leb_gt in El.
        destruct (Hgo s Hg Hfuel El) as (b & s' & Hr & Hr1 & Ht & Hf).
        exists b, s'. split; [exact Hr|]. split; [exact Hr1|]. split; [exact Ht|auto].
  Qed.

  Lemma collect_fields_total : forall fuel mfuel s acc,
    st_good s -> rest_r s < mfuel -> rest_m s < fuel ->
    exists s' acc', collect_fields sc delim fuel mfuel s acc = Ok (s', acc') /\
                    rest_r s' <= rest_r s /\
                    (f_err s' = Some RFault \/
                     st_good s' /\ rest_m s' + (length acc' - length acc) <= rest_m s).
  Proof.
    induction fuel as [|fuel IH]; intros mfuel s acc Hg Hmf Hf; [lia|].
    simpl. destruct (fields_next_total mfuel s Hg Hmf) as (b & s1 & -> & Hr1 & Ht & Hfalse). simpl.
    destruct b.
    - destruct (Ht eq_refl) as [Hg1 Hlt].
      destruct (IH mfuel s1 (acc ++ [f_field s1]) Hg1) as (s' & acc' & Hc & Hr' & Hcase); [lia|lia|].
      exists s', acc'. split; [exact Hc|]. split; [lia|].
      destruct Hcase as [He|[Hg' Hm]]; [left; exact He|right].
      split; [exact Hg'|]. rewrite app_length in Hm. simpl in Hm. lia.
    - exists s1, acc. split; [reflexivity|]. split; [exact Hr1|].
      destruct (Hfalse eq_refl) as [-> | He]; [right|left; exact He].
      split; [exact Hg|lia].
  Qed.

  Lemma strip_cr_length fields : length (strip_cr fields) = length fields.
  Proof.
    unfold strip_cr. destruct (rev fields) as [|lastf before] eqn:Er; auto.
    assert (Hl : length fields = S (length before)).
    { rewrite <- (rev_length fields), Er. reflexivity. }
    destruct (rev lastf) as [|c rl]; auto.
    destruct c as [|p]; auto.
    repeat (destruct p as [p|p|]; auto); rewrite app_length, rev_length; simpl; lia.
  Qed.

  Lemma reader_next_total fuel mfuel s :
    st_good s -> rest_r s < mfuel -> rest_m s < fuel ->
    exists b s' fields, reader_next sc delim fuel mfuel s = Ok (b, s', fields) /\
                        rest_r s' <= rest_r s /\
                        (f_err s' = Some RFault \/ st_good s' /\ (b = true -> rest_m s' < rest_m s)).
  Proof.
    intros Hg Hmf Hf. unfold reader_next.
    destruct (rerr_is_nil (f_err s)) eqn:Enil; simpl.
    - assert (Hg0 : st_good (fields_reset s)).
      { destruct Hg as (((Hterm & Heof) & Herr) & Hcap & Hchunk & Hcur).
        unfold st_good, st_faulty, src_faulty, fields_reset. simpl. rewrite skipn_length. repeat split; auto; lia. }
      assert (Hr0 : rest_r (fields_reset s) = rest_r s) by reflexivity.
      assert (Hm0 : rest_m (fields_reset s) = rest_m s).
      { unfold rest_m, fields_reset, rest_r. simpl. rewrite skipn_length. lia. }
      destruct (collect_fields_total fuel mfuel (fields_reset s) [] Hg0) as (s1 & fs & Hcf & Hr1 & Hcase); [lia|lia|].
      rewrite Hcf.
      simpl. destruct (strip_cr fs) as [|f1 rest] eqn:Es.
      + eexists false, _, []. split; [reflexivity|].
        destruct (rerr_is_nil (f_err s1)) eqn:En1.
        * (* unreachable: no field and no error *)
          exfalso. apply strip_cr_nil in Es. subst fs.
          pose proof (collect_fields_faulty sc delim post _ _ _ _ _ _ (proj1 Hg0) Hcf) as (_ & _ & Hnil).
          rewrite (Hnil eq_refl eq_refl) in En1. discriminate.
        * split; [lia|]. destruct Hcase as [He|[Hg1 _]]; [left; exact He|right; split; [exact Hg1|discriminate]].
      + eexists true, s1, _. split; [reflexivity|]. split; [lia|].
        destruct Hcase as [He|[Hg1 Hm]]; [left; exact He|right]. split; [exact Hg1|]. intros _.
        assert (Hlen : length fs = S (length rest)) by (rewrite <- (strip_cr_length fs), Es; reflexivity).
        simpl in Hm. lia.
    - exists false, s, []. split; [reflexivity|]. split; [lia|]. right. split; [exact Hg|discriminate].
  Qed.

  Lemma read_body_total : forall fuel rfuel mfuel conf ncols s nrows,
    st_good s -> rest_r s < mfuel -> rest_m s < rfuel -> rest_m s < fuel ->
    read_body sc delim fuel rfuel mfuel conf ncols s nrows <> Panic.
  Proof.
    induction fuel as [|fuel IH]; intros rfuel mfuel conf ncols s nrows Hg Hmf Hrf Hf; [lia|].
    simpl. destruct (reader_next_total rfuel mfuel s Hg Hmf Hrf) as (b & s1 & fields & -> & Hr1 & Hcase).
    simpl. destruct b.
    - destruct (reader_err s1) eqn:Ee; [discriminate|].
      destruct Hcase as [He|[Hg1 Hm]]; [unfold reader_err in Ee; rewrite He in Ee; discriminate|].
      specialize (Hm eq_refl).
      destruct (negb (Nat.eqb (length fields) ncols)).
      + destruct (is_empty_line fields && cc_ignore_empty conf); [apply IH; auto; lia|discriminate].
      + destruct (is_empty_line fields && cc_ignore_empty conf); apply IH; auto; lia.
    - destruct (reader_err s1); discriminate.
  Qed.

  (* C15_read_csv, total form *)
  Lemma read_csv_fault_fails fuel rfuel mfuel conf r :
    r_term r = RFault -> 1 <= r_chunk r ->
    length (r_data r) < fuel -> length (r_data r) < rfuel -> length (r_data r) < mfuel ->
    read_csv sc delim post fuel rfuel mfuel conf r = Fail.
  Proof.
    intros Hr Hchunk Hf Hrf Hmf.
    assert (Hg0 : st_good (new_fstate r)).
    { unfold st_good, st_faulty, src_faulty, new_fstate. simpl. repeat split; auto; try lia. discriminate. }
    assert (Hr0 : rest_r (new_fstate r) = length (r_data r)) by reflexivity.
    assert (Hm0 : rest_m (new_fstate r) = length (r_data r)) by reflexivity.
    destruct (read_csv sc delim post fuel rfuel mfuel conf r) as [n| |] eqn:E; auto.
    - exfalso. eapply read_csv_faulty; eauto.
    - exfalso. revert E. unfold read_csv.
      destruct (cc_headers conf) as [|h hs].
      + unfold reader_read.
        destruct (reader_next_total rfuel mfuel (new_fstate r) Hg0) as (b & s1 & fields & -> & Hr1 & Hcase); [lia|lia|].
        simpl. destruct b; simpl; [|discriminate].
        destruct (read_body sc delim fuel rfuel mfuel conf (length fields) s1 0) as [m| |] eqn:Eb; simpl;
          try discriminate; [destruct (post fields m); discriminate|].
        exfalso. revert Eb.
        destruct Hcase as [He|[Hg1 Hm]].
        * (* the header read already hit the fault: the first Next of the body returns false *)
          destruct fuel as [|fuel']; [lia|]. simpl. unfold reader_next. rewrite He. simpl.
          unfold reader_err. rewrite He. discriminate.
        * specialize (Hm eq_refl). apply read_body_total; auto; lia.
      + simpl.
        match goal with
        | |- context [read_body ?a ?b ?c ?d ?e ?f ?g ?h ?i] =>
            destruct (read_body a b c d e f g h i) as [m| |] eqn:Eb
        end; simpl; try discriminate; [destruct (post (h :: hs) m); discriminate|].
        exfalso. revert Eb. apply read_body_total; auto; lia.
  Qed.
End ReadCsvTotal.

(* the scanner used by the correspondence engine satisfies the progress premise *)
Lemma unq_find_bounds delim : forall b pos p eol,
  unq_find delim b pos = Some (p, eol) -> pos <= p < pos + length b.
Proof.
  induction b as [|c b IH]; intros pos p eol H; simpl in *; [discriminate|].
  destruct (c =? delim)%N; [inversion H; lia|].
  destruct (c =? 10)%N; [inversion H; lia|].
  apply IH in H. lia.
Qed.

Lemma q_find_bounds delim : forall b pos qc acc c' eol acc' pos' qc',
  q_find delim b pos qc acc = (Some (c', eol), acc', pos', qc') -> pos < c' <= pos + length b.
Proof.
  induction b as [|c b IH]; intros pos qc acc c' eol acc' pos' qc' H; [simpl in H; inversion H|].
  destruct b as [|c2 b2]; [simpl in H; inversion H|].
  cbn [q_find] in H.
  destruct ((c =? delim)%N && Nat.odd qc); [inversion H; subst; simpl; lia|].
  destruct ((c =? 10)%N && Nat.odd qc); [inversion H; subst; simpl; lia|].
  destruct ((c =? 13)%N && Nat.odd qc); [apply IH in H; simpl in *; lia|].
  destruct ((c =? 34)%N && Nat.even qc); apply IH in H; simpl in *; lia.
Qed.

Lemma simple_scanner_ok : scanner_ok simple_scanner.
Proof.
  split.
  - intros delim data cursor fs field c' fs' eol. simpl. unfold simple_unq.
    destruct (unq_find delim (skipn cursor data) cursor) as [[p e]|] eqn:E; [|discriminate].
    apply unq_find_bounds in E. rewrite skipn_length in E.
    intros H; inversion H; subst. lia.
  - intros delim data cursor field c' fs' eol. simpl. unfold simple_q.
    destruct (q_find delim (skipn (S cursor) data) (S cursor) 0 []) as [[[[[c e]|] acc] pos] qc] eqn:E; [|discriminate].
    apply q_find_bounds in E. rewrite skipn_length in E.
    intros H; inversion H; subst. lia.
Qed.

Lemma read_csv_fault_fails_doc (sc : scanner) (delim : N) (post : list bytes -> nat -> bool)
      (fuel rfuel mfuel : nat) (conf : csv_conf) (doc : bytes) (k chunk : nat) (wd : bool) :
  scanner_ok sc -> 1 <= chunk -> k < fuel -> k < rfuel -> k < mfuel ->
  read_csv sc delim post fuel rfuel mfuel conf (mkReader (firstn k doc) chunk RFault wd) = Fail.
Proof.
  intros Hsc Hc Hf Hr Hm.
  apply (read_csv_fault_fails sc delim post Hsc fuel rfuel mfuel conf (mkReader (firstn k doc) chunk RFault wd));
    simpl; auto; rewrite firstn_length; lia.
Qed.
