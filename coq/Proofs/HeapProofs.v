(* Proofs/HeapProofs.v — generic facts about the heap level:
   1. run_tr_sound  : a run that the instrumentation accepts is the ordinary run and leaves every
                      pre-existing location untouched (frame condition);
   2. the abstract safety logic [spq]: a weakest precondition in which the store is abstracted by the
      invariant "every accessible cell holds only slices with accessible bases, and every table entry
      holds only own slices"; [spq_sound] shows that it implies that run_tr does not fault;
   3. the [spq] rules of the Go slice / map operations and of the loop combinators. *)
From QF Require Import Base.Prelude Model.Heap.

(* ------------------------------------------------------------ locations and stores *)
Lemma loc_eqb_eq a b : loc_eqb a b = true <-> a = b.
Proof.
  destruct a as [a1 a2], b as [b1 b2]; unfold loc_eqb; simpl. split.
  - intro H. apply andb_true_iff in H as [H1 H2].
    apply Nat.eqb_eq in H1. apply Nat.eqb_eq in H2. congruence.
  - intro H. inversion H; subst. rewrite !Nat.eqb_refl. reflexivity.
Qed.

Lemma loc_eqb_refl a : loc_eqb a a = true.
Proof. apply loc_eqb_eq. reflexivity. Qed.

Lemma loc_eqb_neq a b : loc_eqb a b = false <-> a <> b.
Proof.
  split.
  - intros H E. apply loc_eqb_eq in E. congruence.
  - intro H. destruct (loc_eqb a b) eqn:E; auto. apply loc_eqb_eq in E. contradiction.
Qed.

Lemma loc_eq_dec (a b : loc) : {a = b} + {a <> b}.
Proof. decide equality; apply Nat.eq_dec. Qed.

Lemma mem_loc_In l ls : mem_loc l ls = true <-> In l ls.
Proof.
  induction ls as [|x r IH]; simpl.
  - split; [discriminate | tauto].
  - destruct (loc_eqb l x) eqn:E.
    + apply loc_eqb_eq in E. subst. tauto.
    + apply loc_eqb_neq in E. rewrite IH. split; [tauto|]. intros [H|H]; [congruence|exact H].
Qed.

Lemma mem_loc_false l ls : mem_loc l ls = false <-> ~ In l ls.
Proof.
  rewrite <- mem_loc_In. destruct (mem_loc l ls); split; intro H.
  - discriminate.
  - exfalso; apply H; reflexivity.
  - intro; discriminate.
  - reflexivity.
Qed.

Lemma lookup_update s l a q :
  lookup (update s l a) q = if loc_eqb q l then Some a else lookup s q.
Proof.
  induction s as [|[l' a'] r IH]; simpl.
  - reflexivity.
  - destruct (loc_eqb l l') eqn:E; simpl.
    + apply loc_eqb_eq in E. subst l'. destruct (loc_eqb q l); reflexivity.
    + rewrite IH. destruct (loc_eqb q l') eqn:E2.
      * apply loc_eqb_eq in E2. subst l'.
        destruct (loc_eqb q l) eqn:E3; auto.
        apply loc_eqb_eq in E3. subst. rewrite loc_eqb_refl in E. discriminate.
      * reflexivity.
Qed.

Lemma lookup_update_same s l a : lookup (update s l a) l = Some a.
Proof. rewrite lookup_update, loc_eqb_refl. reflexivity. Qed.

Lemma lookup_update_other s l a q : q <> l -> lookup (update s l a) q = lookup s q.
Proof. intro H. rewrite lookup_update. apply loc_eqb_neq in H. rewrite H. reflexivity. Qed.

Lemma lookup_write_other s l i v q : q <> l -> lookup (write_loc s l i v) q = lookup s q.
Proof.
  intro H. unfold write_loc. destruct (lookup s l); auto. apply lookup_update_other; auto.
Qed.

Lemma lookup_write_same s l i v :
  lookup (write_loc s l i v) l =
  match lookup s l with Some a => Some (set_nth a i v) | None => None end.
Proof.
  unfold write_loc. destruct (lookup s l) eqn:E.
  - apply lookup_update_same.
  - exact E.
Qed.

Lemma in_dom_true s l : in_dom s l = true <-> exists a, lookup s l = Some a.
Proof.
  unfold in_dom. destruct (lookup s l) as [a|]; split; intro H; try discriminate; eauto.
  destruct H as [a H]; discriminate.
Qed.

(* ------------------------------------------------------------ bind *)
Section Generic.
  Variable env : fnid -> list val -> val.

  Lemma run_bind {A B} t (p : prog A) (f : A -> prog B) n s :
    run env t (bind p f) n s =
    let '(a, n', s') := run env t p n s in run env t (f a) n' s'.
  Proof.
    revert n s. induction p as [a|init k IH|l k IH|l i v k IH|fn args k IH]; intros n s; simpl; auto.
  Qed.

  Lemma run_tr_aux_bind {A B} pre t (p : prog A) (f : A -> prog B) n own s :
    run_tr_aux env pre t (bind p f) n own s =
    match run_tr_aux env pre t p n own s with
    | Some (a, n', s', own') => run_tr_aux env pre t (f a) n' own' s'
    | None => None
    end.
  Proof.
    revert n own s. induction p as [a|init k IH|l k IH|l i v k IH|fn args k IH]; intros n own s; simpl; auto.
    - destruct (pre (t, n) || mem_loc (t, n) own); auto.
    - destruct (pre l || mem_loc l own); auto.
    - destruct (mem_loc l own); auto.
  Qed.

  (* ---------------------------------------------------------- theorem 1: soundness of the instrumentation *)
  Lemma run_tr_aux_sound {A} pre t (p : prog A) :
    forall n own s a n' s' own',
      run_tr_aux env pre t p n own s = Some (a, n', s', own') ->
      (forall l, In l own -> pre l = false) ->
      run env t p n s = (a, n', s') /\
      (forall l, In l own' -> pre l = false) /\
      incl own own' /\
      (forall l, ~ In l own' -> lookup s' l = lookup s l).
  Proof.
    induction p as [a0|init k IH|l k IH|l i v k IH|fn args k IH];
      intros n own s a n' s' own' H Hown; simpl in H.
    - inversion H; subst. simpl. repeat split; auto. apply incl_refl.
    - destruct (pre (t, n) || mem_loc (t, n) own) eqn:E; [discriminate|].
      apply orb_false_iff in E as [E1 E2].
      apply IH in H.
      + destruct H as (H1 & H2 & H3 & H4). simpl. repeat split; auto.
        * intros x Hx. apply H3. right. exact Hx.
        * intros x Hx. rewrite H4 by exact Hx. apply lookup_update_other.
          intros ->. apply Hx. apply H3. left. reflexivity.
      + intros x [<-|Hx]; auto.
    - destruct (pre l || mem_loc l own) eqn:E; [|discriminate].
      apply IH in H; auto.
    - destruct (mem_loc l own) eqn:E; [|discriminate].
      apply mem_loc_In in E.
      apply IH in H; auto. destruct H as (H1 & H2 & H3 & H4). simpl. repeat split; auto.
      intros x Hx. rewrite H4 by exact Hx. apply lookup_write_other.
      intros ->. apply Hx. apply H3. exact E.
    - apply IH in H; auto.
  Qed.

  Theorem run_tr_sound {A} t (p : prog A) n s a n' s' own :
    run_tr env t p n s = Some (a, n', s', own) ->
    run env t p n s = (a, n', s') /\
    (forall l, in_dom s l = true -> lookup s' l = lookup s l).
  Proof.
    unfold run_tr. intro H. apply run_tr_aux_sound in H.
    - destruct H as (H1 & H2 & H3 & H4). split; auto.
      intros l Hl. apply H4. intro Hin. apply H2 in Hin. congruence.
    - intros l [].
  Qed.

  (* everything the program allocated is new: it was not in the initial store *)
  Lemma run_tr_own_fresh {A} t (p : prog A) n s a n' s' own :
    run_tr env t p n s = Some (a, n', s', own) ->
    forall l, In l own -> in_dom s l = false.
  Proof.
    unfold run_tr. intro H. apply run_tr_aux_sound in H.
    - destruct H as (_ & H2 & _). exact H2.
    - intros l [].
  Qed.


  (* ---------------------------------------------------------- agreement: a run depends only on what it may access *)
  Lemma run_tr_aux_agree {A} pre t (p : prog A) : forall n own s1 s2 a n' s1' own',
    run_tr_aux env pre t p n own s1 = Some (a, n', s1', own') ->
    (forall l, pre l = true \/ In l own -> lookup s2 l = lookup s1 l) ->
    exists s2', run_tr_aux env pre t p n own s2 = Some (a, n', s2', own').
  Proof.
    induction p as [a0|init k IH|l k IH|l i v k IH|fn args k IH];
      intros n own s1 s2 a n' s1' own' H Hag; simpl in *.
    - inversion H; subst. eauto.
    - destruct (pre (t, n) || mem_loc (t, n) own); [discriminate|].
      eapply IH; [exact H|]. intros q Hq. rewrite !lookup_update.
      destruct (loc_eqb q (t, n)) eqn:E; auto. apply Hag.
      destruct Hq as [Hq|[Hq|Hq]]; auto. apply loc_eqb_neq in E. congruence.
    - destruct (pre l || mem_loc l own) eqn:E; [|discriminate].
      assert (Hl : lookup s2 l = lookup s1 l).
      { apply Hag. apply orb_true_iff in E as [E|E]; auto. right. apply mem_loc_In; auto. }
      unfold read_loc in *. rewrite Hl. eapply IH; eauto.
    - destruct (mem_loc l own) eqn:E; [|discriminate]. apply mem_loc_In in E.
      eapply IH; [exact H|]. intros q Hq. destruct (loc_eq_dec q l) as [->|Hne].
      + rewrite !lookup_write_same. rewrite (Hag l (or_intror E)). reflexivity.
      + rewrite !lookup_write_other by exact Hne. auto.
    - eapply IH; eauto.
  Qed.

  (* what a run does to the domain of the store *)
  Lemma run_tr_aux_dom {A} pre t (p : prog A) : forall n own s a n' s' own',
    run_tr_aux env pre t p n own s = Some (a, n', s', own') ->
    (forall l, In l own -> in_dom s l = true) ->
    (forall l, in_dom s' l = true -> in_dom s l = true \/ In l own') /\
    (forall l, in_dom s l = true -> in_dom s' l = true) /\
    (forall l, In l own' -> in_dom s' l = true) /\
    (forall l, In l own' -> In l own \/ fst l = t) /\
    incl own own'.
  Proof.
    induction p as [a0|init k IH|l k IH|l i v k IH|fn args k IH];
      intros n own s a n' s' own' H Hown; simpl in *.
    - inversion H; subst. repeat split; auto. apply incl_refl.
    - destruct (pre (t, n) || mem_loc (t, n) own); [discriminate|].
      apply IH in H.
      + destruct H as (H1 & H2 & H3 & H4 & H5). repeat split; auto.
        * intros q Hq. destruct (H1 q Hq) as [Hd|Hd]; auto.
          unfold in_dom in Hd. rewrite lookup_update in Hd.
          destruct (loc_eqb q (t, n)) eqn:E; [|left; exact Hd].
          apply loc_eqb_eq in E. subst. right. apply H5. left. reflexivity.
        * intros q Hq. apply H2. unfold in_dom in *. rewrite lookup_update.
          destruct (loc_eqb q (t, n)); auto.
        * intros q Hq. destruct (H4 q Hq) as [[<-|Hd]|Hd]; auto.
        * intros q Hq. apply H5. right. exact Hq.
      + intros q [<-|Hq]; unfold in_dom; rewrite lookup_update.
        * rewrite loc_eqb_refl. reflexivity.
        * destruct (loc_eqb q (t, n)); auto. apply Hown in Hq. exact Hq.
    - destruct (pre l || mem_loc l own); [|discriminate]. eapply IH; eauto.
    - destruct (mem_loc l own) eqn:E; [|discriminate].
      assert (Hd : forall q, in_dom (write_loc s l i v) q = in_dom s q).
      { intro q. unfold in_dom. destruct (loc_eq_dec q l) as [->|Hne].
        - rewrite lookup_write_same. destruct (lookup s l); reflexivity.
        - rewrite lookup_write_other by exact Hne. reflexivity. }
      apply IH in H.
      + destruct H as (H1 & H2 & H3 & H4 & H5). repeat split; auto.
        * intros q Hq. destruct (H1 q Hq) as [Hx|Hx]; auto. rewrite Hd in Hx. auto.
        * intros q Hq. apply H2. rewrite Hd. exact Hq.
      + intros q Hq. rewrite Hd. auto.
    - eapply IH; eauto.
  Qed.

  (* ---------------------------------------------------------- the abstract safety logic *)
  Section SP.
    Variable pre : loc -> bool.

    Definition acc (own : list loc) (l : loc) : Prop := pre l = true \/ In l own.
    Definition slice_ok (own : list loc) (s : slice) : Prop :=
      (s_len s = 0 /\ s_cap s = 0) \/ acc own (s_base s).
    Definition slice_own (own : list loc) (s : slice) : Prop :=
      (s_len s = 0 /\ s_cap s = 0) \/ In (s_base s) own.
    Definition col_ok (own : list loc) (c : col) : Prop := Forall (slice_ok own) (c_parts c).
    Definition map_ok own (kv : list (bytes * col)) := Forall (fun e => col_ok own (snd e)) kv.
    (* [strict] = the cell lives in a location the program owns: there a table entry may only hold a
       slice the program owns too (the grouper's table invariant) *)
    Definition val_ok (strict : Prop) (own : list loc) (v : val) : Prop :=
      match v with
      | VSl s => slice_ok own s
      | VCol c => col_ok own c
      | VEnt (Some s) _ _ _ => slice_ok own s /\ (strict -> slice_own own s)
      | VMap m => map_ok own m
      | _ => True
      end.

    Fixpoint spq {A} (p : prog A) (own : list loc) (Q : A -> list loc -> Prop) : Prop :=
      match p with
      | Ret a => Q a own
      | Alloc init k => Forall (val_ok True own) init /\ forall l, spq (k l) (l :: own) Q
      | Read l k => acc own l /\ forall a, Forall (val_ok (In l own) own) a -> spq (k a) own Q
      | Write l i v k => In l own /\ val_ok True own v /\ spq k own Q
      | Call fn args k => forall v, is_scalar v = true -> spq (k v) own Q
      end.

    Lemma acc_mono own own' l : incl own own' -> acc own l -> acc own' l.
    Proof. intros Hi [H|H]; [left|right]; auto. Qed.
    Lemma slice_ok_mono own own' s : incl own own' -> slice_ok own s -> slice_ok own' s.
    Proof. intros Hi [H|H]; [left|right]; auto. eapply acc_mono; eauto. Qed.
    Lemma slice_own_mono own own' s : incl own own' -> slice_own own s -> slice_own own' s.
    Proof. intros Hi [H|H]; [left|right]; auto. Qed.
    Lemma slice_own_ok own s : slice_own own s -> slice_ok own s.
    Proof. intros [H|H]; [left|right; right]; auto. Qed.
    Lemma col_ok_mono own own' c : incl own own' -> col_ok own c -> col_ok own' c.
    Proof.
      unfold col_ok. intros Hi H. eapply Forall_impl; [|exact H].
      intros s Hs. eapply slice_ok_mono; eauto.
    Qed.
    Lemma cols_ok_mono own own' cs : incl own own' -> Forall (col_ok own) cs -> Forall (col_ok own') cs.
    Proof. intros Hi H. eapply Forall_impl; [|exact H]. intros c. apply col_ok_mono; auto. Qed.
    Lemma slices_ok_mono own own' ss : incl own own' -> Forall (slice_ok own) ss -> Forall (slice_ok own') ss.
    Proof. intros Hi H. eapply Forall_impl; [|exact H]. intros c. apply slice_ok_mono; auto. Qed.
    Lemma map_ok_mono own own' m : incl own own' -> map_ok own m -> map_ok own' m.
    Proof. intros Hi H. eapply Forall_impl; [|exact H]. intros kv Hkv. eapply col_ok_mono; eauto. Qed.
    Lemma val_ok_mono (P P' : Prop) own own' v :
      (P' -> P) -> incl own own' -> val_ok P own v -> val_ok P' own' v.
    Proof.
      intros HP Hi. destruct v as [| | | |s|c|[s|] h f o|m]; simpl; auto.
      - apply slice_ok_mono; auto.
      - apply col_ok_mono; auto.
      - intros [H1 H2]. split; [eapply slice_ok_mono; eauto|].
        intro H. eapply slice_own_mono; eauto.
      - apply map_ok_mono; auto.
    Qed.
    Lemma vals_ok_mono (P P' : Prop) own own' a :
      (P' -> P) -> incl own own' -> Forall (val_ok P own) a -> Forall (val_ok P' own') a.
    Proof. intros HP Hi H. eapply Forall_impl; [|exact H]. intros v. apply val_ok_mono; auto. Qed.
    Lemma scalar_ok P own v : is_scalar v = true -> val_ok P own v.
    Proof. destruct v; simpl; auto; discriminate. Qed.

    Lemma spq_conseq {A} (p : prog A) : forall own (Q Q' : A -> list loc -> Prop),
      (forall a own', Q a own' -> Q' a own') -> spq p own Q -> spq p own Q'.
    Proof.
      induction p as [a0|init k IH|l k IH|l i v k IH|fn args k IH]; intros own Q Q' HQ H; simpl in *.
      - auto.
      - destruct H as [H1 H2]. split; auto. intros l. eapply IH; eauto.
      - destruct H as [H1 H2]. split; auto. intros a Ha. eapply IH; eauto.
      - destruct H as (H1 & H2 & H3). repeat split; auto. eapply IH; eauto.
      - intros v Hv. eapply IH; eauto.
    Qed.

    (* the own set only grows *)
    Lemma spq_incl {A} (p : prog A) : forall own own0 (Q : A -> list loc -> Prop),
      incl own0 own -> spq p own Q -> spq p own (fun a own' => Q a own' /\ incl own0 own').
    Proof.
      induction p as [a0|init k IH|l k IH|l i v k IH|fn args k IH]; intros own own0 Q Hi H; simpl in *.
      - auto.
      - destruct H as [H1 H2]. split; auto. intros l. apply IH; auto.
        intros x Hx. right. auto.
      - destruct H as [H1 H2]. split; auto.
      - destruct H as (H1 & H2 & H3). repeat split; auto.
      - intros v Hv. apply IH; auto.
    Qed.

    Lemma spq_bind {A B} (p : prog A) (f : A -> prog B) : forall own (Q : B -> list loc -> Prop),
      spq p own (fun a own' => spq (f a) own' Q) -> spq (bind p f) own Q.
    Proof.
      induction p as [a0|init k IH|l k IH|l i v k IH|fn args k IH]; intros own Q H; simpl in *.
      - exact H.
      - destruct H as [H1 H2]. split; auto.
      - destruct H as [H1 H2]. split; auto.
      - destruct H as (H1 & H2 & H3). repeat split; auto.
      - intros v Hv. apply IH; auto.
    Qed.

    (* the rule used in practice: sequencing with a mid-condition, knowing that own grew *)
    Lemma spq_seq {A B} (p : prog A) (f : A -> prog B) own (Q1 : A -> list loc -> Prop)
          (Q : B -> list loc -> Prop) :
      spq p own Q1 ->
      (forall a own', incl own own' -> Q1 a own' -> spq (f a) own' Q) ->
      spq (bind p f) own Q.
    Proof.
      intros H1 H2. apply spq_bind. eapply spq_conseq; [|apply (spq_incl p own own Q1 (incl_refl _) H1)].
      intros a own' [Ha Hi]. apply H2; auto.
    Qed.

    (* ---------------------------------------------------------- soundness of the logic *)
    Definition store_ok (own : list loc) (s : store) : Prop :=
      forall l a, lookup s l = Some a -> acc own l -> Forall (val_ok (In l own) own) a.
    Definition fresh_inv (t : tid) (n : nat) (own : list loc) : Prop :=
      forall k, n <= k -> pre (t, k) = false /\ ~ In (t, k) own.

    Lemma Forall_set_nth {X} (P : X -> Prop) (a : list X) i v :
      Forall P a -> P v -> Forall P (set_nth a i v).
    Proof.
      intros Ha Hv. revert i. induction Ha as [|x r Hx Hr IH]; intros [|i]; simpl; auto.
    Qed.

    Lemma spq_sound {A} t (p : prog A) : forall n own s (Q : A -> list loc -> Prop),
      spq p own Q -> store_ok own s -> fresh_inv t n own ->
      exists a n' s' own',
        run_tr_aux env pre t p n own s = Some (a, n', s', own') /\
        Q a own' /\ store_ok own' s' /\ fresh_inv t n' own'.
    Proof.
      induction p as [a0|init k IH|l k IH|l i v k IH|fn args k IH]; intros n own s Q H Hs Hf; simpl in *.
      - exists a0, n, s, own. auto.
      - destruct H as [H1 H2].
        destruct (Hf n (le_n _)) as [Hp Hn].
        rewrite Hp. pose proof Hn as Hn'. apply mem_loc_false in Hn'. rewrite Hn'. simpl.
        apply (IH (t, n) (S n) ((t, n) :: own) (update s (t, n) init) Q (H2 _)).
        + intros q a Hq Hacc. rewrite lookup_update in Hq.
          assert (Hi : incl own ((t, n) :: own)) by (intros x Hx; right; exact Hx).
          destruct (loc_eqb q (t, n)) eqn:E.
          * inversion Hq; subst. eapply vals_ok_mono; [| exact Hi | exact H1]. auto.
          * apply loc_eqb_neq in E.
            assert (Hacc' : acc own q).
            { destruct Hacc as [Hacc|[Hacc|Hacc]]; [left; auto|congruence|right; auto]. }
            eapply vals_ok_mono; [| exact Hi | eapply Hs; eauto].
            intros [Hx|Hx]; [congruence|exact Hx].
        + intros k0 Hk. destruct (Hf k0 ltac:(lia)) as [Hp0 Hn0]. split; auto.
          intros [Hx|Hx]; [inversion Hx; lia|contradiction].
      - destruct H as [H1 H2].
        assert (E : pre l || mem_loc l own = true).
        { destruct H1 as [H1|H1]; [rewrite H1; reflexivity|].
          apply mem_loc_In in H1. rewrite H1. apply orb_true_r. }
        rewrite E. apply IH; auto. apply H2.
        unfold read_loc. destruct (lookup s l) eqn:El; [|constructor]. eapply Hs; eauto.
      - destruct H as (H1 & H2 & H3).
        pose proof H1 as H1'. apply mem_loc_In in H1'. rewrite H1'.
        apply IH; auto.
        intros q a Hq Hacc. destruct (loc_eq_dec q l) as [->|Hne].
        + rewrite lookup_write_same in Hq. destruct (lookup s l) eqn:El; [|discriminate].
          inversion Hq; subst. apply Forall_set_nth; [eapply Hs; eauto|].
          eapply val_ok_mono; [| apply incl_refl | exact H2]. auto.
        + rewrite lookup_write_other in Hq by exact Hne. eapply Hs; eauto.
      - apply IH; auto. apply H. unfold scalar. destruct (is_scalar (env fn args)) eqn:E; auto.
    Qed.

    (* ---------------------------------------------------------- rules for slices *)
    Lemma Forall_repeat {X} (P : X -> Prop) x n : P x -> Forall P (repeat x n).
    Proof. intro H. induction n; simpl; constructor; auto. Qed.
    Lemma Forall_firstn {X} (P : X -> Prop) n (l : list X) : Forall P l -> Forall P (firstn n l).
    Proof. intro H. revert n. induction H; intros [|n]; simpl; constructor; auto. Qed.
    Lemma Forall_skipn {X} (P : X -> Prop) n (l : list X) : Forall P l -> Forall P (skipn n l).
    Proof. intro H. revert n. induction H; intros [|n]; simpl; auto. Qed.
    Lemma Forall_seg P own s a : Forall (val_ok P own) a -> Forall (val_ok P own) (slice_seg s a).
    Proof. intro H. unfold slice_seg. apply Forall_firstn, Forall_skipn, H. Qed.

    Lemma sp_make n c z own :
      val_ok True own z ->
      spq (make_slice n c z) own
          (fun s own' => In (s_base s) own' /\ s_len s = n /\ s_cap s = c /\ s_off s = 0).
    Proof.
      intro Hz. simpl. split; [apply Forall_repeat; auto|]. intro l. simpl. auto.
    Qed.

    Lemma sp_lit vs own :
      Forall (val_ok True own) vs ->
      spq (slice_lit vs) own (fun s own' => In (s_base s) own' /\ s_len s = length vs).
    Proof. intro H. simpl. split; [exact H|]. intro l. simpl. auto. Qed.

    Lemma sp_get s i own :
      slice_ok own s ->
      spq (slice_get s i) own
          (fun o own' => own' = own /\
                         match o with Ok v => val_ok (In (s_base s) own) own v | _ => True end).
    Proof.
      intro H. unfold slice_get. destruct (i <? s_len s) eqn:E; simpl; auto.
      split.
      - destruct H as [[H _]|H]; auto. apply Nat.ltb_lt in E. lia.
      - intros a Ha. split; auto. unfold idx. destruct (nth_error a (s_off s + i)) eqn:En; simpl; auto.
        eapply Forall_forall in Ha; eauto. eapply nth_error_In; eauto.
    Qed.

    (* reading an element of a slice the program owns: the strict invariant holds for it *)
    Lemma sp_get_own s i own :
      slice_own own s ->
      spq (slice_get s i) own
          (fun o own' => own' = own /\ match o with Ok v => val_ok True own v | _ => True end).
    Proof.
      intro H. unfold slice_get. destruct (i <? s_len s) eqn:E; simpl; auto.
      apply Nat.ltb_lt in E. destruct H as [[H _]|H]; [lia|].
      split; [right; auto|].
      intros a Ha. split; auto. unfold idx. destruct (nth_error a (s_off s + i)) eqn:En; simpl; auto.
      eapply Forall_forall in Ha; [|eapply nth_error_In; eauto].
      eapply val_ok_mono; [| apply incl_refl | exact Ha]. auto.
    Qed.

    Lemma sp_set s i v own :
      slice_own own s -> val_ok True own v ->
      spq (slice_set s i v) own (fun _ own' => own' = own).
    Proof.
      intros H Hv. unfold slice_set. destruct (i <? s_len s) eqn:E; simpl; auto.
      repeat split; auto. destruct H as [[H _]|H]; auto. apply Nat.ltb_lt in E. lia.
    Qed.

    Lemma sp_read s own :
      slice_ok own s ->
      spq (slice_read s) own
          (fun vs own' => own' = own /\ Forall (val_ok (In (s_base s) own) own) vs).
    Proof.
      intro H. unfold slice_read. destruct (s_len s =? 0) eqn:E; simpl; auto.
      split.
      - destruct H as [[H _]|H]; auto. apply Nat.eqb_neq in E. lia.
      - intros a Ha. split; auto. apply Forall_seg; auto.
    Qed.

    Lemma sp_read_own s own :
      slice_own own s ->
      spq (slice_read s) own (fun vs own' => own' = own /\ Forall (val_ok True own) vs).
    Proof.
      intro H. unfold slice_read. destruct (s_len s =? 0) eqn:E; simpl; auto.
      apply Nat.eqb_neq in E. destruct H as [[H _]|H]; [lia|].
      split; [right; auto|]. intros a Ha. split; auto. apply Forall_seg.
      eapply vals_ok_mono; [| apply incl_refl | exact Ha]. auto.
    Qed.

    Lemma subslice_ok own s a b s' : subslice s a b = Ok s' -> slice_ok own s -> slice_ok own s'.
    Proof.
      unfold subslice. destruct ((a <=? b) && (b <=? s_cap s)) eqn:E; [|discriminate].
      intros H; inversion H; subst; clear H. intros [[H1 H2]|H]; [left|right]; simpl; auto.
      apply andb_true_iff in E as [E1 E2]. apply Nat.leb_le in E1. apply Nat.leb_le in E2. lia.
    Qed.

    Lemma subslice_own own s a b s' : subslice s a b = Ok s' -> slice_own own s -> slice_own own s'.
    Proof.
      unfold subslice. destruct ((a <=? b) && (b <=? s_cap s)) eqn:E; [|discriminate].
      intros H; inversion H; subst; clear H. intros [[H1 H2]|H]; [left|right]; simpl; auto.
      apply andb_true_iff in E as [E1 E2]. apply Nat.leb_le in E1. apply Nat.leb_le in E2. lia.
    Qed.

    Lemma sp_append s v own :
      slice_own own s -> val_ok True own v ->
      spq (slice_append s v) own (fun s' own' => slice_own own' s' /\ s_len s' = S (s_len s)).
    Proof.
      intros H Hv. unfold slice_append. destruct (s_len s <? s_cap s) eqn:E.
      - simpl. apply Nat.ltb_lt in E. destruct H as [[H1 H2]|H]; [lia|].
        repeat split; auto. right. simpl. auto.
      - destruct (s_len s =? 0) eqn:E0; simpl.
        + split.
          * constructor; auto. apply Forall_repeat. simpl. auto.
          * intro l. split; auto. right. simpl. auto.
        + apply Nat.eqb_neq in E0. destruct H as [[H1 H2]|H]; [lia|]. split.
          * right. auto.
          * intros a Ha. split.
            -- apply Forall_app. split.
               ++ apply Forall_seg. eapply vals_ok_mono; [| apply incl_refl | exact Ha]. auto.
               ++ constructor; auto. apply Forall_repeat. simpl. auto.
            -- intro l. split; auto. right. simpl. auto.
    Qed.

    Lemma sp_write_list vs : forall dst i own,
      slice_own own dst -> Forall (val_ok True own) vs ->
      spq (slice_write_list dst i vs) own (fun _ own' => own' = own).
    Proof.
      clear env.
      induction vs as [|v r IH]; intros dst i own Hd Hv; simpl; auto.
      inversion Hv; subst.
      destruct (i <? s_len dst) eqn:E; simpl; auto.
      repeat split; auto.
      destruct Hd as [[H _]|H]; auto. apply Nat.ltb_lt in E. lia.
    Qed.

    (* ---------------------------------------------------------- typed accessors *)
    Lemma san_z_ok P own v : val_ok P own (san_z v).
    Proof. exact I. Qed.
    Lemma as_col_ok P own v : val_ok P own v -> col_ok own (as_col v).
    Proof. destruct v; simpl; auto; intros _; constructor. Qed.
    Lemma as_slice_ok P own v : val_ok P own v -> slice_ok own (as_slice v).
    Proof. destruct v; simpl; auto; intros _; left; auto. Qed.

    Lemma sp_get_z s i own :
      slice_ok own s -> spq (get_z s i) own (fun _ own' => own' = own).
    Proof.
      intro H. unfold get_z. eapply spq_seq; [apply sp_get; eauto|].
      intros o own' _ [-> _]. simpl. auto.
    Qed.
    Lemma sp_get_b s i own :
      slice_ok own s -> spq (get_b s i) own (fun _ own' => own' = own).
    Proof.
      intro H. unfold get_b. eapply spq_seq; [apply sp_get; eauto|].
      intros o own' _ [-> _]. simpl. auto.
    Qed.
    Lemma sp_get_col s i own :
      slice_ok own s ->
      spq (get_col s i) own
          (fun o own' => own' = own /\ match o with Ok c => col_ok own c | _ => True end).
    Proof.
      intro H. unfold get_col. eapply spq_seq; [apply sp_get; eauto|].
      intros o own' _ [-> Ho]. simpl. split; auto. destruct o; auto. eapply as_col_ok; eauto.
    Qed.
    Lemma sp_read_zs s own :
      slice_ok own s -> spq (read_zs s) own (fun _ own' => own' = own).
    Proof.
      intro H. unfold read_zs. eapply spq_seq; [apply sp_read; eauto|].
      intros o own' _ [-> _]. simpl. auto.
    Qed.
    Lemma sp_read_bs s own :
      slice_ok own s -> spq (read_bs s) own (fun _ own' => own' = own).
    Proof.
      intro H. unfold read_bs. eapply spq_seq; [apply sp_read; eauto|].
      intros o own' _ [-> _]. simpl. auto.
    Qed.
    Lemma sp_read_cols s own :
      slice_ok own s ->
      spq (read_cols s) own (fun cs own' => own' = own /\ Forall (col_ok own) cs).
    Proof.
      intro H. unfold read_cols. eapply spq_seq; [apply sp_read; eauto|].
      intros vs own' _ [-> Hv]. simpl. split; auto.
      induction Hv; simpl; constructor; auto. eapply as_col_ok; eauto.
    Qed.
    Lemma sp_read_slices s own :
      slice_ok own s ->
      spq (read_slices s) own (fun ss own' => own' = own /\ Forall (slice_ok own) ss).
    Proof.
      intro H. unfold read_slices. eapply spq_seq; [apply sp_read; eauto|].
      intros vs own' _ [-> Hv]. simpl. split; auto.
      induction Hv; simpl; constructor; auto. eapply as_slice_ok; eauto.
    Qed.

    Lemma sp_copy_z dst src own :
      slice_own own dst -> slice_ok own src ->
      spq (slice_copy san_z dst src) own (fun _ own' => own' = own).
    Proof.
      intros Hd Hs. unfold slice_copy. eapply spq_seq; [apply sp_read; eauto|].
      intros vs own' Hi [-> Hv]. apply sp_write_list; auto.
      clear. induction vs; simpl; constructor; auto. exact I.
    Qed.
    Lemma sp_copy_col dst src own :
      slice_own own dst -> slice_ok own src ->
      spq (slice_copy san_col dst src) own (fun _ own' => own' = own).
    Proof.
      intros Hd Hs. unfold slice_copy. eapply spq_seq; [apply sp_read; eauto|].
      intros vs own' Hi [-> Hv]. apply sp_write_list; auto.
      induction Hv; simpl; constructor; auto. simpl. eapply as_col_ok; eauto.
    Qed.

    (* ---------------------------------------------------------- rules for maps *)
    Lemma sp_map_make own :
      spq map_make own (fun m own' => In m own').
    Proof. simpl. split; [repeat constructor|]. intro l. simpl. auto. Qed.

    Lemma sp_map_read m own :
      acc own m -> spq (map_read m) own (fun kv own' => own' = own /\ map_ok own kv).
    Proof.
      intro H. simpl. split; auto. intros a Ha. split; auto.
      destruct a as [|[| | | | | | |kv] r]; try constructor.
      inversion Ha; subst. assumption.
    Qed.

    Lemma map_get_ok own kv k c : map_ok own kv -> map_get kv k = Some c -> col_ok own c.
    Proof.
      induction kv as [|[k' c'] r IH]; simpl; intros H E; [discriminate|].
      inversion H; subst. destruct (bytes_eqb k k'); [inversion E; subst; auto|auto].
    Qed.

    Lemma map_put_ok own kv k c : map_ok own kv -> col_ok own c -> map_ok own (map_put kv k c).
    Proof.
      induction kv as [|[k' c'] r IH]; simpl; intros H Hc.
      - repeat constructor; auto.
      - inversion H; subst. destruct (bytes_eqb k k'); constructor; auto. apply IH; auto.
    Qed.

    Lemma sp_map_lookup m k own :
      acc own m ->
      spq (map_lookup m k) own
          (fun o own' => own' = own /\ match o with Some c => col_ok own c | None => True end).
    Proof.
      intro H. unfold map_lookup. eapply spq_seq; [apply sp_map_read; auto|].
      intros kv own' Hi [-> Hkv]. simpl. split; auto.
      destruct (map_get kv k) eqn:E; auto. eapply map_get_ok; eauto.
    Qed.

    Lemma sp_map_store m k c own :
      In m own -> col_ok own c ->
      spq (map_store m k c) own (fun _ own' => own' = own).
    Proof.
      intros H Hc. unfold map_store. eapply spq_seq; [apply sp_map_read; right; auto|].
      intros kv own' Hi [-> Hkv]. simpl. repeat split; auto. apply map_put_ok; auto.
    Qed.

    (* ---------------------------------------------------------- rules for loops *)
    Lemma sp_for_each {X S} (body : X -> S -> prog S) (I : S -> list loc -> Prop) :
      forall (xs : list X) (P : X -> Prop) s own,
      Forall P xs ->
      I s own ->
      (forall x s own1, P x -> incl own own1 -> I s own1 -> spq (body x s) own1 I) ->
      spq (for_each xs body s) own I.
    Proof.
      induction xs as [|x r IH]; intros P s own HP HI Hb; simpl; auto.
      inversion HP; subst.
      eapply spq_seq; [apply Hb; auto; apply incl_refl|].
      intros s' own' Hi HI'. eapply IH; eauto.
      intros x0 s0 own1 Hx0 Hi1 HI1. apply Hb; auto. eapply incl_tran; eauto.
    Qed.

    Definition okO {S} (I : S -> list loc -> Prop) (o : outcome S) (own : list loc) : Prop :=
      match o with Ok s => I s own | _ => True end.

    Lemma sp_for_eachO {X S} (body : X -> S -> prog (outcome S)) (I : S -> list loc -> Prop) :
      forall (xs : list X) (P : X -> Prop) s own,
      Forall P xs ->
      I s own ->
      (forall x s own1, P x -> incl own own1 -> I s own1 -> spq (body x s) own1 (okO I)) ->
      spq (for_eachO xs body s) own (okO I).
    Proof.
      induction xs as [|x r IH]; intros P s own HP HI Hb; simpl; auto.
      inversion HP; subst. unfold bindO.
      eapply spq_seq; [apply Hb; auto; apply incl_refl|].
      intros [s'| |] own' Hi HI'; simpl; auto. eapply IH; eauto.
      intros x0 s0 own1 Hx0 Hi1 HI1. apply Hb; auto. eapply incl_tran; eauto.
    Qed.

    Lemma Forall_True {X} (xs : list X) : Forall (fun _ => True) xs.
    Proof. induction xs; constructor; auto. Qed.

    (* sequencing in the outcome monad *)
    Lemma spq_seqO {A B} (p : prog (outcome A)) (f : A -> prog (outcome B)) own
          (Q1 : A -> list loc -> Prop) (Q : B -> list loc -> Prop) :
      spq p own (okO Q1) ->
      (forall a own', incl own own' -> Q1 a own' -> spq (f a) own' (okO Q)) ->
      spq (bindO p f) own (okO Q).
    Proof.
      intros H1 H2. unfold bindO. eapply spq_seq; [exact H1|].
      intros [a| |] own' Hi Ha; simpl; auto.
    Qed.

    Lemma sp_lift {A} (p : prog A) own (Q : A -> list loc -> Prop) :
      spq p own Q -> spq (lift p) own (okO Q).
    Proof.
      intro H. unfold lift. eapply spq_seq; [exact H|]. intros a own' _ Ha. simpl. exact Ha.
    Qed.

    Lemma sp_weakenO {A} (p : prog (outcome A)) own (Q Q' : A -> list loc -> Prop) :
      (forall a own', Q a own' -> Q' a own') -> spq p own (okO Q) -> spq p own (okO Q').
    Proof.
      intros HQ. apply spq_conseq. intros [a| |] own'; simpl; auto.
    Qed.
  End SP.

  (* ---------------------------------------------------------- from the logic to solo safety *)
  (* A store is closed when no cell points outside its domain.  (Scratch left behind by earlier
     operations - grouper tables - may be present; nothing is assumed about it except closedness.) *)
  Definition closed_store (s : store) : Prop := store_ok (in_dom s) [] s.
  Definition store_fresh (t : tid) (n : nat) (s : store) : Prop :=
    forall k, n <= k -> lookup s (t, k) = None.


  (* after a safe run the store is closed again (with respect to its new, larger domain) *)
  Lemma slice_ok_reclose pre pre' own s :
    (forall l, acc pre own l -> pre' l = true) -> slice_ok pre own s -> slice_ok pre' [] s.
  Proof. intros H [Hs|Hs]; [left; auto|right; left; auto]. Qed.

  Lemma col_ok_reclose pre pre' own c :
    (forall l, acc pre own l -> pre' l = true) -> col_ok pre own c -> col_ok pre' [] c.
  Proof.
    intros H Hc. unfold col_ok in *. eapply Forall_impl; [|exact Hc].
    intros s. apply slice_ok_reclose; auto.
  Qed.

  Lemma val_ok_reclose pre pre' own (P : Prop) v :
    (forall l, acc pre own l -> pre' l = true) -> val_ok pre P own v -> val_ok pre' False [] v.
  Proof.
    intros H. destruct v as [| | | |s|c|[s|] h f o|m]; simpl; auto.
    - apply slice_ok_reclose; auto.
    - apply col_ok_reclose; auto.
    - intros [H1 _]. split; [eapply slice_ok_reclose; eauto|intros []].
    - intro Hm. unfold map_ok in *. eapply Forall_impl; [|exact Hm].
      intros kv. apply col_ok_reclose; auto.
  Qed.

  Lemma reclose {A} t (p : prog A) n s a n' s' own :
    run_tr env t p n s = Some (a, n', s', own) ->
    store_ok (in_dom s) own s' -> closed_store s'.
  Proof.
    unfold run_tr. intros Hrun Hok.
    destruct (run_tr_aux_dom (in_dom s) t p n [] s a n' s' own Hrun) as (H1 & H2 & H3 & H4 & H5);
      [intros l []|].
    assert (Hacc : forall l, acc (in_dom s) own l -> in_dom s' l = true).
    { intros l [Hl|Hl]; auto. }
    intros l arr0 Hl _.
    assert (Hd : in_dom s' l = true) by (unfold in_dom; rewrite Hl; reflexivity).
    assert (Ha : acc (in_dom s) own l) by (destruct (H1 l Hd); [left|right]; auto).
    specialize (Hok l arr0 Hl Ha). eapply Forall_impl; [|exact Hok].
    intros v Hv. eapply val_ok_reclose; eauto.
  Qed.

  Theorem spq_solo_safe {A} t (p : prog A) n s (Q : A -> list loc -> Prop) :
    closed_store s -> store_fresh t n s ->
    spq (in_dom s) p [] Q ->
    exists a n' s' own, run_tr env t p n s = Some (a, n', s', own) /\ Q a own /\
                        store_ok (in_dom s) own s'.
  Proof.
    intros Hc Hf H. unfold run_tr.
    assert (Hfi : fresh_inv (in_dom s) t n []).
    { intros k Hk. split; auto. unfold in_dom. rewrite (Hf k Hk). reflexivity. }
    destruct (spq_sound (in_dom s) t p n [] s Q H Hc Hfi) as (a & n' & s' & own' & H1 & H2 & H3 & _).
    exists a, n', s', own'. repeat split; assumption.
  Qed.
End Generic.
