(* Proofs/SortQuickSorted.v — lemmas about Model/Sort.v, part 5: for a strict weak order [lt] the
   quickSort of sorter.go leaves its range without inversion, for every length, every maxDepth and
   every fuel that exceeds the length:  quick_sort_sorted, then  sort_ids_sorted  for Sorter.Sort().

   Composition: doPivot's partition (Proofs/SortQuick.v: do_pivot_partition), the two recursive calls
   on [a, mlo) and [mhi, b) (the model writes the tail iteration of Go's loop as the call it stands
   for), which only move values inside their own range (rframe), the heapsort fallback
   (heap_sort_sorted'), and shell pass + insertion sort on ranges of at most 12 elements. *)
From QF Require Import Base.Prelude Model.Sort Proofs.SortProofs Proofs.SortSafe Proofs.SortSorted.
From QF Require Import Proofs.SortQuick Corr.SortCorr Proofs.SortKeyProofs.

(* ------------------------------------------------------------------ frames of the small sorts: any lt *)
Section Frames.
  Variable lt : nat -> nat -> bool.

  Lemma ins_inner_frame a b : forall j s, j < b -> b <= length s ->
    exists s', ins_inner lt a j s = Ok s' /\ rframe a b s s'.
  Proof.
    induction j as [|j IH]; intros s Hj Hb; cbn [ins_inner]; [eauto using rframe_refl|].
    destruct (a <? S j) eqn:C; [|eauto using rframe_refl]. apply Nat.ltb_lt in C. kunf.
    rewrite less_eq by lia. cbn [obind].
    destruct (lt _ _); [|eauto using rframe_refl].
    rewrite swap_eq by lia. cbn [obind].
    replace (S j - 1) with j by lia.
    destruct (IH (swapl s (S j) j)) as (s' & E & F); [lia|len|].
    exists s'. split; auto. eapply rframe_trans; [|exact F]. apply rframe_swap; lia.
  Qed.

  Lemma ins_outer_frame a b : forall k i s, (0 < k -> i + k <= b) -> b <= length s ->
    exists s', ins_outer lt k a i s = Ok s' /\ rframe a b s s'.
  Proof.
    induction k as [|k IH]; intros i s H Hb; cbn [ins_outer]; [eauto using rframe_refl|].
    destruct (ins_inner_frame a b i s) as (s1 & E1 & F1); [lia|lia|]. rewrite E1. cbn [obind].
    pose proof (rframe_length _ _ _ _ F1) as L1.
    destruct (IH (S i) s1) as (s' & E & F); [lia|lia|].
    exists s'. split; auto. eapply rframe_trans; eauto.
  Qed.

  Lemma insertion_sort_frame a b s : b <= length s ->
    exists s', insertion_sort lt a b s = Ok s' /\ rframe a b s s'.
  Proof. intros H. unfold insertion_sort. apply ins_outer_frame; [kunf; lia|exact H]. Qed.

  (* the shell pass with gap 6 on [a, b): i runs from a+6 *)
  Lemma shell_pass_frame a b : forall k i s, a + 6 <= i -> (0 < k -> i + k <= b) -> b <= length s ->
    exists s', shell_pass lt k i s = Ok s' /\ rframe a b s s'.
  Proof.
    induction k as [|k IH]; intros i s Hi H Hb; cbn [shell_pass]; [eauto using rframe_refl|]. kunf.
    rewrite less_eq by lia. cbn [obind].
    assert (E1 : exists s1, (if lt (nth i s 0) (nth (i - 6) s 0) then swap s i (i - 6) else Ok s)
                            = Ok s1 /\ rframe a b s s1).
    { destruct (lt _ _); [|eauto using rframe_refl].
      rewrite swap_eq by lia. eexists; split; [reflexivity|]. apply rframe_swap; lia. }
    destruct E1 as (s1 & -> & F1). cbn [obind].
    pose proof (rframe_length _ _ _ _ F1) as L1.
    destruct (IH (S i) s1) as (s' & E & F); [lia|lia|lia|].
    exists s'. split; auto. eapply rframe_trans; eauto.
  Qed.
End Frames.

(* the frame notion of the heap sort lemmas (offsets from [first]) is the one used here *)
Lemma frame_rframe a b s s' : a <= b -> length s' = length s -> frame a s s' (b - a) -> rframe a b s s'.
Proof.
  intros Hab L [U F]. split; [exact L|]. split.
  - intros q Hq. apply U. lia.
  - intros p Hp1 Hp2. destruct (F (p - a)) as (p' & Hp' & E); [lia|].
    exists (a + p'). split; [lia|]. split; [lia|]. unfold h in E.
    replace (a + (p - a)) with p in E by lia. exact E.
Qed.

Section QuickSorted.
  Variable lt : nat -> nat -> bool.
  Hypothesis W : strict_weak_order lt.

  Local Notation lee := (SortSorted.le lt).

  Lemma sorted_range_beside a b x y s s' :
    rframe a b s s' -> b <= x \/ y <= a -> sorted_range lt s x y -> sorted_range lt s' x y.
  Proof.
    intros F Hc H i j Hi Hij Hj.
    rewrite (rframe_nth _ _ _ _ i F), (rframe_nth _ _ _ _ j F) by lia. apply H; lia.
  Qed.

  (* sorting the two sides of a partition gives a sorted whole *)
  Lemma partition_sorted s a mlo mhi b pv :
    all_in s a mlo (fun x => lee x pv) -> all_in s mlo mhi (eqv lt pv) ->
    all_in s mhi b (fun x => lee pv x) ->
    sorted_range lt s a mlo -> sorted_range lt s mhi b -> sorted_range lt s a b.
  Proof.
    intros P1 P2 P3 S1 S2 i j Hi Hij Hj.
    destruct (le_lt_dec mlo j) as [Hj1|Hj1]; [|apply S1; lia].
    destruct (le_lt_dec mhi i) as [Hi1|Hi1]; [apply S2; lia|].
    apply (le_trans lt W _ pv).
    - destruct (le_lt_dec mlo i) as [Hi2|Hi2]; [apply P2; lia|apply P1; lia].
    - destruct (le_lt_dec mhi j) as [Hj2|Hj2]; [apply P3; lia|apply P2; lia].
  Qed.

  Theorem quick_sort_sorted : forall fuel a b d s,
    a <= b -> b <= length s -> b - a < fuel ->
    exists s', quick_sort lt fuel a b d s = Ok s' /\ rframe a b s s' /\ sorted_range lt s' a b.
  Proof.
    induction fuel as [|f IH]; intros a b d s Hab Hb Hf; [lia|]. cbn [quick_sort].
    destruct (k_ins_max <? b - a) eqn:C.
    - unfold k_ins_max in C. apply Nat.ltb_lt in C.
      destruct (d =? k_depth_zero).
      { destruct (heap_sort_sorted' lt W a b s Hab Hb) as (s' & E & L & S' & Fr).
        exists s'. split; [exact E|]. split; [apply frame_rframe; auto|exact S']. }
      destruct (do_pivot_partition lt W a b s) as (mlo & mhi & s1 & E1 & F1 & R1 & R2 & R3 & P1 & P2 & P3);
        [lia|lia|].
      rewrite E1. cbn [obind].
      pose proof (rframe_length _ _ _ _ F1) as L1.
      destruct (mlo - a <? b - mhi).
      + destruct (IH a mlo (d - 1) s1) as (s2 & E2 & F2 & S2); [lia|lia|lia|]. rewrite E2. cbn [obind].
        pose proof (rframe_length _ _ _ _ F2) as L2.
        destruct (IH mhi b (d - 1) s2) as (s3 & E3 & F3 & S3); [lia|lia|lia|].
        exists s3. split; [exact E3|]. split.
        { eapply rframe_trans; [exact F1|].
          eapply rframe_trans; [apply (rframe_mono a mlo); [lia|lia|exact F2]|].
          apply (rframe_mono mhi b); [lia|lia|exact F3]. }
        apply (partition_sorted s3 a mlo mhi b (nth mlo s1 0)).
        * apply (rframe_all mhi b a mlo s2 s3 _ F3); [lia|].
          apply (rframe_all a mlo a mlo s1 s2 _ F2); [lia|]. exact P1.
        * apply (rframe_all mhi b mlo mhi s2 s3 _ F3); [lia|].
          apply (rframe_all a mlo mlo mhi s1 s2 _ F2); [lia|]. exact P2.
        * apply (rframe_all mhi b mhi b s2 s3 _ F3); [lia|].
          apply (rframe_all a mlo mhi b s1 s2 _ F2); [lia|]. exact P3.
        * apply (sorted_range_beside mhi b a mlo s2 s3 F3); [lia|exact S2].
        * exact S3.
      + destruct (IH mhi b (d - 1) s1) as (s2 & E2 & F2 & S2); [lia|lia|lia|]. rewrite E2. cbn [obind].
        pose proof (rframe_length _ _ _ _ F2) as L2.
        destruct (IH a mlo (d - 1) s2) as (s3 & E3 & F3 & S3); [lia|lia|lia|].
        exists s3. split; [exact E3|]. split.
        { eapply rframe_trans; [exact F1|].
          eapply rframe_trans; [apply (rframe_mono mhi b); [lia|lia|exact F2]|].
          apply (rframe_mono a mlo); [lia|lia|exact F3]. }
        apply (partition_sorted s3 a mlo mhi b (nth mlo s1 0)).
        * apply (rframe_all a mlo a mlo s2 s3 _ F3); [lia|].
          apply (rframe_all mhi b a mlo s1 s2 _ F2); [lia|]. exact P1.
        * apply (rframe_all a mlo mlo mhi s2 s3 _ F3); [lia|].
          apply (rframe_all mhi b mlo mhi s1 s2 _ F2); [lia|]. exact P2.
        * apply (rframe_all a mlo mhi b s2 s3 _ F3); [lia|].
          apply (rframe_all mhi b mhi b s1 s2 _ F2); [lia|]. exact P3.
        * exact S3.
        * apply (sorted_range_beside a mlo mhi b s2 s3 F3); [lia|exact S2].
    - apply Nat.ltb_ge in C. destruct (k_qs_one <? b - a) eqn:C1.
      + destruct (shell_pass_frame lt a b (b - (a + k_gap_a)) (a + k_gap_a) s) as (s1 & E1 & F1);
          [kunf; lia|kunf; lia|lia|].
        rewrite E1. cbn [obind].
        pose proof (rframe_length _ _ _ _ F1) as L1.
        destruct (insertion_sort_sorted lt W a b s1) as (s2 & E2 & L2 & S2); [lia|].
        destruct (insertion_sort_frame lt a b s1) as (s2' & E2' & F2); [lia|].
        rewrite E2 in E2'. inversion E2'; subst s2'.
        exists s2. split; [exact E2|]. split; [eapply rframe_trans; eauto|exact S2].
      + apply Nat.ltb_ge in C1. unfold k_qs_one in C1.
        exists s. split; [reflexivity|]. split; [apply rframe_refl|].
        intros i j Hi Hij Hj. lia.
  Qed.

  (* Sorter.Sort(): the output has no inversion *)
  Theorem sort_ids_sorted ids out : sort_ids lt ids = Ok out -> no_inversion lt out.
  Proof.
    intros H. unfold sort_ids in H.
    destruct (max_depth (length ids)) as [d| |] eqn:Ed; cbn [obind] in H; try discriminate H.
    destruct (quick_sort_sorted (S (length ids)) 0 (length ids) d ids) as (s' & E' & F & S');
      [lia|lia|lia|].
    rewrite E' in H. inversion H; subst s'.
    apply sorted_range_no_inversion. rewrite (rframe_length _ _ _ _ F). exact S'.
  Qed.

  (* total form: Sort() answers, and what it answers is a sorted permutation of its input *)
  Theorem sort_ids_correct ids :
    exists out, sort_ids lt ids = Ok out /\ Permutation out ids /\ no_inversion lt out.
  Proof.
    destruct (sort_ids_safe lt ids) as (out & E & _). exists out. split; [exact E|]. split.
    - eapply sort_ids_perm; eauto.
    - apply (sort_ids_sorted ids out E).
  Qed.
End QuickSorted.

(* ------------------------------------------------------------------ the statement of C03 on the five column types *)
(* Sorter.Sort() with the Comparables of any list of keys (any column types, Reverse, NullLast as
   decoded by Corr/SortCorr.v): it answers, the answer is a permutation of the index, and no row
   is followed (at any distance) by a row that is smaller in the order worded by the property. *)
Theorem sort_ids_by_keys (keys : list keyspec) (ids : list nat) :
  exists out, sort_ids (model_lt keys) ids = Ok out /\ Permutation out ids /\
    forall i j a b, i < j -> nth_error out i = Some a -> nth_error out j = Some b ->
                    spec_lt keys b a = false.
Proof.
  destruct (sort_ids_correct (model_lt keys) (model_lt_swo keys) ids) as (out & E & P & S).
  exists out. split; [exact E|]. split; [exact P|].
  intros i j a b Hij Ha Hb. rewrite <- model_lt_spec. exact (S i j a b Hij Ha Hb).
Qed.

(* hence an implementation output that equals the model's (engine code 0 on the exact replay) is
   accepted by the property oracle: for a strict weak order the checker accepts the model's output *)
Theorem sort_ids_checker_accepts (lt : nat -> nat -> bool) (ids out : list nat) :
  strict_weak_order lt -> sort_ids lt ids = Ok out -> sorted_perm_b lt ids out = true.
Proof.
  intros W E. apply sorted_perm_b_correct'. split; [eapply sort_ids_perm; eauto|].
  intros i a b Ha Hb. exact (sort_ids_sorted lt W ids out E i (S i) a b (Nat.lt_succ_diag_r i) Ha Hb).
Qed.

Theorem sort_ids_checker_accepts_keys (keys : list keyspec) (ids out : list nat) :
  sort_ids (model_lt keys) ids = Ok out -> sorted_perm_b (spec_lt keys) ids out = true.
Proof.
  intros E. apply sorted_perm_b_correct'. split; [eapply sort_ids_perm; eauto|].
  intros i a b Ha Hb. rewrite <- model_lt_spec.
  exact (sort_ids_sorted _ (model_lt_swo keys) ids out E i (S i) a b (Nat.lt_succ_diag_r i) Ha Hb).
Qed.
