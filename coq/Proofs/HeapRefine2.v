(* Proofs/HeapRefine2.v — refinement of the heap-level programs (Model/HeapOps.v) to the pure L0 model,
   second part (continues Proofs/HeapRefine.v): Apply with user functions (apply0 / apply1 / apply2, Call nodes
   answered by the callback oracle [env] of the heap run vs the function tables of Model/Ops.v), FilteredApply,
   the shared-mask loop of QFrame.filter, the clause tree, QFrames / Distinct / GroupBy.
   The L1 level does not interpret cell values: the LINK between the oracle of the heap run and the L0 function
   tables / predicates is an explicit premise of every theorem (stated row by row over the rows of the index). *)
From QF Require Import Base.Prelude Model.Heap Model.HeapOps Proofs.HeapProofs Proofs.HeapRefine.
From QF Require Model.Frame Model.Ops Model.Filter.

#[local] Arguments bind : simpl never.
#[local] Arguments bindO : simpl never.

(* ==================================================================== L0 readings of heap values *)
Definition ty_of (t : Frame.ctype) : N :=
  match t with
  | Frame.TInt => ty_int | Frame.TFloat => ty_float | Frame.TBool => ty_bool
  | Frame.TString => ty_string | Frame.TEnum => ty_enum
  end.

Definition sopt (v : val) : option bytes := match v with VStr b => Some b | _ => None end.

(* a value returned by a callback of result type t, read as an L0 cell *)
Definition cv (t : Frame.ctype) (v : val) : Frame.cell :=
  match t with
  | Frame.TInt => Frame.CInt (as_z v)
  | Frame.TFloat => Frame.CFloat (val_n v)
  | Frame.TBool => Frame.CBool (as_b v)
  | Frame.TString => Frame.CStr (sopt v)
  | Frame.TEnum => Frame.CEnum (sopt v)
  end.

(* the result array of an Apply read as an L0 column *)
Definition res_col (t : Frame.ctype) (arr : list val) : Frame.coldata :=
  match t with
  | Frame.TInt => Frame.ICol (map as_z arr)
  | Frame.TFloat => Frame.FCol (map val_n arr)
  | Frame.TBool => Frame.BCol (map as_b arr)
  | Frame.TString => Frame.SCol (map sopt arr)
  | Frame.TEnum => Frame.SCol []
  end.

Lemma cv_zero t : cv t (zero_of (ty_of t)) = Ops.zero_cell t.
Proof. destruct t; reflexivity. Qed.

Lemma col_of_cells_cv t arr : t <> Frame.TEnum -> Ops.col_of_cells t (map (cv t) arr) = Ok (res_col t arr).
Proof.
  intro Ht. destruct t; try congruence; unfold Ops.col_of_cells, res_col.
  - assert (H : omap (fun c => match c with Frame.CInt z => Ok z | _ => Panic end) (map (cv Frame.TInt) arr) = Ok (map as_z arr)).
    { induction arr as [|v r IH]; simpl; auto. rewrite IH. reflexivity. }
    rewrite H. reflexivity.
  - assert (H : omap (fun c => match c with Frame.CFloat z => Ok z | _ => Panic end) (map (cv Frame.TFloat) arr) = Ok (map val_n arr)).
    { induction arr as [|v r IH]; simpl; auto. rewrite IH. reflexivity. }
    rewrite H. reflexivity.
  - assert (H : omap (fun c => match c with Frame.CBool z => Ok z | _ => Panic end) (map (cv Frame.TBool) arr) = Ok (map as_b arr)).
    { induction arr as [|v r IH]; simpl; auto. rewrite IH. reflexivity. }
    rewrite H. reflexivity.
  - assert (H : omap (fun c => match c with Frame.CStr z => Ok z | _ => Panic end) (map (cv Frame.TString) arr) = Ok (map sopt arr)).
    { induction arr as [|v r IH]; simpl; auto. rewrite IH. reflexivity. }
    rewrite H. reflexivity.
Qed.

Lemma map_repeat {X Y} (g : X -> Y) x n : map g (repeat x n) = repeat (g x) n.
Proof. induction n as [|n IH]; simpl; auto. f_equal. exact IH. Qed.

(* the encoding of string results used by wrap_result decodes (dec_std) to the strings themselves *)
Lemma dec_strings_wrap vs : dec_strings (map str_ptr vs) (flat_map str_bytes vs) = map sopt vs.
Proof.
  induction vs as [|v r IH]; simpl; auto.
  destruct v; simpl; try (rewrite IH; reflexivity).
  assert (E : (Z.of_nat (length s) <? 0)%Z = false) by (apply Z.ltb_ge; lia). rewrite E.
  rewrite Nat2Z.id.
  assert (Hl : length (map (fun x : N => VZ (Z.of_N x)) s) = length s) by apply map_length.
  rewrite <- Hl at 1. rewrite firstn_app, firstn_all, Nat.sub_diag. simpl firstn. rewrite app_nil_r.
  rewrite <- Hl at 1. rewrite skipn_app, skipn_all, Nat.sub_diag. simpl. rewrite IH.
  f_equal. f_equal. rewrite map_map. unfold val_n. simpl.
  clear. induction s as [|x s IH]; simpl; auto. rewrite N2Z.id, IH. reflexivity.
Qed.

(* ==================================================================== scatter, fused with the production of the values *)
(* The heap loop of Apply reads the cell of index entry k, calls the function and stores the result, entry by
   entry; Model/Ops.v first produces all values (omap) and then scatters them.  [scatter_g] is the fused loop;
   it equals the two-pass form whenever the producer never returns Fail. *)
Fixpoint scatter_g (g : nat -> nat -> outcome Frame.cell) (base : list Frame.cell) (index : list nat) (k : nat)
  : outcome (list Frame.cell) :=
  match index with
  | [] => Ok base
  | p :: r => do v <- g k p; if (p <? length base)%nat then scatter_g g (set_nth base p v) r (S k) else Panic
  end.

Lemma omap_not_fail {X Y} (g : X -> outcome Y) l : (forall x, g x <> Fail) -> omap g l <> Fail.
Proof.
  intro Hg. induction l as [|x l IH]; simpl; [discriminate|].
  pose proof (Hg x) as Hx. destruct (g x); simpl; try congruence.
  destruct (omap g l); simpl; congruence.
Qed.

Lemma omap_scatter (g : nat -> outcome Frame.cell) : (forall p, g p <> Fail) ->
  forall index base k,
  (do vals <- omap g index; Ops.scatter base index vals) = scatter_g (fun _ p => g p) base index k.
Proof.
  intro Hg. induction index as [|p r IH]; intros base k; simpl; auto.
  pose proof (Hg p) as Hp. destruct (g p) as [v| |]; simpl; try congruence.
  destruct (p <? length base) eqn:E.
  - rewrite <- (IH (set_nth base p v) (S k)).
    destruct (omap g r); simpl; rewrite ?E; auto.
  - pose proof (omap_not_fail g r Hg) as Hr. destruct (omap g r); simpl; rewrite ?E; congruence.
Qed.

Lemma stream_scatter (vals : list Frame.cell) : forall index base k,
  Ops.scatter base index (skipn k vals) = scatter_g (fun k _ => of_option (nth_error vals k)) base index k.
Proof.
  induction index as [|p r IH]; intros base k; cbn [Ops.scatter scatter_g]; auto.
  destruct (nth_error vals k) as [v|] eqn:En; cbn [of_option obind].
  - rewrite (skipn_nth_cons _ _ _ En). destruct (p <? length base); [apply IH|reflexivity].
  - rewrite (skipn_none_nil _ _ En). reflexivity.
Qed.

Lemma obind_assoc {X Y Z} (a : outcome X) (g : X -> outcome Y) (h : Y -> outcome Z) :
  (do x <- a; do y <- g x; h y) = (do y <- (do x <- a; g x); h y).
Proof. destruct a; reflexivity. Qed.

Lemma idx_beyond2 {X} (a : list X) i : length a <= i -> idx a i = Panic.
Proof. intro H. unfold idx. replace (nth_error a i) with (@None X); [reflexivity|]. symmetry. apply nth_error_None. exact H. Qed.

Lemma cell_at_beyond d p : Frame.col_len d <= p -> Frame.cell_at d p = Panic.
Proof. intro H. destruct d; simpl in *; rewrite idx_beyond2 by exact H; reflexivity. Qed.

Lemma cell_at_not_fail d p : Frame.cell_at d p <> Fail.
Proof.
  destruct d; simpl; unfold idx; destruct (nth_error _ p); simpl; try discriminate.
  unfold Frame.enum_string. destruct (Frame.enum_is_null n); simpl; [discriminate|].
  unfold idx. destruct (nth_error _ _); simpl; discriminate.
Qed.

(* ==================================================================== cells *)
Lemma cell_val_row st c r : cell_val st c (Z.of_nat (row r)) = cell_val st c r.
Proof. unfold cell_val, row. rewrite Nat2Z.id. reflexivity. Qed.

Lemma cells_val_row st cs r : cells_val st cs (Z.of_nat (row r)) = cells_val st cs r.
Proof. unfold cells_val. induction cs as [|c cs IH]; simpl; auto. rewrite cell_val_row, IH. reflexivity. Qed.

(* a cell read fails only beyond the length of the column's first storage array *)
Lemma cell_val_panic st c r : parts_in_bounds st c -> cell_val st c r = Panic -> col_len c <= row r.
Proof.
  unfold parts_in_bounds, cell_val, col_len, col_data. intros Hp.
  destruct (c_parts c) as [|d rest]; [discriminate|]. inversion Hp as [|? ? [Hd1 Hd2] _]; subst. simpl.
  destruct (row r <? s_len d) eqn:E; [|intros _; apply Nat.ltb_ge; exact E].
  apply Nat.ltb_lt in E. unfold idx.
  destruct (nth_error (read_loc st (s_base d)) (s_off d + row r)) eqn:En; [discriminate|].
  apply nth_error_None in En. lia.
Qed.

Lemma cell_val_ok_lt st c r x : c_parts c <> [] -> cell_val st c r = Ok x -> row r < col_len c.
Proof.
  unfold cell_val, col_len, col_data. destruct (c_parts c) as [|d rest]; [congruence|]. intros _. simpl.
  destruct (row r <? s_len d) eqn:E; [intros _; apply Nat.ltb_lt; exact E|discriminate].
Qed.

(* ==================================================================== the loop of Apply *)
Section ApplyLoop.
  Variable env : fnid -> list val -> val.

  Lemma run_slice_lit t vs n st :
    run env t (slice_lit vs) n st = (mkSlice (t, n) 0 (length vs) (length vs), S n, update st (t, n) vs).
  Proof. reflexivity. Qed.

  (* for _, i := range index { result[i] = fn(cells of row i) } over a result array the program owns *)
  Lemma apply_loop_spec t st0 l len fn srcs tout g :
    lookup st0 l = None -> Forall (parts_in_bounds st0) srcs ->
    forall ixs k n st,
    keeps st0 st -> length (read_loc st l) = len ->
    (forall j i, nth_error ixs j = Some i ->
       match cells_val st0 srcs i with
       | Ok cells => g (k + j) (row i) = Ok (cv tout (scalar (env fn (concat cells))))
       | Panic => g (k + j) (row i) = Panic
       | Fail => False
       end) ->
    exists res st',
      run env t (for_eachO ixs
                   (fun i (_ : unit) => let? cells := cols_cell srcs i in
                                        Call fn (concat cells) (fun v => slice_set (mkSlice l 0 len len) (row i) v)) tt) n st
        = (res, n, st') /\
      keeps st0 st' /\
      (forall q, q <> l -> lookup st' q = lookup st q) /\
      match res with
      | Ok _ => length (read_loc st' l) = len /\
                scatter_g g (map (cv tout) (read_loc st l)) (map row ixs) k = Ok (map (cv tout) (read_loc st' l))
      | Panic => scatter_g g (map (cv tout) (read_loc st l)) (map row ixs) k = Panic
      | Fail => False
      end.
  Proof.
    intros Hl Hsrcs. induction ixs as [|i ixs IH]; intros k n st Hk Hlen Hg.
    - simpl. exists (Ok tt), st. auto.
    - cbn [for_eachO map scatter_g]. rewrite map_length, Hlen.
      pose proof (Hg 0 i eq_refl) as Hg0. rewrite Nat.add_0_r in Hg0.
      rewrite run_bindO_unfold. rewrite run_bindO_unfold. rewrite run_cols_cell.
      rewrite (cells_val_keeps _ _ _ _ Hk Hsrcs).
      destruct (cells_val st0 srcs i) as [cells| |] eqn:Ec.
      + rewrite Hg0. cbn [obind run]. rewrite run_slice_set. cbn [s_len s_base s_off].
        destruct (row i <? len) eqn:E.
        * set (v := scalar (env fn (concat cells))).
          set (st1 := write_loc st l (0 + row i) v).
          assert (Hr1 : read_loc st1 l = set_nth (read_loc st l) (row i) v).
          { unfold st1. rewrite read_write_same. reflexivity. }
          destruct (IH (S k) n st1) as (res & st' & Hrun & Hk' & Hoth & Hres).
          { unfold st1. apply keeps_write; auto. }
          { rewrite Hr1, set_nth_length. exact Hlen. }
          { intros j i' Hj. specialize (Hg (S j) i' Hj). replace (k + S j) with (S k + j) in Hg by lia. exact Hg. }
          exists res, st'. split; [exact Hrun|]. split; [exact Hk'|]. split.
          -- intros q Hq. rewrite Hoth by exact Hq. unfold st1. apply lookup_write_other. exact Hq.
          -- rewrite Hr1, set_nth_map in Hres. exact Hres.
        * exists Panic, st. auto.
      + contradiction.
      + rewrite Hg0. exists Panic, st. auto.
  Qed.
End ApplyLoop.

(* ==================================================================== Apply: result construction and setColumn *)
(* What the theorems about Apply need from the column decoder (dec_std satisfies all three):
   - a column has the length of its first storage array;
   - an int / float / bool result array decodes to the column of its values;
   - the string encoding of wrap_result (lengths or -1, byte blob) decodes to the strings. *)
Record dec_apply_ok (dec : decoder) : Prop := mkDecApplyOk {
  da_len : forall ty parts d, dec ty parts = Some d -> Frame.col_len d = length (hd [] parts);
  da_scalar : forall tout arr, tout = Frame.TInt \/ tout = Frame.TFloat \/ tout = Frame.TBool ->
                               dec (ty_of tout) [arr] = Some (res_col tout arr);
  da_string : forall vs, dec ty_string [map str_ptr vs; flat_map str_bytes vs] = Some (Frame.SCol (map sopt vs))
}.

Lemma dec_std_apply_ok : dec_apply_ok dec_std.
Proof.
  constructor.
  - exact dec_std_len.
  - intros tout arr [H|[H|H]]; subst tout; reflexivity.
  - intro vs. unfold dec_std. simpl. rewrite dec_strings_wrap. reflexivity.
Qed.

Section ApplyTail.
  Variable env : fnid -> list val -> val.
  Variable dec : decoder.
  Hypothesis Hdec : dec_apply_ok dec.

  Lemma heap_col_len st c d : parts_in_bounds st c -> abs_col dec st c = Some d -> Frame.col_len d = col_len c.
  Proof.
    intros Hp Hd. unfold abs_col in Hd. rewrite (da_len _ Hdec _ _ _ Hd).
    unfold col_len, col_data, parts_in_bounds in *. destruct (c_parts c) as [|p0 pr]; simpl; [reflexivity|].
    inversion Hp; subst. apply seg_length. assumption.
  Qed.

  Lemma full_seg st l len : length (read_loc st l) = len -> seg_of st (mkSlice l 0 len len) = read_loc st l.
  Proof. intro H. unfold seg_of, slice_seg. simpl. rewrite <- H. apply firstn_all. Qed.

  Lemma full_in_bounds st l len : length (read_loc st l) = len -> in_bounds st (mkSlice l 0 len len).
  Proof. intro H. split; simpl; lia. Qed.

  (* icolumn.New(result) etc. keep the array; scolumn.New builds pointers and blob *)
  Lemma wrap_result_spec t n st tout l len :
    tout <> Frame.TEnum -> store_fresh t n st -> length (read_loc st l) = len ->
    exists ty parts n' st',
      run env t (wrap_result (ty_of tout) (mkSlice l 0 len len)) n st = ((ty, parts), n', st') /\
      keeps st st' /\ store_fresh t n' st' /\ Forall (in_bounds st') parts /\
      dec ty (map (seg_of st') parts) = Some (res_col tout (read_loc st l)).
  Proof.
    intros Ht Hf Hlen. unfold wrap_result.
    destruct tout; try congruence; cbn [ty_of].
    1-3: (match goal with |- context [(?a =? ty_string)%N] => change (a =? ty_string)%N with false end; cbv iota;
          eexists _, _, n, st; split; [reflexivity|]; split; [apply keeps_refl|]; split; [exact Hf|]; split;
          [constructor; [apply full_in_bounds; exact Hlen|constructor]|]; simpl map; rewrite (full_seg _ _ _ Hlen)).
    - apply (da_scalar _ Hdec Frame.TInt). auto.
    - apply (da_scalar _ Hdec Frame.TFloat). auto.
    - apply (da_scalar _ Hdec Frame.TBool). auto.
    - change (ty_string =? ty_string)%N with true. cbv iota.
      set (vs := read_loc st l).
      set (st1 := update st (t, n) (map str_ptr vs)).
      set (st2 := update st1 (t, S n) (flat_map str_bytes vs)).
      assert (Hfr0 : lookup st (t, n) = None) by (apply Hf; lia).
      assert (Hfr1 : lookup st (t, S n) = None) by (apply Hf; lia).
      assert (Hne : (t, S n) <> (t, n)) by (intro E; inversion E; lia).
      eexists _, _, (S (S n)), st2. split.
      { erewrite run_bind_eq; [|apply run_slice_read]. rewrite (full_seg _ _ _ Hlen). fold vs.
        erewrite run_bind_eq; [|apply run_slice_lit]. fold st1.
        erewrite run_bind_eq; [|apply run_slice_lit]. fold st2. reflexivity. }
      split.
      { eapply keeps_trans; [apply keeps_update; exact Hfr0|]. apply keeps_update.
        unfold st1. rewrite lookup_update_other; auto. }
      split.
      { unfold st2, st1. apply fresh_update, fresh_update. exact Hf. }
      assert (R1 : read_loc st2 (t, n) = map str_ptr vs).
      { unfold st2. rewrite read_update_other by (intro E; inversion E; lia). unfold st1. apply read_update_same. }
      assert (R2 : read_loc st2 (t, S n) = flat_map str_bytes vs) by (unfold st2; apply read_update_same).
      split.
      { constructor; [apply full_in_bounds; rewrite R1; reflexivity|].
        constructor; [apply full_in_bounds; rewrite R2; reflexivity|constructor]. }
      simpl map. rewrite (full_seg st2 (t, n) _ (f_equal (@length _) R1)), (full_seg st2 (t, S n) _ (f_equal (@length _) R2)).
      rewrite R1, R2.
      apply (da_string _ Hdec).
  Qed.

  (* the common tail of apply0 / apply1 / apply2 with a function: result array, loop, column, setColumn *)
  Lemma apply_tail_spec t n st qf f fn tout srcs len name_ok dst g :
    ref_ok dec st qf -> abs1 dec st qf = Some f -> store_fresh t n st ->
    tout <> Frame.TEnum -> Forall (parts_in_bounds st) srcs -> name_ok = Ops.check_name dst ->
    (forall j i, nth_error (map as_z (seg_of st (q_idx qf))) j = Some i ->
       match cells_val st srcs i with
       | Ok cells => g j (row i) = Ok (cv tout (scalar (env fn (concat cells))))
       | Panic => g j (row i) = Panic
       | Fail => False
       end) ->
    exists res n' st',
      run env t (let? tmp := apply_loop fn (ty_of tout) len srcs qf in
                 let* w := wrap_result (ty_of tout) tmp in
                 set_column name_ok dst (fst w) (snd w) qf) n st = (res, n', st') /\
      keeps st st' /\ store_fresh t n' st' /\
      match res with
      | Ok qf' => ref_ok dec st' qf' /\
                  exists cells d, scatter_g g (repeat (Ops.zero_cell tout) len) (Frame.ix f) 0 = Ok cells /\
                                  Ops.col_of_cells tout cells = Ok d /\
                                  abs1 dec st' qf' = Some (Ops.set_column f dst d)
      | Panic => scatter_g g (repeat (Ops.zero_cell tout) len) (Frame.ix f) 0 = Panic
      | Fail => False
      end.
  Proof.
    intros Hok Habs Hf Ht Hsrcs Hname Hg. destruct (abs1_inv _ _ _ _ Habs) as (Hc & Hi & He).
    set (l := (t, n)).
    set (st1 := update st l (repeat (zero_of (ty_of tout)) len)).
    assert (Hfr : lookup st l = None) by (apply Hf; lia).
    assert (Hk1 : keeps st st1) by (apply keeps_update; exact Hfr).
    assert (Hr1 : read_loc st1 l = repeat (zero_of (ty_of tout)) len) by (unfold st1; apply read_update_same).
    set (ixs := map as_z (seg_of st (q_idx qf))).
    destruct (apply_loop_spec env t st l len fn srcs tout g Hfr Hsrcs ixs 0 (S n) st1 Hk1) as (res & st2 & Hloop & Hk2 & Hoth & Hres).
    { rewrite Hr1, repeat_length. reflexivity. }
    { exact Hg. }
    assert (Hf2 : store_fresh t (S n) st2).
    { intros k Hk. rewrite Hoth by (intro E; inversion E; lia). unfold st1. apply (fresh_update t n); auto. }
    assert (Ebase : map (cv tout) (read_loc st1 l) = repeat (Ops.zero_cell tout) len).
    { rewrite Hr1, map_repeat, cv_zero. reflexivity. }
    assert (Eix : map row ixs = Frame.ix f).
    { rewrite Hi. unfold ixs, abs_ix. rewrite map_map. reflexivity. }
    rewrite Ebase, Eix in Hres.
    assert (Hrun0 : run env t (apply_loop fn (ty_of tout) len srcs qf) n st
                    = (match res with Ok _ => Ok (mkSlice l 0 len len) | Fail => Fail | Panic => Panic end, S n, st2)).
    { unfold apply_loop. erewrite run_bind_eq; [|apply run_make]. fold l st1.
      erewrite run_bind_eq; [|apply run_read_zs]. rewrite (seg_keeps_eq _ _ _ Hk1 (ro_idx _ _ _ Hok)). fold ixs.
      rewrite run_bindO_unfold, Hloop. destruct res; reflexivity. }
    destruct res as [u| |].
    - destruct Hres as [Hlen2 Hsc].
      destruct (wrap_result_spec t (S n) st2 tout l len Ht Hf2 Hlen2)
        as (ty & parts & n3 & st3 & Hwrap & Hk3 & Hf3 & Hparts & Hd).
      assert (Hk13 : keeps st st3) by (eapply keeps_trans; eauto).
      destruct (refines_set_column env dec t n3 st3 qf f name_ok dst ty parts (res_col tout (read_loc st2 l)))
        as (qf' & n' & st' & Hrun & Hk' & Hf' & Hok' & Habs'); auto.
      { eapply ref_ok_keeps; eauto. }
      { rewrite (abs1_keeps _ _ _ _ Hk13 Hok). exact Habs. }
      exists (Ok qf'), n', st'. split; [|split; [eapply keeps_trans; eauto|split; [exact Hf'|split; [exact Hok'|]]]].
      + erewrite run_bindO_ok; [|exact Hrun0]. erewrite run_bind_eq; [|exact Hwrap]. exact Hrun.
      + exists (map (cv tout) (read_loc st2 l)), (res_col tout (read_loc st2 l)).
        split; [exact Hsc|]. split; [apply col_of_cells_cv; exact Ht|exact Habs'].
    - contradiction.
    - exists Panic, (S n), st2. split; [|split; [exact Hk2|split; [exact Hf2|exact Hres]]].
      erewrite run_bindO_panic; [reflexivity|exact Hrun0].
  Qed.
End ApplyTail.

(* ==================================================================== Apply with a user function *)
Lemma ctype_eqb_refl t : Frame.ctype_eqb t t = true.
Proof. destruct t; reflexivity. Qed.
Lemma ctype_eqb_neq t u : t <> u -> Frame.ctype_eqb t u = false.
Proof. destruct t, u; simpl; congruence. Qed.
Lemma col_ftype_not_enum d : Frame.col_ftype d <> Frame.TEnum.
Proof. destruct d; discriminate. Qed.

Lemma tbl1_not_fail tbl x : Ops.tbl1 tbl x <> Fail.
Proof. unfold Ops.tbl1. destruct (find _ tbl); discriminate. Qed.
Lemma tbl2_not_fail tbl x y : Ops.tbl2 tbl x y <> Fail.
Proof. unfold Ops.tbl2. destruct (find _ tbl); discriminate. Qed.

(* what Column.Apply1 / Apply2 compute per row of the index *)
Definition row_fn1 (d : Frame.coldata) (tbl : list (Frame.cell * Frame.cell)) (p : nat) : outcome Frame.cell :=
  do x <- Frame.cell_at d p; Ops.tbl1 tbl x.
Definition row_fn2 (d1 d2 : Frame.coldata) (tbl : list (Frame.cell * Frame.cell * Frame.cell)) (p : nat) : outcome Frame.cell :=
  do x <- Frame.cell_at d1 p; do y <- Frame.cell_at d2 p; Ops.tbl2 tbl x y.

Lemma row_fn1_not_fail d tbl p : row_fn1 d tbl p <> Fail.
Proof.
  unfold row_fn1. pose proof (cell_at_not_fail d p). destruct (Frame.cell_at d p); simpl; try congruence. apply tbl1_not_fail.
Qed.
Lemma row_fn2_not_fail d1 d2 tbl p : row_fn2 d1 d2 tbl p <> Fail.
Proof.
  unfold row_fn2. pose proof (cell_at_not_fail d1 p). destruct (Frame.cell_at d1 p); simpl; try congruence.
  pose proof (cell_at_not_fail d2 p). destruct (Frame.cell_at d2 p); simpl; try congruence. apply tbl2_not_fail.
Qed.

Lemma apply1_l0 ut f tin tout tbl dst src d :
  Frame.ferr f = false -> Frame.lookup_col f src = Some d -> Frame.col_ftype d = tin -> tout <> Frame.TEnum ->
  Ops.apply1 ut f (Ops.F1 tin tout tbl) dst src =
  match (do cells <- scatter_g (fun _ p => row_fn1 d tbl p) (repeat (Ops.zero_cell tout) (Frame.col_len d)) (Frame.ix f) 0;
         Ops.col_of_cells tout cells) with
  | Ok r => Ok (Ops.set_column f dst r) | Fail => Ok (Frame.with_err f) | Panic => Panic
  end.
Proof.
  intros He Hl Hft Ht. unfold Ops.apply1. rewrite He, Hl. unfold Ops.col_apply1.
  rewrite Hft, ctype_eqb_refl, (ctype_eqb_neq _ _ Ht). cbn [negb andb].
  rewrite obind_assoc. fold (row_fn1 d tbl).
  rewrite (omap_scatter (row_fn1 d tbl) (row_fn1_not_fail d tbl) _ _ 0). reflexivity.
Qed.

Lemma apply2_l0 f t tbl dst src1 src2 d1 d2 :
  Frame.ferr f = false -> Frame.lookup_col f src1 = Some d1 -> Frame.lookup_col f src2 = Some d2 ->
  Frame.col_type d1 = Frame.col_type d2 -> Frame.col_ftype d1 = t ->
  Ops.apply2 f (Ops.F2 t tbl) dst src1 src2 =
  match (do cells <- scatter_g (fun _ p => row_fn2 d1 d2 tbl p) (repeat (Ops.zero_cell t) (Frame.col_len d1)) (Frame.ix f) 0;
         Ops.col_of_cells t cells) with
  | Ok r => Ok (Ops.set_column f dst r) | Fail => Ok (Frame.with_err f) | Panic => Panic
  end.
Proof.
  intros He Hl1 Hl2 Hty Hft. unfold Ops.apply2. rewrite He, Hl1, Hl2. unfold Ops.col_apply2.
  rewrite Hty, ctype_eqb_refl, Hft, ctype_eqb_refl. cbn [negb].
  rewrite obind_assoc. fold (row_fn2 d1 d2 tbl).
  rewrite (omap_scatter (row_fn2 d1 d2 tbl) (row_fn2_not_fail d1 d2 tbl) _ _ 0). reflexivity.
Qed.

Lemma apply0_l0 f tout vals dst :
  Frame.ferr f = false -> tout <> Frame.TEnum ->
  Ops.apply0 f (Ops.F0Stream tout vals) dst =
  (do cells <- scatter_g (fun k _ => of_option (nth_error vals k)) (repeat (Ops.zero_cell tout) (Frame.phys_len f)) (Frame.ix f) 0;
   do c <- Ops.col_of_cells tout cells; Ok (Ops.set_column f dst c)).
Proof.
  intros He Ht. unfold Ops.apply0. rewrite He, (ctype_eqb_neq _ _ Ht).
  rewrite <- stream_scatter. reflexivity.
Qed.

Section ApplyRefine.
  Variable env : fnid -> list val -> val.
  Variable dec : decoder.
  Hypothesis Hdec : dec_apply_ok dec.

  (* THE LINK between the callback oracle of the heap run and the function table of the L0 model, for the rows
     of the index: whenever the heap program reads the cell(s) of row p and calls fn on them, the L0 column has
     a cell at p, the table has an entry for it, and the entry is the L0 reading (cv) of what the oracle answers. *)
  Definition link1 (st : store) (c : col) (d : Frame.coldata) (fn : fnid) (tout : Frame.ctype)
             (tbl : list (Frame.cell * Frame.cell)) (index : list nat) : Prop :=
    forall p, In p index -> forall cell, cell_val st c (Z.of_nat p) = Ok cell ->
      exists x, Frame.cell_at d p = Ok x /\ Ops.tbl1 tbl x = Ok (cv tout (scalar (env fn cell))).

  Definition link2 (st : store) (c1 c2 : col) (d1 d2 : Frame.coldata) (fn : fnid) (tout : Frame.ctype)
             (tbl : list (Frame.cell * Frame.cell * Frame.cell)) (index : list nat) : Prop :=
    forall p, In p index -> forall cell1 cell2,
      cell_val st c1 (Z.of_nat p) = Ok cell1 -> cell_val st c2 (Z.of_nat p) = Ok cell2 ->
      exists x y, Frame.cell_at d1 p = Ok x /\ Frame.cell_at d2 p = Ok y /\
                  Ops.tbl2 tbl x y = Ok (cv tout (scalar (env fn (cell1 ++ cell2)))).

  (* func() T: the heap oracle is a pure function of the (empty) argument list, so the stream of the L0 model
     has to repeat its answer over the rows of the index *)
  Definition link0 (fn : fnid) (tout : Frame.ctype) (vals : list Frame.cell) (index : list nat) : Prop :=
    forall k, k < length index -> nth_error vals k = Some (cv tout (scalar (env fn []))).

  Lemma ix_in st qf f j i :
    Frame.ix f = abs_ix st (q_idx qf) -> nth_error (map as_z (seg_of st (q_idx qf))) j = Some i -> In (row i) (Frame.ix f).
  Proof.
    intros Hi Hj. rewrite Hi. unfold abs_ix. rewrite <- (map_map as_z row). apply in_map. eapply nth_error_In; eauto.
  Qed.

  Lemma by_name_l0 st qf f name :
    ref_ok dec st qf -> abs1 dec st qf = Some f ->
    match map_get (map_of st (q_map qf)) name, Frame.lookup_col f name with
    | None, None => True
    | Some c, Some d => abs_col dec st c = Some d /\ parts_in_bounds st c
    | _, _ => False
    end.
  Proof.
    intros Hok Habs. destruct (abs1_inv _ _ _ _ Habs) as (Hc & _ & _).
    pose proof (ro_map _ _ _ Hok _ Hc name) as Hrel. rewrite lookup_from_last in Hrel.
    rewrite lookup_col_last. unfold lcol.
    destruct (map_get (map_of st (q_map qf)) name) as [c|] eqn:Eg;
      destruct (last_match name (Frame.cols f)) as [[p d]|]; simpl; auto.
    destruct Hrel as (_ & _ & R3). split; [exact R3|].
    eapply map_get_parts; [apply (ro_mparts _ _ _ Hok)|exact Eg].
  Qed.

  Theorem refines_apply1 ut t n st qf f a src fn tin tout tbl :
    ref_ok dec st qf -> abs1 dec st qf = Some f -> store_fresh t n st ->
    i_fn a = FnCall fn (ty_of tout) -> tout <> Frame.TEnum -> i_name_ok a = Ops.check_name (i_dst a) ->
    (forall c d, map_get (map_of st (q_map qf)) src = Some c -> Frame.lookup_col f src = Some d ->
                 Frame.col_ftype d = tin /\ link1 st c d fn tout tbl (Frame.ix f)) ->
    exists res n' st',
      run env t (apply1 a src qf) n st = (res, n', st') /\ keeps st st' /\ store_fresh t n' st' /\
      match res with
      | Ok qf' => ref_ok dec st' qf' /\
                  exists f', Ops.apply1 ut f (Ops.F1 tin tout tbl) (i_dst a) src = Ok f' /\ abs1 dec st' qf' = Some f'
      | Panic => Ops.apply1 ut f (Ops.F1 tin tout tbl) (i_dst a) src = Panic
      | Fail => False
      end.
  Proof.
    intros Hok Habs Hf Hfn Ht Hname Hlink. destruct (abs1_inv _ _ _ _ Habs) as (Hc & Hi & He).
    unfold apply1. destruct (q_err qf) eqn:Eerr.
    { exists (Ok qf), n, st. split; [reflexivity|]. split; [apply keeps_refl|]. split; [exact Hf|]. split; [exact Hok|].
      exists f. split; [unfold Ops.apply1; rewrite He; reflexivity|exact Habs]. }
    unfold by_name. erewrite run_bind_eq; [|apply run_by_name_m].
    pose proof (by_name_l0 st qf f src Hok Habs) as Hbn.
    destruct (map_get (map_of st (q_map qf)) src) as [c|] eqn:Eg;
      destruct (Frame.lookup_col f src) as [d|] eqn:El; try contradiction.
    2:{ exists (Ok (with_err qf)), n, st. split; [reflexivity|]. split; [apply keeps_refl|]. split; [exact Hf|].
        split; [apply with_err_ok; exact Hok|]. exists (Frame.with_err f).
        split; [unfold Ops.apply1; rewrite He, El; reflexivity|apply with_err_abs; exact Habs]. }
    destruct Hbn as [Hd Hpc]. destruct (Hlink c d eq_refl eq_refl) as [Hft Hl1].
    rewrite Hfn. rewrite (apply1_l0 ut f tin tout tbl (i_dst a) src d He El Hft Ht).
    rewrite (heap_col_len dec Hdec st c d Hpc Hd).
    destruct (apply_tail_spec env dec Hdec t n st qf f fn tout [c] (col_len c) (i_name_ok a) (i_dst a)
                (fun _ p => row_fn1 d tbl p) Hok Habs Hf Ht) as (res & n' & st' & Hrun & Hk & Hf' & Hres).
    { constructor; [exact Hpc|constructor]. }
    { exact Hname. }
    { intros j i Hj. unfold cells_val. simpl omap.
      pose proof (ix_in st qf f j i Hi Hj) as Hin.
      destruct (cell_val st c i) as [cell| |] eqn:Ecv; simpl.
      - destruct (Hl1 (row i) Hin cell) as (x & Hx & Htb); [rewrite cell_val_row; exact Ecv|].
        unfold row_fn1. rewrite Hx. simpl. rewrite app_nil_r. exact Htb.
      - exact (cell_val_not_fail _ _ _ Ecv).
      - unfold row_fn1. rewrite cell_at_beyond; [reflexivity|].
        rewrite (heap_col_len dec Hdec st c d Hpc Hd). apply (cell_val_panic st c i Hpc Ecv). }
    exists res, n', st'. split; [exact Hrun|]. split; [exact Hk|]. split; [exact Hf'|].
    destruct res as [qf'| |]; auto.
    - destruct Hres as (Hok' & cells & d' & Hsc & Hcc & Habs'). split; [exact Hok'|].
      exists (Ops.set_column f (i_dst a) d'). rewrite Hsc. simpl. rewrite Hcc. auto.
    - rewrite Hres. reflexivity.
  Qed.

  Theorem refines_apply2 t n st qf f a src1 src2 fn tout tbl :
    ref_ok dec st qf -> abs1 dec st qf = Some f -> store_fresh t n st ->
    i_fn a = FnCall fn (ty_of tout) -> i_name_ok a = Ops.check_name (i_dst a) ->
    (forall c1 c2 d1 d2,
        map_get (map_of st (q_map qf)) src1 = Some c1 -> map_get (map_of st (q_map qf)) src2 = Some c2 ->
        Frame.lookup_col f src1 = Some d1 -> Frame.lookup_col f src2 = Some d2 ->
        Frame.col_type d1 = Frame.col_type d2 /\ Frame.col_ftype d1 = tout /\
        link2 st c1 c2 d1 d2 fn tout tbl (Frame.ix f)) ->
    exists res n' st',
      run env t (apply2 a src1 src2 qf) n st = (res, n', st') /\ keeps st st' /\ store_fresh t n' st' /\
      match res with
      | Ok qf' => ref_ok dec st' qf' /\
                  exists f', Ops.apply2 f (Ops.F2 tout tbl) (i_dst a) src1 src2 = Ok f' /\ abs1 dec st' qf' = Some f'
      | Panic => Ops.apply2 f (Ops.F2 tout tbl) (i_dst a) src1 src2 = Panic
      | Fail => False
      end.
  Proof.
    intros Hok Habs Hf Hfn Hname Hlink. destruct (abs1_inv _ _ _ _ Habs) as (Hc & Hi & He).
    unfold apply2. destruct (q_err qf) eqn:Eerr.
    { exists (Ok qf), n, st. split; [reflexivity|]. split; [apply keeps_refl|]. split; [exact Hf|]. split; [exact Hok|].
      exists f. split; [unfold Ops.apply2; rewrite He; reflexivity|exact Habs]. }
    assert (Herr : forall (o1 o2 : option Frame.coldata), (o1 = None \/ o2 = None) ->
               Frame.lookup_col f src1 = o1 -> Frame.lookup_col f src2 = o2 ->
               exists res n' st', (Ok (with_err qf), n, st) = (res, n', st') /\ keeps st st' /\ store_fresh t n' st' /\
                 match res with
                 | Ok qf' => ref_ok dec st' qf' /\
                             exists f', Ops.apply2 f (Ops.F2 tout tbl) (i_dst a) src1 src2 = Ok f' /\ abs1 dec st' qf' = Some f'
                 | Panic => Ops.apply2 f (Ops.F2 tout tbl) (i_dst a) src1 src2 = Panic
                 | Fail => False
                 end).
    { intros o1 o2 Ho E1 E2. exists (Ok (with_err qf)), n, st. split; [reflexivity|]. split; [apply keeps_refl|].
      split; [exact Hf|]. split; [apply with_err_ok; exact Hok|]. exists (Frame.with_err f).
      split; [|apply with_err_abs; exact Habs]. unfold Ops.apply2. rewrite He, E1, E2.
      destruct Ho as [->| ->]; [reflexivity|destruct o1; reflexivity]. }
    unfold by_name. erewrite run_bind_eq; [|apply run_by_name_m].
    pose proof (by_name_l0 st qf f src1 Hok Habs) as Hbn1.
    destruct (map_get (map_of st (q_map qf)) src1) as [c1|] eqn:Eg1;
      destruct (Frame.lookup_col f src1) as [d1|] eqn:El1; try contradiction.
    2:{ simpl. apply (Herr None (Frame.lookup_col f src2)); auto. }
    erewrite run_bind_eq; [|apply run_by_name_m].
    pose proof (by_name_l0 st qf f src2 Hok Habs) as Hbn2.
    destruct (map_get (map_of st (q_map qf)) src2) as [c2|] eqn:Eg2;
      destruct (Frame.lookup_col f src2) as [d2|] eqn:El2; try contradiction.
    2:{ simpl. apply (Herr (Some d1) None); auto. }
    clear Herr. destruct Hbn1 as [Hd1 Hp1]. destruct Hbn2 as [Hd2 Hp2].
    destruct (Hlink c1 c2 d1 d2 eq_refl eq_refl eq_refl eq_refl) as (Hty & Hft & Hl2).
    assert (Ht : tout <> Frame.TEnum) by (rewrite <- Hft; apply col_ftype_not_enum).
    rewrite Hfn. rewrite (apply2_l0 f tout tbl (i_dst a) src1 src2 d1 d2 He El1 El2 Hty Hft).
    rewrite (heap_col_len dec Hdec st c1 d1 Hp1 Hd1).
    destruct (apply_tail_spec env dec Hdec t n st qf f fn tout [c1; c2] (col_len c1) (i_name_ok a) (i_dst a)
                (fun _ p => row_fn2 d1 d2 tbl p) Hok Habs Hf Ht) as (res & n' & st' & Hrun & Hk & Hf' & Hres).
    { constructor; [exact Hp1|constructor; [exact Hp2|constructor]]. }
    { exact Hname. }
    { intros j i Hj. unfold cells_val. simpl omap.
      pose proof (ix_in st qf f j i Hi Hj) as Hin.
      destruct (cell_val st c1 i) as [cell1| |] eqn:Ecv1; simpl.
      - destruct (cell_val st c2 i) as [cell2| |] eqn:Ecv2; simpl.
        + destruct (Hl2 (row i) Hin cell1 cell2) as (x & y & Hx & Hy & Htb);
            [rewrite cell_val_row; exact Ecv1|rewrite cell_val_row; exact Ecv2|].
          unfold row_fn2. rewrite Hx, Hy. simpl. rewrite app_nil_r. exact Htb.
        + exact (cell_val_not_fail _ _ _ Ecv2).
        + unfold row_fn2. rewrite (cell_at_beyond d2).
          * pose proof (cell_at_not_fail d1 (row i)). destruct (Frame.cell_at d1 (row i)); simpl; congruence.
          * rewrite (heap_col_len dec Hdec st c2 d2 Hp2 Hd2). apply (cell_val_panic st c2 i Hp2 Ecv2).
      - exact (cell_val_not_fail _ _ _ Ecv1).
      - unfold row_fn2. rewrite cell_at_beyond; [reflexivity|].
        rewrite (heap_col_len dec Hdec st c1 d1 Hp1 Hd1). apply (cell_val_panic st c1 i Hp1 Ecv1). }
    exists res, n', st'. split; [exact Hrun|]. split; [exact Hk|]. split; [exact Hf'|].
    destruct res as [qf'| |]; auto.
    - destruct Hres as (Hok' & cells & d' & Hsc & Hcc & Habs'). split; [exact Hok'|].
      exists (Ops.set_column f (i_dst a) d'). rewrite Hsc. simpl. rewrite Hcc. auto.
    - rewrite Hres. reflexivity.
  Qed.

  Lemma dec_int_of : forall arr, dec ty_int [arr] = Some (Frame.ICol (map as_z arr)).
  Proof. intro arr. apply (da_scalar _ Hdec Frame.TInt). auto. Qed.

  Theorem refines_apply0 t n st qf f a fn tout vals :
    ref_ok dec st qf -> abs1 dec st qf = Some f -> store_fresh t n st ->
    i_fn a = FnCall fn (ty_of tout) -> tout <> Frame.TEnum -> i_name_ok a = Ops.check_name (i_dst a) ->
    link0 fn tout vals (Frame.ix f) ->
    exists res n' st',
      run env t (apply0 a qf) n st = (res, n', st') /\ keeps st st' /\ store_fresh t n' st' /\
      match res with
      | Ok qf' => ref_ok dec st' qf' /\
                  exists f', Ops.apply0 f (Ops.F0Stream tout vals) (i_dst a) = Ok f' /\ abs1 dec st' qf' = Some f'
      | Panic => Ops.apply0 f (Ops.F0Stream tout vals) (i_dst a) = Panic
      | Fail => False
      end.
  Proof.
    intros Hok Habs Hf Hfn Ht Hname Hlink. destruct (abs1_inv _ _ _ _ Habs) as (Hc & Hi & He).
    unfold apply0. destruct (q_err qf) eqn:Eerr.
    { exists (Ok qf), n, st. split; [reflexivity|]. split; [apply keeps_refl|]. split; [exact Hf|]. split; [exact Hok|].
      exists f. split; [unfold Ops.apply0; rewrite He; reflexivity|exact Habs]. }
    erewrite run_bindO_ok; [|apply (first_col_len_spec env dec dec_int_of (da_len _ Hdec) t n st qf f Hok Habs)].
    rewrite Hfn. rewrite (apply0_l0 f tout vals (i_dst a) He Ht).
    destruct (apply_tail_spec env dec Hdec t n st qf f fn tout [] (Frame.phys_len f) (i_name_ok a) (i_dst a)
                (fun k _ => of_option (nth_error vals k)) Hok Habs Hf Ht) as (res & n' & st' & Hrun & Hk & Hf' & Hres).
    { constructor. }
    { exact Hname. }
    { intros j i Hj. simpl.
      rewrite (Hlink j); [reflexivity|].
      rewrite Hi, (abs_ix_length _ _ (ro_idx _ _ _ Hok)), <- (seg_length _ _ (ro_idx _ _ _ Hok)), <- (map_length as_z).
      apply nth_error_Some. congruence. }
    exists res, n', st'. split; [exact Hrun|]. split; [exact Hk|]. split; [exact Hf'|].
    destruct res as [qf'| |]; auto.
    - destruct Hres as (Hok' & cells & d' & Hsc & Hcc & Habs'). split; [exact Hok'|].
      exists (Ops.set_column f (i_dst a) d'). rewrite Hsc. simpl. rewrite Hcc. auto.
    - rewrite Hres. reflexivity.
  Qed.

  (* apply0 with a types.ColumnName: Copy *)
  Theorem refines_apply0_colname t n st qf f a src :
    ref_ok dec st qf -> abs1 dec st qf = Some f -> store_fresh t n st ->
    i_fn a = FnColName src -> i_name_ok a = Ops.check_name (i_dst a) ->
    exists qf' n' st',
      run env t (apply0 a qf) n st = (Ok qf', n', st') /\ keeps st st' /\ store_fresh t n' st' /\
      ref_ok dec st' qf' /\
      exists f', Ops.apply0 f (Ops.F0ColName src) (i_dst a) = Ok f' /\ abs1 dec st' qf' = Some f'.
  Proof.
    intros Hok Habs Hf Hfn Hname. destruct (abs1_inv _ _ _ _ Habs) as (Hc & Hi & He).
    unfold apply0, Ops.apply0. rewrite He. destruct (q_err qf) eqn:Eerr.
    { exists qf, n, st. split; [reflexivity|]. split; [apply keeps_refl|]. split; [exact Hf|]. split; [exact Hok|].
      exists f. auto. }
    erewrite run_bindO_ok; [|apply (first_col_len_spec env dec dec_int_of (da_len _ Hdec) t n st qf f Hok Habs)].
    rewrite Hfn.
    destruct (refines_copy env dec t n st qf f (i_name_ok a) (i_dst a) src Hok Habs Hf Hname)
      as (qf' & n' & st' & Hrun & Hk & Hf' & Hok' & Habs').
    exists qf', n', st'. split; [exact Hrun|]. split; [exact Hk|]. split; [exact Hf'|]. split; [exact Hok'|].
    exists (Ops.copy f (i_dst a) src). auto.
  Qed.
End ApplyRefine.

(* ==================================================================== FilteredApply *)
(* `newQf := qf; newQf.index = filteredQf.index; newQf = newQf.Apply(...); newQf.index = qf.index`:
   the two assignments act on a struct COPY; at L0 they are with_ix.  The theorem composes ANY refinement of the
   Filter step and ANY refinement of the Apply step (premises in the shape of the conclusions of the theorems
   about op_filter / apply0 / apply1 / apply2) into the refinement of FilteredApply. *)
Section FilteredApply.
  Variable env : fnid -> list val -> val.
  Variable dec : decoder.

  (* the struct copy with the filtered index swapped in *)
  Lemma swap_index st qf fq f ff :
    ref_ok dec st qf -> ref_ok dec st fq -> abs1 dec st qf = Some f -> abs1 dec st fq = Some ff ->
    ref_ok dec st (with_index qf (q_idx fq)) /\
    abs1 dec st (with_index qf (q_idx fq)) = Some (Frame.with_ix f (Frame.ix ff)).
  Proof.
    intros Hq Hfq Ha Hfa. destruct (abs1_inv _ _ _ _ Hfa) as (_ & Hi & _). split.
    - apply with_index_ok; [exact Hq|apply (ro_idx _ _ _ Hfq)].
    - rewrite (with_index_abs dec st qf f (q_idx fq) Ha), Hi. reflexivity.
  Qed.

  Theorem refines_filtered_apply mt ut t n st qf f c cl instrs is rf n1 st1 :
    ref_ok dec st qf -> abs1 dec st qf = Some f ->
    (* the Filter step and its refinement *)
    run env t (op_filter c qf) n st = (rf, n1, st1) -> keeps st st1 ->
    match rf with
    | Ok fq => ref_ok dec st1 fq /\ exists ff, Filter.frame_filter mt f cl = Ok ff /\ abs1 dec st1 fq = Some ff
    | Panic => Filter.frame_filter mt f cl = Panic
    | Fail => False
    end ->
    (* the Apply step on the struct copy, and its refinement *)
    (forall fq ff, rf = Ok fq -> abs1 dec st1 fq = Some ff -> q_err fq = false ->
       exists ra n2 st2,
         run env t (op_apply instrs (with_index qf (q_idx fq))) n1 st1 = (ra, n2, st2) /\ keeps st1 st2 /\
         match ra with
         | Ok nq => ref_ok dec st2 nq /\
                    exists r, Ops.apply ut (Frame.with_ix f (Frame.ix ff)) is = Ok r /\ abs1 dec st2 nq = Some r
         | Panic => Ops.apply ut (Frame.with_ix f (Frame.ix ff)) is = Panic
         | Fail => False
         end) ->
    exists res n' st',
      run env t (op_filtered_apply c instrs qf) n st = (res, n', st') /\ keeps st st' /\
      match res with
      | Ok q' => ref_ok dec st' q' /\
                 exists r, Ops.filtered_apply mt ut f cl is = Ok r /\ abs1 dec st' q' = Some r
      | Panic => Ops.filtered_apply mt ut f cl is = Panic
      | Fail => False
      end.
  Proof.
    intros Hok Habs Hfilter Hk1 Hrf Happly. destruct (abs1_inv _ _ _ _ Habs) as (_ & Hi & _).
    unfold op_filtered_apply, Ops.filtered_apply. rewrite run_bindO_unfold, Hfilter.
    destruct rf as [fq| |].
    - destruct Hrf as (Hokq & ff & Hff & Habsq). rewrite Hff. cbn [obind].
      destruct (abs1_inv _ _ _ _ Habsq) as (_ & _ & Heq). rewrite Heq.
      destruct (q_err fq) eqn:Eerr.
      + exists (Ok fq), n1, st1. split; [reflexivity|]. split; [exact Hk1|]. split; [exact Hokq|]. exists ff. auto.
      + destruct (Happly fq ff eq_refl Habsq Eerr) as (ra & n2 & st2 & Hrun & Hk2 & Hra).
        rewrite run_bindO_unfold, Hrun.
        assert (Hk : keeps st st2) by (eapply keeps_trans; eauto).
        destruct ra as [nq| |].
        * destruct Hra as (Hoknq & r & Hr & Habsr).
          exists (Ok (with_index nq (q_idx qf))), n2, st2. split; [reflexivity|]. split; [exact Hk|]. split.
          -- apply with_index_ok; [exact Hoknq|]. eapply in_bounds_keeps; [exact Hk|apply (ro_idx _ _ _ Hok)].
          -- exists (Frame.with_ix r (Frame.ix f)). rewrite Hr. cbn [obind]. split; [reflexivity|].
             rewrite (with_index_abs dec st2 nq r (q_idx qf) Habsr).
             unfold abs_ix. rewrite (seg_keeps_eq _ _ _ Hk (ro_idx _ _ _ Hok)). fold (abs_ix st (q_idx qf)).
             rewrite <- Hi. reflexivity.
        * contradiction.
        * exists Panic, n2, st2. split; [reflexivity|]. split; [exact Hk|]. rewrite Hra. reflexivity.
    - contradiction.
    - exists Panic, n1, st1. split; [reflexivity|]. split; [exact Hk1|]. rewrite Hrf. reflexivity.
  Qed.

  (* Apply of a single instruction is that instruction *)
  Lemma op_apply_single t a qf n st :
    run env t (op_apply [a] qf) n st = run env t (apply_instr a qf) n st.
  Proof.
    unfold op_apply. cbn [for_eachO]. rewrite run_bindO_unfold.
    destruct (run env t (apply_instr a qf) n st) as [[[q| |] n'] st']; reflexivity.
  Qed.
End FilteredApply.

(* ==================================================================== QFrame.filter: the shared mask *)
From QF Require Proofs.FilterProofs.
Notation mask_or := FilterProofs.mask_or.

Lemma mask_or_cons x b y s : mask_or (x :: b) (y :: s) = (x || y)%bool :: mask_or b s.
Proof. reflexivity. Qed.
Lemma mask_or_nil : mask_or [] [] = [].
Proof. reflexivity. Qed.

Section MaskLoop.
  Variable env : fnid -> list val -> val.

  Definition opt_cell_val (st : store) (oc : option col) (r : Z) : outcome (list val) :=
    match oc with Some c => cell_val st c r | None => Ok [] end.

  Lemma run_opt_cell t oc r n st : run env t (opt_cell oc r) n st = (opt_cell_val st oc r, n, st).
  Proof. destruct oc as [c|]; [apply run_col_cell|reflexivity]. Qed.

  Lemma run_get_b t s i n st :
    run env t (get_b s i) n st =
    (match get_val st s i with Ok v => Ok (as_b v) | Fail => Fail | Panic => Panic end, n, st).
  Proof. unfold get_b. rewrite (run_bind_eq env _ _ _ _ _ _ _ _ (run_slice_get env t s i n st)). reflexivity. Qed.

  (* the value Column.Filter writes for physical row r: the custom function (oracle) or the built-in predicate *)
  Definition base_val (hl : leaf) (use_inv : bool) (r : Z) (cell acell : list val) : bool :=
    match lf_call hl with
    | Some fn => as_b (scalar (env fn (cell ++ acell)))
    | None => if use_inv then lf_pred_inv hl r cell acell else lf_pred hl r cell acell
    end.

  Definition row_val (st : store) (hl : leaf) (use_inv : bool) (c : col) (argc : option col) (r : Z) : outcome bool :=
    do cell <- cell_val st c r; do acell <- opt_cell_val st argc r; Ok (base_val hl use_inv r cell acell).

  (* the matcher buffer: nil, or an array the filter allocated itself (never the mask) *)
  Definition buf_inv (st0 : store) (lb : loc) (buf : slice) : Prop :=
    s_len buf = 0 \/ (lookup st0 (s_base buf) = None /\ s_base buf <> lb).

  Lemma matcher_touch_spec t st0 lb buf need n st arr :
    keeps st0 st -> store_fresh t n st -> buf_inv st0 lb buf -> lookup st lb = Some arr ->
    exists buf' n' st',
      run env t (matcher_touch buf need) n st = (buf', n', st') /\
      keeps st0 st' /\ store_fresh t n' st' /\ buf_inv st0 lb buf' /\ lookup st' lb = Some arr /\ n <= n'.
  Proof.
    intros Hk Hf Hb Hl. unfold matcher_touch.
    destruct (need =? 0) eqn:E0.
    { exists buf, n, st. repeat split; auto. }
    apply Nat.eqb_neq in E0.
    destruct (need <=? s_len buf) eqn:E1.
    - apply Nat.leb_le in E1. destruct Hb as [Hb|[Hb1 Hb2]]; [lia|].
      erewrite run_bind_eq.
      2:{ rewrite run_slice_set. replace (0 <? s_len buf) with true by (symmetry; apply Nat.ltb_lt; lia). reflexivity. }
      eexists _, _, _. split; [reflexivity|]. split; [apply keeps_write; auto|]. split; [apply fresh_write; auto|].
      split; [right; auto|]. split; [|lia]. rewrite lookup_write_other; auto.
    - assert (Hfr : lookup st (t, n) = None) by (apply Hf; lia).
      assert (Hne : lb <> (t, n)) by (intro E; subst; congruence).
      erewrite run_bind_eq; [|apply run_make].
      erewrite run_bind_eq.
      2:{ rewrite run_slice_set. simpl s_len. replace (0 <? need) with true by (symmetry; apply Nat.ltb_lt; lia). reflexivity. }
      eexists _, _, _. split; [reflexivity|].
      assert (Hfr0 : lookup st0 (t, n) = None) by (eapply keeps_none; eauto).
      split; [apply keeps_write; auto; eapply keeps_trans; [exact Hk|apply keeps_update; exact Hfr]|].
      split; [apply fresh_write, fresh_update; exact Hf|].
      split; [right; simpl; split; [exact Hfr0|intro E; apply Hne; auto]|].
      split; [|lia].
      simpl. rewrite lookup_write_other by exact Hne. rewrite lookup_update_other by exact Hne. exact Hl.
  Qed.

  (* Column.Filter: for i, x := range bIndex { if !x { bIndex[i] = pred(data[index[i]]) } } on a mask the
     program owns: rows already selected are skipped, the others get the row value *)
  Lemma cf_loop t st0 lb len ix c argc hl use_inv (P : Z -> bool) :
    lookup st0 lb = None -> in_bounds st0 ix -> parts_in_bounds st0 c ->
    (forall a, argc = Some a -> parts_in_bounds st0 a) ->
    forall rest irest pre ipre buf n st arr,
    length pre = length ipre -> length rest = length irest -> length pre + length rest = len ->
    keeps st0 st -> store_fresh t n st -> buf_inv st0 lb buf ->
    lookup st lb = Some arr -> length arr = len -> map as_b arr = pre ++ rest ->
    map as_z (seg_of st0 ix) = ipre ++ irest ->
    (forall i, In i irest -> row_val st0 hl use_inv c argc i = Ok (P i)) ->
    exists buf' n' st' arr',
      run env t (for_eachO (seq (length pre) (length rest))
        (fun (i : nat) (buf : slice) =>
           let? x := get_b (mkSlice lb 0 len len) i in
           if (x : bool) then Ret (Ok buf) else
           let? r := get_z ix i in
           let? cell := col_cell c r in
           let? acell := opt_cell argc r in
           let* buf' := matcher_touch buf (lf_need hl r) in
           let* res := match lf_call hl with
                       | Some fn => Call fn (cell ++ acell) (fun v => Ret (as_b v))
                       | None => Ret (if use_inv then lf_pred_inv hl r cell acell else lf_pred hl r cell acell)
                       end in
           let? _ := slice_set (mkSlice lb 0 len len) i (VB res) in
           Ret (Ok buf')) buf) n st = (Ok buf', n', st') /\
      keeps st0 st' /\ store_fresh t n' st' /\ n <= n' /\
      lookup st' lb = Some arr' /\ length arr' = len /\
      map as_b arr' = pre ++ mask_or rest (map P irest).
  Proof.
    intros Hlb Hix Hpc Hpa.
    induction rest as [|x rest IH]; intros irest pre ipre buf n st arr Hlp Hlr Hlen Hk Hf Hbuf Hl Harr Hm Hixs HP.
    - destruct irest; [|discriminate]. simpl. exists buf, n, st, arr. repeat split; auto.
    - destruct irest as [|iv irest]; [discriminate|]. cbn [length seq for_eachO map].
      rewrite mask_or_cons.
      set (k := length pre) in *.
      assert (Hk_lt : k < len) by (simpl in Hlen; lia).
      (* the mask entry *)
      assert (Hgb : get_val st (mkSlice lb 0 len len) k = idx arr k).
      { unfold get_val. simpl. replace (k <? len) with true by (symmetry; apply Nat.ltb_lt; exact Hk_lt).
        unfold read_loc. rewrite Hl. reflexivity. }
      assert (Hx : exists v, nth_error arr k = Some v /\ as_b v = x).
      { assert (E : nth_error (map as_b arr) k = Some x).
        { rewrite Hm. unfold k. rewrite nth_error_app2 by lia. rewrite Nat.sub_diag. reflexivity. }
        rewrite nth_error_map in E. destruct (nth_error arr k) as [v|]; [|discriminate]. exists v. inversion E. auto. }
      destruct Hx as (vx & Hvx & Hxb).
      pose proof (run_get_b t (mkSlice lb 0 len len) k n st) as Hg. rewrite Hgb in Hg. unfold idx in Hg. rewrite Hvx in Hg.
      simpl in Hg. rewrite Hxb in Hg.
      rewrite run_bindO_unfold. rewrite run_bindO_unfold, Hg.
      assert (Hnext : forall buf1 n1 st1 arr1 y,
                 keeps st0 st1 -> store_fresh t n1 st1 -> n <= n1 -> buf_inv st0 lb buf1 ->
                 lookup st1 lb = Some arr1 -> length arr1 = len -> map as_b arr1 = pre ++ y :: rest ->
                 y = (x || P iv)%bool ->
                 exists buf' n' st' arr',
                   run env t (for_eachO (seq (S k) (length rest))
                     (fun (i : nat) (buf : slice) =>
                        let? x := get_b (mkSlice lb 0 len len) i in
                        if (x : bool) then Ret (Ok buf) else
                        let? r := get_z ix i in
                        let? cell := col_cell c r in
                        let? acell := opt_cell argc r in
                        let* buf' := matcher_touch buf (lf_need hl r) in
                        let* res := match lf_call hl with
                                    | Some fn => Call fn (cell ++ acell) (fun v => Ret (as_b v))
                                    | None => Ret (if use_inv then lf_pred_inv hl r cell acell else lf_pred hl r cell acell)
                                    end in
                        let? _ := slice_set (mkSlice lb 0 len len) i (VB res) in
                        Ret (Ok buf')) buf1) n1 st1 = (Ok buf', n', st') /\
                   keeps st0 st' /\ store_fresh t n' st' /\ n <= n' /\
                   lookup st' lb = Some arr' /\ length arr' = len /\
                   map as_b arr' = pre ++ (x || P iv)%bool :: mask_or rest (map P irest)).
      { intros buf1 n1 st1 arr1 y Hk1 Hf1 Hn1 Hb1 Hl1 Ha1 Hm1 Hy.
        destruct (IH irest (pre ++ [y]) (ipre ++ [iv]) buf1 n1 st1 arr1) as (buf' & n' & st' & arr' & Hrun & Hk' & Hf' & Hn' & Hl' & Ha' & Hm').
        - rewrite !app_length. simpl. lia.
        - simpl in Hlr. lia.
        - rewrite app_length. simpl. simpl in Hlen. unfold k in *. lia.
        - exact Hk1.
        - exact Hf1.
        - exact Hb1.
        - exact Hl1.
        - exact Ha1.
        - rewrite <- app_assoc. exact Hm1.
        - rewrite <- app_assoc. exact Hixs.
        - intros i Hi. apply HP. right. exact Hi.
        - exists buf', n', st', arr'. rewrite app_length in Hrun. simpl in Hrun. replace (length pre + 1) with (S k) in Hrun by (unfold k; lia).
          split; [exact Hrun|]. split; [exact Hk'|]. split; [exact Hf'|]. split; [lia|]. split; [exact Hl'|]. split; [exact Ha'|].
          rewrite Hm', <- app_assoc, Hy. reflexivity. }
      destruct x.
      + (* already selected: skipped *)
        cbv iota. cbn [run].
        apply (Hnext buf n st arr true); auto.
      + (* evaluated *)
        cbv iota.
        assert (Hgz : run env t (get_z ix k) n st = (Ok iv, n, st)).
        { rewrite run_get_z. rewrite get_val_seg by (eapply in_bounds_keeps; eauto).
          rewrite (seg_keeps_eq _ _ _ Hk Hix).
          assert (E : nth_error (map as_z (seg_of st0 ix)) k = Some iv).
          { rewrite Hixs, Hlp, nth_error_app2 by lia. rewrite Nat.sub_diag. reflexivity. }
          rewrite nth_error_map in E. unfold idx. destruct (nth_error (seg_of st0 ix) k) as [v|]; [|discriminate].
          inversion E. reflexivity. }
        rewrite run_bindO_unfold, Hgz.
        pose proof (HP iv (or_introl eq_refl)) as Hrow. unfold row_val in Hrow.
        destruct (cell_val st0 c iv) as [cell| |] eqn:Ecell; try discriminate. simpl in Hrow.
        destruct (opt_cell_val st0 argc iv) as [acell| |] eqn:Eacell; try discriminate. simpl in Hrow.
        assert (Hbv : base_val hl use_inv iv cell acell = P iv) by congruence. clear Hrow.
        rewrite run_bindO_unfold, run_col_cell, (cell_val_keeps _ _ _ _ Hk Hpc), Ecell.
        rewrite run_bindO_unfold, run_opt_cell.
        assert (Eac : opt_cell_val st argc iv = Ok acell).
        { destruct argc as [a|]; simpl in *; [|exact Eacell]. rewrite (cell_val_keeps _ _ _ _ Hk (Hpa a eq_refl)). exact Eacell. }
        rewrite Eac.
        destruct (matcher_touch_spec t st0 lb buf (lf_need hl iv) n st arr Hk Hf Hbuf Hl)
          as (buf1 & n1 & st1 & Hmt & Hk1 & Hf1 & Hb1 & Hl1 & Hmt_n).
        rewrite run_bind, Hmt.
        set (res := base_val hl use_inv iv cell acell) in *.
        set (st2 := write_loc st1 lb (0 + k) (VB res)).
        assert (Hres : forall (K : bool -> prog (outcome slice)),
                  run env t (let* res0 := match lf_call hl with
                                          | Some fn => Call fn (cell ++ acell) (fun v => Ret (as_b v))
                                          | None => Ret (if use_inv then lf_pred_inv hl iv cell acell else lf_pred hl iv cell acell)
                                          end in K res0) n1 st1 = run env t (K res) n1 st1).
        { intro K. unfold res, base_val. destruct (lf_call hl) as [fn|]; rewrite run_bind; reflexivity. }
        rewrite Hres. rewrite run_bindO_unfold, run_slice_set. simpl s_len.
        replace (k <? len) with true by (symmetry; apply Nat.ltb_lt; exact Hk_lt). simpl s_base. simpl s_off. fold st2. cbn [run].
        apply (Hnext buf1 n1 st2 (set_nth arr k (VB res)) res).
        * unfold st2. apply keeps_write; auto.
        * unfold st2. apply fresh_write; auto.
        * exact Hmt_n.
        * exact Hb1.
        * unfold st2. rewrite lookup_write_same, Hl1. reflexivity.
        * rewrite set_nth_length. exact Harr.
        * rewrite set_nth_map, Hm. simpl as_b. unfold k. apply set_nth_app_mid.
        * simpl. exact Hbv.
  Qed.
End MaskLoop.

Lemma ofold_cons {A B} (g : B -> A -> outcome B) l x b :
  Filter.ofold g (x :: l) b = do b' <- g b x; Filter.ofold g l b'.
Proof.
  unfold Filter.ofold. simpl. destruct (g b x) as [b'| |]; simpl; [reflexivity| |];
    induction l as [|y l IH]; simpl; auto.
Qed.

Lemma map_false_repeat {X} (l : list X) : map (fun _ => false) l = repeat false (length l).
Proof. induction l as [|x l IH]; simpl; auto. f_equal. exact IH. Qed.

Lemma with_ix_eta g : Frame.with_ix g (Frame.ix g) = g.
Proof. destruct g; reflexivity. Qed.

Section FilterLeaves.
  Variable env : fnid -> list val -> val.
  Variable dec : decoder.
  Variable mt : Filter.matcher_table.

  (* HEAP side of the link for one leaf, relative to the store st0 in which the filter starts, the by-name map m
     of the frame and the rows of the (original) index: the leaf's column(s) resolve, Column.Filter does not
     return an error, no int->float promotion and no mask inversion through a second mask are involved, and the
     value the kernel writes for physical row r (custom function = oracle, or built-in predicate) is P (row r). *)
  Definition leaf_heap_ok (st0 : store) (m : option loc) (rows : list nat) (hl : leaf) (P : nat -> bool) : Prop :=
    exists c argc,
      map_get (map_of st0 m) (lf_col hl) = Some c /\
      match lf_arg hl with
      | None => argc = None
      | Some an => exists a, map_get (map_of st0 m) an = Some a /\ argc = Some a
      end /\
      lf_promote hl = 0%N /\ lf_bad hl = false /\ (lf_inverse hl && negb (lf_inv_builtin hl))%bool = false /\
      (forall i : Z, In (row i) rows -> row_val env st0 hl (lf_inverse hl) c argc i = Ok (P (row i))).

  (* L0 side of the link: on every sub-index of the rows the leaf step of QFrame.filter ORs P into the mask
     (this is FilterProofs.leaf_realised with inb = membership in the rows) *)
  Definition l0_realised (f : Frame.frame) (l : Filter.leaf) (P : nat -> bool) : Prop :=
    forall i b, incl i (Frame.ix f) -> length i = length b ->
      Filter.filter_leaf mt (Frame.with_ix f i) l b = Ok (mask_or b (map P i)).

  Definition leaf_link (st0 : store) (m : option loc) (f : Frame.frame) (hl : leaf) (l : Filter.leaf) : Prop :=
    exists P, leaf_heap_ok st0 m (Frame.ix f) hl P /\ l0_realised f l P.

  Lemma col_filter_spec t st0 lb len ix c argc hl use_inv (P : Z -> bool) n st arr :
    lf_bad hl = false -> lookup st0 lb = None -> in_bounds st0 ix -> s_len ix = len ->
    parts_in_bounds st0 c -> (forall a, argc = Some a -> parts_in_bounds st0 a) ->
    keeps st0 st -> store_fresh t n st -> lookup st lb = Some arr -> length arr = len ->
    (forall i, In i (map as_z (seg_of st0 ix)) -> row_val env st0 hl use_inv c argc i = Ok (P i)) ->
    exists n' st' arr',
      run env t (col_filter hl use_inv c argc ix (mkSlice lb 0 len len)) n st = (Ok tt, n', st') /\
      keeps st0 st' /\ store_fresh t n' st' /\ n <= n' /\ lookup st' lb = Some arr' /\ length arr' = len /\
      map as_b arr' = mask_or (map as_b arr) (map P (map as_z (seg_of st0 ix))).
  Proof.
    intros Hbad Hlb Hix Hlen Hpc Hpa Hk Hf Hl Harr HP. unfold col_filter. rewrite Hbad.
    assert (Hsl : length (map as_z (seg_of st0 ix)) = len) by (rewrite map_length, (seg_length _ _ Hix); exact Hlen).
    assert (Hbuf : exists buf n1 st1,
               run env t (if lf_buf hl then make_slice 10 10 (VZ 0) else Ret nil_slice) n st = (buf, n1, st1) /\
               keeps st0 st1 /\ store_fresh t n1 st1 /\ n <= n1 /\ buf_inv st0 lb buf /\ lookup st1 lb = Some arr).
    { destruct (lf_buf hl).
      - assert (Hfr : lookup st (t, n) = None) by (apply Hf; lia).
        assert (Hne : lb <> (t, n)) by (intro E; subst; congruence).
        eexists _, _, _. split; [apply run_make|].
        split; [eapply keeps_trans; [exact Hk|apply keeps_update; exact Hfr]|].
        split; [apply fresh_update; exact Hf|]. split; [lia|].
        split; [right; simpl; split; [eapply keeps_none; eauto|intro E; apply Hne; auto]|].
        rewrite lookup_update_other by exact Hne. exact Hl.
      - exists nil_slice, n, st. repeat split; auto. left. reflexivity. }
    destruct Hbuf as (buf & n1 & st1 & Hb0 & Hk1 & Hf1 & Hn1 & Hbi & Hl1).
    destruct (cf_loop env t st0 lb len ix c argc hl use_inv P Hlb Hix Hpc Hpa
                (map as_b arr) (map as_z (seg_of st0 ix)) [] [] buf n1 st1 arr)
      as (buf' & n' & st' & arr' & Hrun & Hk' & Hf' & Hn' & Hl' & Ha' & Hm'); auto.
    { rewrite map_length, Hsl. exact Harr. }
    { simpl. rewrite map_length. exact Harr. }
    exists n', st', arr'. split; [|split; [exact Hk'|split; [exact Hf'|split; [lia|split; [exact Hl'|split; [exact Ha'|exact Hm']]]]]].
    erewrite run_bind_eq; [|exact Hb0].
    simpl s_len. simpl length in Hrun. rewrite map_length in Hrun. rewrite Harr in Hrun.
    erewrite run_bindO_ok; [reflexivity|exact Hrun].
  Qed.

  Lemma leaf_step_spec t st0 qf lb len hl P n st arr rows :
    lookup st0 lb = None -> in_bounds st0 (q_idx qf) -> s_len (q_idx qf) = len ->
    Forall (fun e => parts_in_bounds st0 (snd e)) (map_of st0 (q_map qf)) ->
    (forall l, q_map qf = Some l -> lookup st0 l <> None) ->
    incl (abs_ix st0 (q_idx qf)) rows ->
    leaf_heap_ok st0 (q_map qf) rows hl P ->
    keeps st0 st -> store_fresh t n st -> lookup st lb = Some arr -> length arr = len ->
    exists n' st' arr',
      run env t (leaf_step qf (mkSlice lb 0 len len) hl) n st = (Ok tt, n', st') /\
      keeps st0 st' /\ store_fresh t n' st' /\ n <= n' /\ lookup st' lb = Some arr' /\ length arr' = len /\
      map as_b arr' = mask_or (map as_b arr) (map P (abs_ix st0 (q_idx qf))).
  Proof.
    intros Hlb Hix Hlen Hmp Hlive Hincl (c & argc & Hc & Harg & Hpro & Hbad & Hinv & HP) Hk Hf Hl Harr.
    assert (Em : map_of st (q_map qf) = map_of st0 (q_map qf)) by (apply map_of_keeps'; auto).
    assert (Hpc : parts_in_bounds st0 c) by (eapply map_get_parts; eauto).
    assert (Hpa : forall a, argc = Some a -> parts_in_bounds st0 a).
    { intros a Ea. destruct (lf_arg hl) as [an|]; [|congruence].
      destruct Harg as (a' & Ha' & Ea'). rewrite Ea' in Ea. inversion Ea; subst. eapply map_get_parts; eauto. }
    destruct (col_filter_spec t st0 lb len (q_idx qf) c argc hl (lf_inverse hl) (fun i => P (row i)) n st arr
                Hbad Hlb Hix Hlen Hpc Hpa Hk Hf Hl Harr) as (n' & st' & arr' & Hrun & Hk' & Hf' & Hn' & Hl' & Ha' & Hm').
    { intros i Hi. apply HP. apply Hincl. unfold abs_ix. rewrite <- (map_map as_z row). apply in_map. exact Hi. }
    exists n', st', arr'. split; [|split; [exact Hk'|split; [exact Hf'|split; [exact Hn'|split; [exact Hl'|split; [exact Ha'|]]]]]].
    - unfold leaf_step, by_name. erewrite run_bind_eq; [|apply run_by_name_m]. rewrite Em, Hc.
      assert (Hargrun : run env t (match lf_arg hl with
                                   | None => Ret (Ok None)
                                   | Some an => let* oa := by_name_m (q_map qf) an in
                                                Ret (match oa with None => Fail | Some a => Ok (Some a) end)
                                   end) n st = (Ok argc, n, st)).
      { destruct (lf_arg hl) as [an|].
        - destruct Harg as (a & Ha & ->). erewrite run_bind_eq; [|apply run_by_name_m]. rewrite Em, Ha. reflexivity.
        - subst argc. reflexivity. }
      erewrite run_bindO_ok; [|exact Hargrun].
      rewrite Hpro. change (0 =? 1)%N with false. cbv iota.
      erewrite run_bind_eq; [|reflexivity].
      erewrite run_bind_eq.
      2:{ instantiate (1 := st). instantiate (1 := n). instantiate (1 := argc).
          destruct argc as [a|]; [change (0 =? 2)%N with false|]; reflexivity. }
      rewrite Hinv. exact Hrun.
    - rewrite Hm'. unfold abs_ix. rewrite !map_map. reflexivity.
  Qed.

  (* the loop over the leaves: every leaf ORs its rows into the shared mask, as ofold filter_leaf does at L0 *)
  Lemma leaves_loop t st0 qf lb len f i0 :
    lookup st0 lb = None -> in_bounds st0 (q_idx qf) -> s_len (q_idx qf) = len ->
    Forall (fun e => parts_in_bounds st0 (snd e)) (map_of st0 (q_map qf)) ->
    (forall l, q_map qf = Some l -> lookup st0 l <> None) ->
    abs_ix st0 (q_idx qf) = i0 -> incl i0 (Frame.ix f) ->
    forall hls ls, Forall2 (leaf_link st0 (q_map qf) f) hls ls ->
    forall n st arr, keeps st0 st -> store_fresh t n st -> lookup st lb = Some arr -> length arr = len ->
    exists n' st' arr',
      run env t (for_eachO hls (fun hl (_ : unit) => leaf_step qf (mkSlice lb 0 len len) hl) tt) n st = (Ok tt, n', st') /\
      keeps st0 st' /\ store_fresh t n' st' /\ lookup st' lb = Some arr' /\ length arr' = len /\
      Filter.ofold (fun b l => Filter.filter_leaf mt (Frame.with_ix f i0) l b) ls (map as_b arr) = Ok (map as_b arr').
  Proof.
    intros Hlb Hix Hlen Hmp Hlive Hi0 Hincl hls ls HF.
    assert (Hli : length i0 = len) by (rewrite <- Hi0, (abs_ix_length _ _ Hix); exact Hlen).
    induction HF as [|hl l hls ls (P & Hh & Hl0) HF IH]; intros n st arr Hk Hf Hl Harr.
    - simpl. exists n, st, arr. repeat split; auto.
    - destruct (leaf_step_spec t st0 qf lb len hl P n st arr (Frame.ix f) Hlb Hix Hlen Hmp Hlive)
        as (n1 & st1 & arr1 & Hrun1 & Hk1 & Hf1 & Hn1 & Hl1 & Ha1 & Hm1); auto.
      { rewrite Hi0. exact Hincl. }
      destruct (IH n1 st1 arr1 Hk1 Hf1 Hl1 Ha1) as (n' & st' & arr' & Hrun & Hk' & Hf' & Hl' & Ha' & Hfold).
      exists n', st', arr'. split; [|split; [exact Hk'|split; [exact Hf'|split; [exact Hl'|split; [exact Ha'|]]]]].
      + cbn [for_eachO]. erewrite run_bindO_ok; [exact Hrun|exact Hrun1].
      + rewrite ofold_cons. rewrite (Hl0 i0 (map as_b arr) Hincl) by (rewrite map_length; lia).
        cbn [obind]. rewrite Hi0 in Hm1. rewrite <- Hm1. exact Hfold.
  Qed.

  (* QFrame.filter: the bool mask is allocated, every leaf writes into it, index.Filter builds the new index.
     The reference may be any struct copy whose index is a sub-index i0 of the rows of f (the frames inside an
     And chain); for the frame itself take i0 = Frame.ix f (with_ix_eta). *)
  Theorem refines_filter_leaves t n st qf f i0 hls ls :
    ref_ok dec st qf -> abs1 dec st qf = Some (Frame.with_ix f i0) -> incl i0 (Frame.ix f) ->
    store_fresh t n st ->
    Forall2 (leaf_link st (q_map qf) f) hls ls ->
    exists res n' st',
      run env t (qf_filter hls qf) n st = (res, n', st') /\ keeps st st' /\ store_fresh t n' st' /\
      match res with
      | Ok qf' => ref_ok dec st' qf' /\
                  exists f', Filter.filter_leaves mt (Frame.with_ix f i0) ls = Ok f' /\ abs1 dec st' qf' = Some f'
      | Panic => Filter.filter_leaves mt (Frame.with_ix f i0) ls = Panic
      | Fail => False
      end.
  Proof.
    intros Hok Habs Hincl Hf HF. destruct (abs1_inv _ _ _ _ Habs) as (Hc & Hi & He). simpl in Hi, He.
    unfold qf_filter, Filter.filter_leaves. cbn [Frame.ferr Frame.with_ix Frame.ix]. rewrite He.
    destruct (q_err qf) eqn:Eerr.
    { exists (Ok qf), n, st. split; [reflexivity|]. split; [apply keeps_refl|]. split; [exact Hf|]. split; [exact Hok|].
      eexists. split; [reflexivity|]. exact Habs. }
    set (len := s_len (q_idx qf)). set (lb := (t, n)).
    set (st1 := update st lb (repeat (VB false) len)).
    assert (Hfr : lookup st lb = None) by (apply Hf; lia).
    assert (Hk1 : keeps st st1) by (apply keeps_update; exact Hfr).
    destruct (leaves_loop t st qf lb len f i0 Hfr (ro_idx _ _ _ Hok) eq_refl (ro_mparts _ _ _ Hok) (ro_mlive _ _ _ Hok)
                (eq_sym Hi) Hincl hls ls HF (S n) st1 (repeat (VB false) len) Hk1 (fresh_update _ _ _ _ Hf))
      as (n2 & st2 & arr2 & Hloop & Hk2 & Hf2 & Hl2 & Ha2 & Hfold).
    { unfold st1. apply lookup_update_same. }
    { apply repeat_length. }
    assert (Hinit : map as_b (repeat (VB false) len) = map (fun _ : nat => false) i0).
    { rewrite map_repeat, map_false_repeat. f_equal. simpl. rewrite Hi. symmetry. apply (abs_ix_length _ _ (ro_idx _ _ _ Hok)). }
    rewrite Hinit in Hfold. rewrite Hfold.
    assert (Hr2 : read_loc st2 lb = arr2) by (unfold read_loc; rewrite Hl2; reflexivity).
    assert (Hlen2 : length (read_loc st2 lb) = len) by (rewrite Hr2; exact Ha2).
    destruct (refines_filter_index env dec t n2 st2 qf (Frame.with_ix f i0) (mkSlice lb 0 len len))
      as (res & n' & st' & Hrun & Hk' & Hf' & Hres).
    { eapply ref_ok_keeps; eauto. }
    { rewrite (abs1_keeps _ _ _ _ Hk2 Hok). exact Habs. }
    { exact Hf2. }
    { apply full_in_bounds. exact Hlen2. }
    rewrite (full_seg _ _ _ Hlen2), Hr2 in Hres. cbn [Frame.ix Frame.with_ix] in Hres.
    exists res, n', st'. split; [|split; [eapply keeps_trans; eauto|split; [exact Hf'|]]].
    - unfold new_bool. erewrite run_bind_eq; [|apply run_make]. fold len lb st1.
      erewrite run_bind_eq; [|exact Hloop]. cbv iota. exact Hrun.
    - destruct res as [qf'| |]; auto.
      + destruct Hres as (Hok' & i & Hif & Habs'). split; [exact Hok'|]. rewrite Hif. cbn [obind].
        eexists. split; [reflexivity|]. exact Habs'.
      + rewrite Hres. reflexivity.
  Qed.
End FilterLeaves.

(* ==================================================================== clause trees (partial) *)
(* the loop of OrClause.filter of Model/HeapOps.v, named (clause_filter (COr ..) unfolds to it) *)
Definition or_go (qf : qframe) : list clause -> list leaf -> option qframe -> prog (outcome qframe) :=
  fix go (cs : list clause) (filters : list leaf) (acc : option qframe) {struct cs} : prog (outcome qframe) :=
    match cs with
    | [] => let? acc1 := flush_or qf filters acc in
            Ret (match acc1 with Some r => Ok r | None => Panic end)
    | c1 :: r =>
        match c1 with
        | CLeaf f => go r (filters ++ [f]) acc
        | _ => let? acc1 := flush_or qf filters acc in
               let? nq := clause_filter c1 qf in
               let? acc2 := or_frames qf acc1 nq in
               go r [] (Some acc2)
        end
    end.

Lemma clause_filter_or err cs qf :
  clause_filter (COr err cs) qf =
  if q_err qf then Ret (Ok qf) else if err then Ret (Ok (with_err qf)) else or_go qf cs [] None.
Proof. reflexivity. Qed.

(* consecutive leaves are batched: an Or of leaves only is ONE call of QFrame.filter with all of them *)
Lemma or_go_leaves qf hls : forall filters,
  or_go qf (map CLeaf hls) filters None =
  (let? acc1 := flush_or qf (filters ++ hls) None in Ret (match acc1 with Some r => Ok r | None => Panic end)).
Proof.
  induction hls as [|hl hls IH]; intro filters; simpl.
  - rewrite app_nil_r. reflexivity.
  - rewrite IH, <- app_assoc. reflexivity.
Qed.

Lemma or_loop_leaves mt cf f ls : forall pending,
  Filter.or_loop mt cf f (map Filter.CLeaf ls) pending None =
  (do acc' <- match rev ls ++ pending with
              | [] => Ok None
              | p :: q => do nf <- Filter.filter_leaves mt f (rev (p :: q)); Ok (Some (Filter.or_frames f None nf))
              end;
   match acc' with Some r => Ok r | None => Panic end).
Proof.
  induction ls as [|l ls IH]; intro pending; simpl.
  - destruct pending; reflexivity.
  - rewrite IH, <- app_assoc. reflexivity.
Qed.

Section ClausePartial.
  Variable env : fnid -> list val -> val.
  Variable dec : decoder.
  Variable mt : Filter.matcher_table.

  (* the clause trees covered: a leaf, Null, Not of a leaf (the leaf's inverse flag is toggled), an Or of leaves *)
  Inductive flat_rel (st : store) (m : option loc) (f : Frame.frame) : clause -> Filter.clause -> Prop :=
  | FR_leaf hl l : leaf_link env mt st m f hl l -> flat_rel st m f (CLeaf hl) (Filter.CLeaf l)
  | FR_null : flat_rel st m f CNull Filter.CNull
  | FR_not hl l : leaf_link env mt st m f (toggle hl) (Filter.invert_leaf l) ->
                  flat_rel st m f (CNot false (CLeaf hl)) (Filter.CNot (Filter.CLeaf l))
  | FR_or hls ls : ls <> [] -> Forall2 (leaf_link env mt st m f) hls ls ->
                   flat_rel st m f (COr false (map CLeaf hls)) (Filter.COr (map Filter.CLeaf ls)).

  Lemma existsb_leaves ls : existsb Filter.clause_err (map Filter.CLeaf ls) = false.
  Proof. induction ls as [|l ls IH]; simpl; auto. Qed.

  Theorem refines_clause_filter_partial t n st qf f c cl :
    ref_ok dec st qf -> abs1 dec st qf = Some f -> store_fresh t n st ->
    flat_rel st (q_map qf) f c cl ->
    exists res n' st',
      run env t (op_filter c qf) n st = (res, n', st') /\ keeps st st' /\ store_fresh t n' st' /\
      match res with
      | Ok qf' => ref_ok dec st' qf' /\
                  exists f', Filter.frame_filter mt f cl = Ok f' /\ abs1 dec st' qf' = Some f'
      | Panic => Filter.frame_filter mt f cl = Panic
      | Fail => False
      end.
  Proof.
    intros Hok Habs Hf Hrel. destruct (abs1_inv _ _ _ _ Habs) as (_ & _ & He).
    unfold op_filter, Filter.frame_filter. rewrite He.
    destruct (q_err qf) eqn:Eerr.
    { exists (Ok qf), n, st. split; [reflexivity|]. split; [apply keeps_refl|]. split; [exact Hf|]. split; [exact Hok|].
      exists f. auto. }
    assert (Habs' : abs1 dec st qf = Some (Frame.with_ix f (Frame.ix f))) by (rewrite with_ix_eta; exact Habs).
    assert (Hleaves : forall hls ls, Forall2 (leaf_link env mt st (q_map qf) f) hls ls ->
              exists res n' st',
                run env t (qf_filter hls qf) n st = (res, n', st') /\ keeps st st' /\ store_fresh t n' st' /\
                match res with
                | Ok qf' => ref_ok dec st' qf' /\
                            exists f', Filter.filter_leaves mt f ls = Ok f' /\ abs1 dec st' qf' = Some f'
                | Panic => Filter.filter_leaves mt f ls = Panic
                | Fail => False
                end).
    { intros hls ls HF.
      pose proof (refines_filter_leaves env dec mt t n st qf f (Frame.ix f) hls ls Hok Habs' (incl_refl _) Hf HF) as H.
      rewrite with_ix_eta in H. exact H. }
    destruct Hrel as [hl l Hl| |hl l Hl|hls ls Hne HF].
    - simpl. apply Hleaves. constructor; [exact Hl|constructor].
    - simpl. exists (Ok qf), n, st. split; [reflexivity|]. split; [apply keeps_refl|]. split; [exact Hf|]. split; [exact Hok|].
      exists f. auto.
    - simpl. rewrite Eerr, He. apply Hleaves. constructor; [exact Hl|constructor].
    - rewrite clause_filter_or, Eerr. cbv iota.
      cbn [Filter.clause_filter]. rewrite He.
      assert (Ece : Filter.clause_err (Filter.COr (map Filter.CLeaf ls)) = false).
      { simpl. destruct ls as [|l0 ls0]; [congruence|]. apply (existsb_leaves (l0 :: ls0)). }
      rewrite Ece. rewrite or_go_leaves, or_loop_leaves. rewrite app_nil_r. simpl app.
      assert (Hhne : hls <> []) by (intro E; subst; inversion HF; subst; congruence).
      destruct (Hleaves hls ls HF) as (res & n' & st' & Hrun & Hk & Hf' & Hres).
      assert (Hrev : exists p q, rev ls = p :: q).
      { destruct (rev ls) as [|p q] eqn:Er; [|eauto]. apply (f_equal (@rev _)) in Er. rewrite rev_involutive in Er. simpl in Er. congruence. }
      destruct Hrev as (p & q & Hrev). rewrite Hrev. rewrite <- Hrev, rev_involutive.
      exists res, n', st'. split; [|split; [exact Hk|split; [exact Hf'|]]].
      + unfold flush_or. destruct hls as [|h0 hr]; [congruence|].
        rewrite run_bindO_unfold. rewrite run_bindO_unfold, Hrun.
        destruct res as [qf'| |]; reflexivity.
      + destruct res as [qf'| |]; auto.
        * destruct Hres as (Hok' & f' & Hfl & Ha'). split; [exact Hok'|]. exists f'. rewrite Hfl. simpl. auto.
        * rewrite Hres. reflexivity.
  Qed.
End ClausePartial.

(* the relation between heap clause trees and L0 clause trees for the FULL statement (not proved; the proved
   fragment is flat_rel): leaves are linked, the err flags of the heap clauses are the L0 clause_err *)
Inductive clause_rel (env : fnid -> list val -> val) (mt : Filter.matcher_table) (st : store) (m : option loc) (f : Frame.frame)
  : clause -> Filter.clause -> Prop :=
| CR_leaf hl l : leaf_link env mt st m f hl l -> clause_rel env mt st m f (CLeaf hl) (Filter.CLeaf l)
| CR_null : clause_rel env mt st m f CNull Filter.CNull
| CR_not_leaf hl l : leaf_link env mt st m f (toggle hl) (Filter.invert_leaf l) ->
                     clause_rel env mt st m f (CNot false (CLeaf hl)) (Filter.CNot (Filter.CLeaf l))
| CR_not hc c : (forall hl, hc <> CLeaf hl) -> clause_rel env mt st m f hc c ->
                clause_rel env mt st m f (CNot (Filter.clause_err (Filter.CNot c)) hc) (Filter.CNot c)
| CR_and hcs cs : Forall2 (clause_rel env mt st m f) hcs cs ->
                  clause_rel env mt st m f (CAnd (Filter.clause_err (Filter.CAnd cs)) hcs) (Filter.CAnd cs)
| CR_or hcs cs : Forall2 (clause_rel env mt st m f) hcs cs ->
                 clause_rel env mt st m f (COr (Filter.clause_err (Filter.COr cs)) hcs) (Filter.COr cs).

Lemma flat_rel_clause_rel env mt st m f c cl : flat_rel env mt st m f c cl -> clause_rel env mt st m f c cl.
Proof.
  intros [hl l Hl| |hl l Hl|hls ls Hne HF].
  - constructor. exact Hl.
  - constructor.
  - constructor. exact Hl.
  - assert (E : Filter.clause_err (Filter.COr (map Filter.CLeaf ls)) = false).
    { simpl. destruct ls as [|l0 ls0]; [congruence|]. apply (existsb_leaves (l0 :: ls0)). }
    rewrite <- E. constructor.
    clear - HF. induction HF as [|hl l hls ls Hl HF IH]; simpl; constructor; [constructor; exact Hl|exact IH].
Qed.

(* ==================================================================== Grouper.QFrames *)
From QF Require Model.Aggregate.

(* a grouper reference read at L0: its headers (through the frame with an empty index), its key names, its
   group indexes (the slices stored in g.indices), Err *)
Definition g_base (g : grouper) : qframe := mkQF (g_cols g) (g_map g) nil_slice false.
Definition groups_of (st : store) (g : grouper) : list slice := map as_slice (seg_of st (g_indices g)).
Definition abs_g (dec : decoder) (st : store) (g : grouper) : option Aggregate.grouper :=
  match abs1 dec st (g_base g) with
  | Some fb => Some (Aggregate.mkGrouper (Frame.cols fb) (g_grouped g) (map (abs_ix st) (groups_of st g)) (g_err g))
  | None => None
  end.
Record grouper_ok (dec : decoder) (st : store) (g : grouper) : Prop := mkGrouperOk {
  go_base : ref_ok dec st (g_base g);
  go_ind : in_bounds st (g_indices g);
  go_groups : Forall (in_bounds st) (groups_of st g)
}.

Section QFrames.
  Variable env : fnid -> list val -> val.
  Variable dec : decoder.

  Lemma run_read_slices t s n st : run env t (read_slices s) n st = (map as_slice (seg_of st s), n, st).
  Proof. unfold read_slices. rewrite (run_bind_eq env _ _ _ _ _ _ _ _ (run_slice_read env t s n st)). reflexivity. Qed.

  (* QFrames: a fresh []QFrame; every element shares the grouper's headers, map and its group's index *)
  Theorem refines_qframes t n st g G :
    grouper_ok dec st g -> abs_g dec st g = Some G -> store_fresh t n st ->
    exists res n' st',
      run env t (op_qframes g) n st = (res, n', st') /\ keeps st st' /\ store_fresh t n' st' /\
      match res with
      | Ok qs => Forall (ref_ok dec st') qs /\
                 exists fs, Aggregate.qframes G = Ok fs /\ map (abs1 dec st') qs = map Some fs
      | Fail => Aggregate.qframes G = Fail
      | Panic => False
      end.
  Proof.
    intros [Hb Hi Hg] Habs Hf. unfold abs_g in Habs.
    destruct (abs1 dec st (g_base g)) as [fb|] eqn:Eb; [|discriminate]. inversion Habs; subst G; clear Habs.
    unfold op_qframes, Aggregate.qframes. cbn [Aggregate.gerr Aggregate.gcols Aggregate.gindices].
    destruct (g_err g).
    { exists Fail, n, st. split; [reflexivity|]. split; [apply keeps_refl|]. split; [exact Hf|reflexivity]. }
    erewrite run_bind_eq; [|apply run_read_slices]. fold (groups_of st g).
    erewrite run_bind_eq; [|apply run_slice_lit].
    set (st' := update st (t, n) (map VSl (groups_of st g))).
    assert (Hfr : lookup st (t, n) = None) by (apply Hf; lia).
    assert (Hk : keeps st st') by (apply keeps_update; exact Hfr).
    eexists _, _, _. split; [reflexivity|]. split; [exact Hk|]. split; [apply fresh_update; exact Hf|].
    pose proof (ref_ok_keeps dec _ _ _ Hk Hb) as Hb'.
    pose proof (abs1_keeps dec _ _ _ Hk Hb) as Eb'. rewrite Eb in Eb'.
    split.
    - apply Forall_map. eapply Forall_impl; [|exact Hg]. intros s Hs.
      apply (with_index_ok dec st' (g_base g) s Hb'). eapply in_bounds_keeps; eauto.
    - eexists. split; [reflexivity|]. rewrite !map_map.
      assert (H : forall l, Forall (in_bounds st) l ->
                map (fun x => abs1 dec st' (mkQF (g_cols g) (g_map g) x false)) l
                = map (fun x => Some (Frame.mkFrame (Frame.cols fb) (abs_ix st x) false)) l).
      { intros l Hl. induction Hl as [|s r Hs Hr IH]; simpl; [reflexivity|]. rewrite IH. f_equal.
        change (mkQF (g_cols g) (g_map g) s false) with (with_index (g_base g) s).
        rewrite (with_index_abs dec st' (g_base g) fb s Eb'). unfold abs_ix. rewrite (seg_keeps_eq _ _ _ Hk Hs).
        destruct (abs1_inv dec _ _ _ Eb') as (_ & _ & He). simpl in He.
        unfold Frame.with_ix. rewrite He. reflexivity. }
      apply H. exact Hg.
  Qed.
End QFrames.

(* ==================================================================== non-vacuity *)
(* MARK-EXAMPLES *)
From QF Require Import Proofs.HeapOpsProofs Proofs.ConcProofs.

Module ApplyExamples.
  Import HeapExamples RefineExamples.
  Definition a1 : instr := mkInstr (FnCall 1%N 0%N) [66%N] (Some nA) None true.
  Definition a2 : instr := mkInstr (FnCall 1%N 0%N) [66%N] (Some nA) (Some nA) true.
  Definition a0 : instr := mkInstr (FnCall 1%N 0%N) [66%N] None None true.
  Definition dA : Frame.coldata := Frame.ICol [30; 10; 5; 20]%Z.
  Definition tblA : list (Frame.cell * Frame.cell) :=
    [(Frame.CInt 30, Frame.CInt 31); (Frame.CInt 10, Frame.CInt 11); (Frame.CInt 5, Frame.CInt 6); (Frame.CInt 20, Frame.CInt 21)].
  Definition tblAA : list (Frame.cell * Frame.cell * Frame.cell) :=
    map (fun e => (fst e, fst e, snd e)) tblA.

  Example link1_example : link1 env0 st0 cA dA 1%N Frame.TInt tblA (Frame.ix f0).
  Proof.
    intros p Hin cell Hc. simpl in Hin.
    destruct Hin as [<-|[<-|[<-|[<-|[]]]]]; vm_compute in Hc; inversion Hc; subst; eexists; split; reflexivity.
  Qed.

  Example link2_example : link2 env0 st0 cA cA dA dA 1%N Frame.TInt tblAA (Frame.ix f0).
  Proof.
    intros p Hin cell1 cell2 Hc1 Hc2. simpl in Hin.
    destruct Hin as [<-|[<-|[<-|[<-|[]]]]]; vm_compute in Hc1, Hc2; inversion Hc1; inversion Hc2; subst;
      eexists _, _; repeat split; reflexivity.
  Qed.

  Example link0_example : link0 env0 1%N Frame.TInt (repeat (Frame.CInt 7) 4) (Frame.ix f0).
  Proof. intros k Hk. simpl in Hk. destruct k as [|[|[|[|k]]]]; try lia; reflexivity. Qed.

  Example apply1_premises :
    i_fn a1 = FnCall 1%N (ty_of Frame.TInt) /\ Frame.TInt <> Frame.TEnum /\ i_name_ok a1 = Ops.check_name (i_dst a1) /\
    (forall c d, map_get (map_of st0 (q_map qf0)) nA = Some c -> Frame.lookup_col f0 nA = Some d ->
                 Frame.col_ftype d = Frame.TInt /\ link1 env0 st0 c d 1%N Frame.TInt tblA (Frame.ix f0)).
  Proof.
    split; [reflexivity|]. split; [discriminate|]. split; [reflexivity|].
    intros c d Hc Hd. vm_compute in Hc, Hd. inversion Hc; inversion Hd; subst. split; [reflexivity|exact link1_example].
  Qed.

  Example apply2_premises :
    i_fn a2 = FnCall 1%N (ty_of Frame.TInt) /\ i_name_ok a2 = Ops.check_name (i_dst a2) /\
    (forall c1 c2 d1 d2,
        map_get (map_of st0 (q_map qf0)) nA = Some c1 -> map_get (map_of st0 (q_map qf0)) nA = Some c2 ->
        Frame.lookup_col f0 nA = Some d1 -> Frame.lookup_col f0 nA = Some d2 ->
        Frame.col_type d1 = Frame.col_type d2 /\ Frame.col_ftype d1 = Frame.TInt /\
        link2 env0 st0 c1 c2 d1 d2 1%N Frame.TInt tblAA (Frame.ix f0)).
  Proof.
    split; [reflexivity|]. split; [reflexivity|].
    intros c1 c2 d1 d2 Hc1 Hc2 Hd1 Hd2. vm_compute in Hc1, Hc2, Hd1, Hd2.
    inversion Hc1; inversion Hc2; inversion Hd1; inversion Hd2; subst.
    split; [reflexivity|]. split; [reflexivity|exact link2_example].
  Qed.

  (* both sides computed: the heap run read through abs1 IS the L0 result *)
  Example apply1_example :
    let '(r, _, st') := run env0 1 (apply1 a1 nA qf0) 0 st0 in
    match r with Ok q => option_map Ok (abs1 dec_std st' q) | _ => None end
    = Some (Ops.apply1 [] f0 (Ops.F1 Frame.TInt Frame.TInt tblA) [66%N] nA).
  Proof. vm_compute. reflexivity. Qed.
  Example apply2_example :
    let '(r, _, st') := run env0 1 (apply2 a2 nA nA qf0) 0 st0 in
    match r with Ok q => option_map Ok (abs1 dec_std st' q) | _ => None end
    = Some (Ops.apply2 f0 (Ops.F2 Frame.TInt tblAA) [66%N] nA nA).
  Proof. vm_compute. reflexivity. Qed.
  Example apply0_example :
    let '(r, _, st') := run env0 1 (apply0 a0 qf0) 0 st0 in
    match r with Ok q => option_map Ok (abs1 dec_std st' q) | _ => None end
    = Some (Ops.apply0 f0 (Ops.F0Stream Frame.TInt (repeat (Frame.CInt 7) 4)) [66%N]).
  Proof. vm_compute. reflexivity. Qed.
  Example apply1_value :
    Ops.apply1 [] f0 (Ops.F1 Frame.TInt Frame.TInt tblA) [66%N] nA
    = Ok (Frame.mkFrame [(nA, dA); ([66%N], Frame.ICol [31; 11; 6; 21]%Z)] [0; 1; 3; 2] false).
  Proof. vm_compute. reflexivity. Qed.
End ApplyExamples.

From QF Require Proofs.FilterLeafProofs.

Module FilterExamples.
  Import HeapExamples RefineExamples.
  Definition n_lt : bytes := bs 1 0x3c.
  Definition dAl : list Z := [30; 10; 5; 20]%Z.
  Definition l0A : Filter.leaf := FilterLeafProofs.int_leaf nA n_lt 25.      (* A < 25 *)
  Definition PA (p : nat) : bool := FilterLeafProofs.int_leaf_set dAl l0A p.

  Example PA_values : map PA [0; 1; 2; 3] = [false; true; true; true].
  Proof. vm_compute. reflexivity. Qed.

  Example l0A_realised : l0_realised [] f0 l0A PA.
  Proof.
    intros i b Hincl Hlen.
    apply (FilterLeafProofs.int_leaf_realised [] f0 nA dAl eq_refl n_lt (bs 2 0x6c74) 25 (or_intror (or_introl eq_refl)) i b Hlen).
    apply Forall_forall. intros p Hp. apply Hincl in Hp. simpl in Hp. simpl. lia.
  Qed.

  Example lfA_heap_ok : leaf_heap_ok env0 st0 (q_map qf0) (Frame.ix f0) lfA PA.
  Proof.
    exists cA, None. split; [reflexivity|]. split; [reflexivity|]. split; [reflexivity|]. split; [reflexivity|].
    split; [reflexivity|].
    intros i Hin. unfold row_val. rewrite <- (cell_val_row st0 cA i). simpl in Hin.
    destruct Hin as [E|[E|[E|[E|[]]]]]; rewrite <- E; vm_compute; reflexivity.
  Qed.

  Example lfA_link : leaf_link env0 [] st0 (q_map qf0) f0 lfA l0A.
  Proof. exists PA. split; [exact lfA_heap_ok|exact l0A_realised]. Qed.

  Example flat_rel_examples :
    flat_rel env0 [] st0 (q_map qf0) f0 (CLeaf lfA) (Filter.CLeaf l0A) /\
    flat_rel env0 [] st0 (q_map qf0) f0 (COr false (map CLeaf [lfA; lfA])) (Filter.COr (map Filter.CLeaf [l0A; l0A])).
  Proof.
    split; [constructor; exact lfA_link|].
    constructor; [discriminate|]. constructor; [exact lfA_link|constructor; [exact lfA_link|constructor]].
  Qed.

  (* both sides computed *)
  Example filter_example :
    let '(r, _, st') := run env0 1 (op_filter (CLeaf lfA) qf0) 0 st0 in
    match r with Ok q => option_map Ok (abs1 dec_std st' q) | _ => None end
    = Some (Filter.frame_filter [] f0 (Filter.CLeaf l0A)).
  Proof. vm_compute. reflexivity. Qed.
  Example filter_value : Filter.frame_filter [] f0 (Filter.CLeaf l0A) = Ok (Frame.with_ix f0 [1; 3; 2]).
  Proof. vm_compute. reflexivity. Qed.

  Definition i1 : Ops.instr := Ops.mkInstr (Ops.F1 Frame.TInt Frame.TInt ApplyExamples.tblA) [66%N] nA [].
  Example filtered_apply_example :
    let '(r, _, st') := run env0 1 (op_filtered_apply (CLeaf lfA) [ApplyExamples.a1] qf0) 0 st0 in
    match r with Ok q => option_map Ok (abs1 dec_std st' q) | _ => None end
    = Some (Ops.filtered_apply [] [] f0 (Filter.CLeaf l0A) [i1]).
  Proof. vm_compute. reflexivity. Qed.
  Example filtered_apply_value :
    Ops.filtered_apply [] [] f0 (Filter.CLeaf l0A) [i1]
    = Ok (Frame.mkFrame [(nA, ApplyExamples.dA); ([66%N], Frame.ICol [0; 11; 6; 21]%Z)] [0; 1; 3; 2] false).
  Proof. vm_compute. reflexivity. Qed.
End FilterExamples.

From QF Require Import Proofs.HeapAggregate.

Module QFramesExamples.
  Import HeapExamples RefineExamples AggExamples.
  Example grouper_ok_example : grouper_ok dec_std st_g0 g0.
  Proof.
    constructor.
    - apply ref_ok_b_sound. vm_compute. reflexivity.
    - apply in_bounds_b_sound. vm_compute. reflexivity.
    - vm_compute. repeat constructor.
  Qed.
  Definition G0 : Aggregate.grouper := Aggregate.mkGrouper [(nA, Frame.ICol [30; 10; 5; 20]%Z)] [] [[0; 1; 3; 2]] false.
  Example abs_g_example : abs_g dec_std st_g0 g0 = Some G0.
  Proof. vm_compute. reflexivity. Qed.
  Example qframes_example :
    let '(r, _, st') := run env0 3 (op_qframes g0) 0 st_g0 in
    match r with Ok qs => Some (map (abs1 dec_std st') qs) | _ => None end
    = match Aggregate.qframes G0 with Ok fs => Some (map Some fs) | _ => None end.
  Proof. vm_compute. reflexivity. Qed.
  Example fresh3 : store_fresh 3 0 st_g0.
  Proof. intros k _. vm_compute. reflexivity. Qed.
End QFramesExamples.
