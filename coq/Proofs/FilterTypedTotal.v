(* Proofs/FilterTypedTotal.v — C02: on a well-formed frame the row-wise specification never faults; hence the
   premise "the specification answers for every leaf on every row" of the frame theorems only excludes the
   rows the specification leaves OPEN (an unrecorded user predicate / matcher, a negative any_bits mask,
   an order comparison of a non-strict enum column with a constant outside the type). *)
From QF Require Import Base.Prelude Base.KernelSyntax Gen.GenConsts Gen.GenTables Gen.GenKernels.
From QF Require Import Model.Frame Model.Bits Model.Kernel Model.Filter Model.FilterSpec.
From QF Require Import Proofs.FilterProofs Proofs.FilterLeafProofs Proofs.FilterTyped Proofs.FilterTypedEnum
                       Proofs.FilterTypedCustom Proofs.FilterTypedLeaf Proofs.FilterTypedFrame.
Local Open Scope nat_scope.

Ltac ok_now := eexists; reflexivity.

Lemma builtin_sat_total mt f c s arg p :
  col_row_ok c p -> arg_row_ok f arg p -> exists r, builtin_sat mt f c s arg p = Ok r.
Proof.
  intros Hrow Harg. unfold builtin_sat.
  assert (ArgCell : forall n c2, arg = AColName n -> lookup_col f n = Some c2 -> col_row_ok c2 p).
  { intros n c2 -> Hl. unfold arg_row_ok in Harg. rewrite Hl in Harg. exact Harg. }
  destruct c as [d|d|d|d|d vs st].
  - destruct Hrow as [Hp _]. cbn [col_len] in Hp. destruct (idx_lt d p Hp) as [v Hv].
    cbn [cell_at]. rewrite Hv. cbn [obind].
    destruct arg as [z|fb ft|bb|str|zs|fs|ss|ifs|n| |]; try ok_now.
    destruct (lookup_col f n) as [c2|] eqn:Hl; [|ok_now].
    pose proof (ArgCell n c2 eq_refl Hl) as [Hp2 _].
    destruct c2 as [d2|d2|d2|d2|d2 vs2 st2]; try ok_now; cbn [col_len] in Hp2;
      destruct (idx_lt d2 p Hp2) as [w Hw]; rewrite Hw; ok_now.
  - destruct Hrow as [Hp _]. cbn [col_len] in Hp. destruct (idx_lt d p Hp) as [v Hv].
    cbn [cell_at]. rewrite Hv. cbn [obind].
    destruct arg as [z|fb ft|bb|str|zs|fs|ss|ifs|n| |]; try ok_now.
    destruct (lookup_col f n) as [c2|] eqn:Hl; [|ok_now].
    pose proof (ArgCell n c2 eq_refl Hl) as [Hp2 _].
    destruct c2 as [d2|d2|d2|d2|d2 vs2 st2]; try ok_now; cbn [col_len] in Hp2;
      destruct (idx_lt d2 p Hp2) as [w Hw]; rewrite Hw; ok_now.
  - destruct Hrow as [Hp _]. cbn [col_len] in Hp. destruct (idx_lt d p Hp) as [v Hv].
    cbn [cell_at]. rewrite Hv. cbn [obind].
    destruct arg as [z|fb ft|bb|str|zs|fs|ss|ifs|n| |]; try ok_now.
    destruct (lookup_col f n) as [c2|] eqn:Hl; [|ok_now].
    pose proof (ArgCell n c2 eq_refl Hl) as [Hp2 _].
    destruct c2 as [d2|d2|d2|d2|d2 vs2 st2]; try ok_now; cbn [col_len] in Hp2;
      destruct (idx_lt d2 p Hp2) as [w Hw]; rewrite Hw; ok_now.
  - destruct Hrow as [Hp _]. cbn [col_len] in Hp. destruct (idx_lt d p Hp) as [v Hv].
    cbn [cell_at]. rewrite Hv. cbn [obind].
    destruct arg as [z|fb ft|bb|str|zs|fs|ss|ifs|n| |]; cbn [norm_strs]; try ok_now.
    + destruct (iface_strs ifs); ok_now.
    + destruct (lookup_col f n) as [c2|] eqn:Hl; [|ok_now].
      pose proof (ArgCell n c2 eq_refl Hl) as [Hp2 _].
      destruct c2 as [d2|d2|d2|d2|d2 vs2 st2]; try ok_now; cbn [col_len] in Hp2;
        destruct (idx_lt d2 p Hp2) as [w Hw]; rewrite Hw; ok_now.
  - destruct (enum_cell_cases d vs st p Hrow) as [r [Hr [_ Hcase]]].
    assert (Hes : exists x, enum_string vs r = Ok x).
    { destruct Hcase as [[_ E]|[_ [x [E _]]]]; eexists; exact E. }
    destruct Hes as [x Hes]. cbn [cell_at]. rewrite Hr. cbn [obind]. rewrite Hes. cbn [obind].
    destruct arg as [z|fb ft|bb|str|zs|fs|ss|ifs|n| |]; cbn [norm_strs]; try ok_now.
    + destruct (iface_strs ifs); ok_now.
    + destruct (lookup_col f n) as [c2|] eqn:Hl; [|ok_now].
      pose proof (ArgCell n c2 eq_refl Hl) as Hrow2.
      destruct c2 as [d2|d2|d2|d2|d2 vs2 st2]; try ok_now.
      destruct (enum_cell_cases d2 vs2 st2 p Hrow2) as [r2 [Hr2 [_ Hcase2]]].
      assert (Hes2 : exists x2, enum_string vs2 r2 = Ok x2).
      { destruct Hcase2 as [[_ E]|[_ [x2 [E _]]]]; eexists; exact E. }
      destruct Hes2 as [x2 Hes2]. cbn [cell_at]. rewrite Hr2. cbn [obind]. rewrite Hes2. ok_now.
Qed.

Theorem leaf_sat_total mt f l p :
  frame_ok f -> p < phys_len f -> exists r, leaf_sat mt f l p = Ok r.
Proof.
  intros Hok Hp. rewrite leaf_sat_unfold.
  destruct (lookup_col f (lcol l)) as [c|] eqn:Hc; [|ok_now].
  pose proof (frame_col_row_ok f _ c p Hok Hc Hp) as Hrow.
  assert (Harg : arg_row_ok f (larg l) p).
  { unfold arg_row_ok. destruct (larg l); try exact I.
    destruct (lookup_col f n) as [c2|] eqn:Hl2; [|exact I]. eapply frame_col_row_ok; eassumption. }
  assert (Hcore : exists r, leaf_core mt f c (lcmp l) (larg l) p = Ok r).
  { unfold leaf_core. destruct (lcmp l) as [s|t tbl|t tbl|].
    - destruct (larg l) as [z|fb ft|bb|str|zs|fs|ss|ifs|n| |] eqn:Ea; try (apply builtin_sat_total; assumption).
      destruct (lookup_col f n) as [c2|] eqn:Hl; [|ok_now]. apply builtin_sat_total; assumption.
    - assert (Plain : forall c', col_row_ok c' p ->
                exists r, (if fn_type_ok c' t
                           then do x <- cell_at c' p;
                                Ok (match find (fun e => cell_key_eqb (fst e) x) tbl with Some e => det (snd e) | None => open_ end)
                           else Ok invalid) = Ok r).
      { intros c' Hr'. destruct (fn_type_ok c' t); [|ok_now]. destruct (cell_at_ok c' p Hr') as [x Hx]. rewrite Hx. ok_now. }
      destruct (larg l) as [z|fb ft|bb|str|zs|fs|ss|ifs|n| |] eqn:Ea; try (apply Plain; assumption).
      destruct (lookup_col f n) as [c2|] eqn:Hl; [|ok_now].
      destruct c as [d|d|d|d|d vs st]; destruct c2 as [d2|d2|d2|d2|d2 vs2 st2]; try (apply Plain; assumption).
      apply Plain. apply promoted_row_ok. exact Hrow.
    - destruct (larg l) as [z|fb ft|bb|str|zs|fs|ss|ifs|n| |] eqn:Ea; try ok_now.
      destruct (lookup_col f n) as [c2|] eqn:Hl; [|ok_now].
      unfold arg_row_ok in Harg. rewrite Hl in Harg.
      assert (Pair : forall c' c2', col_row_ok c' p -> col_row_ok c2' p ->
                exists r, (if fn_type_ok c' t && ctype_eqb (col_type c') (col_type c2')
                           then do x <- cell_at c' p; do y <- cell_at c2' p;
                                Ok (match find (fun e => cell_key_eqb (fst (fst e)) x && cell_key_eqb (snd (fst e)) y) tbl with
                                    | Some e => det (snd e) | None => open_ end)
                           else Ok invalid) = Ok r).
      { intros c' c2' H1 H2. destruct (fn_type_ok c' t && ctype_eqb (col_type c') (col_type c2')); [|ok_now].
        destruct (cell_at_ok c' p H1) as [x Hx]. destruct (cell_at_ok c2' p H2) as [y Hy]. rewrite Hx. cbn [obind]. rewrite Hy. ok_now. }
      destruct c as [d|d|d|d|d vs st]; destruct c2 as [d2|d2|d2|d2|d2 vs2 st2]; try (apply Pair; assumption).
      + apply Pair; [apply promoted_row_ok; exact Hrow|exact Harg].
      + apply Pair; [exact Hrow|apply promoted_row_ok; exact Harg].
    - ok_now. }
  destruct Hcore as [r Hr]. rewrite Hr. ok_now.
Qed.

(* "closed" = "no row of the frame is left open by the specification" *)
Theorem leaf_closed_iff_not_open mt f l :
  frame_ok f ->
  (leaf_closed mt f l <-> forall p, In p (ix f) -> leaf_sat mt f l p <> Ok (Some None)).
Proof.
  intro Hok. split.
  - intros H p Hp E. destruct (H p Hp) as [E2|[v E2]]; rewrite E in E2; discriminate.
  - intros H p Hp. destruct (leaf_sat_total mt f l p Hok (ix_in_range f Hok p Hp)) as [r Hr].
    destruct r as [[v|]|]; [right; exists v; exact Hr|exfalso; exact (H p Hp Hr)|left; exact Hr].
Qed.
