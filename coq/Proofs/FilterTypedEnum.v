(* Proofs/FilterTypedEnum.v — C02, typed meaning of the leaves over an ENUM column (internal/ecolumn):
   rank comparison against a constant of the type, unknown constants (strict: error; otherwise = matches
   nothing and != everything), in / like / ilike through the 256-bit set, another enum column of an equal type,
   isnull / isnotnull; one row at a time, against Model/FilterSpec.v. *)
From QF Require Import Base.Prelude Base.KernelSyntax Gen.GenConsts Gen.GenTables Gen.GenKernels.
From QF Require Import Model.Frame Model.Bits Model.Kernel Model.Filter Model.FilterSpec.
From QF Require Import Proofs.FilterProofs Proofs.FilterLeafProofs Proofs.FilterTyped.
Local Open Scope nat_scope.

(* ------------------------------------------------------------------ values <-> ranks *)

Lemma bytes_cmp_eq_inv a : forall b, bytes_cmp a b = Eq -> a = b.
Proof.
  induction a as [|x a IH]; intros [|y b] H; simpl in H; try discriminate; [reflexivity|].
  destruct (N.compare_spec x y) as [E|E|E]; try discriminate. subst. f_equal. apply IH. exact H.
Qed.

Lemma find_value_bounds : forall vs s k r, find_value vs s k = Some r -> (k <= r < k + N.of_nat (length vs))%N.
Proof.
  induction vs as [|v vs IH]; intros s k r H; simpl in H; [discriminate|].
  destruct (bytes_eqb v s).
  - inversion H; subst. simpl length. lia.
  - apply IH in H. simpl length. lia.
Qed.

Lemma find_value_none : forall vs s k, find_value vs s k = None -> forall x, In x vs -> x <> s.
Proof.
  induction vs as [|v vs IH]; intros s k H x Hx; simpl in *; [contradiction|].
  destruct (bytes_eqb v s) eqn:E; [discriminate|].
  destruct Hx as [<-|Hx].
  - intro Heq. subst. rewrite bytes_eqb_refl in E. discriminate.
  - eapply IH; eassumption.
Qed.

Lemma find_value_nth : forall vs j x k,
  NoDup vs -> nth_error vs j = Some x -> find_value vs x k = Some (k + N.of_nat j)%N.
Proof.
  induction vs as [|v vs IH]; intros j x k Hnd Hn; [destruct j; discriminate|].
  inversion Hnd as [|? ? Hnotin Hnd']; subst.
  destruct j as [|j]; simpl in Hn |- *.
  - inversion Hn; subst. rewrite bytes_eqb_refl. f_equal. lia.
  - destruct (bytes_eqb v x) eqn:E.
    + apply bytes_eqb_spec in E. subst. exfalso. apply Hnotin. eapply nth_error_In. exact Hn.
    + rewrite (IH j x (k + 1)%N Hnd' Hn). f_equal. lia.
Qed.

(* the two shapes of a readable enum cell *)
Lemma enum_cell_cases d vs st p :
  col_row_ok (ECol d vs st) p ->
  exists r, idx d p = Ok r /\ length vs <= 255 /\
    ((enum_is_null r = true /\ enum_string vs r = Ok None)
     \/ (enum_is_null r = false /\
         exists x, enum_string vs r = Ok (Some x) /\ find_value vs x 0 = Some r /\ In x vs)).
Proof.
  intros [Hp [Hwf Hnd]]. cbn [col_len] in Hp. cbn [col_wf] in Hwf.
  apply andb_true_iff in Hwf as [Hranks Hlen].
  destruct (idx_lt d p Hp) as [r Hr]. exists r. split; [exact Hr|].
  assert (Hl : length vs <= 255) by (apply Nat.leb_le in Hlen; vm_compute in Hlen; exact Hlen).
  split; [exact Hl|].
  assert (Hin : In r d).
  { unfold idx in Hr. destruct (nth_error d p) eqn:E; [|discriminate]. inversion Hr; subst.
    eapply nth_error_In. exact E. }
  rewrite forallb_forall in Hranks. specialize (Hranks r Hin). unfold enum_rank_ok in Hranks.
  unfold enum_string.
  destruct (enum_is_null r) eqn:En; [left; split; reflexivity|].
  right. split; [reflexivity|]. simpl in Hranks. apply Nat.ltb_lt in Hranks.
  destruct (idx_lt vs (N.to_nat r) Hranks) as [x Hx]. exists x. rewrite Hx. split; [reflexivity|].
  unfold idx in Hx. destruct (nth_error vs (N.to_nat r)) eqn:E; [|discriminate]. inversion Hx; subst.
  split; [|eapply nth_error_In; exact E].
  rewrite (find_value_nth vs (N.to_nat r) x 0%N Hnd E). f_equal. lia.
Qed.

Lemma found_not_null vs s r : length vs <= 255 -> find_value vs s 0 = Some r -> enum_is_null r = false.
Proof.
  intros Hl H. apply find_value_bounds in H. unfold enum_is_null.
  apply N.eqb_neq. change c_nullValue with 255%N. lia.
Qed.

(* ------------------------------------------------------------------ the 256-bit set *)

Lemma land_pow2 x k : N.land x (2 ^ k) = if N.testbit x k then (2 ^ k)%N else 0%N.
Proof.
  apply N.bits_inj. intro j. rewrite N.land_spec, N.pow2_bits_eqb.
  destruct (N.eqb_spec k j) as [->|Hne].
  - rewrite andb_true_r. destruct (N.testbit x j) eqn:E; [rewrite N.pow2_bits_eqb, N.eqb_refl|rewrite N.bits_0]; reflexivity.
  - rewrite andb_false_r. destruct (N.testbit x k); [rewrite N.pow2_bits_eqb|rewrite N.bits_0; reflexivity].
    symmetry. apply N.eqb_neq. exact Hne.
Qed.

Lemma u64_pow2 k : (k < 64)%N -> u64 (2 ^ k) = (2 ^ k)%N.
Proof.
  intro H. unfold u64. apply N.mod_small. apply N.pow_lt_mono_r; lia.
Qed.

Lemma land63_lt w : (N.land w 63 < 64)%N.
Proof.
  change 63%N with (N.ones 6). rewrite N.land_ones. apply N.mod_lt. discriminate.
Qed.

Lemma isset_testbit (S : bitset) (w : N) :
  bitset_isset S w = N.testbit (nth (N.to_nat (N.shiftr w 6)) S 0%N) (N.land w 63).
Proof.
  unfold bitset_isset.
  change c_bitset_isset_shift with 6%N. change c_bitset_isset_one with 1%N.
  change c_bitset_isset_mask with 63%N. change c_bitset_isset_cmp with 0%N.
  rewrite N.shiftl_1_l, (u64_pow2 _ (land63_lt w)), land_pow2.
  destruct (N.testbit _ _); [|reflexivity].
  apply N.ltb_lt. apply N.neq_0_lt_0. apply N.pow_nonzero. discriminate.
Qed.

Lemma nth_set_nth (S : list N) i j v : i < length S ->
  nth j (set_nth S i v) 0%N = if Nat.eqb i j then v else nth j S 0%N.
Proof.
  revert i j. induction S as [|x S IH]; intros i j Hi; simpl in Hi; [lia|].
  destruct i as [|i]; destruct j as [|j]; simpl; try reflexivity.
  apply IH. lia.
Qed.

Lemma split_byte a w : (N.shiftr a 6 = N.shiftr w 6) -> N.land a 63 = N.land w 63 -> a = w.
Proof.
  intros H1 H2. rewrite !N.shiftr_div_pow2 in H1. change 63%N with (N.ones 6) in H2. rewrite !N.land_ones in H2.
  rewrite (N.div_mod a (2 ^ 6)), (N.div_mod w (2 ^ 6)) by discriminate. rewrite H1, H2. reflexivity.
Qed.

Lemma isset_set (S : bitset) (a w : N) :
  length S = 4 -> (a < 256)%N ->
  bitset_isset (bitset_set S a) w = (N.eqb a w) || bitset_isset S w.
Proof.
  intros HS Ha. rewrite !isset_testbit. unfold bitset_set.
  change c_bitset_set_shift with 6%N. change c_bitset_set_one with 1%N. change c_bitset_set_mask with 63%N.
  assert (Hw : N.to_nat (N.shiftr a 6) < length S).
  { rewrite HS. rewrite N.shiftr_div_pow2. assert (a / 2 ^ 6 < 4)%N by (apply N.div_lt_upper_bound; [discriminate|exact Ha]). lia. }
  rewrite nth_set_nth by exact Hw.
  rewrite N.shiftl_1_l, (u64_pow2 _ (land63_lt a)).
  destruct (Nat.eqb_spec (N.to_nat (N.shiftr a 6)) (N.to_nat (N.shiftr w 6))) as [E|E].
  - rewrite N.lor_spec, N.pow2_bits_eqb. rewrite <- E.
    destruct (N.eqb_spec (N.land a 63) (N.land w 63)) as [E2|E2].
    + assert (a = w) by (apply split_byte; [lia|exact E2]). subst. rewrite N.eqb_refl, orb_true_r. reflexivity.
    + rewrite orb_false_r. destruct (N.eqb_spec a w) as [->|_]; [congruence|reflexivity].
  - destruct (N.eqb_spec a w) as [->|_]; [congruence|reflexivity].
Qed.

Lemma set_length (S : bitset) a : length (bitset_set S a) = length S.
Proof. unfold bitset_set. apply set_nth_length. Qed.

Lemma isset_empty w : bitset_isset bitset_empty w = false.
Proof.
  rewrite isset_testbit. unfold bitset_empty.
  destruct (N.to_nat (N.shiftr w 6)) as [|[|[|[|[|k]]]]]; cbn [nth]; apply N.bits_0.
Qed.

(* for i, v := range values { if pred(v) { bset.set(enumVal(i)) } } : bit w is set iff values[w] satisfies pred *)
Lemma bitset_of_spec (pred : bytes -> bool) : forall values,
  length values <= 256 ->
  length (bitset_of values pred) = 4 /\
  forall w, bitset_isset (bitset_of values pred) w
            = match nth_error values (N.to_nat w) with Some x => pred x | None => false end.
Proof.
  unfold bitset_of.
  assert (G : forall values, length values <= 256 ->
            let st := fold_left (fun '(i, s) v => ((i + 1)%N, if pred v then bitset_set s (i mod 256) else s))
                                values (0%N, bitset_empty) in
            fst st = N.of_nat (length values) /\ length (snd st) = 4 /\
            forall w, bitset_isset (snd st) w
                      = match nth_error values (N.to_nat w) with Some x => pred x | None => false end).
  { induction values as [|x values IH] using rev_ind; intro Hl.
    - simpl. split; [reflexivity|]. split; [reflexivity|]. intro w. rewrite isset_empty.
      destruct (N.to_nat w); reflexivity.
    - rewrite app_length in Hl. simpl in Hl.
      destruct (IH ltac:(lia)) as [H1 [H2 H3]].
      rewrite fold_left_app. cbn zeta in *.
      destruct (fold_left _ values (0%N, bitset_empty)) as [k S] eqn:Efold.
      cbn [fst snd] in *. cbn [fold_left]. cbn [fst snd].
      split; [rewrite app_length; simpl; lia|].
      assert (Hk : (k mod 256 = k)%N) by (apply N.mod_small; lia).
      split; [destruct (pred x); [rewrite set_length|]; exact H2|].
      intro w.
      destruct (Nat.lt_ge_cases (N.to_nat w) (length values)) as [Hlt|Hge].
      + rewrite nth_error_app1 by exact Hlt.
        destruct (pred x); [|apply H3].
        rewrite isset_set by (try exact H2; lia). rewrite H3.
        destruct (N.eqb_spec (k mod 256) w) as [E|_]; [lia|reflexivity].
      + rewrite nth_error_app2 by exact Hge.
        destruct (Nat.eq_dec (N.to_nat w) (length values)) as [E|E].
        * replace (N.to_nat w - length values) with 0 by lia. simpl.
          destruct (pred x).
          -- rewrite isset_set by (try exact H2; lia).
             destruct (N.eqb_spec (k mod 256) w) as [_|E2]; [reflexivity|lia].
          -- rewrite H3. destruct (nth_error values (N.to_nat w)) eqn:E3; [|reflexivity].
             assert (nth_error values (N.to_nat w) <> None) by congruence.
             apply nth_error_Some in H. lia.
        * assert (Hn : nth_error [x] (N.to_nat w - length values) = None) by (apply nth_error_None; simpl; lia).
          rewrite Hn.
          assert (H0 : nth_error values (N.to_nat w) = None) by (apply nth_error_None; lia).
          destruct (pred x).
          -- rewrite isset_set by (try exact H2; lia). rewrite H3, H0.
             destruct (N.eqb_spec (k mod 256) w) as [E2|_]; [lia|reflexivity].
          -- rewrite H3, H0. reflexivity. }
  intros values Hl. destruct (G values Hl) as [_ [H2 H3]]. split; assumption.
Qed.

Lemma bitset_row_null vs pred r :
  length vs <= 255 -> enum_is_null r = true -> bitset_isset (bitset_of vs pred) r = false.
Proof.
  intros Hl Hn. destruct (bitset_of_spec pred vs ltac:(lia)) as [_ H]. rewrite H.
  unfold enum_is_null in Hn. apply N.eqb_eq in Hn. change c_nullValue with 255%N in Hn. subst r.
  assert (E : nth_error vs (N.to_nat 255) = None) by (apply nth_error_None; lia).
  rewrite E. reflexivity.
Qed.

Lemma bitset_row_val vs pred r x :
  length vs <= 255 -> enum_is_null r = false -> enum_string vs r = Ok (Some x) ->
  bitset_isset (bitset_of vs pred) r = pred x.
Proof.
  intros Hl Hn Hes. destruct (bitset_of_spec pred vs ltac:(lia)) as [_ H]. rewrite H.
  unfold enum_string in Hes. rewrite Hn in Hes. unfold idx in Hes.
  destruct (nth_error vs (N.to_nat r)); [|discriminate]. simpl in Hes. inversion Hes. reflexivity.
Qed.

Lemma rank_cmp op a b : cmp_int op (Z.of_N a) (Z.of_N b) = ord_sat op (N.compare a b).
Proof. unfold cmp_int. rewrite N2Z.inj_compare. reflexivity. Qed.

Lemma unknown_const_cmp vs x k : In x vs -> find_value vs k 0 = None -> bytes_cmp x k <> Eq.
Proof.
  intros Hin Hfv Heq. apply bytes_cmp_eq_inv in Heq. exact (find_value_none vs k 0%N Hfv x Hin Heq).
Qed.

Ltac rc := repeat (progress reduce_closed1).
Ltac e_model_unfold := unfold col_filter, e_filter_builtin, run_tbl; cbn [norm_strs].

(* ------------------------------------------------------------------ the row statement for enum columns *)

Ltac note_found :=
  repeat match goal with
         | H : find_value ?vs ?k 0%N = Some ?rk, Hl : length ?vs <= 255 |- _ =>
             lazymatch goal with
             | _ : enum_is_null rk = false |- _ => fail
             | _ => pose proof (found_not_null vs k rk Hl H)
             end
         end.

Ltac rw_facts :=
  repeat match goal with
         | H : enum_is_null _ = _ |- _ => rewrite H
         | H : find_value _ _ _ = _ |- _ => rewrite H
         | H : find_matcher _ _ _ = _ |- _ => rewrite H
         | H : idx _ _ = Ok _ |- _ => rewrite H
         | H : iface_strs _ = _ |- _ => rewrite H
         | H : equal_types _ _ _ _ = _ |- _ => rewrite H
         end.

Ltac e_fin :=
  cbn [rank_of map]; rw_facts; cbn [cmp_rank cmp_str null_answer is_ne_op negb]; rewrite ?rank_cmp;
  first [ reflexivity
        | erewrite bitset_row_null by eassumption; reflexivity
        | erewrite bitset_row_val by eassumption; reflexivity
        | match goal with
          | |- context[bytes_cmp ?x ?k] =>
              destruct (bytes_cmp x k) eqn:?E; [exfalso; eapply unknown_const_cmp; eassumption | reflexivity..]
          end ].

Ltac e_known :=
  rc; unfold like_sat; rc;
  try match goal with |- context[find_matcher ?m ?s ?c] => destruct (find_matcher m s c) as [[?mm|]|] eqn:?Hfm end;
  try match goal with |- context[find_value ?vs ?k 0%N] => destruct (find_value vs k 0%N) as [?rk|] eqn:?Hfv end;
  try match goal with |- context[if ?st then invalid else _] => destruct st end;
  cbn [is_eqne]; spec_done; note_found;
  first [ exact I
        | e_model_unfold; rw_facts; rc; rw_facts; rc;
          first [ intros i b; reflexivity
                | reflexivity
                | unfold with_bitset; eval_run; rw_facts; cbn [obind]; rw_facts; cbn [obind as_bool negb]; kcmp;
                  cbn [obind as_bool negb]; e_fin ] ].

Ltac e_unknown Hunk :=
  unk Hunk; unfold like_sat; unk Hunk; spec_done;
  first [ exact I | intros i b; e_model_unfold; rw_facts; unk Hunk; reflexivity ].


Lemma equal_types_values vs n1 v2 n2 : equal_types vs n1 v2 n2 = true -> v2 = vs.
Proof.
  unfold equal_types. intro H. apply andb_true_iff in H as [_ H].
  apply (list_eqb_spec bytes_eqb bytes_eqb_spec) in H. symmetry. exact H.
Qed.

Ltac e_invalid Hr Hes :=
  unfold builtin_sat; cbn [cell_at norm_strs]; rewrite Hr; cbn [obind]; rewrite Hes; cbn [obind];
  spec_done; intros i b; reflexivity.

Theorem colrow_enum mt f d vs st s arg p :
  col_row_ok (ECol d vs st) p -> arg_row_ok f arg p -> colrow_ok mt f (ECol d vs st) (CmpName s) arg p.
Proof.
  intros Hrow Harg.
  destruct (enum_cell_cases d vs st p Hrow) as [r [Hr [Hlen Hcase]]].
  unfold colrow_ok, leaf_core, resolve.
  destruct arg as [z|fb ft|bb|k|zs|fs|ss|ifs|n| |].
  - destruct Hcase as [[Hnull Hes]|[Hnull [x [Hes [Hfx Hinx]]]]]; e_invalid Hr Hes.
  - destruct Hcase as [[Hnull Hes]|[Hnull [x [Hes [Hfx Hinx]]]]]; e_invalid Hr Hes.
  - destruct Hcase as [[Hnull Hes]|[Hnull [x [Hes [Hfx Hinx]]]]]; e_invalid Hr Hes.
  - (* string constant: rank comparison, unknown constants, like / ilike *)
    unfold builtin_sat. cbn [cell_at norm_strs]. rewrite Hr. cbn [obind].
    destruct Hcase as [[Hnull Hes]|[Hnull [x [Hes [Hfx Hinx]]]]]; rewrite Hes; cbn [obind];
      (name_cases s Hunk; [ e_known .. | e_unknown Hunk ]).
  - destruct Hcase as [[Hnull Hes]|[Hnull [x [Hes [Hfx Hinx]]]]]; e_invalid Hr Hes.
  - destruct Hcase as [[Hnull Hes]|[Hnull [x [Hes [Hfx Hinx]]]]]; e_invalid Hr Hes.
  - (* []string : in *)
    unfold builtin_sat. cbn [cell_at norm_strs]. rewrite Hr. cbn [obind].
    destruct Hcase as [[Hnull Hes]|[Hnull [x [Hes [Hfx Hinx]]]]]; rewrite Hes; cbn [obind];
      (name_cases s Hunk; [ e_known .. | e_unknown Hunk ]).
  - (* []interface{} *)
    unfold builtin_sat. cbn [cell_at norm_strs]. rewrite Hr. cbn [obind].
    destruct (iface_strs ifs) as [l|] eqn:Hif.
    + destruct Hcase as [[Hnull Hes]|[Hnull [x [Hes [Hfx Hinx]]]]]; rewrite Hes; cbn [obind];
        (name_cases s Hunk; [ e_known .. | e_unknown Hunk ]).
    + destruct Hcase as [[Hnull Hes]|[Hnull [x [Hes [Hfx Hinx]]]]]; rewrite Hes; cbn [obind];
        spec_done; intros i b; e_model_unfold; rewrite Hif; reflexivity.
  - (* another column *)
    unfold arg_row_ok in Harg.
    destruct (lookup_col f n) as [c2|] eqn:Hl; [|exact I].
    destruct c2 as [d2|d2|d2|d2|d2 v2 st2];
      try (unfold builtin_sat; cbn [cell_at norm_strs]; rewrite Hr; cbn [obind];
           destruct Hcase as [[Hnull Hes]|[Hnull [x [Hes [Hfx Hinx]]]]]; rewrite Hes; cbn [obind];
           rewrite Hl; spec_done; intros i b; reflexivity).
    destruct (enum_cell_cases d2 v2 st2 p Harg) as [r2 [Hr2 [Hlen2 Hcase2]]].
    unfold builtin_sat. cbn [cell_at norm_strs]. rewrite Hr. cbn [obind].
    destruct (equal_types vs (length d) v2 (length d2)) eqn:Heq.
    + pose proof (equal_types_values _ _ _ _ Heq) as Hv2. subst v2.
      destruct Hcase as [[Hnull Hes]|[Hnull [x [Hes [Hfx Hinx]]]]]; rewrite Hes; cbn [obind]; rewrite Hl;
        cbn [cell_at]; rewrite Hr2; cbn [obind];
        destruct Hcase2 as [[Hnull2 Hes2]|[Hnull2 [x2 [Hes2 [Hfx2 Hinx2]]]]]; rewrite Hes2; cbn [obind];
        rewrite Heq;
        (name_cases s Hunk; [ e_known .. | e_unknown Hunk ]).
    + destruct Hcase as [[Hnull Hes]|[Hnull [x [Hes [Hfx Hinx]]]]]; rewrite Hes; cbn [obind]; rewrite Hl;
        cbn [cell_at]; rewrite Hr2; cbn [obind];
        destruct Hcase2 as [[Hnull2 Hes2]|[Hnull2 [x2 [Hes2 [Hfx2 Hinx2]]]]]; rewrite Hes2; cbn [obind];
        rewrite Heq; spec_done; intros i b; e_model_unfold; rewrite Heq; reflexivity.
  - (* nil : isnull / isnotnull *)
    unfold builtin_sat. cbn [cell_at norm_strs]. rewrite Hr. cbn [obind].
    destruct Hcase as [[Hnull Hes]|[Hnull [x [Hes [Hfx Hinx]]]]]; rewrite Hes; cbn [obind];
      (name_cases s Hunk; [ e_known .. | e_unknown Hunk ]).
  - destruct Hcase as [[Hnull Hes]|[Hnull [x [Hes [Hfx Hinx]]]]]; e_invalid Hr Hes.
Qed.
