(* Proofs/EvalNoPanic.v — property C10 for QFrame.Eval (Model/Eval.v): well-formedness is preserved for EVERY
   expression tree, context, destination and frame; and under the premises of the C07 theorem (Proofs/EvalFull.v)
   together with "the recorded function tables of the context answer" Eval never reaches Panic. *)
From QF Require Import Base.Prelude Base.CaseLib Model.Frame Model.Filter Model.Ops Model.TableSpec Model.Eval.
From QF Require Import Proofs.NoPanicProofs Proofs.EvalFull Corr.FrameCorr.
Local Open Scope nat_scope.

(* ------------------------------------------------------------------ well-formedness, no premise at all *)

Lemma wf_with_err f : wf_frame f = true -> wf_frame (with_err f) = true.
Proof. intro H. exact H. Qed.

Lemma wf_get_fn cx two f col op : wf_frame f = true -> wf_frame (fst (get_fn cx two f col op)) = true.
Proof.
  intro H. unfold get_fn. destruct (ferr f); [exact H|].
  destruct (lookup_col f col) as [c|]; [|exact H].
  destruct (get_func cx (col_ftype c) two op); exact H.
Qed.

Section WfExecute.
  Variable ut : upper_table.
  Variable cx : ctx.

  Lemma wf_exec_const f v r nm : wf_frame f = true -> exec_const ut f v = Ok (r, nm) -> wf_frame r = true.
  Proof.
    intros Hw H. unfold exec_const in H. destruct (ferr f); [inversion H; subst; exact Hw|].
    destruct (temp_col_name f p_const) as [name| |]; cbn [obind] in H; try discriminate.
    destruct (apply ut f _) as [r'| |] eqn:Ea; cbn [obind] in H; try discriminate.
    inversion H; subst. exact (wf_apply ut f _ r Hw Ea).
  Qed.

  Lemma wf_exec_unary f op col r nm : wf_frame f = true -> exec_unary ut cx f op col = Ok (r, nm) -> wf_frame r = true.
  Proof.
    intros Hw H. unfold exec_unary in H. pose proof (wf_get_fn cx false f col op Hw) as Hg.
    destruct (get_fn cx false f col op) as [f' fn]. cbn [fst] in Hg.
    destruct (ferr f'); [inversion H; subst; exact Hg|].
    destruct fn as [g|]; [|discriminate].
    destruct (temp_col_name f' p_unary) as [name| |]; cbn [obind] in H; try discriminate.
    destruct (apply ut f' _) as [r'| |] eqn:Ea; cbn [obind] in H; try discriminate.
    inversion H; subst. exact (wf_apply ut f' _ r Hg Ea).
  Qed.

  Lemma wf_exec_colcol f op c1 c2 r nm :
    wf_frame f = true -> exec_colcol ut cx f op c1 c2 = Ok (r, nm) -> wf_frame r = true.
  Proof.
    intros Hw H. unfold exec_colcol in H. pose proof (wf_get_fn cx true f c1 op Hw) as Hg.
    destruct (get_fn cx true f c1 op) as [f' fn]. cbn [fst] in Hg.
    destruct (ferr f'); [inversion H; subst; exact Hg|].
    destruct fn as [g|]; [|discriminate].
    destruct (temp_col_name f' p_colcol) as [name| |]; cbn [obind] in H; try discriminate.
    destruct (apply ut f' _) as [r'| |] eqn:Ea; cbn [obind] in H; try discriminate.
    inversion H; subst. exact (wf_apply ut f' _ r Hg Ea).
  Qed.

  Lemma wf_execute e : forall f r nm, wf_frame f = true -> execute ut cx e f = Ok (r, nm) -> wf_frame r = true.
  Proof.
    induction e as [m|v|op c|op c v cf|op c1 c2|op e1 IH1|op l IHl r0 IHr|]; intros f r nm Hw H; cbn [execute] in H.
    - inversion H; subst. exact Hw.
    - exact (wf_exec_const f v r nm Hw H).
    - exact (wf_exec_unary f op c r nm Hw H).
    - destruct (ferr f); [inversion H; subst; exact Hw|].
      destruct (exec_const ut f v) as [[r1 cname]| |] eqn:E1; cbn [obind] in H; try discriminate.
      pose proof (wf_exec_const f v r1 cname Hw E1) as Hw1.
      destruct cf.
      + destruct (exec_colcol ut cx r1 op cname c) as [[r2 name]| |] eqn:E2; cbn [obind] in H; try discriminate.
        inversion H; subst. apply wf_drop. exact (wf_exec_colcol r1 op cname c r2 nm Hw1 E2).
      + destruct (exec_colcol ut cx r1 op c cname) as [[r2 name]| |] eqn:E2; cbn [obind] in H; try discriminate.
        inversion H; subst. apply wf_drop. exact (wf_exec_colcol r1 op c cname r2 nm Hw1 E2).
    - exact (wf_exec_colcol f op c1 c2 r nm Hw H).
    - destruct (execute ut cx e1 f) as [[r1 tmp]| |] eqn:E1; cbn [obind] in H; try discriminate.
      pose proof (IH1 f r1 tmp Hw E1) as Hw1.
      destruct (exec_unary ut cx r1 op tmp) as [[r2 name]| |] eqn:E2; cbn [obind] in H; try discriminate.
      pose proof (wf_exec_unary r1 op tmp r2 name Hw1 E2) as Hw2.
      inversion H; subst. destruct (contains f tmp); [exact Hw2|apply wf_drop; exact Hw2].
    - destruct (execute ut cx l f) as [[fl lname]| |] eqn:E1; cbn [obind] in H; try discriminate.
      pose proof (IHl f fl lname Hw E1) as Hw1.
      destruct (execute ut cx r0 fl) as [[fr rname]| |] eqn:E2; cbn [obind] in H; try discriminate.
      pose proof (IHr fl fr rname Hw1 E2) as Hw2.
      destruct (exec_colcol ut cx fr op lname rname) as [[f' name]| |] eqn:E3; cbn [obind] in H; try discriminate.
      pose proof (wf_exec_colcol fr op lname rname f' name Hw2 E3) as Hw3.
      inversion H; subst. unfold drop_unless_original. apply wf_drop. exact Hw3.
    - destruct (ferr f); inversion H; subst; exact Hw.
  Qed.

  (* QFrame.Eval preserves well-formedness: every tree (valid or not), every context, every destination *)
  Theorem wf_eval f dst e g : wf_frame f = true -> eval ut cx f dst e = Ok g -> wf_frame g = true.
  Proof.
    intros Hw H. unfold eval in H. destruct (ferr f); [inversion H; subst; exact Hw|].
    destruct (execute ut cx e f) as [[r name]| |] eqn:E; cbn [obind] in H; try discriminate.
    pose proof (wf_execute e f r name Hw E) as Hr.
    inversion H; subst.
    destruct (negb (bytes_eqb name dst) && negb (contains f name)); [apply wf_drop|]; apply wf_copy; exact Hr.
  Qed.
End WfExecute.

(* ------------------------------------------------------------------ no Panic *)

(* "the recorded tables of the context's functions answer": no sub-tree of the expression is open, i.e. every
   table lookup the denotation performs on the logical table finds its entry (decidable; Corr/FrameCorr.v denote) *)
Definition ctx_total (cx : ctx) (t : table) (e : expr) : bool :=
  negb (has_open cx t e) && negb (is_open (denote cx t e)).

(* The premises, as one boolean an engine or an Example can evaluate: well-formed frame without Err, pairwise
   different non-empty column names, context functions typed as registered, hygienic column references and no
   enum-typed constant, fewer than 10000 - temps_needed columns, total tables. *)
Definition eval_premises_b (cx : ctx) (f : frame) (e : expr) : bool :=
  ctx_ok cx && wf_frame f && negb (ferr f) && names_ok f && expr_ok f e
  && (N.of_nat (length (cols f) + temps_needed e) <=? 10000)%N
  && match abs f with Ok t => ctx_total cx t e | _ => false end.

Theorem no_panic_eval ut cx f dst e :
  eval_premises_b cx f e = true ->
  exists g, eval ut cx f dst e = Ok g /\ wf_frame g = true.
Proof.
  unfold eval_premises_b. intro H.
  apply andb_true_iff in H as [H Ht]. apply andb_true_iff in H as [H Hb]. apply andb_true_iff in H as [H Hok].
  apply andb_true_iff in H as [H Hn]. apply andb_true_iff in H as [H Hf]. apply andb_true_iff in H as [Hcx Hw].
  apply negb_true_iff in Hf. apply N.leb_le in Hb.
  destruct (abs f) as [t| |] eqn:Ha; try discriminate.
  unfold ctx_total in Ht. apply andb_true_iff in Ht as [Ho Hd]. apply negb_true_iff in Ho, Hd.
  pose proof (eval_full ut cx f dst e t Hcx Hw Hf Hn Hok Hb Ha) as Hm. unfold eval_meets in Hm.
  assert (Hres : exists g, eval ut cx f dst e = Ok g).
  { destruct (denote cx t e) as [[[ty cs]|]|].
    - destruct Hm as [g [Hg _]]. exists g. exact Hg.
    - discriminate Hd.
    - destruct Hm as [[Hp _]|[g [Hg _]]]; [congruence|exists g; exact Hg]. }
  destruct Hres as [g Hg]. exists g. split; [exact Hg|exact (wf_eval ut cx f dst e g Hw Hg)].
Qed.

(* the same with the premises spelled out *)
Theorem no_panic_eval_props ut cx f dst e t :
  ctx_ok cx = true -> wf_frame f = true -> ferr f = false -> names_ok f = true -> expr_ok f e = true ->
  (N.of_nat (length (cols f) + temps_needed e) <= 10000)%N -> abs f = Ok t -> ctx_total cx t e = true ->
  eval ut cx f dst e <> Panic /\ exists g, eval ut cx f dst e = Ok g /\ wf_frame g = true.
Proof.
  intros Hcx Hw Hf Hn Hok Hb Ha Ht.
  assert (H : eval_premises_b cx f e = true).
  { unfold eval_premises_b. rewrite Hcx, Hw, Hf, Hn, Hok, Ha, Ht. cbn [negb andb].
    apply N.leb_le in Hb. rewrite Hb. reflexivity. }
  destruct (no_panic_eval ut cx f dst e H) as [g [Hg Hwg]].
  split; [rewrite Hg; discriminate|exists g; split; assumption].
Qed.

(* on a frame with Err nothing is evaluated at all *)
Theorem no_panic_eval_failed ut cx f dst e : ferr f = true -> eval ut cx f dst e = Ok f.
Proof. intro H. unfold eval. rewrite H. reflexivity. Qed.
