(* Proofs/CsvFragFullField.v — field level of buffer_refines_stream (C12):
   nextUnquotedField, nextQuotedField (in-place compaction with the look-ahead copy) and fields.next of
   Model/FastCsv.v each perform a run of steps of the character machine [sstep] of Model/CsvSpec.v on the
   abstract stream of the buffer, for every state of the reader (that is: for every fragmentation), and the
   field slice they return denotes the bytes the machine accumulated.  Fuel: any fuel greater than the
   number of bytes not yet consumed suffices. *)
From QF Require Import Base.Prelude Gen.GenConsts Model.FastCsv Model.CsvSpec Proofs.CsvFragFullBase.
Local Open Scope nat_scope.

(* how a field ended *)
Inductive fend := FDelim | FEol | FEof.

Section Field.
Variable delim : N.

Lemma sscan_cons st fr rr c S :
  sscan delim st fr rr (c :: S) =
  match sstep delim c (is_nilb S) st with
  | (st', ENone) => sscan delim st' fr rr S
  | (st', EField f) => sscan delim st' (f :: fr) rr S
  | (st', ERow f) => sscan delim st' [] (close_row (f :: fr) rr) S
  end.
Proof. reflexivity. Qed.

(* the character machine right after a field with (reversed) content f ended in the way k *)
Definition after_field (k : fend) (f : bytes) (fr : list bytes) (rr : list (list bytes)) (S : bytes)
  : list (list bytes) :=
  match k with
  | FDelim => sscan delim (SStart true) (f :: fr) rr S
  | FEol => sscan delim (SStart false) [] (close_row (f :: fr) rr) S
  | FEof => rev (close_row (f :: fr) rr)
  end.

Lemma sstep_unq c l acc :
  sstep delim c l (SUnq acc) =
  if N.eqb c delim then (SStart true, EField acc)
  else if N.eqb c c_lf then (SStart false, ERow acc) else (SUnq (c :: acc), ENone).
Proof. reflexivity. Qed.

Lemma sstep_start_noquote c l ad :
  N.eqb c c_quote = false -> sstep delim c l (SStart ad) = sstep delim c l (SUnq []).
Proof. intros H. unfold sstep. rewrite H. reflexivity. Qed.

Lemma sstep_start_quote l ad : sstep delim c_quote l (SStart ad) = (SQuo [] false, ENone).
Proof. reflexivity. Qed.

(* ------------------------------------------------------------------ "is a byte available?" *)

Definition ensure (b0 : buf) : buf * rerr :=
  if Nat.leb (b_len b0) (b_cur b0) then more b0 else (b0, RNil).

Lemma ensure_spec b0 b e :
  binv b0 -> ensure b0 = (b, e) ->
  binv b /\ b_cur b = b_cur b0 /\ stream b = stream b0 /\ (exists x, view b = view b0 ++ x)
  /\ ((e = RNil /\ b_cur b < b_len b) \/ (e = REof /\ stream b0 = [] /\ b_len b <= b_cur b)).
Proof.
  intros Hb. unfold ensure. destruct (Nat.leb (b_len b0) (b_cur b0)) eqn:El.
  - apply Nat.leb_le in El. intros Hm.
    destruct (more_spec b0 b e Hb Hm) as (Hb' & Hc & x & Hv & Hrest & Hl & Hcase).
    pose proof (more_stream b0 b e Hb Hm) as Hs.
    assert (Hex : exists z, view b = view b0 ++ z) by (exists x; exact Hv).
    assert (Hcur0 : b_cur b0 <= b_len b0) by apply Hb.
    nsplit; auto.
    destruct Hcase as [[-> Hx]|[-> [-> Hr]]].
    + left. split; [reflexivity|]. destruct x; [congruence|]. cbn [length] in Hl. lia.
    + right. cbn [length] in Hl. nsplit; auto; try lia.
      rewrite (stream_nil_at_end b0 Hb El). exact Hr.
  - apply Nat.leb_gt in El. intros H. injection H as <- <-.
    assert (Hex : exists z, view b0 = view b0 ++ z) by (exists []; rewrite app_nil_r; reflexivity).
    nsplit; auto.
Qed.

(* a byte is available: the stream starts with it *)
Lemma peek b : binv b -> b_cur b < b_len b ->
  exists c, buf_get b (b_cur b) = Ok c /\ nth_error (view b) (b_cur b) = Some c
            /\ stream b = c :: stream (with_cur b (S (b_cur b)))
            /\ binv (with_cur b (S (b_cur b))).
Proof.
  intros Hb Hl. destruct (buf_get_spec b (b_cur b) Hb Hl) as (c & Hg & Hn).
  exists c. nsplit; auto.
  - apply stream_cons. exact Hn.
  - apply binv_with_cur; [exact Hb|lia].
Qed.

Lemma buf_slice_ok b s e : s <= e -> e <= length (b_data b) -> buf_slice b s e = Ok (s, e).
Proof.
  intros H1 H2. unfold buf_slice, b_cap.
  assert (E1 : Nat.leb s e = true) by (apply Nat.leb_le; exact H1).
  assert (E2 : Nat.leb e (length (b_data b)) = true) by (apply Nat.leb_le; exact H2).
  rewrite E1, E2. reflexivity.
Qed.

(* what every field scanner guarantees about the state it leaves *)
Definition fld_post (start : nat) (b0 : buf) (eol0 : bool) (err0 : rerr) (fs' : fstate) (k : fend) : Prop :=
  let b' := f_buf fs' in
  binv b' /\ fst (f_field fs') <= snd (f_field fs') /\ snd (f_field fs') <= b_cur b'
  /\ start <= fst (f_field fs') /\ b_cur b0 <= b_cur b'
  /\ firstn start (view b') = firstn start (view b0)
  /\ match k with
     | FDelim => f_eol fs' = eol0 /\ f_err fs' = err0 /\ f_start fs' = b_cur b' /\ 0 < b_cur b'
                 /\ length (stream b') < length (stream b0)
     | FEol => f_eol fs' = true /\ f_err fs' = err0 /\ length (stream b') < length (stream b0)
     | FEof => f_eol fs' = true /\ f_err fs' = REof
     end.

(* ------------------------------------------------------------------ nextUnquotedField *)

Lemma next_unquoted_spec fuel : forall start b0 eol fld0 err,
  binv b0 -> start <= b_cur b0 -> length (stream b0) < fuel ->
  exists fs' k x,
    next_unquoted fuel delim (mkFs start b0 eol fld0 err) = Ok (fs', true)
    /\ (forall acc fr rr,
          sscan delim (SUnq acc) fr rr (stream b0) = after_field k (x ++ acc) fr rr (stream (f_buf fs')))
    /\ fst (f_field fs') = start
    /\ sub (view (f_buf fs')) (fst (f_field fs')) (snd (f_field fs'))
       = sub (view b0) start (b_cur b0) ++ rev x
    /\ fld_post start b0 eol err fs' k.
Proof.
  induction fuel as [|fuel IH]; intros start b0 eol fld0 err Hb0 Hstart Hfuel; [lia|].
  cbn [next_unquoted f_buf f_start f_eol f_field f_err].
  change (if Nat.leb (b_len b0) (b_cur b0) then more b0 else (b0, RNil)) with (ensure b0).
  destruct (ensure b0) as [b e] eqn:Een.
  destruct (ensure_spec b0 b e Hb0 Een) as (Hb & Hc & Hs & [y Hv] & Hcase).
  assert (Hlen0 : b_len b0 <= length (b_data b0)) by apply Hb0.
  assert (Hcur0 : b_cur b0 <= b_len b0) by apply Hb0.
  assert (Hagree : firstn (b_cur b0) (view b) = firstn (b_cur b0) (view b0)).
  { rewrite Hv. apply agree_app. rewrite view_length; lia. }
  destruct Hcase as [[-> Hav]|[-> [Hnil Hend]]].
  - (* a byte is available *)
    rewrite <- Hc in *.
    destruct (peek b Hb Hav) as (ch & Hget & Hnth & Hscons & Hb1).
    rewrite Hget. cbn [obind].
    set (b1 := with_cur b (S (b_cur b))) in *.
    assert (Hsub1 : sub (view b1) start (S (b_cur b)) = sub (view b0) start (b_cur b) ++ [ch]).
    { unfold b1. rewrite view_with_cur, (sub_snoc _ _ _ _ Hstart Hnth). f_equal.
      apply (agree_sub _ _ (b_cur b)); [exact Hagree|lia]. }
    assert (Hlenb : b_len b <= length (b_data b)) by apply Hb.
    assert (Hshort : length (stream b1) < length (stream b0)).
    { rewrite <- Hs, Hscons. cbn [length]. lia. }
    destruct (N.eqb ch delim) eqn:Ed; [|destruct (N.eqb ch ch_lf) eqn:El].
    + (* the delimiter *)
      rewrite buf_slice_ok by (unfold b1; simpl; lia).
      cbn [obind]. eexists _, FDelim, []. split; [reflexivity|].
      cbn [f_buf f_field f_start f_eol f_err fst snd app].
      replace (S (b_cur b) - 1) with (b_cur b) by lia.
      nsplit; auto.
      * intros acc fr rr. rewrite <- Hs, Hscons, sscan_cons, sstep_unq, Ed. reflexivity.
      * cbn [rev]. rewrite app_nil_r. apply (agree_sub _ _ (b_cur b)); [exact Hagree|lia].
      * unfold fld_post. cbn [f_buf f_field f_start f_eol f_err fst snd].
        nsplit; auto; try (unfold b1; simpl; lia).
        apply (agree_le _ _ (b_cur b)); [exact Hagree|exact Hstart].
    + (* line feed *)
      rewrite buf_slice_ok by (unfold b1; simpl; lia).
      cbn [obind]. eexists _, FEol, []. split; [reflexivity|].
      cbn [f_buf f_field f_start f_eol f_err fst snd app].
      replace (S (b_cur b) - 1) with (b_cur b) by lia.
      nsplit; auto.
      * intros acc fr rr. rewrite <- Hs, Hscons, sscan_cons, sstep_unq, Ed.
        change c_lf with ch_lf. rewrite El. reflexivity.
      * cbn [rev]. rewrite app_nil_r. apply (agree_sub _ _ (b_cur b)); [exact Hagree|lia].
      * unfold fld_post. cbn [f_buf f_field f_start f_eol f_err fst snd].
        nsplit; auto; try (unfold b1; simpl; lia).
        apply (agree_le _ _ (b_cur b)); [exact Hagree|exact Hstart].
    + (* an ordinary byte: go on *)
      destruct (IH start b1 eol fld0 err Hb1) as (fs' & k & x & Hrun & Hsc & Hf1 & Hsub & Hpost).
      { unfold b1. simpl. lia. }
      { lia. }
      exists fs', k, (x ++ [ch]). split; [exact Hrun|].
      nsplit; auto.
      * intros acc fr rr. rewrite <- Hs, Hscons, sscan_cons, sstep_unq, Ed.
        change c_lf with ch_lf. rewrite El. rewrite Hsc, <- app_assoc. reflexivity.
      * rewrite Hsub. unfold b1 at 2. cbn [b_cur with_cur]. rewrite Hsub1, rev_app_distr, <- app_assoc.
        reflexivity.
      * unfold fld_post in *. destruct Hpost as (P1 & P2 & P3 & P4 & P5 & P6 & P7).
        nsplit; auto.
        -- unfold b1 in P5. simpl in P5. lia.
        -- rewrite P6. unfold b1. rewrite view_with_cur.
           apply (agree_le _ _ (b_cur b)); [exact Hagree|exact Hstart].
        -- destruct k.
           ++ destruct P7 as (Q1 & Q2 & Q3 & Q4 & Q5). nsplit; auto. lia.
           ++ destruct P7 as (Q1 & Q2 & Q3). nsplit; auto. lia.
           ++ exact P7.
  - (* end of input *)
    assert (Hlenb : b_len b <= length (b_data b)) by apply Hb.
    assert (Hcurb : b_cur b <= b_len b) by apply Hb.
    rewrite buf_slice_ok by lia.
    cbn [obind]. eexists _, FEof, []. split; [reflexivity|].
    cbn [f_buf f_field f_start f_eol f_err fst snd app].
    nsplit; auto.
    + intros acc fr rr. rewrite Hnil. reflexivity.
    + cbn [rev]. rewrite app_nil_r. apply (agree_sub _ _ (b_cur b0)); [exact Hagree|lia].
    + unfold fld_post. cbn [f_buf f_field f_start f_eol f_err fst snd].
      nsplit; auto; try lia.
      apply (agree_le _ _ (b_cur b0)); [exact Hagree|exact Hstart].
Qed.

(* ------------------------------------------------------------------ nextQuotedField *)

Lemma sstep_quo c acc q :
  sstep delim c false (SQuo acc q) =
  if N.eqb c delim then (if q then (SStart true, EField acc) else (SQuo (c :: acc) false, ENone))
  else if N.eqb c ch_lf then (if q then (SStart false, ERow acc) else (SQuo (c :: acc) false, ENone))
  else if N.eqb c ch_cr then (if q then (SQuo acc true, ENone) else (SQuo (c :: acc) false, ENone))
  else if N.eqb c ch_quote
       then (if q then (SQuo (ch_quote :: acc) false, ENone) else (SQuo acc true, ENone))
  else if q then (SQuo (ch_quote :: acc) false, ENone) else (SQuo (c :: acc) false, ENone).
Proof. reflexivity. Qed.

Lemma sstep_quo_last c acc q :
  sstep delim c true (SQuo acc q) =
  if q && N.eqb c delim then (SStart true, EField acc) else (SStart false, ERow acc).
Proof. reflexivity. Qed.

(* writeCursor++ and the look-ahead copy *)
Lemma q_write_spec b w :
  binv b -> S w <= b_cur b -> b_cur b < b_len b ->
  exists b', q_write b w = Ok (b', S w) /\ binv b' /\ b_cur b' = b_cur b /\ b_len b' = b_len b
    /\ stream b' = stream b
    /\ firstn (S w) (view b') = firstn (S w) (view b)
    /\ (S w < b_cur b -> nth_error (view b') (S w) = nth_error (view b') (b_cur b)).
Proof.
  intros (Hlen & Hcur & Hr) Hw Hav. unfold q_write.
  destruct (Nat.eqb (S w) (b_cur b)) eqn:E.
  - apply Nat.eqb_eq in E. exists b. nsplit; auto; try lia. split; auto.
  - apply Nat.eqb_neq in E.
    assert (E1 : Nat.leb (S (S w)) (b_cap b) && Nat.leb (S (b_cur b)) (b_cap b) = true).
    { unfold b_cap. apply andb_true_intro; split; apply Nat.leb_le; lia. }
    rewrite E1. destruct (nth_error_lt_some (b_data b) (b_cur b)) as [x Hx]; [lia|].
    unfold idx. rewrite Hx. cbn [of_option obind].
    eexists. split; [reflexivity|].
    assert (Hv : view (with_data b (set_nth (b_data b) (S w) x)) = set_nth (view b) (S w) x).
    { unfold view, with_data. simpl. apply firstn_set_nth. }
    nsplit.
    + unfold binv, with_data. simpl. rewrite set_nth_length. auto.
    + reflexivity.
    + reflexivity.
    + unfold stream, rest. rewrite Hv. cbn [with_data b_cur b_rd].
      rewrite skipn_set_nth by lia. reflexivity.
    + rewrite Hv. apply agree_set_nth. lia.
    + intros _. rewrite Hv. cbn [with_data b_cur].
      rewrite nth_error_set_nth_eq by (rewrite view_length; lia).
      rewrite nth_error_set_nth_neq by lia. rewrite nth_view by lia. symmetry. exact Hx.
Qed.

(* the compaction invariant: data[start:w] is the unescaped field so far; when the write cursor lags
   behind, data[w] already holds the byte that will be kept next: the look-ahead copy of the next input byte
   (which has really been read: cursor < len), or the quote that was just skipped *)
Definition qinv (b : buf) (start w : nat) (q : bool) (acc : bytes) : Prop :=
  start <= w /\ w <= b_cur b /\ sub (view b) start w = rev acc
  /\ (if q then w < b_cur b /\ nth_error (view b) w = Some ch_quote
      else w < b_cur b -> b_cur b < b_len b /\ nth_error (view b) w = nth_error (view b) (b_cur b)).

Definition qbuf (r : qresult) : buf := fst (fst (fst r)).

Definition qpost (b : buf) (start : nat) (r : qresult) (k : fend) (f : bytes) : Prop :=
  let '(b', fld, eol, err) := r in
  fst fld = start /\ sub (view b') start (snd fld) = rev f /\ binv b' /\ start <= snd fld
  /\ snd fld <= b_cur b' /\ b_cur b <= b_cur b'
  /\ firstn start (view b') = firstn start (view b)
  /\ match k with
     | FDelim => eol = false /\ err = RNil /\ length (stream b') < length (stream b)
     | FEol => eol = true /\ err = RNil /\ length (stream b') < length (stream b)
     | FEof => eol = true /\ err = REof
     end.

(* the computation [res] performs the run of the character machine from state st on the stream of b up to
   the end of the field *)
Definition qruns (res : outcome qresult) (st : sstate) (b : buf) (start : nat) : Prop :=
  exists r k f, res = Ok r
    /\ (forall fr rr, sscan delim st fr rr (stream b) = after_field k f fr rr (stream (qbuf r)))
    /\ qpost b start r k f.

Lemma qruns_step res st st' b bX start :
  qruns res st' bX start -> b_cur b <= b_cur bX ->
  firstn start (view bX) = firstn start (view b) ->
  length (stream bX) <= length (stream b) ->
  (forall fr rr, sscan delim st fr rr (stream b) = sscan delim st' fr rr (stream bX)) ->
  qruns res st b start.
Proof.
  intros (r & k & f & Hres & Hsc & Hpost) Hc Hag Hl Hst.
  exists r, k, f. split; [exact Hres|]. split.
  - intros fr rr. rewrite Hst. apply Hsc.
  - destruct r as [[[b' fld] eol] err]. unfold qpost in *.
    destruct Hpost as (P1 & P2 & P3 & P4 & P5 & P6 & P7 & P8).
    nsplit; auto; try lia; try congruence.
    destruct k.
    + destruct P8 as (? & ? & ?). nsplit; auto. lia.
    + destruct P8 as (? & ? & ?). nsplit; auto. lia.
    + exact P8.
Qed.

Lemma next_quoted_loop_spec fuel : forall b start w q acc,
  binv b -> qinv b start w q acc -> length (stream b) < fuel ->
  qruns (next_quoted_loop fuel delim b start w (if q then 1 else 0)) (SQuo acc q) b start.
Proof.
  induction fuel as [|fuel IH]; intros b start w q acc Hb Hq Hfuel; [lia|].
  cbn [next_quoted_loop].
  destruct (q_fill_spec (S fuel) b Hb) as (b1 & e & Hfill & Hb1 & Hc1 & Hs1 & [y Hv1] & Hl1 & Hrl & Hcase).
  { rewrite (stream_length b Hb) in Hfuel. lia. }
  rewrite Hfill. cbn [obind].
  assert (Hlenb : b_len b <= length (b_data b)) by apply Hb.
  assert (Hcurb : b_cur b <= b_len b) by apply Hb.
  assert (Hag1 : forall k, k <= b_len b -> firstn k (view b1) = firstn k (view b)).
  { intros k Hk. rewrite Hv1. apply agree_app. rewrite view_length; [exact Hk|exact Hlenb]. }
  destruct Hq as (Q1 & Q2 & Q3 & Q4).
  apply (qruns_step _ _ (SQuo acc q) b b1);
    [|lia|apply Hag1; lia|rewrite Hs1; lia|intros; rewrite Hs1; reflexivity].
  assert (Q3' : sub (view b1) start w = rev acc).
  { rewrite <- Q3. apply (agree_sub _ _ (b_len b)); [apply Hag1; lia|lia]. }
  assert (Q4' : if q then w < b_cur b1 /\ nth_error (view b1) w = Some ch_quote
                else w < b_cur b1 -> b_cur b1 < b_len b1
                                     /\ nth_error (view b1) w = nth_error (view b1) (b_cur b1)).
  { rewrite Hc1. destruct q.
    - destruct Q4 as [Q4a Q4b]. split; [exact Q4a|].
      rewrite (agree_nth _ _ (b_len b) w (Hag1 _ (le_n _))) by lia. exact Q4b.
    - intros Hw. destruct (Q4 Hw) as [Q4a Q4b]. split; [lia|].
      rewrite !(agree_nth _ _ (b_len b) _ (Hag1 _ (le_n _))) by lia. exact Q4b. }
  assert (Hfuel1 : length (stream b1) < S fuel) by (rewrite Hs1; exact Hfuel).
  rewrite <- Hc1 in Q2.
  clear Q3 Q4 Hs1 Hv1 Hag1 Hfill Hrl Hl1 Hc1 Hfuel Hlenb Hcurb Hb b y.
  assert (Hlen1 : b_len b1 <= length (b_data b1)) by apply Hb1.
  assert (Hcur1 : b_cur b1 <= b_len b1) by apply Hb1.
  destruct Hcase as [[-> Hav]|[-> [Hrest Hend]]].
  - (* two bytes are available *)
    destruct (peek b1 Hb1 ltac:(lia)) as (ch & Hget & Hnth & Hscons & Hb2).
    set (b2 := with_cur b1 (S (b_cur b1))) in *.
    assert (Hcur2 : b_cur b2 = S (b_cur b1)) by reflexivity.
    assert (Hlen2 : b_len b2 = b_len b1) by reflexivity.
    assert (Hdata2 : length (b_data b2) = length (b_data b1)) by reflexivity.
    assert (Hnn : is_nilb (stream b2) = false).
    { destruct (peek b2 Hb2 ltac:(lia)) as (c2 & _ & _ & Hsc2 & _). rewrite Hsc2. reflexivity. }
    assert (Hstep : forall fr rr,
      sscan delim (SQuo acc q) fr rr (stream b1) =
      match sstep delim ch false (SQuo acc q) with
      | (st', ENone) => sscan delim st' fr rr (stream b2)
      | (st', EField f) => sscan delim st' (f :: fr) rr (stream b2)
      | (st', ERow f) => sscan delim st' [] (close_row (f :: fr) rr) (stream b2)
      end).
    { intros fr rr. rewrite Hscons, sscan_cons, Hnn. reflexivity. }
    assert (Hshort : length (stream b2) < length (stream b1)).
    { rewrite Hscons. cbn [length]. lia. }
    (* a byte is kept *)
    assert (Hwrite : forall ch', nth_error (view b1) w = Some ch' ->
      qruns (do bw <- q_write b2 w; let '(b', w') := bw in next_quoted_loop fuel delim b' start w' 0)
            (SQuo (ch' :: acc) false) b2 start).
    { intros ch' Hw.
      destruct (q_write_spec b2 w Hb2 ltac:(lia) ltac:(lia))
        as (b3 & Hqw & Hb3 & Hc3 & Hl3 & Hs3 & Hag3 & Hla3).
      rewrite Hqw. cbn [obind].
      apply (qruns_step _ _ (SQuo (ch' :: acc) false) b2 b3);
        [|lia|apply (agree_le _ _ (S w)); [exact Hag3|lia]|rewrite Hs3; lia
         |intros; rewrite Hs3; reflexivity].
      apply (IH b3 start (S w) false (ch' :: acc) Hb3); [|rewrite Hs3; lia].
      unfold qinv. nsplit; try lia.
      - rewrite (agree_sub _ _ (S w) start (S w) Hag3 (le_n _)).
        change (view b2) with (view b1).
        rewrite (sub_snoc _ _ _ _ Q1 Hw), Q3'. reflexivity.
      - intros Hlt. rewrite Hc3 in *. split; [lia|]. apply Hla3. exact Hlt. }
    (* a byte is dropped after an odd number of quotes *)
    assert (Hskip : nth_error (view b1) w = Some ch_quote -> w < S (b_cur b1) ->
      qruns (next_quoted_loop fuel delim b2 start w 1) (SQuo acc true) b2 start).
    { intros Hw Hlt.
      apply (IH b2 start w true acc Hb2); [|lia].
      unfold qinv. nsplit; try lia; auto. }
    assert (Hw_false : q = false -> nth_error (view b1) w = Some ch).
    { intros ->. destruct (Nat.eq_dec w (b_cur b1)) as [->|Hne]; [exact Hnth|].
      destruct (Q4' ltac:(lia)) as [_ ->]. exact Hnth. }
    assert (Hto2 : forall res st',
      qruns res st' b2 start ->
      (forall fr rr, sscan delim (SQuo acc q) fr rr (stream b1) = sscan delim st' fr rr (stream b2)) ->
      qruns res (SQuo acc q) b1 start).
    { intros res st' Hr Hst.
      apply (qruns_step _ _ st' b1 b2); auto; lia. }
    rewrite Hget. cbn [obind].
    fold b2.
    destruct (N.eqb ch delim) eqn:Ed;
      [|destruct (N.eqb ch ch_lf) eqn:El;
        [|destruct (N.eqb ch ch_cr) eqn:Ec; [|destruct (N.eqb ch ch_quote) eqn:Eq]]].
    + (* delimiter *)
      destruct q.
      * change (Nat.odd 1) with true. cbv iota.
        rewrite buf_slice_ok by lia. cbn [obind].
        exists (b2, (start, w), false, RNil), FDelim, acc. split; [reflexivity|]. split.
        -- intros fr rr. rewrite Hstep, sstep_quo, Ed. reflexivity.
        -- unfold qpost. cbn [fst snd]. nsplit; auto; lia.
      * change (Nat.odd 0) with false. cbv iota.
        apply (Hto2 _ (SQuo (ch :: acc) false)); [apply Hwrite; auto|].
        intros fr rr. rewrite Hstep, sstep_quo, Ed. reflexivity.
    + (* line feed *)
      destruct q.
      * change (Nat.odd 1) with true. cbv iota.
        rewrite buf_slice_ok by lia. cbn [obind].
        exists (b2, (start, w), true, RNil), FEol, acc. split; [reflexivity|]. split.
        -- intros fr rr. rewrite Hstep, sstep_quo, Ed, El. reflexivity.
        -- unfold qpost. cbn [fst snd]. nsplit; auto; lia.
      * change (Nat.odd 0) with false. cbv iota.
        apply (Hto2 _ (SQuo (ch :: acc) false)); [apply Hwrite; auto|].
        intros fr rr. rewrite Hstep, sstep_quo, Ed, El. reflexivity.
    + (* carriage return *)
      destruct q.
      * change (Nat.odd 1) with true. cbv iota.
        destruct Q4' as [Q4a Q4b].
        apply (Hto2 _ (SQuo acc true)); [apply Hskip; auto; lia|].
        intros fr rr. rewrite Hstep, sstep_quo, Ed, El, Ec. reflexivity.
      * change (Nat.odd 0) with false. cbv iota.
        apply (Hto2 _ (SQuo (ch :: acc) false)); [apply Hwrite; auto|].
        intros fr rr. rewrite Hstep, sstep_quo, Ed, El, Ec. reflexivity.
    + (* quote *)
      apply N.eqb_eq in Eq. subst ch.
      destruct q; cbv zeta.
      * change (Nat.odd 2) with false. cbv iota.
        destruct Q4' as [Q4a Q4b].
        apply (Hto2 _ (SQuo (ch_quote :: acc) false)); [apply Hwrite; auto|].
        intros fr rr. rewrite Hstep, sstep_quo, Ed, El, Ec. reflexivity.
      * change (Nat.odd 1) with true. cbv iota.
        apply (Hto2 _ (SQuo acc true)); [apply Hskip; auto; lia|].
        intros fr rr. rewrite Hstep, sstep_quo, Ed, El, Ec. reflexivity.
    + (* any other byte *)
      destruct q.
      * destruct Q4' as [Q4a Q4b].
        apply (Hto2 _ (SQuo (ch_quote :: acc) false)); [apply Hwrite; auto|].
        intros fr rr. rewrite Hstep, sstep_quo, Ed, El, Ec, Eq. reflexivity.
      * apply (Hto2 _ (SQuo (ch :: acc) false)); [apply Hwrite; auto|].
        intros fr rr. rewrite Hstep, sstep_quo, Ed, El, Ec, Eq. reflexivity.
  - (* the input ended: at most one byte is left *)
    cbn [rerr_eqb andb].
    destruct (Nat.ltb (b_cur b1) (b_len b1)) eqn:Elt.
    + apply Nat.ltb_lt in Elt.
      destruct (peek b1 Hb1 Elt) as (ch & Hget & Hnth & Hscons & Hb2).
      set (b2 := with_cur b1 (S (b_cur b1))) in *.
      assert (Hs2 : stream b2 = []).
      { rewrite (stream_nil_at_end b2 Hb2); [exact Hrest|]. unfold b2. simpl. lia. }
      rewrite <- (nth_view b1 _ Elt), Hnth.
      assert (Hodd : Nat.odd (if q then 1 else 0) = q) by (destruct q; reflexivity).
      rewrite Hodd, andb_true_r.
      destruct (q && N.eqb ch delim) eqn:Ead.
      * rewrite buf_slice_ok by (unfold b2; simpl; lia). cbn [obind].
        exists (b2, (start, w), false, RNil), FDelim, acc. split; [reflexivity|]. split.
        -- intros fr rr. rewrite Hscons, sscan_cons, Hs2. cbn [is_nilb qbuf fst].
           rewrite sstep_quo_last, Ead, Hs2. reflexivity.
        -- unfold qpost. cbn [fst snd]. nsplit; auto; try (unfold b2; simpl; lia).
           rewrite Hscons, Hs2. simpl. lia.
      * rewrite buf_slice_ok by lia. cbn [obind].
        exists (b1, (start, w), true, REof), FEof, acc. split; [reflexivity|]. split.
        -- intros fr rr. rewrite Hscons, sscan_cons, Hs2. cbn [is_nilb].
           rewrite sstep_quo_last, Ead. reflexivity.
        -- unfold qpost. cbn [fst snd]. nsplit; auto; lia.
    + apply Nat.ltb_ge in Elt.
      rewrite andb_false_r. cbn [andb].
      rewrite buf_slice_ok by lia. cbn [obind].
      exists (b1, (start, w), true, REof), FEof, acc. split; [reflexivity|]. split.
      * intros fr rr. rewrite (stream_nil_at_end b1 Hb1 Elt), Hrest. reflexivity.
      * unfold qpost. cbn [fst snd]. nsplit; auto; lia.
Qed.

(* ------------------------------------------------------------------ fields.next *)

Lemma fields_next_spec fuel fs :
  binv (f_buf fs) -> f_eol fs = false -> f_err fs = RNil -> f_start fs = b_cur (f_buf fs) ->
  length (stream (f_buf fs)) < fuel ->
  (exists fs' k f,
      fields_next fuel delim fs = Ok (fs', true)
      /\ (forall fr rr, sscan delim (SStart (Nat.ltb 0 (f_start fs))) fr rr (stream (f_buf fs))
                        = after_field k f fr rr (stream (f_buf fs')))
      /\ sub (view (f_buf fs')) (fst (f_field fs')) (snd (f_field fs')) = rev f
      /\ fld_post (f_start fs) (f_buf fs) false RNil fs' k)
  \/ (exists fs',
      fields_next fuel delim fs = Ok (fs', false)
      /\ stream (f_buf fs) = [] /\ f_start fs = 0 /\ f_err fs' = REof /\ binv (f_buf fs')).
Proof.
  destruct fs as [start b0 eol fld0 err]. cbn [f_buf f_eol f_err f_start].
  intros Hb0 -> -> Hst Hfuel.
  unfold fields_next. cbn [f_buf f_eol f_err f_start f_field].
  change (if Nat.leb (b_len b0) (b_cur b0) then more b0 else (b0, RNil)) with (ensure b0).
  destruct (ensure b0) as [b e] eqn:Een.
  destruct (ensure_spec b0 b e Hb0 Een) as (Hb & Hc & Hs & [y Hv] & Hcase).
  assert (Hlen0 : b_len b0 <= length (b_data b0)) by apply Hb0.
  assert (Hcur0 : b_cur b0 <= b_len b0) by apply Hb0.
  assert (Hlenb : b_len b <= length (b_data b)) by apply Hb.
  assert (Hcurb : b_cur b <= b_len b) by apply Hb.
  assert (Hagree : firstn start (view b) = firstn start (view b0)).
  { rewrite Hv. apply agree_app. rewrite view_length; lia. }
  destruct Hcase as [[-> Hav]|[-> [Hnil Hend]]].
  - (* a byte is available *)
    left.
    destruct (peek b Hb Hav) as (ch & Hget & Hnth & Hscons & Hb2).
    rewrite Hget. cbn [obind].
    set (b2 := with_cur b (S (b_cur b))) in *.
    assert (Hshort : length (stream b2) < length (stream b0)).
    { rewrite <- Hs, Hscons. cbn [length]. lia. }
    destruct (N.eqb ch ch_quote) eqn:Eq.
    + (* quoted field *)
      apply N.eqb_eq in Eq. subst ch.
      unfold next_quoted. cbv zeta. fold b2.
      change (b_cur b2) with (S (b_cur b)).
      destruct (next_quoted_loop_spec fuel b2 (S (b_cur b)) (S (b_cur b)) false [] Hb2)
        as (r & k & f & Hres & Hsc & Hpost).
      { unfold qinv. nsplit; try (unfold b2; simpl; lia).
        - rewrite sub_nil. reflexivity. }
      { lia. }
      cbv iota in Hres. rewrite Hres. cbn [obind].
      destruct r as [[[b' fld] eol'] err']. unfold qpost in Hpost. cbn [qbuf fst] in Hsc.
      destruct Hpost as (P1 & P2 & P3 & P4 & P5 & P6 & P7 & P8).
      assert (Hok : rerr_eqb err' RNil || rerr_eqb err' REof = true).
      { destruct k; destruct P8 as (_ & -> & _) || destruct P8 as (_ & ->); reflexivity. }
      rewrite Hok.
      eexists _, k, f. split; [reflexivity|]. cbn [f_buf f_field].
      nsplit.
      * intros fr rr. rewrite <- Hs, Hscons, sscan_cons.
        change ch_quote with c_quote. rewrite sstep_start_quote. apply Hsc.
      * rewrite P1. exact P2.
      * unfold fld_post. cbn [f_buf f_field f_start f_eol f_err].
        unfold b2 in P6. simpl in P6.
        nsplit; auto; try lia.
        -- rewrite (agree_le _ _ _ start P7) by lia. exact Hagree.
        -- destruct k.
           ++ destruct P8 as (-> & -> & P8). nsplit; auto; lia.
           ++ destruct P8 as (-> & -> & P8). nsplit; auto; lia.
           ++ destruct P8 as (-> & ->). nsplit; auto.
    + (* unquoted field *)
      destruct (next_unquoted_spec fuel start b false fld0 RNil Hb ltac:(lia))
        as (fs' & k & x & Hrun & Hsc & Hf1 & Hsub & Hpost).
      { rewrite Hs. exact Hfuel. }
      rewrite Hrun. exists fs', k, x. split; [reflexivity|].
      nsplit.
      * intros fr rr. rewrite <- (app_nil_r x), <- Hsc, <- Hs, Hscons, !sscan_cons.
        rewrite sstep_start_noquote by exact Eq. reflexivity.
      * rewrite Hsub, Hst, <- Hc, sub_nil. reflexivity.
      * unfold fld_post in *. destruct Hpost as (P1 & P2 & P3 & P4 & P5 & P6 & P7).
        nsplit; auto; try lia.
        -- rewrite P6. exact Hagree.
        -- rewrite <- Hs. exact P7.
  - (* end of input *)
    cbn [rerr_eqb andb].
    destruct (Nat.ltb 0 start) eqn:E0.
    + left. rewrite buf_slice_ok by lia. cbn [obind].
      eexists _, FEof, []. split; [reflexivity|]. cbn [f_buf f_field fst snd].
      nsplit.
      * intros fr rr. rewrite Hnil. reflexivity.
      * rewrite sub_nil. reflexivity.
      * unfold fld_post. cbn [f_buf f_field f_start f_eol f_err fst snd].
        nsplit; auto; lia.
    + right. apply Nat.ltb_ge in E0. eexists. split; [reflexivity|].
      nsplit; auto. lia.
Qed.

End Field.
