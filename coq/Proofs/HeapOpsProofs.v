(* Proofs/HeapOpsProofs.v — theorem 3: every L1 operation is solo-safe.
   For each operation: from a frame reference that is valid for (pre, own) the abstract safety
   logic [spq] accepts the program and the result is again a valid reference; by [spq_sound] the
   instrumented run does not fault, i.e. the operation writes only what it allocated itself.
   "Sort copies the index before sorting", "setColumn copies slice and map", "index.Filter / orFrames /
   Not allocate", "append only targets own slices", "table entries hold own slices" are the proof
   steps. *)
From QF Require Import Base.Prelude Model.Heap Model.HeapOps Proofs.HeapProofs.

#[local] Arguments bind : simpl never.
#[local] Arguments bindO : simpl never.
#[local] Arguments lift : simpl never.
#[local] Arguments make_slice : simpl never.
#[local] Arguments slice_lit : simpl never.
#[local] Arguments slice_get : simpl never.
#[local] Arguments slice_set : simpl never.
#[local] Arguments slice_read : simpl never.
#[local] Arguments slice_append : simpl never.
#[local] Arguments slice_append_list : simpl never.
#[local] Arguments slice_write_list : simpl never.
#[local] Arguments slice_copy : simpl never.
#[local] Arguments map_make : simpl never.
#[local] Arguments map_read : simpl never.
#[local] Arguments map_lookup : simpl never.
#[local] Arguments map_store : simpl never.
#[local] Arguments get_z : simpl never.
#[local] Arguments get_b : simpl never.
#[local] Arguments get_col : simpl never.
#[local] Arguments read_zs : simpl never.
#[local] Arguments read_bs : simpl never.
#[local] Arguments read_cols : simpl never.
#[local] Arguments read_slices : simpl never.
#[local] Arguments for_each : simpl never.
#[local] Arguments for_eachO : simpl never.

Section OpsSafe.
  Variable pre : loc -> bool.

  Local Notation SP := (spq pre).
  Local Notation s_ok := (slice_ok pre).
  Local Notation c_ok := (col_ok pre).
  Local Notation ac := (acc pre).

  Definition map_acc (own : list loc) (m : option loc) : Prop := forall l, m = Some l -> ac own l.
  Definition qf_ok (qf : qframe) (own : list loc) : Prop :=
    s_ok own (q_cols qf) /\ map_acc own (q_map qf) /\ s_ok own (q_idx qf).
  Definition g_ok (g : grouper) (own : list loc) : Prop :=
    s_ok own (g_indices g) /\ s_ok own (g_cols g) /\ map_acc own (g_map g).

  Lemma map_acc_mono own own' m : incl own own' -> map_acc own m -> map_acc own' m.
  Proof. intros Hi H l Hl. eapply acc_mono; eauto. Qed.
  Lemma qf_ok_mono own own' qf : incl own own' -> qf_ok qf own -> qf_ok qf own'.
  Proof.
    intros Hi (H1 & H2 & H3). repeat split.
    - eapply slice_ok_mono; eauto.
    - eapply map_acc_mono; eauto.
    - eapply slice_ok_mono; eauto.
  Qed.
  Lemma g_ok_mono own own' g : incl own own' -> g_ok g own -> g_ok g own'.
  Proof.
    intros Hi (H1 & H2 & H3). repeat split.
    - eapply slice_ok_mono; eauto.
    - eapply slice_ok_mono; eauto.
    - eapply map_acc_mono; eauto.
  Qed.
  Definition opt_ok (own : list loc) (o : option col) : Prop := forall c, o = Some c -> c_ok own c.
  Lemma opt_col_mono own own' (o : option col) : incl own own' -> opt_ok own o -> opt_ok own' o.
  Proof. intros Hi H c Hc. eapply col_ok_mono; eauto. Qed.
  Lemma opt_ok_some own c : opt_ok own (Some c) -> c_ok own c.
  Proof. intro H. apply H. reflexivity. Qed.
  Lemma opt_ok_none own : opt_ok own None.
  Proof. intros c Hc. discriminate. Qed.
  Lemma some_opt_ok own c : c_ok own c -> opt_ok own (Some c).
  Proof. intros H x Hx. inversion Hx; subst. exact H. Qed.
  Lemma In_mono (own own' : list loc) l : incl own own' -> In l own -> In l own'.
  Proof. auto. Qed.

  (* lift every fact about [own] to the larger own set of [Hi : incl own own'] *)
  Ltac up Hi :=
    repeat match goal with
    | H : slice_ok _ ?o _ |- _ =>
        match type of Hi with incl o _ => eapply slice_ok_mono in H; [|exact Hi] end
    | H : slice_own ?o _ |- _ =>
        match type of Hi with incl o _ => eapply slice_own_mono in H; [|exact Hi] end
    | H : col_ok _ ?o _ |- _ =>
        match type of Hi with incl o _ => eapply col_ok_mono in H; [|exact Hi] end
    | H : Forall (col_ok _ ?o) _ |- _ =>
        match type of Hi with incl o _ => eapply cols_ok_mono in H; [|exact Hi] end
    | H : Forall (slice_ok _ ?o) _ |- _ =>
        match type of Hi with incl o _ => eapply slices_ok_mono in H; [|exact Hi] end
    | H : map_ok _ ?o _ |- _ =>
        match type of Hi with incl o _ => eapply map_ok_mono in H; [|exact Hi] end
    | H : map_acc ?o _ |- _ =>
        match type of Hi with incl o _ => eapply map_acc_mono in H; [|exact Hi] end
    | H : qf_ok _ ?o |- _ =>
        match type of Hi with incl o _ => eapply qf_ok_mono in H; [|exact Hi] end
    | H : g_ok _ ?o |- _ =>
        match type of Hi with incl o _ => eapply g_ok_mono in H; [|exact Hi] end
    | H : acc _ ?o _ |- _ =>
        match type of Hi with incl o _ => eapply acc_mono in H; [|exact Hi] end
    | H : In _ ?o |- _ =>
        match type of Hi with incl o _ => eapply In_mono in H; [|exact Hi] end
    | H : opt_ok ?o _ |- _ =>
        match type of Hi with incl o _ => eapply opt_col_mono in H; [|exact Hi] end
    end.

  (* one sequencing step: run [lem] for the first command, name the result *)
  Ltac step lem := eapply spq_seq; [eapply lem; eauto|cbv beta].
  Ltac stepO lem := eapply spq_seqO; [eapply lem; eauto|cbv beta].

  Local Notation any := (fun _ (_ : list loc) => True).
  Local Notation own_slice := (fun (s : slice) (own : list loc) => slice_own own s).
  Local Notation ok_col := (fun (c : col) (own : list loc) => c_ok own c).

  Lemma sp_any {A} (p : prog A) own Q : SP p own Q -> SP p own any.
  Proof. apply spq_conseq. intros; exact I. Qed.
  Lemma sp_anyO {A} (p : prog (outcome A)) own Q : SP p own (okO Q) -> SP p own (okO any).
  Proof. apply spq_conseq. intros [a| |] o; simpl; auto. Qed.
  Lemma sp_any_okO {A} (p : prog (outcome A)) own : SP p own any -> SP p own (okO any).
  Proof. apply spq_conseq. intros [a| |] o _; exact I. Qed.

  Lemma to_anyO {A} (p : prog (outcome A)) own Q : SP p own Q -> SP p own (okO any).
  Proof. apply spq_conseq. intros [a| |] o _; exact I. Qed.
  Ltac stepA lem := eapply spq_seqO; [eapply to_anyO; eapply lem; eauto with sp|cbv beta].

  Lemma own_ok own s : slice_own own s -> s_ok own s.
  Proof. apply slice_own_ok. Qed.
  Lemma nil_own own : slice_own own nil_slice.
  Proof. left. auto. Qed.
  Lemma nil_ok own : s_ok own nil_slice.
  Proof. left. auto. Qed.
  Lemma own_of_base own s : In (s_base s) own -> slice_own own s.
  Proof. right. auto. Qed.
  Hint Resolve own_ok nil_own nil_ok own_of_base incl_refl : sp.

  (* ------------------------------------------------------------ column access *)
  Lemma sp_by_name_m m k own :
    map_acc own m ->
    SP (by_name_m m k) own (fun o own' => opt_ok own' o).
  Proof.
    intro H. unfold by_name_m. destruct m as [l|]; [|simpl; apply opt_ok_none].
    eapply spq_conseq; [|apply sp_map_lookup; auto].
    intros o own' [-> Ho] c ->. exact Ho.
  Qed.

  Lemma sp_by_name qf k own :
    qf_ok qf own -> SP (by_name qf k) own (fun o own' => opt_ok own' o).
  Proof. intros (_ & H & _). apply sp_by_name_m. exact H. Qed.

  Lemma col_data_ok own c : c_ok own c -> s_ok own (col_data c).
  Proof.
    unfold col_ok, col_data. intro H. destruct (c_parts c); simpl; [apply nil_ok|].
    inversion H; auto.
  Qed.

  Lemma sp_col_cell c r own : c_ok own c -> SP (col_cell c r) own any.
  Proof.
    unfold col_ok, col_cell. intro H. destruct (c_parts c) as [|d rest]; simpl; [exact I|].
    inversion H as [|? ? Hd Hrest]; subst.
    unfold bindO. step sp_get. intros o own1 Hi1 [-> _]. destruct o as [v0| |]; simpl; auto; try exact I.
    eapply spq_seq.
    - eapply (sp_for_each pre (fun p acc => let* vs := slice_read p in Ret (acc ++ vs))
                          (fun _ o => o = own) rest (s_ok own)); eauto.
      intros p a0 own2 Hp Hi2 ->. step sp_read. intros vs own3 _ [-> _]. simpl. reflexivity.
    - intros a0 own2 _ _. simpl. exact I.
  Qed.

  Lemma sp_cols_cell cs r own : Forall (c_ok own) cs -> SP (cols_cell cs r) own (okO any).
  Proof.
    intro H. unfold cols_cell.
    eapply spq_conseq; [|eapply (sp_for_eachO pre _ (fun _ o => incl own o) cs (c_ok own)); eauto with sp].
    - intros [a| |] o; simpl; auto.
    - intros c a own1 Hc Hi1 Hi0. unfold bindO.
      eapply spq_seq; [apply sp_col_cell; eapply col_ok_mono; eauto|].
      intros o own2 Hi2 _. destruct o; simpl; auto. eapply incl_tran; eauto.
  Qed.

  Lemma sp_opt_cell oc r own :
    opt_ok own oc -> SP (opt_cell oc r) own any.
  Proof.
    intro H. unfold opt_cell. destruct oc as [c|]; simpl; [|exact I].
    apply sp_col_cell. apply opt_ok_some; auto.
  Qed.

  (* ------------------------------------------------------------ internal/index *)
  Lemma sp_new_bool n own : SP (new_bool n) own own_slice.
  Proof.
    unfold new_bool. eapply spq_conseq; [|apply sp_make; exact I].
    intros s o (H & _). right. exact H.
  Qed.

  Lemma sp_make_own n c z own : val_ok pre True own z -> SP (make_slice n c z) own own_slice.
  Proof.
    intro Hz. eapply spq_conseq; [|apply sp_make; exact Hz].
    intros s o (H & _). right. exact H.
  Qed.

  Lemma sp_lit_own vs own : Forall (val_ok pre True own) vs -> SP (slice_lit vs) own own_slice.
  Proof.
    intro Hz. eapply spq_conseq; [|apply sp_lit; exact Hz].
    intros s o (H & _). right. exact H.
  Qed.

  Lemma Forall_VZ P own (zs : list Z) : Forall (val_ok pre P own) (map VZ zs).
  Proof. induction zs; simpl; constructor; auto. exact I. Qed.

  Lemma sp_append_own s v own :
    slice_own own s -> val_ok pre True own v -> SP (slice_append s v) own own_slice.
  Proof.
    intros H Hv. eapply spq_conseq; [|apply sp_append; eauto]. intros s' o [H1 _]. exact H1.
  Qed.

  Lemma sp_append_list_own vs : forall s own,
    slice_own own s -> Forall (val_ok pre True own) vs -> SP (slice_append_list s vs) own own_slice.
  Proof.
    induction vs as [|v r IH]; intros s own Hs Hv; simpl; auto.
    inversion Hv; subst. step sp_append_own.
    intros s' own' Hi Hs'. apply IH; auto. eapply vals_ok_mono; [| exact Hi | eauto]. auto.
  Qed.

  Lemma sp_new_ascending n own : SP (new_ascending n) own own_slice.
  Proof.
    unfold new_ascending. step sp_make_own; [exact I|].
    intros s own1 Hi1 Hs. step sp_write_list.
    - generalize (seq 0 n). intro l. induction l; simpl; constructor; auto. exact I.
    - intros _ own2 Hi2 ->. simpl. exact Hs.
  Qed.

  Lemma sp_index_copy ix own : s_ok own ix -> SP (index_copy ix) own own_slice.
  Proof.
    intro H. unfold index_copy. step sp_make_own; [exact I|].
    intros s own1 Hi1 Hs. up Hi1. step sp_copy_z.
    intros _ own2 Hi2 ->. simpl. exact Hs.
  Qed.

  Lemma sp_index_filter ix b own :
    s_ok own ix -> s_ok own b -> SP (index_filter ix b) own (okO own_slice).
  Proof.
    intros Hix Hb. unfold index_filter. step sp_read_bs.
    intros bs own1 Hi1 ->. step sp_make_own; [exact I|].
    intros res own2 Hi2 Hres. up Hi2.
    eapply (sp_for_eachO pre _ own_slice _ (fun _ => True)); auto using Forall_True.
    intros [i bv] r own3 _ Hi3 Hr. simpl. destruct bv; simpl; auto.
    up Hi3. stepA sp_get_z.
    intros x own4 Hi4 _. up Hi4. apply sp_lift. apply sp_append_own; auto. exact I.
  Qed.

  (* ------------------------------------------------------------ leaf filters *)
  Lemma sp_matcher_touch buf need own :
    slice_own own buf -> SP (matcher_touch buf need) own own_slice.
  Proof.
    intro H. unfold matcher_touch. destruct (need =? 0); simpl; auto.
    destruct (need <=? s_len buf).
    - step sp_set; [exact I|]. intros _ own1 Hi1 ->. simpl. exact H.
    - step sp_make_own; [exact I|]. intros nb own1 Hi1 Hnb.
      step sp_set; [exact I|]. intros _ own2 Hi2 ->. simpl. exact Hnb.
  Qed.

  Lemma sp_col_filter f ui c argc ix b own :
    c_ok own c -> opt_ok own argc -> s_ok own ix -> slice_own own b ->
    SP (col_filter f ui c argc ix b) own (okO any).
  Proof.
    intros Hc Ha Hix Hb. unfold col_filter. destruct (lf_bad f); [exact I|].
    eapply spq_seq with (Q1 := own_slice).
    { destruct (lf_buf f); [apply sp_make_own; exact I|simpl; apply nil_own]. }
    intros buf0 own1 Hi1 Hbuf. up Hi1.
    eapply spq_seqO with (Q1 := any); [|intros; exact I].
    eapply sp_anyO.
    eapply (sp_for_eachO pre _ own_slice _ (fun _ => True)); auto using Forall_True.
    intros i buf own2 _ Hi2 Hbuf2. up Hi2.
    stepA sp_get_b.
    intros x own3 Hi3 _. destruct x; [simpl; up Hi3; exact Hbuf2|]. up Hi3.
    stepA sp_get_z.
    intros r own4 Hi4 _. up Hi4.
    stepA sp_col_cell.
    intros cell own5 Hi5 _. up Hi5.
    stepA sp_opt_cell.
    intros acell own6 Hi6 _. up Hi6.
    step sp_matcher_touch.
    intros buf' own7 Hi7 Hbuf'. up Hi7.
    eapply spq_seq with (Q1 := any).
    { destruct (lf_call f); simpl; [intros; exact I|exact I]. }
    intros res own8 Hi8 _. up Hi8.
    stepA sp_set; [exact I|].
    intros _ own9 Hi9 _. up Hi9. simpl. exact Hbuf'.
  Qed.

  Lemma sp_promote c own : c_ok own c -> SP (promote c) own ok_col.
  Proof.
    intro H. unfold promote. step sp_read_zs; [apply col_data_ok; auto|].
    intros vs own1 Hi1 ->. step sp_lit_own; [apply Forall_VZ|].
    intros d own2 Hi2 Hd. simpl. unfold col_ok. simpl. constructor; auto with sp.
  Qed.

  Lemma sp_leaf_step qf b f own :
    qf_ok qf own -> slice_own own b -> SP (leaf_step qf b f) own (okO any).
  Proof.
    intros Hq Hb. unfold leaf_step. step sp_by_name.
    intros oc own1 Hi1 Hoc. up Hi1. destruct oc as [s|]; [|exact I].
    pose proof (opt_ok_some _ _ Hoc) as Hs.
    eapply spq_seqO with (Q1 := fun (o : option col) own' => opt_ok own' o).
    { destruct (lf_arg f) as [an|]; [|simpl; apply opt_ok_none].
      step sp_by_name. intros oa own2 Hi2 Hoa. simpl. destruct oa; simpl; auto. }
    intros argc own2 Hi2 Hargc. up Hi2.
    eapply spq_seq with (Q1 := ok_col).
    { destruct (lf_promote f =? 1)%N; [apply sp_promote; auto|simpl; exact Hs]. }
    intros s' own3 Hi3 Hs'. up Hi3.
    eapply spq_seq with (Q1 := fun (o : option col) own' => opt_ok own' o).
    { destruct argc as [a|]; [|simpl; apply opt_ok_none].
      pose proof (opt_ok_some _ _ Hargc) as Ha0.
      destruct (lf_promote f =? 2)%N.
      - step sp_promote. intros a' own4 Hi4 Ha'. simpl. apply some_opt_ok. exact Ha'.
      - simpl. exact Hargc. }
    intros argc' own4 Hi4 Hargc'. up Hi4. destruct Hq as (Hq1 & Hq2 & Hq3).
    destruct (lf_inverse f && negb (lf_inv_builtin f)).
    - step sp_new_bool. intros invb own5 Hi5 Hinvb. up Hi5.
      stepO sp_col_filter. intros _ own6 Hi6 _. up Hi6.
      eapply sp_anyO.
      eapply (sp_for_eachO pre _ any _ (fun _ => True)); auto using Forall_True.
      intros i _ own7 _ Hi7 _. up Hi7.
      stepA sp_get_b.
      intros x own8 Hi8 _. destruct x; [exact I|]. up Hi8.
      stepA sp_get_b.
      intros y own9 Hi9 _. up Hi9. eapply to_anyO, sp_set; eauto with sp. exact I.
    - apply sp_col_filter; auto.
  Qed.

  Local Notation ok_qf := qf_ok.
  Local Notation ok_g := g_ok.

  Lemma with_index_ok qf ix own : qf_ok qf own -> s_ok own ix -> qf_ok (with_index qf ix) own.
  Proof. intros (H1 & H2 & H3) H. repeat split; auto. Qed.
  Lemma with_err_ok qf own : qf_ok qf own -> qf_ok (with_err qf) own.
  Proof. intros (H1 & H2 & H3). repeat split; auto. Qed.
  Lemma zero_frame_ok own : qf_ok zero_frame own.
  Proof. repeat split; simpl; auto with sp. intros l Hl; discriminate. Qed.
  Lemma err_frame_ok own : qf_ok err_frame own.
  Proof. repeat split; simpl; auto with sp. intros l Hl; discriminate. Qed.
  Hint Resolve with_index_ok with_err_ok zero_frame_ok err_frame_ok : sp.

  Lemma sp_qf_filter fs qf own : qf_ok qf own -> SP (qf_filter fs qf) own (okO ok_qf).
  Proof.
    intro Hq. unfold qf_filter. destruct (q_err qf); [exact Hq|].
    step sp_new_bool. intros b own1 Hi1 Hb. up Hi1.
    eapply spq_seq with (Q1 := any).
    { eapply sp_any. eapply (sp_for_eachO pre _ any _ (fun _ => True)); auto using Forall_True.
      intros f _ own2 _ Hi2 _. up Hi2. apply sp_leaf_step; auto. }
    intros r own2 Hi2 _. up Hi2. destruct r as [u| |].
    - destruct Hq as (Hq1 & Hq2 & Hq3).
      stepO sp_index_filter; auto with sp. intros ix own3 Hi3 Hix. up Hi3. simpl.
      apply with_index_ok; [repeat split; auto|auto with sp].
    - simpl. auto with sp.
    - exact I.
  Qed.

  (* ------------------------------------------------------------ And / Or / Not *)
  Lemma sp_step2 cond other j ix own : s_ok own other -> SP (step2 cond other j ix) own (okO any).
  Proof.
    intro H. unfold step2. destruct cond; [|exact I].
    stepA sp_get_z. intros; exact I.
  Qed.

  Lemma sp_or_frames orig lhs rhs own :
    qf_ok orig own -> (forall l, lhs = Some l -> qf_ok l own) -> qf_ok rhs own ->
    SP (or_frames orig lhs rhs) own (okO ok_qf).
  Proof.
    intros Ho Hl Hr. unfold or_frames. destruct lhs as [l|]; [|exact Hr].
    pose proof (Hl l eq_refl) as Hl'. destruct (q_err l); [exact Hl'|]. destruct (q_err rhs); [exact Hr|].
    step sp_make_own; [exact I|]. intros res own1 Hi1 Hres. up Hi1.
    destruct Ho as (Ho1 & Ho2 & Ho3). destruct Hl' as (Hl1 & Hl2 & Hl3). destruct Hr as (Hr1 & Hr2 & Hr3).
    step sp_read_zs. intros oix own2 Hi2 ->.
    eapply spq_seqO with (Q1 := fun (st : slice * nat * nat) o => slice_own o (fst (fst st))).
    - eapply (sp_for_eachO pre _ (fun (st : slice * nat * nat) o => slice_own o (fst (fst st)))
                           _ (fun _ => True)); auto using Forall_True.
      intros ix [[r li] ri] own3 _ Hi3 Hr0. simpl in Hr0. up Hi3.
      stepO sp_step2. intros f1 own4 Hi4 _. up Hi4.
      stepO sp_step2. intros f2 own5 Hi5 _. up Hi5.
      destruct (fst f1 || fst f2); simpl; auto.
      step sp_append_own; [exact I|]. intros r' own6 Hi6 Hr'. simpl. exact Hr'.
    - intros st own3 Hi3 Hst. up Hi3. simpl. repeat split; simpl; auto with sp.
  Qed.

  Lemma sp_not_index qf nq own :
    qf_ok qf own -> qf_ok nq own -> SP (not_index qf nq) own (okO ok_qf).
  Proof.
    intros Hq Hn. unfold not_index.
    step sp_make_own; [exact I|]. intros new own1 Hi1 Hnew. up Hi1.
    destruct Hq as (Hq1 & Hq2 & Hq3). destruct Hn as (Hn1 & Hn2 & Hn3).
    step sp_read_zs. intros oix own2 Hi2 ->.
    eapply spq_seqO with (Q1 := fun (st : slice * nat) o => slice_own o (fst st)).
    - eapply (sp_for_eachO pre _ (fun (st : slice * nat) o => slice_own o (fst st))
                           _ (fun _ => True)); auto using Forall_True.
      intros ix [r j] own3 _ Hi3 Hr0. simpl in Hr0. up Hi3.
      stepO sp_step2. intros f own4 Hi4 _. up Hi4.
      destruct (fst f); simpl; auto.
      step sp_append_own; [exact I|]. intros r' own5 Hi5 Hr'. simpl. exact Hr'.
    - intros st own3 Hi3 Hst. up Hi3. simpl. repeat split; simpl; auto with sp.
  Qed.

  Lemma sp_flush_or qf filters acc0 own :
    qf_ok qf own -> (forall l, acc0 = Some l -> qf_ok l own) ->
    SP (flush_or qf filters acc0) own (okO (fun (o : option qframe) own' => forall l, o = Some l -> qf_ok l own')).
  Proof.
    intros Hq Ha. unfold flush_or. destruct filters as [|f fs]; [exact Ha|].
    stepO sp_qf_filter. intros nq own1 Hi1 Hnq.
    assert (Ha' : forall l, acc0 = Some l -> qf_ok l own1) by (intros l Hl; eapply qf_ok_mono; eauto).
    up Hi1. stepO sp_or_frames. intros r own2 Hi2 Hr. simpl. intros l Hl. inversion Hl; subst. exact Hr.
  Qed.

  Lemma sp_clause_filter : forall c qf own, qf_ok qf own -> SP (clause_filter c qf) own (okO ok_qf).
  Proof.
    fix IH 1. intros c qf own Hq. destruct c as [f|err cs|err cs|err c1|]; simpl.
    - apply sp_qf_filter; auto.
    - destruct (q_err qf); [exact Hq|]. destruct err; [apply with_err_ok; exact Hq|].
      revert qf own Hq.
      induction cs as [|c1 r IHr]; intros cur own Hcur; [exact Hcur|].
      stepO IH. intros n own1 Hi1 Hn. apply IHr. exact Hn.
    - destruct (q_err qf); [exact Hq|]. destruct err; [apply with_err_ok; exact Hq|].
      match goal with
      | |- SP (?g cs [] None) own ?Q =>
          enough (Hgen : forall own0, qf_ok qf own0 -> forall filters acc0,
                           (forall l, acc0 = Some l -> qf_ok l own0) -> SP (g cs filters acc0) own0 Q)
            by (apply Hgen; [exact Hq|intros l Hl; discriminate])
      end.
      clear own Hq.
      induction cs as [|c1 r IHr]; intros own Hq filters acc0 Hacc.
      + stepO sp_flush_or. intros acc1 own1 Hi1 Hacc1. destruct acc1 as [r|]; simpl; auto.
      + pose proof (IH c1) as IHc1. destruct c1 as [f|err1 cs1|err1 cs1|err1 c2|].
        * apply IHr; auto.
        * stepO sp_flush_or. intros acc1 own1 Hi1 Hacc1. up Hi1.
          stepO IHc1. intros nq own2 Hi2 Hnq.
          assert (Hacc1' : forall l, acc1 = Some l -> qf_ok l own2) by (intros l Hl; eapply qf_ok_mono; eauto).
          up Hi2. stepO sp_or_frames. intros acc2 own3 Hi3 Hacc2. up Hi3.
          apply IHr; auto. intros l Hl. inversion Hl; subst. exact Hacc2.
        * stepO sp_flush_or. intros acc1 own1 Hi1 Hacc1. up Hi1.
          stepO IHc1. intros nq own2 Hi2 Hnq.
          assert (Hacc1' : forall l, acc1 = Some l -> qf_ok l own2) by (intros l Hl; eapply qf_ok_mono; eauto).
          up Hi2. stepO sp_or_frames. intros acc2 own3 Hi3 Hacc2. up Hi3.
          apply IHr; auto. intros l Hl. inversion Hl; subst. exact Hacc2.
        * stepO sp_flush_or. intros acc1 own1 Hi1 Hacc1. up Hi1.
          stepO IHc1. intros nq own2 Hi2 Hnq.
          assert (Hacc1' : forall l, acc1 = Some l -> qf_ok l own2) by (intros l Hl; eapply qf_ok_mono; eauto).
          up Hi2. stepO sp_or_frames. intros acc2 own3 Hi3 Hacc2. up Hi3.
          apply IHr; auto. intros l Hl. inversion Hl; subst. exact Hacc2.
        * stepO sp_flush_or. intros acc1 own1 Hi1 Hacc1. up Hi1.
          stepO IHc1. intros nq own2 Hi2 Hnq.
          assert (Hacc1' : forall l, acc1 = Some l -> qf_ok l own2) by (intros l Hl; eapply qf_ok_mono; eauto).
          up Hi2. stepO sp_or_frames. intros acc2 own3 Hi3 Hacc2. up Hi3.
          apply IHr; auto. intros l Hl. inversion Hl; subst. exact Hacc2.
    - destruct (q_err qf); [exact Hq|]. destruct err; [apply with_err_ok; exact Hq|].
      pose proof (IH c1) as IHc1. destruct c1 as [f|err1 cs1|err1 cs1|err1 c2|].
      + apply sp_qf_filter; auto.
      + stepO IHc1. intros nq own1 Hi1 Hnq. destruct (q_err nq); [exact Hnq|]. up Hi1. apply sp_not_index; auto.
      + stepO IHc1. intros nq own1 Hi1 Hnq. destruct (q_err nq); [exact Hnq|]. up Hi1. apply sp_not_index; auto.
      + stepO IHc1. intros nq own1 Hi1 Hnq. destruct (q_err nq); [exact Hnq|]. up Hi1. apply sp_not_index; auto.
      + stepO IHc1. intros nq own1 Hi1 Hnq. destruct (q_err nq); [exact Hnq|]. up Hi1. apply sp_not_index; auto.
    - exact Hq.
  Qed.

  Lemma sp_op_filter c qf own : qf_ok qf own -> SP (op_filter c qf) own (okO ok_qf).
  Proof. intro Hq. unfold op_filter. destruct (q_err qf); [exact Hq|]. apply sp_clause_filter; auto. Qed.

  (* ------------------------------------------------------------ Sort *)
  Lemma sp_run_sorter ix cols less sc : forall own,
    slice_own own ix -> Forall (c_ok own) cols -> SP (run_sorter ix cols less sc) own (okO any).
  Proof.
    induction sc as [|i j k IH|i j k IH]; intros own Hix Hc; simpl.
    - exact I.
    - stepA sp_get_z. intros di own1 Hi1 _. up Hi1.
      stepA sp_get_z. intros dj own2 Hi2 _. up Hi2.
      stepO sp_cols_cell. intros ci own3 Hi3 _. up Hi3.
      stepO sp_cols_cell. intros cj own4 Hi4 _. up Hi4.
      apply IH; auto.
    - stepA sp_get_z. intros a own1 Hi1 _. up Hi1.
      stepA sp_get_z. intros b own2 Hi2 _. up Hi2.
      stepA sp_set; [exact I|]. intros _ own3 Hi3 _. up Hi3.
      stepA sp_set; [exact I|]. intros _ own4 Hi4 _. up Hi4.
      apply IH; auto.
  Qed.

  Lemma sp_lookup_cols m names own :
    map_acc own m ->
    SP (lookup_cols m names) own (okO (fun cs own' => Forall (c_ok own') cs)).
  Proof.
    intro Hm. unfold lookup_cols.
    eapply (sp_for_eachO pre _ (fun cs own' => Forall (c_ok own') cs) _ (fun _ => True)); auto using Forall_True.
    intros nm cs own1 _ Hi1 Hcs. up Hi1. step sp_by_name_m.
    intros oc own2 Hi2 Hoc. up Hi2. destruct oc as [c|]; simpl; auto.
    apply Forall_app. split; [exact Hcs|]. constructor; [apply opt_ok_some; exact Hoc|constructor].
  Qed.

  Lemma sp_op_sort names less script qf own :
    qf_ok qf own -> SP (op_sort names less script qf) own (okO ok_qf).
  Proof.
    intro Hq. unfold op_sort. destruct (q_err qf); [exact Hq|].
    destruct names as [|n0 nr]; [exact Hq|].
    pose proof Hq as (Hq1 & Hq2 & Hq3).
    step sp_lookup_cols. intros r own1 Hi1 Hr. up Hi1.
    destruct r as [cols| |]; simpl in Hr; [|simpl; auto with sp|exact I].
    step sp_index_copy. intros nix own2 Hi2 Hnix. up Hi2.
    stepO sp_run_sorter. intros _ own3 Hi3 _. up Hi3. simpl. auto with sp.
  Qed.

  (* ------------------------------------------------------------ Slice *)
  Lemma op_slice_ok a b qf own q' : qf_ok qf own -> op_slice a b qf = Ok q' -> qf_ok q' own.
  Proof.
    intros Hq. unfold op_slice. destruct (q_err qf); [intro H; inversion H; subst; auto|].
    destruct (a <? 0)%Z; [intro H; inversion H; subst; auto with sp|].
    destruct (b <? a)%Z; [intro H; inversion H; subst; auto with sp|].
    destruct (Z.of_nat (s_len (q_idx qf)) <? b)%Z; [intro H; inversion H; subst; auto with sp|].
    destruct (subslice (q_idx qf) (Z.to_nat a) (Z.to_nat b)) as [s| |] eqn:E; simpl; try discriminate.
    intro H; inversion H; subst. destruct Hq as (H1 & H2 & H3).
    apply with_index_ok; [repeat split; auto|]. eapply subslice_ok; eauto.
  Qed.

  (* ------------------------------------------------------------ Select / Drop / setColumn / Copy *)
  Lemma sp_check_columns m names own : map_acc own m -> SP (check_columns m names) own any.
  Proof.
    intro Hm. unfold check_columns. eapply sp_any.
    eapply (sp_for_each pre _ any _ (fun _ => True)); auto using Forall_True.
    intros nm ok own1 _ Hi1 _. up Hi1. step sp_by_name_m. intros; simpl; exact I.
  Qed.

  Lemma empty_col_ok own : c_ok own (mkCol [] 0 0 []).
  Proof. constructor. Qed.
  Lemma set_pos_ok own c i : c_ok own c -> c_ok own (set_pos c i).
  Proof. auto. Qed.
  Hint Resolve empty_col_ok set_pos_ok : sp.

  Lemma sp_op_select names qf own : qf_ok qf own -> SP (op_select names qf) own (okO ok_qf).
  Proof.
    intro Hq. unfold op_select. destruct (q_err qf); [exact Hq|].
    pose proof Hq as (Hq1 & Hq2 & Hq3).
    step sp_check_columns. intros ok own1 Hi1 _. up Hi1.
    destruct ok; simpl; [|auto with sp].
    destruct names as [|n0 nr]; [simpl; auto with sp|].
    step sp_map_make. intros nm own2 Hi2 Hnm. up Hi2.
    step sp_make_own; [apply empty_col_ok|]. intros nc own3 Hi3 Hnc. up Hi3.
    eapply spq_seqO with (Q1 := any).
    { eapply sp_anyO. eapply (sp_for_eachO pre _ any _ (fun _ => True)); auto using Forall_True.
      intros [i nm0] _ own4 _ Hi4 _. up Hi4. simpl.
      step sp_by_name. intros oc own5 Hi5 Hoc. up Hi5.
      assert (Hs : c_ok own5 (set_pos match oc with Some c => c | None => mkCol [] 0 0 [] end i)).
      { destruct oc as [c0|]; [apply set_pos_ok, opt_ok_some; exact Hoc|apply empty_col_ok]. }
      step sp_map_store. intros _ own6 Hi6 _. up Hi6.
      eapply to_anyO, sp_set; eauto. }
    intros _ own4 Hi4 _. up Hi4. simpl. repeat split; simpl; auto with sp.
    intros l Hl. inversion Hl; subst. right. auto.
  Qed.

  Lemma sp_op_drop names qf own : qf_ok qf own -> SP (op_drop names qf) own (okO ok_qf).
  Proof.
    intro Hq. unfold op_drop. destruct (q_err qf); [exact Hq|].
    destruct names as [|n0 nr]; [exact Hq|].
    pose proof Hq as (Hq1 & Hq2 & Hq3).
    step sp_read_cols. intros cs own1 Hi1 [-> _]. apply sp_op_select; auto.
  Qed.

  Lemma sp_set_column name_ok name ty parts qf own :
    qf_ok qf own -> Forall (s_ok own) parts ->
    SP (set_column name_ok name ty parts qf) own (okO ok_qf).
  Proof.
    intros Hq Hp. unfold set_column. destruct name_ok; simpl; [|auto with sp].
    pose proof Hq as (Hq1 & Hq2 & Hq3).
    step sp_by_name. intros ex own1 Hi1 _. up Hi1.
    step sp_make_own; [apply empty_col_ok|]. intros nc own2 Hi2 Hnc. up Hi2.
    step sp_map_make. intros nm own3 Hi3 Hnm. up Hi3.
    step sp_copy_col. intros _ own4 Hi4 _. up Hi4.
    eapply spq_seq with (Q1 := fun kv own' => map_ok pre own' kv).
    { destruct (q_map qf) as [m|]; [|simpl; constructor].
      eapply spq_conseq; [|apply sp_map_read; apply Hq2; reflexivity].
      intros kv o [-> H]. exact H. }
    intros kv own5 Hi5 Hkv. up Hi5.
    eapply spq_seq with (Q1 := any).
    { eapply sp_any. eapply (sp_for_each pre _ any kv (fun e => c_ok own5 (snd e))); auto.
      intros e _ own6 He Hi6 _. up Hi6. eapply sp_any, sp_map_store; auto. }
    intros _ own6 Hi6 _. up Hi6.
    assert (Hnew : forall pos, c_ok own6 (mkCol name pos ty parts)) by (intro; exact Hp).
    step sp_map_store. intros _ own7 Hi7 _. up Hi7.
    stepA sp_set.
    intros _ own8 Hi8 _. up Hi8. simpl. repeat split; simpl; auto with sp.
    intros l Hl. inversion Hl; subst. right. auto.
  Qed.

  Lemma sp_op_copy name_ok dst src qf own : qf_ok qf own -> SP (op_copy name_ok dst src qf) own (okO ok_qf).
  Proof.
    intro Hq. unfold op_copy. destruct (q_err qf); [exact Hq|].
    step sp_by_name. intros oc own1 Hi1 Hoc. up Hi1.
    destruct oc as [c|]; [|simpl; auto with sp].
    destruct (bytes_eqb dst src); [exact Hq|].
    apply sp_set_column; auto. apply (opt_ok_some _ _ Hoc).
  Qed.

  (* ------------------------------------------------------------ members *)
  Definition mem_ok (m : member) (own : list loc) : Prop :=
    match m with MemF q => qf_ok q own | MemG g => g_ok g own end.
  Definition mems_ok (ms : list member) (own : list loc) : Prop := Forall (fun m => mem_ok m own) ms.
  Lemma mem_ok_mono own own' m : incl own own' -> mem_ok m own -> mem_ok m own'.
  Proof. destruct m; simpl; [apply qf_ok_mono|apply g_ok_mono]. Qed.
  Lemma mems_ok_mono own own' ms : incl own own' -> mems_ok ms own -> mems_ok ms own'.
  Proof. intros Hi H. eapply Forall_impl; [|exact H]. intros m. apply mem_ok_mono; auto. Qed.

  (* ------------------------------------------------------------ read-only operations and observers *)
  Lemma sp_read_cells cols ix own :
    s_ok own cols -> s_ok own ix -> SP (read_cells cols ix) own (okO any).
  Proof.
    intros Hc Hi. unfold read_cells. step sp_read_cols. intros cs own1 Hi1 [-> Hcs].
    step sp_read_zs. intros ixs own2 Hi2 ->.
    eapply sp_anyO. eapply (sp_for_eachO pre _ any cs (c_ok own)); auto.
    intros c acc0 own3 Hc3 Hi3 _. up Hi3.
    eapply spq_seqO with (Q1 := any); [|intros; exact I].
    eapply sp_anyO. eapply (sp_for_eachO pre _ any _ (fun _ => True)); auto using Forall_True.
    intros i a0 own4 _ Hi4 _. up Hi4. stepA sp_col_cell. intros; exact I.
  Qed.

  Lemma sp_observe_frame q own : qf_ok q own -> SP (observe_frame q) own any.
  Proof.
    intros (H1 & H2 & H3). unfold observe_frame. step sp_read_cells. intros r own1 Hi1 _. up Hi1.
    step sp_read_cols. intros; exact I.
  Qed.

  Lemma sp_observe_grouper g own : g_ok g own -> SP (observe_grouper g) own any.
  Proof.
    intros (H1 & H2 & H3). unfold observe_grouper. destruct (g_err g); [exact I|].
    step sp_read_slices. intros groups own1 Hi1 [-> Hg].
    eapply sp_any. eapply (sp_for_each pre _ any groups (s_ok own)); auto.
    intros s acc0 own2 Hs Hi2 _. up Hi2. step sp_observe_frame.
    - repeat split; simpl; auto.
    - intros; exact I.
  Qed.

  Lemma sp_observe_member m own : mem_ok m own -> SP (observe_member m) own any.
  Proof.
    destruct m as [q|g]; simpl; intro H.
    - step sp_observe_frame. intros; exact I.
    - apply sp_observe_grouper; auto.
  Qed.

  Lemma sp_op_view name q own :
    qf_ok q own -> SP (op_view name q) own (okO (fun v own' => c_ok own' (fst v) /\ s_ok own' (snd v))).
  Proof.
    intros Hq. unfold op_view. step sp_by_name. intros oc own1 Hi1 Hoc. up Hi1.
    destruct oc as [c|]; simpl; auto. split; [apply (opt_ok_some _ _ Hoc)|apply Hq].
  Qed.

  Lemma sp_view_item_at v i own : c_ok own (fst v) -> s_ok own (snd v) -> SP (view_item_at v i) own (okO any).
  Proof.
    intros Hc Hs. unfold view_item_at. stepA sp_get_z. intros r own1 Hi1 _. up Hi1.
    eapply to_anyO, sp_col_cell; auto.
  Qed.

  Lemma sp_view_slice v own : c_ok own (fst v) -> s_ok own (snd v) -> SP (view_slice v) own (okO any).
  Proof.
    intros Hc Hs. unfold view_slice. step sp_make_own; [exact I|]. intros res own1 Hi1 Hres. up Hi1.
    step sp_read_zs. intros ixs own2 Hi2 ->.
    eapply spq_seqO with (Q1 := any); [|intros; exact I].
    eapply sp_anyO. eapply (sp_for_eachO pre _ any _ (fun _ => True)); auto using Forall_True.
    intros [k i] _ own3 _ Hi3 _. up Hi3. simpl. stepA sp_col_cell. intros x own4 Hi4 _. up Hi4.
    eapply to_anyO, sp_set; auto. apply scalar_ok. unfold scalar.
    destruct (is_scalar (hd VNil x)) eqn:E; auto.
  Qed.

  Lemma sp_op_serialize q own : qf_ok q own -> SP (op_serialize q) own (okO any).
  Proof.
    intros (H1 & H2 & H3). unfold op_serialize. destruct (q_err q); [exact I|].
    step sp_make_own; [exact I|]. intros rb own1 Hi1 Hrb. up Hi1.
    stepO sp_read_cells. intros r own2 Hi2 _. up Hi2.
    eapply spq_seqO with (Q1 := any); [|intros; exact I].
    eapply sp_anyO. eapply (sp_for_eachO pre _ any _ (fun _ => True)); auto using Forall_True.
    intros j _ own3 _ Hi3 _. up Hi3. eapply to_anyO, sp_set; auto. exact I.
  Qed.

  Lemma sp_op_equals eqf q o own : qf_ok q own -> qf_ok o own -> SP (op_equals eqf q o) own (okO any).
  Proof.
    intros (H1 & H2 & H3) (G1 & G2 & G3). unfold op_equals.
    destruct (negb (s_len (q_idx q) =? s_len (q_idx o))); [exact I|].
    destruct (negb (s_len (q_cols q) =? s_len (q_cols o))); [exact I|].
    stepO sp_read_cells. intros a own1 Hi1 _. up Hi1.
    stepO sp_read_cells. intros b own2 Hi2 _. exact I.
  Qed.

  (* ------------------------------------------------------------ Apply *)
  Ltac sl_list := repeat (apply Forall_cons; [auto with sp|]); apply Forall_nil.
  Lemma zero_of_ok P own rty : val_ok pre P own (zero_of rty).
  Proof. unfold zero_of. destruct (rty =? ty_bool)%N; [exact I|]. destruct (rty =? ty_string)%N; exact I. Qed.
  Lemma str_ptr_ok P own vs : Forall (val_ok pre P own) (map str_ptr vs).
  Proof. induction vs as [|v r IH]; simpl; constructor; auto. destruct v; exact I. Qed.
  Lemma str_bytes_ok P own vs : Forall (val_ok pre P own) (flat_map str_bytes vs).
  Proof.
    induction vs as [|v r IH]; simpl; [constructor|]. apply Forall_app. split; auto.
    destruct v; simpl; try constructor. induction s as [|x xs IHx]; simpl; constructor; auto. exact I.
  Qed.

  Lemma sp_wrap_result rty tmp own :
    slice_own own tmp -> SP (wrap_result rty tmp) own (fun w own' => Forall (s_ok own') (snd w)).
  Proof.
    intro H. unfold wrap_result. destruct (rty =? ty_string)%N.
    - step sp_read_own. intros vs own1 Hi1 [-> _].
      step sp_lit_own; [apply str_ptr_ok|]. intros ptrs own2 Hi2 Hp. up Hi2.
      step sp_lit_own; [apply str_bytes_ok|]. intros blob own3 Hi3 Hb. up Hi3.
      simpl. sl_list.
    - simpl. sl_list.
  Qed.

  Lemma sp_apply_loop fn rty n srcs qf own :
    qf_ok qf own -> Forall (c_ok own) srcs -> SP (apply_loop fn rty n srcs qf) own (okO own_slice).
  Proof.
    intros (H1 & H2 & H3) Hs. unfold apply_loop.
    step sp_make_own; [apply zero_of_ok|]. intros res own1 Hi1 Hres. up Hi1.
    step sp_read_zs. intros ixs own2 Hi2 ->.
    eapply spq_seqO with (Q1 := any).
    - eapply sp_anyO. eapply (sp_for_eachO pre _ any _ (fun _ => True)); auto using Forall_True.
      intros i _ own3 _ Hi3 _. up Hi3. stepO sp_cols_cell. intros cells own4 Hi4 _. up Hi4.
      simpl. intros v Hv. eapply to_anyO, sp_set; auto. apply scalar_ok; auto.
    - intros _ own3 Hi3 _. up Hi3. simpl. exact Hres.
  Qed.

  Lemma sp_first_col_len qf own : qf_ok qf own -> SP (first_col_len qf) own (okO any).
  Proof.
    intros (H1 & H2 & H3). unfold first_col_len. destruct (s_len (q_cols qf) =? 0); [exact I|].
    eapply spq_seqO with (Q1 := any); [eapply to_anyO, sp_get_col; auto|]. intros; exact I.
  Qed.

  Lemma sp_apply0 a qf own : qf_ok qf own -> SP (apply0 a qf) own (okO ok_qf).
  Proof.
    intro Hq. unfold apply0. destruct (q_err qf); [exact Hq|].
    stepO sp_first_col_len. intros n own1 Hi1 _. up Hi1.
    destruct (i_fn a) as [fn rty|rty| |src|need up0|merged|]; try (simpl; auto with sp; fail).
    - stepO sp_apply_loop. intros tmp own2 Hi2 Htmp. up Hi2.
      step sp_wrap_result. intros w own3 Hi3 Hw. up Hi3. apply sp_set_column; auto.
    - step sp_make_own; [apply zero_of_ok|]. intros tmp own2 Hi2 Htmp. up Hi2.
      step sp_wrap_result. intros w own3 Hi3 Hw. up Hi3. apply sp_set_column; auto.
    - pose proof Hq as (H1 & H2 & H3).
      step sp_make_own; [exact I|]. intros res own2 Hi2 Hres. up Hi2.
      step sp_read_zs. intros ixs own3 Hi3 ->.
      eapply spq_seqO with (Q1 := any).
      + eapply sp_anyO. eapply (sp_for_eachO pre _ any _ (fun _ => True)); auto using Forall_True.
        intros [k i] _ own4 _ Hi4 _. up Hi4. simpl. eapply to_anyO, sp_set; auto. exact I.
      + intros _ own4 Hi4 _. up Hi4. apply sp_set_column; auto. sl_list.
    - apply sp_op_copy; auto.
  Qed.

  Lemma sp_upper_s need up0 c qf own :
    qf_ok qf own -> c_ok own c -> SP (upper_s need up0 c qf) own (okO (fun w own' => Forall (s_ok own') (snd w))).
  Proof.
    intros (H1 & H2 & H3) Hc. unfold upper_s. destruct (col_len c =? 0); [simpl; exact Hc|].
    step sp_make_own; [exact I|]. intros ptrs own1 Hi1 Hp. up Hi1.
    step sp_make_own; [exact I|]. intros data own2 Hi2 Hd. up Hi2.
    step sp_make_own; [exact I|]. intros sb own3 Hi3 Hsb. up Hi3.
    step sp_read_zs. intros ixs own4 Hi4 ->.
    eapply spq_seqO with (Q1 := fun (st : slice * slice) o => slice_own o (fst st) /\ slice_own o (snd st)).
    - eapply (sp_for_eachO pre _ (fun (st : slice * slice) o => slice_own o (fst st) /\ slice_own o (snd st))
                           _ (fun _ => True)); auto using Forall_True.
      intros i [d b] own5 _ Hi5 [Hd5 Hb5]. simpl in Hd5, Hb5. up Hi5.
      stepA sp_col_cell. intros cell own6 Hi6 _. up Hi6.
      step sp_matcher_touch. intros sb' own7 Hi7 Hsb'. up Hi7.
      stepA sp_set; [exact I|]. intros _ own8 Hi8 _. up Hi8.
      step sp_append_list_own; [apply Forall_VZ|]. intros d' own9 Hi9 Hd'. up Hi9. simpl. auto.
    - intros st own5 Hi5 [Hst1 Hst2]. up Hi5. simpl. sl_list.
  Qed.

  Lemma sp_upper_e merged c own :
    c_ok own c -> SP (upper_e merged c) own (okO (fun w own' => Forall (s_ok own') (snd w))).
  Proof.
    intros Hc. unfold upper_e. unfold col_ok in Hc.
    destruct (c_parts c) as [|data [|values [|x r]]]; try exact I.
    inversion Hc as [|? ? Hdata Hr]; subst. inversion Hr as [|? ? Hvalues _]; subst.
    step sp_read. intros vs own1 Hi1 [-> _].
    step sp_make_own; [exact I|]. intros nv own2 Hi2 Hnv. up Hi2.
    step sp_make_own; [exact I|]. intros o2n own3 Hi3 Ho2n. up Hi3.
    eapply spq_seqO with (Q1 := own_slice).
    - eapply (sp_for_eachO pre _ own_slice _ (fun _ => True)); auto using Forall_True.
      intros [i v] nv0 own4 _ Hi4 Hnv0. up Hi4. simpl.
      stepA sp_set; [exact I|]. intros _ own5 Hi5 _. up Hi5.
      apply sp_lift. apply sp_append_own; auto. apply scalar_ok. unfold scalar.
      destruct (is_scalar v) eqn:E; auto.
    - intros nv' own4 Hi4 Hnv'. up Hi4. destruct (merged vs).
      + step sp_read_zs. intros ds own5 Hi5 ->. step sp_lit_own; [apply Forall_VZ|].
        intros nd own6 Hi6 Hnd. up Hi6. simpl. sl_list.
      + simpl. sl_list.
  Qed.

  Lemma sp_apply1 a src qf own : qf_ok qf own -> SP (apply1 a src qf) own (okO ok_qf).
  Proof.
    intro Hq. unfold apply1. destruct (q_err qf); [exact Hq|].
    step sp_by_name. intros oc own1 Hi1 Hoc. up Hi1. destruct oc as [c|]; [|simpl; auto with sp].
    pose proof (opt_ok_some _ _ Hoc) as Hc.
    destruct (i_fn a) as [fn rty|rty| |src0|need up0|merged|]; try (simpl; auto with sp; fail).
    - stepO sp_apply_loop. intros tmp own2 Hi2 Htmp. up Hi2.
      step sp_wrap_result. intros w own3 Hi3 Hw. up Hi3. apply sp_set_column; auto.
    - stepO sp_upper_s. intros w own2 Hi2 Hw. up Hi2. apply sp_set_column; auto.
    - stepO sp_upper_e. intros w own2 Hi2 Hw. up Hi2. apply sp_set_column; auto.
  Qed.

  Lemma sp_apply2 a src1 src2 qf own : qf_ok qf own -> SP (apply2 a src1 src2 qf) own (okO ok_qf).
  Proof.
    intro Hq. unfold apply2. destruct (q_err qf); [exact Hq|].
    step sp_by_name. intros oc1 own1 Hi1 Hoc1. up Hi1. destruct oc1 as [c1|]; [|simpl; auto with sp].
    pose proof (opt_ok_some _ _ Hoc1) as Hc1.
    step sp_by_name. intros oc2 own2 Hi2 Hoc2. up Hi2. destruct oc2 as [c2|]; [|simpl; auto with sp].
    pose proof (opt_ok_some _ _ Hoc2) as Hc2.
    destruct (i_fn a) as [fn rty|rty| |src0|need up0|merged|]; try (simpl; auto with sp; fail).
    stepO sp_apply_loop. intros tmp own3 Hi3 Htmp. up Hi3.
    step sp_wrap_result. intros w own4 Hi4 Hw. up Hi4. apply sp_set_column; auto.
  Qed.

  Lemma sp_apply_instr a qf own : qf_ok qf own -> SP (apply_instr a qf) own (okO ok_qf).
  Proof.
    intro Hq. unfold apply_instr. destruct (i_src1 a) as [s1|]; [destruct (i_src2 a) as [s2|]|].
    - apply sp_apply2; auto.
    - apply sp_apply1; auto.
    - apply sp_apply0; auto.
  Qed.

  Lemma sp_op_apply is qf own : qf_ok qf own -> SP (op_apply is qf) own (okO ok_qf).
  Proof.
    intro Hq. unfold op_apply.
    eapply (sp_for_eachO pre _ ok_qf _ (fun _ => True)); auto using Forall_True.
    intros a cur own1 _ Hi1 Hcur. apply sp_apply_instr; auto.
  Qed.

  Lemma sp_op_filtered_apply c is qf own : qf_ok qf own -> SP (op_filtered_apply c is qf) own (okO ok_qf).
  Proof.
    intro Hq. unfold op_filtered_apply. stepO sp_op_filter. intros fq own1 Hi1 Hfq. up Hi1.
    destruct (q_err fq); [exact Hfq|].
    stepO sp_op_apply. { apply with_index_ok; auto. apply Hfq. }
    intros nq own2 Hi2 Hnq. up Hi2. simpl. apply with_index_ok; auto. apply Hq.
  Qed.

  Lemma sp_op_eval steps ok dst cn drop qf own : qf_ok qf own -> SP (op_eval steps ok dst cn drop qf) own (okO ok_qf).
  Proof.
    intro Hq. unfold op_eval. destruct (q_err qf); [exact Hq|].
    eapply spq_seqO with (Q1 := ok_qf).
    - eapply (sp_for_eachO pre _ ok_qf _ (fun _ => True)); auto using Forall_True.
      intros st cur own1 _ Hi1 Hcur. destruct st as [a|names|].
      + apply sp_op_apply; auto.
      + apply sp_op_drop; auto.
      + simpl. destruct (q_err cur); auto with sp.
    - intros r own1 Hi1 Hr. stepO sp_op_copy. intros r2 own2 Hi2 Hr2.
      destruct drop; [apply sp_op_drop; auto|exact Hr2].
  Qed.

  (* ------------------------------------------------------------ internal/grouper *)
  Local Notation ent_ok := (fun (slot : nat * val) (own : list loc) => val_ok pre True own (snd slot)).

  Lemma sp_probe gp cols ents i ci h : forall fuel pos own,
    slice_own own ents -> Forall (c_ok own) cols ->
    SP (probe gp cols ents i ci h pos fuel) own (okO ent_ok).
  Proof.
    induction fuel as [|f IH]; intros pos own He Hc; simpl; [exact I|].
    eapply spq_seqO with (Q1 := fun v own' => val_ok pre True own' v).
    - eapply spq_conseq; [|apply sp_get_own; eauto].
      intros [v| |] o [-> Hv]; simpl; auto.
    - intros e own1 Hi1 Hev. up Hi1.
      destruct e as [| | | | | |ix eh first occ|]; try exact I.
      destruct (negb occ); [simpl; exact Hev|].
      stepO sp_cols_cell. intros cf own2 Hi2 _. up Hi2.
      destruct ((eh =? h)%Z && gp_eq gp i first ci cf).
      + exact (val_ok_mono pre True True own1 own2 _ (fun x => x) Hi2 Hev).
      + apply IH; auto.
  Qed.

  Lemma sp_table_place ne n e : forall fuel pos own,
    slice_own own ne -> val_ok pre True own e -> SP (table_place ne n e pos fuel) own (okO any).
  Proof.
    induction fuel as [|f IH]; intros pos own Hne He; simpl; [exact I|].
    eapply spq_seqO with (Q1 := any); [eapply to_anyO, sp_get_own; eauto|].
    intros x own1 Hi1 _. up Hi1.
    assert (He1 : val_ok pre True own1 e) by (eapply val_ok_mono; [| exact Hi1 | exact He]; auto).
    destruct x as [| | | | | |ix eh first [|]|]; try (apply IH; auto).
    eapply to_anyO, sp_set; eauto.
  Qed.

  Lemma sp_grow_table ents own : slice_own own ents -> SP (grow_table ents) own (okO own_slice).
  Proof.
    intro He. unfold grow_table.
    step sp_make_own; [exact I|]. intros ne own1 Hi1 Hne. up Hi1.
    step sp_read_own. intros es own2 Hi2 [-> Hes].
    eapply spq_seqO with (Q1 := any).
    - eapply sp_anyO. eapply (sp_for_eachO pre _ any es (val_ok pre True own1)); auto.
      intros e _ own3 Hev Hi3 _. up Hi3.
      assert (He3 : val_ok pre True own3 e) by (eapply val_ok_mono; [| exact Hi3 | exact Hev]; auto).
      destruct e as [| | | | | |ix eh first occ|]; try exact I.
      apply sp_table_place; auto.
    - intros _ own3 Hi3 _. up Hi3. simpl. exact Hne.
  Qed.

  Local Notation tab_ok := (fun (t : gtable) (own : list loc) => slice_own own (gt_entries t)).

  Lemma sp_insert_entry gp cols collect i t own :
    slice_own own (gt_entries t) -> Forall (c_ok own) cols ->
    SP (insert_entry gp cols collect i t) own (okO tab_ok).
  Proof.
    intros Ht Hc. unfold insert_entry.
    eapply spq_seqO with (Q1 := own_slice).
    { destruct (s_len (gt_entries t) <? 2 * gt_count t); [apply sp_grow_table; auto|simpl; exact Ht]. }
    intros ents own1 Hi1 Hents. up Hi1.
    stepO sp_cols_cell. intros ci own2 Hi2 _. up Hi2.
    stepO sp_probe. intros [pos e] own3 Hi3 He. simpl in He. up Hi3.
    simpl. destruct e as [| | | | | |ix eh first occ|]; try exact I.
    destruct (negb occ).
    - stepA sp_set; [try (simpl; destruct ix as [s|]; auto; fail)..|].
      intros _ own4 Hi4 _. up Hi4. simpl. exact Hents.
    - destruct collect; [|simpl; exact Hents].
      destruct ix as [s|].
      + simpl in He. destruct He as [_ Hs]. specialize (Hs I).
        step sp_append_own; [try exact I..|]. intros s' own4 Hi4 Hs'. up Hi4.
        stepA sp_set; [try (simpl; split; auto with sp; fail)..|].
        intros _ own5 Hi5 _. up Hi5. simpl. exact Hents.
      + step sp_lit_own; [try (repeat constructor)..|]. intros s own4 Hi4 Hs. up Hi4.
        stepA sp_set; [try (simpl; split; auto with sp; fail)..|].
        intros _ own5 Hi5 _. up Hi5. simpl. exact Hents.
  Qed.

  Lemma sp_group_index gp cols collect ix own :
    s_ok own ix -> Forall (c_ok own) cols -> SP (group_index gp cols collect ix) own (okO tab_ok).
  Proof.
    intros Hix Hc. unfold group_index.
    step sp_make_own; [exact I|]. intros ents own1 Hi1 Hents. up Hi1.
    step sp_read_zs. intros ixs own2 Hi2 ->.
    eapply (sp_for_eachO pre _ tab_ok _ (fun _ => True)); auto using Forall_True.
    intros i t own3 _ Hi3 Ht. up Hi3. apply sp_insert_entry; auto.
  Qed.

  Lemma sp_grouper_distinct gp cols ix own :
    s_ok own ix -> Forall (c_ok own) cols -> SP (grouper_distinct gp cols ix) own (okO own_slice).
  Proof.
    intros Hix Hc. unfold grouper_distinct. stepO sp_group_index. intros t own1 Hi1 Ht. up Hi1.
    step sp_make_own; [exact I|]. intros res own2 Hi2 Hres. up Hi2.
    step sp_read_own. intros es own3 Hi3 [-> _].
    apply sp_lift. eapply (sp_for_each pre _ own_slice _ (fun _ => True)); auto using Forall_True.
    intros e r own4 _ Hi4 Hr. destruct e as [| | | | | |ix0 eh first [|]|]; try (simpl; exact Hr).
    apply sp_append_own; auto. exact I.
  Qed.

  Lemma sp_grouper_group_by gp cols ix own :
    s_ok own ix -> Forall (c_ok own) cols -> SP (grouper_group_by gp cols ix) own (okO own_slice).
  Proof.
    intros Hix Hc. unfold grouper_group_by. stepO sp_group_index. intros t own1 Hi1 Ht. up Hi1.
    step sp_make_own; [simpl; apply nil_ok|]. intros res own2 Hi2 Hres. up Hi2.
    step sp_read_own. intros es own3 Hi3 [-> Hes].
    apply sp_lift. eapply (sp_for_each pre _ own_slice es (val_ok pre True own2)); auto.
    intros e r own4 Hev Hi4 Hr.
    assert (He4 : val_ok pre True own4 e) by (eapply val_ok_mono; [| exact Hi4 | exact Hev]; auto).
    destruct e as [| | | | | |[s|] eh first [|]|]; try (simpl; exact Hr).
    - simpl in He4. apply sp_append_own; auto. simpl. apply He4.
    - step sp_lit_own; [try (repeat constructor)..|]. intros s own5 Hi5 Hs. up Hi5.
      apply sp_append_own; auto. simpl. auto with sp.
  Qed.

  Lemma sp_columns_or_all names qf own : qf_ok qf own -> SP (columns_or_all names qf) own any.
  Proof.
    intros (H1 & _). unfold columns_or_all. destruct names; [|exact I].
    step sp_read_cols. intros; exact I.
  Qed.

  Lemma sp_op_distinct gp names qf own : qf_ok qf own -> SP (op_distinct gp names qf) own (okO ok_qf).
  Proof.
    intro Hq. unfold op_distinct. destruct (q_err qf); [exact Hq|].
    destruct (s_len (q_idx qf) =? 0); [exact Hq|]. pose proof Hq as (H1 & H2 & H3).
    step sp_check_columns. intros ok own1 Hi1 _. up Hi1. destruct ok; simpl; [|auto with sp].
    step sp_columns_or_all. intros all own2 Hi2 _. up Hi2.
    step sp_lookup_cols. intros r own3 Hi3 Hr. up Hi3. destruct r as [cols| |]; try exact I.
    simpl in Hr. stepO sp_grouper_distinct. intros nix own4 Hi4 Hnix. up Hi4. simpl. auto with sp.
  Qed.

  Lemma sp_op_group_by gp names qf own : qf_ok qf own -> SP (op_group_by gp names qf) own (okO ok_g).
  Proof.
    intro Hq. unfold op_group_by. pose proof Hq as (H1 & H2 & H3).
    assert (Herr : forall o, g_ok (mkG nil_slice [] nil_slice None true) o).
    { intro o. repeat split; simpl; auto with sp. intros l Hl; discriminate. }
    destruct (q_err qf); [apply Herr|].
    step sp_check_columns. intros ok own1 Hi1 _. up Hi1. destruct ok; simpl; [|apply Herr].
    destruct (s_len (q_idx qf) =? 0); [repeat split; simpl; auto with sp|].
    destruct names as [|n0 nr].
    - step sp_lit_own; [try (repeat constructor; exact H3)..|]. intros s own2 Hi2 Hs. up Hi2.
      simpl. repeat split; simpl; auto with sp.
    - step sp_lookup_cols. intros r own2 Hi2 Hr. up Hi2. destruct r as [cols| |]; try exact I.
      simpl in Hr. stepO sp_grouper_group_by. intros ind own3 Hi3 Hind. up Hi3.
      simpl. repeat split; simpl; auto with sp.
  Qed.

  Lemma sp_op_qframes g own :
    g_ok g own -> SP (op_qframes g) own (okO (fun fs own' => Forall (fun q => qf_ok q own') fs)).
  Proof.
    intros (H1 & H2 & H3). unfold op_qframes. destruct (g_err g); [exact I|].
    step sp_read_slices. intros groups own1 Hi1 [-> Hg].
    step sp_lit_own.
    { clear - Hg. induction Hg; simpl; constructor; auto. }
    intros _ own2 Hi2 _. up Hi2. simpl.
    clear - Hg H2 H3. induction Hg; simpl; constructor; auto. repeat split; auto.
  Qed.
End OpsSafe.

(* ==================================================================== theorem 4: histories *)
#[local] Arguments history_step : simpl never.
Section HistoryProofs.
  Variable env : fnid -> list val -> val.

  (* the per-operation obligation (theorem 3): from valid references, in any context (pre, own), the
     abstract safety logic accepts the operation and the new members are valid references *)
  Definition lop_safe (op : lop) : Prop :=
    forall pre own recv other, mem_ok pre recv own -> mem_ok pre other own ->
      spq pre (lop_prog op recv other) own (okO (fun news own' => mems_ok pre news own')).

  (* state of a history: the store is closed, every member is a valid reference into it, and the
     name spaces t, t+1, ... are unused *)
  Definition hist_inv (t : nat) (st : store) (fam : list member) : Prop :=
    closed_store st /\ mems_ok (in_dom st) fam [] /\ (forall t' k, t <= t' -> lookup st (t', k) = None).

  Lemma mem_ok_reclose pre pre' own m :
    (forall l, acc pre own l -> pre' l = true) -> mem_ok pre m own -> mem_ok pre' m [].
  Proof.
    intros H. destruct m as [q|g]; simpl.
    - intros (H1 & H2 & H3). repeat split.
      + eapply slice_ok_reclose; eauto.
      + intros l Hl. left. apply H. apply H2. exact Hl.
      + eapply slice_ok_reclose; eauto.
    - intros (H1 & H2 & H3). repeat split.
      + eapply slice_ok_reclose; eauto.
      + eapply slice_ok_reclose; eauto.
      + intros l Hl. left. apply H. apply H3. exact Hl.
  Qed.

  (* "observe st r depends only on locations reachable from r, all of which are in dom st" *)
  Lemma observe_stable tobs st st' m :
    closed_store st -> (forall k, lookup st (tobs, k) = None) -> mem_ok (in_dom st) m [] ->
    (forall l, in_dom st l = true -> lookup st' l = lookup st l) ->
    observe env tobs st' m = observe env tobs st m.
  Proof.
    intros Hc Hf Hm Hfr. unfold observe.
    destruct (spq_solo_safe env tobs (observe_member m) 0 st (fun _ _ => True) Hc) as (a & n' & s1 & own & Hrun & _ & _).
    { intros k _. apply Hf. }
    { apply sp_observe_member. exact Hm. }
    pose proof (run_tr_sound env _ _ _ _ _ _ _ _ Hrun) as [Hr1 _]. rewrite Hr1. simpl.
    unfold run_tr in Hrun.
    destruct (run_tr_aux_agree env (in_dom st) tobs (observe_member m) 0 [] st st' a n' s1 own Hrun) as [s2 Hrun2].
    { intros l [Hl|[]]. apply Hfr. exact Hl. }
    apply run_tr_aux_sound in Hrun2; [|intros l []]. destruct Hrun2 as [Hr2 _]. rewrite Hr2. reflexivity.
  Qed.

  Lemma history_step_ok t st fam r r2 op st' fam' :
    hist_inv t st fam -> lop_safe op ->
    history_step env t st fam (r, r2, op) = (st', fam') ->
    hist_inv (S t) st' fam' /\
    (forall l, in_dom st l = true -> lookup st' l = lookup st l) /\
    incl fam fam'.
  Proof.
    intros (Hc & Hm & Hf) Hsafe Hstep. unfold history_step in Hstep.
    destruct (nth_error fam r) as [recv|] eqn:Er;
      [destruct (nth_error fam r2) as [other|] eqn:Er2|].
    2,3: inversion Hstep; subst; repeat split; auto using incl_refl; intros t' k Ht'; apply Hf; lia.
    assert (Hrecv : mem_ok (in_dom st) recv []).
    { unfold mems_ok in Hm. rewrite Forall_forall in Hm. apply Hm. eapply nth_error_In; eauto. }
    assert (Hother : mem_ok (in_dom st) other []).
    { unfold mems_ok in Hm. rewrite Forall_forall in Hm. apply Hm. eapply nth_error_In; eauto. }
    destruct (spq_solo_safe env t (lop_prog op recv other) 0 st
                (okO (fun news own' => mems_ok (in_dom st) news own')) Hc)
      as (res & n' & s1 & own & Hrun & HQ & Hok).
    { intros k _. apply Hf. apply le_n. }
    { apply Hsafe; auto. }
    pose proof (run_tr_sound env _ _ _ _ _ _ _ _ Hrun) as [Hr1 Hframe].
    rewrite Hr1 in Hstep. inversion Hstep; subst; clear Hstep.
    pose proof (reclose env _ _ _ _ _ _ _ _ Hrun Hok) as Hc'.
    unfold run_tr in Hrun.
    destruct (run_tr_aux_dom env (in_dom st) t _ 0 [] st res n' st' own Hrun) as (D1 & D2 & D3 & D4 & D5);
      [intros l []|].
    assert (Hacc : forall l, acc (in_dom st) own l -> in_dom st' l = true).
    { intros l [Hl|Hl]; auto. }
    repeat split; auto.
    - unfold mems_ok. apply Forall_app. split.
      + eapply Forall_impl; [|exact Hm]. intros m Hmm.
        eapply mem_ok_reclose; [|exact Hmm]. intros l [Hl|[]]. auto.
      + destruct res as [news| |]; [|constructor|constructor].
        simpl in HQ. eapply Forall_impl; [|exact HQ]. intros m Hmm.
        eapply mem_ok_reclose; eauto.
    - intros t' k Ht'. destruct (lookup st' (t', k)) eqn:El; auto. exfalso.
      assert (Hd : in_dom st' (t', k) = true) by (unfold in_dom; rewrite El; reflexivity).
      destruct (D1 _ Hd) as [Hx|Hx].
      + unfold in_dom in Hx. rewrite (Hf t' k) in Hx by lia. discriminate.
      + destruct (D4 _ Hx) as [[]|Hx2]. simpl in Hx2. lia.
    - apply incl_appl. apply incl_refl.
  Qed.

  Lemma hist_inv_weaken t t' st fam : t <= t' -> hist_inv t st fam -> hist_inv t' st fam.
  Proof. intros Hle (H1 & H2 & H3). repeat split; auto. intros t0 k Ht0. apply H3. lia. Qed.

  (* every later state keeps every location of an earlier state, and the family only grows *)
  Lemma history_frame : forall h t st fam,
    hist_inv t st fam -> Forall (fun x => lop_safe (snd x)) h ->
    forall k sk fk, nth_error (history_states env h t st fam) k = Some (sk, fk) ->
      (forall l, in_dom st l = true -> lookup sk l = lookup st l) /\ incl fam fk /\
      hist_inv (t + k) sk fk.
  Proof.
    induction h as [|[[r r2] op] rest IH]; intros t st fam Hinv Hsafe k sk fk Hk.
    - destruct k as [|k]; simpl in Hk; [|destruct k; discriminate].
      inversion Hk; subst. rewrite Nat.add_0_r. split; [auto|split; [apply incl_refl|exact Hinv]].
    - destruct k as [|k]; simpl in Hk.
      + inversion Hk; subst. rewrite Nat.add_0_r. split; [auto|split; [apply incl_refl|exact Hinv]].
      + inversion Hsafe as [|x xs Hop Hrest]; subst. simpl in Hop.
        destruct (history_step env t st fam (r, r2, op)) as [st' fam'] eqn:Es.
        destruct (history_step_ok _ _ _ _ _ _ _ _ Hinv Hop Es) as (Hinv' & Hfr & Hincl).
        destruct (IH (S t) st' fam' Hinv' Hrest k sk fk Hk) as (F1 & F2 & F3).
        split; [|split].
        * intros l Hl. rewrite F1; auto. unfold in_dom. rewrite (Hfr l Hl). exact Hl.
        * eapply incl_tran; eauto.
        * replace (t + S k) with (S t + k) by lia. exact F3.
  Qed.

  (* C01: every earlier member observes the same after every later step *)
  Theorem history_persistent : forall h t st fam tobs,
    hist_inv t st fam -> Forall (fun x => lop_safe (snd x)) h -> t + length h <= tobs ->
    forall j k sj fj sk fk, j <= k ->
      nth_error (history_states env h t st fam) j = Some (sj, fj) ->
      nth_error (history_states env h t st fam) k = Some (sk, fk) ->
      forall m, In m fj -> observe env tobs sk m = observe env tobs sj m.
  Proof.
    induction h as [|[[r r2] op] rest IH]; intros t st fam tobs Hinv Hsafe Hobs j k sj fj sk fk Hjk Hj Hk m Hm.
    - destruct j as [|j]; simpl in Hj; [|destruct j; discriminate].
      destruct k as [|k]; simpl in Hk; [|destruct k; discriminate].
      inversion Hj; inversion Hk; subst. reflexivity.
    - destruct j as [|j].
      + simpl in Hj. inversion Hj; subst sj fj; clear Hj.
        destruct (history_frame _ _ _ _ Hinv Hsafe k sk fk Hk) as (F1 & _ & _).
        destruct Hinv as (Hc & Hms & Hf).
        apply observe_stable; auto.
        * intros k0. apply Hf. simpl in Hobs. lia.
        * unfold mems_ok in Hms. rewrite Forall_forall in Hms. auto.
      + destruct k as [|k]; [lia|]. simpl in Hj, Hk.
        inversion Hsafe as [|x xs Hop Hrest]; subst. simpl in Hop.
        destruct (history_step env t st fam (r, r2, op)) as [st' fam'] eqn:Es.
        destruct (history_step_ok _ _ _ _ _ _ _ _ Hinv Hop Es) as (Hinv' & _ & _).
        simpl in Hobs.
        eapply (IH (S t) st' fam' tobs Hinv' Hrest ltac:(lia) j k sj fj sk fk); eauto. lia.
  Qed.
End HistoryProofs.

(* ==================================================================== theorem 3, per operation *)
Section LopSafe.
  Lemma sp_one pre p own :
    spq pre p own (okO (fun q own' => qf_ok pre q own')) ->
    spq pre (let? q := p in Ret (Ok [MemF q])) own (okO (fun news own' => mems_ok pre news own')).
  Proof.
    intro H. eapply spq_seqO; [exact H|]. intros q own1 Hi Hq. simpl. constructor; [exact Hq|constructor].
  Qed.

  Lemma sp_none {A} pre (p : prog (outcome A)) own Q :
    spq pre p own Q ->
    spq pre (let* _ := p in Ret (Ok (@nil member))) own (okO (fun news own' => mems_ok pre news own')).
  Proof.
    intro H. eapply spq_seq; [exact H|]. intros a own1 Hi _. simpl. constructor.
  Qed.

  Ltac lop_start := intros pre own recv other Hr Ho; unfold lop_prog;
                    destruct recv as [q|g]; simpl in Hr; try (simpl; constructor).

  Lemma safe_slice a b : lop_safe (LSlice a b).
  Proof.
    lop_start. simpl. destruct (op_slice a b q) as [q'| |] eqn:E; simpl; auto.
    constructor; [|constructor]. eapply op_slice_ok; eauto.
  Qed.
  Lemma safe_sort names less script : lop_safe (LSort names less script).
  Proof. lop_start. apply sp_one, sp_op_sort; auto. Qed.
  Lemma safe_filter c : lop_safe (LFilter c).
  Proof. lop_start. apply sp_one, sp_op_filter; auto. Qed.
  Lemma safe_copy ok d s : lop_safe (LCopy ok d s).
  Proof. lop_start. apply sp_one, sp_op_copy; auto. Qed.
  Lemma safe_select ns : lop_safe (LSelect ns).
  Proof. lop_start. apply sp_one, sp_op_select; auto. Qed.
  Lemma safe_drop ns : lop_safe (LDrop ns).
  Proof. lop_start. apply sp_one, sp_op_drop; auto. Qed.
  Lemma safe_view_item_at name i : lop_safe (LViewItemAt name i).
  Proof.
    lop_start. eapply sp_none. eapply spq_seqO; [apply sp_op_view; eauto|].
    intros v own1 Hi [H1 H2]. apply sp_view_item_at; auto.
  Qed.
  Lemma safe_view_slice name : lop_safe (LViewSlice name).
  Proof.
    lop_start. eapply sp_none. eapply spq_seqO; [apply sp_op_view; eauto|].
    intros v own1 Hi [H1 H2]. apply sp_view_slice; auto.
  Qed.
  Lemma safe_serialize : lop_safe LSerialize.
  Proof. lop_start. eapply sp_none. apply sp_op_serialize; auto. Qed.
  Lemma safe_equals eqf : lop_safe (LEquals eqf).
  Proof.
    lop_start. eapply sp_none. apply sp_op_equals; auto.
    destruct other as [q2|g2]; simpl; [exact Ho|apply err_frame_ok].
  Qed.
  Lemma safe_apply is : lop_safe (LApply is).
  Proof. lop_start. apply sp_one, sp_op_apply; auto. Qed.
  Lemma safe_row_nums ok n : lop_safe (LRowNums ok n).
  Proof. lop_start. apply sp_one. unfold op_with_row_nums. apply sp_op_apply; auto. Qed.
  Lemma safe_filtered_apply c is : lop_safe (LFApply c is).
  Proof. lop_start. apply sp_one, sp_op_filtered_apply; auto. Qed.
  Lemma safe_eval steps ok dst cn drop : lop_safe (LEval steps ok dst cn drop).
  Proof. lop_start. apply sp_one, sp_op_eval; auto. Qed.
  Lemma safe_distinct gp ns : lop_safe (LDistinct gp ns).
  Proof. lop_start. apply sp_one, sp_op_distinct; auto. Qed.
  Lemma safe_group_by gp ns : lop_safe (LGroupBy gp ns).
  Proof.
    lop_start. eapply spq_seqO; [apply sp_op_group_by; eauto|].
    intros g own1 Hi Hg. simpl. constructor; [exact Hg|constructor].
  Qed.
  Lemma safe_qframes : lop_safe LQFrames.
  Proof.
    intros pre own recv other Hr Ho. unfold lop_prog. destruct recv as [q|g]; simpl in Hr; [simpl; constructor|].
    eapply spq_seq; [apply sp_op_qframes; eauto|].
    intros r own1 Hi Hr1. simpl. destruct r as [fs| |]; simpl in *; try constructor.
    induction Hr1; simpl; constructor; auto.
  Qed.
End LopSafe.

(* ==================================================================== summary of theorem 3 *)
(* the operations whose solo-safety is proved (all but Aggregate, see Properties/C01.v) *)
Definition lop_proved (op : lop) : bool :=
  match op with LAggregate _ => false | _ => true end.

Theorem lop_proved_safe op : lop_proved op = true -> lop_safe op.
Proof.
  destruct op; simpl; intro H; try discriminate.
  - apply safe_slice.
  - apply safe_sort.
  - apply safe_filter.
  - apply safe_copy.
  - apply safe_select.
  - apply safe_drop.
  - apply safe_apply.
  - apply safe_row_nums.
  - apply safe_filtered_apply.
  - apply safe_eval.
  - apply safe_distinct.
  - apply safe_group_by.
  - apply safe_qframes.
  - apply safe_view_item_at.
  - apply safe_view_slice.
  - apply safe_serialize.
  - apply safe_equals.
Qed.

(* for all stores and valid references: the instrumented run does not fault *)
Theorem op_solo_safe env op recv other t n st :
  lop_safe op -> closed_store st -> store_fresh t n st ->
  mem_ok (in_dom st) recv [] -> mem_ok (in_dom st) other [] ->
  run_tr env t (lop_prog op recv other) n st <> None.
Proof.
  intros Hs Hc Hf Hr Ho.
  destruct (spq_solo_safe env t (lop_prog op recv other) n st _ Hc Hf (Hs _ _ _ _ Hr Ho))
    as (a & n' & s' & own & Hrun & _). congruence.
Qed.
