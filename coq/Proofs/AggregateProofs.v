(* Proofs/AggregateProofs.v — theorems about Model/Aggregate.v (Grouper.Aggregate, Grouper.QFrames and the
   frame-level parts of QFrame.GroupBy / QFrame.Distinct). *)
From QF Require Import Base.Prelude Gen.GenConsts Gen.GenTables Model.Frame Model.Filter Model.Ops Model.Aggregate.
From QF Require Model.Grouper.
From QF Require Proofs.GrouperProofs Proofs.GrouperMain Proofs.GrouperHash.
Local Open Scope N_scope.

(* ------------------------------------------------------------------ generic lemmas on omap / ofold *)

Lemma omap_ok_inv {A B} (f : A -> outcome B) x xs r :
  omap f (x :: xs) = Ok r -> exists y ys, f x = Ok y /\ omap f xs = Ok ys /\ r = y :: ys.
Proof.
  cbn [omap]. destruct (f x) as [y| |]; cbn [obind]; try discriminate.
  destruct (omap f xs) as [ys| |]; cbn [obind]; try discriminate.
  intros H; inversion H; subst. eauto.
Qed.

Lemma omap_length {A B} (f : A -> outcome B) l : forall r, omap f l = Ok r -> length r = length l.
Proof.
  induction l as [|x xs IH]; intros r H.
  - inversion H; reflexivity.
  - apply omap_ok_inv in H as (y & ys & _ & H2 & ->). cbn [length]. f_equal. apply IH; exact H2.
Qed.

Lemma omap_nth {A B} (f : A -> outcome B) l : forall r k x,
  omap f l = Ok r -> nth_error l k = Some x -> exists y, f x = Ok y /\ nth_error r k = Some y.
Proof.
  induction l as [|a xs IH]; intros r k x H Hk.
  - destruct k; discriminate.
  - apply omap_ok_inv in H as (y & ys & H1 & H2 & ->). destruct k as [|k]; cbn [nth_error] in *.
    + inversion Hk; subst. eauto.
    + apply (IH ys k x H2 Hk).
Qed.

Lemma omap_nth_inv {A B} (f : A -> outcome B) l : forall r k y,
  omap f l = Ok r -> nth_error r k = Some y -> exists x, nth_error l k = Some x /\ f x = Ok y.
Proof.
  induction l as [|a xs IH]; intros r k y H Hk.
  - inversion H; subst. destruct k; discriminate.
  - apply omap_ok_inv in H as (z & ys & H1 & H2 & ->). destruct k as [|k]; cbn [nth_error] in *.
    + inversion Hk; subst. eauto.
    + apply (IH ys k y H2 Hk).
Qed.

Lemma omap_in {A B} (f : A -> outcome B) l r y :
  omap f l = Ok r -> In y r -> exists x, In x l /\ f x = Ok y.
Proof.
  intros H Hy. apply In_nth_error in Hy as [k Hk].
  destruct (omap_nth_inv f l r k y H Hk) as (x & Hx & Hf). exists x; split; auto.
  eapply nth_error_In; eauto.
Qed.

Lemma omap_total {A B} (f : A -> outcome B) l :
  (forall x, In x l -> exists y, f x = Ok y) -> exists r, omap f l = Ok r.
Proof.
  induction l as [|a xs IH]; intros H.
  - exists []; reflexivity.
  - destruct (H a (or_introl eq_refl)) as [y Hy].
    destruct IH as [ys Hys]. { intros x Hx; apply H; right; exact Hx. }
    exists (y :: ys). cbn [omap]. rewrite Hy, Hys. reflexivity.
Qed.

Lemma omap_app {A B} (f : A -> outcome B) l1 l2 :
  omap f (l1 ++ l2) = do a <- omap f l1; do b <- omap f l2; Ok (a ++ b).
Proof.
  induction l1 as [|x xs IH]; cbn [omap app].
  - destruct (omap f l2); reflexivity.
  - destruct (f x) as [y| |]; cbn [obind]; auto. rewrite IH.
    destruct (omap f xs) as [ys| |]; cbn [obind]; auto.
    destruct (omap f l2) as [zs| |]; cbn [obind]; auto.
Qed.

Lemma omap_ext {A B} (f g : A -> outcome B) l :
  (forall x, In x l -> f x = g x) -> omap f l = omap g l.
Proof.
  induction l as [|a xs IH]; intros H; cbn [omap]; auto.
  rewrite (H a (or_introl eq_refl)), IH; auto. intros x Hx; apply H; right; exact Hx.
Qed.

Lemma omap_map {A B C} (f : B -> outcome C) (h : A -> B) l :
  omap f (map h l) = omap (fun x => f (h x)) l.
Proof. induction l as [|a xs IH]; cbn [omap map]; auto. rewrite IH. reflexivity. Qed.

Lemma omap_not_fail {A B} (f : A -> outcome B) l :
  (forall x, In x l -> f x <> Fail) -> omap f l <> Fail.
Proof.
  induction l as [|a xs IH]; intros H; cbn [omap]; try discriminate.
  specialize (H a (or_introl eq_refl)) as Ha.
  destruct (f a) as [y| |]; cbn [obind]; try congruence; try discriminate.
  assert (Hx : omap f xs <> Fail). { apply IH. intros x Hx; apply H; right; exact Hx. }
  destruct (omap f xs) as [ys| |]; cbn [obind]; try congruence; discriminate.
Qed.

Lemma ofold_fail {A B} (f : B -> A -> outcome B) l :
  fold_left (fun acc x => do a <- acc; f a x) l Fail = Fail.
Proof. induction l as [|x xs IH]; cbn [fold_left obind]; auto. Qed.

Lemma ofold_panic {A B} (f : B -> A -> outcome B) l :
  fold_left (fun acc x => do a <- acc; f a x) l Panic = Panic.
Proof. induction l as [|x xs IH]; cbn [fold_left obind]; auto. Qed.

Lemma ofold_nil {A B} (f : B -> A -> outcome B) init : ofold f [] init = Ok init.
Proof. reflexivity. Qed.

Lemma ofold_cons {A B} (f : B -> A -> outcome B) x l init :
  ofold f (x :: l) init = do a <- f init x; ofold f l a.
Proof.
  unfold ofold. cbn [fold_left obind].
  destruct (f init x) as [a| |]; cbn [obind]; auto using ofold_fail, ofold_panic.
Qed.

Lemma idx_some {A} (l : list A) i x : idx l i = Ok x <-> nth_error l i = Some x.
Proof.
  unfold idx, of_option. destruct (nth_error l i) as [y|]; split; intro H; inversion H; subst; auto.
Qed.

Lemma idx_not_fail {A} (l : list A) i : idx l i <> Fail.
Proof. unfold idx, of_option. destruct (nth_error l i); discriminate. Qed.

Lemma idx_in_range {A} (l : list A) i : (i < length l)%nat -> exists x, idx l i = Ok x.
Proof.
  intros H. unfold idx, of_option. destruct (nth_error l i) as [x|] eqn:E; eauto.
  apply nth_error_None in E. lia.
Qed.

(* ------------------------------------------------------------------ the built-in aggregations *)

Lemma wrap64_add_l a b : wrap64 (wrap64 a + b) = wrap64 (a + b).
Proof.
  unfold wrap64. f_equal.
  replace ((a + two63) mod two64 - two63 + b + two63)%Z with ((a + two63) mod two64 + b)%Z by lia.
  rewrite Zplus_mod_idemp_l. f_equal. lia.
Qed.

Lemma i_sum_from v : forall acc,
  fold_left (fun r x => wrap64 (r + x)) v (wrap64 acc) = wrap64 (acc + fold_right Z.add 0%Z v).
Proof.
  induction v as [|x v IH]; intros acc; cbn [fold_left fold_right].
  - f_equal. lia.
  - rewrite wrap64_add_l, IH. f_equal. lia.
Qed.

(* sum: the mathematical sum of the values reduced to int64 (Go's wrap-around), whatever the order *)
Lemma i_sum_spec v : i_sum v = wrap64 (fold_right Z.add 0%Z v).
Proof.
  unfold i_sum. change 0%Z with (wrap64 0) at 1. rewrite i_sum_from. reflexivity.
Qed.

Lemma int_max_bounds x a : (x <= int_max x a)%Z /\ (a <= int_max x a)%Z.
Proof. unfold int_max. destruct (a <? x)%Z eqn:E; lia. Qed.
Lemma int_min_bounds x a : (int_min x a <= x)%Z /\ (int_min x a <= a)%Z.
Proof. unfold int_min. destruct (x <? a)%Z eqn:E; lia. Qed.

Lemma fold_int_max v : forall x,
  let m := fold_left int_max v x in In m (x :: v) /\ forall y, In y (x :: v) -> (y <= m)%Z.
Proof.
  induction v as [|a v IH]; intros x; cbn [fold_left].
  - split; [left; reflexivity|]. intros y [<-|[]]. lia.
  - destruct (IH (int_max x a)) as [Hin Hle]. split.
    + destruct Hin as [E|Hin]; [|right; right; exact Hin].
      rewrite <- E. unfold int_max. destruct (a <? x)%Z; [left|right; left]; reflexivity.
    + intros y Hy. assert (Hm : (int_max x a <= fold_left int_max v (int_max x a))%Z) by (apply Hle; left; reflexivity).
      pose proof (int_max_bounds x a) as [B1 B2].
      destruct Hy as [<-|[<-|Hy]]; [lia|lia|].
      apply Hle. right; exact Hy.
Qed.

Lemma fold_int_min v : forall x,
  let m := fold_left int_min v x in In m (x :: v) /\ forall y, In y (x :: v) -> (m <= y)%Z.
Proof.
  induction v as [|a v IH]; intros x; cbn [fold_left].
  - split; [left; reflexivity|]. intros y [<-|[]]. lia.
  - destruct (IH (int_min x a)) as [Hin Hle]. split.
    + destruct Hin as [E|Hin]; [|right; right; exact Hin].
      rewrite <- E. unfold int_min. destruct (x <? a)%Z; [left|right; left]; reflexivity.
    + intros y Hy. assert (Hm : (fold_left int_min v (int_min x a) <= int_min x a)%Z) by (apply Hle; left; reflexivity).
      pose proof (int_min_bounds x a) as [B1 B2].
      destruct Hy as [<-|[<-|Hy]]; [lia|lia|].
      apply Hle. right; exact Hy.
Qed.

(* max / min: an element of the group that bounds all the others; a fault exactly on an empty slice *)
Lemma i_max_spec v : v <> [] -> exists m, i_max v = Ok m /\ In m v /\ forall y, In y v -> (y <= m)%Z.
Proof.
  destruct v as [|x v]; [congruence|]. intros _. exists (fold_left int_max v x).
  split; [reflexivity|]. apply fold_int_max.
Qed.

Lemma i_min_spec v : v <> [] -> exists m, i_min v = Ok m /\ In m v /\ forall y, In y v -> (m <= y)%Z.
Proof.
  destruct v as [|x v]; [congruence|]. intros _. exists (fold_left int_min v x).
  split; [reflexivity|]. apply fold_int_min.
Qed.

(* majority: strictly more true than false values *)
Lemma b_majority_spec v :
  b_majority v = true <-> (count_occ Bool.bool_dec v false < count_occ Bool.bool_dec v true)%nat.
Proof.
  unfold b_majority.
  assert (H : forall l, length (filter negb l) = count_occ Bool.bool_dec l false /\
                        length (filter (fun x => x) l) = count_occ Bool.bool_dec l true).
  { induction l as [|[|] l [IH1 IH2]]; cbn; auto. }
  destruct (H v) as [-> ->]. split; intro E; lia.
Qed.

(* ------------------------------------------------------------------ columns: Subset, New, Aggregate *)

Lemma omap_idx_nth {A} (d : list A) index r k p :
  omap (idx d) index = Ok r -> nth_error index k = Some p -> idx r k = idx d p.
Proof.
  intros H Hk. destruct (omap_nth _ _ _ _ _ H Hk) as (y & Hy & Hr).
  rewrite Hy. apply idx_some. exact Hr.
Qed.

(* the k-th cell of a subset is the cell at the k-th position of the index *)
Lemma col_subset_cell c index s k p :
  col_subset c index = Ok s -> nth_error index k = Some p -> cell_at s k = cell_at c p.
Proof.
  intros H Hk. destruct c as [d|d|d|d|d vs st]; cbn [col_subset] in H;
    destruct (omap (idx d) index) as [r| |] eqn:E; cbn [obind] in H; try discriminate;
    inversion H; subst; cbn [cell_at]; rewrite (omap_idx_nth _ _ _ _ _ E Hk); reflexivity.
Qed.

Lemma col_subset_type c index s : col_subset c index = Ok s -> col_type s = col_type c.
Proof.
  intros H. destruct c as [d|d|d|d|d vs st]; cbn [col_subset] in H;
    destruct (omap (idx d) index) as [r| |]; cbn [obind] in H; try discriminate; inversion H; reflexivity.
Qed.

Lemma col_subset_len c index s : col_subset c index = Ok s -> col_len s = length index.
Proof.
  intros H. destruct c as [d|d|d|d|d vs st]; cbn [col_subset] in H;
    destruct (omap (idx d) index) as [r| |] eqn:E; cbn [obind] in H; try discriminate; inversion H;
    cbn [col_len]; eapply omap_length; eauto.
Qed.

Lemma col_of_cells_cell t cells c k x :
  col_of_cells t cells = Ok c -> nth_error cells k = Some x -> cell_at c k = Ok x.
Proof.
  intros H Hk. destruct t; cbn [col_of_cells] in H; try discriminate;
  match type of H with (do d <- omap ?f cells; _) = _ =>
    destruct (omap f cells) as [d| |] eqn:E; cbn [obind] in H; try discriminate;
    inversion H; subst; cbn [cell_at];
    destruct (omap_nth _ _ _ _ _ E Hk) as (z & Hz & Hd) end;
  destruct x; try discriminate; inversion Hz; subst;
  apply idx_some in Hd; rewrite Hd; reflexivity.
Qed.

Lemma col_of_cells_type t cells c : col_of_cells t cells = Ok c -> col_type c = t.
Proof.
  intros H. destruct t; cbn [col_of_cells] in H; try discriminate;
  match type of H with (do d <- omap ?f cells; _) = _ =>
    destruct (omap f cells) as [d| |]; cbn [obind] in H; try discriminate; inversion H; reflexivity end.
Qed.

Lemma col_of_cells_len t cells c : col_of_cells t cells = Ok c -> col_len c = length cells.
Proof.
  intros H. destruct t; cbn [col_of_cells] in H; try discriminate;
  match type of H with (do d <- omap ?f cells; _) = _ =>
    destruct (omap f cells) as [d| |] eqn:E; cbn [obind] in H; try discriminate; inversion H;
    cbn [col_len]; eapply omap_length; eauto end.
Qed.

(* Column.Aggregate: the k-th cell is the resolved function applied to the values of the k-th group,
   read in the order of the group *)
Lemma col_aggregate_cell ft c indices fn r k grp :
  col_aggregate ft c indices fn = Ok r -> nth_error indices k = Some grp ->
  exists fnc vals x, resolve_fn ft c fn = Ok fnc /\ agg_vals c grp = Ok vals /\ fnc vals = Ok x /\
                     cell_at r k = Ok x.
Proof.
  unfold col_aggregate. intros H Hk.
  destruct (resolve_fn ft c fn) as [fnc| |] eqn:R; cbn [obind] in H; try discriminate.
  destruct (omap (fun g => do vals <- agg_vals c g; fnc vals) indices) as [cells| |] eqn:E;
    cbn [obind] in H; try discriminate.
  destruct (omap_nth _ _ _ _ _ E Hk) as (x & Hx & Hc).
  destruct (agg_vals c grp) as [vals| |] eqn:V; cbn [obind] in Hx; try discriminate.
  exists fnc, vals, x. repeat split; auto. eapply col_of_cells_cell; eauto.
Qed.

Lemma col_aggregate_type ft c indices fn r :
  col_aggregate ft c indices fn = Ok r -> col_type r = col_ftype c /\ col_len r = length indices.
Proof.
  unfold col_aggregate. intros H.
  destruct (resolve_fn ft c fn) as [fnc| |]; cbn [obind] in H; try discriminate.
  destruct (omap (fun g => do vals <- agg_vals c g; fnc vals) indices) as [cells| |] eqn:E;
    cbn [obind] in H; try discriminate.
  split; [eapply col_of_cells_type; eauto|].
  rewrite (col_of_cells_len _ _ _ H). eapply omap_length; eauto.
Qed.

(* ------------------------------------------------------------------ Grouper.Aggregate: what the rows hold *)

(* the value of key column [n] in the row at position [first] *)
Definition key_value (g : grouper) (first : nat) (n : bytes) (x : cell) : Prop :=
  exists c, lookup_col (gframe g) n = Some c /\ cell_at c first = Ok x.

(* the value of aggregation [a] for the group [grp]: the group size for "count", otherwise the function the
   column type resolves Fn to, applied to the cells of the column at the positions of grp, in grp's order *)
Definition agg_value (ft : float_table) (g : grouper) (grp : list nat) (a : aggregation) (x : cell) : Prop :=
  exists c, lookup_col (gframe g) (acol a) = Some c /\
    if is_count (agfn a) then x = CInt (Z.of_nat (length grp))
    else exists fnc vals, resolve_fn ft c (agfn a) = Ok fnc /\ omap (agg_cell_at c) grp = Ok vals /\ fnc vals = Ok x.

Lemma agg_fold_ok ft g aggs : forall acc cs,
  ofold (agg_step ft g) aggs acc = Ok cs ->
  exists rs, cs = acc ++ combine (map agg_name aggs) rs /\
    Forall2 (fun a r => exists c, lookup_col (gframe g) (acol a) = Some c /\
                                  agg_column ft c (gindices g) (agfn a) = Ok r) aggs rs.
Proof.
  induction aggs as [|a aggs IH]; intros acc cs H.
  - rewrite ofold_nil in H. inversion H; subst. exists []. split; [cbn; rewrite app_nil_r; reflexivity|constructor].
  - rewrite ofold_cons in H. unfold agg_step in H at 1.
    destruct (lookup_col (gframe g) (acol a)) as [c|] eqn:L; cbn [obind] in H; try discriminate.
    destruct (name_in (agg_name a) acc) eqn:NI; cbn [obind] in H; try discriminate.
    destruct (agg_column ft c (gindices g) (agfn a)) as [r| |] eqn:AC; cbn [obind] in H; try discriminate.
    destruct (IH _ _ H) as (rs & -> & F). exists (r :: rs). split.
    + cbn [map combine]. rewrite <- app_assoc. reflexivity.
    + constructor; eauto.
Qed.

Lemma agg_column_cell ft g c a r k grp :
  lookup_col (gframe g) (acol a) = Some c ->
  agg_column ft c (gindices g) (agfn a) = Ok r -> nth_error (gindices g) k = Some grp ->
  exists x, cell_at r k = Ok x /\ agg_value ft g grp a x.
Proof.
  intros L H Hk. unfold agg_column in H. unfold agg_value. destruct (is_count (agfn a)) eqn:IC.
  - inversion H; subst. exists (CInt (Z.of_nat (length grp))). split.
    + cbn [cell_at]. rewrite (proj2 (idx_some _ _ _) (map_nth_error _ _ _ Hk)). reflexivity.
    + exists c. auto.
  - destruct (col_aggregate_cell _ _ _ _ _ _ _ H Hk) as (fnc & vals & x & R & V & FX & CX).
    exists x. split; auto. exists c. split; auto. exists fnc, vals. auto.
Qed.

Lemma keycols_spec g firsts : forall names keycols,
  omap (fun n => do c <- of_option (lookup_col (gframe g) n); do s <- col_subset c firsts; Ok (n, s)) names
    = Ok keycols ->
  map fst keycols = names /\
  forall k first, nth_error firsts k = Some first ->
    forall cells, omap (fun nc : bytes * coldata => cell_at (snd nc) k) keycols = Ok cells ->
                  Forall2 (key_value g first) names cells.
Proof.
  induction names as [|n names IH]; intros keycols H.
  - inversion H; subst. split; [reflexivity|]. intros k first _ cells Hc. inversion Hc. constructor.
  - apply omap_ok_inv in H as (nc & rest & H1 & H2 & ->).
    destruct (lookup_col (gframe g) n) as [c|] eqn:L; cbn [of_option obind] in H1; try discriminate.
    destruct (col_subset c firsts) as [s| |] eqn:S; cbn [obind] in H1; try discriminate.
    inversion H1; subst nc. destruct (IH _ H2) as [IHn IHc]. split.
    + cbn [map fst]. f_equal. exact IHn.
    + intros k first Hk cells Hc. apply omap_ok_inv in Hc as (x & xs & Hx & Hxs & ->).
      constructor; [|eapply IHc; eauto].
      exists c. split; auto. cbn [snd] in Hx. rewrite <- (col_subset_cell _ _ _ _ _ S Hk). exact Hx.
Qed.

Lemma aggcols_spec ft g k grp : forall aggs rs,
  Forall2 (fun a r => exists c, lookup_col (gframe g) (acol a) = Some c /\
                                agg_column ft c (gindices g) (agfn a) = Ok r) aggs rs ->
  nth_error (gindices g) k = Some grp ->
  exists cells, omap (fun nc : bytes * coldata => cell_at (snd nc) k) (combine (map agg_name aggs) rs) = Ok cells /\
                Forall2 (agg_value ft g grp) aggs cells.
Proof.
  intros aggs rs F Hk. induction F as [|a r aggs rs (c & L & AC) F IH].
  - exists []. split; [reflexivity|constructor].
  - destruct IH as (cells & Hc & Fc).
    destruct (agg_column_cell _ _ _ _ _ _ _ L AC Hk) as (x & Hx & Vx).
    exists (x :: cells). split; [|constructor; auto].
    cbn [map combine omap snd]. rewrite Hx, Hc. reflexivity.
Qed.

Lemma map_fst_combine {A B} (a : list A) (b : list B) : length a = length b -> map fst (combine a b) = a.
Proof.
  revert b; induction a as [|x a IH]; intros [|y b] H; cbn in *; try discriminate; auto.
  f_equal. apply IH. lia.
Qed.

Lemma Forall2_len {A B} (R : A -> B -> Prop) l1 l2 : Forall2 R l1 l2 -> length l1 = length l2.
Proof. induction 1; cbn; auto. Qed.

Lemma nth_error_seq0 n k : (k < n)%nat -> nth_error (seq 0 n) k = Some k.
Proof.
  intros H. rewrite (nth_error_nth' (seq 0 n) 0%nat) by (rewrite seq_length; exact H).
  rewrite seq_nth by exact H. reflexivity.
Qed.

Lemma hd_error_idx {A} (l : list A) x : idx l 0 = Ok x -> hd_error l = Some x.
Proof. intros H. apply idx_some in H. destruct l; cbn in *; auto. Qed.

(* the shape of a successful Aggregate *)
Lemma aggregate_ok_inv ft g aggs out :
  gerr g = false -> aggregate ft g aggs = Ok out -> ferr out = false ->
  exists firsts keycols rs,
    omap (fun ix => idx ix 0%nat) (gindices g) = Ok firsts /\
    omap (fun n => do c <- of_option (lookup_col (gframe g) n); do s <- col_subset c firsts; Ok (n, s)) (gkeys g)
      = Ok keycols /\
    Forall2 (fun a r => exists c, lookup_col (gframe g) (acol a) = Some c /\
                                  agg_column ft c (gindices g) (agfn a) = Ok r) aggs rs /\
    out = mkFrame (keycols ++ combine (map agg_name aggs) rs) (seq 0 (length (gindices g))) false.
Proof.
  intros GE H FE. unfold aggregate in H. rewrite GE in H.
  destruct (omap (fun ix => idx ix 0%nat) (gindices g)) as [firsts| |] eqn:F; cbn [obind] in H; try discriminate.
  match type of H with (do keycols <- ?e; _) = _ => destruct e as [keycols| |] eqn:K end;
    cbn [obind] in H; try discriminate.
  destruct (ofold (agg_step ft g) aggs keycols) as [cs| |] eqn:O; try discriminate.
  - destruct (agg_fold_ok _ _ _ _ _ O) as (rs & -> & F2). inversion H; subst out.
    exists firsts, keycols, rs. auto.
  - inversion H; subst out. discriminate.
Qed.

(* C04, Aggregate: one row per group, in group order: the key cells of the group's first row, then one value
   per aggregation *)
Theorem aggregate_rows ft g aggs out :
  gerr g = false -> aggregate ft g aggs = Ok out -> ferr out = false ->
  col_names out = gkeys g ++ map agg_name aggs /\
  ix out = seq 0 (length (gindices g)) /\
  forall t, abs out = Ok t ->
    length (trows t) = length (gindices g) /\
    forall k grp, nth_error (gindices g) k = Some grp ->
      exists first keycells aggcells,
        hd_error grp = Some first /\
        nth_error (trows t) k = Some (keycells ++ aggcells) /\
        Forall2 (key_value g first) (gkeys g) keycells /\
        Forall2 (agg_value ft g grp) aggs aggcells.
Proof.
  intros GE H FE. destruct (aggregate_ok_inv _ _ _ _ GE H FE) as (firsts & keycols & rs & F & K & F2 & ->).
  destruct (keycols_spec _ _ _ _ K) as [Kn Kc].
  split; [|split].
  - unfold col_names. cbn [cols]. rewrite map_app, Kn. f_equal. apply map_fst_combine.
    rewrite map_length. eapply Forall2_len; eauto.
  - reflexivity.
  - intros t Ht. unfold abs in Ht. cbn [ix] in Ht.
    match type of Ht with (do rows <- ?e; _) = _ => destruct e as [rows| |] eqn:R end; cbn [obind] in Ht; try discriminate.
    inversion Ht; subst t. cbn [trows]. split.
    + rewrite (omap_length _ _ _ R). apply seq_length.
    + intros k grp Hk.
      assert (Hlt : (k < length (gindices g))%nat) by (apply nth_error_Some; congruence).
      destruct (omap_nth _ _ _ _ _ R (nth_error_seq0 _ _ Hlt)) as (row & Hrow & Hnth).
      destruct (omap_nth _ _ _ _ _ F Hk) as (first & Hfirst & Hf).
      unfold row_at in Hrow. cbn [cols] in Hrow. rewrite omap_app in Hrow.
      match type of Hrow with (do a <- ?e; _) = _ => destruct e as [keycells| |] eqn:KC end;
        cbn [obind] in Hrow; try discriminate.
      destruct (aggcols_spec ft g k grp _ _ F2 Hk) as (aggcells & AC & FA).
      rewrite AC in Hrow. cbn [obind] in Hrow. inversion Hrow; subst row.
      exists first, keycells, aggcells. repeat split; auto.
      * apply hd_error_idx; exact Hfirst.
      * eapply Kc; eauto.
Qed.

(* ------------------------------------------------------------------ Grouper.Aggregate: when it reports an error *)

Lemma resolve_fn_cases ft c fn :
  (fn_applicable c fn = true /\ exists fnc, resolve_fn ft c fn = Ok fnc) \/
  (fn_applicable c fn = false /\ resolve_fn ft c fn = Fail).
Proof.
  destruct fn as [n|t tbl|]; cbn [fn_applicable resolve_fn].
  - destruct (assocb n (agg_table_of (col_type c))); [left|right]; eauto.
  - destruct (ctype_eqb t (col_ftype c) && negb (ctype_eqb t TEnum)); [left|right]; eauto.
  - right; auto.
Qed.

Lemma cell_at_not_fail c p : cell_at c p <> Fail.
Proof.
  destruct c as [d|d|d|d|d vs st]; cbn [cell_at];
    destruct (idx d p) as [x| |] eqn:E; cbn [obind]; try discriminate;
    try (exfalso; eapply idx_not_fail; eauto; fail).
  unfold enum_string. destruct (enum_is_null x); cbn [obind]; try discriminate.
  destruct (idx vs (N.to_nat x)) as [s| |] eqn:E2; cbn [obind]; try discriminate.
  exfalso; eapply idx_not_fail; eauto.
Qed.

Lemma agg_vals_not_fail c g : agg_vals c g <> Fail.
Proof.
  apply omap_not_fail. intros p _. unfold agg_cell_at.
  pose proof (cell_at_not_fail c p). destruct (cell_at c p); cbn [obind]; congruence.
Qed.

Lemma builtin_apply_not_fail ft t gofn vals : builtin_apply ft t gofn vals <> Fail.
Proof.
  destruct t; cbn [builtin_apply]; try discriminate.
  - assert (H : omap cell_int vals <> Fail) by (apply omap_not_fail; intros [] _; discriminate).
    destruct (omap cell_int vals) as [zs| |]; cbn [obind]; try congruence; try discriminate.
    destruct (bytes_eqb gofn gofn_sum); try discriminate.
    destruct (bytes_eqb gofn gofn_max). { destruct zs; cbn; discriminate. }
    destruct (bytes_eqb gofn gofn_min). { destruct zs; cbn; discriminate. }
    discriminate.
  - assert (H : omap cell_float vals <> Fail) by (apply omap_not_fail; intros [] _; discriminate).
    destruct (bytes_eqb gofn gofn_max).
    { destruct (omap cell_float vals) as [zs| |]; cbn [obind]; try congruence; try discriminate.
      destruct zs; cbn; discriminate. }
    destruct (bytes_eqb gofn gofn_min).
    { destruct (omap cell_float vals) as [zs| |]; cbn [obind]; try congruence; try discriminate.
      destruct zs; cbn; discriminate. }
    unfold float_oracle. destruct (find _ ft); discriminate.
  - assert (H : omap cell_bool vals <> Fail) by (apply omap_not_fail; intros [] _; discriminate).
    destruct (omap cell_bool vals) as [zs| |]; cbn [obind]; try congruence; try discriminate.
    destruct (bytes_eqb gofn gofn_majority); discriminate.
Qed.

Lemma user_apply_not_fail tbl vals : user_apply tbl vals <> Fail.
Proof. unfold user_apply. destruct (find _ tbl); discriminate. Qed.

Lemma resolved_not_fail ft c fn fnc vals : resolve_fn ft c fn = Ok fnc -> fnc vals <> Fail.
Proof.
  destruct fn as [n|t tbl|]; cbn [resolve_fn]; try discriminate.
  - destruct (assocb n (agg_table_of (col_type c))); try discriminate.
    intros H; inversion H; subst. apply builtin_apply_not_fail.
  - destruct (ctype_eqb t (col_ftype c) && negb (ctype_eqb t TEnum)); try discriminate.
    intros H; inversion H; subst. apply user_apply_not_fail.
Qed.

Lemma col_of_cells_not_fail t cells : col_of_cells t cells <> Fail.
Proof.
  destruct t; cbn [col_of_cells]; try discriminate;
  match goal with |- (do d <- omap ?f cells; _) <> _ =>
    assert (H : omap f cells <> Fail) by (apply omap_not_fail; intros [] _; discriminate);
    destruct (omap f cells); cbn [obind]; try congruence; discriminate end.
Qed.

(* Column.Aggregate returns an error exactly when the function is not applicable *)
Lemma col_aggregate_fail_iff ft c indices fn :
  col_aggregate ft c indices fn = Fail <-> fn_applicable c fn = false.
Proof.
  unfold col_aggregate. destruct (resolve_fn_cases ft c fn) as [[A (fnc & R)]|[A R]]; rewrite R; cbn [obind].
  - split; [|congruence]. intros H. exfalso.
    assert (Hm : omap (fun g => do vals <- agg_vals c g; fnc vals) indices <> Fail).
    { apply omap_not_fail. intros grp _. pose proof (agg_vals_not_fail c grp).
      destruct (agg_vals c grp) as [vals| |]; cbn [obind]; try congruence.
      eapply resolved_not_fail; eauto. }
    destruct (omap (fun g => do vals <- agg_vals c g; fnc vals) indices) as [cells| |]; cbn [obind] in H;
      try congruence; try discriminate.
    eapply col_of_cells_not_fail; eauto.
  - split; auto.
Qed.

Lemma name_in_map n cs : name_in n cs = existsb (fun m => bytes_eqb m n) (map fst cs).
Proof. unfold name_in. induction cs as [|x cs IH]; cbn [existsb map]; auto. rewrite IH. reflexivity. Qed.

(* one step: Fail exactly for an invalid aggregation; on success one column with the result name is appended *)
Lemma agg_step_cases ft g acc a :
  (agg_invalid g (map fst acc) a = true /\ agg_step ft g acc a = Fail) \/
  (agg_invalid g (map fst acc) a = false /\
   (agg_step ft g acc a = Panic \/ exists r, agg_step ft g acc a = Ok (acc ++ [(agg_name a, r)]))).
Proof.
  unfold agg_invalid, agg_step. destruct (lookup_col (gframe g) (acol a)) as [c|]; [|left; auto].
  rewrite <- name_in_map. destruct (name_in (agg_name a) acc); [left; auto|].
  cbn [orb]. unfold agg_column. destruct (is_count (agfn a)); cbn [negb andb obind].
  - right. split; auto. right. eauto.
  - pose proof (col_aggregate_fail_iff ft c (gindices g) (agfn a)) as FI.
    destruct (col_aggregate ft c (gindices g) (agfn a)) as [r| |] eqn:E; cbn [obind].
    + right. split. { destruct (fn_applicable c (agfn a)); auto. discriminate (proj2 FI eq_refl). } right; eauto.
    + left. rewrite (proj1 FI eq_refl). auto.
    + right. split; auto. destruct (fn_applicable c (agfn a)); auto. discriminate (proj2 FI eq_refl).
Qed.

Lemma agg_fold_fail_iff ft g aggs : forall acc,
  ofold (agg_step ft g) aggs acc <> Panic ->
  (ofold (agg_step ft g) aggs acc = Fail <->
   exists i a, nth_error aggs i = Some a /\
               agg_invalid g (map fst acc ++ map agg_name (firstn i aggs)) a = true).
Proof.
  induction aggs as [|a aggs IH]; intros acc NP.
  - rewrite ofold_nil. split; [discriminate|]. intros (i & a & H & _). destruct i; discriminate.
  - rewrite ofold_cons in *.
    destruct (agg_step_cases ft g acc a) as [[I St]|[I [St|(r & St)]]]; rewrite St in *; cbn [obind] in *.
    + split; auto. intros _. exists 0%nat, a. cbn [nth_error firstn map]. rewrite app_nil_r. auto.
    + congruence.
    + specialize (IH _ NP). rewrite IH. rewrite map_app. cbn [map fst].
      split.
      * intros (i & b & Hn & Hi). exists (S i), b. cbn [nth_error firstn map]. split; auto.
        rewrite <- app_assoc in Hi. exact Hi.
      * intros (i & b & Hn & Hi). destruct i as [|i].
        -- cbn [nth_error firstn map] in *. inversion Hn; subst b. rewrite app_nil_r in Hi. congruence.
        -- exists i, b. cbn [nth_error firstn map] in *. split; auto. rewrite <- app_assoc. exact Hi.
Qed.

(* C04, Aggregate: the result is an error exactly when some aggregation is invalid given the grouping columns
   and the aggregations before it (an error of the Grouper is passed on: aggregate_sticky) *)
Theorem aggregate_err_iff ft g aggs out :
  gerr g = false -> aggregate ft g aggs = Ok out ->
  (ferr out = true <->
   exists i a, nth_error aggs i = Some a /\
               agg_invalid g (gkeys g ++ map agg_name (firstn i aggs)) a = true).
Proof.
  intros GE H. unfold aggregate in H. rewrite GE in H.
  destruct (omap (fun ix => idx ix 0%nat) (gindices g)) as [firsts| |] eqn:F; cbn [obind] in H; try discriminate.
  match type of H with (do keycols <- ?e; _) = _ => destruct e as [keycols| |] eqn:K end;
    cbn [obind] in H; try discriminate.
  destruct (keycols_spec _ _ _ _ K) as [Kn _].
  assert (NP : ofold (agg_step ft g) aggs keycols <> Panic).
  { intro E. rewrite E in H. discriminate. }
  pose proof (agg_fold_fail_iff ft g aggs keycols NP) as FI. rewrite Kn in FI.
  destruct (ofold (agg_step ft g) aggs keycols) as [cs| |] eqn:O; try congruence; inversion H; subst out; cbn [ferr].
  - split; [discriminate|]. intros E. apply FI in E. discriminate.
  - split; auto. intros _. apply FI. reflexivity.
Qed.

Theorem aggregate_sticky ft g aggs : gerr g = true -> aggregate ft g aggs = Ok err_frame.
Proof. intros GE. unfold aggregate. rewrite GE. reflexivity. Qed.

(* ------------------------------------------------------------------ Grouper.Aggregate never faults on a well-formed Grouper *)

Lemma lookup_from_in name : forall cs pos acc q c,
  lookup_from name cs pos acc = Some (q, c) -> acc = Some (q, c) \/ In (name, c) cs.
Proof.
  induction cs as [|[n0 c0] cs IH]; intros pos acc q c H; cbn [lookup_from] in H; auto.
  apply IH in H. destruct H as [H|H]; [|right; right; exact H].
  destruct (bytes_eqb n0 name) eqn:E; auto.
  apply bytes_eqb_spec in E. inversion H; subst. right; left; reflexivity.
Qed.

Lemma lookup_col_in f n c : lookup_col f n = Some c -> In (n, c) (cols f).
Proof.
  unfold lookup_col, lookup. destruct (lookup_from n (cols f) 0 None) as [[q c0]|] eqn:E; cbn; try discriminate.
  intros H; inversion H; subst. apply lookup_from_in in E. destruct E as [E|E]; [discriminate|exact E].
Qed.

Lemma lookup_from_none name : forall cs pos acc,
  lookup_from name cs pos acc = None -> acc = None /\ ~ In name (map fst cs).
Proof.
  induction cs as [|[n0 c0] cs IH]; intros pos acc H; cbn [lookup_from] in H; auto.
  apply IH in H as [H1 H2]. destruct (bytes_eqb n0 name) eqn:E; [discriminate|].
  split; auto. cbn [map fst In]. intros [->|H3]; auto. rewrite bytes_eqb_refl in E. discriminate.
Qed.

(* a name of the column slice is always found *)
Lemma contains_col_names f n : In n (col_names f) -> contains f n = true.
Proof.
  unfold contains, lookup, col_names. intros H.
  destruct (lookup_from n (cols f) 0 None) eqn:E; auto.
  apply lookup_from_none in E as [_ E]. contradiction.
Qed.

Lemma contains_lookup f n : contains f n = true -> exists c, lookup_col f n = Some c.
Proof. unfold contains, lookup_col. destruct (lookup f n) as [[q c]|]; [intros _; exists c; reflexivity|discriminate]. Qed.

Lemma lookup_contains f n c : lookup_col f n = Some c -> contains f n = true.
Proof. unfold contains, lookup_col. destruct (lookup f n) as [[q c0]|]; [auto|discriminate]. Qed.

Lemma wf_frame_col f n c :
  wf_frame f = true -> In (n, c) (cols f) -> col_len c = phys_len f /\ col_wf c = true.
Proof.
  unfold wf_frame. intros H Hin. apply andb_true_iff in H as [H _].
  rewrite forallb_forall in H. specialize (H _ Hin). cbn [snd] in H.
  apply andb_true_iff in H as [H1 H2]. apply Nat.eqb_eq in H1. auto.
Qed.

Lemma cell_at_total c p : col_wf c = true -> (p < col_len c)%nat -> exists x, cell_at c p = Ok x.
Proof.
  intros W L. destruct c as [d|d|d|d|d vs st]; cbn [cell_at col_len] in *;
    destruct (idx_in_range _ _ L) as [x Hx]; rewrite Hx; cbn [obind]; eauto.
  cbn [col_wf] in W. apply andb_true_iff in W as [W _]. rewrite forallb_forall in W.
  apply idx_some in Hx. apply nth_error_In in Hx. specialize (W _ Hx).
  unfold enum_rank_ok in W. unfold enum_string. destruct (enum_is_null x); cbn [orb] in W.
  { cbn [obind]. eauto. }
  assert (L2 : (N.to_nat x < length vs)%nat) by (apply Nat.ltb_lt; exact W).
  destruct (idx_in_range _ _ L2) as [s Hs]. rewrite Hs. cbn [obind]. eauto.
Qed.

Lemma col_subset_total c index :
  (forall p, In p index -> (p < col_len c)%nat) -> exists s, col_subset c index = Ok s.
Proof.
  intros H. destruct c as [d|d|d|d|d vs st]; cbn [col_subset col_len] in *;
    (destruct (omap_total (idx d) index) as [r Hr]; [intros p Hp; apply idx_in_range; auto|]);
    rewrite Hr; cbn [obind]; eauto.
Qed.

Lemma col_subset_wf c index s : col_wf c = true -> col_subset c index = Ok s -> col_wf s = true.
Proof.
  intros W H. destruct c as [d|d|d|d|d vs st]; cbn [col_subset] in H;
    destruct (omap (idx d) index) as [r| |] eqn:E; cbn [obind] in H; try discriminate; inversion H; auto.
  cbn [col_wf] in *. apply andb_true_iff in W as [W1 W2]. apply andb_true_iff; split; auto.
  rewrite forallb_forall in *. intros x Hx. destruct (omap_in _ _ _ _ E Hx) as (p & _ & Hp).
  apply idx_some in Hp. apply nth_error_In in Hp. auto.
Qed.

Lemma col_of_cells_total t cells :
  t <> TEnum -> Forall (fun x => cell_type_ok t x = true) cells -> exists r, col_of_cells t cells = Ok r.
Proof.
  intros NE F. rewrite Forall_forall in F.
  destruct t; try congruence; cbn [col_of_cells];
  match goal with |- exists r, (do d <- omap ?f cells; _) = _ =>
    destruct (omap_total f cells) as [d Hd];
      [intros x Hx; specialize (F x Hx); destruct x; try discriminate; eauto|];
    rewrite Hd; cbn [obind]; eauto end.
Qed.

Lemma col_ftype_not_enum c : col_ftype c <> TEnum.
Proof. destruct c; cbn; discriminate. Qed.

Lemma non_enum_wf c : col_type c <> TEnum -> col_wf c = true.
Proof. destruct c; cbn; auto; congruence. Qed.

(* the Grouper that GroupBy returns on a well-formed frame: no error, grouping columns exist, columns of equal
   physical length with valid enum ranks, every group non-empty and made of positions inside the columns *)
Definition grouper_wf (g : grouper) : Prop :=
  gerr g = false /\
  forallb (contains (gframe g)) (gkeys g) = true /\
  wf_frame (gframe g) = true /\
  forall grp, In grp (gindices g) -> grp <> [] /\ forall p, In p grp -> (p < phys_len (gframe g))%nat.

(* the recorded tables (user functions, float oracle) cover the groups and return cells of the column's type *)
Definition tables_complete (ft : float_table) (g : grouper) (aggs : list aggregation) : Prop :=
  forall a c fnc grp vals,
    In a aggs -> lookup_col (gframe g) (acol a) = Some c -> is_count (agfn a) = false ->
    resolve_fn ft c (agfn a) = Ok fnc -> In grp (gindices g) -> omap (agg_cell_at c) grp = Ok vals ->
    exists x, fnc vals = Ok x /\ cell_type_ok (col_ftype c) x = true.

Lemma grouper_wf_col g n c :
  grouper_wf g -> lookup_col (gframe g) n = Some c -> col_len c = phys_len (gframe g) /\ col_wf c = true.
Proof. intros (_ & _ & W & _) L. eapply wf_frame_col; eauto. apply lookup_col_in; exact L. Qed.

Lemma agg_vals_total g c grp n :
  grouper_wf g -> lookup_col (gframe g) n = Some c -> In grp (gindices g) -> exists vals, agg_vals c grp = Ok vals.
Proof.
  intros W L Hg. destruct (grouper_wf_col _ _ _ W L) as [CL CW]. destruct W as (_ & _ & _ & G).
  apply omap_total. intros p Hp. unfold agg_cell_at.
  destruct (cell_at_total c p CW) as [x Hx]. { rewrite CL. apply (proj2 (G _ Hg)); exact Hp. }
  rewrite Hx. cbn [obind]. eauto.
Qed.

(* every aggregation column exists (no fault), has one cell per group and a non-enum type *)
Lemma agg_column_total ft g aggs a c :
  grouper_wf g -> tables_complete ft g aggs -> In a aggs -> lookup_col (gframe g) (acol a) = Some c ->
  agg_column ft c (gindices g) (agfn a) <> Panic.
Proof.
  intros W TC Ha L. unfold agg_column. destruct (is_count (agfn a)) eqn:IC; [discriminate|].
  unfold col_aggregate. destruct (resolve_fn_cases ft c (agfn a)) as [[_ (fnc & R)]|[_ R]]; rewrite R; cbn [obind];
    [|discriminate].
  destruct (omap_total (fun grp => do vals <- agg_vals c grp; fnc vals) (gindices g)) as [cells Hc].
  { intros grp Hg. destruct (agg_vals_total _ _ _ _ W L Hg) as [vals Hv]. rewrite Hv. cbn [obind].
    destruct (TC a c fnc grp vals Ha L IC R Hg Hv) as (x & Hx & _). eauto. }
  rewrite Hc. cbn [obind].
  destruct (col_of_cells_total (col_ftype c) cells (col_ftype_not_enum c)) as [r Hr]; [|rewrite Hr; discriminate].
  apply Forall_forall. intros x Hx. destruct (omap_in _ _ _ _ Hc Hx) as (grp & Hg & Hgx).
  destruct (agg_vals c grp) as [vals| |] eqn:Hv; cbn [obind] in Hgx; try discriminate.
  destruct (TC a c fnc grp vals Ha L IC R Hg Hv) as (x' & Hx' & T). congruence.
Qed.

Lemma agg_fold_no_panic ft g all : grouper_wf g -> tables_complete ft g all ->
  forall aggs acc, incl aggs all -> ofold (agg_step ft g) aggs acc <> Panic.
Proof.
  intros W TC. induction aggs as [|a aggs IH]; intros acc Hi.
  - rewrite ofold_nil. discriminate.
  - rewrite ofold_cons. unfold agg_step at 1.
    destruct (lookup_col (gframe g) (acol a)) as [c|] eqn:L; cbn [obind]; [|discriminate].
    destruct (name_in (agg_name a) acc); cbn [obind]; [discriminate|].
    pose proof (agg_column_total ft g all a c W TC (Hi a (or_introl eq_refl)) L) as NP.
    destruct (agg_column ft c (gindices g) (agfn a)) as [r| |]; cbn [obind]; try congruence; try discriminate.
    apply IH. intros x Hx. apply Hi. right; exact Hx.
Qed.

Lemma agg_column_shape ft c indices fn r :
  agg_column ft c indices fn = Ok r -> col_len r = length indices /\ col_wf r = true.
Proof.
  unfold agg_column. destruct (is_count fn).
  - intros H; inversion H. cbn [col_len col_wf]. rewrite map_length. auto.
  - intros H. destruct (col_aggregate_type _ _ _ _ _ H) as [T Ln]. split; auto.
    apply non_enum_wf. rewrite T. apply col_ftype_not_enum.
Qed.

Theorem aggregate_total ft g aggs :
  grouper_wf g -> tables_complete ft g aggs ->
  exists out, aggregate ft g aggs = Ok out /\ (ferr out = false -> exists t, abs out = Ok t).
Proof.
  intros W TC. pose proof W as (GE & KC & WF & G).
  unfold aggregate. rewrite GE.
  destruct (omap_total (fun ix => idx ix 0%nat) (gindices g)) as [firsts F].
  { intros grp Hg. apply idx_in_range. destruct (G _ Hg) as [NE _]. destruct grp; [congruence|cbn; lia]. }
  rewrite F. cbn [obind].
  assert (FR : forall p, In p firsts -> (p < phys_len (gframe g))%nat).
  { intros p Hp. destruct (omap_in _ _ _ _ F Hp) as (grp & Hg & Hi). apply (proj2 (G _ Hg)).
    apply idx_some in Hi. eapply nth_error_In; eauto. }
  destruct (omap_total (fun n => do c <- of_option (lookup_col (gframe g) n); do s <- col_subset c firsts; Ok (n, s))
                       (gkeys g)) as [keycols K].
  { intros n Hn. rewrite forallb_forall in KC. destruct (contains_lookup _ _ (KC _ Hn)) as [c L].
    rewrite L. cbn [of_option obind]. destruct (grouper_wf_col _ _ _ W L) as [CL _].
    destruct (col_subset_total c firsts) as [s S]. { intros p Hp. rewrite CL. auto. }
    rewrite S. cbn [obind]. eauto. }
  rewrite K. cbn [obind].
  pose proof (agg_fold_no_panic ft g aggs W TC aggs keycols (incl_refl _)) as NP.
  destruct (ofold (agg_step ft g) aggs keycols) as [cs| |] eqn:O; try congruence.
  2:{ eexists; split; [reflexivity|]. discriminate. }
  eexists; split; [reflexivity|]. intros _.
  destruct (agg_fold_ok _ _ _ _ _ O) as (rs & -> & F2).
  (* every column of the result can be read at every row number *)
  assert (RD : forall nc, In nc (keycols ++ combine (map agg_name aggs) rs) ->
                          col_len (snd nc) = length (gindices g) /\ col_wf (snd nc) = true).
  { intros nc Hnc. apply in_app_or in Hnc as [Hnc|Hnc].
    - destruct (omap_in _ _ _ _ K Hnc) as (n & Hn & Hs).
      destruct (lookup_col (gframe g) n) as [c|] eqn:L; cbn [of_option obind] in Hs; try discriminate.
      destruct (col_subset c firsts) as [s| |] eqn:S; cbn [obind] in Hs; try discriminate.
      inversion Hs; subst nc. cbn [snd]. destruct (grouper_wf_col _ _ _ W L) as [_ CW]. split.
      + rewrite (col_subset_len _ _ _ S). eapply omap_length; eauto.
      + eapply col_subset_wf; eauto.
    - destruct nc as [n r]. apply in_combine_r in Hnc. cbn [snd].
      apply In_nth_error in Hnc as [k Hk].
      assert (exists a, nth_error aggs k = Some a) as [a Ha].
      { destruct (nth_error aggs k) eqn:E; eauto. apply nth_error_None in E.
        rewrite (Forall2_len _ _ _ F2) in E. assert (k < length rs)%nat by (apply nth_error_Some; congruence). lia. }
      assert (Hr : exists c, lookup_col (gframe g) (acol a) = Some c /\ agg_column ft c (gindices g) (agfn a) = Ok r).
      { clear -F2 Ha Hk. revert k Ha Hk. induction F2 as [|a0 r0 l l' H0 F IH]; intros [|k] Ha Hk; cbn in *; try discriminate.
        - inversion Ha; inversion Hk; subst. exact H0.
        - eapply IH; eauto. }
      destruct Hr as (c & _ & AC). eapply agg_column_shape; eauto. }
  unfold abs. cbn [ix cols].
  destruct (omap_total (row_at (mkFrame (keycols ++ combine (map agg_name aggs) rs) (seq 0 (length (gindices g))) false))
                       (seq 0 (length (gindices g)))) as [rows R].
  { intros k Hk. apply in_seq in Hk. unfold row_at. cbn [cols]. apply omap_total. intros nc Hnc.
    destruct (RD _ Hnc) as [Ln Wf]. apply cell_at_total; auto. lia. }
  rewrite R. cbn [obind]. eauto.
Qed.

(* ------------------------------------------------------------------ Grouper.QFrames *)

Theorem qframes_spec g :
  gerr g = false -> qframes g = Ok (map (fun ix => mkFrame (gcols g) ix false) (gindices g)).
Proof. intros GE. unfold qframes. rewrite GE. reflexivity. Qed.

Theorem qframes_err g : gerr g = true -> qframes g = Fail.
Proof. intros GE. unfold qframes. rewrite GE. reflexivity. Qed.

(* ------------------------------------------------------------------ QFrame.GroupBy, frame level *)

Theorem group_by_err grp f columns :
  ferr f = true \/ forallb (contains f) columns = false -> group_by_with grp f columns = Ok err_grouper.
Proof.
  unfold group_by_with. intros [H|H]; [rewrite H; reflexivity|].
  destruct (ferr f); auto. rewrite H. reflexivity.
Qed.

Theorem group_by_no_rows grp f columns :
  ferr f = false -> forallb (contains f) columns = true -> ix f = [] ->
  group_by_with grp f columns = Ok (mkGrouper (cols f) columns [] false).
Proof. unfold group_by_with. intros -> -> ->. reflexivity. Qed.

Theorem group_by_no_columns grp f :
  ferr f = false -> ix f <> [] -> group_by_with grp f [] = Ok (mkGrouper (cols f) [] [ix f] false).
Proof. unfold group_by_with. intros -> H. cbn. destruct (ix f); [congruence|reflexivity]. Qed.

Lemma group_by_with_inv grp f columns g :
  group_by_with grp f columns = Ok g -> gerr g = false ->
  ferr f = false /\ forallb (contains f) columns = true /\ gcols g = cols f /\ gkeys g = columns /\
  (ix f = [] -> gindices g = []) /\
  (ix f <> [] -> columns = [] -> gindices g = [ix f]) /\
  (ix f <> [] -> columns <> [] ->
   exists kcols, named_cols f columns = Ok kcols /\ grp kcols (ix f) = Ok (gindices g)).
Proof.
  unfold group_by_with. intros H GE.
  destruct (ferr f); [inversion H; subst; discriminate|].
  destruct (forallb (contains f) columns); cbn [negb] in H; [|inversion H; subst; discriminate].
  split; auto. split; auto.
  destruct (ix f) as [|p rest] eqn:IX.
  - inversion H; subst; cbn. repeat split; auto; congruence.
  - destruct columns as [|n columns].
    + inversion H; subst; cbn. repeat split; auto; congruence.
    + destruct (named_cols f (n :: columns)) as [kcols| |] eqn:K; cbn [obind] in H; try discriminate.
      destruct (grp kcols (p :: rest)) as [gs| |] eqn:G; cbn [obind] in H; try discriminate.
      inversion H; subst; cbn. repeat split; auto; try congruence. intros _ _. eauto.
Qed.

Theorem group_by_qframes grp f columns g :
  group_by_with grp f columns = Ok g -> gerr g = false ->
  qframes g = Ok (map (with_ix f) (gindices g)).
Proof.
  intros H GE. destruct (group_by_with_inv _ _ _ _ H GE) as (FE & _ & GC & _).
  rewrite (qframes_spec _ GE). f_equal. apply map_ext. intros i. unfold with_ix. rewrite GC, FE. reflexivity.
Qed.

(* the partition: with the hash table of Model/Grouper.v, for every memhash and every random source *)

Lemma subseq_refl {A} (l : list A) : Grouper.subseq l l.
Proof. induction l; [apply Grouper.subseq_nil|apply Grouper.subseq_take; auto]. Qed.

Lemma key_cells_nil p : key_cells [] p = [].
Proof. reflexivity. Qed.

Lemma partition_one {A} (eqb : A -> A -> bool) (ids : list A) :
  ids <> [] -> (forall i j, eqb i j = true) -> Grouper.partition_ok eqb ids [ids].
Proof.
  intros NE T. split; [|split].
  - cbn. rewrite app_nil_r. apply Permutation_refl.
  - intros g [<-|[]]. split; auto. apply subseq_refl.
  - intros i j Hi Hj. split; [intros _; right; apply T|].
    intros _. exists ids. split; [left; reflexivity|auto].
Qed.

Lemma partition_none {A} (eqb : A -> A -> bool) : Grouper.partition_ok eqb [] [].
Proof.
  split; [|split].
  - apply Permutation_refl.
  - intros g [].
  - intros i j [].
Qed.

Lemma named_cols_in_range f columns kcols :
  wf_frame f = true -> named_cols f columns = Ok kcols ->
  forall c, In c kcols -> col_len c = phys_len f.
Proof.
  intros W K c Hc. destruct (omap_in _ _ _ _ K Hc) as (n & _ & Hn).
  destruct (lookup_col f n) as [c0|] eqn:L; cbn [of_option] in Hn; try discriminate. inversion Hn; subst c0.
  eapply wf_frame_col; eauto. apply lookup_col_in; exact L.
Qed.

Lemma key_cell_at_total c p : (p < col_len c)%nat -> exists x, key_cell_at c p = Ok x.
Proof.
  intros L. destruct c as [d|d|d|d|d vs st]; cbn [key_cell_at col_len] in *;
    destruct (idx_in_range _ _ L) as [x Hx]; rewrite Hx; cbn [obind]; eauto.
Qed.

Lemma key_rows_total f kcols :
  wf_frame f = true -> (forall c, In c kcols -> col_len c = phys_len f) ->
  exists rows, omap (key_row kcols) (ix f) = Ok rows.
Proof.
  intros W K. apply omap_total. intros p Hp. unfold key_row. apply omap_total. intros c Hc.
  apply key_cell_at_total. rewrite (K _ Hc).
  unfold wf_frame in W. apply andb_true_iff in W as [_ W]. rewrite forallb_forall in W.
  apply Nat.ltb_lt. apply W. exact Hp.
Qed.

Lemma named_cols_total f columns :
  forallb (contains f) columns = true -> exists kcols, named_cols f columns = Ok kcols.
Proof.
  intros H. rewrite forallb_forall in H. apply omap_total. intros n Hn.
  destruct (contains_lookup _ _ (H _ Hn)) as [c L]. rewrite L. cbn. eauto.
Qed.

(* the key columns GroupBy / Distinct compare; [] when a name is unknown *)
Definition key_columns (f : frame) (columns : list bytes) : list coldata :=
  match named_cols f columns with Ok k => k | _ => [] end.

Definition frame_ok (f : frame) : Prop :=
  ferr f = false /\ wf_frame f = true /\ NoDup (ix f) /\ N.of_nat (length (ix f)) <= 2 ^ 30.

(* C04, GroupBy on a frame: no fault, no error, and the groups are a partition of the index by equality of the
   key cells (Model/Grouper.v: partition_ok), for every memhash and every random source *)
Theorem group_by_partition memhash rnd nulleq f columns :
  frame_ok f -> forallb (contains f) columns = true ->
  (forall i, In i (ix f) -> Forall GrouperHash.cell_wf (key_cells (key_columns f columns) i)) ->
  exists g, group_by memhash rnd nulleq f columns = Ok g /\
            gerr g = false /\ gcols g = cols f /\ gkeys g = columns /\
            Grouper.partition_ok (key_eqb nulleq (key_columns f columns)) (ix f) (gindices g).
Proof.
  intros (FE & W & ND & B) KC CW. unfold group_by, group_by_with. rewrite FE, KC. cbn [negb].
  destruct (ix f) as [|p rest] eqn:IX.
  - eexists; split; [reflexivity|]. cbn [gerr gcols gkeys gindices]. split; [|split; [|split]]; auto. apply partition_none.
  - destruct columns as [|n columns].
    + eexists; split; [reflexivity|]. cbn [gerr gcols gkeys gindices]. split; [|split; [|split]]; auto.
      apply partition_one; [discriminate|]. intros i j. reflexivity.
    + destruct (named_cols_total f (n :: columns) KC) as [kcols K].
      unfold key_columns in *. rewrite K in *. cbn [obind].
      unfold table_group.
      destruct (key_rows_total f kcols W (named_cols_in_range _ _ _ W K)) as [rows R].
      rewrite IX in R. rewrite R. cbn [obind].
      destruct (GrouperMain.group_ids_partition (key_eqb nulleq kcols) (key_hash memhash rnd nulleq kcols) (p :: rest))
        as (gs & G & P); auto.
      * apply (GrouperHash.frame_per (key_cells kcols) nulleq).
      * apply (GrouperHash.frame_hash_respects (key_cells kcols) nulleq memhash rnd). exact CW.
      * unfold Grouper.group_ids. rewrite G. cbn [obind]. eexists; split; [reflexivity|]. cbn [gerr gcols gkeys gindices]. auto.
Qed.

(* the Grouper of a well-formed frame is well-formed (premise of aggregate_total) *)
Lemma group_by_wf grp f columns g :
  frame_ok f -> group_by_with grp f columns = Ok g -> gerr g = false ->
  (exists eqb : nat -> nat -> bool, Grouper.partition_ok eqb (ix f) (gindices g)) -> grouper_wf g.
Proof.
  intros (FE & W & ND & B) H GE (eqb & P & PG & _).
  destruct (group_by_with_inv _ _ _ _ H GE) as (_ & KC & GC & GK & _).
  assert (WG : wf_frame (gframe g) = true).
  { unfold wf_frame, gframe, phys_len in *. cbn [cols ix] in *. rewrite GC.
    apply andb_true_iff in W as [W _]. rewrite W. reflexivity. }
  split; auto. split; [|split; auto].
  - rewrite GK. unfold gframe, contains, lookup in *. cbn [cols]. rewrite GC. exact KC.
  - intros grp0 Hg. destruct (PG _ Hg) as [NE _]. split; auto.
    intros p Hp. assert (Hin : In p (ix f)).
    { eapply Permutation_in; [exact P|]. apply in_concat. eauto. }
    unfold wf_frame in W. apply andb_true_iff in W as [_ W2]. rewrite forallb_forall in W2.
    specialize (W2 _ Hin). apply Nat.ltb_lt in W2. unfold phys_len, gframe in *. cbn [cols]. rewrite GC. exact W2.
Qed.

Lemma gframe_lookup g f n : gcols g = cols f -> lookup_col (gframe g) n = lookup_col f n.
Proof. intros H. unfold lookup_col, lookup, gframe. cbn [cols]. rewrite H. reflexivity. Qed.

(* C04 at frame level: GroupBy followed by Aggregate *)
Theorem groupby_aggregate memhash rnd nulleq ft f columns aggs :
  frame_ok f -> forallb (contains f) columns = true ->
  (forall i, In i (ix f) -> Forall GrouperHash.cell_wf (key_cells (key_columns f columns) i)) ->
  exists g, group_by memhash rnd nulleq f columns = Ok g /\
    gerr g = false /\ gcols g = cols f /\ gkeys g = columns /\
    Grouper.partition_ok (key_eqb nulleq (key_columns f columns)) (ix f) (gindices g) /\
    qframes g = Ok (map (with_ix f) (gindices g)) /\
    (tables_complete ft g aggs ->
     exists out, aggregate ft g aggs = Ok out /\
       (ferr out = true <->
        exists i a, nth_error aggs i = Some a /\
                    agg_invalid g (columns ++ map agg_name (firstn i aggs)) a = true) /\
       (ferr out = false ->
        exists t, abs out = Ok t /\ tnames t = columns ++ map agg_name aggs /\
          length (trows t) = length (gindices g) /\
          forall k grp, nth_error (gindices g) k = Some grp ->
            exists first keycells aggcells,
              hd_error grp = Some first /\
              nth_error (trows t) k = Some (keycells ++ aggcells) /\
              Forall2 (key_value g first) columns keycells /\
              Forall2 (agg_value ft g grp) aggs aggcells)).
Proof.
  intros FO KC CW. destruct (group_by_partition memhash rnd nulleq f columns FO KC CW) as (g & H & GE & GC & GK & P).
  exists g. split; auto. split; auto. split; auto. split; auto. split; auto.
  split. { eapply group_by_qframes; eauto. }
  intros TC. assert (W : grouper_wf g) by (eapply group_by_wf; eauto).
  destruct (aggregate_total ft g aggs W TC) as (out & A & RD). exists out. split; auto. split.
  - rewrite <- GK. apply (aggregate_err_iff ft); auto.
  - intros FE. destruct (RD FE) as [t Ht]. exists t. split; auto.
    destruct (aggregate_rows ft g aggs out GE A FE) as (CN & _ & R). destruct (R t Ht) as [Ln Rows].
    split; [|split; auto].
    + unfold abs in Ht. destruct (omap (row_at out) (ix out)); cbn [obind] in Ht; try discriminate.
      inversion Ht; subst t. cbn [tnames]. rewrite CN, GK. reflexivity.
    + rewrite <- GK. exact Rows.
Qed.

(* ------------------------------------------------------------------ QFrame.Distinct, frame level *)

(* Distinct only ever changes the index (or sets the error flag): the columns are the input's *)
Theorem distinct_cols dst f columns out :
  distinct_with dst f columns = Ok out -> cols out = cols f.
Proof.
  unfold distinct_with. destruct (ferr f); [intros H; inversion H; reflexivity|].
  destruct (ix f) as [|p rest]; [intros H; inversion H; reflexivity|].
  destruct (forallb (contains f) columns); cbn [negb]; [|intros H; inversion H; reflexivity].
  match goal with |- (do kcols <- ?e; _) = _ -> _ => destruct e as [kcols| |]; cbn [obind]; try discriminate end.
  destruct (dst kcols (p :: rest)) as [d| |]; cbn [obind]; try discriminate.
  intros H; inversion H; reflexivity.
Qed.

Theorem distinct_no_rows dst f columns : ix f = [] -> distinct_with dst f columns = Ok f.
Proof. unfold distinct_with. intros ->. destruct (ferr f); reflexivity. Qed.

Theorem distinct_sticky dst f columns : ferr f = true -> distinct_with dst f columns = Ok f.
Proof. unfold distinct_with. intros ->. reflexivity. Qed.

Theorem distinct_unknown_column dst f columns :
  ferr f = false -> ix f <> [] -> forallb (contains f) columns = false ->
  distinct_with dst f columns = Ok (with_err f).
Proof.
  unfold distinct_with. intros -> NE ->. destruct (ix f); [congruence|reflexivity].
Qed.

Lemma forallb_contains_names f : forallb (contains f) (col_names f) = true.
Proof. apply forallb_forall. intros n Hn. apply contains_col_names; exact Hn. Qed.

(* no columns given: all columns are keys *)
Theorem distinct_all_columns dst f : distinct_with dst f [] = distinct_with dst f (col_names f).
Proof.
  unfold distinct_with. destruct (ferr f); auto. destruct (ix f) as [|p rest]; auto.
  rewrite forallb_contains_names. cbn [forallb negb].
  destruct (col_names f); reflexivity.
Qed.

(* the key columns Distinct uses *)
Definition distinct_columns (f : frame) (columns : list bytes) : list bytes :=
  match columns with [] => col_names f | _ :: _ => columns end.

(* C05 at frame level: no fault, no error, the same columns, and the new index is a correct choice of one row
   per key (Model/Grouper.v: distinct_ok), for every memhash and every random source *)
Theorem distinct_frame memhash rnd nulleq f columns :
  frame_ok f -> forallb (contains f) columns = true ->
  (forall i, In i (ix f) ->
     Forall GrouperHash.cell_wf (key_cells (key_columns f (distinct_columns f columns)) i)) ->
  exists d, distinct memhash rnd nulleq f columns = Ok (with_ix f d) /\
            Grouper.distinct_ok (key_eqb nulleq (key_columns f (distinct_columns f columns))) (ix f) d.
Proof.
  intros (FE & W & ND & B) KC CW. unfold distinct, distinct_with. rewrite FE.
  destruct (ix f) as [|p rest] eqn:IX.
  - exists []. split.
    + unfold with_ix. rewrite <- IX. destruct f as [c i e]; cbn in FE |- *; subst e; reflexivity.
    + split; [constructor|]. split; [intros x []|]. split; [intros i j []|intros i []].
  - rewrite KC. cbn [negb]. fold (distinct_columns f columns).
    assert (KC' : forallb (contains f) (distinct_columns f columns) = true).
    { destruct columns; cbn [distinct_columns]; auto. apply forallb_contains_names. }
    destruct (named_cols_total f _ KC') as [kcols K].
    unfold key_columns in *. rewrite K in *. cbn [obind]. unfold table_distinct.
    destruct (key_rows_total f kcols W (named_cols_in_range _ _ _ W K)) as [rows R].
    rewrite IX in R. rewrite R. cbn [obind].
    destruct (GrouperMain.distinct_ids_heads (key_eqb nulleq kcols) (key_hash memhash rnd nulleq kcols) (p :: rest))
      as (gs & _ & _ & D & DO); auto.
    + apply (GrouperHash.frame_per (key_cells kcols) nulleq).
    + apply (GrouperHash.frame_hash_respects (key_cells kcols) nulleq memhash rnd). exact CW.
    + unfold Grouper.distinct_ids. rewrite D. cbn [obind]. eauto.
Qed.

(* every row of the result is a row of the input, unmodified: whenever the new index is a subset of the old *)
Theorem with_ix_rows f d t t' :
  incl d (ix f) -> abs f = Ok t -> abs (with_ix f d) = Ok t' ->
  tnames t' = tnames t /\ ttypes t' = ttypes t /\ incl (trows t') (trows t).
Proof.
  intros I H H'. unfold abs in *.
  change (ix (with_ix f d)) with d in H'. change (cols (with_ix f d)) with (cols f) in H'.
  change (col_names (with_ix f d)) with (col_names f) in H'.
  rewrite (omap_ext (row_at (with_ix f d)) (row_at f) d (fun p _ => eq_refl)) in H'.
  destruct (omap (row_at f) (ix f)) as [rows| |] eqn:R; cbn [obind] in H; try discriminate.
  destruct (omap (row_at f) d) as [rows'| |] eqn:R'; cbn [obind] in H'; try discriminate.
  inversion H; inversion H'; subst; cbn [tnames ttypes trows]. split; auto. split; auto.
  intros row Hrow. destruct (omap_in _ _ _ _ R' Hrow) as (p & Hp & Hr).
  apply I in Hp. apply In_nth_error in Hp as [k Hk].
  destruct (omap_nth _ _ _ _ _ R Hk) as (row0 & H0 & Hn).
  rewrite Hr in H0. inversion H0; subst. eapply nth_error_In; eauto.
Qed.

(* ------------------------------------------------------------------ the built-ins at the level of agg_value *)

Definition name_sum : bytes := bs 3 0x73756d.
Definition name_max : bytes := bs 3 0x6d6178.
Definition name_min : bytes := bs 3 0x6d696e.
Definition name_majority : bytes := bs 8 0x6d616a6f72697479.

Lemma omap_cell_int zs : omap cell_int (map CInt zs) = Ok zs.
Proof. induction zs as [|z zs IH]; cbn [map omap cell_int obind]; auto. rewrite IH. reflexivity. Qed.

Lemma omap_cell_bool zs : omap cell_bool (map CBool zs) = Ok zs.
Proof. induction zs as [|z zs IH]; cbn [map omap cell_bool obind]; auto. rewrite IH. reflexivity. Qed.

Lemma agg_vals_int d : forall grp vals,
  omap (agg_cell_at (ICol d)) grp = Ok vals -> exists zs, omap (idx d) grp = Ok zs /\ vals = map CInt zs.
Proof.
  induction grp as [|p grp IH]; intros vals H.
  - inversion H. exists []. auto.
  - apply omap_ok_inv in H as (x & xs & H1 & H2 & ->). destruct (IH _ H2) as (zs & Hz & ->).
    unfold agg_cell_at in H1. cbn [cell_at] in H1. destruct (idx d p) as [z| |] eqn:E; cbn [obind] in H1; try discriminate.
    inversion H1; subst. exists (z :: zs). cbn [omap map]. rewrite E, Hz. auto.
Qed.

Lemma agg_vals_bool d : forall grp vals,
  omap (agg_cell_at (BCol d)) grp = Ok vals -> exists zs, omap (idx d) grp = Ok zs /\ vals = map CBool zs.
Proof.
  induction grp as [|p grp IH]; intros vals H.
  - inversion H. exists []. auto.
  - apply omap_ok_inv in H as (x & xs & H1 & H2 & ->). destruct (IH _ H2) as (zs & Hz & ->).
    unfold agg_cell_at in H1. cbn [cell_at] in H1. destruct (idx d p) as [z| |] eqn:E; cbn [obind] in H1; try discriminate.
    inversion H1; subst. exists (z :: zs). cbn [omap map]. rewrite E, Hz. auto.
Qed.

(* "sum" over an int column: the sum of the group's values, reduced to int64 *)
Theorem agg_value_int_sum ft g grp a d x :
  lookup_col (gframe g) (acol a) = Some (ICol d) -> agfn a = GName name_sum ->
  agg_value ft g grp a x ->
  exists zs, omap (idx d) grp = Ok zs /\ x = CInt (wrap64 (fold_right Z.add 0%Z zs)).
Proof.
  intros L FN (c & L' & V). rewrite L in L'. inversion L'; subst c. rewrite FN in V.
  change (is_count (GName name_sum)) with false in V. destruct V as (fnc & vals & R & AV & FX).
  destruct (agg_vals_int _ _ _ AV) as (zs & Hz & ->). exists zs. split; auto.
  cbn in R. inversion R; subst fnc. cbn [builtin_apply] in FX. rewrite omap_cell_int in FX. cbn [obind] in FX.
  change (bytes_eqb (bs 3 7566701) gofn_sum) with true in FX. cbv iota in FX.
  rewrite i_sum_spec in FX. inversion FX. reflexivity.
Qed.

(* "max" / "min" over an int column: an element of the group's values that bounds them all *)
Theorem agg_value_int_max ft g grp a d x :
  lookup_col (gframe g) (acol a) = Some (ICol d) -> agfn a = GName name_max ->
  agg_value ft g grp a x ->
  exists zs m, omap (idx d) grp = Ok zs /\ x = CInt m /\ In m zs /\ forall y, In y zs -> (y <= m)%Z.
Proof.
  intros L FN (c & L' & V). rewrite L in L'. inversion L'; subst c. rewrite FN in V.
  change (is_count (GName name_max)) with false in V. destruct V as (fnc & vals & R & AV & FX).
  destruct (agg_vals_int _ _ _ AV) as (zs & Hz & ->). exists zs.
  cbn in R. inversion R; subst fnc. cbn [builtin_apply] in FX. rewrite omap_cell_int in FX. cbn [obind] in FX.
  change (bytes_eqb (bs 3 7168376) gofn_sum) with false in FX.
  change (bytes_eqb (bs 3 7168376) gofn_max) with true in FX. cbv iota in FX.
  destruct zs as [|z zs]; [discriminate|].
  destruct (i_max_spec (z :: zs)) as (m & Hm & Hin & Hle); [discriminate|].
  rewrite Hm in FX. cbn [obind] in FX. inversion FX. exists m. auto.
Qed.

Theorem agg_value_int_min ft g grp a d x :
  lookup_col (gframe g) (acol a) = Some (ICol d) -> agfn a = GName name_min ->
  agg_value ft g grp a x ->
  exists zs m, omap (idx d) grp = Ok zs /\ x = CInt m /\ In m zs /\ forall y, In y zs -> (m <= y)%Z.
Proof.
  intros L FN (c & L' & V). rewrite L in L'. inversion L'; subst c. rewrite FN in V.
  change (is_count (GName name_min)) with false in V. destruct V as (fnc & vals & R & AV & FX).
  destruct (agg_vals_int _ _ _ AV) as (zs & Hz & ->). exists zs.
  cbn in R. inversion R; subst fnc. cbn [builtin_apply] in FX. rewrite omap_cell_int in FX. cbn [obind] in FX.
  change (bytes_eqb (bs 3 7170414) gofn_sum) with false in FX.
  change (bytes_eqb (bs 3 7170414) gofn_max) with false in FX.
  change (bytes_eqb (bs 3 7170414) gofn_min) with true in FX. cbv iota in FX.
  destruct zs as [|z zs]; [discriminate|].
  destruct (i_min_spec (z :: zs)) as (m & Hm & Hin & Hle); [discriminate|].
  rewrite Hm in FX. cbn [obind] in FX. inversion FX. exists m. auto.
Qed.

(* "majority" over a bool column: true iff strictly more true than false values in the group *)
Theorem agg_value_bool_majority ft g grp a d x :
  lookup_col (gframe g) (acol a) = Some (BCol d) -> agfn a = GName name_majority ->
  agg_value ft g grp a x ->
  exists zs b, omap (idx d) grp = Ok zs /\ x = CBool b /\
    (b = true <-> (count_occ Bool.bool_dec zs false < count_occ Bool.bool_dec zs true)%nat).
Proof.
  intros L FN (c & L' & V). rewrite L in L'. inversion L'; subst c. rewrite FN in V.
  change (is_count (GName name_majority)) with false in V. destruct V as (fnc & vals & R & AV & FX).
  destruct (agg_vals_bool _ _ _ AV) as (zs & Hz & ->). exists zs, (b_majority zs).
  cbn in R. inversion R; subst fnc. cbn [builtin_apply] in FX. rewrite omap_cell_bool in FX. cbn [obind] in FX.
  match type of FX with context [bytes_eqb ?u ?v] =>
    let w := eval vm_compute in (bytes_eqb u v) in change (bytes_eqb u v) with w in FX end. cbv iota in FX.
  inversion FX. split; auto. split; auto. apply b_majority_spec.
Qed.

(* "count" and the built-ins of int and bool columns need no table: Aggregate cannot fault on them *)
Theorem concrete_tables_complete ft g aggs :
  grouper_wf g ->
  (forall a, In a aggs -> exists n, agfn a = GName n /\
     forall c, lookup_col (gframe g) (acol a) = Some c -> col_type c <> TFloat) ->
  tables_complete ft g aggs.
Proof.
  intros W H a c fnc grp vals Ha L IC R Hg AV.
  destruct (H a Ha) as (n & FN & NF). specialize (NF c L). rewrite FN in R.
  destruct W as (_ & _ & _ & G). destruct (G _ Hg) as [NE _].
  assert (LV : length vals = length grp) by (eapply omap_length; eauto).
  destruct c as [d|d|d|d|d vs st]; cbn [resolve_fn col_type agg_table_of] in R; try (cbn in NF; congruence);
    try (cbn in R; discriminate).
  - destruct (agg_vals_int _ _ _ AV) as (zs & Hz & ->). rewrite map_length in LV.
    assert (ZN : zs <> []) by (destruct zs; [destruct grp; [congruence|discriminate]|discriminate]).
    unfold t_i_aggregations in R. cbn [assocb] in R.
    repeat match type of R with (match (if ?b then _ else _) with _ => _ end) = _ => destruct b end;
      try discriminate; inversion R; subst fnc; cbn [builtin_apply]; rewrite omap_cell_int; cbn [obind].
    + change (bytes_eqb (bs 3 7168376) gofn_sum) with false. change (bytes_eqb (bs 3 7168376) gofn_max) with true.
      cbv iota. destruct (i_max_spec zs ZN) as (m & -> & _). cbn [obind]. eauto.
    + change (bytes_eqb (bs 3 7170414) gofn_sum) with false. change (bytes_eqb (bs 3 7170414) gofn_max) with false.
      change (bytes_eqb (bs 3 7170414) gofn_min) with true.
      cbv iota. destruct (i_min_spec zs ZN) as (m & -> & _). cbn [obind]. eauto.
    + change (bytes_eqb (bs 3 7566701) gofn_sum) with true. cbv iota. eauto.
  - destruct (agg_vals_bool _ _ _ AV) as (zs & Hz & ->).
    unfold t_b_aggregations in R. cbn [assocb] in R.
    repeat match type of R with (match (if ?b then _ else _) with _ => _ end) = _ => destruct b end;
      try discriminate; inversion R; subst fnc; cbn [builtin_apply]; rewrite omap_cell_bool; cbn [obind].
    match goal with |- context [bytes_eqb ?x ?y] =>
      let v := eval vm_compute in (bytes_eqb x y) in change (bytes_eqb x y) with v end.
    cbv iota. eauto.
Qed.

(* C05 at frame level, with the rows: the result holds the input's columns, its index is one row per key, and
   every row of its table is a row of the input's table *)
Theorem distinct_frame_rows memhash rnd nulleq f columns :
  frame_ok f -> forallb (contains f) columns = true ->
  (forall i, In i (ix f) ->
     Forall GrouperHash.cell_wf (key_cells (key_columns f (distinct_columns f columns)) i)) ->
  exists d, distinct memhash rnd nulleq f columns = Ok (with_ix f d) /\
            Grouper.distinct_ok (key_eqb nulleq (key_columns f (distinct_columns f columns))) (ix f) d /\
            forall t t', abs f = Ok t -> abs (with_ix f d) = Ok t' ->
                         tnames t' = tnames t /\ ttypes t' = ttypes t /\ incl (trows t') (trows t).
Proof.
  intros FO KC CW. destruct (distinct_frame memhash rnd nulleq f columns FO KC CW) as (d & H & DO).
  exists d. split; auto. split; auto. intros t t'. apply with_ix_rows. destruct DO as (_ & I & _). exact I.
Qed.

(* `firstElementIx[i] = ix[0]`: a Grouper with an empty group (GroupBy never builds one) makes Aggregate panic *)
Theorem aggregate_empty_group ft g aggs :
  gerr g = false -> In [] (gindices g) -> aggregate ft g aggs = Panic.
Proof.
  intros GE Hin. unfold aggregate. rewrite GE.
  destruct (omap (fun ix => idx ix 0%nat) (gindices g)) as [firsts| |] eqn:F; cbn [obind]; auto.
  - apply In_nth_error in Hin as [k Hk]. destruct (omap_nth _ _ _ _ _ F Hk) as (y & Hy & _). discriminate.
  - exfalso. revert F. apply omap_not_fail. intros x _. apply idx_not_fail.
Qed.

(* ------------------------------------------------------------------ float max / min (math.Max / math.Min) *)

Lemma f_key_bounds x : f_isnan x = false ->
  (- Z.of_N f_inf_bits <= f_key x <= Z.of_N f_inf_bits)%Z.
Proof.
  unfold f_isnan, f_key. intros H. apply N.ltb_ge in H.
  cbv zeta. destruct (N.testbit x 63); lia.
Qed.

Lemma f_le_intro a b : f_isnan a = false -> f_isnan b = false -> (f_key a <= f_key b)%Z -> f_le a b = true.
Proof. unfold f_le. intros -> -> H. cbn [negb andb]. apply Z.leb_le. exact H. Qed.

Lemma f_le_inv a b : f_le a b = true -> f_isnan a = false /\ f_isnan b = false /\ (f_key a <= f_key b)%Z.
Proof.
  unfold f_le. intros H. apply andb_true_iff in H as [H H3]. apply andb_true_iff in H as [H1 H2].
  apply negb_true_iff in H1, H2. apply Z.leb_le in H3. auto.
Qed.

(* on two numbers: one of the arguments, and an upper bound of both in IEEE order (-0 = +0) *)
Lemma f_max_spec x y : f_isnan x = false -> f_isnan y = false ->
  (f_max x y = x \/ f_max x y = y) /\ f_le x (f_max x y) = true /\ f_le y (f_max x y) = true.
Proof.
  intros NX NY. pose proof (f_key_bounds x NX) as BX. pose proof (f_key_bounds y NY) as BY.
  assert (KP : f_key f_pinf = Z.of_N f_inf_bits) by reflexivity.
  unfold f_max. rewrite NX, NY. cbn [orb].
  destruct (x =? f_pinf) eqn:E1; cbn [orb].
  { apply N.eqb_eq in E1. subst x. split; auto. split; apply f_le_intro; auto; lia. }
  destruct (y =? f_pinf) eqn:E2.
  { apply N.eqb_eq in E2. subst y. split; auto. split; apply f_le_intro; auto; lia. }
  destruct ((f_key x =? 0)%Z && (f_key y =? 0)%Z) eqn:E3.
  { apply andb_true_iff in E3 as [Zx Zy]. apply Z.eqb_eq in Zx, Zy.
    destruct (N.testbit x 63); (split; [auto|]); split; apply f_le_intro; auto; lia. }
  unfold f_lt. rewrite NX, NY. cbn [negb andb].
  destruct (f_key y <? f_key x)%Z eqn:E4.
  - apply Z.ltb_lt in E4. split; auto. split; apply f_le_intro; auto; lia.
  - apply Z.ltb_ge in E4. split; auto. split; apply f_le_intro; auto; lia.
Qed.

Lemma f_min_spec x y : f_isnan x = false -> f_isnan y = false ->
  (f_min x y = x \/ f_min x y = y) /\ f_le (f_min x y) x = true /\ f_le (f_min x y) y = true.
Proof.
  intros NX NY. pose proof (f_key_bounds x NX) as BX. pose proof (f_key_bounds y NY) as BY.
  assert (KP : f_key f_ninf = (- Z.of_N f_inf_bits)%Z) by reflexivity.
  unfold f_min. rewrite NX, NY. cbn [orb].
  destruct (x =? f_ninf) eqn:E1; cbn [orb].
  { apply N.eqb_eq in E1. subst x. split; auto. split; apply f_le_intro; auto; lia. }
  destruct (y =? f_ninf) eqn:E2.
  { apply N.eqb_eq in E2. subst y. split; auto. split; apply f_le_intro; auto; lia. }
  destruct ((f_key x =? 0)%Z && (f_key y =? 0)%Z) eqn:E3.
  { apply andb_true_iff in E3 as [Zx Zy]. apply Z.eqb_eq in Zx, Zy.
    destruct (N.testbit x 63); (split; [auto|]); split; apply f_le_intro; auto; lia. }
  unfold f_lt. rewrite NX, NY. cbn [negb andb].
  destruct (f_key x <? f_key y)%Z eqn:E4.
  - apply Z.ltb_lt in E4. split; auto. split; apply f_le_intro; auto; lia.
  - apply Z.ltb_ge in E4. split; auto. split; apply f_le_intro; auto; lia.
Qed.

Lemma fold_f_max v : forall x, f_isnan x = false -> (forall y, In y v -> f_isnan y = false) ->
  let m := fold_left f_max v x in In m (x :: v) /\ forall y, In y (x :: v) -> f_le y m = true.
Proof.
  induction v as [|a v IH]; intros x NX NV; cbn [fold_left].
  - split; [left; reflexivity|]. intros y [<-|[]]. apply f_le_intro; auto; lia.
  - assert (NA : f_isnan a = false) by (apply NV; left; reflexivity).
    destruct (f_max_spec x a NX NA) as (Hor & L1 & L2).
    assert (NM : f_isnan (f_max x a) = false) by (destruct Hor as [->| ->]; auto).
    destruct (IH (f_max x a) NM) as [Hin Hle]. { intros y Hy. apply NV. right; exact Hy. }
    split.
    + destruct Hin as [E|Hin]; [|right; right; exact Hin]. rewrite <- E. destruct Hor as [->| ->]; [left|right; left]; reflexivity.
    + intros y Hy. assert (Hm : f_le (f_max x a) (fold_left f_max v (f_max x a)) = true) by (apply Hle; left; reflexivity).
      apply f_le_inv in Hm as (_ & N2 & K2).
      destruct Hy as [<-|[<-|Hy]].
      * apply f_le_inv in L1 as (_ & _ & K1). apply f_le_intro; auto; lia.
      * apply f_le_inv in L2 as (_ & _ & K1). apply f_le_intro; auto; lia.
      * apply Hle. right; exact Hy.
Qed.

Lemma fold_f_min v : forall x, f_isnan x = false -> (forall y, In y v -> f_isnan y = false) ->
  let m := fold_left f_min v x in In m (x :: v) /\ forall y, In y (x :: v) -> f_le m y = true.
Proof.
  induction v as [|a v IH]; intros x NX NV; cbn [fold_left].
  - split; [left; reflexivity|]. intros y [<-|[]]. apply f_le_intro; auto; lia.
  - assert (NA : f_isnan a = false) by (apply NV; left; reflexivity).
    destruct (f_min_spec x a NX NA) as (Hor & L1 & L2).
    assert (NM : f_isnan (f_min x a) = false) by (destruct Hor as [->| ->]; auto).
    destruct (IH (f_min x a) NM) as [Hin Hle]. { intros y Hy. apply NV. right; exact Hy. }
    split.
    + destruct Hin as [E|Hin]; [|right; right; exact Hin]. rewrite <- E. destruct Hor as [->| ->]; [left|right; left]; reflexivity.
    + intros y Hy. assert (Hm : f_le (fold_left f_min v (f_min x a)) (f_min x a) = true) by (apply Hle; left; reflexivity).
      apply f_le_inv in Hm as (N1 & _ & K2).
      destruct Hy as [<-|[<-|Hy]].
      * apply f_le_inv in L1 as (_ & _ & K1). apply f_le_intro; auto; lia.
      * apply f_le_inv in L2 as (_ & _ & K1). apply f_le_intro; auto; lia.
      * apply Hle. right; exact Hy.
Qed.

(* float max / min over a group without NaN: an element of the group that bounds all the others in IEEE order *)
Theorem fl_max_spec v : v <> [] -> (forall y, In y v -> f_isnan y = false) ->
  exists m, fl_max v = Ok m /\ In m v /\ forall y, In y v -> f_le y m = true.
Proof.
  destruct v as [|x v]; [congruence|]. intros _ NV. exists (fold_left f_max v x). split; [reflexivity|].
  apply fold_f_max; [apply NV; left; reflexivity|]. intros y Hy. apply NV. right; exact Hy.
Qed.

Theorem fl_min_spec v : v <> [] -> (forall y, In y v -> f_isnan y = false) ->
  exists m, fl_min v = Ok m /\ In m v /\ forall y, In y v -> f_le m y = true.
Proof.
  destruct v as [|x v]; [congruence|]. intros _ NV. exists (fold_left f_min v x). split; [reflexivity|].
  apply fold_f_min; [apply NV; left; reflexivity|]. intros y Hy. apply NV. right; exact Hy.
Qed.

Lemma omap_cell_float zs : omap cell_float (map CFloat zs) = Ok zs.
Proof. induction zs as [|z zs IH]; cbn [map omap cell_float obind]; auto. rewrite IH. reflexivity. Qed.

Lemma agg_vals_float d : forall grp vals,
  omap (agg_cell_at (FCol d)) grp = Ok vals -> exists zs, omap (idx d) grp = Ok zs /\ vals = map CFloat zs.
Proof.
  induction grp as [|p grp IH]; intros vals H.
  - inversion H. exists []. auto.
  - apply omap_ok_inv in H as (x & xs & H1 & H2 & ->). destruct (IH _ H2) as (zs & Hz & ->).
    unfold agg_cell_at in H1. cbn [cell_at] in H1. destruct (idx d p) as [z| |] eqn:E; cbn [obind] in H1; try discriminate.
    inversion H1; subst. exists (z :: zs). cbn [omap map]. rewrite E, Hz. auto.
Qed.

(* "max" / "min" over a float column without NaN in the group: an element of the group's values that bounds
   them all in IEEE order (with a NaN in the group the fold of math.Max / math.Min is still what the model
   computes, but +Inf / -Inf absorb a NaN, so no simple closed form is claimed) *)
Theorem agg_value_float_max ft g grp a d x :
  lookup_col (gframe g) (acol a) = Some (FCol d) -> agfn a = GName name_max ->
  agg_value ft g grp a x ->
  exists zs m, omap (idx d) grp = Ok zs /\ fl_max zs = Ok m /\ x = CFloat m /\
    ((forall y, In y zs -> f_isnan y = false) -> In m zs /\ forall y, In y zs -> f_le y m = true).
Proof.
  intros L FN (c & L' & V). rewrite L in L'. inversion L'; subst c. rewrite FN in V.
  change (is_count (GName name_max)) with false in V. destruct V as (fnc & vals & R & AV & FX).
  destruct (agg_vals_float _ _ _ AV) as (zs & Hz & ->). exists zs.
  cbn in R. inversion R; subst fnc. cbn [builtin_apply] in FX.
  match type of FX with context [bytes_eqb ?u ?v] =>
    let w := eval vm_compute in (bytes_eqb u v) in change (bytes_eqb u v) with w in FX end. cbv iota in FX.
  rewrite omap_cell_float in FX. cbn [obind] in FX.
  destruct (fl_max zs) as [m| |] eqn:M; cbn [obind] in FX; try discriminate. inversion FX; subst x.
  exists m. split; auto. split; auto. split; auto. intros NV.
  destruct zs as [|z zs]; [discriminate|].
  destruct (fl_max_spec (z :: zs)) as (m' & Hm & Hin & Hle); [discriminate|exact NV|].
  rewrite M in Hm. inversion Hm; subst m'. auto.
Qed.

Theorem agg_value_float_min ft g grp a d x :
  lookup_col (gframe g) (acol a) = Some (FCol d) -> agfn a = GName name_min ->
  agg_value ft g grp a x ->
  exists zs m, omap (idx d) grp = Ok zs /\ fl_min zs = Ok m /\ x = CFloat m /\
    ((forall y, In y zs -> f_isnan y = false) -> In m zs /\ forall y, In y zs -> f_le m y = true).
Proof.
  intros L FN (c & L' & V). rewrite L in L'. inversion L'; subst c. rewrite FN in V.
  change (is_count (GName name_min)) with false in V. destruct V as (fnc & vals & R & AV & FX).
  destruct (agg_vals_float _ _ _ AV) as (zs & Hz & ->). exists zs.
  cbn in R. inversion R; subst fnc. cbn [builtin_apply] in FX.
  repeat match type of FX with context [bytes_eqb ?u ?v] =>
    let w := eval vm_compute in (bytes_eqb u v) in change (bytes_eqb u v) with w in FX end. cbv iota in FX.
  rewrite omap_cell_float in FX. cbn [obind] in FX.
  destruct (fl_min zs) as [m| |] eqn:M; cbn [obind] in FX; try discriminate. inversion FX; subst x.
  exists m. split; auto. split; auto. split; auto. intros NV.
  destruct zs as [|z zs]; [discriminate|].
  destruct (fl_min_spec (z :: zs)) as (m' & Hm & Hin & Hle); [discriminate|exact NV|].
  rewrite M in Hm. inversion Hm; subst m'. auto.
Qed.
