(* Proofs/CsvSpecProofs.v — C12_rfc: the character machine inverts the renderer. *)
From QF Require Import Base.Prelude Model.CsvSpec.
Local Open Scope N_scope.

Section Rfc.
Variable delim : N.
Hypothesis Hdelim : delim_ok delim = true.

Lemma d_quote : (c_quote =? delim) = false.
Proof. unfold delim_ok in Hdelim. unfold c_quote, c_cr, c_lf in *. lia. Qed.
Lemma d_cr : (c_cr =? delim) = false.
Proof. unfold delim_ok in Hdelim. unfold c_quote, c_cr, c_lf in *. lia. Qed.
Lemma d_lf : (c_lf =? delim) = false.
Proof. unfold delim_ok in Hdelim. unfold c_quote, c_cr, c_lf in *. lia. Qed.
Lemma d_quote' : (delim =? c_quote) = false.
Proof. unfold delim_ok in Hdelim. unfold c_quote, c_cr, c_lf in *. lia. Qed.

Lemma special_false c :
  special delim c = false ->
  (c =? delim) = false /\ (c =? c_quote) = false /\ (c =? c_cr) = false /\ (c =? c_lf) = false.
Proof. unfold special. intros H. repeat apply orb_false_iff in H as [H ?]. auto. Qed.

(* ---------------------------------------------------------------- single steps *)

Lemma step_start_quote l ad : sstep delim c_quote l (SStart ad) = (SQuo [] false, ENone).
Proof. reflexivity. Qed.

Lemma step_unq_plain c l acc :
  special delim c = false -> sstep delim c l (SUnq acc) = (SUnq (c :: acc), ENone).
Proof.
  intros H. apply special_false in H as (H1 & H2 & H3 & H4).
  unfold sstep. cbn [andb]. rewrite H1, H4. reflexivity.
Qed.

Lemma step_start_plain c l ad :
  special delim c = false -> sstep delim c l (SStart ad) = (SUnq [c], ENone).
Proof.
  intros H. apply special_false in H as (H1 & H2 & H3 & H4).
  unfold sstep. cbn [andb]. rewrite H1, H2, H4. reflexivity.
Qed.

Lemma step_unq_delim l acc : sstep delim delim l (SUnq acc) = (SStart true, EField acc).
Proof. unfold sstep. cbn [andb]. rewrite N.eqb_refl. reflexivity. Qed.

Lemma step_start_delim l ad : sstep delim delim l (SStart ad) = (SStart true, EField []).
Proof. unfold sstep. cbn [andb]. rewrite d_quote', N.eqb_refl. reflexivity. Qed.

Lemma step_unq_lf l acc : sstep delim c_lf l (SUnq acc) = (SStart false, ERow acc).
Proof. unfold sstep. cbn [andb]. rewrite d_lf. reflexivity. Qed.

Lemma step_start_lf l ad : sstep delim c_lf l (SStart ad) = (SStart false, ERow []).
Proof. unfold sstep. cbn [andb]. rewrite d_lf. reflexivity. Qed.

Lemma step_unq_cr l acc : sstep delim c_cr l (SUnq acc) = (SUnq (c_cr :: acc), ENone).
Proof. unfold sstep. cbn [andb]. rewrite d_cr. reflexivity. Qed.

Lemma step_start_cr l ad : sstep delim c_cr l (SStart ad) = (SUnq [c_cr], ENone).
Proof. unfold sstep. cbn [andb]. rewrite d_cr. reflexivity. Qed.

(* inside quotes, not the last byte of the document *)
Lemma step_quo_quote1 acc : sstep delim c_quote false (SQuo acc false) = (SQuo acc true, ENone).
Proof. unfold sstep. rewrite d_quote. reflexivity. Qed.

Lemma step_quo_quote2 acc : sstep delim c_quote false (SQuo acc true) = (SQuo (c_quote :: acc) false, ENone).
Proof. unfold sstep. rewrite d_quote. reflexivity. Qed.

Lemma step_quo_other c acc :
  (c =? c_quote) = false -> sstep delim c false (SQuo acc false) = (SQuo (c :: acc) false, ENone).
Proof.
  intros H. unfold sstep. rewrite H.
  destruct (c =? delim); [reflexivity|].
  destruct (c =? c_lf); [reflexivity|].
  destruct (c =? c_cr); reflexivity.
Qed.

Lemma step_quo_close_last acc : sstep delim c_quote true (SQuo acc false) = (SStart false, ERow acc).
Proof. reflexivity. Qed.

Lemma step_quo_delim l acc : sstep delim delim l (SQuo acc true) = (SStart true, EField acc).
Proof. unfold sstep. rewrite N.eqb_refl. destruct l; reflexivity. Qed.

Lemma step_quo_lf l acc : sstep delim c_lf l (SQuo acc true) = (SStart false, ERow acc).
Proof. unfold sstep. rewrite d_lf. destruct l; reflexivity. Qed.

Lemma step_quo_cr acc : sstep delim c_cr false (SQuo acc true) = (SQuo acc true, ENone).
Proof. unfold sstep. rewrite d_cr. reflexivity. Qed.

(* ---------------------------------------------------------------- runs *)

Lemma sscan_cons st fr rr c rest :
  sscan delim st fr rr (c :: rest) =
  match sstep delim c (is_nilb rest) st with
  | (st', ENone) => sscan delim st' fr rr rest
  | (st', EField f) => sscan delim st' (f :: fr) rr rest
  | (st', ERow f) => sscan delim st' [] (close_row (f :: fr) rr) rest
  end.
Proof. reflexivity. Qed.

Lemma sscan_nil st fr rr :
  sscan delim st fr rr [] =
  rev (close_row (match st with
                  | SStart ad => if ad then [] :: fr else fr
                  | SUnq acc => acc :: fr
                  | SQuo acc _ => acc :: fr
                  end) rr).
Proof. reflexivity. Qed.

Lemma unq_run f : forall acc fr rr rest,
  needs_quote delim f = false ->
  sscan delim (SUnq acc) fr rr (f ++ rest) = sscan delim (SUnq (rev f ++ acc)) fr rr rest.
Proof.
  induction f as [|c f IH]; intros acc fr rr rest H; [reflexivity|].
  unfold needs_quote in H. simpl in H. apply orb_false_iff in H as [Hc Hf].
  rewrite <- app_comm_cons, sscan_cons, step_unq_plain by exact Hc.
  rewrite IH by exact Hf. simpl. rewrite <- app_assoc. reflexivity.
Qed.

Lemma escape_app_nonnil f rest : rest <> [] -> is_nilb (escape f ++ rest) = false.
Proof.
  intros H. destruct f as [|c f]; simpl.
  - destruct rest; [congruence | reflexivity].
  - destruct (c =? c_quote); reflexivity.
Qed.

Lemma quo_run f : forall acc fr rr rest,
  rest <> [] ->
  sscan delim (SQuo acc false) fr rr (escape f ++ rest) = sscan delim (SQuo (rev f ++ acc) false) fr rr rest.
Proof.
  induction f as [|c f IH]; intros acc fr rr rest Hr; [reflexivity|].
  simpl escape. destruct (c =? c_quote) eqn:Hq.
  - apply N.eqb_eq in Hq. subst c.
    rewrite <- !app_comm_cons, sscan_cons.
    change (is_nilb (c_quote :: escape f ++ rest)) with false.
    rewrite step_quo_quote1, sscan_cons, escape_app_nonnil by exact Hr.
    rewrite step_quo_quote2, IH by exact Hr.
    simpl. rewrite <- app_assoc. reflexivity.
  - rewrite <- app_comm_cons, sscan_cons, escape_app_nonnil by exact Hr.
    rewrite step_quo_other by exact Hq. rewrite IH by exact Hr.
    simpl. rewrite <- app_assoc. reflexivity.
Qed.

(* ---------------------------------------------------------------- what follows a cell *)

Inductive ctail := CEnd | CDelim (rest : bytes) | CEol (crlf : bool) (rest : bytes).

Definition ctail_bytes (t : ctail) : bytes :=
  match t with CEnd => [] | CDelim r => delim :: r | CEol b r => eol b ++ r end.

Definition mk_row (fr : list bytes) (rr : list (list bytes)) : list (list bytes) :=
  map (@rev N) (rev fr) :: rr.

Definition after_cell (t : ctail) (facc : bytes) (fr : list bytes) (rr : list (list bytes)) :=
  match t with
  | CEnd => rev (mk_row (facc :: fr) rr)
  | CDelim r => sscan delim (SStart true) (facc :: fr) rr r
  | CEol _ r => sscan delim (SStart false) [] (mk_row (facc :: fr) rr) r
  end.

Definition row_ends (t : ctail) : bool := match t with CDelim _ => false | _ => true end.

Lemma close_row_notrim l fr rr : trim_rev l = l -> close_row (l :: fr) rr = mk_row (l :: fr) rr.
Proof. intros H. unfold close_row, mk_row. rewrite H. reflexivity. Qed.

Lemma close_row_cr l fr rr : close_row ((c_cr :: l) :: fr) rr = mk_row (l :: fr) rr.
Proof. reflexivity. Qed.

Lemma trim_rev_ends f : ends_cr f = false -> trim_rev (rev f) = rev f.
Proof. unfold ends_cr, trim_rev. destruct (rev f) as [|c t]; [reflexivity|]. intros ->. reflexivity. Qed.

Lemma needs_quote_ends f : needs_quote delim f = false -> ends_cr f = false.
Proof.
  intros H. unfold ends_cr. destruct (rev f) as [|c t] eqn:E; [reflexivity|].
  assert (In c f) as Hin by (apply in_rev; rewrite E; left; reflexivity).
  unfold needs_quote in H.
  destruct (c =? c_cr) eqn:Hc; [|reflexivity].
  assert (existsb (special delim) f = true) as Hex.
  { apply existsb_exists. exists c. split; [exact Hin|]. unfold special. rewrite Hc.
    rewrite !orb_true_r. reflexivity. }
  congruence.
Qed.

(* in a state with an unquoted accumulator whose head is not CR *)
Lemma unq_tail t acc fr rr :
  trim_rev acc = acc ->
  sscan delim (SUnq acc) fr rr (ctail_bytes t) = after_cell t acc fr rr.
Proof.
  intros Ht. destruct t as [|r|[|] r]; simpl ctail_bytes.
  - rewrite sscan_nil, close_row_notrim by exact Ht. reflexivity.
  - rewrite sscan_cons, step_unq_delim. reflexivity.
  - cbn [eol app]. rewrite sscan_cons, step_unq_cr, sscan_cons, step_unq_lf.
    rewrite close_row_cr. reflexivity.
  - cbn [eol app]. rewrite sscan_cons, step_unq_lf.
    rewrite close_row_notrim by exact Ht. reflexivity.
Qed.

(* an empty unquoted field followed by something *)
Lemma start_tail t ad fr rr :
  t <> CEnd ->
  sscan delim (SStart ad) fr rr (ctail_bytes t) = after_cell t [] fr rr.
Proof.
  intros Ht. destruct t as [|r|[|] r]; simpl ctail_bytes; [congruence| | |].
  - rewrite sscan_cons, step_start_delim. reflexivity.
  - cbn [eol app]. rewrite sscan_cons, step_start_cr, sscan_cons, step_unq_lf.
    rewrite close_row_cr. reflexivity.
  - cbn [eol app]. rewrite sscan_cons, step_start_lf. reflexivity.
Qed.

(* after the closing quote *)
Lemma quo_tail t acc fr rr :
  trim_rev acc = acc \/ row_ends t = false ->
  sscan delim (SQuo acc false) fr rr (c_quote :: ctail_bytes t) = after_cell t acc fr rr.
Proof.
  intros Ht. rewrite sscan_cons.
  destruct t as [|r|[|] r]; simpl ctail_bytes.
  - destruct Ht as [Ht|Ht]; [|discriminate].
    simpl is_nilb. rewrite step_quo_close_last, sscan_nil.
    rewrite close_row_notrim by exact Ht. reflexivity.
  - simpl is_nilb. rewrite step_quo_quote1, sscan_cons, step_quo_delim. reflexivity.
  - destruct Ht as [Ht|Ht]; [|discriminate].
    cbn [eol app]. simpl is_nilb. rewrite step_quo_quote1.
    rewrite sscan_cons. simpl is_nilb. rewrite step_quo_cr.
    rewrite sscan_cons, step_quo_lf. rewrite close_row_notrim by exact Ht. reflexivity.
  - destruct Ht as [Ht|Ht]; [|discriminate].
    cbn [eol app]. simpl is_nilb. rewrite step_quo_quote1.
    rewrite sscan_cons, step_quo_lf. rewrite close_row_notrim by exact Ht. reflexivity.
Qed.

(* ---------------------------------------------------------------- one cell *)

Lemma cell_scan c t ad fr rr :
  cell_ok delim c = true ->
  (row_ends t = true -> ends_cr (snd c) = false) ->
  (* the vanishing blank row: an empty unquoted first field at the very end of the input *)
  ~ (c = (false, []) /\ ad = false /\ t = CEnd) ->
  sscan delim (SStart ad) fr rr (render_cell c ++ ctail_bytes t) = after_cell t (rev (snd c)) fr rr.
Proof.
  intros Hok Hcr Hvan. destruct c as [q f]. unfold cell_ok in Hok. simpl in *.
  unfold render_cell. simpl fst. simpl snd. destruct q.
  - (* quoted *)
    rewrite <- app_comm_cons, sscan_cons, step_start_quote.
    rewrite <- app_assoc. rewrite quo_run by (simpl; discriminate).
    rewrite app_nil_r. simpl app. apply quo_tail.
    destruct (row_ends t) eqn:E; [left; apply trim_rev_ends, Hcr; reflexivity | right; reflexivity].
  - (* unquoted: no special byte in f *)
    destruct (needs_quote delim f) eqn:Hnq; [discriminate|].
    destruct f as [|x f].
    + simpl app. destruct t as [|r|b r].
      * destruct ad; [|exfalso; apply Hvan; auto]. reflexivity.
      * apply start_tail. discriminate.
      * apply start_tail. discriminate.
    + assert (special delim x = false) as Hx.
      { unfold needs_quote in Hnq. simpl in Hnq. apply orb_false_iff in Hnq as [? ?]. assumption. }
      rewrite <- app_comm_cons, sscan_cons, step_start_plain by exact Hx.
      assert (needs_quote delim f = false) as Hf.
      { unfold needs_quote in Hnq. simpl in Hnq. apply orb_false_iff in Hnq as [? ?]. assumption. }
      rewrite unq_run by exact Hf.
      change (rev f ++ [x]) with (rev (x :: f)).
      apply unq_tail. apply trim_rev_ends, needs_quote_ends. exact Hnq.
Qed.

(* ---------------------------------------------------------------- one row *)

Inductive rtail := REnd | REol (crlf : bool) (rest : bytes).

Definition rtail_bytes (t : rtail) : bytes := match t with REnd => [] | REol b r => eol b ++ r end.

(* the fields of the cells, last first, each reversed *)
Definition racc (cells : list (bool * bytes)) : list bytes := rev (map (fun c => rev (snd c)) cells).

Definition after_row (t : rtail) (fr : list bytes) (rr : list (list bytes)) :=
  match t with
  | REnd => rev (mk_row fr rr)
  | REol _ r => sscan delim (SStart false) [] (mk_row fr rr) r
  end.

Lemma row_scan cells : forall t ad fr rr,
  cells <> [] ->
  forallb (cell_ok delim) cells = true ->
  ends_cr (snd (last cells (false, []))) = false ->
  ~ (cells = [(false, [])] /\ ad = false /\ t = REnd) ->
  sscan delim (SStart ad) fr rr (render_cells delim cells ++ rtail_bytes t)
  = after_row t (racc cells ++ fr) rr.
Proof.
  induction cells as [|c cs IH]; intros t ad fr rr Hne Hok Hcr Hvan; [congruence|].
  simpl in Hok. apply andb_true_iff in Hok as [Hc Hcs].
  destruct cs as [|c2 cs].
  - (* last cell of the row *)
    simpl render_cells. simpl in Hcr.
    destruct t as [|b r].
    + change (rtail_bytes REnd) with (ctail_bytes CEnd).
      rewrite cell_scan; [reflexivity | exact Hc | intros _; exact Hcr |].
      intros (H1 & H2 & _). apply Hvan. subst. auto.
    + change (rtail_bytes (REol b r)) with (ctail_bytes (CEol b r)).
      rewrite cell_scan; [reflexivity | exact Hc | intros _; exact Hcr |].
      intros (_ & _ & H3). discriminate.
  - change (render_cells delim (c :: c2 :: cs)) with (render_cell c ++ delim :: render_cells delim (c2 :: cs)).
    rewrite <- app_assoc. rewrite <- app_comm_cons.
    change (delim :: render_cells delim (c2 :: cs) ++ rtail_bytes t)
      with (ctail_bytes (CDelim (render_cells delim (c2 :: cs) ++ rtail_bytes t))).
    rewrite cell_scan; [| exact Hc | intros H; discriminate | intros (_ & _ & H3); discriminate].
    simpl after_cell.
    rewrite IH; [| discriminate | exact Hcs | exact Hcr | intros (_ & H2 & _); discriminate].
    unfold racc. simpl map. simpl rev. rewrite <- !app_assoc. reflexivity.
Qed.

Lemma mk_row_racc cells rr : mk_row (racc cells ++ []) rr = map snd cells :: rr.
Proof.
  unfold mk_row, racc. rewrite app_nil_r, rev_involutive, map_map. f_equal.
  induction cells as [|c cs IH]; simpl; [reflexivity|]. rewrite rev_involutive, IH. reflexivity.
Qed.

(* ---------------------------------------------------------------- documents *)

Lemma row_ok_parts r :
  row_ok delim r = true ->
  fst r <> [] /\ forallb (cell_ok delim) (fst r) = true /\ ends_cr (snd (last (fst r) (false, []))) = false.
Proof.
  unfold row_ok. intros H. apply andb_true_iff in H as [H H3]. apply andb_true_iff in H as [H1 H2].
  repeat split.
  - destruct (fst r); [discriminate | discriminate].
  - exact H2.
  - destruct (ends_cr _); [discriminate | reflexivity].
Qed.

Lemma rows_scan final rows : forall rr,
  forallb (row_ok delim) rows = true ->
  final_ok final rows = true ->
  sscan delim (SStart false) [] rr (render_rows delim final rows) = rev rr ++ cells_of rows.
Proof.
  induction rows as [|r rs IH]; intros rr Hok Hfin.
  - simpl. rewrite app_nil_r. reflexivity.
  - simpl in Hok. apply andb_true_iff in Hok as [Hr Hrs].
    apply row_ok_parts in Hr as (Hne & Hcells & Hcr).
    destruct rs as [|r2 rs].
    + (* last row *)
      simpl render_rows. destruct final.
      * replace (eol (snd r)) with (rtail_bytes (REol (snd r) [])) by (simpl; apply app_nil_r).
        rewrite row_scan; [| exact Hne | exact Hcells | exact Hcr | intros (_ & _ & H); discriminate].
        cbn [after_row]. rewrite mk_row_racc, sscan_nil. simpl. reflexivity.
      * replace (render_cells delim (fst r) ++ []) with (render_cells delim (fst r) ++ rtail_bytes REnd)
          by reflexivity.
        rewrite row_scan; [| exact Hne | exact Hcells | exact Hcr |].
        -- cbn [after_row]. rewrite mk_row_racc. simpl. reflexivity.
        -- intros (H1 & _ & _). unfold final_ok in Hfin. simpl in Hfin.
           unfold is_blank_row in Hfin. rewrite H1 in Hfin. discriminate.
    + change (render_rows delim final (r :: r2 :: rs))
        with (render_cells delim (fst r) ++ eol (snd r) ++ render_rows delim final (r2 :: rs)).
      change (eol (snd r) ++ render_rows delim final (r2 :: rs))
        with (rtail_bytes (REol (snd r) (render_rows delim final (r2 :: rs)))).
      rewrite row_scan; [| exact Hne | exact Hcells | exact Hcr | intros (_ & _ & H); discriminate].
      cbn [after_row]. rewrite mk_row_racc.
      rewrite IH; [| exact Hrs |].
      * simpl. rewrite <- app_assoc. reflexivity.
      * unfold final_ok in *. destruct final; [reflexivity|]. simpl in Hfin |- *.
        destruct (rev rs ++ [r2]) as [|x xs] eqn:E.
        -- destruct (rev rs); discriminate.
        -- simpl in Hfin. exact Hfin.
Qed.

End Rfc.

(* ---------------------------------------------------------------- the theorem on rows and styles *)

Lemma cells_of_style_rows rows : forall sts,
  shape_ok rows sts = true -> cells_of (style_rows rows sts) = rows.
Proof.
  induction rows as [|r rows IH]; intros [|s sts] H; simpl in *; try discriminate; [reflexivity|].
  apply andb_true_iff in H as [H1 H2]. apply Nat.eqb_eq in H1.
  unfold cells_of, style_rows in *. simpl. f_equal.
  - clear -H1. destruct s as [qs crlf]. simpl in *. revert qs H1.
    induction r as [|f r IHr]; intros [|q0 qs] H; simpl in *; try discriminate; [reflexivity|].
    f_equal. apply IHr. lia.
  - apply IH. exact H2.
Qed.

Theorem stream_scan_render delim rows st :
  wf_doc delim rows st = true ->
  stream_scan delim (render delim rows st) = rows.
Proof.
  unfold wf_doc, wf_srows. intros H.
  apply andb_true_iff in H as [Hshape H]. apply andb_true_iff in H as [H Hfin].
  apply andb_true_iff in H as [Hd Hrows].
  unfold stream_scan, render.
  rewrite (rows_scan delim Hd (snd st) _ [] Hrows Hfin). simpl.
  apply cells_of_style_rows. exact Hshape.
Qed.

(* no bare CR implies the side condition on the last cell of a row *)
Lemma no_bare_cr_ends f : no_bare_cr f = true -> ends_cr f = false.
Proof.
  intros H. unfold ends_cr. destruct (rev f) as [|c t] eqn:E; [reflexivity|].
  destruct (c =? c_cr) eqn:Hc; [|reflexivity]. exfalso.
  assert (f = rev t ++ [c]) as Hf by (rewrite <- (rev_involutive f), E; reflexivity).
  clear E. subst f. induction (rev t) as [|x l IH]; simpl in H.
  - rewrite Hc in H. discriminate.
  - apply andb_true_iff in H as [_ H]. apply IH. exact H.
Qed.

(* the statement with C12's own side condition: no cell contains a bare CR *)
Definition row_ok_nbc (delim : N) (r : srow) : bool :=
  negb (is_nilb (fst r)) && forallb (cell_ok delim) (fst r) && forallb (fun c => no_bare_cr (snd c)) (fst r).

Definition wf_doc_nbc (delim : N) (rows : list (list bytes)) (st : styles) : bool :=
  shape_ok rows (fst st) && delim_ok delim
  && forallb (row_ok_nbc delim) (style_rows rows (fst st))
  && final_ok (snd st) (style_rows rows (fst st)).

Lemma row_ok_nbc_row_ok delim r : row_ok_nbc delim r = true -> row_ok delim r = true.
Proof.
  unfold row_ok_nbc, row_ok. intros H. apply andb_true_iff in H as [H H3]. rewrite H. cbn [andb].
  apply andb_true_iff in H as [H1 _].
  destruct (fst r) as [|c cs] eqn:E; [discriminate|].
  assert (In (last (c :: cs) (false, [])) (c :: cs)) as Hin.
  { destruct (@exists_last _ (c :: cs)) as (l' & a & Heq); [discriminate|]. rewrite Heq, last_last.
    apply in_or_app. right. left. reflexivity. }
  rewrite forallb_forall in H3. rewrite (no_bare_cr_ends _ (H3 _ Hin)). reflexivity.
Qed.

Theorem stream_scan_render_nbc delim rows st :
  wf_doc_nbc delim rows st = true -> stream_scan delim (render delim rows st) = rows.
Proof.
  intros H. apply stream_scan_render. unfold wf_doc_nbc in H. unfold wf_doc, wf_srows.
  apply andb_true_iff in H as [H Hf]. apply andb_true_iff in H as [H Hr]. apply andb_true_iff in H as [Hs Hd].
  rewrite Hs, Hd, Hf, andb_true_r. cbn [andb].
  apply forallb_forall. intros r Hin. apply row_ok_nbc_row_ok. rewrite forallb_forall in Hr. apply Hr. exact Hin.
Qed.
