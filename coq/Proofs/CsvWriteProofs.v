(* Proofs/CsvWriteProofs.v — the encoding/csv writer stays inside the image of the renderer
   (writer_in_renderer_image), so the character machine reads back exactly the records written;
   decimal formatting and parsing are inverse on the int64 range. *)
From QF Require Import Base.Prelude Model.CsvSpec Model.CsvWrite Proofs.CsvSpecProofs.
Local Open Scope N_scope.

(* ---------------------------------------------------------------- Writer.Write = render *)

Lemma write_quoted_body_escape f : write_quoted_body false f = escape f.
Proof.
  induction f as [|c f IH]; [reflexivity|]. simpl. rewrite IH.
  unfold c_quote. destruct (c =? 34) eqn:E1; [reflexivity|].
  destruct (c =? 13) eqn:E2; [apply N.eqb_eq in E2; subst; reflexivity|].
  destruct (c =? 10) eqn:E3; [apply N.eqb_eq in E3; subst; reflexivity | reflexivity].
Qed.

(* the quoting decision of the writer, as a style *)
Definition sty (comma : N) (f : bytes) : bool * bytes := (field_needs_quotes comma f, f).

Lemma write_field_render comma f : write_field comma false f = render_cell (sty comma f).
Proof.
  unfold write_field, render_cell, sty. simpl. destruct (field_needs_quotes comma f); [|reflexivity].
  rewrite write_quoted_body_escape. reflexivity.
Qed.

Lemma special_writer comma c :
  special comma c = ((c =? 10) || (c =? 13) || (c =? 34) || (c =? comma)).
Proof.
  unfold special, c_quote, c_cr, c_lf.
  destruct (c =? comma), (c =? 34), (c =? 13), (c =? 10); reflexivity.
Qed.

Lemma existsb_ext' {A} (f g : A -> bool) l : (forall x, f x = g x) -> existsb f l = existsb g l.
Proof. intros H. induction l as [|x l IH]; simpl; [reflexivity|]. rewrite H, IH. reflexivity. Qed.

(* the writer quotes at least what the renderer must quote *)
Lemma sty_cell_ok comma f : cell_ok comma (sty comma f) = true.
Proof.
  unfold cell_ok, sty. simpl. unfold needs_quote, field_needs_quotes.
  destruct f as [|c f]; [reflexivity|]. simpl is_nilb. cbn iota.
  destruct (bytes_eqb (c :: f) [92; 46]); [apply implb_true_r|].
  rewrite (existsb_ext' _ (fun c0 => (c0 =? 10) || (c0 =? 13) || (c0 =? 34) || (c0 =? comma)))
    by (intros; apply special_writer).
  destruct (existsb _ (c :: f)); [reflexivity | reflexivity].
Qed.

Lemma write_fields_S comma n rec :
  write_fields comma false (S n) rec = concat (map (fun f => comma :: render_cell (sty comma f)) rec).
Proof.
  revert n. induction rec as [|f rec IH]; intros n; [reflexivity|].
  simpl. rewrite write_field_render, IH. reflexivity.
Qed.

Lemma render_cells_cons delim c cs :
  render_cells delim (c :: cs) = render_cell c ++ concat (map (fun c' => delim :: render_cell c') cs).
Proof.
  revert c. induction cs as [|c2 cs IH]; intros c.
  - simpl. rewrite app_nil_r. reflexivity.
  - change (render_cells delim (c :: c2 :: cs)) with (render_cell c ++ delim :: render_cells delim (c2 :: cs)).
    rewrite IH. reflexivity.
Qed.

Lemma write_fields_render comma rec :
  write_fields comma false 0 rec = render_cells comma (map (sty comma) rec).
Proof.
  destruct rec as [|f rec]; [reflexivity|].
  simpl write_fields. rewrite write_field_render, write_fields_S.
  simpl map. rewrite render_cells_cons, map_map. reflexivity.
Qed.

Definition srows_of (comma : N) (recs : list (list bytes)) : list srow :=
  map (fun rec => (map (sty comma) rec, false)) recs.

(* writer_in_renderer_image: what the writer emits is a rendering (LF row ends, final line break) *)
Theorem writer_in_renderer_image comma recs :
  concat (map (writer_write comma false) recs) = render_rows comma true (srows_of comma recs).
Proof.
  induction recs as [|rec recs IH]; [reflexivity|].
  simpl concat. rewrite IH. unfold writer_write. rewrite write_fields_render.
  destruct recs as [|rec2 recs].
  - simpl. rewrite app_nil_r. reflexivity.
  - simpl srows_of.
    change (render_rows comma true ((map (sty comma) rec, false) :: (map (sty comma) rec2, false) :: srows_of comma recs))
      with (render_cells comma (map (sty comma) rec) ++ eol false
            ++ render_rows comma true ((map (sty comma) rec2, false) :: srows_of comma recs)).
    rewrite <- app_assoc. reflexivity.
Qed.

Lemma cells_of_srows_of comma recs : cells_of (srows_of comma recs) = recs.
Proof.
  unfold cells_of, srows_of. rewrite map_map. simpl.
  induction recs as [|r rs IH]; [reflexivity|]. simpl. rewrite IH, map_map. simpl. rewrite map_id. reflexivity.
Qed.

(* a record the scanner gives back: at least one field, the last one not ending in CR *)
Definition rec_ok (rec : list bytes) : bool := negb (is_nilb rec) && negb (ends_cr (last rec [])).

Lemma last_map_sty comma rec : snd (last (map (sty comma) rec) (false, [])) = last rec [].
Proof.
  induction rec as [|f rec IH]; [reflexivity|].
  destruct rec as [|f2 rec]; [reflexivity|]. exact IH.
Qed.

Lemma srows_of_wf comma recs :
  delim_ok comma = true ->
  forallb rec_ok recs = true ->
  wf_srows comma true (srows_of comma recs) = true.
Proof.
  intros Hd H. unfold wf_srows. rewrite Hd. simpl. rewrite andb_true_r.
  induction recs as [|rec recs IH]; [reflexivity|].
  simpl in H. apply andb_true_iff in H as [Hr Hrs]. simpl. rewrite IH by exact Hrs. rewrite andb_true_r.
  unfold rec_ok in Hr. apply andb_true_iff in Hr as [H1 H2].
  unfold row_ok. simpl fst. rewrite last_map_sty, H2, andb_true_r.
  apply andb_true_iff. split.
  - destruct rec; [discriminate | reflexivity].
  - apply forallb_forall. intros c Hc. apply in_map_iff in Hc as (f & <- & _). apply sty_cell_ok.
Qed.

(* the character machine reads back exactly the records the writer was given *)
Theorem scan_writer_output comma recs :
  delim_ok comma = true ->
  forallb rec_ok recs = true ->
  stream_scan comma (concat (map (writer_write comma false) recs)) = recs.
Proof.
  intros Hd H. rewrite writer_in_renderer_image.
  pose proof (srows_of_wf comma recs Hd H) as Hwf.
  unfold wf_srows in Hwf. apply andb_true_iff in Hwf as [Hwf Hfin]. apply andb_true_iff in Hwf as [_ Hrows].
  unfold stream_scan. rewrite (rows_scan comma Hd true _ [] Hrows Hfin). simpl.
  apply cells_of_srows_of.
Qed.

(* ---------------------------------------------------------------- itoa / atoi *)

Lemma digit_of_mod n : is_digit (48 + n mod 10) = true /\ 48 + n mod 10 - 48 = n mod 10.
Proof.
  assert (n mod 10 < 10) by (apply N.mod_lt; discriminate).
  unfold is_digit. split; lia.
Qed.

Lemma digits_val_udigits fuel : forall n acc,
  n < 2 ^ N.of_nat fuel ->
  digits_val (udigits fuel n acc) 0 = digits_val acc n.
Proof.
  induction fuel as [|f IH]; intros n acc Hn.
  - simpl in Hn. assert (n = 0) by lia. subst. reflexivity.
  - cbn [udigits]. destruct (digit_of_mod n) as [Hd Hv].
    assert (n = 10 * (n / 10) + n mod 10) as Hdiv by (apply N.div_mod; discriminate).
    destruct (n / 10 =? 0) eqn:E.
    + apply N.eqb_eq in E. cbn [digits_val]. rewrite Hd, Hv. f_equal. lia.
    + rewrite IH.
      * cbn [digits_val]. rewrite Hd, Hv. f_equal. lia.
      * rewrite Nat2N.inj_succ, N.pow_succ_r' in Hn.
        assert (n / 10 <= n / 2) by (apply N.div_le_compat_l; lia).
        assert (n / 2 < 2 ^ N.of_nat f) by (apply N.div_lt_upper_bound; lia).
        lia.
Qed.

Definition hd_digit (l : bytes) : bool := match l with c :: _ => is_digit c | [] => false end.

Lemma udigits_hd fuel : forall n acc,
  (fuel = 0%nat -> hd_digit acc = true) -> hd_digit (udigits fuel n acc) = true.
Proof.
  induction fuel as [|f IH]; intros n acc H; [apply H; reflexivity|].
  cbn [udigits]. destruct (digit_of_mod n) as [Hd _].
  destruct (n / 10 =? 0); [exact Hd|]. apply IH. intros _. exact Hd.
Qed.

Lemma pos_size_gt p : N.pos p < 2 ^ N.of_nat (Pos.size_nat p).
Proof.
  induction p as [p IH|p IH|]; cbn [Pos.size_nat]; rewrite ?Nat2N.inj_succ, ?N.pow_succ_r'; lia.
Qed.

Lemma utoa_val n : digits_val (utoa n) 0 = Some n.
Proof.
  unfold utoa. rewrite digits_val_udigits; [reflexivity|].
  rewrite Nat2N.inj_succ, N.pow_succ_r'.
  assert (n < 2 ^ N.of_nat (N.size_nat n)).
  { destruct n as [|p]; [simpl; lia|]. apply pos_size_gt. }
  lia.
Qed.

Lemma utoa_hd n : hd_digit (utoa n) = true.
Proof. unfold utoa. apply udigits_hd. discriminate. Qed.

Lemma atoi_unsigned l n :
  hd_digit l = true -> digits_val l 0 = Some n -> in_int64 (Z.of_N n) = true ->
  atoi l = Some (Z.of_N n).
Proof.
  intros Hh Hv Hr. destruct l as [|c l]; [discriminate|].
  unfold atoi. simpl in Hh. unfold is_digit in Hh.
  assert (c <> 43 /\ c <> 45) as [H1 H2] by lia.
  destruct c as [|p]; [lia|].
  do 6 (destruct p as [p|p|]; try (exfalso; lia); try (rewrite Hv, Hr; reflexivity)).
Qed.

Theorem atoi_itoa z : in_int64 z = true -> atoi (itoa z) = Some z.
Proof.
  intros Hr. destruct z as [|p|p].
  - reflexivity.
  - simpl itoa. rewrite (atoi_unsigned (utoa (N.pos p)) (N.pos p)); [reflexivity | apply utoa_hd | apply utoa_val | exact Hr].
  - simpl itoa. unfold atoi. pose proof (utoa_hd (N.pos p)) as Hh.
    destruct (utoa (N.pos p)) as [|c l] eqn:E; [discriminate|].
    rewrite <- E, utoa_val. simpl Z.of_N. change (- Z.pos p)%Z with (Z.neg p). rewrite Hr. reflexivity.
Qed.

(* the characters of itoa: digits and '-' *)
Lemma udigits_chars fuel : forall n acc c,
  In c (udigits fuel n acc) -> In c acc \/ is_digit c = true.
Proof.
  induction fuel as [|f IH]; intros n acc c H; [left; exact H|].
  cbn [udigits] in H. destruct (digit_of_mod n) as [Hd _].
  destruct (n / 10 =? 0).
  - destruct H as [<-|H]; [right; exact Hd | left; exact H].
  - apply IH in H as [[<-|H]|H]; [right; exact Hd | left; exact H | right; exact H].
Qed.

Lemma itoa_chars z c : In c (itoa z) -> c = 45 \/ is_digit c = true.
Proof.
  destruct z as [|p|p]; simpl itoa.
  - intros [<-|[]]. right. reflexivity.
  - unfold utoa. intros H. apply udigits_chars in H as [[]|H]. right; exact H.
  - intros [<-|H]; [left; reflexivity|]. unfold utoa in H. apply udigits_chars in H as [[]|H]. right; exact H.
Qed.

Lemma itoa_nonempty z : itoa z <> [].
Proof.
  destruct z as [|p|p]; simpl; try discriminate.
  pose proof (utoa_hd (N.pos p)) as H. destruct (utoa (N.pos p)); [discriminate H | discriminate].
Qed.

Lemma atob_format_bool b : atob (format_bool b) = Some b.
Proof. destruct b; reflexivity. Qed.
