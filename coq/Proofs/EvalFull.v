(* Proofs/EvalFull.v — property C07, the full statement: for every expression tree, QFrame.Eval (Model/Eval.v)
   stores the column denoted by the tree (Corr/FrameCorr.v denote, the oracle the frameops engine uses) in dst,
   removes every temporary column, keeps everything else, and reports every invalid tree through Err. *)
From QF Require Import Base.Prelude Base.CaseLib Model.Frame Model.Filter Model.Ops Model.TableSpec Model.Eval.
From QF Require Import Proofs.OpsProofs Proofs.EvalProofs Proofs.EvalFullBase Proofs.EvalFullTemp Corr.FrameCorr.
Local Open Scope nat_scope.

(* ------------------------------------------------------------------ premises *)

(* the functions of the evaluation context are recorded tables whose results have the declared type, registered
   under their own argument count (SetFunc derives both from the Go function type) *)
Definition fn_ok (two : bool) (fn : afn) : bool :=
  match fn with
  | F1 _ tout tbl => negb two && forallb (fun e => cell_type_ok tout (snd e)) tbl
  | F2 t tbl => two && forallb (fun e => cell_type_ok t (snd e)) tbl
  | _ => false
  end.
Definition ctx_ok (cx : ctx) : bool := forallb (fun e => fn_ok (snd (fst (fst e))) (snd e)) cx.

(* column references and constants of a tree *)
Fixpoint refs (e : expr) : list bytes :=
  match e with
  | XCol n => [n]
  | XConst _ => []
  | XUnary _ c => [c]
  | XColConst _ c _ _ => [c]
  | XColCol _ a b => [a; b]
  | XExpr1 _ e1 => refs e1
  | XExpr2 _ l r => refs l ++ refs r
  | XError => []
  end.
Fixpoint consts (e : expr) : list cell :=
  match e with
  | XConst v => [v]
  | XColConst _ _ v _ => [v]
  | XExpr1 _ e1 => consts e1
  | XExpr2 _ l r => consts l ++ consts r
  | _ => []
  end.

(* a column reference is hygienic when it cannot be captured by a temporary: it names a column of the frame, or it
   does not start with const-temp- / unary-temp- / colcol-temp- *)
Definition hyg (base : frame) (m : bytes) : bool := contains base m || negb (temp_like m).
Definition expr_ok (base : frame) (e : expr) : bool :=
  forallb (hyg base) (refs e) && forallb (fun v => negb (ctype_eqb (cell_ty v) TEnum)) (consts e).

(* how many temporary columns are alive at the same time while the tree is executed *)
Fixpoint temps_needed (e : expr) : nat :=
  match e with
  | XCol _ => 0
  | XConst _ => 1
  | XUnary _ _ => 1
  | XColCol _ _ _ => 1
  | XColConst _ _ _ _ => 2
  | XExpr1 _ e1 => Nat.max (temps_needed e1) 2
  | XExpr2 _ l r => Nat.max (temps_needed l) (Nat.max (S (temps_needed r)) 3)
  | XError => 0
  end.

(* frames the theorem speaks about: no error, pairwise different non-empty column names, every column of the
   physical length n and well formed, index in range *)
Definition gf (n : nat) (f : frame) : Prop :=
  ferr f = false /\ NoDup (col_names f)
  /\ Forall (fun nc => fst nc <> [] /\ colok n (snd nc)) (cols f)
  /\ phys_len f = n /\ Forall (fun p => p < n) (ix f).

(* the frame during execution: the original one plus temporaries *)
Definition rel (base f : frame) : Prop :=
  ix f = ix base /\ forall m, hyg base m = true -> lookup_col f m = lookup_col base m.

Lemma cell_ty_eq c : cell_ty c = cell_ctype c.
Proof. destruct c; reflexivity. Qed.

Lemma col_ftype_eq c : col_ftype c = ftype_of (col_type c).
Proof. unfold col_ftype, ftype_of. destruct (col_type c); reflexivity. Qed.

Lemma ext_cols_length f a c : length (cols (ext f a c)) = S (length (cols f)).
Proof. unfold ext. cbn [cols]. rewrite app_length. simpl. lia. Qed.

Lemma ext_contains_false f a c m : contains (ext f a c) m = false -> m <> a /\ contains f m = false.
Proof.
  intro H. assert (Hne : m <> a).
  { intro; subst. rewrite lookup_col_contains, ext_lookup_same in H. discriminate. }
  split; [exact Hne|]. rewrite <- (ext_contains_other f a c m Hne). exact H.
Qed.

Lemma gf_lookup n f m c : gf n f -> lookup_col f m = Some c -> colok n c /\ m <> [].
Proof.
  intros [_ [_ [Hall _]]] Hl. apply lookup_col_In in Hl. rewrite Forall_forall in Hall.
  destruct (Hall (m, c) Hl) as [H1 H2]. split; assumption.
Qed.

Lemma gf_ext n f name c :
  gf n f -> contains f name = false -> name <> [] -> colok n c -> gf n (ext f name c).
Proof.
  intros [Hf [Hnd [Hall [Hpl Hix]]]] Hc Hne Hok.
  split; [reflexivity|]. split; [apply ext_nodup; assumption|]. split; [|split].
  - unfold ext. cbn [cols]. apply Forall_app. split; [exact Hall|]. constructor; [split; assumption|constructor].
  - unfold phys_len, ext in *. cbn [cols]. destruct (cols f) as [|[m0 c0] rest]; simpl; [|exact Hpl].
    destruct Hok as [Hl _]. exact Hl.
  - exact Hix.
Qed.

Lemma rel_refl base : rel base base.
Proof. split; [reflexivity|intros; reflexivity]. Qed.

Lemma rel_fresh_ne base f m nm :
  rel base f -> hyg base m = true -> contains f nm = false -> temp_like nm = true -> m <> nm.
Proof.
  intros [_ Hr] Hm Hc Ht E. subst m. unfold hyg in Hm. rewrite Ht in Hm. simpl in Hm. rewrite orb_false_r in Hm.
  pose proof (Hr nm ltac:(unfold hyg; rewrite Hm; reflexivity)) as Hl.
  rewrite lookup_col_contains in Hc, Hm. rewrite Hl in Hc. rewrite Hc in Hm. discriminate.
Qed.

Lemma rel_ext base f name c :
  rel base f -> contains f name = false -> temp_like name = true -> rel base (ext f name c).
Proof.
  intros Hr Hc Ht. pose proof Hr as [Hix Hl]. split; [exact Hix|]. intros m Hm.
  rewrite ext_lookup_col_other; [apply Hl; exact Hm|]. apply (rel_fresh_ne base f m name Hr Hm Hc Ht).
Qed.

Lemma get_func_ok cx t two op fn : ctx_ok cx = true -> get_func cx t two op = Some fn -> fn_ok two fn = true.
Proof.
  unfold ctx_ok, get_func. intros Hall H.
  destruct (find _ cx) as [[[[t' two'] n'] fn']|] eqn:E; [|discriminate]. simpl in H. inversion H; subst.
  apply find_some in E as [Hin Hp]. rewrite forallb_forall in Hall. pose proof (Hall _ Hin) as Hok. cbn in Hok, Hp.
  apply andb_true_iff in Hp as [Hp _]. apply andb_true_iff in Hp as [_ Hp]. apply Bool.eqb_prop in Hp. subst. exact Hok.
Qed.

Lemma map_const_len {A B C} (v : C) (l1 : list A) (l2 : list B) :
  length l1 = length l2 -> map (fun _ => v) l1 = map (fun _ => v) l2.
Proof.
  revert l2. induction l1 as [|a l1 IH]; intros [|b l2] H; simpl in *; try discriminate; [reflexivity|].
  f_equal. apply IH. lia.
Qed.

Lemma temp_cases f prefix : (exists name, temp_col_name f prefix = Ok name) \/ temp_col_name f prefix = Panic.
Proof.
  rewrite temp_col_name_tgo. destruct (tgo_cases f prefix (N.to_nat 10000) 0) as [H|[H _]]; [left|right]; exact H.
Qed.

(* ------------------------------------------------------------------ outcomes of one execution step *)

Definition xout := outcome (frame * bytes).

(* a new temporary column was appended to f *)
Definition fresh_out (n : nat) (f : frame) (o : xout) (ty : ctype) (cs : list cell) : Prop :=
  exists name c, o = Ok (ext f name c, name) /\ col_type c = ty /\ colok n c /\ omap (cell_at c) (ix f) = Ok cs
                 /\ contains f name = false /\ temp_like name = true /\ name <> [].

(* pk: under which condition a Panic of the model is an admissible outcome for an invalid tree (it is: when a
   sub-tree is open, i.e. a recorded function table lacks an entry) *)
Definition errs (pk : Prop) (o : xout) : Prop := (pk /\ o = Panic) \/ exists r nm, o = Ok (r, nm) /\ ferr r = true.

Definition sem_fresh (pk : Prop) (n : nat) (f : frame) (o : xout) (d : dres) : Prop :=
  match d with
  | Some (Some (ty, cs)) => fresh_out n f o ty cs
  | Some None => o = Panic
  | None => errs pk o
  end.

Section Steps.
  Variable ut : upper_table.
  Variable cx : ctx.
  Hypothesis Hcx : ctx_ok cx = true.
  Variable pk : Prop.

  Lemma apply_single f i : apply ut f [i] = apply_instr ut f i.
  Proof. reflexivity. Qed.

  Lemma repeat_map_const {A B} (v : B) (l : list A) : repeat v (length l) = map (fun _ => v) l.
  Proof. induction l as [|a l IH]; simpl; [reflexivity|rewrite IH; reflexivity]. Qed.

  Lemma const_type_cell_ty v : cell_ty v <> TEnum -> const_type v = Some (cell_ty v) /\ cell_type_ok (cell_ty v) v = true.
  Proof. destruct v; simpl; intro H; try congruence; split; reflexivity. Qed.

  (* the constant instruction: a constant column when the index covers the columns, otherwise the constant at the
     index positions only; read through the index both give the constant *)
  Lemma apply0_const_col n f v name :
    cell_ty v <> TEnum -> Forall (fun p => p < n) (ix f) ->
    exists c,
      (if Nat.eqb (length (ix f)) n then do col <- const_col v n; Ok (set_column f name col)
       else match const_type v with
            | None => Panic
            | Some t => do cells <- scatter (repeat (zero_cell t) n) (ix f) (repeat v (length (ix f)));
                        do col <- col_of_cells t cells; Ok (set_column f name col)
            end) = Ok (set_column f name c)
      /\ col_type c = cell_ty v /\ colok n c /\ omap (cell_at c) (ix f) = Ok (map (fun _ => v) (ix f)).
  Proof.
    intros Hv Hix. destruct (Nat.eqb (length (ix f)) n).
    - destruct (const_col_spec v n Hv) as [c [Hcc [Hty [Hok Hrd]]]].
      exists c. rewrite Hcc. cbn [obind]. repeat split; try assumption; try apply Hok. apply Hrd. exact Hix.
    - destruct (const_type_cell_ty v Hv) as [Hct Hcok]. rewrite Hct.
      destruct (build_col (fun _ => Ok v) (cell_ty v) n (ix f) (map (fun _ => v) (ix f)) Hv Hix (omap_const v (ix f)))
        as [c [Hc [Hty [Hok Hrd]]]].
      { apply Forall_forall. intros y Hy. apply in_map_iff in Hy as [_ [<- _]]. exact Hcok. }
      exists c. rewrite repeat_map_const.
      destruct (scatter _ (ix f) _) as [cells| |]; cbn [obind] in Hc |- *; try discriminate.
      rewrite Hc. cbn [obind]. repeat split; try assumption; try apply Hok.
  Qed.

  Lemma exec_const_spec n f v :
    gf n f -> cell_ty v <> TEnum -> (N.of_nat (length (cols f)) < 10000)%N ->
    fresh_out n f (exec_const ut f v) (cell_ty v) (map (fun _ => v) (ix f)).
  Proof.
    intros Hg Hv Hb. pose proof Hg as [Hf [Hnd [Hall [Hpl Hix]]]].
    destruct (temp_name_total f p_const Hb) as [name Hname].
    destruct (temp_name_spec f p_const name (or_introl eq_refl) Hname) as [Hc [Htl [Hck Hne]]].
    destruct (apply0_const_col n f v name Hv Hix) as [c [Hcc [Hty [Hok Hrd]]]].
    exists name, c. unfold exec_const. rewrite Hf, Hname. cbn [obind]. rewrite apply_single.
    unfold apply_instr. cbn [isrc1 ifn idst]. change (empty_name []) with true. cbv iota.
    unfold apply0. rewrite Hf, Hpl, Hcc. cbn [obind]. rewrite (set_column_fresh f name c Hf Hc Hck).
    repeat split; try assumption; try apply Hok.
  Qed.

  Lemma exec_unary_unknown f op src :
    ferr f = false -> lookup_col f src = None -> exec_unary ut cx f op src = Ok (with_err f, []).
  Proof. intros Hf Hl. unfold exec_unary, get_fn. rewrite Hf, Hl. reflexivity. Qed.

  Lemma exec_unary_err f op src : ferr f = true -> exec_unary ut cx f op src = Ok (f, []).
  Proof. intros Hf. unfold exec_unary, get_fn. rewrite Hf. cbv iota beta. rewrite Hf. reflexivity. Qed.

  Lemma exec_unary_known n f op src c cells :
    gf n f -> (N.of_nat (length (cols f)) < 10000)%N ->
    lookup_col f src = Some c -> omap (cell_at c) (ix f) = Ok cells ->
    sem_fresh pk n f (exec_unary ut cx f op src) (d_unary cx op (Some (Some (col_type c, cells)))).
  Proof.
    intros Hg Hb Hl Hcells. pose proof Hg as [Hf [Hnd [Hall [Hpl Hix]]]].
    destruct (gf_lookup n f src c Hg Hl) as [[Hclen Hcwf] Hsrc].
    unfold exec_unary, get_fn, d_unary. rewrite Hf, Hl, col_ftype_eq.
    destruct (get_func cx (ftype_of (col_type c)) false op) as [fn|] eqn:G.
    2:{ cbv iota beta. cbn [ferr with_err]. right. exists (with_err f), []. split; reflexivity. }
    pose proof (get_func_ok cx _ _ _ _ Hcx G) as Hfn.
    destruct fn as [| | |tin tout tbl| | |]; try discriminate Hfn. cbn in Hfn.
    cbv iota beta. rewrite Hf.
    destruct (temp_name_total f p_unary Hb) as [name Hname].
    destruct (temp_name_spec f p_unary name (or_intror (or_introl eq_refl)) Hname) as [Hc [Htl [Hck Hne]]].
    rewrite Hname. cbn [obind]. rewrite apply_single. unfold apply_instr. cbn [isrc1 isrc2 ifn idst].
    assert (He : empty_name src = false) by (destruct src; [congruence|reflexivity]).
    rewrite He. change (empty_name []) with true. cbv iota. unfold apply1. rewrite Hf, Hl.
    rewrite <- col_ftype_eq.
    destruct (ctype_eqb (col_ftype c) tin && negb (ctype_eqb tout TEnum)) eqn:Echk.
    - destruct (omap (tbl1 tbl) cells) as [out| |] eqn:Eo.
      + destruct (col_apply1_ok ut c tin tout tbl (ix f) n cells out Echk Hclen Hix Hcells Hfn Eo)
          as [c' [Hc' [Hty' [Hok' Hrd']]]].
        rewrite Hc'. cbn [obind]. rewrite (set_column_fresh f name c' Hf Hc Hck).
        exists name, c'. repeat split; try assumption; apply Hok'.
      + rewrite (col_apply1_open ut c tin tout tbl (ix f) cells Echk Hcells); [reflexivity|]. intros out Ho. congruence.
      + rewrite (col_apply1_open ut c tin tout tbl (ix f) cells Echk Hcells); [reflexivity|]. intros out Ho. congruence.
    - rewrite (col_apply1_mismatch ut c tin tout tbl (ix f) Echk). cbn [obind].
      right. exists (with_err f), name. split; reflexivity.
  Qed.

  Lemma exec_colcol_unknown1 f op s1 s2 :
    ferr f = false -> lookup_col f s1 = None -> exec_colcol ut cx f op s1 s2 = Ok (with_err f, []).
  Proof. intros Hf Hl. unfold exec_colcol, get_fn. rewrite Hf, Hl. reflexivity. Qed.

  Lemma exec_colcol_err f op s1 s2 : ferr f = true -> exec_colcol ut cx f op s1 s2 = Ok (f, []).
  Proof. intros Hf. unfold exec_colcol, get_fn. rewrite Hf. cbv iota beta. rewrite Hf. reflexivity. Qed.

  Lemma exec_colcol_unknown2 n f op s1 s2 c1 :
    gf n f -> (N.of_nat (length (cols f)) < 10000)%N ->
    lookup_col f s1 = Some c1 -> lookup_col f s2 = None -> errs pk (exec_colcol ut cx f op s1 s2).
  Proof.
    intros Hg Hb Hl1 Hl2. pose proof Hg as [Hf _].
    destruct (gf_lookup n f s1 c1 Hg Hl1) as [_ Hs1].
    unfold exec_colcol, get_fn. rewrite Hf, Hl1.
    destruct (get_func cx (col_ftype c1) true op) as [fn|] eqn:G.
    2:{ cbv iota beta. cbn [ferr with_err]. right. exists (with_err f), []. split; reflexivity. }
    pose proof (get_func_ok cx _ _ _ _ Hcx G) as Hfn.
    destruct fn as [| | | |t tbl| |]; try discriminate Hfn.
    cbv iota beta. rewrite Hf.
    destruct (temp_name_total f p_colcol Hb) as [name Hname].
    rewrite Hname. cbn [obind]. rewrite apply_single. unfold apply_instr. cbn [isrc1 isrc2 ifn idst].
    assert (He : empty_name s1 = false) by (destruct s1; [congruence|reflexivity]).
    rewrite He. right. exists (with_err f), name.
    destruct (empty_name s2).
    - unfold apply1. rewrite Hf, Hl1. cbn [col_apply1 obind]. split; reflexivity.
    - unfold apply2. rewrite Hf, Hl1, Hl2. cbn [obind]. split; reflexivity.
  Qed.

  Lemma exec_colcol_known n f op s1 s2 c1 c2 cells1 cells2 :
    gf n f -> (N.of_nat (length (cols f)) < 10000)%N ->
    lookup_col f s1 = Some c1 -> lookup_col f s2 = Some c2 ->
    omap (cell_at c1) (ix f) = Ok cells1 -> omap (cell_at c2) (ix f) = Ok cells2 ->
    sem_fresh pk n f (exec_colcol ut cx f op s1 s2)
              (d_binary cx op (Some (Some (col_type c1, cells1))) (Some (Some (col_type c2, cells2)))).
  Proof.
    intros Hg Hb Hl1 Hl2 Hcells1 Hcells2. pose proof Hg as [Hf [Hnd [Hall [Hpl Hix]]]].
    destruct (gf_lookup n f s1 c1 Hg Hl1) as [[Hclen Hcwf] Hs1].
    destruct (gf_lookup n f s2 c2 Hg Hl2) as [_ Hs2].
    unfold exec_colcol, get_fn, d_binary. rewrite Hf, Hl1, col_ftype_eq.
    destruct (get_func cx (ftype_of (col_type c1)) true op) as [fn|] eqn:G.
    2:{ cbv iota beta. cbn [ferr with_err]. right. exists (with_err f), []. split; reflexivity. }
    pose proof (get_func_ok cx _ _ _ _ Hcx G) as Hfn.
    destruct fn as [| | | |t tbl| |]; try discriminate Hfn. cbn in Hfn.
    cbv iota beta. rewrite Hf.
    destruct (temp_name_total f p_colcol Hb) as [name Hname].
    destruct (temp_name_spec f p_colcol name (or_intror (or_intror eq_refl)) Hname) as [Hc [Htl [Hck Hne]]].
    rewrite Hname. cbn [obind]. rewrite apply_single. unfold apply_instr. cbn [isrc1 isrc2 ifn idst].
    assert (He1 : empty_name s1 = false) by (destruct s1; [congruence|reflexivity]).
    assert (He2 : empty_name s2 = false) by (destruct s2; [congruence|reflexivity]).
    rewrite He1, He2. unfold apply2. rewrite Hf, Hl1, Hl2.
    rewrite <- col_ftype_eq.
    destruct (ctype_eqb (col_type c1) (col_type c2) && ctype_eqb (col_ftype c1) t) eqn:Echk.
    - destruct (omap (fun xy => tbl2 tbl (fst xy) (snd xy)) (combine cells1 cells2)) as [out| |] eqn:Eo.
      + destruct (col_apply2_ok c1 c2 t tbl (ix f) n cells1 cells2 out Echk Hclen Hix Hcells1 Hcells2 Hfn Eo)
          as [c' [Hc' [Hty' [Hok' Hrd']]]].
        rewrite Hc'. cbn [obind]. rewrite (set_column_fresh f name c' Hf Hc Hck).
        exists name, c'. repeat split; try assumption; apply Hok'.
      + rewrite (col_apply2_open c1 c2 t tbl (ix f) cells1 cells2 Echk Hcells1 Hcells2); [reflexivity|].
        intros out Ho. congruence.
      + rewrite (col_apply2_open c1 c2 t tbl (ix f) cells1 cells2 Echk Hcells1 Hcells2); [reflexivity|].
        intros out Ho. congruence.
    - rewrite (col_apply2_mismatch c1 c2 t tbl (ix f) Echk). cbn [obind].
      right. exists (with_err f), name. split; reflexivity.
  Qed.
End Steps.

(* ------------------------------------------------------------------ outcomes of executing a tree *)

(* the value of the tree is available as column `name` of the returned frame: either the frame is unchanged and
   `name` is one of its original columns, or exactly one temporary column was appended *)
Definition step_of (base f r : frame) (name : bytes) (c : coldata) : Prop :=
  (r = f /\ lookup_col f name = Some c /\ contains base name = true)
  \/ (r = ext f name c /\ contains f name = false /\ temp_like name = true /\ name <> []).

Definition produces (n : nat) (base f : frame) (o : xout) (ty : ctype) (cs : list cell) : Prop :=
  exists r name c, o = Ok (r, name) /\ col_type c = ty /\ colok n c /\ omap (cell_at c) (ix f) = Ok cs
    /\ step_of base f r name c.

(* an invalid tree: Err is set, or the frame is returned unchanged together with a name that is not a column
   (a reference to an unknown column; whoever consumes the name sets Err) *)
Definition errish (pk : Prop) (base f : frame) (o : xout) : Prop :=
  errs pk o \/ exists nm, o = Ok (f, nm) /\ lookup_col f nm = None /\ hyg base nm = true.

Definition sem (pk : Prop) (n : nat) (base f : frame) (o : xout) (d : dres) : Prop :=
  match d with
  | Some (Some (ty, cs)) => produces n base f o ty cs
  | Some None => o = Panic
  | None => errish pk base f o
  end.

Lemma drop_err r names : ferr r = true -> drop r names = r.
Proof. intro H. unfold drop. rewrite H. reflexivity. Qed.

Lemma drop_unless_err orig r names : ferr r = true -> drop_unless_original orig r names = r.
Proof. intro H. unfold drop_unless_original. apply drop_err. exact H. Qed.

Lemma drop_ext1 f a ca name c :
  NoDup (col_names (ext (ext f a ca) name c)) -> drop (ext (ext f a ca) name c) [a] = ext f name c.
Proof.
  intro H. unfold ext, col_names in *. cbn [cols ix] in *. rewrite <- app_assoc in *.
  apply (drop_middle (cols f) [(a, ca)] [(name, c)] (ix f) H); [discriminate|].
  intro E. apply app_eq_nil in E as [_ E]. discriminate.
Qed.

Lemma drop_ext2 f a ca b cb name c :
  NoDup (col_names (ext (ext (ext f a ca) b cb) name c)) ->
  drop (ext (ext (ext f a ca) b cb) name c) [a; b] = ext f name c.
Proof.
  intro H. unfold ext, col_names in *. cbn [cols ix] in *. rewrite <- !app_assoc in *.
  apply (drop_middle (cols f) [(a, ca); (b, cb)] [(name, c)] (ix f) H); [discriminate|].
  intro E. apply app_eq_nil in E as [_ E]. discriminate.
Qed.

Lemma drop_nil f : ferr f = false -> drop f [] = f.
Proof. intro H. unfold drop. rewrite H. reflexivity. Qed.

Section Tree.
  Variable ut : upper_table.
  Variable cx : ctx.
  Hypothesis Hcx : ctx_ok cx = true.
  Variable pk : Prop.
  Variable n : nat.
  Variable base : frame.

  Lemma fresh_produces f o ty cs : fresh_out n f o ty cs -> produces n base f o ty cs.
  Proof.
    intros [name [c [Ho [Hty [Hok [Hrd [Hc [Ht Hne]]]]]]]]. exists (ext f name c), name, c.
    repeat split; try assumption; try apply Hok. right. repeat split; assumption.
  Qed.

  Lemma execute_err e : forall f, ferr f = true -> exists nm, execute ut cx e f = Ok (f, nm).
  Proof.
    induction e as [m|v|op c|op c v cf|op c1 c2|op e1 IH1|op l IHl r IHr|]; intros f Hf; cbn [execute].
    - eexists; reflexivity.
    - unfold exec_const. rewrite Hf. eexists; reflexivity.
    - rewrite (exec_unary_err ut cx f op c Hf). eexists; reflexivity.
    - rewrite Hf. eexists; reflexivity.
    - rewrite (exec_colcol_err ut cx f op c1 c2 Hf). eexists; reflexivity.
    - destruct (IH1 f Hf) as [nm H1]. rewrite H1. cbn [obind]. cbv iota beta.
      rewrite (exec_unary_err ut cx f op nm Hf). cbn [obind]. cbv iota beta.
      rewrite (drop_err f [nm] Hf). destruct (contains f nm); eexists; reflexivity.
    - destruct (IHl f Hf) as [ln H1]. rewrite H1. cbn [obind]. cbv iota beta.
      destruct (IHr f Hf) as [rn H2]. rewrite H2. cbn [obind]. cbv iota beta.
      rewrite (exec_colcol_err ut cx f op ln rn Hf). cbn [obind]. cbv iota beta.
      rewrite (drop_unless_err f f _ Hf). eexists; reflexivity.
    - rewrite Hf. eexists; reflexivity.
  Qed.

  (* exprExpr1.execute after its operand *)
  Lemma expr1_step f op (o1 : xout) d1 :
    gf n f -> rel base f -> (N.of_nat (length (cols f) + 2) <= 10000)%N ->
    sem pk n base f o1 d1 ->
    sem_fresh pk n f
        (do r1 <- o1;
         let '(r, tmp) := r1 in
         do rr <- exec_unary ut cx r op tmp;
         let '(r', name) := rr in
         Ok (if contains f tmp then r' else drop r' [tmp], name))
        (d_unary cx op d1).
  Proof.
    intros Hg Hr Hb Hs. pose proof Hg as [Hf [Hnd _]].
    destruct d1 as [[[ty1 cs1]|]|]; cbn [sem] in Hs.
    - destruct Hs as [r [tmp [c1 [Ho [Hty [Hok [Hrd Hcase]]]]]]]. rewrite Ho. cbn [obind]. cbv iota beta.
      destruct Hcase as [[-> [Hl Hcb]]|[-> [Hcf [Htl Hne]]]].
      + assert (Hb' : (N.of_nat (length (cols f)) < 10000)%N) by lia.
        pose proof (exec_unary_known ut cx Hcx pk n f op tmp c1 cs1 Hg Hb' Hl Hrd) as Hu. rewrite Hty in Hu.
        assert (Hct : contains f tmp = true) by (rewrite lookup_col_contains, Hl; reflexivity).
        rewrite Hct.
        destruct (d_unary cx op (Some (Some (ty1, cs1)))) as [[[ty cs]|]|]; cbn [sem sem_fresh] in *.
        * pose proof Hu as [name [c [Ho2 _]]]. rewrite Ho2. cbn [obind]. cbv iota beta. rewrite <- Ho2.
          exact Hu.
        * rewrite Hu. reflexivity.
        * destruct Hu as [[Hpk Hu]|[r' [nm [Hu He]]]]; rewrite Hu; cbn [obind]; cbv iota beta.
          -- left. split; [exact Hpk|reflexivity].
          -- right. exists r', nm. split; [reflexivity|exact He].
      + pose proof (gf_ext n f tmp c1 Hg Hcf Hne Hok) as Hg1.
        assert (Hb' : (N.of_nat (length (cols (ext f tmp c1))) < 10000)%N) by (rewrite ext_cols_length; lia).
        pose proof (exec_unary_known ut cx Hcx pk n (ext f tmp c1) op tmp c1 cs1 Hg1 Hb' (ext_lookup_same f tmp c1) Hrd) as Hu.
        rewrite Hty in Hu. rewrite Hcf.
        destruct (d_unary cx op (Some (Some (ty1, cs1)))) as [[[ty cs]|]|]; cbn [sem sem_fresh] in *.
        * destruct Hu as [name [c [Ho2 [Hty2 [Hok2 [Hrd2 [Hc2 [Ht2 Hne2]]]]]]]].
          rewrite Ho2. cbn [obind]. cbv iota beta.
          rewrite drop_ext1 by (apply ext_nodup; [apply ext_nodup; assumption|exact Hc2]).
          destruct (ext_contains_false f tmp c1 name Hc2) as [_ Hc3].
          exists name, c. repeat split; try assumption; apply Hok2.
        * rewrite Hu. reflexivity.
        * destruct Hu as [[Hpk Hu]|[r' [nm [Hu He]]]]; rewrite Hu; cbn [obind]; cbv iota beta.
          -- left. split; [exact Hpk|reflexivity].
          -- right. exists r', nm. split; [rewrite (drop_err r' [tmp] He); reflexivity|exact He].
    - rewrite Hs. reflexivity.
    - cbn [d_unary sem_fresh]. destruct Hs as [[[Hpk Hs]|[r [nm [Hs He]]]]|[nm [Hs [Hl Hh]]]]; rewrite Hs; cbn [obind]; cbv iota beta.
      + left. split; [exact Hpk|reflexivity].
      + rewrite (exec_unary_err ut cx r op nm He). cbn [obind]. cbv iota beta.
        right. exists r, []. split; [rewrite (drop_err r [nm] He); destruct (contains f nm); reflexivity|exact He].
      + rewrite (exec_unary_unknown ut cx f op nm Hf Hl). cbn [obind]. cbv iota beta.
        right. exists (with_err f), []. split; [|reflexivity].
        rewrite (drop_err (with_err f) [nm] eq_refl). destruct (contains f nm); reflexivity.
  Qed.

  Lemma step_frame f r name c :
    gf n f -> rel base f -> colok n c -> step_of base f r name c ->
    gf n r /\ rel base r /\ lookup_col r name = Some c /\ ix r = ix f
    /\ length (cols r) <= S (length (cols f))
    /\ (forall m c', lookup_col f m = Some c' -> lookup_col r m = Some c').
  Proof.
    intros Hg Hr Hok [[-> [Hl Hcb]]|[-> [Hcf [Htl Hne]]]].
    - split; [exact Hg|]. split; [exact Hr|]. split; [exact Hl|]. split; [reflexivity|]. split; [lia|]. auto.
    - split; [apply gf_ext; assumption|]. split; [apply rel_ext; assumption|].
      split; [apply ext_lookup_same|]. split; [reflexivity|]. split; [rewrite ext_cols_length; lia|].
      intros m c' Hm. rewrite ext_lookup_col_other; [exact Hm|]. intro; subst.
      rewrite lookup_col_contains, Hm in Hcf. discriminate.
  Qed.

  Lemma drop_unless_2 f fl fr ln cl rn cr name c :
    gf n f -> rel base f -> step_of base f fl ln cl -> step_of base fl fr rn cr -> contains fr name = false ->
    drop_unless_original f (ext fr name c) [ln; rn] = ext f name c /\ contains f name = false.
  Proof.
    intros Hg Hr HL HR Hc. pose proof Hg as [Hf [Hnd _]]. unfold drop_unless_original. cbn [filter].
    destruct HL as [[-> [Hl Hcb]]|[-> [Hcf [Htl Hne]]]].
    - assert (H1 : contains f ln = true) by (rewrite lookup_col_contains, Hl; reflexivity). rewrite H1. cbn [negb].
      destruct HR as [[-> [Hl2 Hcb2]]|[-> [Hcf2 [Htl2 Hne2]]]].
      + assert (H2 : contains f rn = true) by (rewrite lookup_col_contains, Hl2; reflexivity). rewrite H2. cbn [negb].
        split; [apply drop_nil; reflexivity|exact Hc].
      + rewrite Hcf2. cbn [negb]. split.
        * apply drop_ext1. apply ext_nodup; [apply ext_nodup; assumption|exact Hc].
        * apply (ext_contains_false f rn cr name Hc).
    - rewrite Hcf. cbn [negb].
      destruct HR as [[-> [Hl2 Hcb2]]|[-> [Hcf2 [Htl2 Hne2]]]].
      + assert (H2 : contains f rn = true).
        { destruct Hr as [_ Hr]. rewrite lookup_col_contains, (Hr rn) by (unfold hyg; rewrite Hcb2; reflexivity).
          rewrite <- lookup_col_contains. exact Hcb2. }
        rewrite H2. cbn [negb]. split.
        * apply drop_ext1. apply ext_nodup; [apply ext_nodup; assumption|exact Hc].
        * apply (ext_contains_false f ln cl name Hc).
      + destruct (ext_contains_false f ln cl rn Hcf2) as [_ H2]. rewrite H2. cbn [negb]. split.
        * apply drop_ext2. apply ext_nodup; [apply ext_nodup; [apply ext_nodup; assumption|exact Hcf2]|exact Hc].
        * destruct (ext_contains_false _ rn cr name Hc) as [_ H3]. apply (ext_contains_false f ln cl name H3).
  Qed.

  (* exprExpr2.execute after its left operand; the right operand runs on the frame the left one returned *)
  Lemma expr2_step f op (ol : xout) (exr : frame -> xout) dl dr :
    gf n f -> rel base f -> (N.of_nat (length (cols f) + 3) <= 10000)%N ->
    (dl = Some None -> pk) -> (dr = Some None -> pk) ->
    sem pk n base f ol dl ->
    (forall fl, gf n fl -> rel base fl -> length (cols fl) <= S (length (cols f)) -> sem pk n base fl (exr fl) dr) ->
    (forall fl, ferr fl = true -> exists nm, exr fl = Ok (fl, nm)) ->
    sem_fresh pk n f
        (do rl <- ol;
         let '(fl, lname) := rl in
         do rr <- exr fl;
         let '(fr, rname) := rr in
         do rc <- exec_colcol ut cx fr op lname rname;
         let '(f', name) := rc in
         Ok (drop_unless_original f f' [lname; rname], name))
        (d_binary cx op dl dr).
  Proof.
    intros Hg Hr Hb Hopl Hopr Hsl Hexr Hexr_err. pose proof Hg as [Hf [Hnd _]].
    destruct dl as [[[tyl csl]|]|]; cbn [sem] in Hsl.
    - (* the left operand has a value *)
      destruct Hsl as [fl [ln [cl [Ho [Htyl [Hokl [Hrdl HL]]]]]]]. rewrite Ho. cbn [obind]. cbv iota beta.
      destruct (step_frame f fl ln cl Hg Hr Hokl HL) as [Hgl [Hrl [Hll [Hixl [Hlenl Hkeepl]]]]].
      pose proof (Hexr fl Hgl Hrl Hlenl) as Hsr.
      destruct dr as [[[tyr csr]|]|]; cbn [sem] in Hsr.
      + destruct Hsr as [fr [rn [cr [Ho2 [Htyr [Hokr [Hrdr HR]]]]]]]. rewrite Ho2. cbn [obind]. cbv iota beta.
        destruct (step_frame fl fr rn cr Hgl Hrl Hokr HR) as [Hgr [Hrr [Hlr [Hixr [Hlenr Hkeepr]]]]].
        assert (Hb' : (N.of_nat (length (cols fr)) < 10000)%N) by lia.
        rewrite <- Hixl in Hrdl. rewrite <- Hixr in Hrdl, Hrdr.
        pose proof (exec_colcol_known ut cx Hcx pk n fr op ln rn cl cr csl csr Hgr Hb' (Hkeepr ln cl Hll) Hlr Hrdl Hrdr) as Hk.
        rewrite Htyl, Htyr in Hk.
        destruct (d_binary cx op (Some (Some (tyl, csl))) (Some (Some (tyr, csr)))) as [[[ty cs]|]|]; cbn [sem sem_fresh] in *.
        * destruct Hk as [name [c [Ho3 [Hty3 [Hok3 [Hrd3 [Hc3 [Ht3 Hne3]]]]]]]].
          rewrite Ho3. cbn [obind]. cbv iota beta.
          destruct (drop_unless_2 f fl fr ln cl rn cr name c Hg Hr HL HR Hc3) as [Hd Hcf].
          rewrite Hd. exists name, c. rewrite Hixr, Hixl in Hrd3.
          repeat split; try assumption; apply Hok3.
        * rewrite Hk. reflexivity.
        * destruct Hk as [[Hpk Hk]|[r' [nm [Hk He]]]]; rewrite Hk; cbn [obind]; cbv iota beta.
          -- left. split; [exact Hpk|reflexivity].
          -- right. exists r', nm. split; [rewrite (drop_unless_err f r' _ He); reflexivity|exact He].
      + rewrite Hsr. reflexivity.
      + cbn [d_binary sem_fresh].
        destruct Hsr as [[[Hpk Hsr]|[fr [rn [Hsr He]]]]|[rn [Hsr [Hlr Hh]]]]; rewrite Hsr; cbn [obind]; cbv iota beta.
        * left. split; [exact Hpk|reflexivity].
        * rewrite (exec_colcol_err ut cx fr op ln rn He). cbn [obind]. cbv iota beta.
          right. exists fr, []. split; [rewrite (drop_unless_err f fr _ He); reflexivity|exact He].
        * destruct (exec_colcol_unknown2 ut cx Hcx pk n fl op ln rn cl Hgl ltac:(lia) Hll Hlr) as [[Hpk Hk]|[r' [nm [Hk He]]]];
            rewrite Hk; cbn [obind]; cbv iota beta.
          -- left. split; [exact Hpk|reflexivity].
          -- right. exists r', nm. split; [rewrite (drop_unless_err f r' _ He); reflexivity|exact He].
    - (* the left operand is open: a table lookup missed *)
      rewrite Hsl. destruct dr as [[[tyr csr]|]|]; cbn [d_binary sem_fresh obind]; try reflexivity.
      left. split; [apply Hopl; reflexivity|reflexivity].
    - (* the left operand is invalid *)
      assert (Hd : d_binary cx op None dr = None) by (destruct dr as [[[tyr csr]|]|]; reflexivity).
      rewrite Hd. cbn [sem_fresh].
      destruct Hsl as [[[Hpk Hsl]|[fl [ln [Hsl He]]]]|[ln [Hsl [Hll Hh]]]]; rewrite Hsl; cbn [obind]; cbv iota beta.
      + left. split; [exact Hpk|reflexivity].
      + destruct (Hexr_err fl He) as [rn Hx]. rewrite Hx. cbn [obind]. cbv iota beta.
        rewrite (exec_colcol_err ut cx fl op ln rn He). cbn [obind]. cbv iota beta.
        right. exists fl, []. split; [rewrite (drop_unless_err f fl _ He); reflexivity|exact He].
      + pose proof (Hexr f Hg Hr ltac:(lia)) as Hsr.
        destruct dr as [[[tyr csr]|]|]; cbn [sem] in Hsr.
        * destruct Hsr as [fr [rn [cr [Ho2 [Htyr [Hokr [Hrdr HR]]]]]]]. rewrite Ho2. cbn [obind]. cbv iota beta.
          destruct (step_frame f fr rn cr Hg Hr Hokr HR) as [[Hfr _] _].
          assert (Hlr : lookup_col fr ln = None).
          { destruct HR as [[-> _]|[-> [Hcf [Htl Hne]]]]; [exact Hll|].
            rewrite ext_lookup_col_other; [exact Hll|]. apply (rel_fresh_ne base f ln rn Hr Hh Hcf Htl). }
          rewrite (exec_colcol_unknown1 ut cx fr op ln rn Hfr Hlr). cbn [obind]. cbv iota beta.
          right. exists (with_err fr), []. split; [rewrite (drop_unless_err f (with_err fr) _ eq_refl); reflexivity|reflexivity].
        * rewrite Hsr. left. split; [apply Hopr; reflexivity|reflexivity].
        * destruct Hsr as [[[Hpk Hsr]|[fr [rn [Hsr He]]]]|[rn [Hsr [Hlr Hh2]]]]; rewrite Hsr; cbn [obind]; cbv iota beta.
          -- left. split; [exact Hpk|reflexivity].
          -- rewrite (exec_colcol_err ut cx fr op ln rn He). cbn [obind]. cbv iota beta.
             right. exists fr, []. split; [rewrite (drop_unless_err f fr _ He); reflexivity|exact He].
          -- rewrite (exec_colcol_unknown1 ut cx f op ln rn Hf Hll). cbn [obind]. cbv iota beta.
             right. exists (with_err f), []. split; [rewrite (drop_unless_err f (with_err f) _ eq_refl); reflexivity|reflexivity].
  Qed.
End Tree.

(* ------------------------------------------------------------------ every tree *)

Definition is_open (d : dres) : bool := match d with Some None => true | _ => false end.

Section Main.
  Variable ut : upper_table.
  Variable cx : ctx.
  Hypothesis Hcx : ctx_ok cx = true.
  Variable pk : Prop.
  Variable n : nat.
  Variable base : frame.
  Variable t : table.
  Hypothesis Hgb : gf n base.
  Hypothesis Habs : abs base = Ok t.

  Lemma sem_fresh_sem f o d : sem_fresh pk n f o d -> sem pk n base f o d.
  Proof.
    destruct d as [[[ty cs]|]|]; cbn [sem sem_fresh]; intro H; [apply fresh_produces; exact H|exact H|left; exact H].
  Qed.

  (* a hygienic column reference resolves in the current frame exactly as in the table of the original frame *)
  Lemma leaf_col f m :
    rel base f -> hyg base m = true ->
    match lookup_col f m with
    | Some c => (exists cs, omap (cell_at c) (ix f) = Ok cs /\ tcolumn t m = Some (col_type c, cs))
                /\ contains base m = true
    | None => tcolumn t m = None
    end.
  Proof.
    intros [Hix Hl] Hm. rewrite (Hl m Hm), Hix. unfold lookup_col, contains.
    destruct (lookup base m) as [[p c]|] eqn:E; cbn [option_map snd].
    - split; [apply (tcolumn_abs base t m p c Habs E)|reflexivity].
    - apply (tcolumn_abs_none base t m Habs). unfold lookup_col. rewrite E. reflexivity.
  Qed.

  Lemma colconst_finish f cname cc o d :
    gf n f -> contains f cname = false -> sem_fresh pk n (ext f cname cc) o d ->
    sem_fresh pk n f (do rr <- o; let '(r', name) := rr in Ok (drop r' [cname], name)) d.
  Proof.
    intros Hg Hc Hs. pose proof Hg as [Hf [Hnd _]].
    destruct d as [[[ty cs]|]|]; cbn [sem sem_fresh] in *.
    - destruct Hs as [name [c [Ho [Hty [Hok [Hrd [Hc2 [Ht Hne]]]]]]]]. rewrite Ho. cbn [obind]. cbv iota beta.
      rewrite drop_ext1 by (apply ext_nodup; [apply ext_nodup; assumption|exact Hc2]).
      destruct (ext_contains_false f cname cc name Hc2) as [_ Hc3].
      exists name, c. repeat split; try assumption; apply Hok.
    - rewrite Hs. reflexivity.
    - destruct Hs as [[Hpk Hs]|[r' [nm [Hs He]]]]; rewrite Hs; cbn [obind]; cbv iota beta.
      + left. split; [exact Hpk|reflexivity].
      + right. exists r', nm. split; [rewrite (drop_err r' _ He); reflexivity|exact He].
  Qed.

  Lemma nrows f : rel base f -> length (trows t) = length (ix f).
  Proof. intros [Hix _]. rewrite Hix. apply (abs_nrows base t Habs). Qed.

  (* some sub-tree is open: a recorded function table has no entry for an argument that occurs *)
  Fixpoint has_open (e : expr) : bool :=
    match e with
    | XExpr1 _ e1 => has_open e1 || is_open (denote cx t e1)
    | XExpr2 _ l r => has_open l || has_open r || is_open (denote cx t l) || is_open (denote cx t r)
    | _ => false
    end.

  (* a column reference returns the frame unchanged; every other tree appends exactly one temporary *)
  Definition sem_tree (e : expr) (f : frame) (o : xout) (d : dres) : Prop :=
    match e with XCol _ => sem pk n base f o d | _ => sem_fresh pk n f o d end.

  Lemma sem_tree_sem e f o d : sem_tree e f o d -> sem pk n base f o d.
  Proof. destruct e; cbn [sem_tree]; intro H; try exact H; apply sem_fresh_sem; exact H. Qed.

  Theorem execute_spec e : forall f,
    gf n f -> rel base f -> expr_ok base e = true ->
    (N.of_nat (length (cols f) + temps_needed e) <= 10000)%N ->
    (has_open e = true -> pk) ->
    sem_tree e f (execute ut cx e f) (denote cx t e).
  Proof.
    induction e as [m|v|op c|op c v cf|op c1 c2|op e1 IH1|op l IHl r IHr|]; intros f Hg Hr Hok Hb Hop;
      pose proof Hg as [Hf [Hnd _]]; unfold expr_ok in Hok; cbn [refs consts forallb temps_needed] in Hok, Hb;
      cbn [execute denote sem_tree].
    - (* column *)
      rewrite !andb_true_r in Hok. pose proof (leaf_col f m Hr Hok) as Hlc.
      destruct (lookup_col f m) as [c|] eqn:El.
      + destruct Hlc as [[cs [Hrd Htc]] Hcb]. rewrite Htc. cbn [sem].
        exists f, m, c. destruct (gf_lookup n f m c Hg El) as [Hokc _].
        repeat split; try assumption; try apply Hokc. left. repeat split; assumption.
      + rewrite Hlc. cbn [sem]. right. exists m. repeat split; assumption.
    - (* constant *)
      cbn in Hok. rewrite andb_true_r in Hok. apply negb_true_iff in Hok.
      assert (Hv : cell_ty v <> TEnum) by (intro E; rewrite E in Hok; discriminate).
      cbn [sem_fresh]. rewrite <- cell_ty_eq, (map_const_len v (trows t) (ix f) (nrows f Hr)).
      apply exec_const_spec; [exact Hg|exact Hv|lia].
    - (* function of one column *)
      rewrite !andb_true_r in Hok. pose proof (leaf_col f c Hr Hok) as Hlc.
      destruct (lookup_col f c) as [col|] eqn:El.
      + destruct Hlc as [[cs [Hrd Htc]] _]. rewrite Htc.
        apply (exec_unary_known ut cx Hcx pk n f op c col cs Hg ltac:(lia) El Hrd).
      + rewrite Hlc. cbn [d_unary sem_fresh]. rewrite (exec_unary_unknown ut cx f op c Hf El).
        right. exists (with_err f), []. split; reflexivity.
    - (* column and constant, either order *)
      cbn in Hok. rewrite !andb_true_r in Hok. apply andb_true_iff in Hok as [Hh Hv']. apply negb_true_iff in Hv'.
      assert (Hv : cell_ty v <> TEnum) by (intro E; rewrite E in Hv'; discriminate).
      rewrite Hf.
      destruct (exec_const_spec ut n f v Hg Hv ltac:(lia)) as [cname [cc [Hoc [Htyc [Hokc [Hrdc [Hcc [Htlc Hnec]]]]]]]].
      rewrite Hoc. cbn [obind]. cbv iota beta.
      pose proof (gf_ext n f cname cc Hg Hcc Hnec Hokc) as Hg1.
      pose proof (rel_ext base f cname cc Hr Hcc Htlc) as Hr1.
      assert (Hb1 : (N.of_nat (length (cols (ext f cname cc))) < 10000)%N) by (rewrite ext_cols_length; lia).
      pose proof (leaf_col (ext f cname cc) c Hr1 Hh) as Hlc.
      rewrite <- cell_ty_eq, (map_const_len v (trows t) (ix f) (nrows f Hr)).
      apply colconst_finish with (cc := cc); [exact Hg|exact Hcc|].
      destruct (lookup_col (ext f cname cc) c) as [col|] eqn:El.
      + destruct Hlc as [[cs [Hrd Htc]] _]. rewrite Htc. rewrite <- Htyc.
        destruct cf.
        * apply (exec_colcol_known ut cx Hcx pk n (ext f cname cc) op cname c cc col _ cs Hg1 Hb1 (ext_lookup_same f cname cc) El Hrdc Hrd).
        * apply (exec_colcol_known ut cx Hcx pk n (ext f cname cc) op c cname col cc cs _ Hg1 Hb1 El (ext_lookup_same f cname cc) Hrd Hrdc).
      + rewrite Hlc. destruct cf; cbn [d_binary sem_fresh].
        * apply (exec_colcol_unknown2 ut cx Hcx pk n (ext f cname cc) op cname c cc Hg1 Hb1 (ext_lookup_same f cname cc) El).
        * rewrite (exec_colcol_unknown1 ut cx (ext f cname cc) op c cname eq_refl El).
          right. exists (with_err (ext f cname cc)), []. split; reflexivity.
    - (* function of two columns *)
      rewrite !andb_true_r in Hok. apply andb_true_iff in Hok as [Hh1 Hh2].
      pose proof (leaf_col f c1 Hr Hh1) as Hlc1. pose proof (leaf_col f c2 Hr Hh2) as Hlc2.
      destruct (lookup_col f c1) as [col1|] eqn:El1.
      + destruct Hlc1 as [[cs1 [Hrd1 Htc1]] _]. rewrite Htc1.
        destruct (lookup_col f c2) as [col2|] eqn:El2.
        * destruct Hlc2 as [[cs2 [Hrd2 Htc2]] _]. rewrite Htc2.
          apply (exec_colcol_known ut cx Hcx pk n f op c1 c2 col1 col2 cs1 cs2 Hg ltac:(lia) El1 El2 Hrd1 Hrd2).
        * rewrite Hlc2. cbn [d_binary sem_fresh].
          apply (exec_colcol_unknown2 ut cx Hcx pk n f op c1 c2 col1 Hg ltac:(lia) El1 El2).
      + rewrite Hlc1. assert (Hd : forall b, d_binary cx op None b = None) by (intros [[[? ?]|]|]; reflexivity).
        rewrite Hd. cbn [sem_fresh]. rewrite (exec_colcol_unknown1 ut cx f op c1 c2 Hf El1).
        right. exists (with_err f), []. split; reflexivity.
    - (* function of a sub-expression *)
      apply (expr1_step ut cx Hcx pk n base f op (execute ut cx e1 f) (denote cx t e1) Hg Hr ltac:(lia)).
      apply (sem_tree_sem e1). apply IH1; [exact Hg|exact Hr|exact Hok|lia|].
      intro H. apply Hop. cbn [has_open]. rewrite H. reflexivity.
    - (* function of two sub-expressions *)
      rewrite !forallb_app in Hok. apply andb_true_iff in Hok as [Hok1 Hok2].
      apply andb_true_iff in Hok1 as [Hrl Hrr]. apply andb_true_iff in Hok2 as [Hcl Hcr].
      apply (expr2_step ut cx Hcx pk n base f op (execute ut cx l f) (fun fl => execute ut cx r fl)
                        (denote cx t l) (denote cx t r) Hg Hr ltac:(lia)).
      + intro H. apply Hop. cbn [has_open]. rewrite H. cbn [is_open]. rewrite orb_true_r. reflexivity.
      + intro H. apply Hop. cbn [has_open]. rewrite H. cbn [is_open]. rewrite orb_true_r. reflexivity.
      + apply (sem_tree_sem l). apply IHl; [exact Hg|exact Hr|unfold expr_ok; rewrite Hrl, Hcl; reflexivity|lia|].
        intro H. apply Hop. cbn [has_open]. rewrite H. reflexivity.
      + intros fl Hgl Hrl' Hlen. apply (sem_tree_sem r).
        apply IHr; [exact Hgl|exact Hrl'|unfold expr_ok; rewrite Hrr, Hcr; reflexivity|lia|].
        intro H. apply Hop. cbn [has_open]. rewrite H. rewrite orb_true_r. reflexivity.
      + intros fl He. apply (execute_err ut cx r fl He).
    - (* errorExpr *)
      rewrite Hf. cbn [sem_fresh]. right. exists (with_err f), []. split; reflexivity.
  Qed.
End Main.

(* ------------------------------------------------------------------ QFrame.Eval *)

Fixpoint nodupb (l : list bytes) : bool :=
  match l with
  | [] => true
  | x :: r => negb (existsb (bytes_eqb x) r) && nodupb r
  end.

Lemma nodupb_spec l : nodupb l = true -> NoDup l.
Proof.
  induction l as [|x l IH]; simpl; intro H; [constructor|].
  apply andb_true_iff in H as [H1 H2]. constructor; [|apply IH; exact H2].
  intro Hi. apply existsb_bytes_In in Hi. rewrite Hi in H1. discriminate.
Qed.

(* column names pairwise different and not empty (New and setColumn guarantee both; Select with a repeated name does not) *)
Definition names_ok (f : frame) : bool :=
  nodupb (col_names f) && forallb (fun m => negb (empty_name m)) (col_names f).

Lemma gf_of_wf f : wf_frame f = true -> ferr f = false -> names_ok f = true -> gf (phys_len f) f.
Proof.
  unfold wf_frame, names_ok. intros Hw Hf Hn.
  apply andb_true_iff in Hw as [Hw1 Hw2]. apply andb_true_iff in Hn as [Hn1 Hn2].
  rewrite forallb_forall in Hw1, Hw2, Hn2.
  split; [exact Hf|]. split; [apply nodupb_spec; exact Hn1|]. split; [|split; [reflexivity|]].
  - apply Forall_forall. intros [m c] Hin. cbn [fst snd]. split.
    + intro; subst. assert (Hi : In [] (col_names f)) by (apply in_map_iff; exists ([], c); split; [reflexivity|exact Hin]).
      specialize (Hn2 _ Hi). discriminate.
    + specialize (Hw1 _ Hin). cbn [snd] in Hw1. apply andb_true_iff in Hw1 as [H1 H2].
      apply Nat.eqb_eq in H1. split; assumption.
  - apply Forall_forall. intros p Hp. specialize (Hw2 _ Hp). apply Nat.ltb_lt in Hw2. exact Hw2.
Qed.

Lemma wf_parts n cs i e :
  Forall (fun nc => colok n (snd nc)) cs -> phys_len (mkFrame cs i e) = n -> Forall (fun p => p < n) i ->
  wf_frame (mkFrame cs i e) = true.
Proof.
  intros Hall Hpl Hix. unfold wf_frame. rewrite Hpl. cbn [cols ix]. apply andb_true_iff. split; apply forallb_forall.
  - intros nc Hin. rewrite Forall_forall in Hall. destruct (Hall nc Hin) as [H1 H2]. rewrite H1, H2, Nat.eqb_refl. reflexivity.
  - intros p Hp. rewrite Forall_forall in Hix. apply Nat.ltb_lt. apply Hix. exact Hp.
Qed.

Lemma wf_set_column n f dst c :
  gf n f -> colok n c -> check_name dst = true -> wf_frame (set_column f dst c) = true.
Proof.
  intros [Hf [Hnd [Hall [Hpl Hix]]]] Hok Hn. unfold set_column. rewrite Hn. simpl negb. cbv iota.
  assert (Hall' : Forall (fun nc => colok n (snd nc)) (cols f)).
  { eapply Forall_impl; [|exact Hall]. intros nc [_ H]. exact H. }
  destruct (lookup f dst) as [[pos c0]|] eqn:E.
  - apply (wf_parts n); [apply set_nth_Forall; [exact Hall'|exact Hok]| |exact Hix].
    apply lookup_some_nth in E. unfold phys_len in *. cbn [cols].
    destruct (cols f) as [|[m0 c0'] rest]; [destruct pos; discriminate|].
    destruct pos; simpl; [apply Hok|exact Hpl].
  - apply (wf_parts n); [apply Forall_app; split; [exact Hall'|constructor; [exact Hok|constructor]]| |exact Hix].
    unfold phys_len in *. cbn [cols]. destruct (cols f) as [|[m0 c0'] rest]; simpl; [apply Hok|exact Hpl].
Qed.

Lemma starts_with_split p : forall s, starts_with p s = true -> exists rest, s = p ++ rest.
Proof.
  induction p as [|x p IH]; intros s H; [exists s; reflexivity|].
  destruct s as [|y s]; [discriminate|]. simpl in H. apply andb_true_iff in H as [H1 H2].
  apply N.eqb_eq in H1. subst. destruct (IH s H2) as [rest ->]. exists rest. reflexivity.
Qed.

Lemma temp_like_legal nm : temp_like nm = true -> check_name nm = true.
Proof.
  unfold temp_like. intro H. apply orb_true_iff in H as [H|H]; [apply orb_true_iff in H as [H|H]|];
    apply starts_with_split in H as [rest ->]; rewrite <- app_assoc; apply temp_name_legal.
  - left. reflexivity.
  - right. left. reflexivity.
  - right. right. reflexivity.
Qed.

Lemma bytes_eqb_sym a b : bytes_eqb a b = bytes_eqb b a.
Proof.
  destruct (bytes_eqb a b) eqn:E.
  - apply bytes_eqb_spec in E. subst. symmetry. apply bytes_eqb_refl.
  - symmetry. apply bytes_eqb_false. apply bytes_eqb_false in E. congruence.
Qed.

(* Copy(dst, temporary) followed by Drop(temporary) is setColumn(dst) on the frame without the temporary *)
Lemma eval_finish n f name c dst :
  gf n f -> contains f name = false -> check_name dst = true -> dst <> name ->
  drop (set_column (ext f name c) dst c) [name] = set_column f dst c.
Proof.
  intros [Hf [Hnd _]] Hc Hn Hne. unfold set_column. rewrite Hn. simpl negb. cbv iota.
  rewrite (ext_lookup_other f name c dst Hne).
  apply contains_false_In in Hc.
  destruct (lookup f dst) as [[pos c0]|] eqn:E.
  - pose proof (lookup_some_nth f dst pos c0 E) as Hnth.
    assert (Hpos : pos < length (cols f)) by (apply nth_error_Some; rewrite Hnth; discriminate).
    unfold ext. cbn [cols ix ferr]. rewrite (set_nth_app_l _ _ _ _ Hpos), Hf.
    assert (Hnames : map fst (set_nth (cols f) pos (dst, c)) = col_names f).
    { rewrite map_set_nth. cbn [fst]. unfold col_names. apply set_nth_same. rewrite nth_error_map, Hnth. reflexivity. }
    pose proof (drop_middle (set_nth (cols f) pos (dst, c)) [(name, c)] [] (ix f)) as Hd.
    rewrite !app_nil_r in Hd. apply Hd.
    + rewrite map_app, Hnames. apply NoDup_app_iff. repeat split; [exact Hnd|repeat constructor; intros []|].
      intros x Hx [<-|[]]. contradiction.
    + discriminate.
    + intro E0. apply (f_equal (@length _)) in E0. rewrite set_nth_length in E0. simpl in E0. lia.
  - unfold ext. cbn [cols ix ferr]. rewrite Hf, <- app_assoc.
    apply (drop_middle (cols f) [(name, c)] [(dst, c)] (ix f)).
    + rewrite !map_app. cbn [map fst]. apply NoDup_app_iff. repeat split; [exact Hnd| |].
      * repeat constructor; [intros [H|[]]; congruence|intros []].
      * intros x Hx [<-|[<-|[]]]; [contradiction|].
        assert (Hcd : contains f dst = false) by (unfold contains; rewrite E; reflexivity).
        apply contains_false_In in Hcd. contradiction.
    + discriminate.
    + intro E0. apply app_eq_nil in E0 as [_ E0]. discriminate.
Qed.

Definition is_col_ref (e : expr) (dst : bytes) : bool :=
  match e with XCol src => bytes_eqb src dst | _ => false end.

(* what Eval must deliver, in terms of the denotation of the tree on the table of the frame *)
Definition eval_meets (pk : Prop) (f : frame) (t : table) (dst : bytes) (e : expr) (d : dres) (o : outcome frame) : Prop :=
  match d with
  | Some (Some (ty, cs)) =>
      exists g, o = Ok g /\
        (if is_col_ref e dst then g = f
         else if check_name dst then
           ferr g = false /\ ix g = ix f /\ wf_frame g = true /\ abs g = Ok (tset_col t dst ty cs)
         else ferr g = true)
  | Some None => o = Panic
  | None => (pk /\ o = Panic) \/ exists g, o = Ok g /\ ferr g = true
  end.

Lemma eval_meets_fresh ut cx pk f dst e t n d :
  gf n f -> abs f = Ok t -> is_col_ref e dst = false ->
  sem_fresh pk n f (execute ut cx e f) d -> eval_meets pk f t dst e d (eval ut cx f dst e).
Proof.
  intros Hg Ha Hic Hs. pose proof Hg as [Hf _]. unfold eval, eval_meets. rewrite Hf, Hic.
  destruct d as [[[ty cs]|]|]; cbn [sem_fresh] in Hs.
  - destruct Hs as [name [c [Ho [Hty [Hok' [Hrd [Hc [Htl Hne]]]]]]]]. rewrite Ho. cbn [obind]. cbv iota beta.
    pose proof (temp_like_legal name Htl) as Hlegal.
    unfold copy. cbn [ferr ext]. fold (ext f name c). rewrite (ext_lookup_same f name c), Hc, andb_true_r.
    rewrite (bytes_eqb_sym name dst).
    destruct (bytes_eqb dst name) eqn:Ed; cbn [negb].
    + apply bytes_eqb_spec in Ed. subst dst. rewrite Hlegal.
      exists (ext f name c). split; [reflexivity|].
      rewrite <- (set_column_fresh f name c Hf Hc Hlegal).
      destruct (set_column_spec f name c Hlegal) as [H1 [H2 _]].
      split; [rewrite H2; exact Hf|]. split; [exact H1|]. split; [apply (wf_set_column n); assumption|].
      rewrite <- Hty. apply abs_set_column; assumption.
    + apply bytes_eqb_false in Ed. destruct (check_name dst) eqn:Ec.
      * rewrite (eval_finish n f name c dst Hg Hc Ec Ed).
        exists (set_column f dst c). split; [reflexivity|].
        destruct (set_column_spec f dst c Ec) as [H1 [H2 _]].
        split; [rewrite H2; exact Hf|]. split; [exact H1|]. split; [apply (wf_set_column n); assumption|].
        rewrite <- Hty. apply abs_set_column; assumption.
      * exists (with_err (ext f name c)). unfold set_column. rewrite Ec. cbn [negb].
        rewrite (drop_err (with_err (ext f name c)) [name] eq_refl). split; reflexivity.
  - rewrite Hs. reflexivity.
  - destruct Hs as [[Hpk Hs]|[r [nm [Hs He]]]]; rewrite Hs; cbn [obind]; cbv iota beta.
    + left. split; [exact Hpk|reflexivity].
    + right. exists r. split; [|exact He]. unfold copy. rewrite He.
      rewrite (drop_err r [nm] He). destruct (negb (bytes_eqb nm dst) && negb (contains f nm)); reflexivity.
Qed.

Theorem eval_full ut cx f dst e t :
  ctx_ok cx = true -> wf_frame f = true -> ferr f = false -> names_ok f = true ->
  expr_ok f e = true -> (N.of_nat (length (cols f) + temps_needed e) <= 10000)%N ->
  abs f = Ok t ->
  eval_meets (has_open cx t e = true) f t dst e (denote cx t e) (eval ut cx f dst e).
Proof.
  intros Hcx Hw Hf Hn Hok Hb Ha.
  pose proof (gf_of_wf f Hw Hf Hn) as Hg. set (n := phys_len f) in *.
  pose proof (execute_spec ut cx Hcx (has_open cx t e = true) n f t Ha e f Hg (rel_refl f) Hok Hb (fun H => H)) as Hs.
  destruct e as [m|v|op c|op c v cf|op c1 c2|op e1|op l r|];
    try (match goal with |- eval_meets ?pk0 _ _ _ ?e0 _ _ =>
           exact (eval_meets_fresh ut cx pk0 f dst e0 t n _ Hg Ha eq_refl Hs) end).
  (* a column reference: Copy only *)
  unfold eval, eval_meets. rewrite Hf.
  cbn [sem_tree execute] in Hs. cbn [execute obind is_col_ref]. cbv iota beta.
  destruct (denote cx t (XCol m)) as [[[ty cs]|]|]; cbn [sem] in Hs.
  - destruct Hs as [r [name [c [Ho [Hty [Hok' [Hrd Hst]]]]]]]. inversion Ho; subst r name. clear Ho.
    destruct Hst as [[_ [Hl Hcb]]|[He _]].
    2:{ exfalso. apply (f_equal (fun x => length (cols x))) in He. rewrite ext_cols_length in He. lia. }
    unfold copy. rewrite Hf, Hl. rewrite (bytes_eqb_sym m dst).
    assert (Hcm : contains f m = true) by (rewrite lookup_col_contains, Hl; reflexivity).
    rewrite Hcm, andb_false_r.
    destruct (bytes_eqb dst m) eqn:Ed; [exists f; split; reflexivity|].
    exists (set_column f dst c). split; [reflexivity|].
    destruct (check_name dst) eqn:Ec.
    + destruct (set_column_spec f dst c Ec) as [H1 [H2 _]].
      split; [rewrite H2; exact Hf|]. split; [exact H1|]. split; [apply (wf_set_column n); assumption|].
      rewrite <- Hty. apply abs_set_column; assumption.
    + unfold set_column. rewrite Ec. reflexivity.
  - discriminate Hs.
  - destruct Hs as [[[_ Hs]|[r [nm [Hs He]]]]|[nm [Hs [Hl _]]]]; [discriminate Hs| |].
    + inversion Hs; subst. congruence.
    + inversion Hs; subst nm. right. unfold copy. rewrite Hf, Hl.
      exists (with_err f). split; [|reflexivity].
      rewrite (drop_err (with_err f) [m] eq_refl). destruct (negb (bytes_eqb m dst) && negb (contains f m)); reflexivity.
Qed.

(* ------------------------------------------------------------------ readable corollaries *)

Section Corollaries.
  Variables (ut : upper_table) (cx : ctx) (f : frame) (dst : bytes) (e : expr) (t : table).
  Hypothesis Hcx : ctx_ok cx = true.
  Hypothesis Hw : wf_frame f = true.
  Hypothesis Hf : ferr f = false.
  Hypothesis Hn : names_ok f = true.
  Hypothesis Hok : expr_ok f e = true.
  Hypothesis Hb : (N.of_nat (length (cols f) + temps_needed e) <= 10000)%N.
  Hypothesis Ha : abs f = Ok t.

  (* the tree has a value and dst is a legal name: dst holds the value, nothing else changed *)
  Lemma eval_value ty cs :
    denote cx t e = Some (Some (ty, cs)) -> is_col_ref e dst = false -> check_name dst = true ->
    exists g, eval ut cx f dst e = Ok g /\ ferr g = false /\ ix g = ix f /\ wf_frame g = true
              /\ abs g = Ok (tset_col t dst ty cs).
  Proof.
    intros Hd Hc Hck. pose proof (eval_full ut cx f dst e t Hcx Hw Hf Hn Hok Hb Ha) as H.
    unfold eval_meets in H. rewrite Hd, Hc, Hck in H. exact H.
  Qed.

  (* Eval(dst, Col(dst)) is the identity *)
  Lemma eval_self ty cs :
    denote cx t e = Some (Some (ty, cs)) -> is_col_ref e dst = true -> eval ut cx f dst e = Ok f.
  Proof.
    intros Hd Hc. pose proof (eval_full ut cx f dst e t Hcx Hw Hf Hn Hok Hb Ha) as H.
    unfold eval_meets in H. rewrite Hd, Hc in H. destruct H as [g [H1 H2]]. subst. exact H1.
  Qed.

  (* an illegal destination name is reported through Err *)
  Lemma eval_bad_dst ty cs :
    denote cx t e = Some (Some (ty, cs)) -> is_col_ref e dst = false -> check_name dst = false ->
    exists g, eval ut cx f dst e = Ok g /\ ferr g = true.
  Proof.
    intros Hd Hc Hck. pose proof (eval_full ut cx f dst e t Hcx Hw Hf Hn Hok Hb Ha) as H.
    unfold eval_meets in H. rewrite Hd, Hc, Hck in H. exact H.
  Qed.

  (* an invalid tree (unknown column or function, operand type mismatch, malformed or empty expression) is reported
     through Err, provided no sub-tree is open *)
  Lemma eval_error :
    denote cx t e = None -> has_open cx t e = false -> exists g, eval ut cx f dst e = Ok g /\ ferr g = true.
  Proof.
    intros Hd Ho. pose proof (eval_full ut cx f dst e t Hcx Hw Hf Hn Hok Hb Ha) as H.
    unfold eval_meets in H. rewrite Hd in H. destruct H as [[H _]|H]; [congruence|exact H].
  Qed.

  (* the model faults exactly when the denotation is open (a recorded table lacks an entry) *)
  Lemma eval_open : denote cx t e = Some None -> eval ut cx f dst e = Panic.
  Proof.
    intros Hd. pose proof (eval_full ut cx f dst e t Hcx Hw Hf Hn Hok Hb Ha) as H.
    unfold eval_meets in H. rewrite Hd in H. exact H.
  Qed.
End Corollaries.

(* ------------------------------------------------------------------ the model always passes the engine's oracle *)

Lemma list_eqb_refl {A} (eqb : A -> A -> bool) : (forall x, eqb x x = true) -> forall l, list_eqb eqb l l = true.
Proof. intros H l. induction l as [|x l IH]; simpl; [reflexivity|]. rewrite H, IH. reflexivity. Qed.

Lemma cell_obs_eqb_refl c : cell_obs_eqb c c = true.
Proof.
  destruct c as [z|b|b|s|s]; simpl.
  - apply Z.eqb_refl.
  - rewrite N.eqb_refl. reflexivity.
  - destruct b; reflexivity.
  - destruct s; simpl; [apply bytes_eqb_refl|reflexivity].
  - destruct s; simpl; [apply bytes_eqb_refl|reflexivity].
Qed.

Lemma table_obs_eqb_refl t : table_obs_eqb t t = true.
Proof.
  unfold table_obs_eqb. rewrite (list_eqb_refl bytes_eqb bytes_eqb_refl).
  rewrite (list_eqb_refl ctype_eqb) by (intros []; reflexivity).
  rewrite (list_eqb_refl (list_eqb cell_obs_eqb)) by (apply list_eqb_refl; apply cell_obs_eqb_refl). reflexivity.
Qed.

(* whatever the model returns is accepted by eval_oracle (Corr/FrameCorr.v), the check the frameops engine applies
   to the frame returned by the implementation *)
Theorem model_meets_oracle ut cx f dst e t g :
  ctx_ok cx = true -> wf_frame f = true -> ferr f = false -> names_ok f = true ->
  expr_ok f e = true -> (N.of_nat (length (cols f) + temps_needed e) <= 10000)%N ->
  abs f = Ok t -> eval ut cx f dst e = Ok g -> eval_oracle f cx dst e g = 0%N.
Proof.
  intros Hcx Hw Hf Hn Hok Hb Ha Hg.
  pose proof (eval_full ut cx f dst e t Hcx Hw Hf Hn Hok Hb Ha) as H.
  unfold eval_oracle. rewrite Hf, Ha. unfold eval_meets in H.
  destruct (denote cx t e) as [[[ty cs]|]|].
  - destruct H as [g' [H1 H2]]. rewrite Hg in H1. inversion H1; subst g'. clear H1.
    assert (Hself : expect_table t f = 0%N).
    { unfold expect_table. rewrite Hf, Ha, table_obs_eqb_refl, Hw. reflexivity. }
    assert (Hset : check_name dst = true ->
                   ferr g = false /\ ix g = ix f /\ wf_frame g = true /\ abs g = Ok (tset_col t dst ty cs) ->
                   expect_table (tset_col t dst ty cs) g = 0%N).
    { intros _ [G1 [_ [G3 G4]]]. unfold expect_table. rewrite G1, G4, table_obs_eqb_refl, G3. reflexivity. }
    destruct e as [m|v|op c|op c v cf|op c1 c2|op e1|op l r|]; cbn [is_col_ref] in H2;
      try (destruct (check_name dst) eqn:Ec; [apply (Hset eq_refl H2)|unfold expect_err; rewrite H2; reflexivity]).
    destruct (bytes_eqb m dst); [subst g; exact Hself|].
    destruct (check_name dst) eqn:Ec; [apply (Hset eq_refl H2)|unfold expect_err; rewrite H2; reflexivity].
  - reflexivity.
  - destruct H as [[_ H]|[g' [H1 H2]]]; [congruence|]. rewrite Hg in H1. inversion H1; subst g'.
    unfold expect_err. rewrite H2. reflexivity.
Qed.
