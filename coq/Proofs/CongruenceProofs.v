(* Proofs/CongruenceProofs.v — property C09, "yields Equal results under every operation": two frames with the
   same logical table (abs) - whatever their physical layouts and row indexes - are mapped by the operations of
   Model/Ops.v, Model/Filter.v and Model/Eval.v to frames with the same logical table, with the same outcome
   (result / Go panic).

   Method: a simulation.  A list L of pairs (p, q) relates physical positions of f to physical positions of g
   (for frames with the same table: L = combine (ix f) (ix g)); Rel L f g says that the two frames have the same
   column names and types and that paired positions hold the same cells in every column.  Every instruction of
   Apply preserves Rel L - also when it runs over a sub-index (FilteredApply) - and Rel gives back abs f = abs g. *)
From QF Require Import Base.Prelude Model.Frame Model.Filter Model.Ops Model.TableSpec.
From QF Require Import Proofs.OpsProofs Proofs.OpsProofs2 Proofs.NoPanicProofs.
From QF Require Import Model.FilterSpec Proofs.FilterTypedFrame.
From QF Require Model.Eval Proofs.EvalFullBase Proofs.EvalFull Corr.FrameCorr.
Local Open Scope nat_scope.

(* ------------------------------------------------------------------ lists of pairs *)

Definition pairs := list (nat * nat).

Lemma In_combine_nth {A B} : forall (l1 : list A) (l2 : list B) a b,
  In (a, b) (combine l1 l2) -> exists k, nth_error l1 k = Some a /\ nth_error l2 k = Some b.
Proof.
  induction l1 as [|x l1 IH]; intros l2 a b H; [destruct H|].
  destruct l2 as [|y l2]; [destruct H|]. simpl in H. destruct H as [H|H].
  - inversion H; subst. exists 0. split; reflexivity.
  - destruct (IH l2 a b H) as [k [H1 H2]]. exists (S k). split; assumption.
Qed.

Lemma nth_combine_In {A B} : forall (l1 : list A) (l2 : list B) k a b,
  nth_error l1 k = Some a -> nth_error l2 k = Some b -> In (a, b) (combine l1 l2).
Proof.
  induction l1 as [|x l1 IH]; intros l2 k a b H1 H2; [destruct k; discriminate|].
  destruct l2 as [|y l2]; [destruct k; discriminate|].
  destruct k as [|k]; simpl in *.
  - inversion H1; inversion H2; subst. left. reflexivity.
  - right. apply (IH l2 k a b H1 H2).
Qed.

Definition one2one (L : pairs) : Prop :=
  forall p q p' q', In (p, q) L -> In (p', q') L -> (p = p' <-> q = q').

Lemma one2one_combine l1 l2 : NoDup l1 -> NoDup l2 -> one2one (combine l1 l2).
Proof.
  intros H1 H2 p q p' q' Ha Hb.
  apply In_combine_nth in Ha as [k [Ka1 Ka2]]. apply In_combine_nth in Hb as [k' [Kb1 Kb2]].
  rewrite NoDup_nth_error in H1, H2. split; intro E; subst.
  - assert (k = k') by (apply H1; [apply nth_error_Some; congruence|congruence]). subst. congruence.
  - assert (k = k') by (apply H2; [apply nth_error_Some; congruence|congruence]). subst. congruence.
Qed.

Lemma omap_sim {A B C} (g1 : A -> outcome C) (g2 : B -> outcome C) : forall J1 J2,
  length J1 = length J2 -> (forall p q, In (p, q) (combine J1 J2) -> g1 p = g2 q) -> omap g1 J1 = omap g2 J2.
Proof.
  induction J1 as [|p J1 IH]; intros [|q J2] Hl H; try discriminate; [reflexivity|].
  simpl. rewrite (H p q (or_introl eq_refl)).
  rewrite (IH J2) by (simpl in Hl; try lia; intros; apply H; right; assumption). reflexivity.
Qed.

Lemma combine_filter_incl {A B} (a : A -> bool) (b : B -> bool) : forall (l1 : list A) (l2 : list B),
  length l1 = length l2 -> (forall p q, In (p, q) (combine l1 l2) -> a p = b q) ->
  incl (combine (filter a l1) (filter b l2)) (combine l1 l2) /\ length (filter a l1) = length (filter b l2).
Proof.
  induction l1 as [|x l1 IH]; intros [|y l2] Hl H; try discriminate; [split; [intros z []|reflexivity]|].
  destruct (IH l2) as [Hi Hlen]; [simpl in Hl; lia|intros; apply H; right; assumption|].
  simpl. rewrite <- (H x y (or_introl eq_refl)). destruct (a x); simpl.
  - split; [|lia]. intros z [Hz|Hz]; [left; exact Hz|right; apply Hi; exact Hz].
  - split; [|exact Hlen]. intros z Hz. right. apply Hi. exact Hz.
Qed.

(* ------------------------------------------------------------------ the simulation relation *)

Definition cells_sim (L : pairs) (c1 c2 : coldata) : Prop :=
  forall p q, In (p, q) L -> exists x, cell_at c1 p = Ok x /\ cell_at c2 q = Ok x.

Definition col_sim (L : pairs) (c1 c2 : coldata) : Prop := col_type c1 = col_type c2 /\ cells_sim L c1 c2.

Definition cols_sim (L : pairs) (cs1 cs2 : list (bytes * coldata)) : Prop :=
  Forall2 (fun a b => fst a = fst b /\ col_sim L (snd a) (snd b)) cs1 cs2.

Record Rel (L : pairs) (f g : frame) : Prop := mkRel {
  r_err : ferr f = ferr g;
  r_cols : cols_sim L (cols f) (cols g);
  r_wf1 : WF f;
  r_wf2 : WF g;
  r_rng : forall p q, In (p, q) L -> p < phys_len f /\ q < phys_len g
}.

(* the row indexes the instruction loops run over: paired through L, duplicate free *)
Definition act (L : pairs) (J1 J2 : list nat) : Prop :=
  length J1 = length J2 /\ incl (combine J1 J2) L /\ NoDup J1 /\ NoDup J2.

Lemma col_sim_incl L L' c1 c2 : incl L' L -> col_sim L c1 c2 -> col_sim L' c1 c2.
Proof. intros Hi [Ht Hc]. split; [exact Ht|]. intros p q Hpq. apply Hc. apply Hi. exact Hpq. Qed.

Definition opt_sim (L : pairs) (a b : option (nat * coldata)) : Prop :=
  match a, b with
  | None, None => True
  | Some (k1, c1), Some (k2, c2) => k1 = k2 /\ col_sim L c1 c2
  | _, _ => False
  end.

Lemma lookup_from_sim L name : forall cs1 cs2 pos acc1 acc2,
  cols_sim L cs1 cs2 -> opt_sim L acc1 acc2 ->
  opt_sim L (lookup_from name cs1 pos acc1) (lookup_from name cs2 pos acc2).
Proof.
  induction cs1 as [|[n1 c1] cs1 IH]; intros cs2 pos acc1 acc2 H Ha; inversion H as [|? [n2 c2] ? cs2' [Hn Hc] Hrest]; subst.
  - exact Ha.
  - cbn [fst snd] in Hn, Hc. subst n2. cbn [lookup_from]. apply IH; [exact Hrest|].
    destruct (bytes_eqb n1 name); [split; [reflexivity|exact Hc]|exact Ha].
Qed.

Lemma lookup_sim L f g name : cols_sim L (cols f) (cols g) -> opt_sim L (lookup f name) (lookup g name).
Proof. intro H. unfold lookup. apply lookup_from_sim; [exact H|exact I]. Qed.

Lemma lookup_col_sim L f g name : cols_sim L (cols f) (cols g) ->
  match lookup_col f name, lookup_col g name with
  | None, None => True
  | Some c1, Some c2 => col_sim L c1 c2
  | _, _ => False
  end.
Proof.
  intro H. pose proof (lookup_sim L f g name H) as Hs. unfold lookup_col, opt_sim in *.
  destruct (lookup f name) as [[k1 c1]|], (lookup g name) as [[k2 c2]|]; cbn [option_map snd]; tauto.
Qed.

Lemma cols_sim_names L cs1 cs2 : cols_sim L cs1 cs2 -> map fst cs1 = map fst cs2.
Proof. induction 1 as [|a b l l' [Hn _] _ IH]; [reflexivity|]. simpl. rewrite Hn, IH. reflexivity. Qed.

Lemma cols_sim_types L cs1 cs2 :
  cols_sim L cs1 cs2 -> map (fun nc => col_type (snd nc)) cs1 = map (fun nc => col_type (snd nc)) cs2.
Proof. induction 1 as [|a b l l' [_ [Ht _]] _ IH]; [reflexivity|]. simpl. rewrite Ht, IH. reflexivity. Qed.

Lemma Forall2_set_nth {A B} (R : A -> B -> Prop) : forall l l' k x y,
  Forall2 R l l' -> R x y -> Forall2 R (set_nth l k x) (set_nth l' k y).
Proof.
  induction l as [|a l IH]; intros l' k x y H Hxy; inversion H; subst; [constructor|].
  destruct k; simpl; constructor; auto.
Qed.

Lemma set_column_sim L f g name r1 r2 :
  cols_sim L (cols f) (cols g) -> col_sim L r1 r2 ->
  cols_sim L (cols (set_column f name r1)) (cols (set_column g name r2)).
Proof.
  intros H Hr. unfold set_column. destruct (negb (check_name name)); [exact H|].
  pose proof (lookup_sim L f g name H) as Hl. unfold opt_sim in Hl.
  destruct (lookup f name) as [[k1 c1]|], (lookup g name) as [[k2 c2]|]; try contradiction; cbn [cols].
  - destruct Hl as [-> _]. apply Forall2_set_nth; [exact H|]. split; [reflexivity|exact Hr].
  - apply Forall2_app; [exact H|]. constructor; [split; [reflexivity|exact Hr]|constructor].
Qed.

Lemma set_column_ferr f name r : ferr (set_column f name r) = ferr f || negb (check_name name).
Proof.
  unfold set_column. destruct (check_name name); cbn [negb].
  - destruct (lookup f name) as [[k c]|]; cbn [ferr]; rewrite orb_false_r; reflexivity.
  - cbn [with_err ferr]. rewrite orb_true_r. reflexivity.
Qed.

Lemma Rel_with_err L f g : Rel L f g -> Rel L (with_err f) (with_err g).
Proof.
  intros [H1 H2 H3 H4 H5]. split; [reflexivity|exact H2|apply WF_with_err; exact H3|apply WF_with_err; exact H4|exact H5].
Qed.

Lemma Rel_set_column L f g name r1 r2 :
  Rel L f g -> col_sim L r1 r2 -> col_ok (phys_len f) r1 -> col_ok (phys_len g) r2 ->
  Rel L (set_column f name r1) (set_column g name r2).
Proof.
  intros [H1 H2 H3 H4 H5] Hr Ho1 Ho2.
  destruct (set_column_kept f name r1 H3 Ho1) as [K1 [_ K3]].
  destruct (set_column_kept g name r2 H4 Ho2) as [G1 [_ G3]].
  split; [rewrite !set_column_ferr, H1; reflexivity|apply set_column_sim; assumption|exact K1|exact G1|].
  intros p q Hpq. rewrite K3, G3. apply H5. exact Hpq.
Qed.

(* ------------------------------------------------------------------ a column written by an Apply loop *)

(* the generated loop: an array of n copies of z, the k-th result stored at index[k] *)
Lemma scatter_col_gen t z n index vals :
  t <> TEnum -> cell_type_ok t z = true -> NoDup index -> Forall (fun p => p < n) index -> length index <= length vals ->
  Forall (fun y => cell_type_ok t y = true) vals ->
  exists arr r, scatter (repeat z n) index vals = Ok arr /\ col_of_cells t arr = Ok r
    /\ col_type r = t /\ col_len r = n
    /\ omap (cell_at r) index = Ok (firstn (length index) vals)
    /\ (forall q, q < n -> ~ In q index -> cell_at r q = Ok z).
Proof.
  intros Ht Hz Hnd Hin Hlen Htyped.
  set (vals' := firstn (length index) vals).
  assert (Hlen' : length vals' = length index) by (unfold vals'; rewrite firstn_length; lia).
  assert (Htyped' : Forall (fun y => cell_type_ok t y = true) vals') by (apply Forall_firstn; exact Htyped).
  assert (Hbase : Forall (fun p => p < length (repeat z n)) index) by (rewrite repeat_length; exact Hin).
  destruct (scatter_ok index (repeat z n) vals' Hlen' Hbase) as [arr [Harr Hal]].
  assert (Harr_ok : Forall (fun y => cell_type_ok t y = true) arr).
  { eapply scatter_Forall; [| |exact Harr]; [apply repeat_Forall; exact Hz|exact Htyped']. }
  destruct (col_of_cells_spec t arr Ht Harr_ok) as [r [Hr [Hrt [Hrl Hcell]]]].
  exists arr, r. split; [rewrite scatter_firstn by exact Hlen; exact Harr|].
  split; [exact Hr|]. split; [exact Hrt|]. split; [rewrite Hrl, Hal, repeat_length; reflexivity|].
  split.
  - erewrite (omap_ext_local _ _ index); [|intros p _; apply Hcell].
    apply omap_of_option_map_some. apply (scatter_read _ _ _ _ Hnd Hlen' Harr).
  - intros q Hq Hnotin. rewrite Hcell.
    rewrite (scatter_outside _ _ _ _ q Harr Hnotin).
    rewrite (nth_error_repeat z) by exact Hq. reflexivity.
Qed.

Lemma scatter_short : forall index base vals,
  length vals < length index -> scatter base index vals = Panic.
Proof.
  induction index as [|p index IH]; intros base vals H; [simpl in H; lia|].
  destruct vals as [|v vals]; [reflexivity|]. simpl. destruct (p <? length base); [|reflexivity].
  apply IH. simpl in H. lia.
Qed.

Section Built.
  Variable L : pairs.
  Variables J1 J2 : list nat.
  Variables n1 n2 : nat.
  Hypothesis H121 : one2one L.
  Hypothesis Hact : act L J1 J2.
  Hypothesis Hrng : forall p q, In (p, q) L -> p < n1 /\ q < n2.

  Lemma act_in_range : Forall (fun p => p < n1) J1 /\ Forall (fun q => q < n2) J2.
  Proof.
    destruct Hact as [Hl [Hi _]]. split; apply Forall_forall.
    - intros p Hp. apply In_nth_error in Hp as [k Hk].
      destruct (nth_error J2 k) as [q|] eqn:E;
        [|apply nth_error_None in E; assert (k < length J1) by (apply nth_error_Some; congruence); lia].
      apply (Hrng p q). apply Hi. apply (nth_combine_In J1 J2 k p q Hk E).
    - intros q Hq. apply In_nth_error in Hq as [k Hk].
      destruct (nth_error J1 k) as [p|] eqn:E;
        [|apply nth_error_None in E; assert (k < length J2) by (apply nth_error_Some; congruence); lia].
      apply (Hrng p q). apply Hi. apply (nth_combine_In J1 J2 k p q E Hk).
  Qed.

  (* two columns that hold the same values along the paired indexes and the same value z everywhere else *)
  Lemma built_sim r1 r2 vs z :
    omap (cell_at r1) J1 = Ok vs -> omap (cell_at r2) J2 = Ok vs ->
    (forall q, q < n1 -> ~ In q J1 -> cell_at r1 q = Ok z) ->
    (forall q, q < n2 -> ~ In q J2 -> cell_at r2 q = Ok z) ->
    cells_sim L r1 r2.
  Proof.
    intros Hv1 Hv2 Hz1 Hz2 p q Hpq. destruct Hact as [Hl [Hi _]].
    destruct (in_dec Nat.eq_dec p J1) as [Hin|Hnin].
    - apply In_nth_error in Hin as [k Hk].
      destruct (nth_error J2 k) as [q'|] eqn:E;
        [|apply nth_error_None in E; assert (k < length J1) by (apply nth_error_Some; congruence); lia].
      assert (Hq : q = q').
      { apply (H121 p q p q' Hpq); [apply Hi; apply (nth_combine_In J1 J2 k p q' Hk E)|reflexivity]. }
      subst q'.
      destruct (omap_nth _ _ _ _ _ Hv1 Hk) as [x [Hx1 Hx2]].
      destruct (omap_nth _ _ _ _ _ Hv2 E) as [y [Hy1 Hy2]].
      exists x. split; [exact Hx1|]. rewrite Hy1. congruence.
    - assert (Hnq : ~ In q J2).
      { intro Hin. apply In_nth_error in Hin as [k Hk].
        destruct (nth_error J1 k) as [p'|] eqn:E;
          [|apply nth_error_None in E; assert (k < length J2) by (apply nth_error_Some; congruence); lia].
        assert (Hp : p = p').
        { apply (H121 p q p' q Hpq); [apply Hi; apply (nth_combine_In J1 J2 k p' q E Hk)|reflexivity]. }
        subst p'. apply Hnin. apply (nth_error_In _ _ E). }
      destruct (Hrng p q Hpq) as [Hp Hq]. exists z. split; [apply Hz1|apply Hz2]; assumption.
  Qed.

  (* the loop `for k, p := range index { result[p] = vals[k] }` over two paired indexes with the same values *)
  Lemma loop_sim t z vals :
    t <> TEnum -> cell_type_ok t z = true -> Forall (fun y => cell_type_ok t y = true) vals ->
    match (do cells <- scatter (repeat z n1) J1 vals; col_of_cells t cells),
          (do cells <- scatter (repeat z n2) J2 vals; col_of_cells t cells) with
    | Ok r1, Ok r2 => col_sim L r1 r2 /\ col_ok n1 r1 /\ col_ok n2 r2 /\ col_type r1 = t
    | Panic, Panic => True
    | _, _ => False
    end.
  Proof.
    intros Ht Hz Hty. pose proof act_in_range as [Hr1 Hr2]. destruct Hact as [Hl [Hi [Hnd1 Hnd2]]].
    destruct (Nat.lt_ge_cases (length vals) (length J1)) as [Hshort|Hlong].
    - rewrite (scatter_short J1 _ vals Hshort), (scatter_short J2 _ vals) by lia. exact I.
    - destruct (scatter_col_gen t z n1 J1 vals Ht Hz Hnd1 Hr1 Hlong Hty) as [a1 [r1 [Ha1 [Hc1 [Ht1 [Hl1 [Hv1 Hz1]]]]]]].
      destruct (scatter_col_gen t z n2 J2 vals Ht Hz Hnd2 Hr2 ltac:(lia) Hty) as [a2 [r2 [Ha2 [Hc2 [Ht2 [Hl2 [Hv2 Hz2]]]]]]].
      rewrite Ha1, Ha2. cbn [obind]. rewrite Hc1, Hc2.
      split; [split; [congruence|]|].
      + rewrite <- Hl in Hv2. apply (built_sim r1 r2 _ z Hv1 Hv2 Hz1 Hz2).
      + repeat split; try assumption; apply col_wf_nonenum; congruence.
  Qed.
End Built.

(* ------------------------------------------------------------------ one instruction *)

(* the only place where an oracle table is consulted on PHYSICAL data that the logical table does not show:
   ToUpper on an enum column upper-cases every entry of the column's value list (also unused ones) *)
Definition enum_upper_okb (ut : upper_table) (f : frame) (i : instr) : bool :=
  if ferr f then true
  else if empty_name (isrc1 i) then true
  else if empty_name (isrc2 i) then
    match lookup_col f (isrc1 i), ifn i with
    | Some (ECol _ vs _), FBuiltin nm => negb (bytes_eqb nm name_ToUpper) || upper_e_okb ut vs
    | _, _ => true
    end
  else true.

Lemma instr_tables_enum_upper ut f i : instr_tables_okb ut f i = true -> enum_upper_okb ut f i = true.
Proof.
  unfold instr_tables_okb, enum_upper_okb. destruct (ferr f); [reflexivity|].
  destruct (empty_name (isrc1 i)); [reflexivity|]. destruct (empty_name (isrc2 i)); [|reflexivity].
  destruct (lookup_col f (isrc1 i)) as [[d|d|d|d|d vs st]|]; try reflexivity.
  destruct (ifn i); try reflexivity. unfold fn1_tables_okb. destruct (bytes_eqb name name_ToUpper); auto.
Qed.

Definition sim_out (L : pairs) (f g : frame) (o1 o2 : outcome frame) : Prop :=
  match o1, o2 with
  | Ok f', Ok g' => Rel L f' g' /\ ix f' = ix f /\ ix g' = ix g
  | Panic, Panic => True
  | _, _ => False
  end.

Lemma sim_out_self L f g : Rel L f g -> sim_out L f g (Ok f) (Ok g).
Proof. intro H. split; [exact H|split; reflexivity]. Qed.
Lemma sim_out_err L f g : Rel L f g -> sim_out L f g (Ok (with_err f)) (Ok (with_err g)).
Proof. intro H. split; [apply Rel_with_err; exact H|split; reflexivity]. Qed.

Lemma sim_out_set L f g name (o1 o2 : outcome coldata) :
  Rel L f g ->
  match o1, o2 with
  | Ok r1, Ok r2 => col_sim L r1 r2 /\ col_ok (phys_len f) r1 /\ col_ok (phys_len g) r2
  | Panic, Panic | Fail, Fail => True
  | _, _ => False
  end ->
  sim_out L f g (match o1 with Ok r => Ok (set_column f name r) | Fail => Ok (with_err f) | Panic => Panic end)
                (match o2 with Ok r => Ok (set_column g name r) | Fail => Ok (with_err g) | Panic => Panic end).
Proof.
  intros HR H. destruct o1 as [r1| |], o2 as [r2| |]; try contradiction; try exact I.
  - destruct H as [Hs [Ho1 Ho2]]. split; [apply Rel_set_column; assumption|].
    destruct (set_column_kept f name r1 (r_wf1 _ _ _ HR) Ho1) as [_ [K _]].
    destruct (set_column_kept g name r2 (r_wf2 _ _ _ HR) Ho2) as [_ [G _]]. split; assumption.
  - apply sim_out_err. exact HR.
Qed.

Lemma cells_sim_bind2 {C} L (c1 c2 : coldata) (k : cell -> outcome C) J1 J2 :
  cells_sim L c1 c2 -> length J1 = length J2 -> incl (combine J1 J2) L ->
  omap (fun p => do x <- cell_at c1 p; k x) J1 = omap (fun q => do x <- cell_at c2 q; k x) J2.
Proof.
  intros Hc Hl Hi. apply omap_sim; [exact Hl|]. intros p q Hpq.
  destruct (Hc p q (Hi _ Hpq)) as [x [H1 H2]]. rewrite H1, H2. reflexivity.
Qed.

Lemma ctype_neq_eqb t : ctype_eqb t TEnum = false -> t <> TEnum.
Proof. intros H ->. discriminate. Qed.

(* ------------------------------------------------------------------ ecolumn.toUpper, cell by cell *)

Lemma find_value_nth : forall vs s i r, find_value vs s i = Some r ->
  exists k, r = (i + N.of_nat k)%N /\ nth_error vs k = Some s.
Proof.
  induction vs as [|v vs IH]; intros s i r H; simpl in H; [discriminate|].
  destruct (bytes_eqb v s) eqn:E.
  - inversion H; subst. apply bytes_eqb_spec in E. subst. exists 0. split; [lia|reflexivity].
  - destruct (IH s (i + 1)%N r H) as [k [Hr Hk]]. exists (S k). split; [lia|exact Hk].
Qed.

(* the merge loop: every old rank i is sent to a new rank whose value is the i-th upper-cased value *)
Lemma up_fold_sem : forall ups nv o2n mg nv' o2n' mg',
  fold_left up_step ups (nv, o2n, mg) = (nv', o2n', mg') ->
  exists ext rs, nv' = nv ++ ext /\ o2n' = o2n ++ rs /\ length rs = length ups
    /\ (forall i u, nth_error ups i = Some u ->
          exists r, nth_error rs i = Some r /\ nth_error nv' (N.to_nat r) = Some u)
    /\ (mg' = false -> mg = false /\ ext = ups).
Proof.
  induction ups as [|u ups IH]; intros nv o2n mg nv' o2n' mg' H.
  - simpl in H. inversion H; subst. exists [], []. rewrite !app_nil_r. repeat split; auto.
    intros i u Hi. destruct i; discriminate.
  - simpl in H. destruct (find_value nv u 0) as [r|] eqn:E.
    + destruct (IH _ _ _ _ _ _ H) as [ext [rs [H1 [H2 [H3 [H4 H5]]]]]].
      exists ext, (r :: rs). split; [exact H1|]. split; [rewrite H2, <- app_assoc; reflexivity|].
      split; [simpl; lia|]. split.
      * intros [|i] u' Hi; simpl in Hi.
        -- inversion Hi; subst u'. exists r. split; [reflexivity|].
           destruct (find_value_nth _ _ _ _ E) as [k [Hr Hk]]. rewrite H1.
           replace (N.to_nat r) with k by lia. rewrite nth_error_app1; [exact Hk|].
           apply nth_error_Some. congruence.
        -- apply (H4 i u' Hi).
      * intro Hm. destruct (H5 Hm) as [Hd _]. discriminate.
    + destruct (IH _ _ _ _ _ _ H) as [ext [rs [H1 [H2 [H3 [H4 H5]]]]]].
      exists (u :: ext), (N.of_nat (length nv) :: rs).
      split; [rewrite H1, <- app_assoc; reflexivity|]. split; [rewrite H2, <- app_assoc; reflexivity|].
      split; [simpl; lia|]. split.
      * intros [|i] u' Hi; simpl in Hi.
        -- inversion Hi; subst u'. exists (N.of_nat (length nv)). split; [reflexivity|].
           rewrite H1, <- app_assoc. rewrite Nat2N.id. rewrite nth_error_app2 by lia.
           replace (length nv - length nv) with 0 by lia. reflexivity.
        -- apply (H4 i u' Hi).
      * intro Hm. destruct (H5 Hm) as [Hd He]. split; [exact Hd|]. rewrite He. reflexivity.
Qed.

(* the cell a row holds after ToUpper, as a function of the cell it held before *)
Definition upcell (ut : upper_table) (x : cell) : outcome cell :=
  match x with
  | CStr None => Ok (CStr None)
  | CStr (Some s) => do u <- upper_of ut s; Ok (CStr (Some u))
  | CEnum None => Ok (CEnum None)
  | CEnum (Some s) => do u <- upper_of ut s; Ok (CEnum (Some u))
  | _ => Panic
  end.

Lemma e_upper_spec ut d values st n :
  col_ok n (ECol d values st) -> upper_e_okb ut values = true ->
  exists r0, e_to_upper ut d values = Ok r0 /\ col_type r0 = TEnum /\ col_ok n r0
    /\ forall p x, cell_at (ECol d values st) p = Ok x ->
         exists y, upcell ut x = Ok y /\ cell_at r0 p = Ok y.
Proof.
  intros Hok Hut. pose proof (e_to_upper_post ut d values st n Hok) as Hpost.
  destruct (post_total _ _ _ Hpost Hut) as [r0 [Hr0 Hok0]]. exists r0. split; [exact Hr0|].
  pose proof (upper_of_post ut values) as Hup. destruct (post_total _ _ _ Hup Hut) as [ups [Hups Hlen]].
  unfold e_to_upper in Hr0. rewrite Hups in Hr0. cbn [obind] in Hr0.
  change (fold_left _ ups ([], [], false)) with (fold_left up_step ups ([], [], false)) in Hr0.
  destruct (fold_left up_step ups ([], [], false)) as [[nv o2n] mg] eqn:E.
  destruct (up_fold_sem _ _ _ _ _ _ _ E) as [ext [rs [H1 [H2 [H3 [H4 H5]]]]]]. simpl in H1, H2. subst nv o2n.
  assert (Hval : forall r s, nth_error values (N.to_nat r) = Some s ->
                 exists u, upper_of ut s = Ok u /\ nth_error ups (N.to_nat r) = Some u).
  { intros r s Hs. destruct (omap_nth _ _ _ _ _ Hups Hs) as [u [Hu1 Hu2]]. exists u. split; assumption. }
  destruct mg.
  - destruct (omap _ d) as [nd| |] eqn:End; cbn [obind] in Hr0; try discriminate. inversion Hr0; subst r0. clear Hr0.
    split; [reflexivity|]. split; [exact Hok0|].
    intros p x Hx. cbn [cell_at] in Hx |- *. unfold idx in *.
    destruct (nth_error d p) as [r|] eqn:Ed; cbn [of_option obind] in Hx; [|discriminate].
    destruct (omap_nth _ _ _ _ _ End Ed) as [r' [Hr'1 Hr'2]]. rewrite Hr'2. cbn [of_option obind].
    unfold enum_string in *. destruct (enum_is_null r) eqn:En.
    + inversion Hr'1; subst r'. rewrite En. cbn [obind] in Hx |- *. inversion Hx; subst x. exists (CEnum None). split; reflexivity.
    + unfold idx in Hx, Hr'1. destruct (nth_error values (N.to_nat r)) as [s|] eqn:Es; cbn [of_option obind] in Hx; [|discriminate].
      inversion Hx; subst x. destruct (Hval r s Es) as [u [Hu1 Hu2]]. destruct (H4 _ _ Hu2) as [r2 [Hr2 Hnv]].
      rewrite Hr2 in Hr'1. cbn [of_option] in Hr'1. inversion Hr'1; subst r'.
      assert (Hnn : enum_is_null r2 = false).
      { unfold enum_is_null. apply N.eqb_neq. intro Hc. destruct Hok0 as [_ Hw]. cbn [col_wf] in Hw.
        apply andb_true_iff in Hw as [_ Hcard]. apply Nat.leb_le in Hcard.
        assert (N.to_nat r2 < length ext) by (apply nth_error_Some; congruence).
        unfold GenConsts.c_nullValue, GenConsts.c_maxCardinality in *. lia. }
      rewrite Hnn. unfold idx. rewrite Hnv. cbn [of_option obind]. exists (CEnum (Some u)). split; [|reflexivity].
      cbn [upcell]. rewrite Hu1. reflexivity.
  - destruct (H5 eq_refl) as [_ He]. subst ext. inversion Hr0; subst r0. clear Hr0.
    split; [reflexivity|]. split; [exact Hok0|].
    intros p x Hx. cbn [cell_at] in Hx |- *. unfold idx in *.
    destruct (nth_error d p) as [r|] eqn:Ed; cbn [of_option obind] in Hx |- *; [|discriminate].
    unfold enum_string in *. destruct (enum_is_null r) eqn:En; cbn [obind] in Hx |- *.
    + inversion Hx; subst x. exists (CEnum None). split; reflexivity.
    + unfold idx in Hx |- *. destruct (nth_error values (N.to_nat r)) as [s|] eqn:Es; cbn [of_option obind] in Hx; [|discriminate].
      inversion Hx; subst x. destruct (Hval r s Es) as [u [Hu1 Hu2]]. rewrite Hu2. cbn [of_option obind].
      exists (CEnum (Some u)). split; [|reflexivity]. cbn [upcell]. rewrite Hu1. reflexivity.
Qed.

Section Instr.
  Variable ut : upper_table.
  Variable L : pairs.
  Hypothesis H121 : one2one L.

  (* ---- the built in ToUpper, string columns: upper-cased strings at the index, "" elsewhere *)
  Lemma s_upper_sim f g d1 d2 :
    Rel L f g -> act L (ix f) (ix g) -> col_ok (phys_len f) (SCol d1) -> col_ok (phys_len g) (SCol d2) ->
    cells_sim L (SCol d1) (SCol d2) ->
    match s_to_upper ut d1 (ix f), s_to_upper ut d2 (ix g) with
    | Ok r1, Ok r2 => col_sim L r1 r2 /\ col_ok (phys_len f) r1 /\ col_ok (phys_len g) r2
    | Panic, Panic | Fail, Fail => True
    | _, _ => False
    end.
  Proof.
    intros HR Ha [Hl1 _] [Hl2 _] Hc. cbn [col_len] in Hl1, Hl2.
    pose proof Ha as [Hlen [Hincl [Hnd1 Hnd2]]].
    set (g1 := fun p => do s <- idx d1 p; match s with None => Ok (CStr None) | Some b => do u <- upper_of ut b; Ok (CStr (Some u)) end).
    set (g2 := fun p => do s <- idx d2 p; match s with None => Ok (CStr None) | Some b => do u <- upper_of ut b; Ok (CStr (Some u)) end).
    assert (Hvals : omap g1 (ix f) = omap g2 (ix g)).
    { apply omap_sim; [exact Hlen|]. intros p q Hpq. destruct (Hc p q (Hincl _ Hpq)) as [x [H1 H2]].
      unfold g1, g2. cbn [cell_at] in H1, H2.
      destruct (idx d1 p) as [s1| |]; cbn [obind] in H1; try discriminate.
      destruct (idx d2 q) as [s2| |]; cbn [obind] in H2; try discriminate.
      cbn [obind]. rewrite <- H2 in H1. inversion H1; subst. reflexivity. }
    assert (Hempty : forall (f0 : frame), phys_len f0 = 0 -> WF f0 -> ix f0 = []).
    { intros f0 H0 [_ Hi]. destruct (ix f0) as [|p r]; [reflexivity|]. inversion Hi; subst. lia. }
    unfold s_to_upper. fold g1 g2.
    destruct d1 as [|s1 d1']; [|set (dd1 := s1 :: d1') in *]; (destruct d2 as [|s2 d2']; [|set (dd2 := s2 :: d2') in *]).
    - split; [split; [reflexivity|]|split; split; auto]. intros p q Hpq. destruct (r_rng _ _ _ HR p q Hpq). simpl in *. lia.
    - (* f has no physical rows: both indexes are empty *)
      simpl in Hl1. assert (E1 : ix f = []) by (apply Hempty; [auto|apply HR]).
      assert (E2 : ix g = []) by (destruct (ix g); [reflexivity|rewrite E1 in Hlen; discriminate]).
      rewrite E2. cbn [omap obind scatter].
      assert (Hm : map (fun _ : option bytes => CStr (Some [])) dd2 = repeat (CStr (Some [])) (length dd2))
        by (clear; induction dd2; simpl; congruence).
      rewrite Hm.
      destruct (col_of_cells_spec TString (repeat (CStr (Some [])) (length dd2))) as [r [Hr [Hrt [Hrl Hcell]]]];
        [discriminate|apply repeat_Forall; reflexivity|].
      rewrite Hr. split; [split; [symmetry; exact Hrt|]|].
      + intros p q Hpq. destruct (r_rng _ _ _ HR p q Hpq). lia.
      + split; [split; auto|]. split; [rewrite Hrl, repeat_length; exact Hl2|apply col_wf_nonenum; rewrite Hrt; discriminate].
    - simpl in Hl2. assert (E2 : ix g = []) by (apply Hempty; [auto|apply HR]).
      assert (E1 : ix f = []) by (destruct (ix f); [reflexivity|rewrite E2 in Hlen; discriminate]).
      rewrite E1. cbn [omap obind scatter].
      assert (Hm : map (fun _ : option bytes => CStr (Some [])) dd1 = repeat (CStr (Some [])) (length dd1))
        by (clear; induction dd1; simpl; congruence).
      rewrite Hm.
      destruct (col_of_cells_spec TString (repeat (CStr (Some [])) (length dd1))) as [r [Hr [Hrt [Hrl Hcell]]]];
        [discriminate|apply repeat_Forall; reflexivity|].
      rewrite Hr. split; [split; [exact Hrt|]|].
      + intros p q Hpq. destruct (r_rng _ _ _ HR p q Hpq). lia.
      + split; [|split; auto]. split; [rewrite Hrl, repeat_length; exact Hl1|apply col_wf_nonenum; rewrite Hrt; discriminate].
    - rewrite <- Hvals. destruct (omap g1 (ix f)) as [vals| |] eqn:Ev; cbn [obind]; try exact I.
      assert (Hm1 : map (fun _ : option bytes => CStr (Some [])) dd1 = repeat (CStr (Some [])) (phys_len f))
        by (rewrite <- Hl1; clear; induction dd1; simpl; congruence).
      assert (Hm2 : map (fun _ : option bytes => CStr (Some [])) dd2 = repeat (CStr (Some [])) (phys_len g))
        by (rewrite <- Hl2; clear; induction dd2; simpl; congruence).
      rewrite Hm1, Hm2.
      assert (Hty : Forall (fun y => cell_type_ok TString y = true) vals).
      { apply (omap_Forall _ _ _ _ Ev). intros p b _ Hb. unfold g1 in Hb.
        destruct (idx dd1 p) as [[s|]| |]; cbn [obind] in Hb; try discriminate.
        - destruct (upper_of ut s); cbn [obind] in Hb; try discriminate. inversion Hb. reflexivity.
        - inversion Hb. reflexivity. }
      pose proof (loop_sim L (ix f) (ix g) (phys_len f) (phys_len g) H121 Ha (r_rng _ _ _ HR) TString (CStr (Some [])) vals
                    ltac:(discriminate) eq_refl Hty) as Hloop.
      destruct (do cells <- scatter _ (ix f) vals; col_of_cells TString cells) as [r1| |],
               (do cells <- scatter _ (ix g) vals; col_of_cells TString cells) as [r2| |]; try contradiction; try exact I.
      destruct Hloop as [H1 [H2 [H3 _]]]. auto.
  Qed.

  (* ---- the built in ToUpper, enum columns *)
  Lemma e_upper_sim f g d1 v1 s1 d2 v2 s2 :
    col_ok (phys_len f) (ECol d1 v1 s1) -> col_ok (phys_len g) (ECol d2 v2 s2) ->
    cells_sim L (ECol d1 v1 s1) (ECol d2 v2 s2) ->
    upper_e_okb ut v1 = true -> upper_e_okb ut v2 = true ->
    match e_to_upper ut d1 v1, e_to_upper ut d2 v2 with
    | Ok r1, Ok r2 => col_sim L r1 r2 /\ col_ok (phys_len f) r1 /\ col_ok (phys_len g) r2
    | _, _ => False
    end.
  Proof.
    intros Ho1 Ho2 Hc Hu1 Hu2.
    destruct (e_upper_spec ut d1 v1 s1 _ Ho1 Hu1) as [r1 [E1 [T1 [K1 C1]]]].
    destruct (e_upper_spec ut d2 v2 s2 _ Ho2 Hu2) as [r2 [E2 [T2 [K2 C2]]]].
    rewrite E1, E2. split; [split; [congruence|]|split; assumption].
    intros p q Hpq. destruct (Hc p q Hpq) as [x [X1 X2]].
    destruct (C1 p x X1) as [y [Y1 Y2]]. destruct (C2 q x X2) as [y' [Y1' Y2']].
    exists y. split; [exact Y2|]. rewrite Y2'. congruence.
  Qed.

  Definition col_out (f g : frame) (o1 o2 : outcome coldata) : Prop :=
    match o1, o2 with
    | Ok r1, Ok r2 => col_sim L r1 r2 /\ col_ok (phys_len f) r1 /\ col_ok (phys_len g) r2
    | Panic, Panic | Fail, Fail => True
    | _, _ => False
    end.

  Lemma col_ftype_sim c1 c2 : col_type c1 = col_type c2 -> col_ftype c1 = col_ftype c2.
  Proof. intro H. unfold col_ftype. rewrite H. reflexivity. Qed.

  Definition upper_prem (c : coldata) (fn : afn) : Prop :=
    match c, fn with
    | ECol _ vs _, FBuiltin nm => bytes_eqb nm name_ToUpper = true -> upper_e_okb ut vs = true
    | _, _ => True
    end.

  Lemma col_apply1_sim f g c1 c2 fn :
    Rel L f g -> act L (ix f) (ix g) -> col_sim L c1 c2 -> col_ok (phys_len f) c1 -> col_ok (phys_len g) c2 ->
    afn_wf fn = true -> upper_prem c1 fn -> upper_prem c2 fn ->
    col_out f g (col_apply1 ut c1 fn (ix f)) (col_apply1 ut c2 fn (ix g)).
  Proof.
    intros HR Ha [Ht Hc] Ho1 Ho2 Hfn Hp1 Hp2. pose proof Ha as [Hlen [Hincl _]].
    destruct fn as [ty vals|k|src|tin tout tbl|ty tbl|nm|]; try exact I.
    - (* func(T) U *)
      unfold col_apply1. rewrite <- (col_ftype_sim c1 c2 Ht).
      destruct (ctype_eqb (col_ftype c1) tin && negb (ctype_eqb tout TEnum)) eqn:Esig; [|exact I].
      apply andb_true_iff in Esig as [_ Hte]. apply negb_true_iff in Hte. apply ctype_neq_eqb in Hte.
      rewrite (cells_sim_bind2 L c1 c2 (tbl1 tbl) (ix f) (ix g) Hc Hlen Hincl).
      destruct (omap _ (ix g)) as [vals| |] eqn:Ev; cbn [obind]; try exact I.
      assert (Hty : Forall (fun y => cell_type_ok tout y = true) vals).
      { apply (omap_Forall _ _ _ _ Ev). intros p b _ Hb. destruct (cell_at c2 p) as [x| |]; simpl in Hb; try discriminate.
        apply (tbl1_typed tout tbl x b Hfn Hb). }
      destruct Ho1 as [Hl1 Hw1]. destruct Ho2 as [Hl2 Hw2]. rewrite Hl1, Hl2.
      pose proof (loop_sim L (ix f) (ix g) (phys_len f) (phys_len g) H121 Ha (r_rng _ _ _ HR) tout (zero_cell tout) vals
                    Hte (zero_cell_ok tout Hte) Hty) as Hloop.
      destruct (do cells <- scatter _ (ix f) vals; col_of_cells tout cells) as [r1| |],
               (do cells <- scatter _ (ix g) vals; col_of_cells tout cells) as [r2| |]; try contradiction; try exact I.
      destruct Hloop as [H1 [H2 [H3 _]]]. repeat split; try apply H1; try apply H2; try apply H3.
    - (* built in function name *)
      destruct c1 as [d1|d1|d1|d1|d1 v1 s1], c2 as [d2|d2|d2|d2|d2 v2 s2]; try discriminate Ht; try exact I.
      + cbn [col_apply1]. destruct (assocb nm GenTables.t_s_apply); [|exact I].
        destruct (bytes_eqb nm name_ToUpper); [|exact I].
        apply (s_upper_sim f g d1 d2 HR Ha Ho1 Ho2 Hc).
      + cbn [col_apply1]. destruct (assocb nm GenTables.t_e_apply); [|exact I].
        cbn [upper_prem] in Hp1, Hp2. destruct (bytes_eqb nm name_ToUpper) eqn:En; [|exact I].
        pose proof (e_upper_sim f g d1 v1 s1 d2 v2 s2 Ho1 Ho2 Hc (Hp1 eq_refl) (Hp2 eq_refl)) as H.
        unfold col_out. destruct (e_to_upper ut d1 v1), (e_to_upper ut d2 v2); try contradiction. exact H.
  Qed.

  Lemma col_apply2_sim f g c1 c2 e1 e2 fn :
    Rel L f g -> act L (ix f) (ix g) -> col_sim L c1 c2 -> col_sim L e1 e2 ->
    col_ok (phys_len f) c1 -> col_ok (phys_len g) c2 -> afn_wf fn = true ->
    col_out f g (col_apply2 c1 e1 fn (ix f)) (col_apply2 c2 e2 fn (ix g)).
  Proof.
    intros HR Ha [Ht Hc] [Hte He] Ho1 Ho2 Hfn. pose proof Ha as [Hlen [Hincl _]].
    unfold col_apply2. rewrite <- Ht, <- Hte.
    destruct (negb (ctype_eqb (col_type c1) (col_type e1))); [exact I|].
    destruct fn as [ty vals|k|src|tin tout tbl|ty tbl|nm|]; try exact I.
    rewrite <- (col_ftype_sim c1 c2 Ht).
    destruct (ctype_eqb (col_ftype c1) ty) eqn:Ety; [|exact I].
    assert (Hne : ty <> TEnum) by (apply (OpsProofs2.col_ftype_not_enum c1 ty Ety)).
    assert (Hvals : omap (fun p => do x <- cell_at c1 p; do y <- cell_at e1 p; tbl2 tbl x y) (ix f)
                    = omap (fun p => do x <- cell_at c2 p; do y <- cell_at e2 p; tbl2 tbl x y) (ix g)).
    { apply omap_sim; [exact Hlen|]. intros p q Hpq.
      destruct (Hc p q (Hincl _ Hpq)) as [x [X1 X2]]. destruct (He p q (Hincl _ Hpq)) as [y [Y1 Y2]].
      rewrite X1, X2, Y1, Y2. reflexivity. }
    rewrite Hvals. destruct (omap _ (ix g)) as [vals| |] eqn:Ev; cbn [obind]; try exact I.
    assert (Hty : Forall (fun y => cell_type_ok ty y = true) vals).
    { apply (omap_Forall _ _ _ _ Ev). intros p b _ Hb. destruct (cell_at c2 p) as [x| |]; simpl in Hb; try discriminate.
      destruct (cell_at e2 p) as [y| |]; simpl in Hb; try discriminate.
      apply (tbl2_typed ty tbl x y b Hfn Hb). }
    destruct Ho1 as [Hl1 Hw1]. destruct Ho2 as [Hl2 Hw2]. rewrite Hl1, Hl2.
    pose proof (loop_sim L (ix f) (ix g) (phys_len f) (phys_len g) H121 Ha (r_rng _ _ _ HR) ty (zero_cell ty) vals
                  Hne (zero_cell_ok ty Hne) Hty) as Hloop.
    destruct (do cells <- scatter _ (ix f) vals; col_of_cells ty cells) as [r1| |],
             (do cells <- scatter _ (ix g) vals; col_of_cells ty cells) as [r2| |]; try contradiction; try exact I.
    destruct Hloop as [H1 [H2 [H3 _]]]. repeat split; try apply H1; try apply H2; try apply H3.
  Qed.

  Lemma Rel_lookup_ok f g name c1 c2 :
    Rel L f g -> lookup_col f name = Some c1 -> lookup_col g name = Some c2 ->
    col_sim L c1 c2 /\ col_ok (phys_len f) c1 /\ col_ok (phys_len g) c2.
  Proof.
    intros HR H1 H2. pose proof (lookup_col_sim L f g name (r_cols _ _ _ HR)) as Hs. rewrite H1, H2 in Hs.
    split; [exact Hs|]. split; [apply (WF_lookup f name c1 (r_wf1 _ _ _ HR) H1)|apply (WF_lookup g name c2 (r_wf2 _ _ _ HR) H2)].
  Qed.

  Lemma copy_sim f g dst src : Rel L f g -> sim_out L f g (Ok (copy f dst src)) (Ok (copy g dst src)).
  Proof.
    intro HR. unfold copy. rewrite <- (r_err _ _ _ HR). destruct (ferr f); [apply sim_out_self; exact HR|].
    pose proof (lookup_col_sim L f g src (r_cols _ _ _ HR)) as Hs.
    destruct (lookup_col f src) as [c1|] eqn:E1, (lookup_col g src) as [c2|] eqn:E2; try contradiction;
      [|apply sim_out_err; exact HR].
    destruct (bytes_eqb dst src); [apply sim_out_self; exact HR|].
    destruct (Rel_lookup_ok f g src c1 c2 HR E1 E2) as [K1 [K2 K3]].
    apply (sim_out_set L f g dst (Ok c1) (Ok c2) HR). auto.
  Qed.

  (* one instruction of Apply, on two frames related by L, over paired row indexes *)
  Theorem apply_instr_sim f g i :
    Rel L f g -> act L (ix f) (ix g) -> afn_wf (ifn i) = true ->
    enum_upper_okb ut f i = true -> enum_upper_okb ut g i = true ->
    sim_out L f g (apply_instr ut f i) (apply_instr ut g i).
  Proof.
    intros HR Ha Hfn Hu1 Hu2. pose proof (r_err _ _ _ HR) as Herr.
    unfold apply_instr. unfold enum_upper_okb in Hu1, Hu2. rewrite <- Herr in Hu2.
    destruct (empty_name (isrc1 i)); [|destruct (empty_name (isrc2 i))].
    - (* apply0 *)
      unfold apply0. rewrite <- Herr. destruct (ferr f); [apply sim_out_self; exact HR|].
      destruct (ifn i) as [ty vals|k|src|tin tout tbl|ty tbl|nm|]; try (apply sim_out_err; exact HR).
      + destruct (ctype_eqb ty TEnum) eqn:Ete; [exact I|]. apply ctype_neq_eqb in Ete.
        simpl in Hfn. apply andb_true_iff in Hfn as [_ Hty]. apply forallb_Forall in Hty.
        pose proof (loop_sim L (ix f) (ix g) (phys_len f) (phys_len g) H121 Ha (r_rng _ _ _ HR) ty (zero_cell ty) vals
                      Ete (zero_cell_ok ty Ete) Hty) as Hloop.
        assert (Hbind : forall (h : frame) n J,
                  (do cells <- scatter (repeat (zero_cell ty) n) J vals; do c <- col_of_cells ty cells; Ok (set_column h (idst i) c))
                  = match (do cells <- scatter (repeat (zero_cell ty) n) J vals; col_of_cells ty cells) with
                    | Ok r => Ok (set_column h (idst i) r) | Fail => Fail | Panic => Panic end).
        { intros h n J. destruct (scatter (repeat (zero_cell ty) n) J vals) as [a| |]; cbn [obind]; reflexivity. }
        rewrite !Hbind.
        destruct (do cells <- scatter _ (ix f) vals; col_of_cells ty cells) as [r1| |],
                 (do cells <- scatter _ (ix g) vals; col_of_cells ty cells) as [r2| |]; try contradiction; try exact I.
        apply (sim_out_set L f g (idst i) (Ok r1) (Ok r2) HR). destruct Hloop as [H1 [H2 [H3 _]]]. auto.
      + destruct k as [z|b|b|s|s]; try exact I;
          (match goal with |- sim_out _ _ _ (do col <- const_col ?k _; _) _ =>
             destruct (OpsProofs2.const_col_spec k (phys_len f) ltac:(intros ? ?; discriminate)) as [r1 [E1 [T1 [L1 C1]]]];
             destruct (OpsProofs2.const_col_spec k (phys_len g) ltac:(intros ? ?; discriminate)) as [r2 [E2 [T2 [L2 C2]]]];
             rewrite E1, E2; cbn [obind];
             apply (sim_out_set L f g (idst i) (Ok r1) (Ok r2) HR);
             (split; [split; [congruence|]|split; split; try assumption; apply col_wf_nonenum; rewrite ?T1, ?T2; discriminate]);
             intros p q Hpq; destruct (r_rng _ _ _ HR p q Hpq) as [Hp Hq]; exists k; split; [apply C1; exact Hp|apply C2; exact Hq]
           end).
      + apply copy_sim. exact HR.
    - (* apply1 *)
      unfold apply1. rewrite <- Herr. destruct (ferr f); [apply sim_out_self; exact HR|].
      pose proof (lookup_col_sim L f g (isrc1 i) (r_cols _ _ _ HR)) as Hs.
      destruct (lookup_col f (isrc1 i)) as [c1|] eqn:E1, (lookup_col g (isrc1 i)) as [c2|] eqn:E2; try contradiction;
        [|apply sim_out_err; exact HR].
      destruct (Rel_lookup_ok f g _ c1 c2 HR E1 E2) as [K1 [K2 K3]].
      apply (sim_out_set L f g (idst i) _ _ HR).
      apply (col_apply1_sim f g c1 c2 (ifn i) HR Ha K1 K2 K3 Hfn).
      * unfold upper_prem. destruct c1; try exact I. destruct (ifn i); try exact I. intro En. rewrite En in Hu1. exact Hu1.
      * unfold upper_prem. destruct c2; try exact I. destruct (ifn i); try exact I. intro En. rewrite En in Hu2. exact Hu2.
    - (* apply2 *)
      unfold apply2. rewrite <- Herr. destruct (ferr f); [apply sim_out_self; exact HR|].
      pose proof (lookup_col_sim L f g (isrc1 i) (r_cols _ _ _ HR)) as Hs1.
      pose proof (lookup_col_sim L f g (isrc2 i) (r_cols _ _ _ HR)) as Hs2.
      destruct (lookup_col f (isrc1 i)) as [c1|] eqn:E1, (lookup_col g (isrc1 i)) as [c2|] eqn:E2; try contradiction;
        [|apply sim_out_err; exact HR].
      destruct (lookup_col f (isrc2 i)) as [e1|] eqn:E3, (lookup_col g (isrc2 i)) as [e2|] eqn:E4; try contradiction;
        [|apply sim_out_err; exact HR].
      destruct (Rel_lookup_ok f g _ c1 c2 HR E1 E2) as [K1 [K2 K3]].
      apply (sim_out_set L f g (idst i) _ _ HR).
      apply (col_apply2_sim f g c1 c2 e1 e2 (ifn i) HR Ha K1 Hs2 K2 K3 Hfn).
  Qed.
End Instr.

(* ------------------------------------------------------------------ Rel <-> the same logical table *)

Lemma cols_sim_row L cs1 cs2 p q :
  cols_sim L cs1 cs2 -> In (p, q) L ->
  omap (fun nc : bytes * coldata => cell_at (snd nc) p) cs1 = omap (fun nc : bytes * coldata => cell_at (snd nc) q) cs2.
Proof.
  intros H Hpq. induction H as [|a b l l' [_ [_ Hc]] _ IH]; [reflexivity|].
  simpl. destruct (Hc p q Hpq) as [x [H1 H2]]. rewrite H1, H2, IH. reflexivity.
Qed.

Lemma cols_sim_intro L : forall cs1 cs2,
  map fst cs1 = map fst cs2 ->
  map (fun nc : bytes * coldata => col_type (snd nc)) cs1 = map (fun nc : bytes * coldata => col_type (snd nc)) cs2 ->
  (forall p q, In (p, q) L -> exists row,
      omap (fun nc : bytes * coldata => cell_at (snd nc) p) cs1 = Ok row
      /\ omap (fun nc : bytes * coldata => cell_at (snd nc) q) cs2 = Ok row) ->
  cols_sim L cs1 cs2.
Proof.
  induction cs1 as [|[n1 c1] cs1 IH]; intros [|[n2 c2] cs2] Hn Ht Hrow; try discriminate; [constructor|].
  simpl in Hn, Ht. inversion Hn; inversion Ht; subst. constructor.
  - split; [reflexivity|]. split; [assumption|]. intros p q Hpq. destruct (Hrow p q Hpq) as [row [R1 R2]].
    apply omap_cons_inv in R1 as [y [ys [Hy [_ ->]]]]. apply omap_cons_inv in R2 as [y' [ys' [Hy' [_ E]]]].
    inversion E; subst. exists y'. split; assumption.
  - apply IH; try assumption. intros p q Hpq. destruct (Hrow p q Hpq) as [row [R1 R2]].
    apply omap_cons_inv in R1 as [y [ys [_ [Hys ->]]]]. apply omap_cons_inv in R2 as [y' [ys' [_ [Hys' E]]]].
    inversion E; subst. exists ys'. split; assumption.
Qed.

Theorem rel_of_abs f g t :
  abs f = Ok t -> abs g = Ok t -> ferr f = ferr g -> wf_frame f = true -> wf_frame g = true ->
  Rel (combine (ix f) (ix g)) f g /\ length (ix f) = length (ix g).
Proof.
  intros Hf Hg He Hw1 Hw2. apply wf_frame_WF in Hw1, Hw2.
  destruct (abs_rows f t Hf) as [R1 [N1 T1]]. destruct (abs_rows g t Hg) as [R2 [N2 T2]].
  assert (Hlen : length (ix f) = length (ix g)).
  { rewrite <- (omap_length _ _ _ R1), <- (omap_length _ _ _ R2). reflexivity. }
  split; [|exact Hlen]. split; try assumption.
  - apply cols_sim_intro; [unfold col_names in *; congruence|congruence|].
    intros p q Hpq. apply In_combine_nth in Hpq as [k [K1 K2]].
    destruct (omap_nth _ _ _ _ _ R1 K1) as [b [B1 B2]]. destruct (omap_nth _ _ _ _ _ R2 K2) as [b' [B1' B2']].
    exists b. unfold row_at in B1, B1'. split; [exact B1|]. rewrite B1'. congruence.
  - intros p q Hpq. apply In_combine_nth in Hpq as [k [K1 K2]].
    destruct Hw1 as [_ I1]. destruct Hw2 as [_ I2]. rewrite Forall_forall in I1, I2.
    split; [apply I1; apply (nth_error_In _ _ K1)|apply I2; apply (nth_error_In _ _ K2)].
Qed.

Theorem abs_of_rel L f g :
  Rel L f g -> length (ix f) = length (ix g) -> incl (combine (ix f) (ix g)) L -> abs f = abs g.
Proof.
  intros HR Hl Hi. unfold abs.
  assert (Hrows : omap (row_at f) (ix f) = omap (row_at g) (ix g)).
  { apply omap_sim; [exact Hl|]. intros p q Hpq. unfold row_at. apply (cols_sim_row L). apply HR. apply Hi. exact Hpq. }
  rewrite Hrows. unfold col_names. rewrite (cols_sim_names L _ _ (r_cols _ _ _ HR)), (cols_sim_types L _ _ (r_cols _ _ _ HR)).
  reflexivity.
Qed.

Lemma Rel_with_ix L f g i j :
  Rel L f g -> Forall (fun p => p < phys_len f) i -> Forall (fun q => q < phys_len g) j ->
  Rel L (with_ix f i) (with_ix g j).
Proof.
  intros [H1 H2 [H3 _] [H4 _] H5] Hi Hj. split; try assumption; split; assumption.
Qed.

(* ------------------------------------------------------------------ instruction lists *)

Fixpoint upper_prog_okb (ut : upper_table) (f : frame) (is : list instr) : bool :=
  match is with
  | [] => true
  | i :: is' => enum_upper_okb ut f i
                && match apply_instr ut f i with Ok g => upper_prog_okb ut g is' | _ => true end
  end.

(* the premise of the no-panic theorem of C10 implies it *)
Lemma apply_tables_upper_prog ut : forall is f, apply_tables_okb ut f is = true -> upper_prog_okb ut f is = true.
Proof.
  induction is as [|i is IH]; intros f H; [reflexivity|]. cbn [apply_tables_okb upper_prog_okb] in *.
  apply andb_true_iff in H as [H1 H2]. rewrite (instr_tables_enum_upper ut f i H1). cbn [andb].
  destruct (apply_instr ut f i) as [g| |]; [apply IH; exact H2|reflexivity|reflexivity].
Qed.

(* a program without ToUpper needs no premise about the oracle at all *)
Lemma no_builtin_upper_prog ut : forall is f,
  forallb (fun i => no_builtin (ifn i)) is = true -> upper_prog_okb ut f is = true.
Proof.
  induction is as [|i is IH]; intros f H; [reflexivity|]. cbn [forallb upper_prog_okb] in *.
  apply andb_true_iff in H as [H1 H2]. apply andb_true_iff. split.
  - unfold enum_upper_okb. destruct (ferr f); [reflexivity|]. destruct (empty_name (isrc1 i)); [reflexivity|].
    destruct (empty_name (isrc2 i)); [|reflexivity]. destruct (lookup_col f (isrc1 i)) as [[]|]; try reflexivity.
    destruct (ifn i); try reflexivity. discriminate.
  - destruct (apply_instr ut f i); [apply IH; exact H2|reflexivity|reflexivity].
Qed.

Theorem apply_sim ut L : one2one L -> forall is f g,
  Rel L f g -> act L (ix f) (ix g) -> forallb (fun i => afn_wf (ifn i)) is = true ->
  upper_prog_okb ut f is = true -> upper_prog_okb ut g is = true ->
  sim_out L f g (apply ut f is) (apply ut g is).
Proof.
  intros H121. induction is as [|i is IH]; intros f g HR Ha Hfn Hu1 Hu2.
  - apply sim_out_self. exact HR.
  - cbn [forallb upper_prog_okb] in *. apply andb_true_iff in Hfn as [Hfn Hfns].
    apply andb_true_iff in Hu1 as [Hu1 Hu1s]. apply andb_true_iff in Hu2 as [Hu2 Hu2s].
    pose proof (apply_instr_sim ut L H121 f g i HR Ha Hfn Hu1 Hu2) as Hi.
    rewrite !apply_cons. unfold sim_out in Hi.
    destruct (apply_instr ut f i) as [f1| |], (apply_instr ut g i) as [g1| |]; try contradiction; [|exact I].
    destruct Hi as [HR1 [If Ig]].
    assert (Ha1 : act L (ix f1) (ix g1)) by (rewrite If, Ig; exact Ha).
    pose proof (IH f1 g1 HR1 Ha1 Hfns Hu1s Hu2s) as Hrest. unfold sim_out in *.
    destruct (apply ut f1 is) as [f2| |], (apply ut g1 is) as [g2| |]; try contradiction; [|exact I].
    destruct Hrest as [HR2 [If2 Ig2]]. split; [exact HR2|]. split; congruence.
Qed.

(* what two results have in common *)
Definition same_result (o1 o2 : outcome frame) : Prop :=
  match o1, o2 with
  | Ok f', Ok g' => ferr f' = ferr g' /\ abs f' = abs g'
  | Panic, Panic => True
  | _, _ => False
  end.

(* a frame with Err exposes nothing but its Err (Len = -1, every view is an error): results are compared by
   their Err state and, without Err, by their logical tables *)
Definition same_visible (o1 o2 : outcome frame) : Prop :=
  match o1, o2 with
  | Ok f', Ok g' => ferr f' = ferr g' /\ (ferr f' = false -> abs f' = abs g')
  | Panic, Panic => True
  | _, _ => False
  end.

Lemma same_result_visible o1 o2 : same_result o1 o2 -> same_visible o1 o2.
Proof. unfold same_result, same_visible. destruct o1, o2; tauto. Qed.

Lemma act_full f g : length (ix f) = length (ix g) -> NoDup (ix f) -> NoDup (ix g) ->
  act (combine (ix f) (ix g)) (ix f) (ix g).
Proof. intros Hl H1 H2. split; [exact Hl|]. split; [apply incl_refl|]. split; assumption. Qed.

(* C09: Apply - every instruction kind, every program - is a function of the logical table *)
Theorem apply_congr ut f g t is :
  abs f = Ok t -> abs g = Ok t -> ferr f = ferr g ->
  wf_frame f = true -> wf_frame g = true -> NoDup (ix f) -> NoDup (ix g) ->
  forallb (fun i => afn_wf (ifn i)) is = true ->
  upper_prog_okb ut f is = true -> upper_prog_okb ut g is = true ->
  same_result (apply ut f is) (apply ut g is).
Proof.
  intros Hf Hg He Hw1 Hw2 Hn1 Hn2 Hfn Hu1 Hu2.
  destruct (rel_of_abs f g t Hf Hg He Hw1 Hw2) as [HR Hl].
  pose proof (apply_sim ut _ (one2one_combine _ _ Hn1 Hn2) is f g HR (act_full f g Hl Hn1 Hn2) Hfn Hu1 Hu2) as H.
  unfold sim_out, same_result in *.
  destruct (apply ut f is) as [f'| |], (apply ut g is) as [g'| |]; try contradiction; [|exact I].
  destruct H as [HR' [If Ig]]. split; [apply HR'|].
  apply (abs_of_rel _ f' g' HR'); rewrite If, Ig; [exact Hl|apply incl_refl].
Qed.

(* WithRowNums *)
Theorem with_row_nums_congr f g t name :
  abs f = Ok t -> abs g = Ok t -> ferr f = ferr g ->
  wf_frame f = true -> wf_frame g = true -> NoDup (ix f) -> NoDup (ix g) ->
  same_result (with_row_nums f name) (with_row_nums g name).
Proof.
  intros Hf Hg He Hw1 Hw2 Hn1 Hn2. unfold with_row_nums.
  destruct (rel_of_abs f g t Hf Hg He Hw1 Hw2) as [_ Hl]. rewrite <- Hl.
  apply (apply_congr [] f g t _ Hf Hg He Hw1 Hw2 Hn1 Hn2).
  - cbn [forallb ifn afn_wf ctype_eqb negb andb]. rewrite andb_true_r. apply forallb_forall.
    intros x Hx. apply in_map_iff in Hx as [k [<- _]]. reflexivity.
  - apply no_builtin_upper_prog. reflexivity.
  - apply no_builtin_upper_prog. reflexivity.
Qed.

(* ------------------------------------------------------------------ FilteredApply, given what Filter returns *)

(* the two filter results agree: same outcome, same Err, and without Err the kept rows are paired through L *)
Definition filter_sim_out (L : pairs) (f g : frame) (o1 o2 : outcome frame) : Prop :=
  match o1, o2 with
  | Ok ff, Ok gg =>
      ferr ff = ferr gg
      /\ (if ferr ff then True
          else cols ff = cols f /\ cols gg = cols g /\ act L (ix ff) (ix gg))
  | Panic, Panic => True
  | _, _ => False
  end.

Theorem filtered_apply_sim mt ut f g t c is :
  abs f = Ok t -> abs g = Ok t -> ferr f = ferr g ->
  wf_frame f = true -> wf_frame g = true -> NoDup (ix f) -> NoDup (ix g) ->
  filter_sim_out (combine (ix f) (ix g)) f g (frame_filter mt f c) (frame_filter mt g c) ->
  forallb (fun i => afn_wf (ifn i)) is = true ->
  (forall ff, frame_filter mt f c = Ok ff -> upper_prog_okb ut (with_ix f (ix ff)) is = true) ->
  (forall gg, frame_filter mt g c = Ok gg -> upper_prog_okb ut (with_ix g (ix gg)) is = true) ->
  same_visible (filtered_apply mt ut f c is) (filtered_apply mt ut g c is).
Proof.
  intros Hf Hg He Hw1 Hw2 Hn1 Hn2 Hflt Hfn Hu1 Hu2.
  destruct (rel_of_abs f g t Hf Hg He Hw1 Hw2) as [HR Hl].
  set (L := combine (ix f) (ix g)) in *.
  unfold filtered_apply, filter_sim_out in *.
  destruct (frame_filter mt f c) as [ff| |], (frame_filter mt g c) as [gg| |]; try contradiction; [|exact I].
  cbn [obind]. destruct Hflt as [Hee Hrest]. rewrite <- Hee.
  destruct (ferr ff) eqn:Eff; [split; [congruence|intro; congruence]|].
  destruct Hrest as [_ [_ Hact]].
  destruct (act_in_range L _ _ _ _ Hact (r_rng _ _ _ HR)) as [I1 I2].
  assert (HR0 : Rel L (with_ix f (ix ff)) (with_ix g (ix gg))) by (apply Rel_with_ix; assumption).
  pose proof (apply_sim ut L (one2one_combine _ _ Hn1 Hn2) is _ _ HR0 Hact Hfn (Hu1 ff eq_refl) (Hu2 gg eq_refl)) as H.
  pose proof (apply_post ut is (with_ix f (ix ff)) (r_wf1 _ _ _ HR0)) as P1.
  pose proof (apply_post ut is (with_ix g (ix gg)) (r_wf2 _ _ _ HR0)) as P2.
  unfold sim_out, same_visible in *.
  destruct (apply ut (with_ix f (ix ff)) is) as [r1| |], (apply ut (with_ix g (ix gg)) is) as [r2| |];
    try contradiction; [|exact I].
  cbn [obind post] in *. destruct H as [HR' _]. destruct P1 as [_ [_ P1]]. destruct P2 as [_ [_ P2]].
  change (phys_len (with_ix f (ix ff))) with (phys_len f) in P1. change (phys_len (with_ix g (ix gg))) with (phys_len g) in P2.
  assert (HRf : Rel L (with_ix r1 (ix f)) (with_ix r2 (ix g))).
  { apply Rel_with_ix; [exact HR'|rewrite P1; apply (r_wf1 _ _ _ HR)|rewrite P2; apply (r_wf2 _ _ _ HR)]. }
  split; [apply HR'|]. intros _. apply (abs_of_rel L _ _ HRf); [exact Hl|apply incl_refl].
Qed.

(* ------------------------------------------------------------------ Filter: the row-wise specification reads a row
   only through its cells - and through the value list and strictness of enum columns (rank order, strict
   constants), which the logical table does not show: they are an explicit premise *)

Definition enum_meta (c : coldata) : option (list bytes * bool) :=
  match c with ECol _ vs st => Some (vs, st) | _ => None end.

Definition enum_metas (f : frame) : list (option (list bytes * bool)) := map (fun nc => enum_meta (snd nc)) (cols f).

Section SatSim.
  Variable mt : matcher_table.
  Variables f g : frame.
  Variable L : pairs.
  Hypothesis HR : Rel L f g.
  Hypothesis Hmeta : enum_metas f = enum_metas g.
  Variables p q : nat.
  Hypothesis Hpq : In (p, q) L.

  (* two columns in the same position of the two frames, seen at the paired positions p and q *)
  Definition psim (c1 c2 : coldata) : Prop :=
    col_type c1 = col_type c2 /\ enum_meta c1 = enum_meta c2 /\ exists x, cell_at c1 p = Ok x /\ cell_at c2 q = Ok x.

  Lemma lookup_from_psim name : forall cs1 cs2 pos (acc1 acc2 : option (nat * coldata)),
    cols_sim L cs1 cs2 -> map (fun nc => enum_meta (snd nc)) cs1 = map (fun nc => enum_meta (snd nc)) cs2 ->
    match acc1, acc2 with None, None => True | Some (_, c1), Some (_, c2) => psim c1 c2 | _, _ => False end ->
    match lookup_from name cs1 pos acc1, lookup_from name cs2 pos acc2 with
    | None, None => True | Some (_, c1), Some (_, c2) => psim c1 c2 | _, _ => False end.
  Proof.
    induction cs1 as [|[n1 c1] cs1 IH]; intros cs2 pos acc1 acc2 H Hm Ha;
      inversion H as [|? [n2 c2] ? cs2' [Hn [Ht Hc]] Hrest]; subst.
    - exact Ha.
    - cbn [fst snd] in *. subst n2. cbn [lookup_from]. simpl in Hm. inversion Hm as [[Hm1 Hm2]].
      apply IH; [exact Hrest|exact Hm2|].
      destruct (bytes_eqb n1 name); [|exact Ha]. split; [exact Ht|]. split; [exact Hm1|]. apply Hc. exact Hpq.
  Qed.

  Lemma lookup_psim name :
    match lookup_col f name, lookup_col g name with
    | None, None => True
    | Some c1, Some c2 => psim c1 c2 /\ col_len c1 = phys_len f /\ col_len c2 = phys_len g
    | _, _ => False
    end.
  Proof.
    pose proof (lookup_from_psim name (cols f) (cols g) 0 None None (r_cols _ _ _ HR) Hmeta I) as H.
    fold (lookup f name) in H. fold (lookup g name) in H.
    pose proof (WF_lookup f name) as W1. pose proof (WF_lookup g name) as W2. unfold lookup_col in *.
    destruct (lookup f name) as [[k1 c1]|], (lookup g name) as [[k2 c2]|]; cbn [option_map snd] in *;
      try contradiction; try exact I.
    split; [exact H|]. split; [apply (W1 c1 (r_wf1 _ _ _ HR) eq_refl)|apply (W2 c2 (r_wf2 _ _ _ HR) eq_refl)].
  Qed.

  (* raw reads *)
  Lemma raw_i d1 d2 : psim (ICol d1) (ICol d2) -> exists z, idx d1 p = Ok z /\ idx d2 q = Ok z.
  Proof.
    intros [_ [_ [x [H1 H2]]]]. cbn [cell_at] in H1, H2.
    destruct (idx d1 p) as [z1| |]; cbn [obind] in H1; try discriminate.
    destruct (idx d2 q) as [z2| |]; cbn [obind] in H2; try discriminate.
    exists z1. split; [reflexivity|]. congruence.
  Qed.
  Lemma raw_f d1 d2 : psim (FCol d1) (FCol d2) -> exists z, idx d1 p = Ok z /\ idx d2 q = Ok z.
  Proof.
    intros [_ [_ [x [H1 H2]]]]. cbn [cell_at] in H1, H2.
    destruct (idx d1 p) as [z1| |]; cbn [obind] in H1; try discriminate.
    destruct (idx d2 q) as [z2| |]; cbn [obind] in H2; try discriminate.
    exists z1. split; [reflexivity|]. congruence.
  Qed.
  Lemma raw_b d1 d2 : psim (BCol d1) (BCol d2) -> exists z, idx d1 p = Ok z /\ idx d2 q = Ok z.
  Proof.
    intros [_ [_ [x [H1 H2]]]]. cbn [cell_at] in H1, H2.
    destruct (idx d1 p) as [z1| |]; cbn [obind] in H1; try discriminate.
    destruct (idx d2 q) as [z2| |]; cbn [obind] in H2; try discriminate.
    exists z1. split; [reflexivity|]. congruence.
  Qed.
  Lemma raw_s d1 d2 : psim (SCol d1) (SCol d2) -> exists z, idx d1 p = Ok z /\ idx d2 q = Ok z.
  Proof.
    intros [_ [_ [x [H1 H2]]]]. cbn [cell_at] in H1, H2.
    destruct (idx d1 p) as [z1| |]; cbn [obind] in H1; try discriminate.
    destruct (idx d2 q) as [z2| |]; cbn [obind] in H2; try discriminate.
    exists z1. split; [reflexivity|]. congruence.
  Qed.
  Lemma raw_e d1 v1 s1 d2 v2 s2 : psim (ECol d1 v1 s1) (ECol d2 v2 s2) ->
    v1 = v2 /\ s1 = s2 /\ exists s, cell_at (ECol d1 v1 s1) p = Ok (CEnum s) /\ cell_at (ECol d2 v2 s2) q = Ok (CEnum s).
  Proof.
    intros [_ [Hm [x [H1 H2]]]]. cbn [enum_meta] in Hm. inversion Hm; subst. split; [reflexivity|]. split; [reflexivity|].
    assert (exists s, x = CEnum s) as [s ->].
    { cbn [cell_at] in H1. destruct (idx d1 p) as [r| |]; cbn [obind] in H1; try discriminate.
      destruct (enum_string v2 r) as [s| |]; cbn [obind] in H1; try discriminate. exists s. congruence. }
    exists s. split; assumption.
  Qed.

  Lemma float_slice_psim d1 d2 : psim (ICol d1) (ICol d2) -> psim (FCol (float_slice d1)) (FCol (float_slice d2)).
  Proof.
    intro H. destruct (raw_i d1 d2 H) as [z [Z1 Z2]]. split; [reflexivity|]. split; [reflexivity|].
    exists (CFloat (i2f z)). unfold idx, float_slice in *. cbn [cell_at]. unfold idx. rewrite !nth_error_map.
    destruct (nth_error d1 p); cbn [of_option] in Z1; try discriminate.
    destruct (nth_error d2 q); cbn [of_option] in Z2; try discriminate.
    inversion Z1; inversion Z2; subst. split; reflexivity.
  Qed.

  Lemma equal_types_sim v (d1 d1' d2 d2' : list N) v' :
    length d1 = length d1' -> length d2 = length d2' ->
    equal_types v (length d1) v' (length d1') = equal_types v (length d2) v' (length d2').
  Proof. intros H1 H2. unfold equal_types. rewrite <- H1, <- H2, !Nat.eqb_refl. reflexivity. Qed.

  Lemma builtin_sim c1 c2 cmp a :
    psim c1 c2 -> col_len c1 = phys_len f -> col_len c2 = phys_len g ->
    builtin_sat mt f c1 cmp a p = builtin_sat mt g c2 cmp a q.
  Proof.
    intros Hp Hl1 Hl2. pose proof Hp as [Ht _].
    destruct c1 as [d1|d1|d1|d1|d1 v1 s1], c2 as [d2|d2|d2|d2|d2 v2 s2]; try discriminate Ht.
    - destruct (raw_i d1 d2 Hp) as [z [Z1 Z2]]. unfold builtin_sat. cbn [cell_at]. rewrite Z1, Z2. cbn [obind].
      destruct a; try reflexivity.
      pose proof (lookup_psim n) as Hn. destruct (lookup_col f n) as [e1|], (lookup_col g n) as [e2|]; try contradiction; try reflexivity.
      destruct Hn as [Hn _]. pose proof Hn as [Hte _].
      destruct e1 as [x1|x1|x1|x1|x1 w1 t1], e2 as [x2|x2|x2|x2|x2 w2 t2]; try discriminate Hte; try reflexivity.
      + destruct (raw_i x1 x2 Hn) as [w [W1 W2]]. rewrite W1, W2. reflexivity.
      + destruct (raw_f x1 x2 Hn) as [w [W1 W2]]. rewrite W1, W2. reflexivity.
    - destruct (raw_f d1 d2 Hp) as [z [Z1 Z2]]. unfold builtin_sat. cbn [cell_at]. rewrite Z1, Z2. cbn [obind].
      destruct a; try reflexivity.
      pose proof (lookup_psim n) as Hn. destruct (lookup_col f n) as [e1|], (lookup_col g n) as [e2|]; try contradiction; try reflexivity.
      destruct Hn as [Hn _]. pose proof Hn as [Hte _].
      destruct e1 as [x1|x1|x1|x1|x1 w1 t1], e2 as [x2|x2|x2|x2|x2 w2 t2]; try discriminate Hte; try reflexivity.
      + destruct (raw_i x1 x2 Hn) as [w [W1 W2]]. rewrite W1, W2. reflexivity.
      + destruct (raw_f x1 x2 Hn) as [w [W1 W2]]. rewrite W1, W2. reflexivity.
    - destruct (raw_b d1 d2 Hp) as [z [Z1 Z2]]. unfold builtin_sat. cbn [cell_at]. rewrite Z1, Z2. cbn [obind].
      destruct a; try reflexivity.
      pose proof (lookup_psim n) as Hn. destruct (lookup_col f n) as [e1|], (lookup_col g n) as [e2|]; try contradiction; try reflexivity.
      destruct Hn as [Hn _]. pose proof Hn as [Hte _].
      destruct e1 as [x1|x1|x1|x1|x1 w1 t1], e2 as [x2|x2|x2|x2|x2 w2 t2]; try discriminate Hte; try reflexivity.
      destruct (raw_b x1 x2 Hn) as [w [W1 W2]]. rewrite W1, W2. reflexivity.
    - destruct (raw_s d1 d2 Hp) as [z [Z1 Z2]]. unfold builtin_sat. cbn [cell_at]. rewrite Z1, Z2. cbn [obind].
      destruct (norm_strs a); try reflexivity.
      pose proof (lookup_psim n) as Hn. destruct (lookup_col f n) as [e1|], (lookup_col g n) as [e2|]; try contradiction; try reflexivity.
      destruct Hn as [Hn _]. pose proof Hn as [Hte _].
      destruct e1 as [x1|x1|x1|x1|x1 w1 t1], e2 as [x2|x2|x2|x2|x2 w2 t2]; try discriminate Hte; try reflexivity.
      destruct (raw_s x1 x2 Hn) as [w [W1 W2]]. rewrite W1, W2. reflexivity.
    - destruct (raw_e _ _ _ _ _ _ Hp) as [-> [-> [s [Z1 Z2]]]]. unfold builtin_sat. rewrite Z1, Z2. cbn [obind].
      destruct (norm_strs a); try reflexivity.
      pose proof (lookup_psim n) as Hn. destruct (lookup_col f n) as [e1|], (lookup_col g n) as [e2|]; try contradiction; try reflexivity.
      destruct Hn as [Hn [Hle1 Hle2]]. pose proof Hn as [Hte _].
      destruct e1 as [x1|x1|x1|x1|x1 w1 t1], e2 as [x2|x2|x2|x2|x2 w2 t2]; try discriminate Hte; try reflexivity.
      destruct (raw_e _ _ _ _ _ _ Hn) as [-> [-> [w [W1 W2]]]].
      change (cell_at (ECol x1 w2 false) p) with (cell_at (ECol x1 w2 t2) p).
      change (cell_at (ECol x2 w2 false) q) with (cell_at (ECol x2 w2 t2) q).
      rewrite W1, W2. cbn [obind]. cbn [col_len] in *.
      rewrite (equal_types_sim v2 d1 x1 d2 x2 w2) by congruence. reflexivity.
  Qed.

  Lemma psim_cell c1 c2 : psim c1 c2 -> cell_at c1 p = cell_at c2 q.
  Proof. intros [_ [_ [x [H1 H2]]]]. congruence. Qed.
  Lemma psim_fn_type c1 c2 t : psim c1 c2 -> fn_type_ok c1 t = fn_type_ok c2 t.
  Proof. intros [Ht _]. unfold fn_type_ok, col_ftype. rewrite Ht. reflexivity. Qed.

  (* the int column promoted to float when the other operand is a float column *)
  Lemma promote_psim c1 c2 e1 e2 : psim c1 c2 -> psim e1 e2 ->
    psim (match c1, e1 with ICol d, FCol _ => FCol (float_slice d) | _, _ => c1 end)
         (match c2, e2 with ICol d, FCol _ => FCol (float_slice d) | _, _ => c2 end).
  Proof.
    intros Hc He. pose proof Hc as [Ht _]. pose proof He as [Hte _].
    destruct c1, c2; try discriminate Ht; try exact Hc;
      destruct e1, e2; try discriminate Hte; try exact Hc.
    apply float_slice_psim. exact Hc.
  Qed.

  Lemma leaf_sim l : leaf_sat mt f l p = leaf_sat mt g l q.
  Proof.
    unfold leaf_sat. pose proof (lookup_psim (lcol l)) as Hl.
    destruct (lookup_col f (lcol l)) as [c1|], (lookup_col g (lcol l)) as [c2|]; try contradiction; [|reflexivity].
    destruct Hl as [Hp [Hl1 Hl2]].
    match goal with |- obind ?a _ = obind ?b _ => assert (a = b) as ->; [|reflexivity] end.
    destruct (lcmp l) as [s|t tbl|t tbl|].
    - destruct (larg l) eqn:Ea; try (apply builtin_sim; assumption).
      pose proof (lookup_psim n) as Hn.
      destruct (lookup_col f n) as [e1|], (lookup_col g n) as [e2|]; try contradiction; [|reflexivity].
      apply builtin_sim; assumption.
    - destruct (larg l) eqn:Ea;
        try (rewrite (psim_fn_type c1 c2 t Hp), (psim_cell c1 c2 Hp); reflexivity).
      pose proof (lookup_psim n) as Hn.
      destruct (lookup_col f n) as [e1|], (lookup_col g n) as [e2|]; try contradiction; [|reflexivity].
      destruct Hn as [Hn _]. pose proof (promote_psim c1 c2 e1 e2 Hp Hn) as Hp'. cbv zeta.
      rewrite (psim_fn_type _ _ t Hp'), (psim_cell _ _ Hp'). reflexivity.
    - destruct (larg l) eqn:Ea; try reflexivity.
      pose proof (lookup_psim n) as Hn.
      destruct (lookup_col f n) as [e1|], (lookup_col g n) as [e2|]; try contradiction; [|reflexivity].
      destruct Hn as [Hn _].
      pose proof (promote_psim c1 c2 e1 e2 Hp Hn) as Hp1. pose proof (promote_psim e1 e2 c1 c2 Hn Hp) as Hp2.
      assert (Hpair : forall (A : Type) (K : coldata -> coldata -> A),
                 (let '(c', c2') := match c1, e1 with
                                    | ICol d, FCol _ => (FCol (float_slice d), e1)
                                    | FCol _, ICol d2 => (c1, FCol (float_slice d2))
                                    | _, _ => (c1, e1) end in K c' c2')
                 = K (match c1, e1 with ICol d, FCol _ => FCol (float_slice d) | _, _ => c1 end)
                     (match e1, c1 with ICol d, FCol _ => FCol (float_slice d) | _, _ => e1 end)).
      { intros A K. destruct c1, e1; reflexivity. }
      assert (Hpair2 : forall (A : Type) (K : coldata -> coldata -> A),
                 (let '(c', c2') := match c2, e2 with
                                    | ICol d, FCol _ => (FCol (float_slice d), e2)
                                    | FCol _, ICol d2 => (c2, FCol (float_slice d2))
                                    | _, _ => (c2, e2) end in K c' c2')
                 = K (match c2, e2 with ICol d, FCol _ => FCol (float_slice d) | _, _ => c2 end)
                     (match e2, c2 with ICol d, FCol _ => FCol (float_slice d) | _, _ => e2 end)).
      { intros A K. destruct c2, e2; reflexivity. }
      rewrite (Hpair _ (fun c' c2' => if fn_type_ok c' t && ctype_eqb (col_type c') (col_type c2')
                                      then do x <- cell_at c' p; do y <- cell_at c2' p;
                                           Ok match find (fun e => cell_key_eqb (fst (fst e)) x && cell_key_eqb (snd (fst e)) y) tbl with
                                              | Some e => det (snd e) | None => open_ end
                                      else Ok invalid)).
      rewrite (Hpair2 _ (fun c' c2' => if fn_type_ok c' t && ctype_eqb (col_type c') (col_type c2')
                                       then do x <- cell_at c' q; do y <- cell_at c2' q;
                                            Ok match find (fun e => cell_key_eqb (fst (fst e)) x && cell_key_eqb (snd (fst e)) y) tbl with
                                               | Some e => det (snd e) | None => open_ end
                                       else Ok invalid)).
      rewrite (psim_fn_type _ _ t Hp1), (psim_cell _ _ Hp1), (psim_cell _ _ Hp2).
      destruct Hp1 as [T1 _]. destruct Hp2 as [T2 _]. rewrite T1, T2. reflexivity.
    - reflexivity.
  Qed.

  Lemma clause_sim c : clause_sat mt f c p = clause_sat mt g c q.
  Proof.
    induction c as [l| |c IH|cs IH|cs IH] using clause_ind2.
    - apply leaf_sim.
    - reflexivity.
    - cbn [clause_sat]. rewrite IH. reflexivity.
    - rewrite !clause_sat_and. destruct cs as [|c0 cs]; [reflexivity|].
      induction IH as [|c cs' Hc _ IHl]; [reflexivity|]. cbn [and_go]. rewrite Hc, IHl. reflexivity.
    - rewrite !clause_sat_or. destruct cs as [|c0 cs]; [reflexivity|].
      induction IH as [|c cs' Hc _ IHl]; [reflexivity|]. cbn [or_go]. rewrite Hc, IHl. reflexivity.
  Qed.
End SatSim.

(* ------------------------------------------------------------------ QFrame.Filter *)

Definition same_verdict (v1 v2 : filter_verdict) : Prop :=
  match v1, v2 with
  | VRows _, VRows _ | VError, VError | VOpen, VOpen | VFault, VFault => True
  | _, _ => False
  end.

Lemma spec_go_sim mt f g c : forall i1 i2 acc1 acc2 opened,
  length i1 = length i2 -> (forall p q, In (p, q) (combine i1 i2) -> clause_sat mt f c p = clause_sat mt g c q) ->
  same_verdict (spec_go mt f c i1 acc1 opened) (spec_go mt g c i2 acc2 opened).
Proof.
  induction i1 as [|p i1 IH]; intros [|q i2] acc1 acc2 opened Hl H; try discriminate.
  - cbn [spec_go]. destruct opened; exact I.
  - cbn [spec_go]. rewrite <- (H p q (or_introl eq_refl)).
    assert (Hl' : length i1 = length i2) by (simpl in Hl; lia).
    assert (H' : forall p0 q0, In (p0, q0) (combine i1 i2) -> clause_sat mt f c p0 = clause_sat mt g c q0)
      by (intros; apply H; right; assumption).
    destruct (clause_sat mt f c p) as [[[[|]|]|]| |]; try exact I; apply IH; assumption.
Qed.

Lemma c02_premises_parts mt f c : c02_premises_b mt f c = true ->
  wf_frame f = true /\ ferr f = false /\ NoDup (ix f).
Proof.
  unfold c02_premises_b. intro H.
  apply andb_true_iff in H as [H _]. apply andb_true_iff in H as [H _].
  apply andb_true_iff in H as [H Hnd]. apply andb_true_iff in H as [H Hne]. apply andb_true_iff in H as [Hw _].
  split; [exact Hw|]. split; [apply negb_true_iff; exact Hne|].
  apply (FilterTypedFrame.nodupb_ok Nat.eqb Nat.eqb_eq). exact Hnd.
Qed.

(* C09 for Filter.  Premises: those of the C02 theorem for BOTH frames (c02_premises_b: well formed, no Err,
   pairwise different enum values, duplicate-free index, the specification answers on every row of the frame for
   every leaf, no "not in"), at least one row, and - beyond the same logical table - the same enum value lists
   and strictness, column by column (enum_metas).  The conclusion also says where the kept rows are (paired
   through the two indexes), which is what FilteredApply needs. *)
Theorem filter_congr mt f g t c :
  abs f = Ok t -> abs g = Ok t ->
  c02_premises_b mt f c = true -> c02_premises_b mt g c = true -> trows t <> [] ->
  enum_metas f = enum_metas g ->
  filter_sim_out (combine (ix f) (ix g)) f g (frame_filter mt f c) (frame_filter mt g c)
  /\ same_visible (frame_filter mt f c) (frame_filter mt g c).
Proof.
  intros Hf Hg P1 P2 Hne Hm.
  destruct (c02_premises_parts mt f c P1) as [Hw1 [He1 Hn1]]. destruct (c02_premises_parts mt g c P2) as [Hw2 [He2 Hn2]].
  destruct (rel_of_abs f g t Hf Hg ltac:(congruence) Hw1 Hw2) as [HR Hl].
  set (L := combine (ix f) (ix g)) in *.
  assert (Hne1 : ix f <> []).
  { intro E. apply Hne. pose proof (abs_length f t Hf) as H. rewrite E in H. destruct (trows t); [reflexivity|discriminate]. }
  assert (Hne2 : ix g <> []) by (intro E; rewrite E in Hl; destruct (ix f); [congruence|discriminate]).
  assert (Hsat : forall p q, In (p, q) L -> clause_sat mt f c p = clause_sat mt g c q).
  { intros p q Hpq. apply (clause_sim mt f g L HR Hm p q Hpq). }
  pose proof (filter_meets_spec mt f c P1 Hne1) as M1. pose proof (filter_meets_spec mt g c P2 Hne2) as M2.
  pose proof (spec_go_sim mt f g c (ix f) (ix g) [] [] false Hl Hsat) as Hv.
  rewrite <- !filter_spec_go in Hv. unfold same_verdict in Hv.
  destruct (filter_spec mt f c) as [r1| | |], (filter_spec mt g c) as [r2| | |]; try contradiction.
  - destruct M1 as [F1 R1]. destruct M2 as [F2 R2]. rewrite F1, F2.
    destruct (combine_filter_incl (fun p => sat_true (clause_sat mt f c p)) (fun q => sat_true (clause_sat mt g c q))
                (ix f) (ix g) Hl ltac:(intros p q Hpq; cbv beta; rewrite (Hsat p q Hpq); reflexivity)) as [Hi Hlen].
    rewrite <- R1, <- R2 in Hi, Hlen.
    assert (Hact : act L r1 r2).
    { split; [exact Hlen|]. split; [exact Hi|]. subst r1 r2. split; apply NoDup_filter; assumption. }
    unfold filter_sim_out, same_visible. cbn [ferr with_ix ix cols]. rewrite He1, He2.
    split; [split; [reflexivity|split; [reflexivity|split; [reflexivity|exact Hact]]]|].
    split; [reflexivity|]. intros _.
    destruct (act_in_range L r1 r2 _ _ Hact (r_rng _ _ _ HR)) as [I1 I2].
    apply (abs_of_rel L _ _ (Rel_with_ix L f g r1 r2 HR I1 I2)); [exact Hlen|exact Hi].
  - destruct M1 as [g1 [F1 E1]]. destruct M2 as [g2 [F2 E2]]. rewrite F1, F2.
    unfold filter_sim_out, same_visible. rewrite E1, E2. split; [split; [reflexivity|exact I]|].
    split; [reflexivity|discriminate].
Qed.

(* FilteredApply *)
Theorem filtered_apply_congr mt ut f g t c is :
  abs f = Ok t -> abs g = Ok t ->
  c02_premises_b mt f c = true -> c02_premises_b mt g c = true -> trows t <> [] ->
  enum_metas f = enum_metas g ->
  forallb (fun i => afn_wf (ifn i)) is = true ->
  (forall ff, frame_filter mt f c = Ok ff -> upper_prog_okb ut (with_ix f (ix ff)) is = true) ->
  (forall gg, frame_filter mt g c = Ok gg -> upper_prog_okb ut (with_ix g (ix gg)) is = true) ->
  same_visible (filtered_apply mt ut f c is) (filtered_apply mt ut g c is).
Proof.
  intros Hf Hg P1 P2 Hne Hm Hfn Hu1 Hu2.
  destruct (c02_premises_parts mt f c P1) as [Hw1 [He1 Hn1]]. destruct (c02_premises_parts mt g c P2) as [Hw2 [He2 Hn2]].
  destruct (filter_congr mt f g t c Hf Hg P1 P2 Hne Hm) as [Hflt _].
  apply (filtered_apply_sim mt ut f g t c is Hf Hg ltac:(congruence) Hw1 Hw2 Hn1 Hn2 Hflt Hfn Hu1 Hu2).
Qed.

(* ------------------------------------------------------------------ QFrame.Eval, from the C07 theorem *)

Section EvalCongr.
  Import QF.Model.Eval QF.Proofs.EvalFullBase QF.Corr.FrameCorr.

  Lemma contains_names f g m : col_names f = col_names g -> contains f m = contains g m.
  Proof.
    intro H. destruct (contains f m) eqn:E1, (contains g m) eqn:E2; try reflexivity.
    - apply contains_In in E1. rewrite H in E1. apply contains_In in E1. congruence.
    - apply contains_In in E2. rewrite <- H in E2. apply contains_In in E2. congruence.
  Qed.

  Theorem eval_congr ut cx f g t dst e :
    abs f = Ok t -> abs g = Ok t -> ferr f = ferr g -> wf_frame f = true -> wf_frame g = true ->
    EvalFull.ctx_ok cx = true -> EvalFull.names_ok f = true -> EvalFull.expr_ok f e = true ->
    (N.of_nat (length (cols f) + EvalFull.temps_needed e) <= 10000)%N -> EvalFull.has_open cx t e = false ->
    same_visible (eval ut cx f dst e) (eval ut cx g dst e).
  Proof.
    intros Hf Hg He Hw1 Hw2 Hcx Hn Hok Hb Hop.
    destruct (ferr f) eqn:Ef.
    { unfold eval. rewrite Ef, <- He. split; [congruence|intro; congruence]. }
    symmetry in He.
    destruct (abs_rows f t Hf) as [_ [N1 _]]. destruct (abs_rows g t Hg) as [_ [N2 _]].
    assert (Hnames : col_names f = col_names g) by congruence.
    assert (Hn2 : EvalFull.names_ok g = true) by (unfold EvalFull.names_ok in *; rewrite <- Hnames; exact Hn).
    assert (Hok2 : EvalFull.expr_ok g e = true).
    { unfold EvalFull.expr_ok in *. apply andb_true_iff in Hok as [H1 H2]. rewrite H2, andb_true_r.
      rewrite forallb_forall in *. intros m Hm. specialize (H1 m Hm). unfold EvalFull.hyg in *.
      rewrite <- (contains_names f g m Hnames). exact H1. }
    assert (Hb2 : (N.of_nat (length (cols g) + EvalFull.temps_needed e) <= 10000)%N).
    { replace (length (cols g)) with (length (cols f)); [exact Hb|].
      unfold col_names in Hnames. rewrite <- (map_length fst (cols f)), <- (map_length fst (cols g)), Hnames. reflexivity. }
    pose proof (EvalFull.eval_full ut cx f dst e t Hcx Hw1 Ef Hn Hok Hb Hf) as M1.
    pose proof (EvalFull.eval_full ut cx g dst e t Hcx Hw2 He Hn2 Hok2 Hb2 Hg) as M2.
    unfold EvalFull.eval_meets in *.
    destruct (denote cx t e) as [[[ty cs]|]|].
    - destruct M1 as [f' [F1 R1]]. destruct M2 as [g' [F2 R2]]. rewrite F1, F2. unfold same_visible.
      destruct (EvalFull.is_col_ref e dst).
      + subst f' g'. split; [congruence|intros _; congruence].
      + destruct (check_name dst).
        * destruct R1 as [A1 [_ [_ A2]]]. destruct R2 as [B1 [_ [_ B2]]]. split; [congruence|intros _; congruence].
        * split; [congruence|intro; congruence].
    - rewrite M1, M2. exact I.
    - destruct M1 as [[M1 _]|[f' [F1 R1]]]; [congruence|]. destruct M2 as [[M2 _]|[g' [F2 R2]]]; [congruence|].
      rewrite F1, F2. split; [congruence|intro; congruence].
  Qed.
End EvalCongr.

(* ------------------------------------------------------------------ C06: the built in ToUpper on the logical table *)

Lemma omap_ok_in {A B} (g : A -> outcome B) l r a : omap g l = Ok r -> In a l -> exists b, g a = Ok b.
Proof.
  intros H Ha. apply In_nth_error in Ha as [k Hk]. destruct (omap_nth _ _ _ _ _ H Hk) as [b [Hb _]]. exists b. exact Hb.
Qed.

(* the column a ToUpper instruction builds, read through the row index: upcell of the source cells *)
Lemma col_upper_cells ut c index n cells :
  col_ok n c -> (col_type c = TString \/ col_type c = TEnum) -> NoDup index -> Forall (fun p => p < n) index ->
  fn1_tables_okb ut c (FBuiltin name_ToUpper) index = true ->
  omap (cell_at c) index = Ok cells ->
  exists r vals, col_apply1 ut c (FBuiltin name_ToUpper) index = Ok r /\ col_ok n r /\ col_type r = col_type c
    /\ omap (upcell ut) cells = Ok vals /\ omap (cell_at r) index = Ok vals.
Proof.
  intros Hok Hty Hnd Hin Htab Hcells. unfold fn1_tables_okb in Htab. rewrite bytes_eqb_refl in Htab.
  destruct c as [d|d|d|d|d vs st]; try (destruct Hty; discriminate).
  - (* string column *)
    cbn [col_apply1]. destruct (assocb name_ToUpper GenTables.t_s_apply) as [nm0|] eqn:Eas; [|vm_compute in Eas; discriminate].
    rewrite bytes_eqb_refl. destruct Hok as [Hl _]. cbn [col_len] in Hl.
    unfold s_to_upper.
    set (g1 := fun p => do s <- idx d p; match s with None => Ok (CStr None) | Some b => do u <- upper_of ut b; Ok (CStr (Some u)) end).
    assert (Hg1 : omap g1 index = omap (upcell ut) cells).
    { rewrite <- (omap_compose (cell_at (SCol d)) (upcell ut) index cells Hcells).
      apply omap_ext_local. intros p _. unfold g1. cbn [cell_at]. destruct (idx d p) as [[s|]| |]; reflexivity. }
    destruct d as [|s0 d'].
    + (* no physical rows: the source itself *)
      assert (index = []) by (destruct index as [|p r]; [reflexivity|inversion Hin; subst; simpl in *; lia]). subst index.
      inversion Hcells; subst cells. exists (SCol []), []. repeat split; reflexivity || assumption.
    + set (dd := s0 :: d') in *.
      destruct (post_total _ _ _ (s_to_upper_post ut dd index n (conj Hl eq_refl) Hin) Htab) as [r [Hr Hrok]].
      unfold s_to_upper in Hr. fold g1 in Hr. change (match dd with [] => Ok (SCol dd) | _ :: _ => ?x end) with x in Hr.
      fold g1. destruct (omap g1 index) as [vals| |] eqn:Ev; cbn [obind] in Hr |- *; try discriminate.
      assert (Hm : map (fun _ : option bytes => CStr (Some [])) dd = repeat (CStr (Some [])) n)
        by (rewrite <- Hl; clear; induction dd; simpl; congruence).
      rewrite Hm in Hr |- *.
      assert (Hvty : Forall (fun y => cell_type_ok TString y = true) vals).
      { apply (omap_Forall _ _ _ _ Ev). intros p b _ Hb. unfold g1 in Hb.
        destruct (idx dd p) as [[s|]| |]; cbn [obind] in Hb; try discriminate.
        - destruct (upper_of ut s); cbn [obind] in Hb; try discriminate. inversion Hb. reflexivity.
        - inversion Hb. reflexivity. }
      assert (Hvl : length index <= length vals) by (rewrite (omap_length _ _ _ Ev); lia).
      destruct (scatter_col_gen TString (CStr (Some [])) n index vals ltac:(discriminate) eq_refl Hnd Hin Hvl Hvty)
        as [arr [r' [Ha [Hc [Ht [Hlr [Hv _]]]]]]].
      rewrite Ha in Hr |- *. cbn [obind] in Hr |- *. rewrite Hc in Hr |- *. inversion Hr; subst r'.
      exists r, vals. split; [reflexivity|]. split; [exact Hrok|]. split; [exact Ht|]. split; [symmetry; exact Hg1|].
      rewrite Hv. rewrite firstn_all2; [reflexivity|]. rewrite (omap_length _ _ _ Ev). lia.
  - (* enum column *)
    cbn [col_apply1]. destruct (assocb name_ToUpper GenTables.t_e_apply) as [nm0|] eqn:Eas; [|vm_compute in Eas; discriminate].
    rewrite bytes_eqb_refl.
    destruct (e_upper_spec ut d vs st n Hok Htab) as [r0 [E0 [T0 [K0 C0]]]].
    assert (Hr0 : omap (cell_at r0) index = omap (upcell ut) cells).
    { rewrite <- (omap_compose (cell_at (ECol d vs st)) (upcell ut) index cells Hcells).
      apply omap_ext_local. intros p Hp. destruct (omap_ok_in _ _ _ p Hcells Hp) as [x Hx].
      destruct (C0 p x Hx) as [y [Y1 Y2]]. rewrite Hx, Y2. cbn [obind]. symmetry. exact Y1. }
    destruct (omap_total (cell_at r0) index) as [vals Hvals].
    { intros p Hp. destruct K0 as [Kl Kw]. apply cell_at_total; [exact Kw|]. rewrite Kl. rewrite Forall_forall in Hin. apply Hin. exact Hp. }
    exists r0, vals. split; [exact E0|]. split; [exact K0|]. split; [exact T0|]. split; [rewrite <- Hr0; exact Hvals|exact Hvals].
Qed.

(* Apply(Instruction{Fn: "ToUpper", DstCol: dst, SrcCol1: src}) on the logical table:
   string and enum source columns: dst (replaced in position / appended last, the type of the source) holds
   upcell of the source cell of the same row - the upper-cased string (oracle table ut), null stays null - and
   nothing else changes; a source column of another type is an error.  Premises: a well-formed frame with a
   duplicate-free index, a legal destination name, and the oracle table answers (for a string column on the strings
   of the frame's rows; for an enum column on EVERY entry of its value list, as the implementation upper-cases
   the whole list). *)
Theorem apply1_builtin_toupper_spec ut f t dst src ty cells :
  abs f = Ok t -> ferr f = false -> wf_frame f = true -> NoDup (ix f) -> check_name dst = true ->
  tcolumn t src = Some (ty, cells) ->
  (forall c, lookup_col f src = Some c -> fn1_tables_okb ut c (FBuiltin name_ToUpper) (ix f) = true) ->
  match ty with
  | TString | TEnum =>
      exists vals g, omap (upcell ut) cells = Ok vals /\ apply1 ut f (FBuiltin name_ToUpper) dst src = Ok g
                     /\ ferr g = false /\ ix g = ix f /\ wf_frame g = true
                     /\ abs g = Ok (tset_col t dst ty vals)
  | _ => apply1 ut f (FBuiltin name_ToUpper) dst src = Ok (with_err f)
  end.
Proof.
  intros Ht Hf Hwf Hnd Hn Hcol Htab.
  destruct (lookup f src) as [[k c]|] eqn:El; [|rewrite (abs_tcolumn_none f t src Ht El) in Hcol; discriminate].
  destruct (abs_tcolumn_some f t src k c Ht El) as [cells' [Hc' Hcells]]. rewrite Hc' in Hcol. inversion Hcol; subst ty cells'.
  pose proof (lookup_col_of f src k c El) as Hlc. specialize (Htab c Hlc).
  pose proof Hwf as Hwf'. apply wf_frame_WF in Hwf'.
  pose proof (WF_lookup f src c Hwf' Hlc) as Hok.
  unfold apply1. rewrite Hf, Hlc.
  assert (Hgo : col_type c = TString \/ col_type c = TEnum ->
          exists vals g, omap (upcell ut) cells = Ok vals
            /\ match col_apply1 ut c (FBuiltin name_ToUpper) (ix f) with
               | Ok r => Ok (set_column f dst r) | Fail => Ok (with_err f) | Panic => Panic end = Ok g
            /\ ferr g = false /\ ix g = ix f /\ wf_frame g = true /\ abs g = Ok (tset_col t dst (col_type c) vals)).
  { intro Hty. destruct (col_upper_cells ut c (ix f) (phys_len f) cells Hok Hty Hnd (proj2 Hwf') Htab Hcells)
      as [r [vals [Hr [Hrok [Hrt [Hv Hrv]]]]]].
    exists vals, (set_column f dst r). rewrite Hr. split; [exact Hv|]. split; [reflexivity|].
    destruct (set_column_spec f dst r Hn) as [H1 [H2 _]].
    split; [rewrite H2; exact Hf|]. split; [exact H1|].
    split; [apply wf_frame_WF; apply (set_column_kept f dst r Hwf' Hrok)|].
    rewrite <- Hrt. apply abs_set_column; assumption. }
  destruct c as [d|d|d|d|d vs st]; cbn [col_type] in *; try reflexivity; apply Hgo; auto.
Qed.

(* when the oracle table is faithful to a function up (e.g. Model/Match.v upper_spec, which C18 proves the
   model of qfstrings.ToUpper computes), upcell is "apply up to the string, keep null" *)
Lemma upcell_faithful (up : bytes -> bytes) ut x y :
  (forall s u, assocb s ut = Some u -> u = up s) -> upcell ut x = Ok y ->
  y = match x with
      | CStr (Some s) => CStr (Some (up s)) | CEnum (Some s) => CEnum (Some (up s)) | other => other
      end.
Proof.
  intros Hfaith H. destruct x as [z|b|b|[s|]|[s|]]; cbn [upcell] in H; try discriminate; try (inversion H; reflexivity);
    unfold upper_of in H; destruct (assocb s ut) as [u|] eqn:E; cbn [obind] in H; try discriminate;
    inversion H; rewrite (Hfaith s u E); reflexivity.
Qed.

(* ------------------------------------------------------------------ the summary statement *)

(* Every deterministic operation of Model/Ops.v, Model/Filter.v and Model/Eval.v maps two well-formed frames with
   the same logical table and Err state (duplicate-free indexes) to the same outcome: both panic, or both return
   frames with the same Err state and - without Err - the same logical table.  For Apply and WithRowNums the
   tables agree even when Err is set.  The premises beyond "same table" are exactly the places where the
   implementation consults data the table does not show:
     - ToUpper on an enum column upper-cases the whole value list (upper_prog_okb: the oracle table answers there);
     - Filter compares enum cells by rank and rejects unknown constants for strict enums (enum_metas: same value
       lists and strictness), and its row-wise characterisation needs at least one row and the C02 premises;
     - Eval: the premises of the C07 theorem, and no open sub-tree. *)
Definition congruence_statement2 : Prop :=
  forall f g t,
    wf_frame f = true -> wf_frame g = true -> NoDup (ix f) -> NoDup (ix g) ->
    abs f = Ok t -> abs g = Ok t -> ferr f = ferr g ->
    (forall ut is, forallb (fun i => afn_wf (ifn i)) is = true ->
                   upper_prog_okb ut f is = true -> upper_prog_okb ut g is = true ->
                   same_result (apply ut f is) (apply ut g is))
    /\ (forall name, same_result (with_row_nums f name) (with_row_nums g name))
    /\ (forall mt c, c02_premises_b mt f c = true -> c02_premises_b mt g c = true -> trows t <> [] ->
                     enum_metas f = enum_metas g ->
                     same_visible (frame_filter mt f c) (frame_filter mt g c))
    /\ (forall mt ut c is,
          c02_premises_b mt f c = true -> c02_premises_b mt g c = true -> trows t <> [] ->
          enum_metas f = enum_metas g -> forallb (fun i => afn_wf (ifn i)) is = true ->
          (forall ff, frame_filter mt f c = Ok ff -> upper_prog_okb ut (with_ix f (ix ff)) is = true) ->
          (forall gg, frame_filter mt g c = Ok gg -> upper_prog_okb ut (with_ix g (ix gg)) is = true) ->
          same_visible (filtered_apply mt ut f c is) (filtered_apply mt ut g c is))
    /\ (forall ut cx dst e,
          EvalFull.ctx_ok cx = true -> EvalFull.names_ok f = true -> EvalFull.expr_ok f e = true ->
          (N.of_nat (length (cols f) + EvalFull.temps_needed e) <= 10000)%N -> EvalFull.has_open cx t e = false ->
          same_visible (Eval.eval ut cx f dst e) (Eval.eval ut cx g dst e)).

Theorem congruence2 : congruence_statement2.
Proof.
  intros f g t Hw1 Hw2 Hn1 Hn2 Hf Hg He. repeat split.
  - intros ut is Hfn Hu1 Hu2. apply (apply_congr ut f g t is); assumption.
  - intro name. apply (with_row_nums_congr f g t name); assumption.
  - intros mt c P1 P2 Hne Hm. apply (filter_congr mt f g t c); assumption.
  - intros mt ut c is P1 P2 Hne Hm Hfn Hu1 Hu2. apply (filtered_apply_congr mt ut f g t c is); assumption.
  - intros ut cx dst e Hcx Hnm Hok Hb Hop. apply (eval_congr ut cx f g t dst e); assumption.
Qed.
